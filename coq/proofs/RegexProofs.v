(* Proofs about model/Regex.v:
   - [nullable_correct], [deriv_correct], [accepts_correct],
     [accepts_prefix_correct]: the derivative matchers decide the relational
     semantics (whole string / some prefix), for every expression, every
     text and every classification of the non-ASCII code points;
   - [bt_sound] / [bt_complete], [re_match_sound], [re_match_some_iff]: the
     backtracking matcher reports only valid parses (with exactly the
     captures that parse writes) and finds one whenever one exists;
   - [matches_ctx_indep]: without end anchors a match does not depend on
     what follows. *)
From Coq Require Import ZArith List Bool Lia.
Require Import PW.lib.Val PW.lib.ValFacts PW.model.Regex.
Import ListNotations.
Open Scope list_scope.
Open Scope Z_scope.

Section P.
  Variable U : uclass.
  Notation Matches := (Matches U).
  Notation MatchesC := (MatchesC U).

  (* ------------------------------------------------------- inversions *)
  Lemma fail_inv s rest : ~ Matches Fail s rest.
  Proof. intros H. inversion H; subst. discriminate. Qed.

  Lemma eps_inv s rest : Matches Eps s rest -> s = [].
  Proof. intros H. inversion H; reflexivity. Qed.

  Lemma cls_inv neg items s rest :
    Matches (Cls neg items) s rest ->
    exists c, s = [c] /\ cls_match U neg items c = true.
  Proof. intros H. inversion H; subst. eauto. Qed.

  Lemma seq_inv a b s rest :
    Matches (Seq a b) s rest ->
    exists s1 s2, s = s1 ++ s2 /\ Matches a s1 (s2 ++ rest) /\ Matches b s2 rest.
  Proof. intros H. inversion H; subst. eauto. Qed.

  Lemma alt_inv a b s rest :
    Matches (Alt a b) s rest -> Matches a s rest \/ Matches b s rest.
  Proof. intros H. inversion H; subst; auto. Qed.

  Lemma group_inv i nm a s rest :
    Matches (Group i nm a) s rest -> Matches a s rest.
  Proof. intros H. inversion H; subst; auto. Qed.

  Lemma endz_inv s rest : Matches EndZ s rest -> s = [] /\ rest = [].
  Proof. intros H. inversion H; auto. Qed.

  Lemma eol_inv s rest :
    Matches Eol s rest -> s = [] /\ (rest = [] \/ rest = [10]).
  Proof. intros H. inversion H; auto. Qed.

  Lemma star_cons_inv a c s rest :
    Matches (Star a) (c :: s) rest ->
    exists s1 s2, s = s1 ++ s2 /\ Matches a (c :: s1) (s2 ++ rest) /\
                  Matches (Star a) s2 rest.
  Proof.
    intros H. remember (Star a) as r eqn:Er. remember (c :: s) as cs eqn:Es.
    revert c s Es.
    induction H; intros c0 s0 Es; try discriminate.
    injection Er as ->.
    destruct s1 as [|x s1].
    - simpl in Es. apply IHMatches2; auto.
    - simpl in Es. injection Es as -> <-. exists s1, s2. auto.
  Qed.

  (* -------------------------------------------------- smart constructors *)
  Lemma is_fail_eq r : is_fail r = true -> r = Fail.
  Proof.
    destruct r; try discriminate. destruct neg; try discriminate.
    destruct items; try discriminate. reflexivity.
  Qed.
  Lemma is_eps_eq r : is_eps r = true -> r = Eps.
  Proof. destruct r; try discriminate. reflexivity. Qed.

  Lemma mkSeq_ok a b s rest :
    Matches (mkSeq a b) s rest <-> Matches (Seq a b) s rest.
  Proof.
    unfold mkSeq. destruct (is_fail a) eqn:F.
    - apply is_fail_eq in F. subst a. split; intros H.
      + exfalso. exact (fail_inv _ _ H).
      + apply seq_inv in H as (s1 & s2 & _ & H & _). exfalso.
        exact (fail_inv _ _ H).
    - destruct (is_eps a) eqn:E; [|reflexivity].
      apply is_eps_eq in E. subst a. split; intros H.
      + apply (MSeq U Eps b [] s rest); [constructor|assumption].
      + apply seq_inv in H as (s1 & s2 & -> & H1 & H2).
        apply eps_inv in H1. subst s1. exact H2.
  Qed.

  Lemma mkAlt_ok a b s rest :
    Matches (mkAlt a b) s rest <-> Matches (Alt a b) s rest.
  Proof.
    unfold mkAlt. destruct (is_fail a) eqn:F.
    - apply is_fail_eq in F. subst a. split; intros H.
      + apply MAltR. assumption.
      + apply alt_inv in H as [H|H]; [exfalso; exact (fail_inv _ _ H)|assumption].
    - destruct (is_fail b) eqn:G; [|reflexivity].
      apply is_fail_eq in G. subst b. split; intros H.
      + apply MAltL. assumption.
      + apply alt_inv in H as [H|H]; [assumption|exfalso; exact (fail_inv _ _ H)].
  Qed.

  (* ------------------------------------------------------------ nullable *)
  Lemma nullable_correct r : forall rest,
    nullable rest r = true <-> Matches r [] rest.
  Proof.
    induction r; intros rest; cbn [nullable].
    - split; intros; [constructor|reflexivity].
    - split; intros H; [discriminate|]. apply cls_inv in H as (c & H & _).
      discriminate.
    - rewrite andb_true_iff, IHr1, IHr2. split.
      + intros [H1 H2]. apply (MSeq U r1 r2 [] [] rest); assumption.
      + intros H. apply seq_inv in H as (s1 & s2 & E & H1 & H2).
        symmetry in E. apply app_eq_nil in E as [-> ->]. auto.
    - rewrite orb_true_iff, IHr1, IHr2. split.
      + intros [H|H]; [apply MAltL|apply MAltR]; assumption.
      + apply alt_inv.
    - split; intros; [constructor|reflexivity].
    - rewrite IHr. split; [apply MGroup|apply group_inv].
    - destruct rest; split; intros H; try constructor; try discriminate.
      apply endz_inv in H as [_ H]. discriminate.
    - destruct rest as [|c [|d rest]]; split; intros H; try constructor;
        try discriminate.
      + apply Z.eqb_eq in H. subst c. constructor.
      + apply eol_inv in H as [_ [H|H]]; [discriminate|].
        injection H as ->. reflexivity.
      + apply eol_inv in H as [_ [H|H]]; discriminate.
  Qed.

  (* ---------------------------------------------------------- derivative *)
  Lemma deriv_correct r : forall c s rest,
    Matches (deriv U c (s ++ rest) r) s rest <-> Matches r (c :: s) rest.
  Proof.
    induction r; intros c s rest; cbn [deriv].
    - split; intros H; [exfalso; exact (fail_inv _ _ H)|].
      apply eps_inv in H. discriminate.
    - destruct (cls_match U neg items c) eqn:E; split; intros H.
      + apply eps_inv in H. subst s. constructor. assumption.
      + apply cls_inv in H as (c' & H & _). injection H as <- ->. constructor.
      + exfalso. exact (fail_inv _ _ H).
      + apply cls_inv in H as (c' & H & H'). injection H as <- ->. congruence.
    - rewrite mkAlt_ok. split; intros H.
      + apply alt_inv in H as [H|H].
        * apply mkSeq_ok in H. apply seq_inv in H as (s1 & s2 & -> & H1 & H2).
          rewrite <- app_assoc in H1. apply IHr1 in H1.
          apply (MSeq U r1 r2 (c :: s1) s2 rest); assumption.
        * destruct (nullable (c :: s ++ rest) r1) eqn:N;
            [|exfalso; exact (fail_inv _ _ H)].
          apply IHr2 in H. apply nullable_correct in N.
          apply (MSeq U r1 r2 [] (c :: s) rest); assumption.
      + apply seq_inv in H as (s1 & s2 & E & H1 & H2).
        destruct s1 as [|x s1].
        * simpl in E. subst s2. apply MAltR.
          apply nullable_correct in H1. simpl in H1. rewrite H1.
          apply IHr2. assumption.
        * simpl in E. injection E as <- ->. apply MAltL. apply mkSeq_ok.
          apply (MSeq U _ r2 s1 s2 rest); [|assumption].
          rewrite <- app_assoc. apply IHr1. assumption.
    - rewrite mkAlt_ok. split; intros H.
      + apply alt_inv in H as [H|H]; [apply MAltL, IHr1|apply MAltR, IHr2];
          assumption.
      + apply alt_inv in H as [H|H]; [apply MAltL, IHr1|apply MAltR, IHr2];
          assumption.
    - rewrite mkSeq_ok. split; intros H.
      + apply seq_inv in H as (s1 & s2 & -> & H1 & H2).
        rewrite <- app_assoc in H1. apply IHr in H1.
        apply (MStarS U r (c :: s1) s2 rest); assumption.
      + apply star_cons_inv in H as (s1 & s2 & -> & H1 & H2).
        apply (MSeq U _ (Star r) s1 s2 rest); [|assumption].
        rewrite <- app_assoc. apply IHr. assumption.
    - split; intros H.
      + apply MGroup. apply IHr. assumption.
      + apply group_inv in H. apply IHr. assumption.
    - split; intros H; [exfalso; exact (fail_inv _ _ H)|].
      apply endz_inv in H as [H _]. discriminate.
    - split; intros H; [exfalso; exact (fail_inv _ _ H)|].
      apply eol_inv in H as [H _]. discriminate.
  Qed.

  Theorem accepts_correct : forall s r,
    accepts U r s = true <-> Matches r s [].
  Proof.
    induction s as [|c s IH]; intros r; cbn [accepts].
    - apply nullable_correct.
    - rewrite IH. pose proof (deriv_correct r c s []) as D.
      rewrite app_nil_r in D. exact D.
  Qed.

  Theorem accepts_prefix_correct : forall s r,
    accepts_prefix U r s = true <-> MatchesPrefix U r s.
  Proof.
    unfold MatchesPrefix.
    induction s as [|c s IH]; intros r; cbn [accepts_prefix];
      rewrite orb_true_iff.
    - split.
      + intros [H|H]; [|discriminate]. exists [], []. split; [reflexivity|].
        apply nullable_correct. assumption.
      + intros (s1 & s2 & E & H). symmetry in E.
        apply app_eq_nil in E as [-> ->]. left. apply nullable_correct.
        assumption.
    - rewrite IH. split.
      + intros [H|(s1 & s2 & -> & H)].
        * exists [], (c :: s). split; [reflexivity|].
          apply nullable_correct. assumption.
        * exists (c :: s1), s2. split; [reflexivity|].
          apply deriv_correct. assumption.
      + intros (s1 & s2 & E & H). destruct s1 as [|x s1].
        * simpl in E. subst s2. left. apply nullable_correct. assumption.
        * simpl in E. injection E as <- ->. right. exists s1, s2.
          split; [reflexivity|]. apply deriv_correct. assumption.
  Qed.

  (* ------------------------------------------- captures-annotated parses *)
  Lemma matchesC_erase r s rest c c' :
    MatchesC r s rest c c' -> Matches r s rest.
  Proof.
    induction 1; try (econstructor; eauto; fail).
  Qed.

  Lemma matches_annotate r s rest :
    Matches r s rest -> forall c, exists c', MatchesC r s rest c c'.
  Proof.
    induction 1; intros c0.
    - eexists; constructor.
    - eexists; constructor; assumption.
    - destruct (IHMatches1 c0) as (c1 & H1). destruct (IHMatches2 c1) as (c2 & H2).
      exists c2. econstructor; eauto.
    - destruct (IHMatches c0) as (c1 & H1). exists c1. apply CAltL. assumption.
    - destruct (IHMatches c0) as (c1 & H1). exists c1. apply CAltR. assumption.
    - eexists; constructor.
    - destruct (IHMatches1 c0) as (c1 & H1). destruct (IHMatches2 c1) as (c2 & H2).
      exists c2. econstructor; eauto.
    - destruct (IHMatches c0) as (c1 & H1). eexists. constructor. eassumption.
    - eexists; constructor.
    - eexists; constructor.
    - eexists; constructor.
  Qed.

  (* --------------------------------------------------- context independence *)
  Lemma matches_ctx_indep r s rest :
    Matches r s rest -> anchor_free r = true -> forall rest', Matches r s rest'.
  Proof.
    induction 1; cbn [anchor_free]; intros AF rest'; try discriminate.
    - constructor.
    - constructor. assumption.
    - apply andb_true_iff in AF as [A1 A2]. constructor; auto.
    - apply andb_true_iff in AF as [A1 A2]. apply MAltL. auto.
    - apply andb_true_iff in AF as [A1 A2]. apply MAltR. auto.
    - constructor.
    - constructor; auto.
    - constructor. auto.
  Qed.

  (* -------------------------------------------------- backtracking matcher *)
  Section BTProofs.
    Variable R : Type.
    Notation kont := (@kont R).

    Lemma firstn_split (s1 s2 : list Z) :
      firstn (length (s1 ++ s2) - length s2) (s1 ++ s2) = s1.
    Proof.
      rewrite app_length, Nat.add_sub, firstn_app, firstn_all, Nat.sub_diag.
      cbn [firstn]. apply app_nil_r.
    Qed.

    Definition sound_at (a : re) (m : list Z -> caps -> kont -> option R) :=
      forall s c k x, m s c k = Some x ->
        exists s1 s2 c', s = s1 ++ s2 /\ MatchesC a s1 s2 c c' /\
                         k s2 c' = Some x.

    Lemma star_loop_sound a m : sound_at a m ->
      forall n s c k x, star_loop m n s c k = Some x ->
        exists s1 s2 c', s = s1 ++ s2 /\ MatchesC (Star a) s1 s2 c c' /\
                         k s2 c' = Some x.
    Proof.
      intros Hm. induction n as [|n IH]; intros s c k x H; cbn [star_loop] in H.
      - exists [], s, c. repeat split; [constructor|assumption].
      - destruct (m s c _) as [y|] eqn:E.
        + injection H as ->. apply Hm in E as (s1 & s2 & c1 & -> & H1 & H2).
          destruct (Nat.ltb _ _); [|discriminate].
          apply IH in H2 as (s3 & s4 & c2 & -> & H3 & H4).
          exists (s1 ++ s3), s4, c2. split; [apply app_assoc|].
          split; [|assumption]. econstructor; eauto.
        + exists [], s, c. repeat split; [constructor|assumption].
    Qed.

    Theorem bt_sound r : sound_at r (bt U r).
    Proof.
      unfold sound_at. induction r; intros s c k x H; cbn [bt] in H.
      - exists [], s, c. repeat split; [constructor|assumption].
      - destruct s as [|ch s]; [discriminate|].
        destruct (cls_match U neg items ch) eqn:E; [|discriminate].
        exists [ch], s, c. repeat split; [constructor|]; assumption.
      - apply IHr1 in H as (s1 & s2 & c1 & -> & H1 & H2).
        apply IHr2 in H2 as (s3 & s4 & c2 & -> & H3 & H4).
        exists (s1 ++ s3), s4, c2. split; [apply app_assoc|].
        split; [|assumption]. econstructor; eauto.
      - destruct (bt U r1 s c k) as [y|] eqn:E.
        + injection H as ->. apply IHr1 in E as (s1 & s2 & c1 & -> & H1 & H2).
          exists s1, s2, c1. repeat split; [apply CAltL|]; assumption.
        + apply IHr2 in H as (s1 & s2 & c1 & -> & H1 & H2).
          exists s1, s2, c1. repeat split; [apply CAltR|]; assumption.
      - eapply star_loop_sound; [exact IHr|exact H].
      - apply IHr in H as (s1 & s2 & c1 & -> & H1 & H2).
        rewrite firstn_split in H2.
        exists s1, s2, ((i, s1) :: c1). repeat split; [constructor|]; assumption.
      - destruct s; [|discriminate].
        exists [], [], c. repeat split; [constructor|assumption].
      - destruct s as [|ch [|d s]]; try discriminate.
        + exists [], [], c. repeat split; [constructor|assumption].
        + destruct (ch =? 10) eqn:E; [|discriminate]. apply Z.eqb_eq in E.
          subst ch. exists [], [10], c. repeat split; [constructor|assumption].
    Qed.

    Lemma star_loop_exit m n s c (k : kont) :
      k s c <> None -> star_loop m n s c k <> None.
    Proof.
      intros H. destruct n; cbn [star_loop]; [assumption|].
      destruct (m s c _); [discriminate|assumption].
    Qed.

    Lemma bt_complete_gen r s1 s2 :
      Matches r s1 s2 ->
      (forall c (k : kont), (forall c', k s2 c' <> None) ->
                            bt U r (s1 ++ s2) c k <> None) /\
      (forall a, r = Star a -> forall n c (k : kont),
           (length (s1 ++ s2) <= n)%nat -> (forall c', k s2 c' <> None) ->
           star_loop (bt U a) n (s1 ++ s2) c k <> None).
    Proof.
      induction 1.
      - split; [|discriminate]. intros c k Hk. cbn [bt app]. apply Hk.
      - split; [|discriminate]. intros c0 k Hk. cbn [bt app]. rewrite H. apply Hk.
      - split; [|discriminate]. intros c k Hk. cbn [bt]. rewrite <- app_assoc.
        apply IHMatches1. intros c'. apply IHMatches2. assumption.
      - split; [|discriminate]. intros c k Hk. cbn [bt].
        destruct (bt U a (s ++ rest) c k) eqn:E; [discriminate|].
        exfalso. revert E. apply IHMatches. assumption.
      - split; [|discriminate]. intros c k Hk. cbn [bt].
        destruct (bt U a (s ++ rest) c k) eqn:E; [discriminate|].
        apply IHMatches. assumption.
      - split.
        + intros c k Hk. cbn [bt]. apply star_loop_exit. apply Hk.
        + intros a0 _ n c k _ Hk. apply star_loop_exit. apply Hk.
      - assert (G : forall n c (k : kont),
                   (length ((s1 ++ s2) ++ rest) <= n)%nat ->
                   (forall c', k rest c' <> None) ->
                   star_loop (bt U a) n ((s1 ++ s2) ++ rest) c k <> None).
        { intros n c k Hn Hk. destruct s1 as [|x s1].
          - cbn [app]. apply (proj2 IHMatches2 a eq_refl); assumption.
          - destruct n as [|n]; [cbn in Hn; lia|]. cbn [star_loop].
            match goal with
            | |- match ?e with _ => _ end <> None => destruct e eqn:E
            end; [discriminate|].
            exfalso. revert E. rewrite <- app_assoc.
            apply (proj1 IHMatches1). intros c'.
            replace (Nat.ltb (length (s2 ++ rest))
                             (length ((x :: s1) ++ s2 ++ rest))) with true.
            + apply (proj2 IHMatches2 a eq_refl); [|assumption].
              rewrite <- app_assoc in Hn. cbn [app length] in Hn.
              rewrite app_length in Hn. lia.
            + symmetry. apply Nat.ltb_lt. cbn [app length].
              rewrite (app_length s1). lia. }
        split.
        + intros c k Hk. cbn [bt]. apply G; [lia|assumption].
        + intros a0 E n c k Hn Hk. injection E as <-. apply G; assumption.
      - split; [|discriminate]. intros c k Hk. cbn [bt].
        apply IHMatches. intros c'. apply Hk.
      - split; [|discriminate]. intros c k Hk. cbn [bt app]. apply Hk.
      - split; [|discriminate]. intros c k Hk. cbn [bt app]. apply Hk.
      - split; [|discriminate]. intros c k Hk. cbn [bt app].
        rewrite Z.eqb_refl. apply Hk.
    Qed.

    Theorem bt_complete r s1 s2 c (k : kont) :
      Matches r s1 s2 -> (forall c', k s2 c' <> None) ->
      bt U r (s1 ++ s2) c k <> None.
    Proof. intros H. apply (proj1 (bt_complete_gen r s1 s2 H)). Qed.
  End BTProofs.

  (* pattern.match: what is reported is a parse of a prefix, with exactly
     the captures that this parse writes *)
  Theorem re_match_sound r s c rest :
    re_match U r s = Some (c, rest) ->
    exists s1, s = s1 ++ rest /\ MatchesC r s1 rest [] c.
  Proof.
    unfold re_match. intros H.
    apply bt_sound in H as (s1 & s2 & c' & -> & H1 & H2).
    injection H2 as -> ->. exists s1. auto.
  Qed.

  (* ... and a match is reported exactly when some prefix matches *)
  Theorem re_match_some_iff r s :
    re_match U r s <> None <-> MatchesPrefix U r s.
  Proof.
    split.
    - intros H. destruct (re_match U r s) as [[c rest]|] eqn:E; [|congruence].
      apply re_match_sound in E as (s1 & -> & H1).
      exists s1, rest. split; [reflexivity|]. eapply matchesC_erase; eauto.
    - intros (s1 & s2 & -> & H). unfold re_match. apply bt_complete; [assumption|].
      intros c'. discriminate.
  Qed.

  Corollary re_match_agrees r s :
    accepts_prefix U r s = true <-> re_match U r s <> None.
  Proof. rewrite accepts_prefix_correct, re_match_some_iff. reflexivity. Qed.

  (* a pattern that ends in \Z matches a prefix iff it matches everything *)
  Lemma prefix_of_anchored a s :
    MatchesPrefix U (Seq a (Seq EndZ Eps)) s <-> Matches (Seq a (Seq EndZ Eps)) s [].
  Proof.
    split.
    - intros (s1 & s2 & -> & H).
      apply seq_inv in H as (u & v & -> & H1 & H2).
      apply seq_inv in H2 as (v1 & v2 & -> & H2 & H3).
      apply endz_inv in H2 as [-> H2]. apply eps_inv in H3. subst v2.
      cbn [app] in *. subst s2. rewrite !app_nil_r.
      rewrite <- (app_nil_r u).
      apply (MSeq U a _ u [] []); [assumption|].
      apply (MSeq U EndZ Eps [] [] []); constructor.
    - intros H. exists s, []. split; [symmetry; apply app_nil_r|assumption].
  Qed.
End P.
