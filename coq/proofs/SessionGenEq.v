(* The definitions generated from the current source of PoorSession.write /
   destroy / load / header (gen/SessionGen.v, by harness/py2v_session.py) are
   the hand model model/Session.v, for every key, codec, configuration, state
   and argument. *)
From Coq Require Import ZArith List Bool String.
Require Import PW.lib.Val PW.model.Session PW.lib.PySession PW.gen.SessionGen.
Import ListNotations.
Open Scope string_scope.
Open Scope list_scope.
Open Scope Z_scope.

Ltac run :=
  cbv beta iota delta
    [gen_write mbind mret mraise mtry lift get_attr set_attr
     cookie_set_value morsel_set set_morsel p_dumps p_hidden p_compress
     p_b64encode p_isinstance p_decode p_loads p_decompress
     p_b64decode_encode p_sid_not_in p_sid_in p_cookie_value p_output
     of_opt truthy p_not p_is_not_none p_is_none exn_isa
     x_K x_C x_cfg s_expires s_max_age s_data s_m
     c_expires c_max_age c_domain c_path c_secure c_same_site
     m_value m_expires m_max_age m_domain m_path m_secure m_httponly
     m_samesite].

Lemma put_httponly : forall J (b : bool) m,
  @morsel_put J "HttpOnly" (SBool b) m =
  ROk (mkmorsel (m_value m) (m_expires m) (m_max_age m) (m_domain m)
                (m_path m) (m_secure m) b (m_samesite m)).
Proof. reflexivity. Qed.
Lemma put_domain : forall J s m,
  @morsel_put J "Domain" (SStr s) m =
  ROk (mkmorsel (m_value m) (m_expires m) (m_max_age m) s
                (m_path m) (m_secure m) (m_httponly m) (m_samesite m)).
Proof. reflexivity. Qed.
Lemma put_path : forall J s m,
  @morsel_put J "path" (SStr s) m =
  ROk (mkmorsel (m_value m) (m_expires m) (m_max_age m) (m_domain m)
                s (m_secure m) (m_httponly m) (m_samesite m)).
Proof. reflexivity. Qed.
Lemma put_secure : forall J (b : bool) m,
  @morsel_put J "Secure" (SBool b) m =
  ROk (mkmorsel (m_value m) (m_expires m) (m_max_age m) (m_domain m)
                (m_path m) b (m_httponly m) (m_samesite m)).
Proof. reflexivity. Qed.
Lemma put_samesite : forall J s m,
  @morsel_put J "SameSite" (SStr s) m =
  ROk (mkmorsel (m_value m) (m_expires m) (m_max_age m) (m_domain m)
                (m_path m) (m_secure m) (m_httponly m) s).
Proof. reflexivity. Qed.
Lemma put_expires : forall J z m,
  @morsel_put J "expires" (SInt z) m =
  ROk (mkmorsel (m_value m) (Some z) (m_max_age m) (m_domain m)
                (m_path m) (m_secure m) (m_httponly m) (m_samesite m)).
Proof. reflexivity. Qed.
Lemma put_max_age : forall J z m,
  @morsel_put J "Max-Age" (SInt z) m =
  ROk (mkmorsel (m_value m) (m_expires m) (Some z) (m_domain m)
                (m_path m) (m_secure m) (m_httponly m) (m_samesite m)).
Proof. reflexivity. Qed.

Ltac puts :=
  rewrite ?put_httponly, ?put_domain, ?put_path, ?put_secure, ?put_samesite,
          ?put_expires, ?put_max_age.

(* ------------------------------------------------------------- write *)
Theorem gen_write_run :
  forall K J (C : codec J) cfg (st : state J),
    gen_write (mkctx K C cfg) st =
    match write_value K J C (s_data J st) with
    | Some raw =>
        (mkstate J (s_expires J st) (s_max_age J st) (s_data J st)
                 (write_attrs J cfg st raw), ROk (SStr raw))
    | None => (st, RErr XOther)
    end.
Proof.
  intros K J C [ce cma cd cp cs css] [e ma d [mv me mma md mp ms mh mss]].
  unfold write_value, write_attrs, bind, gen_write, mbind, get_attr, p_dumps,
    p_hidden, p_compress, p_b64encode, lift, of_opt.
  cbv beta iota delta [x_C x_K x_cfg s_data].
  destruct (dumps C d) as [t|]; [|reflexivity].
  cbv beta iota.
  destruct (compress C (hidden K t)) as [z|]; [|reflexivity].
  cbv beta iota.
  destruct (b64 C z) as [r|]; [|reflexivity].
  destruct cd, cp, cs, css, e, ma; vm_compute; reflexivity.
Qed.

(* against the model's [write]: the new state and the returned str, or the
   codec's exception with the object untouched *)
Theorem gen_write_is_model :
  forall K J (C : codec J) cfg (st : state J),
    gen_write (mkctx K C cfg) st =
    match write K J C cfg st with
    | Ok (st', raw) => (st', ROk (SStr raw))
    | Raised _ => (st, RErr XOther)
    end.
Proof.
  intros. rewrite gen_write_run. unfold write.
  destruct (write_value K J C (s_data J st)); reflexivity.
Qed.

(* ----------------------------------------------------------- destroy *)
Theorem gen_destroy_is_model :
  forall K J (C : codec J) cfg (st : state J),
    gen_destroy (mkctx K C cfg) st = (destroy J cfg st, ROk SNone).
Proof.
  intros K J C [ce cma cd cp cs css] [e ma d [mv me mma md mp ms mh mss]].
  destruct cs, ma; vm_compute; reflexivity.
Qed.

(* -------------------------------------------------------------- load *)
(* the cookies argument as the model sees it: None = no SimpleCookie or no
   such name *)
Definition entry_of {J} (v : sv J) : option (list Z) :=
  match v with SCk e => e | _ => None end.

(* what leaves load(): nothing (it returns None) or an exception, by the
   model's name (messages are not modelled) *)
Definition left_by {J} (r : res (sv J)) : option string :=
  match r with
  | ROk SNone => None
  | ROk _ => Some "TypeError"
  | RErr e => Some (exn_name e)
  end.
Definition left_by_model (o : load_obs) : option string :=
  match o with LSkipped | LLoaded => None | LRaised e => Some e end.

Theorem gen_load_is_model :
  forall K J (C : codec J) cfg (st : state J) (cookies : sv J),
    fst (gen_load cookies (mkctx K C cfg) st) =
      fst (load K J C st (entry_of cookies)) /\
    left_by (snd (gen_load cookies (mkctx K C cfg) st)) =
      left_by_model (snd (load K J C st (entry_of cookies))).
Proof.
  intros K J C cfg st cookies.
  destruct cookies as [s|b|r|z|b|  |j|[[|a raw]|]|t|v a|v a|v a|l|l];
    try (split; reflexivity).
  destruct st as [e ma d m].
  unfold load, decode, bind, entry_of, nonempty.
  unfold gen_load, mbind, mtry, mret, mraise, p_isinstance, p_sid_not_in,
    p_cookie_value, p_b64decode_encode, p_decompress, p_hidden, p_loads, lift,
    of_opt, set_attr, get_attr.
  cbn.
  destruct (unb64 C (a :: raw)) as [z|]; [|split; reflexivity].
  cbn.
  destruct (decompress C z) as [y|]; [|split; reflexivity].
  cbn.
  destruct (loads C (hidden K y)) as [j|]; [|split; reflexivity].
  cbn.
  destruct (is_dict C j); split; reflexivity.
Qed.

(* ------------------------------------------------------------ header *)
(* the argument: None or an object that is no str, bytes, number, cookie
   (a Headers or Response; what add_header does to it is outside the model) *)
Definition headers_arg {J} (h : sv J) : Prop :=
  h = SNone \/ exists t, h = SOther t.

(* the list header() returns for cookie value [raw] and attributes [attrs] *)
Definition header_pairs {J} (raw : list Z) (attrs : list (aname * aval))
  : sv J :=
  SList [STuple [SStr set_cookie; SCookieText raw attrs]].

Theorem gen_header_is_model :
  forall K J (C : codec J) cfg (st : state J) (h : sv J),
    headers_arg h ->
    gen_header h (mkctx K C cfg) st =
    match header K J C cfg st with
    | Ok (st', (raw, attrs)) => (st', ROk (header_pairs raw attrs))
    | Raised _ => (st, RErr XOther)
    end.
Proof.
  intros K J C cfg st h Hh.
  unfold gen_header, header, write.
  unfold mbind at 1. rewrite gen_write_run.
  destruct (write_value K J C (s_data J st)) as [raw|]; [|reflexivity].
  destruct Hh as [->|[[|] ->]]; reflexivity.
Qed.
