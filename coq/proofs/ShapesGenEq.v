(* Translator tie for the value-conversion layer (C05): the definitions of
   gen/ShapesGen.v (regenerated on every run from poorwsgi/response.py
   make_response and poorwsgi/wsgi.py to_response by harness/py2v_shapes.py,
   over lib/PyShapes.v + lib/PyDispatch.v) are equal to
   Dispatch.make_response / Dispatch.to_response for all [pyval] arguments. *)
From Coq Require Import ZArith List Bool Lia String.
Require Import PW.lib.Val PW.lib.Dec PW.model.Dispatch PW.lib.PyDispatch PW.lib.PyShapes.
Require Import PW.gen.ShapesGen.
Import ListNotations.
Open Scope list_scope.
Open Scope Z_scope.

Local Arguments Dispatch.utf8 : simpl never.
Local Arguments Dispatch.iso_pairs : simpl never.
Local Arguments Dispatch.mk_headers : simpl never.
Local Arguments Dispatch.mk_ctype : simpl never.
Local Arguments Dispatch.mk_status : simpl never.
Local Arguments s2l : simpl never.
Local Arguments Z.eqb : simpl never.
Local Arguments Z.of_nat : simpl never.
Local Arguments of_bool : simpl never.

Definition lift_made (o : option resp) : M dv :=
  (match o with Some r => Val (DV (PResp r)) | None => Exc ERespErr end, []).

Section Eq.
  Variable w : world.
  Variable je : bool.
  Hypothesis known_200 : w_known w 200 = true.
  Hypothesis known_204 : w_known w 204 = true.

  Lemma json_ctype :
    mk_ctype (PStr (s2l "application/json" ++ s2l "; charset=" ++ [117; 116; 102; 45; 56]))
    = Some (s2l "application/json; charset=utf-8").
  Proof. vm_compute. reflexivity. Qed.
  Lemma empty_ctype : mk_ctype (PStr []) = Some [].
  Proof. reflexivity. Qed.

  Lemma sh_truthy_of_bool b : sh_truthy je (of_bool b) = b.
  Proof. destruct b; reflexivity. Qed.

  Theorem gen_make_response_eq d c h s :
    gen_make_response w je (DV d) (DV c) (DV h) (DV s)
    = lift_made (make_response (w_known w) d c h s).
  Proof.
    unfold gen_make_response, gen_make_response_k1, gen_make_response_k2,
      gen_make_response_k3, gen_make_response_k4, gen_make_response_k5,
      gen_make_response_k6, Dispatch.make_response, lift_made.
    destruct d as [s0|b|json|json|ch|ch| |z| |hh|items|r]; cbn.
    7: {
      (* None: the 200 -> 204 rewrite happens before the constructor checks *)
      unfold py_eq. destruct s as [?|?|?|?|?|?| |z| |?|?|?]; rewrite ?sh_truthy_of_bool; cbn;
        unfold c_NoContentResponse, base_init, of_opt; cbn [dv_to_py]; rewrite ?empty_ctype;
        unfold Dispatch.mk_status; destruct (mk_headers h) as [hs|]; cbn; try reflexivity.
      all: destruct (z =? 200) eqn:E; cbn; try reflexivity.
      - apply Z.eqb_eq in E. subst z. rewrite known_200, known_204. cbn.
        rewrite Z.eqb_refl. reflexivity.
      - destruct (w_known w z); cbn; rewrite ?E; try reflexivity. }
    all: rewrite ?Z.eqb_refl.
    all: try destruct json as [t|].
    all: try destruct je.
    all: cbn.
    all: unfold c_Response, c_JSONResponse, c_NoContentResponse, c_GeneratorResponse,
           response_of, base_init, of_opt; cbn [dv_to_py]; rewrite ?json_ctype, ?empty_ctype.
    all: destruct (mk_headers h) as [hs|], (mk_status (w_known w) s) as [st|],
           (mk_ctype c) as [ct|]; cbn; try reflexivity.
    all: try (match goal with |- context [utf8 ?x] => destruct (utf8 x) end; cbn; reflexivity).
  Qed.

  Local Arguments gen_make_response : simpl never.

  Ltac fold_html :=
    match goal with
    | |- context [gen_make_response _ _ _ (DV (PStr ?l)) _ _] =>
        change l with html
    end.

  Theorem gen_to_response_eq v :
    gen_to_response w je (DV v) = (lift_resp (to_response (w_known w) v), []).
  Proof.
    unfold gen_to_response, gen_to_response_k1, gen_to_response_k2, Dispatch.to_response.
    destruct v as [s0|b|json|json|ch|ch| |z| |hh|items|r]; cbn; try reflexivity.
    11: destruct items as [|d [|c [|h [|s [|x xs]]]]]; cbn; try reflexivity.
    all: try fold_html; rewrite gen_make_response_eq; unfold lift_made; cbn;
      match goal with |- context [make_response ?k ?d ?c ?h ?s] =>
        destruct (make_response k d c h s) end; reflexivity.
  Qed.

  (* ================================================================ *)
  (* BaseResponse.__start_response__ (non-range path) and
     NoContentResponse.__start_response__ against [emit] *)
  Lemma utf8_ascii l : Forall (fun c => 0 <= c < 128) l -> utf8 l = Some l.
  Proof.
    induction 1 as [|c l Hc Hl IH]; [reflexivity|].
    unfold Dispatch.utf8; fold Dispatch.utf8. rewrite IH. unfold utf8_1.
    replace (c <? 0) with false by (symmetry; apply Z.ltb_ge; lia).
    replace (c <? 128) with true by (symmetry; apply Z.ltb_lt; lia).
    reflexivity.
  Qed.

  Lemma digits_ascii l : forallb is_digit l = true -> Forall (fun c => 0 <= c < 128) l.
  Proof.
    induction l as [|d l IH]; cbn [forallb]; intros H; [constructor|].
    apply andb_true_iff in H as [Hd Hl]. constructor; [|apply IH; assumption].
    unfold is_digit in Hd. apply andb_true_iff in Hd as [H1 H2].
    apply Z.leb_le in H1, H2. lia.
  Qed.

  Lemma iso_dec n : iso (dec n) = dec n.
  Proof.
    unfold iso. rewrite utf8_ascii; [reflexivity|].
    unfold dec. destruct (n <? 0) eqn:E.
    - apply Z.ltb_lt in E. constructor; [lia|].
      apply digits_ascii. apply (digits_spec (- n)). lia.
    - apply Z.ltb_ge in E. apply digits_ascii. apply (digits_spec n). lia.
  Qed.

  Local Arguments Dispatch.iso : simpl never.
  Local Arguments Dispatch.has_hdr : simpl never.
  Local Arguments dec : simpl never.

  Theorem gen_start_response_eq sr st hs ct cl units body :
    gen_start_response w je sr (DV (PInt st)) (DV (PStr (w_reason w st)))
      (DV (PHdrs (Some hs))) (DV (PStr ct)) (DV (PInt cl)) (DV (PTuple [])) units
      (DEm (mkEmitted [] []))
    = (Val (DEm (mkEmitted
                   (calls (emit (w_reason w) (mkResp CBase st hs ct cl body))) [])), []).
  Proof.
    unfold gen_start_response, gen_start_response_k1, gen_start_response_k2,
      gen_start_response_k3, gen_start_response_k4, Dispatch.emit, status_line, py_eq.
    cbn. rewrite ?sh_truthy_of_bool, ?iso_dec.
    let x := eval vm_compute in (s2l "Content-Type") in change (s2l "Content-Type") with x.
    let x := eval vm_compute in (s2l "Content-Length") in change (s2l "Content-Length") with x.
    destruct (st =? 304); [reflexivity|].
    destruct (st =? 200), ct as [|c0 ct'], (cl =? 0); cbn;
      repeat match goal with
             | |- context [has_hdr ?n ?l] => destruct (has_hdr n l); cbn
             end; reflexivity.
  Qed.

  Theorem gen_nocontent_start_response_eq sr st hs ct cl ranges units ct0 cl0 body :
    gen_nocontent_start_response w je sr (DV (PInt st)) (DV (PStr (w_reason w st)))
      (DV (PHdrs (Some hs))) ct cl ranges units (DEm (mkEmitted [] []))
    = (Val (DEm (mkEmitted
                   (calls (emit (w_reason w) (mkResp CNoContent st hs ct0 cl0 body))) [])), []).
  Proof. reflexivity. Qed.
End Eq.
