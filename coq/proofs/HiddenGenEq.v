(* The definition generated from the current source of session.hidden
   (gen/HiddenGen.v) equals the hand model (model/Session.v [hidden]) for
   every text and password, bytes or str. *)
From Coq Require Import ZArith List Bool Lia String.
Require Import PW.lib.Val PW.lib.Dec PW.lib.Py PW.lib.PyBytes.
Require Import PW.model.Session PW.proofs.SessionProofs PW.gen.HiddenGen.
Import ListNotations.
Open Scope list_scope.
Open Scope Z_scope.

Section Eq.
Variable H : list Z -> list Z.
Variable E : list Z -> option (list Z).

(* what Python's hidden() computes its key and its text from *)
Definition key_of (passwd : pv) : option (list Z) :=
  match passwd with
  | PBytes p => Some (H p)
  | PStr p => match E p with Some b => Some (H b) | None => None end
  | _ => None
  end.
Definition text_of (text : pv) : option (list Z) :=
  match text with
  | PBytes t => Some t
  | PStr s => E s
  | _ => None
  end.

Lemma pick_key K i :
  K <> [] ->
  pick (i mod Z.of_nat (List.length K)) K = Some (key_at K i).
Proof.
  intros HK. unfold pick, key_at.
  assert (Hlen : 0 < Z.of_nat (List.length K))
    by (destruct K; [congruence | cbn [List.length]; lia]).
  pose proof (Z.mod_pos_bound i _ Hlen) as Hb.
  set (n := i mod Z.of_nat (List.length K)) in *.
  replace (n <? 0) with false by (symmetry; apply Z.ltb_ge; lia).
  replace (n <? 0) with false by (symmetry; apply Z.ltb_ge; lia).
  replace (Z.of_nat (List.length K) <=? n) with false
    by (symmetry; apply Z.leb_gt; lia).
  cbn [orb].
  apply nth_error_nth'. lia.
Qed.

Lemma loop_bytes K (HK : K <> []) (HB : Forall byte K) :
  forall x i acc text,
    Forall byte x ->
    gen_hidden_loop_2 (enum_from PInt i x) text (PBytes K)
      (PInt (Z.of_nat (List.length K))) (PBytes acc)
    = Py.Ok (PTuple [PBytes (acc ++ hidden_from K i x)]).
Proof.
  induction x as [|v x IH]; intros i acc text Hx.
  - cbn [enum_from gen_hidden_loop_2 hidden_from]. now rewrite app_nil_r.
  - inversion Hx as [|? ? Hv Hx']; subst.
    cbn [enum_from gen_hidden_loop_2 punpack2 Py.bind].
    unfold pmod. cbn [as_int].
    assert (Hlen : 0 < Z.of_nat (List.length K))
      by (destruct K; [congruence | cbn [List.length]; lia]).
    replace (Z.of_nat (List.length K) =? 0) with false
      by (symmetry; apply Z.eqb_neq; lia).
    cbn [Py.bind]. unfold pindex_dyn. cbn [as_int].
    rewrite (pick_key K i HK). cbn [Py.bind].
    unfold pxor, arith. cbn [as_int Py.bind].
    unfold pappend_any. cbn [as_int].
    pose proof (lxor_byte v (key_at K i) Hv (key_at_byte K i HB)) as Hr.
    unfold byte in Hr.
    replace (0 <=? Z.lxor v (key_at K i)) with true
      by (symmetry; apply Z.leb_le; lia).
    replace (Z.lxor v (key_at K i) <? 256) with true
      by (symmetry; apply Z.ltb_lt; lia).
    cbn [andb Py.bind].
    rewrite (IH (i + 1) (acc ++ [Z.lxor v (key_at K i)]) text Hx').
    cbn [hidden_from]. now rewrite <- app_assoc.
Qed.

Theorem gen_hidden_is_model text passwd K x :
  key_of passwd = Some K -> text_of text = Some x ->
  K <> [] -> Forall byte K -> Forall byte x ->
  gen_hidden H E text passwd = Py.Ok (PBytes (hidden K x)).
Proof.
  intros Hk Ht HK HB Hx.
  assert (Hloop : forall t,
    (items <- piter (PList (enum_from PInt 0 x)) ;;
     r_ <- gen_hidden_loop_2 items t (PBytes K)
             (PInt (Z.of_nat (List.length K))) (PBytes []) ;;
     match r_ with
     | PTuple [r] => Py.Ok r
     | _ => Py.Err TypeError
     end) = Py.Ok (PBytes (hidden K x))).
  { intros t. cbn [piter Py.bind].
    rewrite (loop_bytes K HK HB x 0 [] t Hx). reflexivity. }
  unfold gen_hidden.
  destruct passwd as [| | |p|p| | |]; cbn [key_of] in Hk; try discriminate.
  - (* str password *)
    destruct (E p) as [pb|] eqn:Ep; [|discriminate].
    assert (K = H pb) by congruence. subst K.
    cbn [pis_bytes Py.bind truthy pencode]. rewrite Ep. cbn [Py.bind pdigest plen].
    destruct text as [| | |s|t| | |]; cbn [text_of] in Ht; try discriminate.
    + cbn [pis_str Py.bind truthy pencode]. rewrite Ht.
      cbn [Py.bind pis_str truthy penumerate]. apply Hloop.
    + assert (t = x) by congruence. subst t.
      cbn [pis_str Py.bind truthy penumerate]. apply Hloop.
  - (* bytes password *)
    assert (K = H p) by congruence. subst K.
    cbn [pis_bytes Py.bind truthy pdigest plen].
    destruct text as [| | |s|t| | |]; cbn [text_of] in Ht; try discriminate.
    + cbn [pis_str Py.bind truthy pencode]. rewrite Ht.
      cbn [Py.bind pis_str truthy penumerate]. apply Hloop.
    + assert (t = x) by congruence. subst t.
      cbn [pis_str Py.bind truthy penumerate]. apply Hloop.
Qed.

End Eq.
