(* Translator tie: the definitions generated from the current
   poorwsgi/request.py by harness/py2v_reqinput.py (gen/ReqInputGen.v) equal
   the hand models of model/CachedInput.v (initial state of the reader) and
   model/QueryForm.v (which file Request.input hands out; what Request.read
   asks of the stream). *)
From Coq Require Import String ZArith List Bool Lia.
Require Import PW.model.CachedInput PW.model.QueryForm.
Require Import PW.lib.PyReqInput PW.gen.ReqInputGen.
Import ListNotations.
Open Scope string_scope.
Open Scope Z_scope.

Lemma attr_store_same : forall o n v, attr (store o n v) n = v.
Proof. intros. unfold attr, store. rewrite String.eqb_refl. reflexivity. Qed.

Lemma store_other : forall o n v m, String.eqb m n = false -> store o n v m = o m.
Proof. intros. unfold store. rewrite H. reflexivity. Qed.

(* ============================================== (1) CachedInput.__init__ *)
(* the instance dictionary CachedInput(file, size, block_size, timeout)
   ends with *)
Definition cached_init_store (o : obj) (file size block timeout : rv) : obj :=
  store (store (store (store (store o
    "_CachedInput__file" file)
    "_CachedInput__buffer" (RBytes []))
    "_CachedInput__todo" size)
    "_CachedInput__timeout" timeout)
    "block_size" block.

(* the model's reader state (and block size) held by an instance dictionary
   whose file object stands for the stream f *)
Definition reader_state (o : obj) (f : stream) : option (st * Z) :=
  match attr o "_CachedInput__buffer", attr o "_CachedInput__todo",
        attr o "block_size" with
  | RBytes b, RInt t, RInt k => Some (St b t f, k)
  | _, _, _ => None
  end.

Definition cached_attrs : list string :=
  ["_CachedInput__file"; "_CachedInput__buffer"; "_CachedInput__todo";
   "_CachedInput__timeout"; "block_size"].

Theorem gen_cached_init_eq :
  forall o file size block timeout,
    gen_cached_init o file size block timeout
    = PRet RNone (cached_init_store o file size block timeout).
Proof. reflexivity. Qed.

Theorem gen_cached_init_model :
  forall o file body n shorts block timeout,
    exists o',
      gen_cached_init o file (RInt n) (RInt block) timeout = PRet RNone o' /\
      reader_state o' (Stream body shorts)
        = Some (CachedInput.init body n shorts, block) /\
      attr o' "_CachedInput__file" = file /\
      attr o' "_CachedInput__timeout" = timeout /\
      (forall name, ~ In name cached_attrs -> o' name = o name) /\
      gen_cached_init_defaults = [(3, RInt 32768); (4, RRat 10 1)].
Proof.
  intros. exists (cached_init_store o file (RInt n) (RInt block) timeout).
  split; [reflexivity|]. split; [reflexivity|]. split; [reflexivity|].
  split; [reflexivity|]. split; [|reflexivity].
  intros name Hn. unfold cached_init_store, cached_attrs in *.
  repeat (rewrite store_other;
          [|apply String.eqb_neq; intro E; apply Hn; subst; cbn; tauto]).
  reflexivity.
Qed.

(* ==================================================== (2) Request.input *)
(* the attributes Request.__init__ leaves for a request of configuration c
   (FormGenEq ties that part of __init__): raw = environ["wsgi.input"], the
   BytesIO made when the body is buffered, app.read_timeout *)
Definition req_state (c : cfg) (raw : rv) (bio : Z) (tmo : rv) (o : obj) : Prop :=
  isinstance raw "BytesIO" = false /\
  attr o "_Request__cached_input" = RNone /\
  attr o "_Request__cached_size" = RInt (cached_size c) /\
  attr o "_Request__content_length" = RInt (clen c) /\
  attr o "_Request__read_timeout" = tmo /\
  attr o "_Request__file" = (if buffered c then RObj "BytesIO" bio else raw).

(* the model's choice (QueryForm.v: [buffered], [cached], RCached (clen c)) *)
Definition input_choice (c : cfg) (raw : rv) (bio : Z) (tmo : rv) : rv :=
  if buffered c then RObj "BytesIO" bio
  else if cached c
       then RNew "CachedInput" [raw; RInt (clen c); RInt (cached_size c); tmo]
       else raw.

Definition input_store (c : cfg) (raw : rv) (bio : Z) (tmo : rv) (o : obj) : obj :=
  if negb (buffered c) && cached c
  then store o "_Request__cached_input" (input_choice c raw bio tmo)
  else o.

Theorem gen_request_input_eq :
  forall c raw bio tmo o,
    req_state c raw bio tmo o ->
    let v := input_choice c raw bio tmo in
    let o' := input_store c raw bio tmo o in
    gen_request_input o = PRet v o' /\     (* first call *)
    gen_request_input o' = PRet v o'.      (* later calls: same object *)
Proof.
  intros c raw bio tmo o (Hraw & Hci & Hcs & Hcl & Htm & Hf) v o'.
  subst v o'. unfold input_store, input_choice, cached.
  destruct (buffered c) eqn:Hb; cbn [negb andb].
  - unfold gen_request_input. rewrite Hci, Hcs, Hf. cbn [truthy isinstance].
    rewrite String.eqb_refl, orb_true_r. split; reflexivity.
  - destruct (cached_size c =? 0) eqn:Hz; cbn [negb].
    + unfold gen_request_input. rewrite Hci, Hcs, Hf. cbn [truthy].
      rewrite Hz. cbn [negb orb]. split; reflexivity.
    + split.
      * unfold gen_request_input. rewrite Hci, Hcs, Hf, Hraw, Hcl, Htm.
        cbn [truthy]. rewrite Hz. cbn [negb orb].
        rewrite attr_store_same. reflexivity.
      * unfold gen_request_input at 1. rewrite !attr_store_same.
        cbn [truthy]. reflexivity.
Qed.

(* ========================================= (3) Request.read / __read / data *)
Theorem gen_request___read_eq :
  forall o length,
    gen_request___read o length
    = PCall (attr o "_Request__file") "read" [length] [] o (fun t => PRet t o).
Proof. reflexivity. Qed.

(* environ of the request: SERVER_PROTOCOL decides [http09] *)
Definition env_state (c : cfg) (o : obj) : Prop :=
  exists env, attr o "_SimpleRequest__environ" = RDict env /\
              rv_eq_str (assoc env "SERVER_PROTOCOL") "HTTP/0.9" = http09 c.

(* the model of Request.read(length), length an int: b'' unless a body is
   expected; a length inside (-1, Content-Length) rebinds self.read to
   __read and calls it; otherwise exactly one read(Content-Length) *)
Definition model_read (c : cfg) (o : obj) (length : Z) : prog :=
  if negb (body_expected c) then PRet (RBytes []) o
  else if (-1 <? length) && (length <? clen c) then
    let o1 := store o "read" (RBound "_Request__read") in
    PCall (RBound "_Request__read") "__call__" [RInt length] [] o1
          (fun t => PRet t o1)
  else
    PCall (attr o "_Request__file") "read" [RInt (clen c)] [] o
          (fun t => PRet t o).

Theorem gen_request_read_eq :
  forall c o length,
    attr o "_Request__content_length" = RInt (clen c) ->
    env_state c o ->
    o "_Request__read" = None ->       (* the method is not shadowed *)
    gen_request_read o (RInt length) = model_read c o length.
Proof.
  intros c o length Hcl (env & Henv & Hp) Hm.
  unfold gen_request_read, model_read, body_expected, QueryForm.is_body_request.
  rewrite Hcl, Henv. cbn [rv_get truthy]. rewrite Hp.
  unfold rv_gt, rv_lt, cmp. cbn [as_int].
  rewrite Z.gtb_ltb, negb_orb.
  destruct (negb (0 <? clen c) && negb (http09 c)); [reflexivity|].
  destruct ((-1 <? length) && (length <? clen c)); [|reflexivity].
  unfold self_method, store. rewrite Hm.
  cbn [String.eqb Ascii.eqb Bool.eqb]. reflexivity.
Qed.

(* Request.read() as Request.__init__ calls it (json branch of the read
   plan): RRead (clen c), or nothing and b'' *)
Corollary gen_request_read_default :
  forall c o,
    attr o "_Request__content_length" = RInt (clen c) ->
    env_state c o ->
    o "_Request__read" = None ->
    gen_request_read_defaults = [(1, RInt (-1))] /\
    gen_request_read o (RInt (-1))
    = if body_expected c
      then PCall (attr o "_Request__file") "read" [RInt (clen c)] [] o
                 (fun t => PRet t o)
      else PRet (RBytes []) o.
Proof.
  intros. split; [reflexivity|].
  rewrite (gen_request_read_eq c) by assumption. unfold model_read.
  destruct (body_expected c); reflexivity.
Qed.

(* Request.data over a BytesIO holding [content] at position [pos] *)
Definition bio := (list Z * Z)%type.
Definition bio_call (r : rv) (m : string) (a : list rv)
           (kw : list (string * rv)) (w : bio) : (rv + rv) * bio :=
  match r, a, kw with
  | RObj "BytesIO" _, [RInt n], [] =>
      if String.eqb m "seek" then (inl (RInt n), (fst w, n))
      else (inr (RStr "unsupported"), w)
  | RObj "BytesIO" _, [], [] =>
      if String.eqb m "read"
      then (inl (RBytes (skipn (Z.to_nat (snd w)) (fst w))),
            (fst w, Z.of_nat (List.length (fst w))))
      else (inr (RStr "unsupported"), w)
  | _, _, _ => (inr (RStr "unsupported"), w)
  end.

(* the model: the whole buffered body, position left at 0; None (and no call
   at all) when the body was not buffered *)
Theorem gen_request_data_eq :
  forall o,
    (forall i content pos,
        attr o "_Request__file" = RObj "BytesIO" i ->
        run bio_call (gen_request_data o) (content, pos)
        = (ORet (RBytes content) o, (content, 0))) /\
    (isinstance (attr o "_Request__file") "BytesIO" = false ->
     gen_request_data o = PRet RNone o).
Proof.
  intros o. split.
  - intros i content pos Hf. unfold gen_request_data. rewrite Hf.
    cbn [isinstance]. rewrite String.eqb_refl.
    cbn [run bio_call fst snd String.eqb Ascii.eqb Bool.eqb].
    rewrite Hf. cbn [run bio_call fst snd String.eqb Ascii.eqb Bool.eqb].
    reflexivity.
  - intros Hn. unfold gen_request_data. rewrite Hn. reflexivity.
Qed.

(* whatever the file object does (any oracle, exceptions included), data
   ends with seek(0) on the file: shape of the program *)
Theorem gen_request_data_shape :
  forall o,
    isinstance (attr o "_Request__file") "BytesIO" = true ->
    gen_request_data o
    = PTry (PCall (attr o "_Request__file") "seek" [RInt 0] [] o (fun _ =>
            PCall (attr o "_Request__file") "read" [] [] o (fun t =>
            PRet t o)))
           (fun o1 => PCall (attr o1 "_Request__file") "seek" [RInt 0] [] o1
                            (fun _ => PRet RNone o1)).
Proof. intros o H. unfold gen_request_data. rewrite H. reflexivity. Qed.

(* ================================================== (4) Request.read_chunk *)
(* new small definition (no earlier hand model of read_chunk existed):
   size = int(file.readline(), base=16); try: return file.read(size)
   finally: file.readline() *)
Definition model_read_chunk (o : obj) : prog :=
  let f := attr o "_Request__file" in
  PCall f "readline" [] [] o (fun line =>
  PCall (RBuiltin "int") "__call__" [line] [("base", RInt 16)] o (fun size =>
  PTry (PCall f "read" [size] [] o (fun t => PRet t o))
       (fun o1 => PCall (attr o1 "_Request__file") "readline" [] [] o1
                        (fun _ => PRet RNone o1)))).

Theorem gen_request_read_chunk_eq :
  forall o, gen_request_read_chunk o = model_read_chunk o.
Proof. reflexivity. Qed.
