(* The hand models of the request facts (model/Digest.v parse_authorization,
   utf8_fix / req_path; model/Debug.v effective_debug; model/Routing.v
   method_number, req_path) equal the definitions generated from the current
   poorwsgi/request.py, headers.py and state.py (gen/ReqFactsGen.v,
   harness/py2v_reqfacts.py) over the Python semantics of lib/Py.v +
   lib/PyDigest.v + lib/PyReqFacts.v.

   The regex scanner and the strict UTF-8 decoder are arguments of the
   generated code: the theorems instantiate them with the model's scanner
   (under the hypothesis that [Scan] at the pattern text of the SOURCE is the
   model's [findall]; the pattern text is the constant
   [re_authorization_text] below) and with the model's decoders. *)
From Coq Require Import ZArith List Bool Lia String.
Require Import PW.lib.Val PW.lib.ValFacts PW.lib.Dec PW.lib.Py PW.lib.PyDigest
        PW.lib.PyReqFacts PW.model.Token PW.model.Digest PW.gen.TokenGen
        PW.proofs.TokenGenEq PW.gen.DigestGen PW.proofs.DigestGenEq
        PW.gen.ReqFactsGen.
Require PW.model.Debug PW.model.Routing.
Import ListNotations.
Open Scope list_scope.
Open Scope Z_scope.

(* the pattern the model's tokenizer [match_here] / [findall] implements
   (the code points of the regex text in request.py, RE_AUTHORIZATION):
   word+ star? equals space? (dquote non-dquote+ dquote | [word - apostrophe percent]+) *)
Definition re_authorization_text : str :=
  [40;92;119;43;92;42;63;41;91;61;93;32;63;40;34;91;94;34;93;43;34;124;
   91;92;119;92;45;92;39;37;93;43;41].

(* ------------------------------------------------------------ str lemmas *)
Lemma py_lstrip_eq p q s :
  (forall c, p c = q c) -> py_lstrip p s = lstrip q s.
Proof.
  intros E. induction s as [|c s IH]; [reflexivity|].
  cbn [py_lstrip lstrip]. rewrite E, IH. reflexivity.
Qed.
Lemma py_strip_eq p q s :
  (forall c, p c = q c) -> py_strip p s = strip q s.
Proof.
  intros E. unfold py_strip, strip.
  rewrite (py_lstrip_eq p q s E), (py_lstrip_eq p q _ E). reflexivity.
Qed.

Lemma pstrip_ws_str s : pstrip_ws (PStr s) = Ok (PStr (strip is_space s)).
Proof.
  unfold pstrip_ws. rewrite (py_strip_eq py_isspace is_space); [reflexivity|].
  intros c. reflexivity.
Qed.
Lemma pstrip_quote_str s :
  pstrip_chars (PStr s) (PStr [34]) = Ok (PStr (strip is_quote s)).
Proof.
  unfold pstrip_chars.
  rewrite (py_strip_eq _ is_quote); [reflexivity|].
  intros c. unfold is_quote. cbn [existsb]. apply orb_false_r.
Qed.
Lemma pcapitalize_str s : pcapitalize (PStr s) = Ok (PStr (capitalize s)).
Proof. destruct s; reflexivity. Qed.

Lemma pslice_prefix u k :
  pslice (PStr u) PNone (PInt (Z.of_nat k)) = Ok (PStr (firstn k u)).
Proof.
  unfold pslice, slice_list. cbn [as_int bind]. unfold norm_idx.
  replace (0 <? 0) with false by reflexivity.
  replace (Z.of_nat k <? 0) with false by (symmetry; apply Z.ltb_ge; lia).
  replace (Z.to_nat (Z.min 0 (Z.of_nat (List.length u)))) with 0%nat by lia.
  cbn [skipn]. do 2 f_equal.
  destruct (Nat.le_gt_cases k (List.length u)) as [L|L].
  - f_equal. lia.
  - rewrite !firstn_all2 by lia. reflexivity.
Qed.
Lemma pslice_neg1 u :
  pslice (PStr u) PNone (PInt (-1)) = Ok (PStr (removelast u)).
Proof.
  unfold pslice, slice_list. cbn [as_int bind]. unfold norm_idx.
  replace (0 <? 0) with false by reflexivity.
  replace (-1 <? 0) with true by reflexivity.
  replace (Z.to_nat (Z.min 0 (Z.of_nat (List.length u)))) with 0%nat by lia.
  cbn [skipn]. rewrite removelast_firstn_len. do 3 f_equal. lia.
Qed.
Lemma pslice_suffix u k :
  pslice (PStr u) (PInt (Z.of_nat k)) PNone = Ok (PStr (skipn k u)).
Proof.
  unfold pslice, slice_list. cbn [as_int bind]. unfold norm_idx.
  replace (Z.of_nat k <? 0) with false by (symmetry; apply Z.ltb_ge; lia).
  replace (Z.of_nat (List.length u) <? 0) with false
    by (symmetry; apply Z.ltb_ge; lia).
  do 2 f_equal.
  destruct (Nat.le_gt_cases k (List.length u)) as [L|L].
  - replace (Z.to_nat (Z.min (Z.of_nat k) (Z.of_nat (List.length u))))
      with k by lia.
    apply firstn_all2. rewrite skipn_length. lia.
  - replace (Z.to_nat (Z.min (Z.of_nat k) (Z.of_nat (List.length u))))
      with (List.length u) by lia.
    rewrite !skipn_all2 by lia. destruct (Z.to_nat _); reflexivity.
Qed.

Lemma firstn_span p : forall s,
  firstn (List.length (fst (span p s))) s = fst (span p s).
Proof.
  induction s as [|c s IH]; [reflexivity|].
  cbn [span]. destruct (p c); [|reflexivity].
  destruct (span p s) as [a b]. cbn [fst List.length firstn] in *.
  rewrite IH. reflexivity.
Qed.

(* auth[:auth.find(' ')] *)
Lemma type_prefix_eq auth :
  (t <- pstr_find (PStr auth) (PStr [32]) ;; pslice (PStr auth) PNone t)
  = Ok (PStr (type_prefix auth)).
Proof.
  unfold pstr_find, type_prefix. rewrite find_sub_char.
  pose proof (firstn_span (fun c => negb (c =? 32)) auth) as F.
  destruct (span (fun c => negb (c =? 32)) auth) as [a b].
  cbn [fst snd] in *. destruct b as [|x b]; cbn [bind].
  - apply pslice_neg1.
  - rewrite pslice_prefix, F. reflexivity.
Qed.

Lemma starts_with_firstn p : forall s,
  lz_eqb (firstn (List.length p) s) p = starts_with p s.
Proof.
  induction p as [|a p IH]; intros [|b s]; cbn [List.length firstn lz_eqb starts_with];
    try reflexivity.
  rewrite IH. rewrite (Z.eqb_sym b a). reflexivity.
Qed.

(* ---------------------------------------------- Headers.utf8 = utf8_fix *)
Lemma gen_headers_utf8_eq v :
  gen_headers_utf8 (utf8_decode true) (PStr v) = Ok (PStr (utf8_fix v)).
Proof.
  unfold gen_headers_utf8, utf8_fix, pencode.
  replace (lz_eqb [105;115;111;45;56;56;53;57;45;49] codec_latin1)
    with true by reflexivity.
  change (forallb (rng 0 255) v) with (forallb (in_rng 0 255) v).
  destruct (forallb (in_rng 0 255) v); cbn [bind ptry]; [|reflexivity].
  unfold pdecode.
  replace (lz_eqb [117;116;102;45;56] codec_utf8) with true by reflexivity.
  destruct (utf8_decode true v); reflexivity.
Qed.

(* ---------------------------------------- dict(... for key, val in ...) *)
Definition inj_pair (kv : str * str) : pv :=
  PTuple [PStr (fst kv); PStr (snd kv)].
Definition fix_pair (kv : str * str) : str * str :=
  (fst kv, utf8_fix (strip is_quote (snd kv))).

Lemma map2_res_pairs (l : list (str * str)) :
  map2_res (fun a b : pv =>
              v12 <- pstrip_chars b (PStr [34]) ;;
              v13 <- gen_headers_utf8 (utf8_decode true) v12 ;;
              Ok (PTuple [a; v13])) (map inj_pair l)
  = Ok (map inj_pair (map fix_pair l)).
Proof.
  induction l as [|[k v] l IH]; [reflexivity|].
  cbn [map map2_res inj_pair punpack2 bind fst snd].
  rewrite pstrip_quote_str. cbn [bind]. rewrite gen_headers_utf8_eq.
  cbn [bind]. rewrite IH. reflexivity.
Qed.

Lemma dict_of_go_pairs (l : list (str * str)) : forall d : dict,
  dict_of_go (inj_items d) (map inj_pair l)
  = Ok (inj_items (fold_left (fun d kv => dset (fst kv) (snd kv) d) l d)).
Proof.
  induction l as [|[k v] l IH]; intros d; [reflexivity|].
  cbn [map dict_of_go inj_pair punpack2 bind fst snd fold_left].
  exact (IH (dset k v d)).
Qed.

Lemma fold_fix_pairs (l : list (str * str)) : forall d : dict,
  fold_left (fun d kv => dset (fst kv) (snd kv) d) (map fix_pair l) d
  = fold_left (fun d kv => dset (fst kv) (utf8_fix (strip is_quote (snd kv))) d)
              l d.
Proof.
  induction l as [|kv l IH]; intros d; [reflexivity|].
  cbn [map fold_left]. rewrite IH. reflexivity.
Qed.

(* ------------------------------------------------ Request.authorization *)
Section Authorization.
  Variable Scan : list Z -> list Z -> list (str * str).
  Variable Unq : str -> str.
  Hypothesis Scan_is_model :
    forall s, Scan re_authorization_text s = findall (List.length s) s.

  (* first use: the cache is None *)
  Theorem gen_authorization_eq hv raw :
    pdict_get hv (PStr s_Authorization) (PStr []) = Ok (PStr raw) ->
    gen_authorization Scan Unq (utf8_decode true) PNone hv
    = Ok (inj_dict (parse_authorization Unq raw)).
  Proof.
    intros Hget. unfold gen_authorization, parse_authorization.
    unfold s_Authorization in Hget.
    cbn [pis_none bind]. rewrite truthy_bool.
    rewrite Hget. cbn [bind]. rewrite pstrip_ws_str. cbn [bind].
    cbv zeta.
    set (auth := strip is_space raw).
    unfold pfindall.
    change [40;92;119;43;92;42;63;41;91;61;93;32;63;40;34;91;94;34;93;43;34;
            124;91;92;119;92;45;92;39;37;93;43;41]
      with re_authorization_text.
    rewrite Scan_is_model. cbn [bind].
    unfold pgenexp2. cbn [piter bind].
    change (map (fun kv : str * str => PTuple [PStr (fst kv); PStr (snd kv)])
                (findall (List.length auth) auth))
      with (map inj_pair (findall (List.length auth) auth)).
    rewrite map2_res_pairs. cbn [bind].
    unfold pdict_of. cbn [piter bind].
    rewrite (dict_of_go_pairs _ []). cbn [bind].
    rewrite fold_fix_pairs.
    match goal with
    | |- context [inj_items (fold_left ?f ?l [])] => set (d0 := fold_left f l [])
    end.
    change (PDict (inj_items d0)) with (inj_dict d0).
    pose proof (type_prefix_eq auth) as TP.
    destruct (pstr_find (PStr auth) (PStr [32])) as [t|e]; [|discriminate TP].
    cbn [bind] in TP |- *. rewrite TP. cbn [bind].
    rewrite pcapitalize_str. cbn [bind].
    rewrite pdict_set_inj. cbn [bind].
    change [116;121;112;101] with k_type.
    set (d1 := dset k_type (capitalize (type_prefix auth)) d0).
    rewrite pdict_get_inj. cbn [bind].
    change [117;115;101;114;110;97;109;101;42] with k_usernameS.
    destruct (dget k_usernameS d1) as [u|]; cbn [inj_opt].
    - rewrite truthy_str.
      destruct (nonempty u); cbn [andb].
      + change 7 with (Z.of_nat 7).
        rewrite pslice_prefix. cbn [bind]. rewrite peq_str. cbn [bind].
        rewrite truthy_bool.
        change [85;84;70;45;56;39;39] with s_utf8tag.
        change 7%nat with (List.length s_utf8tag).
        rewrite starts_with_firstn.
        destruct (starts_with s_utf8tag u).
        * change (List.length s_utf8tag) with 7%nat.
          rewrite pslice_suffix. cbn [bind]. rewrite pstrfun_str. cbn [bind].
          rewrite pdict_set_inj. cbn [bind].
          rewrite pdict_copy_inj. reflexivity.
        * rewrite pdict_copy_inj. reflexivity.
      + rewrite pdict_copy_inj. reflexivity.
    - change (truthy PNone) with false. cbv iota.
      change (truthy PNone) with false. cbv iota.
      rewrite pdict_copy_inj. reflexivity.
  Qed.

  (* later uses: the cached dictionary is copied, nothing is parsed again *)
  Theorem gen_authorization_cached hv d :
    gen_authorization Scan Unq (utf8_decode true) (inj_dict d) hv
    = Ok (inj_dict d).
  Proof. reflexivity. Qed.
End Authorization.

(* ------------------------------------------------------ raw dict lemmas *)
Lemma pcontains_dict k items :
  pcontains k (PDict items)
  = Ok (PBool (is_some (items_get k items))).
Proof. unfold pcontains. rewrite as_dict_PDict. destruct (items_get k items); reflexivity. Qed.
Lemma pdict_get_dict k items dflt :
  pdict_get (PDict items) k dflt
  = Ok (match items_get k items with Some v => v | None => dflt end).
Proof. reflexivity. Qed.
Lemma pgetitem_dict k items v :
  items_get k items = Some v -> pgetitem (PDict items) k = Ok v.
Proof. intros E. unfold pgetitem. rewrite as_dict_PDict, E. reflexivity. Qed.

(* ------------------------------- SimpleRequest.__init__: the debug flag *)
Definition k_uwsgi_version : str :=
  [117;119;115;103;105;46;118;101;114;115;105;111;110].
Definition k_poor_version : str := [112;111;111;114;46;86;101;114;115;105;111;110].
Definition k_poor_debug : str := [112;111;111;114;95;68;101;98;117;103].
Definition k_starttime : str :=
  [82;69;81;85;69;83;84;95;83;84;65;82;84;84;73;77;69].
Lemma debug_keys_text :
  k_uwsgi_version = s2l "uwsgi.version" /\ k_poor_version = s2l "poor.Version"
  /\ k_poor_debug = s2l "poor_Debug" /\ k_starttime = s2l "REQUEST_STARTTIME".
Proof. repeat split; reflexivity. Qed.

(* the environments as the model sees them: [ei] the items of the request
   environ, [oi] the items of os.environ *)
Definition denv_of (ei oi : list pv) (edbg odbg : option str) : Debug.denv :=
  Debug.mkDenv (is_some (items_get (PStr k_uwsgi_version) ei))
               (is_some (items_get (PStr k_poor_version) oi)) edbg odbg.

Lemma debug_tail (var : option str) b (k : pv -> res pv) :
  (forall x, k (PBool x) = Ok (PBool x)) ->
  (if truthy (inj_opt var)
   then (v16 <- plower (inj_opt var) ;;
         v17 <- peq v16 (PStr [111;110]) ;; k v17)
   else k (PBool b))
  = Ok (PBool match var with
              | None => b
              | Some [] => b
              | Some s => lz_eqb (Debug.lower s) (s2l "on")
              end).
Proof.
  intros K. destruct var as [[|c s]|]; cbn [inj_opt].
  - change (truthy (PStr [])) with false. cbv iota. apply K.
  - change (truthy (PStr (c :: s))) with true. cbv iota.
    cbn [plower bind]. rewrite peq_str. cbn [bind]. rewrite K. reflexivity.
  - change (truthy PNone) with false. cbv iota. apply K.
Qed.

Theorem gen_init_debug_eq ei oi edbg odbg st appv b clockv :
  items_get (PStr k_poor_debug) ei = option_map PStr edbg ->
  items_get (PStr k_poor_debug) oi = option_map PStr odbg ->
  items_get (PStr k_starttime) ei = Some st ->
  gen_init_debug (PDict ei) appv (PBool b) (PDict oi) clockv
  = Ok (PBool (Debug.effective_debug (denv_of ei oi edbg odbg) b)).
Proof.
  intros He Ho Hst.
  unfold gen_init_debug, Debug.effective_debug, denv_of.
  unfold k_poor_debug, k_starttime, k_uwsgi_version, k_poor_version in *.
  cbn [Debug.has_uwsgi_version Debug.os_has_poor_version Debug.env_poor_debug
       Debug.os_poor_debug].
  cbv zeta.
  set (k := fun v : pv =>
              (v13 <- pgetitem (PDict ei)
                        (PStr [82;69;81;85;69;83;84;95;83;84;65;82;84;84;73;77;69]) ;;
               Ok v)).
  assert (K : forall x, k (PBool x) = Ok (PBool x)).
  { intros x. unfold k. rewrite (pgetitem_dict _ _ _ Hst). reflexivity. }
  rewrite pcontains_dict. cbn [bind]. rewrite truthy_bool.
  destruct (is_some (items_get _ ei)); cbn [orb].
  - cbv beta iota. rewrite ?truthy_bool. cbv beta iota.
    rewrite pdict_get_dict, Ho. cbn [bind].
    destruct odbg as [v|]; cbn [option_map].
    + exact (debug_tail (Some v) b k K).
    + exact (debug_tail None b k K).
  - cbv beta iota. rewrite pcontains_dict. cbn [bind].
    destruct (is_some (items_get _ oi)); cbv beta iota; rewrite ?truthy_bool;
      cbv beta iota.
    + rewrite pdict_get_dict, Ho. cbn [bind].
      destruct odbg as [v|]; cbn [option_map].
      * exact (debug_tail (Some v) b k K).
      * exact (debug_tail None b k K).
    + rewrite pdict_get_dict, He. cbn [bind].
      destruct edbg as [v|]; cbn [option_map].
      * exact (debug_tail (Some v) b k K).
      * exact (debug_tail None b k K).
Qed.

(* ------------------------------- SimpleRequest.method / method_number *)
Definition k_request_method : str := [82;69;81;85;69;83;84;95;77;69;84;72;79;68].
Definition k_path_info : str := [80;65;84;72;95;73;78;70;79].
Lemma request_keys_text :
  k_request_method = s2l "REQUEST_METHOD" /\ k_path_info = s2l "PATH_INFO".
Proof. split; reflexivity. Qed.

(* state.methods as the generated code carries it (newest entry first) *)
Definition methods_items : list pv :=
  [PTuple [PStr [80;65;84;67;72]; PInt 256];
   PTuple [PStr [67;79;78;78;69;67;84]; PInt 128];
   PTuple [PStr [79;80;84;73;79;78;83]; PInt 64];
   PTuple [PStr [84;82;65;67;69]; PInt 32];
   PTuple [PStr [68;69;76;69;84;69]; PInt 16];
   PTuple [PStr [80;85;84]; PInt 8]; PTuple [PStr [80;79;83;84]; PInt 4];
   PTuple [PStr [71;69;84]; PInt 2]; PTuple [PStr [72;69;65;68]; PInt 1]].

Definition method_table_lit : list (list Z * Z) :=
  Eval vm_compute in Routing.method_table.
Lemma method_table_lit_eq : Routing.method_table = method_table_lit.
Proof. vm_compute. reflexivity. Qed.

Lemma methods_lookup tok :
  items_get (PStr tok) methods_items
  = option_map PInt (Routing.lget tok Routing.method_table).
Proof.
  rewrite method_table_lit_eq. unfold methods_items, method_table_lit.
  cbn [items_get pv_eqb Routing.lget].
  repeat match goal with
  | |- context [lz_eqb tok ?k] =>
      let E := fresh "E" in
      destruct (lz_eqb tok k) eqn:E;
      [apply lz_eqb_eq in E; subst tok; reflexivity|]
  end.
  reflexivity.
Qed.

Lemma methods_lookup_none : items_get PNone methods_items = None.
Proof. reflexivity. Qed.

Theorem gen_method_eq ei :
  gen_method (PDict ei)
  = Ok (match items_get (PStr k_request_method) ei with
        | Some v => v | None => PNone end).
Proof. reflexivity. Qed.

Theorem gen_method_number_eq ei tok :
  items_get (PStr k_request_method) ei = Some (PStr tok) ->
  gen_method_number (PDict ei) = Ok (PInt (Routing.method_number tok)).
Proof.
  intros H. unfold gen_method_number. rewrite gen_method_eq, H. cbn [bind].
  fold methods_items.
  unfold pnot_contains, pcontains, pgetitem, Routing.method_number.
  rewrite !as_dict_PDict, methods_lookup.
  destruct (Routing.lget tok Routing.method_table) as [b|]; reflexivity.
Qed.

(* REQUEST_METHOD absent: None is not a key of the table -> GET *)
Theorem gen_method_number_absent ei :
  items_get (PStr k_request_method) ei = None ->
  gen_method_number (PDict ei) = Ok (PInt 2).
Proof.
  intros H. unfold gen_method_number. rewrite gen_method_eq, H. reflexivity.
Qed.

(* ---------------------------------------------------- SimpleRequest.path *)
Definition path_with (Dec : list Z -> option (list Z)) (raw : str) : str :=
  if forallb (rng 0 255) raw then
    match Dec raw with Some t => t | None => raw end
  else raw.

Theorem gen_path_eq Dec ei raw :
  items_get (PStr k_path_info) ei = Some (PStr raw) ->
  gen_path Dec (PDict ei) = Ok (PStr (path_with Dec raw)).
Proof.
  intros H. unfold gen_path, path_with. unfold k_path_info in H.
  rewrite pdict_get_dict, H. cbn [bind]. cbv zeta. unfold pencode.
  replace (lz_eqb [105;115;111;45;56;56;53;57;45;49] codec_latin1)
    with true by reflexivity.
  destruct (forallb (rng 0 255) raw); cbn [bind ptry]; [|reflexivity].
  unfold pdecode.
  replace (lz_eqb [117;116;102;45;56] codec_utf8) with true by reflexivity.
  destruct (Dec raw); reflexivity.
Qed.

Lemma latin1_ok_forallb s : forallb (rng 0 255) s = Routing.latin1_ok s.
Proof.
  induction s as [|c s IH]; [reflexivity|].
  cbn [forallb Routing.latin1_ok]. rewrite IH. reflexivity.
Qed.

Theorem gen_path_routing ei raw :
  items_get (PStr k_path_info) ei = Some (PStr raw) ->
  gen_path Routing.utf8_decode (PDict ei) = Ok (PStr (Routing.req_path raw)).
Proof.
  intros H. rewrite (gen_path_eq _ _ _ H). unfold path_with, Routing.req_path.
  rewrite latin1_ok_forallb. reflexivity.
Qed.

Theorem gen_path_digest ei raw :
  items_get (PStr k_path_info) ei = Some (PStr raw) ->
  gen_path (utf8_decode true) (PDict ei) = Ok (PStr (utf8_fix raw)).
Proof. intros H. rewrite (gen_path_eq _ _ _ H). reflexivity. Qed.

(* ------- the two hand models use the same strict UTF-8 decoder, so the
   path of model/Routing.v and the path of model/Digest.v are the same *)
Lemma ocons_map c o : option_map (cons c) o = Routing.ocons c o.
Proof. destruct o; reflexivity. Qed.

Lemma dec_agree : forall fuel s, (List.length s <= fuel)%nat ->
  utf8_dec true fuel s = Routing.utf8_decode s.
Proof.
  induction fuel as [|f IH]; intros s L.
  - destruct s; [reflexivity|cbn in L; lia].
  - destruct s as [|b0 r0]; [reflexivity|].
    cbn [utf8_dec]. cbn [List.length] in L.
    unfold utf8_step, Routing.utf8_decode; fold Routing.utf8_decode.
    unfold is_cont, Routing.cont, in_rng.
    destruct (Z.ltb_spec b0 128).
    { cbn [skipn]. rewrite ocons_map, IH by lia. reflexivity. }
    destruct (Z.ltb_spec b0 194).
    { repeat match goal with
             | |- context [?a <=? ?b] => destruct (Z.leb_spec a b)
             end; cbn [andb]; try lia; reflexivity. }
    destruct (Z.ltb_spec b0 224).
    { replace ((194 <=? b0) && (b0 <=? 223)) with true by (symmetry; apply andb_true_iff; split; apply Z.leb_le; lia).
      destruct r0 as [|b1 r1]; [reflexivity|].
      destruct ((128 <=? b1) && (b1 <=? 191)); [|reflexivity].
      cbn [skipn]. cbn [List.length] in L. rewrite ocons_map, IH by lia. reflexivity. }
    replace ((194 <=? b0) && (b0 <=? 223)) with false by (symmetry; apply andb_false_iff; right; apply Z.leb_gt; lia).
    destruct (Z.ltb_spec b0 240).
    { replace ((224 <=? b0) && (b0 <=? 239)) with true by (symmetry; apply andb_true_iff; split; apply Z.leb_le; lia).
      destruct r0 as [|b1 [|b2 r2]].
      - reflexivity.
      - destruct (_ && _); reflexivity.
      - destruct ((_ <=? b1) && (b1 <=? _)); cbn [andb]; [|reflexivity].
        destruct ((128 <=? b2) && (b2 <=? 191)); [|reflexivity].
        cbn [skipn]. cbn [List.length] in L. rewrite ocons_map, IH by lia. reflexivity. }
    replace ((224 <=? b0) && (b0 <=? 239)) with false by (symmetry; apply andb_false_iff; right; apply Z.leb_gt; lia).
    destruct (Z.ltb_spec b0 245).
    { replace ((240 <=? b0) && (b0 <=? 244)) with true by (symmetry; apply andb_true_iff; split; apply Z.leb_le; lia).
      destruct r0 as [|b1 [|b2 [|b3 r3]]].
      - reflexivity.
      - destruct (_ && _); reflexivity.
      - destruct ((_ <=? b1) && (b1 <=? _)); [|reflexivity].
        destruct ((128 <=? b2) && (b2 <=? 191)); reflexivity.
      - destruct ((_ <=? b1) && (b1 <=? _)); cbn [andb]; [|reflexivity].
        destruct ((128 <=? b2) && (b2 <=? 191)); cbn [andb]; [|reflexivity].
        destruct ((128 <=? b3) && (b3 <=? 191)); [|reflexivity].
        cbn [skipn]. cbn [List.length] in L. rewrite ocons_map, IH by lia. reflexivity. }
    replace ((240 <=? b0) && (b0 <=? 244)) with false by (symmetry; apply andb_false_iff; right; apply Z.leb_gt; lia).
    reflexivity.
Qed.

Theorem utf8_decode_agree s : utf8_decode true s = Routing.utf8_decode s.
Proof. apply dec_agree. apply Nat.le_refl. Qed.

Theorem req_path_models_agree raw : Routing.req_path raw = utf8_fix raw.
Proof.
  unfold Routing.req_path, utf8_fix. rewrite <- latin1_ok_forallb.
  change (forallb (rng 0 255) raw) with (forallb (in_rng 0 255) raw).
  rewrite utf8_decode_agree. reflexivity.
Qed.
