From Coq Require Import ZArith List Bool Lia String.
Require Import PW.lib.Val PW.lib.ValFacts PW.model.Debug.
Import ListNotations.
Open Scope string_scope.
Open Scope list_scope.
Open Scope Z_scope.

Definition selected (e : denv) : option (list Z) :=
  if has_uwsgi_version e || os_has_poor_version e
  then os_poor_debug e else env_poor_debug e.

(* the override, when present and non-empty, decides alone; otherwise the
   application attribute decides *)
Theorem effective_debug_spec e a :
  effective_debug e a =
  match selected e with
  | Some (c :: s) => lz_eqb (lower (c :: s)) (s2l "on")
  | _ => a
  end.
Proof.
  unfold effective_debug, selected.
  destruct (has_uwsgi_version e || os_has_poor_version e);
    [destruct (os_poor_debug e) as [[|c s]|]|destruct (env_poor_debug e) as [[|c s]|]];
    reflexivity.
Qed.

Theorem override_takes_precedence e c s :
  selected e = Some (c :: s) -> effective_debug e true = effective_debug e false.
Proof. intros H. rewrite !effective_debug_spec, H. reflexivity. Qed.

Theorem on_in_any_letter_case e a s :
  selected e = Some s -> lower s = s2l "on" -> effective_debug e a = true.
Proof.
  intros H Hl. rewrite effective_debug_spec, H.
  destruct s as [|c s]; [discriminate Hl|]. rewrite Hl. reflexivity.
Qed.

Theorem other_text_is_off e a s :
  selected e = Some s -> s <> [] -> lower s <> s2l "on" -> effective_debug e a = false.
Proof.
  intros H Hn Hl. rewrite effective_debug_spec, H.
  destruct s as [|c s]; [contradiction|]. apply lz_eqb_neq. exact Hl.
Qed.

Theorem unset_or_empty_uses_attribute e a :
  selected e = None \/ selected e = Some [] -> effective_debug e a = a.
Proof. intros [H|H]; rewrite effective_debug_spec, H; reflexivity. Qed.

(* the four spellings of the property's quantifier *)
Example on_spellings :
  lower (s2l "On") = s2l "on" /\ lower (s2l "on") = s2l "on" /\
  lower (s2l "ON") = s2l "on" /\ lower (s2l "Off") <> s2l "on" /\
  lower (s2l "off") <> s2l "on" /\ lower (s2l "yes") <> s2l "on".
Proof. repeat split; vm_compute; try reflexivity; discriminate. Qed.

(* with debug off the debug-info address is treated like any other path *)
Theorem off_debug_info_is_unknown ds gh node idx :
  routing_tail false ds gh true node idx = routing_tail false ds gh false node idx.
Proof. unfold routing_tail. destruct (ds && gh); destruct node; reflexivity. Qed.

Theorem debug_page_only_when_on d ds gh p node idx :
  routing_tail d ds gh p node idx = TDebugPage -> d = true /\ p = true.
Proof.
  unfold routing_tail. destruct d, p; cbn [andb]; auto;
    destruct (ds && gh); destruct node; try destruct idx; discriminate.
Qed.

(* the 500 page with debug off does not depend on anything that describes
   the failure (exception type, message, traceback, handler, remote data,
   uri, rule) nor on the server software string *)
Theorem off_hides_detail L sw1 sw2 admin d1 d2 :
  page500 L false sw1 admin d1 = page500 L false sw2 admin d2.
Proof. reflexivity. Qed.

(* and it is exactly head ++ webmaster line ++ foot *)
Theorem off_page_shape L sw admin d :
  page500 L false sw admin d
  = l_head L ++ (l_off_a L ++ html_escape admin ++ l_off_b L) ++ l_foot L.
Proof. reflexivity. Qed.

(* non-vacuity: with debug on the page does depend on the traceback *)
Example on_shows_detail :
  let L := mkLits [1] [2] [3] [4] [5] [6] [7] [8] [9] [10] [11] [12] [13] [14] [15] [16] [17] [18] in
  page500 L true [] [] (mkDiag [] [] [] [] [] [] [[65]])
  <> page500 L true [] [] (mkDiag [] [] [] [] [] [] [[66]]).
Proof. vm_compute. discriminate. Qed.
