(* Proofs about model/Multipart.v (C08). *)
From Coq Require Import ZArith List Bool Lia String.
Require Import PW.lib.Val PW.lib.ValFacts PW.model.Multipart.
Import ListNotations.
Open Scope list_scope.
Open Scope Z_scope.

(* ------------------------------------------------------------------ *)
(* lists *)

Lemma rv_rev (l : list Z) : rv l = rev l.
Proof. unfold rv. rewrite rev_append_rev, app_nil_r. reflexivity. Qed.

Lemma len_nil {A} : len (@nil A) = 0.
Proof. reflexivity. Qed.
Lemma len_cons {A} (x : A) l : len (x :: l) = 1 + len l.
Proof. unfold len. cbn [List.length]. lia. Qed.
Lemma len_app {A} (a b : list A) : len (a ++ b) = len a + len b.
Proof. unfold len. rewrite app_length. lia. Qed.
Lemma len_nonneg {A} (l : list A) : 0 <= len l.
Proof. unfold len. lia. Qed.
Lemma len_zero_nil {A} (l : list A) : len l = 0 -> l = [].
Proof. destruct l; [reflexivity|]. rewrite len_cons. pose proof (len_nonneg l). lia. Qed.

Lemma is_nil_false {A} (l : list A) : l <> [] -> is_nil l = false.
Proof. destruct l; [congruence | reflexivity]. Qed.
Lemma is_nil_true {A} (l : list A) : is_nil l = true -> l = [].
Proof. destruct l; [reflexivity | discriminate]. Qed.

Lemma prefixb_app p s : prefixb p (p ++ s) = true.
Proof.
  induction p as [|x p IH]; [reflexivity|].
  cbn [prefixb app]. rewrite Z.eqb_refl, IH. reflexivity.
Qed.

Lemma prefixb_spec p : forall s, prefixb p s = true -> exists t, s = p ++ t.
Proof.
  induction p as [|x p IH]; intros s H.
  - exists s. reflexivity.
  - destruct s as [|y s]; [discriminate|]. cbn [prefixb] in H.
    apply andb_true_iff in H as [H1 H2]. apply Z.eqb_eq in H1. subst y.
    destruct (IH _ H2) as [t ->]. exists t. reflexivity.
Qed.

(* a ++ m = p ++ t with no element of p equal to the head of m *)
Lemma app_prefix_clean (a m p t : list Z) (x : Z) :
  a ++ m = p ++ t -> ~ In x p -> (m = [] \/ exists m', m = x :: m') ->
  exists k, a = p ++ k.
Proof.
  revert a. induction p as [|y p IH]; intros a H Hn Hm.
  - exists a. reflexivity.
  - destruct a as [|z a].
    + cbn [app] in H. destruct Hm as [-> | [m' ->]]; [discriminate|].
      injection H as -> _. exfalso. apply Hn. left. reflexivity.
    + cbn [app] in H. injection H as -> H.
      destruct (IH a H) as [k ->]; [intros Hi; apply Hn; right; exact Hi | exact Hm |].
      exists k. reflexivity.
Qed.

Definition occurs (p s : list Z) : Prop := exists x y, s = x ++ p ++ y.
Definition ends_lf (l : bytes) : Prop := exists z, l = z ++ [10].
Definition no_inner_crlf (l : bytes) : Prop :=
  forall x y, l = x ++ [13; 10] ++ y -> y = [].

(* where a piece without inner CRLF that starts in c2 ++ CRLF ++ z ends *)
Lemma piece_cases (l u' c2 z : bytes) :
  l ++ u' = c2 ++ [13; 10] ++ z -> no_inner_crlf l ->
  exists l1 c2b m, l = l1 ++ m /\ c2 = l1 ++ c2b /\
    ((m = [] /\ u' = c2b ++ [13; 10] ++ z) \/
     (m = [13] /\ c2b = [] /\ u' = 10 :: z) \/
     (m = [13; 10] /\ c2b = [] /\ u' = z)).
Proof.
  intros H Hn. apply app_eq_app in H. destruct H as [k [[H1 H2] | [H1 H2]]]; [|
    (* c2 = l ++ k *)
    exists l, k, []. rewrite app_nil_r.
    split; [reflexivity|]. split; [exact H1|]. left. split; [reflexivity|exact H2]].
  (* l = c2 ++ k, 13::10::z = k ++ u' *)
  - destruct k as [|k1 k].
    + exists l, [], []. rewrite !app_nil_r. cbn [app] in H2.
      rewrite app_nil_r in H1. subst c2.
      split; [reflexivity|]. split; [reflexivity|]. left.
      split; [reflexivity|]. symmetry. exact H2.
    + cbn [app] in H2. injection H2 as <- H2. destruct k as [|k2 k].
      * cbn [app] in H2. exists c2, [], [13]. rewrite app_nil_r.
        split; [exact H1|]. split; [reflexivity|]. right. left.
        split; [reflexivity|]. split; [reflexivity|]. symmetry. exact H2.
      * cbn [app] in H2. injection H2 as <- H2.
        assert (k = []) by (apply (Hn c2 k); exact H1). subst k.
        cbn [app] in H2. exists c2, [], [13; 10]. rewrite app_nil_r.
        split; [exact H1|]. split; [reflexivity|]. right. right.
        split; [reflexivity|]. split; [reflexivity|]. symmetry. exact H2.
Qed.

(* ------------------------------------------------------------------ *)
(* strip *)

Lemma lstrip_suffix ws s : exists t, s = t ++ lstrip_by ws s.
Proof.
  induction s as [|c s [t IH]].
  - exists []. reflexivity.
  - cbn [lstrip_by]. destruct (ws c).
    + exists (c :: t). cbn [app]. rewrite <- IH. reflexivity.
    + exists []. reflexivity.
Qed.

Lemma lstrip_app_all ws a b :
  forallb ws a = true -> lstrip_by ws (a ++ b) = lstrip_by ws b.
Proof.
  induction a as [|c a IH]; intros H; [reflexivity|].
  cbn [forallb] in H. apply andb_true_iff in H as [H1 H2].
  cbn [app lstrip_by]. rewrite H1. apply IH. exact H2.
Qed.

Lemma lstrip_all ws a : forallb ws a = true -> lstrip_by ws a = [].
Proof.
  intros H. rewrite <- (app_nil_r a). rewrite lstrip_app_all by exact H.
  reflexivity.
Qed.

Lemma rstrip_by_rev ws l : rstrip_by ws l = rev (lstrip_by ws (rev l)).
Proof. unfold rstrip_by. rewrite !rv_rev. reflexivity. Qed.

Lemma rstrip_prefix ws l : exists t, l = rstrip_by ws l ++ t.
Proof.
  rewrite rstrip_by_rev. destruct (lstrip_suffix ws (rev l)) as [t H].
  exists (rev t). rewrite <- rev_app_distr, <- H, rev_involutive. reflexivity.
Qed.

Lemma forallb_rev {A} (f : A -> bool) l : forallb f (rev l) = forallb f l.
Proof.
  induction l as [|x l IH]; [reflexivity|].
  cbn [rev forallb]. rewrite forallb_app, IH. cbn [forallb].
  rewrite andb_true_r. apply andb_comm.
Qed.

(* x ends with a non-blank character, w is all blank *)
Lemma rstrip_app_ws ws x c w :
  ws c = false -> forallb ws w = true ->
  rstrip_by ws (x ++ [c] ++ w) = x ++ [c].
Proof.
  intros Hc Hw. rewrite rstrip_by_rev, !rev_app_distr.
  rewrite <- app_assoc. rewrite lstrip_app_all by (rewrite forallb_rev; exact Hw).
  cbn [rev app lstrip_by]. rewrite Hc. cbn [rev].
  rewrite rev_involutive. reflexivity.
Qed.

Lemma strip_nil_all l : forallb is_ws l = true -> strip l = [].
Proof.
  intros H. unfold strip, strip_by. rewrite rstrip_by_rev.
  rewrite lstrip_all by (rewrite forallb_rev; exact H). reflexivity.
Qed.

(* ------------------------------------------------------------------ *)
(* the endswith ladder *)

Lemma split_end_crlf x : split_end (x ++ [13; 10]) = (x, [13; 10], true).
Proof.
  unfold split_end. rewrite rv_rev, rev_app_distr. cbn [rev app].
  rewrite !Z.eqb_refl. rewrite rv_rev, rev_involutive. reflexivity.
Qed.

Lemma split_end_cr x : split_end (x ++ [13]) = (x, [13], false).
Proof.
  unfold split_end. rewrite rv_rev, rev_app_distr. cbn [rev app].
  replace (13 =? 10) with false by reflexivity. rewrite Z.eqb_refl.
  rewrite rv_rev, rev_involutive. reflexivity.
Qed.

Lemma split_end_spec line body d lf :
  split_end line = (body, d, lf) ->
  line = body ++ d /\ (lf = true -> ends_lf line) /\
  (d = [13] -> exists z, line = z ++ [13]).
Proof.
  unfold split_end. rewrite rv_rev.
  assert (Hl : line = rev (rev line)) by (rewrite rev_involutive; reflexivity).
  destruct (rev line) as [|x r] eqn:E.
  - intros H. injection H as <- <- <-. rewrite app_nil_r.
    repeat split; intros; discriminate.
  - cbn [rev] in Hl. destruct (x =? 10) eqn:E10.
    + apply Z.eqb_eq in E10. subst x. destruct r as [|y r'].
      * intros H. injection H as <- <- <-. cbn [rev app] in Hl.
        repeat split; auto.
        -- intros _. exists []. exact Hl.
        -- discriminate.
      * destruct (y =? 13) eqn:E13.
        -- apply Z.eqb_eq in E13. subst y. intros H. injection H as <- <- <-.
           rewrite rv_rev. cbn [rev] in Hl. rewrite <- app_assoc in Hl.
           cbn [app] in Hl. repeat split; auto.
           ++ intros _. exists (rev r' ++ [13]). rewrite <- app_assoc. exact Hl.
           ++ discriminate.
        -- intros H. injection H as <- <- <-. rewrite rv_rev.
           repeat split; auto.
           ++ intros _. exists (rev (y :: r')). exact Hl.
           ++ discriminate.
    + destruct (x =? 13) eqn:E13.
      * apply Z.eqb_eq in E13. subst x. intros H. injection H as <- <- <-.
        rewrite rv_rev. repeat split; auto.
        -- discriminate.
        -- intros _. exists (rev r). exact Hl.
      * intros H. injection H as <- <- <-. rewrite app_nil_r.
        repeat split; intros; discriminate.
Qed.
