From Coq Require Import ZArith List Bool Lia.
Require Import PW.lib.Val PW.lib.ValFacts PW.model.Multipart.
Import ListNotations.
Open Scope Z_scope.

Lemma rv_rev (l : list Z) : rv l = rev l.
Proof. unfold rv. rewrite rev_append_rev, app_nil_r. reflexivity. Qed.
