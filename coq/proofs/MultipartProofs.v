(* Proofs about model/Multipart.v (C08). *)
From Coq Require Import ZArith List Bool Lia String.
Require Import PW.lib.Val PW.lib.ValFacts PW.model.Multipart.
Import ListNotations.
Open Scope list_scope.
Open Scope Z_scope.

(* ------------------------------------------------------------------ *)
(* lists *)

(* right-nest every ++ and compute it on explicit heads *)
Ltac lnorm := repeat (first [rewrite <- app_assoc | progress cbn [app]]).

Lemma rv_rev (l : list Z) : rv l = rev l.
Proof. unfold rv. rewrite rev_append_rev, app_nil_r. reflexivity. Qed.

Lemma len_nil {A} : len (@nil A) = 0.
Proof. reflexivity. Qed.
Lemma len_cons {A} (x : A) l : len (x :: l) = 1 + len l.
Proof. unfold len. cbn [List.length]. lia. Qed.
Lemma len_app {A} (a b : list A) : len (a ++ b) = len a + len b.
Proof. unfold len. rewrite app_length. lia. Qed.
Lemma len_nonneg {A} (l : list A) : 0 <= len l.
Proof. unfold len. lia. Qed.
Lemma len_zero_nil {A} (l : list A) : len l = 0 -> l = [].
Proof. destruct l; [reflexivity|]. rewrite len_cons. pose proof (len_nonneg l). lia. Qed.

Lemma is_nil_false {A} (l : list A) : l <> [] -> is_nil l = false.
Proof. destruct l; [congruence | reflexivity]. Qed.
Lemma is_nil_true {A} (l : list A) : is_nil l = true -> l = [].
Proof. destruct l; [reflexivity | discriminate]. Qed.

Lemma prefixb_app p s : prefixb p (p ++ s) = true.
Proof.
  induction p as [|x p IH]; [reflexivity|].
  cbn [prefixb app]. rewrite Z.eqb_refl, IH. reflexivity.
Qed.

Lemma prefixb_spec p : forall s, prefixb p s = true -> exists t, s = p ++ t.
Proof.
  induction p as [|x p IH]; intros s H.
  - exists s. reflexivity.
  - destruct s as [|y s]; [discriminate|]. cbn [prefixb] in H.
    apply andb_true_iff in H as [H1 H2]. apply Z.eqb_eq in H1. subst y.
    destruct (IH _ H2) as [t ->]. exists t. reflexivity.
Qed.

(* a ++ m = p ++ t with no element of p equal to the head of m *)
Lemma app_prefix_clean (a m p t : list Z) (x : Z) :
  a ++ m = p ++ t -> ~ In x p -> (m = [] \/ exists m', m = x :: m') ->
  exists k, a = p ++ k.
Proof.
  revert a. induction p as [|y p IH]; intros a H Hn Hm.
  - exists a. reflexivity.
  - destruct a as [|z a].
    + cbn [app] in H. destruct Hm as [-> | [m' ->]]; [discriminate|].
      injection H as -> _. exfalso. apply Hn. left. reflexivity.
    + cbn [app] in H. injection H as -> H.
      destruct (IH a H) as [k ->]; [intros Hi; apply Hn; right; exact Hi | exact Hm |].
      exists k. reflexivity.
Qed.

(* where a piece without inner CRLF that starts in c2 ++ CRLF ++ z ends *)
Lemma piece_cases (l u' c2 z : bytes) :
  l ++ u' = c2 ++ [13; 10] ++ z -> no_inner_crlf l ->
  exists l1 c2b m, l = l1 ++ m /\ c2 = l1 ++ c2b /\
    ((m = [] /\ u' = c2b ++ [13; 10] ++ z) \/
     (m = [13] /\ c2b = [] /\ u' = 10 :: z) \/
     (m = [13; 10] /\ c2b = [] /\ u' = z)).
Proof.
  intros H Hn. apply app_eq_app in H. destruct H as [k [[H1 H2] | [H1 H2]]].
  - (* l = c2 ++ k, 13::10::z = k ++ u' *)
    destruct k as [|k1 k].
    + exists l, [], []. rewrite !app_nil_r. cbn [app] in H2.
      rewrite app_nil_r in H1. subst c2.
      split; [reflexivity|]. split; [reflexivity|]. left.
      split; [reflexivity|]. symmetry. exact H2.
    + cbn [app] in H2. injection H2 as <- H2. destruct k as [|k2 k].
      * cbn [app] in H2. exists c2, [], [13]. rewrite app_nil_r.
        split; [exact H1|]. split; [reflexivity|]. right. left.
        split; [reflexivity|]. split; [reflexivity|]. symmetry. exact H2.
      * cbn [app] in H2. injection H2 as <- H2.
        assert (k = []) by (apply (Hn c2 k); exact H1). subst k.
        cbn [app] in H2. exists c2, [], [13; 10]. rewrite app_nil_r.
        split; [exact H1|]. split; [reflexivity|]. right. right.
        split; [reflexivity|]. split; [reflexivity|]. symmetry. exact H2.
  - (* c2 = l ++ k *)
    exists l, k, []. rewrite app_nil_r.
    split; [reflexivity|]. split; [exact H1|]. left.
    split; [reflexivity|exact H2].
Qed.

(* ------------------------------------------------------------------ *)
(* strip *)

Lemma lstrip_suffix ws s :
  exists t, s = t ++ lstrip_by ws s /\ forallb ws t = true.
Proof.
  induction s as [|c s [t [IH Ht]]].
  - exists []. split; reflexivity.
  - cbn [lstrip_by]. destruct (ws c) eqn:E.
    + exists (c :: t). cbn [app forallb]. rewrite <- IH, E, Ht.
      split; reflexivity.
    + exists []. split; reflexivity.
Qed.

Lemma lstrip_app_all ws a b :
  forallb ws a = true -> lstrip_by ws (a ++ b) = lstrip_by ws b.
Proof.
  induction a as [|c a IH]; intros H; [reflexivity|].
  cbn [forallb] in H. apply andb_true_iff in H as [H1 H2].
  cbn [app lstrip_by]. rewrite H1. apply IH. exact H2.
Qed.

Lemma lstrip_all ws a : forallb ws a = true -> lstrip_by ws a = [].
Proof.
  intros H. rewrite <- (app_nil_r a). rewrite lstrip_app_all by exact H.
  reflexivity.
Qed.

Lemma rstrip_by_rev ws l : rstrip_by ws l = rev (lstrip_by ws (rev l)).
Proof. unfold rstrip_by. rewrite !rv_rev. reflexivity. Qed.

Lemma forallb_rev {A} (f : A -> bool) l : forallb f (rev l) = forallb f l.
Proof.
  induction l as [|x l IH]; [reflexivity|].
  cbn [rev forallb]. rewrite forallb_app, IH. cbn [forallb].
  rewrite andb_true_r. apply andb_comm.
Qed.

Lemma rstrip_prefix ws l :
  exists t, l = rstrip_by ws l ++ t /\ forallb ws t = true.
Proof.
  rewrite rstrip_by_rev. destruct (lstrip_suffix ws (rev l)) as [t [H Ht]].
  exists (rev t). split.
  - rewrite <- rev_app_distr, <- H, rev_involutive. reflexivity.
  - rewrite forallb_rev. exact Ht.
Qed.


(* x ends with a non-blank character, w is all blank *)
Lemma rstrip_app_ws ws x c w :
  ws c = false -> forallb ws w = true ->
  rstrip_by ws (x ++ [c] ++ w) = x ++ [c].
Proof.
  intros Hc Hw. rewrite rstrip_by_rev, !rev_app_distr.
  rewrite <- app_assoc. rewrite lstrip_app_all by (rewrite forallb_rev; exact Hw).
  cbn [rev app lstrip_by]. rewrite Hc. cbn [rev].
  rewrite rev_involutive. reflexivity.
Qed.

Lemma strip_nil_all l : forallb is_ws l = true -> strip l = [].
Proof.
  intros H. unfold strip, strip_by. rewrite rstrip_by_rev.
  rewrite (lstrip_all is_ws (rev l)) by (rewrite forallb_rev; exact H).
  reflexivity.
Qed.

(* ------------------------------------------------------------------ *)
(* the endswith ladder *)

Lemma split_end_crlf x : split_end (x ++ [13; 10]) = (x, [13; 10], true).
Proof.
  unfold split_end. rewrite rv_rev, rev_app_distr. cbn [rev app].
  rewrite !Z.eqb_refl. rewrite rv_rev, rev_involutive. reflexivity.
Qed.

Lemma split_end_cr x : split_end (x ++ [13]) = (x, [13], false).
Proof.
  unfold split_end. rewrite rv_rev, rev_app_distr. cbn [rev app].
  replace (13 =? 10) with false by reflexivity. rewrite Z.eqb_refl.
  rewrite rv_rev, rev_involutive. reflexivity.
Qed.

Lemma split_end_spec line body d lf :
  split_end line = (body, d, lf) ->
  line = body ++ d /\ (lf = true -> ends_lf line) /\
  (d = [13] -> exists z, line = z ++ [13]).
Proof.
  unfold split_end. rewrite rv_rev.
  assert (Hl : line = rev (rev line)) by (rewrite rev_involutive; reflexivity).
  destruct (rev line) as [|x r] eqn:E.
  - intros H. injection H as <- <- <-. rewrite app_nil_r.
    repeat split; intros; discriminate.
  - cbn [rev] in Hl. destruct (x =? 10) eqn:E10.
    + apply Z.eqb_eq in E10. subst x. destruct r as [|y r'].
      * intros H. injection H as <- <- <-. cbn [rev app] in Hl.
        repeat split; auto.
        -- intros _. exists []. exact Hl.
        -- discriminate.
      * destruct (y =? 13) eqn:E13.
        -- apply Z.eqb_eq in E13. subst y. intros H. injection H as <- <- <-.
           rewrite rv_rev. cbn [rev] in Hl. rewrite <- app_assoc in Hl.
           cbn [app] in Hl. repeat split; auto.
           ++ intros _. exists (rev r' ++ [13]). rewrite <- app_assoc. exact Hl.
           ++ discriminate.
        -- intros H. injection H as <- <- <-. rewrite rv_rev.
           repeat split; auto.
           ++ intros _. exists (rev (y :: r')). exact Hl.
           ++ discriminate.
    + destruct (x =? 13) eqn:E13.
      * apply Z.eqb_eq in E13. subst x. intros H. injection H as <- <- <-.
        rewrite rv_rev. repeat split; auto.
        -- discriminate.
        -- intros _. exists (rev r). exact Hl.
      * intros H. injection H as <- <- <-. rewrite app_nil_r.
        repeat split; intros; discriminate.
Qed.

(* ------------------------------------------------------------------ *)
(* boundaries *)

Lemma graphic_range c : graphic c = true -> 33 <= c <= 126.
Proof. unfold graphic. intros H. apply andb_true_iff in H as [H1 H2].
  apply Z.leb_le in H1, H2. lia. Qed.
Lemma printable_range c : printable c = true -> 32 <= c <= 126.
Proof. unfold printable. intros H. apply andb_true_iff in H as [H1 H2].
  apply Z.leb_le in H1, H2. lia. Qed.

Lemma is_ws_false c : 33 <= c <= 126 -> is_ws c = false.
Proof.
  intros H. unfold is_ws.
  replace (c =? 32) with false by (symmetry; apply Z.eqb_neq; lia).
  replace (c <=? 13) with false by (symmetry; apply Z.leb_gt; lia).
  rewrite andb_false_r. reflexivity.
Qed.

Lemma boundary_ok_facts b : boundary_ok b = true ->
  (forall x, In x b -> 32 <= x <= 126) /\
  (exists b0 c, b = b0 ++ [c] /\ 33 <= c <= 126) /\ len b <= 201.
Proof.
  unfold boundary_ok. intros H.
  assert (Hb : b = rev (rev b)) by (rewrite rev_involutive; reflexivity).
  destruct (rev b) as [|c t]; [discriminate|].
  apply andb_true_iff in H as [H12 H3]. apply andb_true_iff in H12 as [H1 H2].
  apply graphic_range in H1. apply Z.leb_le in H3.
  cbn [rev] in Hb. split; [|split].
  - intros x Hx. rewrite Hb in Hx. apply in_app_or in Hx as [Hx|Hx].
    + apply in_rev in Hx. rewrite forallb_forall in H2.
      apply printable_range. apply H2. exact Hx.
    + destruct Hx as [<-|[]]. lia.
  - exists (rev t), c. split; [exact Hb | exact H1].
  - rewrite Hb, len_app. unfold len in *. rewrite rev_length.
    cbn [List.length]. lia.
Qed.

Lemma boundary_ok_valid b : boundary_ok b = true -> valid_boundary b = true.
Proof.
  unfold boundary_ok, valid_boundary. rewrite rv_rev.
  destruct (rev b) as [|c t]; [discriminate|]. intros H.
  assert (Hc : c =? 10 = false).
  { apply andb_true_iff in H as [H1 _]. apply andb_true_iff in H1 as [H2 _].
    apply graphic_range in H2. apply Z.eqb_neq. lia. }
  rewrite Hc. exact H.
Qed.

Lemma dashb_chars b x : (forall y, In y b -> 32 <= y <= 126) ->
  In x (dashb b) -> 32 <= x <= 126.
Proof.
  intros Hb [<-|[<-|Hx]]; try lia. apply Hb. exact Hx.
Qed.

(* ------------------------------------------------------------------ *)
(* one round of read_lines_to_outerboundary *)

Lemma carry_cases d lfend l : l <> [] ->
  (d <> [13] /\ carry d lfend l = CLine l d lfend) \/
  (d = [13] /\ carry d lfend l = CLine (13 :: l) [] lfend) \/
  (d = [13] /\ exists r, l = 10 :: r /\ r <> [] /\
                        carry d lfend l = CLine r [13; 10] true) \/
  (d = [13] /\ l = [10] /\ carry d lfend l = CSkip).
Proof.
  intros Hne. unfold carry. destruct (lz_eqb d [13]) eqn:E.
  - apply lz_eqb_eq in E. subst d. destruct l as [|x r]; [congruence|].
    destruct (x =? 10) eqn:Ex.
    + apply Z.eqb_eq in Ex. subst x. destruct r as [|y r].
      * right. right. right. auto.
      * right. right. left. split; [reflexivity|]. exists (y :: r).
        repeat split; auto. discriminate.
    + right. left. auto.
  - left. split; [|reflexivity]. intros ->. discriminate.
Qed.

Lemma boundary_hit_some nb lb line lfend k :
  boundary_hit nb lb line lfend = Some k ->
  lfend = true /\
  ((k = 0 /\ exists t, line = nb ++ t /\ forallb is_ws t = true) \/
   (k = 1 /\ exists t, line = lb ++ t /\ forallb is_ws t = true)).
Proof.
  unfold boundary_hit. destruct (prefixb [45; 45] line && lfend) eqn:E;
    [|discriminate].
  apply andb_true_iff in E as [_ ->]. cbv zeta. intros H.
  split; [reflexivity|].
  destruct (rstrip_prefix is_ws line) as [t [Ht Hws]]. fold rstrip in Ht.
  destruct (lz_eqb (rstrip line) nb) eqn:E1.
  - injection H as <-. apply lz_eqb_eq in E1. left.
    split; [reflexivity|]. exists t. rewrite <- E1. split; assumption.
  - destruct (lz_eqb (rstrip line) lb) eqn:E2; [|discriminate].
    injection H as <-. apply lz_eqb_eq in E2. right.
    split; [reflexivity|]. exists t. rewrite <- E2. split; assumption.
Qed.

Lemma harmless_ws x r : is_ws x = true -> harmless (x :: r) = false.
Proof. intros H. cbn [harmless]. rewrite H. reflexivity. Qed.

Lemma ends_lf_app a l : ends_lf l -> ends_lf (a ++ l).
Proof. intros [z ->]. exists (a ++ z). rewrite app_assoc. reflexivity. Qed.

Lemma not_ends_lf_in l x : ~ In 10 x -> (exists t, x = l ++ t) -> l <> [] ->
  ~ ends_lf l.
Proof.
  intros Hx [t ->] Hne [z ->]. apply Hx. apply in_or_app. left.
  apply in_or_app. right. left. reflexivity.
Qed.

Definition optb (o : option bytes) : bytes :=
  match o with Some p => p | None => [] end.

Lemma boundary_hit_lf_false nb lb line : boundary_hit nb lb line false = None.
Proof. unfold boundary_hit. rewrite andb_false_r. reflexivity. Qed.

(* a line of the content never passes the boundary test.  The line starts
   right behind an LF (or at the start of c): 10 :: c = X ++ [10] ++ l1 ++ c2b
   where l1 is the part of the line inside the content. *)
Lemma no_false_hit maxline b c X l1 c2b m line :
  (forall x, In x b -> 32 <= x <= 126) ->
  len b + 6 <= maxline ->
  no_delim_line b c ->
  10 :: c = X ++ [10] ++ l1 ++ c2b ->
  line = l1 ++ m ->
  (m = [] \/ (m = [13] /\ c2b = []) \/ (m = [13; 10] /\ c2b = [])) ->
  (m = [] -> ~ ends_lf line -> maxline <= len line + 1) ->
  boundary_hit (dashb b) (dashb b ++ [45; 45]) line true = None.
Proof.
  intros Hb Hmaxb Hnd HX Hline Hm Hcut.
  destruct (boundary_hit (dashb b) (dashb b ++ [45; 45]) line true)
    as [hit|] eqn:E; [|reflexivity]. exfalso.
  apply boundary_hit_some in E as [_ E].
  (* the line is the dash-boundary followed by t0 = blanks or "--" blanks *)
  assert (Hpre : exists t0, line = dashb b ++ t0 /\
            (forallb is_ws t0 = true \/
             exists t, t0 = 45 :: 45 :: t /\ forallb is_ws t = true)).
  { destruct E as [[_ [t [Ht Hw]]] | [_ [t [Ht Hw]]]].
    - exists t. split; [exact Ht | left; exact Hw].
    - exists ([45; 45] ++ t). split; [rewrite Ht; lnorm; reflexivity|].
      right. exists t. split; [reflexivity | exact Hw]. }
  destruct Hpre as [t0 [Ht Hform]]. rewrite Hline in Ht.
  assert (H13 : ~ In 13 (dashb b)).
  { intros Hi. apply (dashb_chars b 13 Hb) in Hi. lia. }
  assert (H10 : ~ In 10 (dashb b)).
  { intros Hi. apply (dashb_chars b 10 Hb) in Hi. lia. }
  destruct (app_prefix_clean l1 m (dashb b) t0 13 Ht H13) as [k Hk].
  { destruct Hm as [-> | [[-> _] | [-> _]]]; eauto. }
  rewrite Hk, <- app_assoc in Ht. apply app_inv_head in Ht.
  assert (Hh : harmless ((k ++ c2b) ++ [13; 10]) = true).
  { apply (Hnd X (k ++ c2b)). rewrite HX, Hk. lnorm. reflexivity. }
  assert (Hlen_db : len (dashb b) = len b + 2)
    by (unfold dashb; rewrite !len_cons; lia).
  (* a piece that is exactly "--b" or "--b--" inside the content would be a
     size cut, but the line limit is larger *)
  assert (Hshort : m = [] -> (k = [] \/ k = [45; 45]) -> False).
  { intros Hm0 Hk0. subst m. rewrite app_nil_r in Hline.
    assert (Hnl : ~ ends_lf line).
    { apply (not_ends_lf_in line line);
        [|exists []; rewrite app_nil_r; reflexivity|].
      - rewrite Hline, Hk. intros Hi. apply in_app_or in Hi as [Hi|Hi];
          [exact (H10 Hi)|].
        destruct Hk0 as [-> | ->]; cbn in Hi; intuition discriminate.
      - rewrite Hline, Hk. unfold dashb. discriminate. }
    specialize (Hcut eq_refl Hnl).
    rewrite Hline, Hk, len_app, Hlen_db in Hcut.
    destruct Hk0 as [-> | ->];
      [change (len (@nil Z)) with 0 in Hcut
      |change (len [45; 45]) with 2 in Hcut]; lia. }
  assert (Hc2b : m <> [] -> c2b = []).
  { intros Hmn. destruct Hm as [-> | [[_ Hx] | [_ Hx]]];
      [congruence | exact Hx | exact Hx]. }
  destruct Hform as [Hw | [t [He Hw]]].
  - (* blanks only *)
    destruct k as [|k1 k].
    + destruct m as [|m1 m'] eqn:Em.
      * apply Hshort; [reflexivity | left; reflexivity].
      * rewrite (Hc2b ltac:(discriminate)) in Hh. cbn in Hh. discriminate.
    + cbn [app] in Ht. subst t0. cbn [forallb] in Hw.
      apply andb_true_iff in Hw as [Hw _].
      cbn [app] in Hh. rewrite (harmless_ws k1 _ Hw) in Hh. discriminate.
  - (* "--" and blanks *)
    rewrite He in Ht.
    destruct k as [|k1 [|k2 [|k3 k]]].
    + cbn [app] in Ht. destruct Hm as [-> | [[-> _] | [-> _]]];
        discriminate Ht.
    + cbn [app] in Ht. injection Ht as _ Ht.
      destruct Hm as [-> | [[-> _] | [-> _]]]; discriminate Ht.
    + cbn [app] in Ht. injection Ht as -> -> Ht.
      destruct m as [|m1 m'] eqn:Em.
      * apply Hshort; [reflexivity | right; reflexivity].
      * rewrite (Hc2b ltac:(discriminate)) in Hh. cbn in Hh. discriminate.
    + cbn [app] in Ht. injection Ht as -> -> Ht. subst t.
      cbn [app forallb] in Hw. apply andb_true_iff in Hw as [Hw _].
      cbn [app harmless] in Hh. cbn in Hh. rewrite Hw in Hh. discriminate.
Qed.

Lemma ends_lf_tail r : r <> [] -> ends_lf (10 :: r) -> ends_lf r.
Proof.
  intros Hr [y Hy]. destruct y as [|y0 y].
  - cbn [app] in Hy. injection Hy as ->. congruence.
  - cbn [app] in Hy. injection Hy as _ ->. exists y. reflexivity.
Qed.

(* phase A: the delimiter CRLF--b is still completely unread *)
Lemma step_content maxline b c w d lfend l u' c2 z :
  (forall x, In x b -> 32 <= x <= 126) ->
  len b + 6 <= maxline ->
  no_delim_line b c ->
  w ++ d ++ c2 = c ->
  (lfend = true -> w ++ d = [] \/ ends_lf (w ++ d)) ->
  l <> [] -> no_inner_crlf l ->
  (~ ends_lf l -> maxline <= len l \/ u' = []) ->
  l ++ u' = c2 ++ [13; 10] ++ z ->
  exists piece d' lf',
    rlob_step (dashb b) (dashb b ++ [45; 45]) d lfend l = SCont piece d' lf' /\
    (w ++ optb piece) ++ d' = (w ++ d) ++ l /\
    (lf' = true -> ends_lf ((w ++ optb piece) ++ d')) /\
    ((exists c2', u' = c2' ++ [13; 10] ++ z /\
                  (w ++ optb piece) ++ d' ++ c2' = c) \/
     (d' = [13] /\ w ++ optb piece = c /\ u' = 10 :: z) \/
     (d' = [13; 10] /\ w ++ optb piece = c /\ lf' = true /\ u' = z)).
Proof.
  intros Hb Hmaxb Hnd Hc Hlf Hne Hin Hfull Hcat.
  destruct (piece_cases l u' c2 z Hcat Hin) as (l1 & c2b & m & Hl & Hc2 & Hm).
  assert (Hm' : m = [] \/ (m = [13] /\ c2b = []) \/ (m = [13; 10] /\ c2b = [])).
  { destruct Hm as [[-> _] | [[-> [-> _]] | [-> [-> _]]]]; auto. }
  assert (Hu_ne : m = [] -> u' <> []).
  { intros ->. destruct Hm as [[_ ->] | [[Hx _] | [Hx _]]]; try discriminate Hx.
    destruct c2b; discriminate. }
  unfold rlob_step.
  destruct (carry_cases d lfend l Hne)
    as [[Hd Hcarry] | [[Hd Hcarry] | [[Hd (r & Hlr & Hrne & Hcarry)]
                                     | [Hd [Hl10 Hcarry]]]]];
    rewrite Hcarry.
  4:{ (* the piece is the LF of a divided CRLF inside the content *)
      subst d. rewrite Hl10 in *. clear Hl10.
      exists None, [13; 10], true. cbn [optb].
      split; [reflexivity|]. rewrite app_nil_r. split; [lnorm; reflexivity|].
      split; [intros _; exists (w ++ [13]); lnorm; reflexivity|].
      left.
      assert (m = []).
      { destruct Hm' as [-> | [[-> _] | [-> _]]]; [reflexivity| |].
        - destruct l1 as [|? [|? ?]]; discriminate Hl.
        - destruct l1 as [|? [|? ?]]; discriminate Hl. }
      subst m. rewrite app_nil_r in Hl. subst l1.
      destruct Hm as [[_ Hu] | [[Hx _] | [Hx _]]]; try discriminate Hx.
      exists c2b. split; [exact Hu|]. rewrite <- Hc, Hc2. lnorm. reflexivity. }
  all: (* a line was formed: line = lpre ++ m, odelim ++ lpre = d ++ l1 *)
    match goal with
    | |- context [boundary_hit _ _ ?line ?lf1] =>
        assert (Hhit : boundary_hit (dashb b) (dashb b ++ [45; 45]) line lf1
                       = None)
    end.
  - (* ordinary line *)
    destruct lfend; [|apply boundary_hit_lf_false].
    destruct (Hlf eq_refl) as [Hwd | [y Hwd]].
    + apply (no_false_hit maxline b c [] l1 c2b m l Hb Hmaxb Hnd); auto.
      * rewrite <- Hc, Hc2, app_assoc, Hwd. reflexivity.
      * intros Hm0 Hnl. destruct (Hfull Hnl) as [Hx | Hx]; [lia|].
        exfalso. exact (Hu_ne Hm0 Hx).
    + apply (no_false_hit maxline b c (10 :: y) l1 c2b m l Hb Hmaxb Hnd); auto.
      * rewrite <- Hc, Hc2, app_assoc, Hwd. lnorm. reflexivity.
      * intros Hm0 Hnl. destruct (Hfull Hnl) as [Hx | Hx]; [lia|].
        exfalso. exact (Hu_ne Hm0 Hx).
  - rewrite Hhit.
    destruct (split_end l) as [[body d'] lf'] eqn:Es.
    pose proof (split_end_spec _ _ _ _ Es) as (Hline & Hlf' & _).
    assert (Hall : (w ++ d ++ body) ++ d' = (w ++ d) ++ l).
    { rewrite Hline. lnorm. reflexivity. }
    destruct Hm as [[-> Hu] | [[-> [-> Hu]] | [-> [-> Hu]]]].
    + rewrite app_nil_r in Hl. subst l1.
      exists (Some (d ++ body)), d', lf'. cbn [optb].
      split; [reflexivity|]. split; [exact Hall|]. split.
      { intros E. rewrite Hall. apply ends_lf_app. exact (Hlf' E). }
      left. exists c2b. split; [exact Hu|].
      rewrite app_assoc, Hall, <- Hc, Hc2. lnorm. reflexivity.
    + rewrite app_nil_r in Hc2. subst l1. rewrite Hl, split_end_cr in Es.
      injection Es as <- <- <-.
      exists (Some (d ++ c2)), [13], false. cbn [optb].
      split; [reflexivity|]. split; [rewrite Hl; lnorm; reflexivity|].
      split; [discriminate|]. right. left.
      split; [reflexivity|]. split; [|exact Hu]. rewrite <- Hc. reflexivity.
    + rewrite app_nil_r in Hc2. subst l1. rewrite Hl, split_end_crlf in Es.
      injection Es as <- <- <-.
      exists (Some (d ++ c2)), [13; 10], true. cbn [optb].
      split; [reflexivity|]. split; [rewrite Hl; lnorm; reflexivity|].
      split; [intros _; exists ((w ++ d ++ c2) ++ [13]); lnorm; reflexivity|].
      right. right. split; [reflexivity|].
      split; [rewrite <- Hc; reflexivity|]. split; [reflexivity | exact Hu].
  - (* a carried CR in front of something else than LF *)
    unfold boundary_hit. cbn [prefixb]. replace (45 =? 13) with false by reflexivity.
    reflexivity.
  - rewrite Hhit. subst d.
    assert (Hlx : forall x, split_end (13 :: x) = split_end ([13] ++ x))
      by reflexivity.
    destruct (split_end (13 :: l)) as [[body d'] lf'] eqn:Es.
    pose proof (split_end_spec _ _ _ _ Es) as (Hline & Hlf' & _).
    assert (Hall : (w ++ [] ++ body) ++ d' = (w ++ [13]) ++ l).
    { cbn [app]. rewrite <- app_assoc, <- Hline. lnorm. reflexivity. }
    destruct Hm as [[-> Hu] | [[-> [-> Hu]] | [-> [-> Hu]]]].
    + rewrite app_nil_r in Hl. subst l1.
      exists (Some ([] ++ body)), d', lf'. cbn [optb].
      split; [reflexivity|]. split; [exact Hall|]. split.
      { intros E. rewrite Hall. specialize (Hlf' E).
        rewrite <- app_assoc. apply ends_lf_app. exact Hlf'. }
      left. exists c2b. split; [exact Hu|].
      rewrite app_assoc, Hall, <- Hc, Hc2. lnorm. reflexivity.
    + rewrite app_nil_r in Hc2. subst l1.
      rewrite Hl in Es. change (13 :: c2 ++ [13]) with ((13 :: c2) ++ [13]) in Es.
      rewrite split_end_cr in Es. injection Es as <- <- <-.
      exists (Some ([] ++ 13 :: c2)), [13], false. cbn [optb].
      split; [reflexivity|]. split; [rewrite Hl; lnorm; reflexivity|].
      split; [discriminate|]. right. left.
      split; [reflexivity|]. split; [|exact Hu]. rewrite <- Hc. lnorm.
      reflexivity.
    + rewrite app_nil_r in Hc2. subst l1.
      rewrite Hl in Es.
      change (13 :: c2 ++ [13; 10]) with ((13 :: c2) ++ [13; 10]) in Es.
      rewrite split_end_crlf in Es. injection Es as <- <- <-.
      exists (Some ([] ++ 13 :: c2)), [13; 10], true. cbn [optb].
      split; [reflexivity|]. split; [rewrite Hl; lnorm; reflexivity|].
      split; [intros _; exists ((w ++ 13 :: c2) ++ [13]); lnorm; reflexivity|].
      right. right. split; [reflexivity|].
      split; [rewrite <- Hc; lnorm; reflexivity|].
      split; [reflexivity | exact Hu].
  - (* the CRLF in the content was divided by the size limit and the LF
       came back glued to the next line r *)
    subst d. rewrite Hlr in Hl, Hfull. clear Hlr.
    assert (Hl1 : exists l1', l1 = 10 :: l1' /\ r = l1' ++ m).
    { destruct l1 as [|x l1'].
      - cbn [app] in Hl. subst m.
        destruct Hm' as [Hx | [[Hx _] | [Hx _]]]; discriminate Hx.
      - cbn [app] in Hl. injection Hl as <- Hl. exists l1'. auto. }
    destruct Hl1 as (l1' & -> & Hr).
    apply (no_false_hit maxline b c (10 :: w ++ [13]) l1' c2b m r Hb Hmaxb Hnd);
      auto.
    + rewrite <- Hc, Hc2. lnorm. reflexivity.
    + intros Hm0 Hnl.
      assert (Hnl' : ~ ends_lf (10 :: r)).
      { intros He. apply Hnl. apply ends_lf_tail; assumption. }
      destruct (Hfull Hnl') as [Hx | Hx].
      * rewrite len_cons in Hx. lia.
      * exfalso. exact (Hu_ne Hm0 Hx).
  - rewrite Hhit. subst d. rewrite Hlr in *. clear Hlr.
    assert (Hl1 : exists l1', l1 = 10 :: l1' /\ r = l1' ++ m).
    { destruct l1 as [|x l1'].
      - cbn [app] in Hl. subst m.
        destruct Hm' as [Hx | [[Hx _] | [Hx _]]]; discriminate Hx.
      - cbn [app] in Hl. injection Hl as <- Hl. exists l1'. auto. }
    destruct Hl1 as (l1' & -> & Hr).
    destruct (split_end r) as [[body d'] lf'] eqn:Es.
    pose proof (split_end_spec _ _ _ _ Es) as (Hline & Hlf' & _).
    assert (Hall : (w ++ [13; 10] ++ body) ++ d' = (w ++ [13]) ++ 10 :: r).
    { rewrite Hline. lnorm. reflexivity. }
    destruct Hm as [[-> Hu] | [[-> [-> Hu]] | [-> [-> Hu]]]].
    + rewrite app_nil_r in Hr. subst l1'.
      exists (Some ([13; 10] ++ body)), d', lf'. cbn [optb].
      split; [reflexivity|]. split; [exact Hall|]. split.
      { intros E. rewrite Hall. specialize (Hlf' E).
        change ((w ++ [13]) ++ 10 :: r) with ((w ++ [13]) ++ [10] ++ r).
        rewrite app_assoc. apply ends_lf_app. exact Hlf'. }
      left. exists c2b. split; [exact Hu|].
      rewrite app_assoc, Hall, <- Hc, Hc2. lnorm. reflexivity.
    + rewrite app_nil_r in Hc2. rewrite Hr, split_end_cr in Es.
      injection Es as <- <- <-.
      exists (Some ([13; 10] ++ l1')), [13], false. cbn [optb].
      split; [reflexivity|]. split; [rewrite Hr; lnorm; reflexivity|].
      split; [discriminate|]. right. left.
      split; [reflexivity|]. split; [|exact Hu]. rewrite <- Hc, Hc2. lnorm.
      reflexivity.
    + rewrite app_nil_r in Hc2. rewrite Hr, split_end_crlf in Es.
      injection Es as <- <- <-.
      exists (Some ([13; 10] ++ l1')), [13; 10], true. cbn [optb].
      split; [reflexivity|]. split; [rewrite Hr; lnorm; reflexivity|].
      split; [intros _; exists ((w ++ [13; 10] ++ l1') ++ [13]); lnorm;
              reflexivity|].
      right. right. split; [reflexivity|].
      split; [rewrite <- Hc, Hc2; lnorm; reflexivity|].
      split; [reflexivity | exact Hu].
Qed.

Lemma lz_eqb_app_neq a t : t <> [] -> lz_eqb (a ++ t) a = false.
Proof.
  intros Ht. apply lz_eqb_neq. intros E.
  apply (f_equal (@List.length Z)) in E. rewrite app_length in E.
  destruct t; [congruence|]. cbn [List.length] in E. lia.
Qed.

Lemma is_blank_ws c : is_blank_c c = true -> is_ws c = true.
Proof.
  unfold is_blank_c, is_ws. intros H. apply orb_true_iff in H as [H|H];
    apply Z.eqb_eq in H; subst c; reflexivity.
Qed.

(* the delimiter line passes the boundary test *)
Lemma delimiter_hit b last pad eol :
  boundary_ok b = true -> forallb is_blank_c pad = true ->
  (eol = [13; 10] \/ eol = []) ->
  boundary_hit (dashb b) (dashb b ++ [45; 45]) (bline b last pad ++ eol) true
  = Some (if last then 1 else 0).
Proof.
  intros Hb Hpad Heol.
  destruct (boundary_ok_facts b Hb) as (_ & (b0 & c & -> & Hc) & _).
  assert (Hws : forallb is_ws (pad ++ eol) = true).
  { rewrite forallb_app. apply andb_true_iff. split.
    - rewrite forallb_forall in *. intros x Hx. apply is_blank_ws, Hpad, Hx.
    - destruct Heol as [-> | ->]; reflexivity. }
  unfold boundary_hit.
  assert (Hp : prefixb [45; 45] (bline (b0 ++ [c]) last pad ++ eol) = true).
  { unfold bline, dashb. cbn [app prefixb]. rewrite !Z.eqb_refl. reflexivity. }
  rewrite Hp. cbn [andb]. cbv zeta.
  destruct last.
  - assert (Hr : rstrip (bline (b0 ++ [c]) true pad ++ eol)
                 = dashb (b0 ++ [c]) ++ [45; 45]).
    { unfold bline, rstrip.
      replace ((dashb (b0 ++ [c]) ++ [45; 45] ++ pad) ++ eol)
        with ((dashb (b0 ++ [c]) ++ [45]) ++ [45] ++ (pad ++ eol))
        by (lnorm; reflexivity).
      rewrite rstrip_app_ws; [lnorm; reflexivity | reflexivity | exact Hws]. }
    rewrite Hr. rewrite lz_eqb_app_neq by discriminate.
    rewrite lz_eqb_refl. reflexivity.
  - assert (Hr : rstrip (bline (b0 ++ [c]) false pad ++ eol)
                 = dashb (b0 ++ [c])).
    { unfold bline, rstrip, dashb.
      replace (((45 :: 45 :: b0 ++ [c]) ++ [] ++ pad) ++ eol)
        with ((45 :: 45 :: b0) ++ [c] ++ (pad ++ eol))
        by (lnorm; reflexivity).
      rewrite rstrip_app_ws; [lnorm; reflexivity | apply is_ws_false; exact Hc
                             | exact Hws]. }
    rewrite Hr, lz_eqb_refl. reflexivity.
Qed.

(* phase C: the delimiter line behind a complete CRLF *)
Lemma step_delimiter b last pad eol :
  boundary_ok b = true -> forallb is_blank_c pad = true ->
  (eol = [13; 10] \/ eol = []) ->
  rlob_step (dashb b) (dashb b ++ [45; 45]) [13; 10] true
            (bline b last pad ++ eol) = SBreak (if last then 1 else 0).
Proof.
  intros Hb Hpad Heol. unfold rlob_step, carry.
  replace (lz_eqb [13; 10] [13]) with false by reflexivity.
  rewrite (delimiter_hit b last pad eol Hb Hpad Heol). reflexivity.
Qed.

(* phase B: a carried CR, then the LF glued to the delimiter line (a reader
   that ends lines only at CRLF) *)
Lemma step_lf_delimiter b last pad eol lfend :
  boundary_ok b = true -> forallb is_blank_c pad = true ->
  (eol = [13; 10] \/ eol = []) ->
  rlob_step (dashb b) (dashb b ++ [45; 45]) [13] lfend
            (10 :: bline b last pad ++ eol) = SBreak (if last then 1 else 0).
Proof.
  intros Hb Hpad Heol. unfold rlob_step, carry.
  replace (lz_eqb [13] [13]) with true by reflexivity.
  replace (10 =? 10) with true by reflexivity.
  assert (Hne : is_nil (bline b last pad ++ eol) = false).
  { unfold bline, dashb. reflexivity. }
  rewrite Hne, (delimiter_hit b last pad eol Hb Hpad Heol). reflexivity.
Qed.

(* ... or the LF on its own (a reader that ends lines at LF) *)
Lemma step_lone_lf nb lb lfend :
  rlob_step nb lb [13] lfend [10] = SCont None [13; 10] true.
Proof. reflexivity. Qed.

Lemma limit_hit_false limit clen nread :
  limit_ok limit clen -> nread <= clen + 2 -> limit_hit limit nread = false.
Proof.
  unfold limit_ok, limit_hit. destruct limit as [L|]; [|reflexivity].
  intros [H|H] Hn.
  - replace (0 <=? L) with false by (symmetry; apply Z.leb_gt; lia).
    reflexivity.
  - replace (L <=? nread) with false by (symmetry; apply Z.leb_gt; lia).
    apply andb_false_r.
Qed.

(* ------------------------------------------------------------------ *)
(* what the contract says about complete lines *)

Section Reader.
  Variable St : Type.
  Variable rl : Z -> St -> bytes * St.
  Variable rem : St -> bytes.
  Variable L : Z -> Prop.
  Variable P : St -> Prop.
  Hypothesis G : good_reader St rl rem L P.

  Lemma read_line_crlf lim s x rest :
    L lim -> P s -> rem s = x ++ [13; 10] ++ rest -> ~ In 10 x ->
    (lim < 0 \/ len x + 2 <= lim) ->
    fst (rl lim s) = x ++ [13; 10] /\ rem (snd (rl lim s)) = rest.
  Proof.
    intros HL Hs Hrem Hx Hlim.
    pose proof (gr_concat _ _ _ _ _ G lim s HL Hs) as Hcat.
    pose proof (gr_line _ _ _ _ _ G lim s HL Hs) as Hin.
    pose proof (gr_full _ _ _ _ _ G lim s HL Hs) as Hfull.
    assert (Hne : fst (rl lim s) <> []).
    { apply (gr_progress _ _ _ _ _ G); auto.
      - pose proof (len_nonneg x). lia.
      - rewrite Hrem. destruct x; discriminate. }
    set (l := fst (rl lim s)) in *. set (s' := snd (rl lim s)) in *.
    rewrite Hrem in Hcat.
    destruct (piece_cases l (rem s') x rest Hcat Hin)
      as (l1 & c2b & m & Hl & Hc2 & Hm).
    destruct Hm as [[-> Hu] | [[-> [-> Hu]] | [-> [-> Hu]]]].
    - exfalso. rewrite app_nil_r in Hl.
      assert (Hnl : ~ ends_lf l).
      { apply (not_ends_lf_in l x Hx); [|exact Hne]. exists c2b.
        rewrite Hl. exact Hc2. }
      destruct (Hfull Hnl) as [Hf | Hf].
      + assert (len l <= len x) by (rewrite Hc2, <- Hl, len_app;
                                    pose proof (len_nonneg c2b); lia).
        lia.
      + rewrite Hu in Hf. destruct c2b; discriminate.
    - exfalso. rewrite app_nil_r in Hc2. subst l1.
      assert (Hnl : ~ ends_lf l).
      { intros [y Hy]. rewrite Hl in Hy. apply app_inj_tail in Hy as [_ Hy].
        discriminate. }
      destruct (Hfull Hnl) as [Hf | Hf].
      + rewrite Hl, len_app in Hf. change (len [13]) with 1 in Hf. lia.
      + rewrite Hu in Hf. discriminate.
    - rewrite app_nil_r in Hc2. subst l1. split; [exact Hl | exact Hu].
  Qed.

  Lemma read_line_eof lim s x :
    L lim -> P s -> rem s = x -> x <> [] -> ~ In 10 x ->
    (lim < 0 \/ len x + 1 <= lim) ->
    fst (rl lim s) = x /\ rem (snd (rl lim s)) = [].
  Proof.
    intros HL Hs Hrem Hxne Hx Hlim.
    pose proof (gr_concat _ _ _ _ _ G lim s HL Hs) as Hcat.
    pose proof (gr_full _ _ _ _ _ G lim s HL Hs) as Hfull.
    assert (Hne : fst (rl lim s) <> []).
    { apply (gr_progress _ _ _ _ _ G); auto.
      - pose proof (len_nonneg x). lia.
      - rewrite Hrem. exact Hxne. }
    set (l := fst (rl lim s)) in *. set (s' := snd (rl lim s)) in *.
    rewrite Hrem in Hcat.
    assert (Hnl : ~ ends_lf l).
    { apply (not_ends_lf_in l x Hx); [|exact Hne]. exists (rem s').
      symmetry. exact Hcat. }
    destruct (Hfull Hnl) as [Hf | Hf].
    - exfalso. assert (len l <= len x) by (rewrite <- Hcat, len_app;
                                           pose proof (len_nonneg (rem s')); lia).
      lia.
    - rewrite Hf, app_nil_r in Hcat. split; [exact Hcat | exact Hf].
  Qed.
End Reader.

(* ------------------------------------------------------------------ *)
(* (1) read_lines_to_outerboundary returns exactly the content *)

Lemma concat_snoc (ps : list bytes) p : List.concat (ps ++ [p]) = List.concat ps ++ p.
Proof. rewrite concat_app. cbn [List.concat]. rewrite app_nil_r. reflexivity. Qed.

Lemma bline_no_lf b last pad :
  boundary_ok b = true -> forallb is_blank_c pad = true ->
  ~ In 10 (bline b last pad).
Proof.
  intros Hb Hpad Hi. destruct (boundary_ok_facts b Hb) as (Hc & _ & _).
  unfold bline in Hi. apply in_app_or in Hi as [Hi|Hi].
  - apply (dashb_chars b 10 Hc) in Hi. lia.
  - apply in_app_or in Hi as [Hi|Hi].
    + destruct last; [|destruct Hi].
      destruct Hi as [Hi|[Hi|[]]]; discriminate.
    + rewrite forallb_forall in Hpad. apply Hpad in Hi. discriminate.
Qed.

Lemma bline_len b last pad : 2 <= len (bline b last pad).
Proof.
  unfold bline, dashb. rewrite len_app, !len_cons.
  pose proof (len_nonneg b).
  pose proof (len_nonneg ((if last then [45; 45] else []) ++ pad)). lia.
Qed.

Section Exact.
  Variable St : Type.
  Variable rl : Z -> St -> bytes * St.
  Variable rem : St -> bytes.
  Variable L : Z -> Prop.
  Variable P : St -> Prop.
  Hypothesis G : good_reader St rl rem L P.
  Variable maxline : Z.
  Hypothesis HL : L maxline.
  Variables (b : bytes) (last : bool) (pad c eol rest : bytes).
  Variable limit : option Z.
  Hypothesis Hb : boundary_ok b = true.
  Hypothesis Hpad : forallb is_blank_c pad = true.
  Hypothesis Heol : eol = [13; 10] \/ (eol = [] /\ rest = []).
  Hypothesis Hmax : len (bline b last pad) + 3 <= maxline.
  Hypothesis Hmaxb : len b + 6 <= maxline.
  Hypothesis Hnd : no_delim_line b c.
  Hypothesis Hlim : limit_ok limit (len c).

  Let tailz : bytes := bline b last pad ++ eol ++ rest.
  Let nfin : Z := len c + 2 + len (bline b last pad) + len eol.

  Inductive phase (w d : bytes) (lfend : bool) (s : St) : Prop :=
    | PhA c2 : rem s = c2 ++ [13; 10] ++ tailz -> w ++ d ++ c2 = c ->
               (lfend = true -> w ++ d = [] \/ ends_lf (w ++ d)) ->
               phase w d lfend s
    | PhB : d = [13] -> w = c -> rem s = 10 :: tailz -> phase w d lfend s
    | PhC : d = [13; 10] -> w = c -> lfend = true -> rem s = tailz ->
            phase w d lfend s.

  Lemma maxline_pos : 0 < maxline.
  Proof. pose proof (bline_len b last pad). lia. Qed.

  Lemma eol_cases : eol = [13; 10] \/ eol = [].
  Proof. destruct Heol as [He | [He _]]; auto. Qed.

  (* the reader hands out the delimiter line as a whole *)
  Lemma read_delimiter s :
    P s -> rem s = tailz ->
    fst (rl maxline s) = bline b last pad ++ eol /\
    rem (snd (rl maxline s)) = rest.
  Proof.
    intros Hs Hrem. pose proof (bline_no_lf b last pad Hb Hpad) as Hnolf.
    destruct Heol as [He | [He Hr]].
    - rewrite He. apply (read_line_crlf St rl rem L P G); auto.
      + rewrite Hrem. unfold tailz. rewrite He. reflexivity.
      + right. lia.
    - assert (Hx : bline b last pad <> []).
      { pose proof (bline_len b last pad) as H2. intros E.
        rewrite E in H2. cbn in H2. lia. }
      rewrite He, Hr, app_nil_r.
      apply (read_line_eof St rl rem L P G); auto.
      + rewrite Hrem. unfold tailz. rewrite He, Hr, !app_nil_r. reflexivity.
      + right. lia.
  Qed.

  (* the piece read when only the LF of the delimiter's CRLF is left: the LF
     alone, or the LF and the whole delimiter line *)
  Lemma read_lf_delimiter s :
    P s -> rem s = 10 :: tailz ->
    (fst (rl maxline s) = [10] /\ rem (snd (rl maxline s)) = tailz) \/
    (fst (rl maxline s) = 10 :: bline b last pad ++ eol /\
     rem (snd (rl maxline s)) = rest).
  Proof.
    intros Hs Hrem. pose proof maxline_pos as Hmp.
    pose proof (bline_no_lf b last pad Hb Hpad) as Hnolf.
    pose proof (gr_concat _ _ _ _ _ G maxline s HL Hs) as Hcat.
    pose proof (gr_line _ _ _ _ _ G maxline s HL Hs) as Hin.
    pose proof (gr_full _ _ _ _ _ G maxline s HL Hs) as Hfull.
    pose proof (gr_progress _ _ _ _ _ G maxline s HL Hs ltac:(lia)) as Hprog.
    assert (Hne : fst (rl maxline s) <> []).
    { apply Hprog. rewrite Hrem. discriminate. }
    set (l := fst (rl maxline s)) in *. set (s' := snd (rl maxline s)) in *.
    rewrite Hrem in Hcat.
    destruct l as [|x l']; [congruence|]. cbn [app] in Hcat.
    injection Hcat as -> Hcat.
    destruct l' as [|y l''].
    { left. split; [reflexivity | exact Hcat]. }
    right.
    destruct Heol as [He | [He Hr]].
    - (* CRLF after the line: the piece cannot stop before it *)
      unfold tailz in Hcat. rewrite He in Hcat.
      assert (Hin' : no_inner_crlf (y :: l'')).
      { intros x0 y0 E. apply (Hin (10 :: x0) y0). rewrite E. reflexivity. }
      destruct (piece_cases (y :: l'') (rem s') (bline b last pad) rest Hcat Hin')
        as (l1 & c2b & m & Hl & Hc2 & Hm).
      destruct Hm as [[-> Hu] | [[-> [-> Hu]] | [-> [-> Hu]]]].
      + exfalso. rewrite app_nil_r in Hl.
        assert (Hnle : ~ ends_lf (10 :: y :: l'')).
        { intros He'. apply ends_lf_tail in He'; [|discriminate].
          revert He'. apply (not_ends_lf_in _ (bline b last pad) Hnolf);
            [|discriminate]. exists c2b. rewrite Hl. exact Hc2. }
        destruct (Hfull Hnle) as [Hf | Hf].
        * rewrite len_cons, Hl in Hf.
          assert (len l1 <= len (bline b last pad))
            by (rewrite Hc2, len_app; pose proof (len_nonneg c2b); lia).
          lia.
        * rewrite Hu in Hf. destruct c2b; discriminate.
      + exfalso. rewrite app_nil_r in Hc2. subst l1.
        assert (Hnle : ~ ends_lf (10 :: y :: l'')).
        { intros [y0 Hy]. rewrite Hl in Hy.
          change (10 :: bline b last pad ++ [13])
            with ((10 :: bline b last pad) ++ [13]) in Hy.
          apply app_inj_tail in Hy as [_ Hy]. discriminate. }
        destruct (Hfull Hnle) as [Hf | Hf].
        * rewrite len_cons, Hl, len_app in Hf. change (len [13]) with 1 in Hf.
          lia.
        * rewrite Hu in Hf. discriminate.
      + rewrite app_nil_r in Hc2. subst l1. rewrite Hl, He.
        split; [reflexivity | exact Hu].
    - (* the line ends the input *)
      unfold tailz in Hcat. rewrite He, Hr, !app_nil_r in Hcat.
      assert (Hnle : ~ ends_lf (10 :: y :: l'')).
      { intros He'. apply ends_lf_tail in He'; [|discriminate].
        revert He'. apply (not_ends_lf_in _ (bline b last pad) Hnolf);
          [|discriminate]. exists (rem s'). symmetry. exact Hcat. }
      destruct (Hfull Hnle) as [Hf | Hf].
      + exfalso. rewrite len_cons in Hf.
        assert (len (y :: l'') <= len (bline b last pad))
          by (rewrite <- Hcat, len_app; pose proof (len_nonneg (rem s')); lia).
        lia.
      + rewrite Hf, app_nil_r in Hcat. rewrite Hcat, He, Hr, app_nil_r.
        split; [reflexivity | exact Hf].
  Qed.

  Lemma concat_opt (pieces : list bytes) piece :
    List.concat (match piece with Some p => pieces ++ [p] | None => pieces end)
    = List.concat pieces ++ optb piece.
  Proof.
    destruct piece; cbn [optb]; [apply concat_snoc | rewrite app_nil_r; reflexivity].
  Qed.

  Lemma rlob_inv : forall fuel pieces d lfend nread s,
    P s -> phase (List.concat pieces) d lfend s ->
    nread = len (List.concat pieces ++ d) ->
    len (rem s) < Z.of_nat fuel ->
    exists pieces' s',
      rlob St rl maxline fuel (dashb b) (dashb b ++ [45; 45]) limit
           pieces d lfend nread s
        = RDone pieces' (if last then 1 else 0) nfin s' /\
      List.concat pieces' = c /\ rem s' = rest /\ P s'.
  Proof.
    pose proof maxline_pos as Hmp.
    induction fuel as [|fuel IH]; intros pieces d lfend nread s Hs Hph Hn Hf.
    { pose proof (len_nonneg (rem s)). lia. }
    pose proof (gr_concat _ _ _ _ _ G maxline s HL Hs) as Hcat.
    pose proof (gr_line _ _ _ _ _ G maxline s HL Hs) as Hin.
    pose proof (gr_inv _ _ _ _ _ G maxline s HL Hs) as Hs1.
    pose proof (gr_full _ _ _ _ _ G maxline s HL Hs) as Hfull.
    pose proof (gr_progress _ _ _ _ _ G maxline s HL Hs ltac:(lia)) as Hprog.
    cbn [rlob].
    destruct Hph as [c2 Hrem Hc Hlf | Hd Hw Hrem | Hd Hw Hlf Hrem].
    - (* content *)
      rewrite (limit_hit_false limit (len c) nread Hlim)
        by (rewrite Hn, <- Hc, !len_app; pose proof (len_nonneg c2); lia).
      assert (Hne : fst (rl maxline s) <> []).
      { apply Hprog. rewrite Hrem. destruct c2; discriminate. }
      destruct (rl maxline s) as [l s1] eqn:E. cbn [fst snd] in *.
      rewrite Hrem in Hcat.
      destruct (boundary_ok_facts b Hb) as (Hchars & _ & _).
      assert (Hfull' : ~ ends_lf l -> maxline <= len l \/ rem s1 = []).
      { intros Hn'. destruct (Hfull Hn') as [Hx | Hx]; [left; lia | right; exact Hx]. }
      destruct (step_content maxline b c (List.concat pieces) d lfend l (rem s1)
                  c2 tailz Hchars Hmaxb Hnd Hc Hlf Hne Hin Hfull' Hcat)
        as (piece & d' & lf' & Hstep & Hall & Hlf' & Hnext).
      rewrite (is_nil_false l Hne), Hstep.
      assert (Hlen : len l + len (rem s1) = len (rem s)).
      { rewrite Hrem, <- Hcat, len_app. reflexivity. }
      assert (Hl1 : 1 <= len l).
      { destruct l; [congruence|]. rewrite len_cons.
        pose proof (len_nonneg l). lia. }
      apply IH.
      + exact Hs1.
      + rewrite concat_opt.
        destruct Hnext as [(c2' & Hu & Hc') | [(Hd' & Hw' & Hu) |
                                               (Hd' & Hw' & Hlf2 & Hu)]].
        * apply (PhA _ _ _ _ c2'); [exact Hu | |].
          -- rewrite <- Hc'. lnorm. reflexivity.
          -- intros E2. right. apply Hlf'. exact E2.
        * apply PhB; [exact Hd' | exact Hw' | exact Hu].
        * apply PhC; [exact Hd' | exact Hw' | exact Hlf2 | exact Hu].
      + rewrite concat_opt, Hall, len_app, Hn. reflexivity.
      + lia.
    - (* only the LF of the delimiter's CRLF is left *)
      subst d.
      rewrite (limit_hit_false limit (len c) nread Hlim)
        by (rewrite Hn, Hw, len_app; change (len [13]) with 1; lia).
      destruct (read_lf_delimiter s Hs Hrem) as [[Hl Hr] | [Hl Hr]];
        destruct (rl maxline s) as [l s1] eqn:E; cbn [fst snd] in *; subst l.
      + (* the LF alone *)
        cbn [is_nil]. rewrite step_lone_lf.
        apply IH.
        * exact Hs1.
        * apply PhC; [reflexivity | exact Hw | reflexivity | exact Hr].
        * rewrite Hn, !len_app.
          change (len [13; 10]) with 2. change (len [13]) with 1.
          change (len [10]) with 1. lia.
        * rewrite Hrem, len_cons, <- Hr in Hf. lia.
      + (* the LF glued to the delimiter line *)
        cbn [is_nil].
        rewrite (step_lf_delimiter b last pad eol lfend Hb Hpad eol_cases).
        exists pieces, s1.
        split; [|split; [exact Hw | split; [exact Hr | exact Hs1]]].
        f_equal. rewrite Hn, Hw, len_cons, !len_app. change (len [13]) with 1.
        unfold nfin. lia.
    - (* the delimiter line *)
      subst d lfend.
      rewrite (limit_hit_false limit (len c) nread Hlim)
        by (rewrite Hn, Hw, len_app; change (len [13; 10]) with 2; lia).
      destruct (read_delimiter s Hs Hrem) as [Hl Hrest].
      destruct (rl maxline s) as [l s1] eqn:E. cbn [fst snd] in *.
      assert (Hne : l <> []).
      { rewrite Hl. pose proof (bline_len b last pad) as H2. intros E2.
        apply (f_equal (@len Z)) in E2. rewrite len_app in E2.
        pose proof (len_nonneg eol). change (len (@nil Z)) with 0 in E2. lia. }
      rewrite (is_nil_false l Hne), Hl.
      rewrite (step_delimiter b last pad eol Hb Hpad eol_cases).
      exists pieces, s1. split; [|split; [exact Hw | split; [exact Hrest | exact Hs1]]].
      f_equal. rewrite Hn, Hw, !len_app. change (len [13; 10]) with 2.
      unfold nfin. lia.
  Qed.

  Lemma rlob_exact_sec s fuel :
    P s -> rem s = c ++ [13; 10] ++ tailz -> len (rem s) < Z.of_nat fuel ->
    exists pieces s',
      rlob St rl maxline fuel (dashb b) (dashb b ++ [45; 45]) limit
           [] [] true 0 s
        = RDone pieces (if last then 1 else 0) nfin s' /\
      List.concat pieces = c /\ rem s' = rest /\ P s'.
  Proof.
    intros Hs Hrem Hf. apply rlob_inv; auto.
    apply (PhA _ _ _ _ c); auto.
  Qed.
End Exact.

(* read_lines_to_outerboundary, started at the first byte of a part's
   content [c] that is followed by CRLF, a delimiter line and [rest], returns
   exactly [c] (whatever bytes it consists of), reports whether the
   delimiter was the closing one, has read exactly up to the end of the
   delimiter line and leaves the reader at [rest] -- for every line source
   that satisfies [good_reader]. *)
Theorem lines_to_boundary_exact :
  forall (St : Type) (rl : Z -> St -> bytes * St) (rem : St -> bytes)
         (L : Z -> Prop) (P : St -> Prop),
    good_reader St rl rem L P ->
  forall (maxline : Z) (b : bytes) (last : bool) (pad c eol rest : bytes)
         (limit : option Z) (s : St) (fuel : nat),
    L maxline ->
    boundary_ok b = true ->
    forallb is_blank_c pad = true ->
    (eol = [13; 10] \/ (eol = [] /\ rest = [])) ->
    len (bline b last pad) + 3 <= maxline ->
    len b + 6 <= maxline ->
    no_delim_line b c ->
    limit_ok limit (len c) ->
    P s ->
    rem s = c ++ [13; 10] ++ bline b last pad ++ eol ++ rest ->
    len (rem s) < Z.of_nat fuel ->
    exists pieces s',
      rlob St rl maxline fuel (dashb b) (dashb b ++ [45; 45]) limit
           [] [] true 0 s
        = RDone pieces (if last then 1 else 0)
                (len c + 2 + len (bline b last pad) + len eol) s' /\
      List.concat pieces = c /\ rem s' = rest /\ P s'.
Proof.
  intros St rl rem L P G maxline b last pad c eol rest limit s fuel
         HL Hb Hpad Heol Hmax Hmaxb Hnd Hlim Hs Hrem Hf.
  exact (rlob_exact_sec St rl rem L P G maxline HL b last pad c eol rest limit
           Hb Hpad Heol Hmax Hmaxb Hnd Hlim s fuel Hs Hrem Hf).
Qed.

(* ------------------------------------------------------------------ *)
(* the two readers satisfy the contract *)

Definition idb (s : bytes) : bytes := s.
Definition any_lim (k : Z) : Prop := True.
Definition any_state (s : bytes) : Prop := True.

Lemma lf_line_cons k x r :
  lf_line k (x :: r) =
  if k =? 0 then ([], x :: r)
  else if x =? 10 then ([x], r)
  else (x :: fst (lf_line (k - 1) r), snd (lf_line (k - 1) r)).
Proof.
  cbn [lf_line]. destruct (k =? 0); [reflexivity|].
  destruct (x =? 10); [reflexivity|].
  destruct (lf_line (k - 1) r). reflexivity.
Qed.

Lemma lf_concat : forall s k, fst (lf_line k s) ++ snd (lf_line k s) = s.
Proof.
  induction s as [|x r IH]; intros k; [reflexivity|].
  rewrite lf_line_cons. destruct (k =? 0); [reflexivity|].
  destruct (x =? 10); [reflexivity|]. cbn [fst snd app]. rewrite IH.
  reflexivity.
Qed.

Lemma lf_progress : forall s k, k <> 0 -> s <> [] -> fst (lf_line k s) <> [].
Proof.
  intros [|x r] k Hk Hs; [congruence|]. rewrite lf_line_cons.
  replace (k =? 0) with false by (symmetry; apply Z.eqb_neq; exact Hk).
  destruct (x =? 10); discriminate.
Qed.

(* a piece has no LF except possibly as its last byte *)
Lemma lf_shape : forall s k,
  ~ In 10 (fst (lf_line k s)) \/
  exists x, fst (lf_line k s) = x ++ [10] /\ ~ In 10 x.
Proof.
  induction s as [|x r IH]; intros k.
  - left. intros [].
  - rewrite lf_line_cons. destruct (k =? 0); [left; intros []|].
    destruct (x =? 10) eqn:E.
    + apply Z.eqb_eq in E. subst x. right. exists []. split; [reflexivity|].
      intros [].
    + apply Z.eqb_neq in E. cbn [fst]. destruct (IH (k - 1)) as [H | [y [H1 H2]]].
      * left. intros [Hi|Hi]; [congruence | exact (H Hi)].
      * right. exists (x :: y). rewrite H1. split; [reflexivity|].
        intros [Hi|Hi]; [congruence | exact (H2 Hi)].
Qed.

Lemma lf_no_inner_crlf s k : no_inner_crlf (fst (lf_line k s)).
Proof.
  intros x y H. destruct (lf_shape s k) as [Hn | [z [Hz Hn]]].
  - exfalso. apply Hn. rewrite H. apply in_or_app. right. right. left.
    reflexivity.
  - rewrite Hz in H.
    destruct y as [|e y]; [reflexivity|]. exfalso.
    destruct (@exists_last _ (e :: y)) as (y' & e' & Hy); [discriminate|].
    rewrite Hy in H.
    replace (x ++ [13; 10] ++ y' ++ [e']) with ((x ++ [13; 10] ++ y') ++ [e'])
      in H by (lnorm; reflexivity).
    apply app_inj_tail in H as [H _]. apply Hn. rewrite H.
    apply in_or_app. right. right. left. reflexivity.
Qed.

Lemma ends_lf_cons x l : ends_lf l -> ends_lf (x :: l).
Proof. intros [z ->]. exists (x :: z). reflexivity. Qed.

Lemma lf_full : forall s k, ~ ends_lf (fst (lf_line k s)) ->
  0 <= k <= len (fst (lf_line k s)) \/ snd (lf_line k s) = [].
Proof.
  induction s as [|x r IH]; intros k; [right; reflexivity|].
  rewrite lf_line_cons. destruct (k =? 0) eqn:E0.
  - apply Z.eqb_eq in E0. subst k. intros _. left. unfold len. cbn [fst List.length]. lia.
  - apply Z.eqb_neq in E0. destruct (x =? 10) eqn:E.
    + apply Z.eqb_eq in E. subst x. intros H. exfalso. apply H. exists [].
      reflexivity.
    + cbn [fst snd]. intros H.
      destruct (IH (k - 1)) as [Hk | Hk].
      * intros He. apply H. apply ends_lf_cons. exact He.
      * left. rewrite len_cons. lia.
      * right. exact Hk.
Qed.

Theorem lf_reader_good : good_reader bytes lf_line idb any_lim any_state.
Proof.
  split; unfold idb.
  - intros; exact I.
  - intros lim s _ _. apply lf_concat.
  - intros lim s _ _ Hk Hs. apply lf_progress; assumption.
  - intros lim s _ _. apply lf_no_inner_crlf.
  - intros lim s _ _. apply lf_full.
Qed.

(* ---- the CRLF-splitting reader *)
Lemma crlf_line_cons k x r :
  crlf_line k (x :: r) =
  if k =? 0 then ([], x :: r)
  else match r with
       | y :: r' =>
           if (x =? 13) && (y =? 10) && negb (k =? 1) then ([x; y], r')
           else (x :: fst (crlf_line (k - 1) r), snd (crlf_line (k - 1) r))
       | [] => ([x], [])
       end.
Proof.
  cbn [crlf_line]. destruct (k =? 0); [reflexivity|].
  destruct r as [|y r']; [reflexivity|].
  destruct ((x =? 13) && (y =? 10) && negb (k =? 1)); [reflexivity|].
  destruct (crlf_line (k - 1) (y :: r')). reflexivity.
Qed.

Lemma crlf_concat : forall s k, fst (crlf_line k s) ++ snd (crlf_line k s) = s.
Proof.
  induction s as [|x r IH]; intros k; [reflexivity|].
  rewrite crlf_line_cons. destruct (k =? 0); [reflexivity|].
  destruct r as [|y r']; [reflexivity|].
  destruct ((x =? 13) && (y =? 10) && negb (k =? 1)) eqn:E.
  - reflexivity.
  - cbn [fst snd app]. rewrite IH. reflexivity.
Qed.

Lemma crlf_progress : forall s k, k <> 0 -> s <> [] -> fst (crlf_line k s) <> [].
Proof.
  intros [|x r] k Hk Hs; [congruence|]. rewrite crlf_line_cons.
  replace (k =? 0) with false by (symmetry; apply Z.eqb_neq; exact Hk).
  destruct r as [|y r']; [discriminate|].
  destruct ((x =? 13) && (y =? 10) && negb (k =? 1)); discriminate.
Qed.

Lemma crlf_head k y r :
  fst (crlf_line k (y :: r)) = [] \/ exists t, fst (crlf_line k (y :: r)) = y :: t.
Proof.
  rewrite crlf_line_cons. destruct (k =? 0); [left; reflexivity|].
  destruct r as [|y' r']; [right; exists []; reflexivity|].
  destruct ((y =? 13) && (y' =? 10) && negb (k =? 1)); right; eexists;
    reflexivity.
Qed.

Lemma crlf_no_inner_crlf : forall s k, no_inner_crlf (fst (crlf_line k s)).
Proof.
  induction s as [|x r IH]; intros k x0 y0 H.
  - destruct x0; discriminate.
  - rewrite crlf_line_cons in H. destruct (k =? 0) eqn:E0.
    { destruct x0; discriminate. }
    apply Z.eqb_neq in E0.
    destruct r as [|y r'].
    { destruct x0 as [|? [|? ?]]; discriminate. }
    destruct ((x =? 13) && (y =? 10) && negb (k =? 1)) eqn:E.
    + cbn [fst] in H. destruct x0 as [|a [|a' x0]].
      * cbn [app] in H. injection H as _ _ H. symmetry. exact H.
      * cbn [app] in H. injection H as _ _ H. discriminate.
      * cbn [app] in H. injection H as _ _ H. destruct x0; discriminate.
    + remember (crlf_line (k - 1) (y :: r')) as rec eqn:Erec.
      cbn [fst] in H. destruct x0 as [|a x0].
      * cbn [app] in H. injection H as Hx H.
        exfalso. subst x. subst rec.
        destruct (crlf_head (k - 1) y r') as [Hh | [t Hh]]; rewrite Hh in H;
          [discriminate|].
        injection H as Hy _. subst y.
        assert (Hk1 : k <> 1).
        { intros ->. change (1 - 1) with 0 in Hh. cbn in Hh. discriminate. }
        replace (k =? 1) with false in E by (symmetry; apply Z.eqb_neq; exact Hk1).
        discriminate.
      * cbn [app] in H. injection H as _ H. subst rec.
        apply (IH (k - 1) x0 y0). exact H.
Qed.

Lemma crlf_full : forall s k, ~ ends_lf (fst (crlf_line k s)) ->
  0 <= k <= len (fst (crlf_line k s)) \/ snd (crlf_line k s) = [].
Proof.
  induction s as [|x r IH]; intros k; [right; reflexivity|].
  rewrite crlf_line_cons. destruct (k =? 0) eqn:E0.
  - apply Z.eqb_eq in E0. subst k. intros _. left. unfold len.
    cbn [fst List.length]. lia.
  - apply Z.eqb_neq in E0. destruct r as [|y r']; [right; reflexivity|].
    destruct ((x =? 13) && (y =? 10) && negb (k =? 1)) eqn:E.
    + intros H. exfalso. apply H. cbn [fst].
      apply andb_true_iff in E as [E _]. apply andb_true_iff in E as [_ E].
      apply Z.eqb_eq in E. subst y. exists [x]. reflexivity.
    + cbn [fst snd]. intros H. destruct (IH (k - 1)) as [Hk | Hk].
      * intros He. apply H. apply ends_lf_cons. exact He.
      * left. rewrite len_cons. lia.
      * right. exact Hk.
Qed.

Theorem crlf_reader_good : good_reader bytes crlf_line idb any_lim any_state.
Proof.
  split; unfold idb.
  - intros; exact I.
  - intros lim s _ _. apply crlf_concat.
  - intros lim s _ _ Hk Hs. apply crlf_progress; assumption.
  - intros lim s _ _. apply crlf_no_inner_crlf.
  - intros lim s _ _. apply crlf_full.
Qed.

(* ------------------------------------------------------------------ *)
(* (2) round trip of flat part lists: preparations *)

Lemma lstrip_keeps ws c : forall s, In c s -> ws c = false ->
  In c (lstrip_by ws s).
Proof.
  induction s as [|x r IH]; intros Hi Hc; [destruct Hi|].
  cbn [lstrip_by]. destruct (ws x) eqn:E; [|exact Hi].
  destruct Hi as [<-|Hi]; [congruence|]. apply IH; assumption.
Qed.

Lemma strip_keeps c l : In c l -> is_ws c = false -> In c (strip l).
Proof.
  intros Hi Hc. unfold strip, strip_by. apply lstrip_keeps; [|exact Hc].
  rewrite rstrip_by_rev. apply -> in_rev. apply lstrip_keeps; [|exact Hc].
  apply -> in_rev. exact Hi.
Qed.

Lemma strip_not_nil c l : In c l -> is_ws c = false -> is_nil (strip l) = false.
Proof.
  intros Hi Hc. apply is_nil_false. intros E.
  pose proof (strip_keeps c l Hi Hc) as H. rewrite E in H. destruct H.
Qed.

Lemma strip_dash_line b :
  boundary_ok b = true -> strip (dashb b ++ [13; 10]) = dashb b.
Proof.
  intros Hb. destruct (boundary_ok_facts b Hb) as (_ & (b0 & c & -> & Hc) & _).
  unfold strip, strip_by, dashb.
  replace ((45 :: 45 :: b0 ++ [c]) ++ [13; 10])
    with ((45 :: 45 :: b0) ++ [c] ++ [13; 10]) by (lnorm; reflexivity).
  rewrite rstrip_app_ws; [|apply is_ws_false; exact Hc | reflexivity].
  reflexivity.
Qed.

(* UTF-8 never produces a byte 10 for a character other than LF *)
Ltac Zify.zify_post_hook ::= Z.to_euclidean_division_equations.

Lemma utf8_enc1_no_lf c : c <> 10 -> ~ In 10 (utf8_enc1 c).
Proof.
  intros Hc. unfold utf8_enc1.
  destruct (c <? 128) eqn:E1.
  { intros [H|[]]. congruence. }
  apply Z.ltb_ge in E1.
  destruct (c <? 2048) eqn:E2.
  { intros [H|[H|[]]]; lia. }
  destruct (c <? 65536) eqn:E3.
  { intros [H|[H|[H|[]]]]; lia. }
  intros [H|[H|[H|[H|[]]]]]; lia.
Qed.

Lemma utf8_encode_app a b : utf8_encode (a ++ b) = utf8_encode a ++ utf8_encode b.
Proof. unfold utf8_encode. apply flat_map_app. Qed.

Lemma utf8_encode_no_lf s : ~ In 10 s -> ~ In 10 (utf8_encode s).
Proof.
  induction s as [|c s IH]; intros Hs; [intros []|].
  change (utf8_encode (c :: s)) with (utf8_enc1 c ++ utf8_encode s).
  intros Hi. apply in_app_or in Hi as [Hi|Hi].
  - apply (utf8_enc1_no_lf c); [|exact Hi]. intros ->. apply Hs. left.
    reflexivity.
  - apply IH; [|exact Hi]. intros H. apply Hs. right. exact H.
Qed.

Lemma quote_esc_no_lf s : ~ In 10 s -> ~ In 10 (quote_esc s).
Proof.
  induction s as [|c s IH]; intros Hs; [intros []|].
  unfold quote_esc. cbn [flat_map]. fold (quote_esc s). intros Hi.
  apply in_app_or in Hi as [Hi|Hi].
  - destruct (c =? 92); [destruct Hi as [H|[H|[]]]; discriminate|].
    destruct (c =? 34); [destruct Hi as [H|[H|[]]]; discriminate|].
    destruct Hi as [H|[]]. apply Hs. left. exact H.
  - apply IH; [|exact Hi]. intros H. apply Hs. right. exact H.
Qed.

(* the header block as lines *)
Definition cd_line (p : part) : list Z :=
  s2l "Content-Disposition: form-data; name=""" ++ quote_esc (p_name p) ++ [34]
  ++ match p_filename p with
     | Some f => s2l "; filename=""" ++ quote_esc f ++ [34]
     | None => []
     end.
Definition ct_lines (p : part) : list (list Z) :=
  match p_ctype p with
  | Some t => [s2l "Content-Type: " ++ t]
  | None => []
  end.
Definition hdr_lines (p : part) : list bytes :=
  map utf8_encode (cd_line p :: ct_lines p).
Definition with_crlf (ls : list bytes) : bytes :=
  List.concat (map (fun l => l ++ [13; 10]) ls).

Lemma hdr_bytes_lines p : hdr_bytes p = with_crlf (hdr_lines p) ++ [13; 10].
Proof.
  unfold hdr_bytes, part_header_text, hdr_lines, with_crlf, cd_line, ct_lines,
    crlf.
  destruct (p_filename p) as [f|]; destruct (p_ctype p) as [t|];
    cbn [map List.concat]; repeat rewrite utf8_encode_app;
    change (utf8_encode [13; 10]) with [13; 10];
    change (utf8_encode [34]) with [34];
    change (utf8_encode []) with (@nil Z); lnorm; reflexivity.
Qed.

Definition line_ok (l : bytes) : Prop :=
  ~ In 10 l /\ exists c, In c l /\ is_ws c = false.

Lemma hdr_lines_ok p :
  ~ In 10 (p_name p) -> (forall f, p_filename p = Some f -> ~ In 10 f) ->
  (forall t, p_ctype p = Some t -> ~ In 10 t) ->
  Forall line_ok (hdr_lines p).
Proof.
  intros Hn Hf Ht. unfold hdr_lines. cbn [map]. constructor.
  - split.
    + apply utf8_encode_no_lf. unfold cd_line. intros Hi.
      apply in_app_or in Hi as [Hi|Hi].
      { revert Hi. vm_compute. intuition discriminate. }
      apply in_app_or in Hi as [Hi|Hi].
      { revert Hi. apply quote_esc_no_lf. exact Hn. }
      apply in_app_or in Hi as [Hi|Hi].
      { destruct Hi as [H|[]]. discriminate. }
      destruct (p_filename p) as [f|]; [|destruct Hi].
      apply in_app_or in Hi as [Hi|Hi].
      { revert Hi. vm_compute. intuition discriminate. }
      apply in_app_or in Hi as [Hi|Hi].
      { revert Hi. apply quote_esc_no_lf. apply Hf. reflexivity. }
      destruct Hi as [H|[]]. discriminate.
    + exists 67. split; [|reflexivity]. unfold cd_line.
      rewrite utf8_encode_app. apply in_or_app. left. vm_compute. auto.
  - unfold ct_lines. destruct (p_ctype p) as [t|]; cbn [map]; constructor;
      [|constructor].
    split.
    + apply utf8_encode_no_lf. intros Hi. apply in_app_or in Hi as [Hi|Hi].
      { revert Hi. vm_compute. intuition discriminate. }
      revert Hi. apply Ht. reflexivity.
    + exists 67. split; [|reflexivity]. rewrite utf8_encode_app.
      apply in_or_app. left. vm_compute. auto.
Qed.

Fixpoint body_from (b : bytes) (p : part) (ps : list part) (eolf : bytes)
  : bytes :=
  hdr_bytes p ++ p_content p ++ [13; 10] ++
  match ps with
  | [] => bline b true [] ++ eolf
  | q :: qs => bline b false [] ++ [13; 10] ++ body_from b q qs eolf
  end.

Lemma encode_unfold b : forall ps p final,
  encode b (p :: ps) final =
  dashb b ++ [13; 10] ++ body_from b p ps (if final then [13; 10] else []).
Proof.
  unfold encode, dashb.
  induction ps as [|q qs IH]; intros p final.
  - cbn [map List.concat body_from]. unfold encode_part, bline, dashb, crlf.
    fold (hdr_bytes p). lnorm. reflexivity.
  - specialize (IH q final). cbn [map List.concat] in *.
    rewrite <- (app_assoc (encode_part b p)). rewrite IH.
    cbn [body_from]. unfold encode_part, bline, dashb, crlf.
    fold (hdr_bytes p). lnorm. reflexivity.
Qed.

Lemma with_crlf_cons l ls : with_crlf (l :: ls) = l ++ [13; 10] ++ with_crlf ls.
Proof. unfold with_crlf. cbn [map List.concat]. lnorm. reflexivity. Qed.

Lemma dashb_no_lf b : boundary_ok b = true -> ~ In 10 (dashb b).
Proof.
  intros Hb Hi. destruct (boundary_ok_facts b Hb) as (Hc & _ & _).
  apply (dashb_chars b 10 Hc) in Hi. lia.
Qed.

Section Roundtrip.
  Variable St : Type.
  Variable rl : Z -> St -> bytes * St.
  Variable rem : St -> bytes.
  Variable L : Z -> Prop.
  Variable P : St -> Prop.
  Hypothesis G : good_reader St rl rem L P.
  Variable maxline : Z.
  Hypothesis HLm : L maxline.
  Hypothesis HL1 : L (-1).
  Variable b : bytes.
  Hypothesis Hb : boundary_ok b = true.
  Hypothesis Hmax : len b + 7 <= maxline.

  Lemma read_hdr_lines : forall lines acc s rest fuel,
    Forall line_ok lines -> P s ->
    rem s = with_crlf lines ++ [13; 10] ++ rest ->
    (List.length lines < fuel)%nat ->
    exists s', read_hdr St rl fuel acc s
                 = Some (acc ++ with_crlf lines ++ [13; 10], s') /\
               rem s' = rest /\ P s'.
  Proof.
    induction lines as [|l lines IH]; intros acc s rest fuel Hok Hs Hrem Hf.
    - destruct fuel as [|f]; [lia|]. cbn [read_hdr].
      destruct (read_line_crlf St rl rem L P G (-1) s [] rest HL1 Hs Hrem)
        as [Hl Hr]; [intros [] | left; lia |].
      pose proof (gr_inv _ _ _ _ _ G (-1) s HL1 Hs) as Hs1.
      destruct (rl (-1) s) as [data s1]. cbn [fst snd] in *. subst data.
      change (strip ([] ++ [13; 10])) with (@nil Z). cbn [is_nil].
      exists s1. split; [reflexivity | split; assumption].
    - destruct fuel as [|f]; [cbn in Hf; lia|]. cbn [read_hdr].
      inversion Hok as [|? ? [Hnl [c [Hc Hw]]] Hok']; subst.
      rewrite with_crlf_cons in Hrem.
      replace ((l ++ [13; 10] ++ with_crlf lines) ++ [13; 10] ++ rest)
        with (l ++ [13; 10] ++ (with_crlf lines ++ [13; 10] ++ rest)) in Hrem
        by (lnorm; reflexivity).
      destruct (read_line_crlf St rl rem L P G (-1) s l _ HL1 Hs Hrem Hnl)
        as [Hl Hr]; [left; lia|].
      pose proof (gr_inv _ _ _ _ _ G (-1) s HL1 Hs) as Hs1.
      destruct (rl (-1) s) as [data s1]. cbn [fst snd] in *. subst data.
      rewrite (strip_not_nil c (l ++ [13; 10]));
        [|apply in_or_app; left; exact Hc | exact Hw].
      destruct (IH (acc ++ l ++ [13; 10]) s1 rest f Hok' Hs1 Hr) as (s' & E & R);
        [cbn in Hf; lia|].
      exists s'. rewrite E. split; [|exact R].
      rewrite with_crlf_cons. lnorm. reflexivity.
  Qed.

  Lemma skip_first s rest fuel :
    P s -> rem s = dashb b ++ [13; 10] ++ rest -> (0 < fuel)%nat ->
    exists s', skip_to_boundary St rl fuel (dashb b) 0 s
                 = Some (len (dashb b) + 2, s') /\
               rem s' = rest /\ P s'.
  Proof.
    intros Hs Hrem Hf. destruct fuel as [|f]; [lia|]. cbn [skip_to_boundary].
    destruct (read_line_crlf St rl rem L P G (-1) s (dashb b) rest HL1 Hs Hrem)
      as [Hl Hr]; [apply dashb_no_lf; exact Hb | left; lia |].
    pose proof (gr_inv _ _ _ _ _ G (-1) s HL1 Hs) as Hs1.
    destruct (rl (-1) s) as [line s1]. cbn [fst snd] in *. subst line.
    rewrite (strip_dash_line b Hb), lz_eqb_refl. cbn [negb andb].
    exists s1. split; [|split; assumption].
    rewrite len_app. reflexivity.
  Qed.

  Variable clen : Z.
  Variable limit : option Z.

  (* the limit is absent, or the Content-Length is the length of the body *)
  Definition lim_inv (B : Z) (s : St) : Prop :=
    (clen < 0 /\ limit = None) \/ (limit = Some clen /\ clen = B + len (rem s)).

  Definition plimit (B : Z) (p : part) : option Z :=
    match limit with
    | Some Lz => Some (Lz - (B + len (hdr_bytes p)))
    | None => None
    end.

  Lemma hdr_lines_short p : (List.length (hdr_lines p) <= 2)%nat.
  Proof.
    unfold hdr_lines, ct_lines. destruct (p_ctype p); cbn [map List.length]; lia.
  Qed.

  (* header block and content of one part *)
  Lemma part_step p last eol rest fuel0 B s :
    part_ok b p -> P s ->
    rem s = hdr_bytes p ++ p_content p ++ [13; 10] ++ bline b last [] ++
            eol ++ rest ->
    (eol = [13; 10] \/ (eol = [] /\ rest = [])) ->
    lim_inv B s -> len (rem s) < Z.of_nat fuel0 ->
    exists s1 hs pieces s2,
      read_hdr St rl fuel0 [] s = Some (hdr_bytes p, s1) /\
      part_headers (utf8_decode (hdr_bytes p)) = Some hs /\
      parse_part St rl maxline fuel0 hs b (plimit B p) s1
        = Ok (mkfield (Some (p_name p)) (p_filename p) (expected_type p) pieces,
              (if last then 1 else 0),
              len (p_content p) + 2 + len (bline b last []) + len eol, s2) /\
      List.concat pieces = p_content p /\ rem s2 = rest /\ P s2.
  Proof.
    intros (Hn & Hf & Ht & (hs & Hph & Hmeta & Hne1 & Hne2) & Hocc) Hs Hrem
           Heol Hlim Hfuel.
    pose proof (bline_len b last []) as Hbl.
    assert (Hblm : len (bline b last []) + 3 <= maxline).
    { unfold bline, dashb. destruct last; rewrite !len_app, !len_cons;
        change (len (@nil Z)) with 0; lia. }
    rewrite hdr_bytes_lines in Hrem.
    replace ((with_crlf (hdr_lines p) ++ [13; 10]) ++ p_content p ++ [13; 10] ++
             bline b last [] ++ eol ++ rest)
      with (with_crlf (hdr_lines p) ++ [13; 10] ++
            (p_content p ++ [13; 10] ++ bline b last [] ++ eol ++ rest))
      in Hrem by (lnorm; reflexivity).
    assert (Hlen_rem : len (rem s) = len (hdr_bytes p) + len (p_content p) + 2 +
                                     len (bline b last []) + len eol + len rest).
    { rewrite Hrem, hdr_bytes_lines, !len_app. change (len [13; 10]) with 2.
      lia. }
    pose proof (len_nonneg (hdr_bytes p)). pose proof (len_nonneg (p_content p)).
    pose proof (len_nonneg eol). pose proof (len_nonneg rest).
    destruct (read_hdr_lines (hdr_lines p) [] s _ fuel0
                (hdr_lines_ok p Hn Hf Ht) Hs Hrem) as (s1 & E1 & Hr1 & Hs1).
    { pose proof (hdr_lines_short p). lia. }
    cbn [app] in E1. rewrite <- hdr_bytes_lines in E1.
    assert (Hlimok : limit_ok (plimit B p) (len (p_content p))).
    { unfold plimit. destruct Hlim as [[_ ->] | [-> Hc]]; [exact I|].
      right. lia. }
    assert (Hf1 : len (rem s1) < Z.of_nat fuel0).
    { rewrite Hr1, !len_app. change (len [13; 10]) with 2. lia. }
    destruct (lines_to_boundary_exact St rl rem L P G maxline b last []
                (p_content p) eol rest (plimit B p) s1 fuel0
                HLm Hb eq_refl Heol Hblm ltac:(lia) Hocc Hlimok Hs1 Hr1 Hf1)
      as (pieces & s2 & E2 & Hc & Hr2 & Hs2).
    exists s1, hs, pieces, s2.
    split; [exact E1|]. split; [exact Hph|]. split; [|auto].
    unfold parse_part. rewrite Hmeta, Hne1, Hne2.
    destruct (boundary_ok_facts b Hb) as (_ & (b0 & c0 & Eb & _) & _).
    replace (is_nil b) with false by (rewrite Eb; destruct b0; reflexivity).
    change (45 :: 45 :: b) with (dashb b).
    change (45 :: 45 :: b ++ [45; 45]) with (dashb b ++ [45; 45]).
    rewrite E2. reflexivity.
  Qed.

  Lemma hdr_bytes_not_nil p : is_nil (hdr_bytes p) = false.
  Proof.
    rewrite hdr_bytes_lines. destruct (with_crlf (hdr_lines p)); reflexivity.
  Qed.

  Variable eolf : bytes.
  Hypothesis Heolf : eolf = [13; 10] \/ eolf = [].

  Lemma body_from_len p ps : 2 <= len (body_from b p ps eolf).
  Proof.
    destruct ps; cbn [body_from]; rewrite !len_app; change (len [13; 10]) with 2;
      pose proof (len_nonneg (hdr_bytes p)); pose proof (len_nonneg (p_content p)).
    - pose proof (len_nonneg (bline b true [])). pose proof (len_nonneg eolf).
      lia.
    - pose proof (len_nonneg (bline b false [])).
      pose proof (len_nonneg (body_from b p0 ps eolf)). lia.
  Qed.

  Lemma part_loop_ok : forall ps p fuel fuel0 acc B s,
    Forall (part_ok b) (p :: ps) -> P s -> rem s = body_from b p ps eolf ->
    lim_inv B s -> len (rem s) < Z.of_nat fuel -> len (rem s) < Z.of_nat fuel0 ->
    exists fields s',
      part_loop St rl maxline fuel fuel0 b limit clen B acc s
        = Ok (acc ++ fields, s') /\
      Forall2 field_matches (p :: ps) fields /\ rem s' = [] /\ P s'.
  Proof.
    induction ps as [|q qs IH]; intros p fuel fuel0 acc B s Hall Hs Hrem Hlim
                                       Hf Hf0.
    - (* the last part, followed by the close delimiter *)
      inversion Hall as [|? ? Hp _]; subst. cbn [body_from] in Hrem.
      destruct fuel as [|fuel]; [pose proof (len_nonneg (rem s)); lia|].
      cbn [part_loop].
      destruct (part_step p true eolf [] fuel0 B s Hp Hs)
        as (s1 & hs & pieces & s2 & E1 & Eh & Ep & Hc & Hr & Hs2); auto.
      { rewrite app_nil_r. exact Hrem. }
      { destruct Heolf as [-> | ->]; auto. }
      rewrite E1, hdr_bytes_not_nil, Eh.
      change (match limit with
              | Some L0 => Some (L0 - (B + len (hdr_bytes p)))
              | None => None
              end) with (plimit B p).
      rewrite Ep. cbn [Z.eqb negb orb].
      eexists [_], s2. split; [reflexivity|]. split; [|auto].
      constructor; [|constructor].
      unfold field_matches, f_bytes. cbn [f_name f_filename f_type f_pieces].
      auto.
    - (* a part followed by another one *)
      inversion Hall as [|? ? Hp Hrest]; subst. cbn [body_from] in Hrem.
      destruct fuel as [|fuel]; [pose proof (len_nonneg (rem s)); lia|].
      cbn [part_loop].
      destruct (part_step p false [13; 10] (body_from b q qs eolf) fuel0 B s
                  Hp Hs Hrem)
        as (s1 & hs & pieces & s2 & E1 & Eh & Ep & Hc & Hr & Hs2); auto.
      rewrite E1, hdr_bytes_not_nil, Eh.
      change (match limit with
              | Some L0 => Some (L0 - (B + len (hdr_bytes p)))
              | None => None
              end) with (plimit B p).
      rewrite Ep. cbn [Z.eqb negb orb].
      assert (Hlen : len (rem s) = len (hdr_bytes p) + len (p_content p) + 2 +
                                   len (bline b false []) + 2 + len (rem s2)).
      { rewrite Hrem, Hr, !len_app. change (len [13; 10]) with 2. lia. }
      pose proof (body_from_len q qs) as Hq. rewrite <- Hr in Hq.
      pose proof (len_nonneg (hdr_bytes p)). pose proof (len_nonneg (p_content p)).
      pose proof (bline_len b false []).
      change (len [13; 10]) with 2.
      replace ((clen <=? B + len (hdr_bytes p) +
                         (len (p_content p) + 2 + len (bline b false []) + 2)) &&
               (0 <? clen)) with false.
      2:{ symmetry. destruct Hlim as [[Hc0 _] | [_ Hc0]].
          - replace (0 <? clen) with false by (symmetry; apply Z.ltb_ge; lia).
            apply andb_false_r.
          - replace (clen <=? _) with false by (symmetry; apply Z.leb_gt; lia).
            reflexivity. }
      destruct (IH q fuel fuel0
                   (acc ++ [mkfield (Some (p_name p)) (p_filename p)
                                    (expected_type p) pieces])
                   (B + len (hdr_bytes p) +
                    (len (p_content p) + 2 + len (bline b false []) + 2))
                   s2 Hrest Hs2 Hr)
        as (fields & s' & E & Hm & Hre & Hs'); try lia.
      { destruct Hlim as [Hl | [Hl Hc0]]; [left; exact Hl | right].
        split; [exact Hl | lia]. }
      exists (mkfield (Some (p_name p)) (p_filename p) (expected_type p) pieces
              :: fields), s'.
      split; [rewrite E; lnorm; reflexivity|]. split; [|auto].
      constructor; [|exact Hm].
      unfold field_matches, f_bytes. cbn [f_name f_filename f_type f_pieces].
      auto.
  Qed.
End Roundtrip.

Lemma boundary_ascii b : boundary_ok b = true ->
  map (fun c => if c <? 128 then c else 255) b = b.
Proof.
  intros Hb. destruct (boundary_ok_facts b Hb) as (Hc & _ & _).
  clear Hb. induction b as [|x b IH]; [reflexivity|].
  cbn [map]. rewrite IH by (intros y Hy; apply Hc; right; exact Hy).
  replace (x <? 128) with true
    by (symmetry; apply Z.ltb_lt; specialize (Hc x (or_introl eq_refl)); lia).
  reflexivity.
Qed.

(* (2) parsing what the RFC 7578 encoder wrote gives back the parts *)
Theorem multipart_roundtrip :
  forall (St : Type) (rl : Z -> St -> bytes * St) (rem : St -> bytes)
         (L : Z -> Prop) (P : St -> Prop),
    good_reader St rl rem L P ->
  forall (maxline : Z) (b : bytes) (p : part) (ps : list part) (final : bool)
         (ctv : list Z) (clen : Z) (s : St) (fuel : nat),
    L maxline -> L (-1) ->
    boundary_ok b = true -> len b + 7 <= maxline ->
    ctype_names ctv b ->
    Forall (part_ok b) (p :: ps) ->
    P s -> rem s = encode b (p :: ps) final ->
    (clen < 0 \/ clen = len (rem s)) ->
    len (rem s) < Z.of_nat fuel ->
    exists fields s',
      parse St rl maxline fuel (Some ctv) clen s = Ok (fields, s') /\
      Forall2 field_matches (p :: ps) fields /\ rem s' = [].
Proof.
  intros St rl rem L P G maxline b p ps final ctv clen s fuel HLm HL1 Hb Hmax
         (Hc1 & Hc2 & Hc3) Hall Hs Hrem Hclen Hf.
  unfold parse. destruct (parse_header ctv) as [ct pd]. cbn [fst snd] in *.
  rewrite Hc3, (boundary_ascii b Hb), Hc1, Hc2.
  unfold read_multi. rewrite (boundary_ok_valid b Hb). cbn [negb].
  rewrite encode_unfold in Hrem.
  destruct (skip_first St rl rem L P G HL1 b Hb s _ fuel Hs Hrem)
    as (s1 & E1 & Hr1 & Hs1).
  { pose proof (len_nonneg (rem s)). lia. }
  change (45 :: 45 :: b) with (dashb b). rewrite E1.
  assert (Hlen : len (rem s) = len (dashb b) + 2 + len (rem s1)).
  { rewrite Hrem, Hr1, !len_app. change (len [13; 10]) with 2. lia. }
  pose proof (len_nonneg (dashb b)).
  destruct (part_loop_ok St rl rem L P G maxline HLm HL1 b Hb Hmax clen
              (if 0 <=? clen then Some clen else None)
              (if final then [13; 10] else [])
              ltac:(destruct final; auto)
              ps p fuel fuel [] (len (dashb b) + 2) s1 Hall Hs1 Hr1)
    as (fields & s' & E & Hm & Hre & _); try lia.
  { destruct Hclen as [Hc | Hc].
    - left. split; [exact Hc|].
      replace (0 <=? clen) with false by (symmetry; apply Z.leb_gt; lia).
      reflexivity.
    - right. pose proof (len_nonneg (rem s)).
      replace (0 <=? clen) with true by (symmetry; apply Z.leb_le; lia).
      split; [reflexivity | lia]. }
  exists fields, s'. rewrite E. cbn [app]. auto.
Qed.

(* ------------------------------------------------------------------ *)
(* (3) the result does not depend on the reader *)

Definition same_field (f g : field) : Prop :=
  f_name f = f_name g /\ f_filename f = f_filename g /\ f_type f = f_type g /\
  f_bytes f = f_bytes g.

Lemma matches_same : forall ps fs gs,
  Forall2 field_matches ps fs -> Forall2 field_matches ps gs ->
  Forall2 same_field fs gs.
Proof.
  induction ps as [|p ps IH]; intros fs gs H1 H2; inversion H1; inversion H2;
    subst; constructor.
  - unfold field_matches, same_field in *. intuition congruence.
  - apply IH; assumption.
Qed.

Theorem reader_independent :
  forall (St1 St2 : Type) rl1 rl2 rem1 rem2 L1 L2 P1 P2,
    good_reader St1 rl1 rem1 L1 P1 -> good_reader St2 rl2 rem2 L2 P2 ->
  forall maxline b p ps final ctv clen s1 s2 fuel,
    L1 maxline -> L1 (-1) -> L2 maxline -> L2 (-1) ->
    boundary_ok b = true -> len b + 7 <= maxline ->
    ctype_names ctv b -> Forall (part_ok b) (p :: ps) ->
    P1 s1 -> P2 s2 ->
    rem1 s1 = encode b (p :: ps) final -> rem2 s2 = encode b (p :: ps) final ->
    (clen < 0 \/ clen = len (encode b (p :: ps) final)) ->
    len (encode b (p :: ps) final) < Z.of_nat fuel ->
    exists fs1 fs2 t1 t2,
      parse St1 rl1 maxline fuel (Some ctv) clen s1 = Ok (fs1, t1) /\
      parse St2 rl2 maxline fuel (Some ctv) clen s2 = Ok (fs2, t2) /\
      Forall2 same_field fs1 fs2.
Proof.
  intros St1 St2 rl1 rl2 rem1 rem2 L1 L2 P1 P2 G1 G2 maxline b p ps final ctv
         clen s1 s2 fuel Ha Hb Hc Hd Hbo Hmax Hct Hall Hp1 Hp2 Hr1 Hr2 Hclen Hf.
  destruct (multipart_roundtrip St1 rl1 rem1 L1 P1 G1 maxline b p ps final ctv
              clen s1 fuel Ha Hb Hbo Hmax Hct Hall Hp1 Hr1)
    as (fs1 & t1 & E1 & M1 & _); try (rewrite Hr1; assumption).
  destruct (multipart_roundtrip St2 rl2 rem2 L2 P2 G2 maxline b p ps final ctv
              clen s2 fuel Hc Hd Hbo Hmax Hct Hall Hp2 Hr2)
    as (fs2 & t2 & E2 & M2 & _); try (rewrite Hr2; assumption).
  exists fs1, fs2, t1, t2. split; [exact E1|]. split; [exact E2|].
  exact (matches_same _ _ _ M1 M2).
Qed.

(* text fields: decoding the pieces one by one is exact for ASCII content *)
Lemma utf8_decode_ascii s :
  Forall (fun c => c < 128) s -> utf8_decode s = s.
Proof.
  induction 1 as [|c s Hc _ IH]; [reflexivity|].
  cbn [utf8_decode].
  replace (c <? 128) with true by (symmetry; apply Z.ltb_lt; exact Hc).
  rewrite IH. reflexivity.
Qed.

Theorem text_exact_ascii f :
  Forall (fun c => c < 128) (f_bytes f) -> f_text f = f_bytes f.
Proof.
  unfold f_text, f_bytes. induction (f_pieces f) as [|p ps IH]; intros H;
    [reflexivity|].
  cbn [map List.concat] in *. apply Forall_app in H as [H1 H2].
  rewrite (utf8_decode_ascii p H1), IH by exact H2. reflexivity.
Qed.

(* ------------------------------------------------------------------ *)
(* (2') the header codec on what the encoder writes: headers_decode holds for
   every name and filename *)

(* ---- UTF-8: decoding inverts encoding on every encodable code point *)
Lemma scalar_range c : scalar c = true ->
  0 <= c < 1114112 /\ (c < 55296 \/ 57343 < c).
Proof.
  unfold scalar. intros H. apply andb_true_iff in H as [H H3].
  apply andb_true_iff in H as [H1 H2]. apply Z.leb_le in H1. apply Z.ltb_lt in H2.
  apply negb_true_iff, andb_false_iff in H3 as [H3|H3];
    [apply Z.leb_gt in H3|apply Z.leb_gt in H3]; lia.
Qed.

Ltac btrue :=
  repeat match goal with
         | |- (_ && _) = true => apply andb_true_iff; split
         | |- (_ <=? _) = true => apply Z.leb_le
         | |- (_ <? _) = true => apply Z.ltb_lt
         | |- (negb (_ =? _) || _) = true =>
             apply orb_true_iff;
             first [left; apply negb_true_iff, Z.eqb_neq; lia
                   |right; apply Z.leb_le; lia]
         end; try lia.

Lemma utf8_decode_enc1 c r : scalar c = true ->
  utf8_decode (utf8_enc1 c ++ r) = c :: utf8_decode r.
Proof.
  intros H. apply scalar_range in H as [Hr Hs]. unfold utf8_enc1.
  destruct (c <? 128) eqn:E1.
  { cbn [app utf8_decode]. rewrite E1. reflexivity. }
  apply Z.ltb_ge in E1.
  destruct (c <? 2048) eqn:E2.
  { apply Z.ltb_lt in E2. cbn [app utf8_decode].
    replace (192 + c / 64 <? 128) with false by (symmetry; apply Z.ltb_ge; lia).
    replace ((194 <=? 192 + c / 64) && (192 + c / 64 <=? 223) &&
             cont (128 + c mod 64)) with true
      by (symmetry; unfold cont; btrue).
    f_equal. lia. }
  apply Z.ltb_ge in E2.
  destruct (c <? 65536) eqn:E3.
  { apply Z.ltb_lt in E3. cbn [app utf8_decode].
    replace (224 + c / 4096 <? 128) with false by (symmetry; apply Z.ltb_ge; lia).
    replace ((194 <=? 224 + c / 4096) && (224 + c / 4096 <=? 223) &&
             cont (128 + (c / 64) mod 64)) with false.
    2:{ symmetry. apply andb_false_iff. left. apply andb_false_iff. right.
        apply Z.leb_gt. lia. }
    match goal with |- (if ?b then _ else _) = _ => replace b with true end.
    - f_equal. lia.
    - symmetry. unfold cont. btrue. }
  apply Z.ltb_ge in E3. cbn [app utf8_decode].
  replace (240 + c / 262144 <? 128) with false by (symmetry; apply Z.ltb_ge; lia).
  replace (240 + c / 262144 <=? 223) with false by (symmetry; apply Z.leb_gt; lia).
  replace (240 + c / 262144 <=? 239) with false by (symmetry; apply Z.leb_gt; lia).
  rewrite !andb_false_r. cbn [andb].
  match goal with |- (if ?b then _ else _) = _ => replace b with true end.
  - f_equal. lia.
  - symmetry. unfold cont. btrue.
Qed.

Lemma utf8_roundtrip s : forallb scalar s = true ->
  utf8_decode (utf8_encode s) = s.
Proof.
  induction s as [|c s IH]; intros H; [reflexivity|].
  cbn [forallb] in H. apply andb_true_iff in H as [Hc Hs].
  change (utf8_encode (c :: s)) with (utf8_enc1 c ++ utf8_encode s).
  rewrite utf8_decode_enc1 by exact Hc. rewrite IH by exact Hs. reflexivity.
Qed.

Lemma not_in_b (x : Z) l : existsb (Z.eqb x) l = false -> ~ In x l.
Proof.
  intros H Hi. assert (existsb (Z.eqb x) l = true).
  { apply existsb_exists. exists x. split; [exact Hi | apply Z.eqb_refl]. }
  congruence.
Qed.

(* ---- find / slices *)
Lemma find_from_hit0 c : forall m r i, 0 <= i -> ~ In c m ->
  find_from c (m ++ c :: r) i 0 = i + len m.
Proof.
  induction m as [|x m IH]; intros r i Hi Hm; cbn [app find_from].
  - replace (0 <=? i) with true by (symmetry; apply Z.leb_le; lia).
    rewrite Z.eqb_refl. change (len (@nil Z)) with 0. cbn [andb]. lia.
  - replace (x =? c) with false
      by (symmetry; apply Z.eqb_neq; intros E; apply Hm; left; exact E).
    rewrite andb_false_r. rewrite IH; [rewrite len_cons; lia|lia|].
    intros I. apply Hm. right. exact I.
Qed.
Lemma find_hit0 c m r : ~ In c m -> find c (m ++ c :: r) 0 = len m.
Proof. intros H. unfold find. rewrite find_from_hit0; [lia|lia|exact H]. Qed.

Lemma slice_to_app p q : slice_to (p ++ q) (len p) = p.
Proof.
  unfold slice_to, len. rewrite Nat2Z.id.
  induction p as [|x p IH]; cbn [List.length app firstn].
  - destruct q; reflexivity.
  - rewrite IH. reflexivity.
Qed.
Lemma slice_from_app p q : slice_from (p ++ q) (len p) = q.
Proof.
  unfold slice_from, len. rewrite Nat2Z.id.
  induction p as [|x p IH]; cbn [List.length app skipn]; [reflexivity|exact IH].
Qed.
Lemma slice_to_all s e : len s <= e -> slice_to s e = s.
Proof. unfold slice_to, len. intros H. apply firstn_all2. lia. Qed.
Lemma slice_from_all s e : len s <= e -> slice_from s e = [].
Proof. unfold slice_from, len. intros H. apply skipn_all2. lia. Qed.

(* ---- the scanner of _parseparam *)
Definition semi_or_end (r : list Z) : Prop := r = [] \/ exists r', r = 59 :: r'.
(* neither a semicolon nor a double quote *)
Definition plainc (c : Z) : bool := negb (c =? 59) && negb (c =? 34).

Lemma scan_stop r e : semi_or_end r -> scan_end r false e = e.
Proof. intros [->|[r' ->]]; reflexivity. Qed.

Lemma scan_plain : forall k t e, forallb plainc k = true ->
  scan_end (k ++ t) false e = scan_end t false (e + len k).
Proof.
  induction k as [|c k IH]; intros t e H; cbn [app].
  - change (len (@nil Z)) with 0. f_equal. lia.
  - cbn [forallb] in H. apply andb_true_iff in H as [Hc Hk].
    unfold plainc in Hc. apply andb_true_iff in Hc as [H59 H34].
    apply negb_true_iff in H59, H34.
    cbn [scan_end andb]. rewrite H34, H59. cbn [andb]. rewrite IH by exact Hk.
    rewrite len_cons. f_equal. lia.
Qed.

Lemma scan_quote t q e : scan_end (34 :: t) q e = scan_end t (negb q) (e + 1).
Proof.
  cbn [scan_end]. change (34 =? 92) with false. rewrite andb_false_r.
  reflexivity.
Qed.

Lemma scan_escaped : forall x t e,
  scan_end (quote_esc x ++ t) true e = scan_end t true (e + len (quote_esc x)).
Proof.
  unfold quote_esc.
  induction x as [|c x IH]; intros t e.
  - cbn [flat_map app]. change (len (@nil Z)) with 0. f_equal. lia.
  - cbn [flat_map]. rewrite <- app_assoc, len_app.
    destruct (c =? 92) eqn:E1; [|destruct (c =? 34) eqn:E2].
    + cbn [app scan_end]. change (92 =? 92) with true. cbn [andb].
      rewrite IH. f_equal. change (len [92; 92]) with 2. lia.
    + cbn [app scan_end]. change (92 =? 92) with true. cbn [andb].
      rewrite IH. f_equal. change (len [92; 34]) with 2. lia.
    + cbn [app scan_end]. rewrite E1, E2. cbn [andb negb].
      rewrite andb_false_r. rewrite IH. f_equal. change (len [c]) with 1. lia.
Qed.

(* a text without any semicolon is scanned to its end (or one further, after
   a final backslash inside quotes), whatever its quotes and backslashes *)
Lemma scan_no_semi : forall n t q e, (List.length t <= n)%nat ->
  existsb (Z.eqb 59) t = false -> e + len t <= scan_end t q e.
Proof.
  induction n as [|n IH]; intros t q e Hn H.
  - destruct t; [cbn [scan_end]; change (len (@nil Z)) with 0; lia|cbn [List.length] in Hn; lia].
  - destruct t as [|c r]; [cbn [scan_end]; change (len (@nil Z)) with 0; lia|].
    cbn [List.length] in Hn. cbn [existsb] in H.
    apply orb_false_iff in H as [Hc Hr]. rewrite Z.eqb_sym in Hc.
    cbn [scan_end]. rewrite len_cons. rewrite Hc. cbn [andb].
    destruct (q && (c =? 92)).
    + destruct r as [|d r'].
      * change (len (@nil Z)) with 0. lia.
      * cbn [existsb] in Hr. apply orb_false_iff in Hr as [_ Hr'].
        cbn [List.length] in Hn. rewrite len_cons.
        pose proof (IH r' q (e + 2) ltac:(lia) Hr'). lia.
    + destruct (c =? 34).
      * pose proof (IH r (negb q) (e + 1) ltac:(lia) Hr). lia.
      * pose proof (IH r q (e + 1) ltac:(lia) Hr). lia.
Qed.

(* ---- _parseparam on a sequence of segments *)
Definition seg_stops (b : list Z) : Prop :=
  forall rest, semi_or_end rest -> scan_end (b ++ rest) false 0 = len b.
Definition segs_str (B : list (list Z)) : list Z := flat_map (cons 59) B.

Lemma segs_str_semi B : semi_or_end (segs_str B).
Proof. destruct B; [left; reflexivity|right; eexists; reflexivity]. Qed.

Lemma parseparam_segs : forall B fuel, Forall seg_stops B ->
  (List.length (segs_str B) < fuel)%nat ->
  parseparam_fuel fuel (segs_str B) = map strip_u B.
Proof.
  induction B as [|b B IH]; intros fuel Hok Hf.
  - destruct fuel; reflexivity.
  - inversion Hok as [|b' B' Hb Hok']; subst.
    destruct fuel as [|f]; [lia|].
    change (segs_str (b :: B)) with (59 :: b ++ segs_str B) in *.
    cbn [parseparam_fuel]. rewrite Z.eqb_refl. cbv zeta.
    rewrite (Hb (segs_str B) (segs_str_semi B)).
    rewrite slice_to_app, slice_from_app. cbn [map]. f_equal.
    apply IH; [exact Hok'|].
    cbn [List.length] in Hf. rewrite app_length in Hf. lia.
Qed.

Lemma plain_stops v : forallb plainc v = true -> seg_stops v.
Proof.
  intros H rest Hr. rewrite scan_plain by exact H.
  rewrite scan_stop by exact Hr. lia.
Qed.

(* key="escaped value": the scan passes the key, enters the quoted string,
   passes the escaped value, whatever it is, and leaves the quoted string *)
Lemma quoted_stops k x : forallb plainc k = true ->
  seg_stops (k ++ 34 :: quote_esc x ++ [34]).
Proof.
  intros Hk rest Hr.
  replace ((k ++ 34 :: quote_esc x ++ [34]) ++ rest)
    with (k ++ 34 :: quote_esc x ++ 34 :: rest) by (lnorm; reflexivity).
  rewrite scan_plain by exact Hk. rewrite scan_quote. cbn [negb].
  rewrite scan_escaped, scan_quote. cbn [negb]. rewrite scan_stop by exact Hr.
  rewrite len_app, len_cons, len_app. change (len [34]) with 1. lia.
Qed.

(* ---- the escaping and its inverse *)
Definition esc1 (c : Z) : list Z :=
  if c =? 92 then [92; 92] else if c =? 34 then [92; 34] else [c].
Definition escq (c : Z) : list Z := if c =? 34 then [92; 34] else [c].

Lemma replace2_other a b rep c r :
  c <> a -> replace2 a b rep (c :: r) = c :: replace2 a b rep r.
Proof.
  intros H. destruct r as [|d r']; [reflexivity|].
  change (replace2 a b rep (c :: d :: r'))
    with (if (c =? a) && (d =? b) then rep ++ replace2 a b rep r'
          else c :: replace2 a b rep (d :: r')).
  replace (c =? a) with false by (symmetry; apply Z.eqb_neq; exact H).
  reflexivity.
Qed.
Lemma replace2_nomatch a b rep r :
  hd 0 r <> b -> replace2 a b rep (a :: r) = a :: replace2 a b rep r.
Proof.
  intros H. destruct r as [|d r']; [reflexivity|]. cbn [hd] in H.
  change (replace2 a b rep (a :: d :: r'))
    with (if (a =? a) && (d =? b) then rep ++ replace2 a b rep r'
          else a :: replace2 a b rep (d :: r')).
  replace (d =? b) with false by (symmetry; apply Z.eqb_neq; exact H).
  rewrite andb_false_r. reflexivity.
Qed.
Lemma replace2_match a b rep r :
  replace2 a b rep (a :: b :: r) = rep ++ replace2 a b rep r.
Proof.
  change (replace2 a b rep (a :: b :: r))
    with (if (a =? a) && (b =? b) then rep ++ replace2 a b rep r
          else a :: replace2 a b rep (b :: r)).
  rewrite !Z.eqb_refl. reflexivity.
Qed.

Lemma unescape_step1 x :
  replace2 92 92 [92] (flat_map esc1 x) = flat_map escq x.
Proof.
  induction x as [|c x IH]; [reflexivity|].
  cbn [flat_map]. unfold esc1 at 1, escq at 1.
  destruct (c =? 92) eqn:E1.
  - apply Z.eqb_eq in E1. subst c. change (92 =? 34) with false.
    cbn [app]. rewrite replace2_match, IH. reflexivity.
  - apply Z.eqb_neq in E1. destruct (c =? 34) eqn:E2.
    + cbn [app]. rewrite replace2_nomatch by (cbn [hd]; lia).
      rewrite replace2_other by lia. rewrite IH. reflexivity.
    + cbn [app]. rewrite replace2_other by exact E1. rewrite IH. reflexivity.
Qed.
Lemma escq_head x : hd 0 (flat_map escq x) <> 34.
Proof.
  destruct x as [|c x]; cbn [flat_map hd]; [lia|].
  unfold escq. destruct (c =? 34) eqn:E; cbn [app hd]; [lia|].
  apply Z.eqb_neq. exact E.
Qed.
Lemma unescape_step2 x : replace2 92 34 [34] (flat_map escq x) = x.
Proof.
  induction x as [|c x IH]; [reflexivity|].
  cbn [flat_map]. unfold escq at 1. destruct (c =? 34) eqn:E2.
  - apply Z.eqb_eq in E2. subst c. cbn [app].
    rewrite replace2_match, IH. reflexivity.
  - apply Z.eqb_neq in E2. cbn [app].
    destruct (Z.eq_dec c 92) as [->|E1].
    + rewrite replace2_nomatch by apply escq_head. rewrite IH. reflexivity.
    + rewrite replace2_other by exact E1. rewrite IH. reflexivity.
Qed.
Lemma unescape_escape x :
  replace2 92 34 [34] (replace2 92 92 [92] (quote_esc x)) = x.
Proof.
  change (quote_esc x) with (flat_map esc1 x).
  rewrite unescape_step1. apply unescape_step2.
Qed.

Lemma unquote_quoted x : unquote (34 :: quote_esc x ++ [34]) = x.
Proof.
  unfold unquote. cbn [hd tl].
  replace (2 <=? len (34 :: quote_esc x ++ [34])) with true.
  2:{ symmetry. apply Z.leb_le. rewrite len_cons, len_app.
      pose proof (len_nonneg (quote_esc x)). change (len [34]) with 1. lia. }
  change (34 :: quote_esc x ++ [34]) with ((34 :: quote_esc x) ++ [34]) at 1.
  rewrite last_last. rewrite removelast_last. cbn [Z.eqb Pos.eqb andb].
  apply unescape_escape.
Qed.

(* ---- str.strip() on what is written *)
Lemma strip_u_ends s : is_ws_u (hd 0 s) = false -> is_ws_u (last s 0) = false ->
  strip_u s = s.
Proof.
  intros Hh Hl. unfold strip_u, strip_by.
  assert (R : rstrip_by is_ws_u s = s).
  { destruct s as [|c s]; [reflexivity|].
    destruct (@exists_last _ (c :: s) ltac:(discriminate)) as (x & d & E).
    rewrite E in *. rewrite last_last in Hl.
    replace (x ++ [d]) with (x ++ [d] ++ []) by (rewrite app_nil_r; reflexivity).
    rewrite rstrip_app_ws by (exact Hl || reflexivity).
    reflexivity. }
  rewrite R. destruct s as [|c s]; [reflexivity|]. cbn [hd] in Hh.
  cbn [lstrip_by]. rewrite Hh. reflexivity.
Qed.

Lemma strip_u_seg s : is_ws_u (hd 0 s) = false -> is_ws_u (last s 0) = false ->
  strip_u (32 :: s) = s.
Proof.
  intros Hh Hl. unfold strip_u, strip_by.
  destruct s as [|c s]; [reflexivity|].
  destruct (@exists_last _ (c :: s) ltac:(discriminate)) as (x & d & E).
  rewrite E in *. rewrite last_last in Hl.
  replace (32 :: x ++ [d]) with ((32 :: x) ++ [d] ++ [])
    by (rewrite app_nil_r; reflexivity).
  rewrite rstrip_app_ws by (exact Hl || reflexivity).
  cbn [app lstrip_by]. change (is_ws_u 32) with true. cbn iota.
  destruct x as [|y x]; cbn [app hd] in *; cbn [lstrip_by]; rewrite Hh; reflexivity.
Qed.

Lemma last_quoted (k E : list Z) : last (k ++ 34 :: E ++ [34]) 0 = 34.
Proof.
  replace (k ++ 34 :: E ++ [34]) with ((k ++ 34 :: E) ++ [34]) by (lnorm; reflexivity).
  apply last_last.
Qed.

(* ---- the body of the for loop of parse_header on key="escaped value" *)
Lemma header_param_quoted k x :
  existsb (Z.eqb 61) k = false -> strip_u k = k -> lower k = k ->
  header_param (k ++ 61 :: 34 :: quote_esc x ++ [34]) = [(k, x)].
Proof.
  intros H61 Hs Hl. unfold header_param.
  rewrite find_hit0 by (apply not_in_b; exact H61).
  pose proof (len_nonneg k).
  replace (0 <=? len k) with true by (symmetry; apply Z.leb_le; lia).
  rewrite slice_to_app, Hs, Hl.
  replace (k ++ 61 :: 34 :: quote_esc x ++ [34])
    with ((k ++ [61]) ++ 34 :: quote_esc x ++ [34]) by (lnorm; reflexivity).
  replace (len k + 1) with (len (k ++ [61]))
    by (rewrite len_app; change (len [61]) with 1; lia).
  rewrite slice_from_app.
  rewrite strip_u_ends; [rewrite unquote_quoted; reflexivity|reflexivity|].
  change (34 :: quote_esc x ++ [34]) with ([] ++ 34 :: quote_esc x ++ [34]).
  rewrite last_quoted. reflexivity.
Qed.

(* ---- parse_header on a Content-Disposition value as the encoder writes it *)
Definition cd_value (n : list Z) (f : option (list Z)) : list Z :=
  s2l "form-data; name=""" ++ quote_esc n ++ [34]
  ++ match f with
     | Some f => s2l "; filename=""" ++ quote_esc f ++ [34]
     | None => []
     end.

Lemma parse_header_cd n f :
  parse_header (cd_value n f)
  = (s2l "form-data",
     (s2l "name", n) :: match f with Some f => [(s2l "filename", f)] | None => [] end).
Proof.
  unfold parse_header, parseparam.
  assert (E : 59 :: cd_value n f = segs_str
            (s2l "form-data" :: (s2l " name=" ++ 34 :: quote_esc n ++ [34]) ::
             match f with
             | Some f => [s2l " filename=" ++ 34 :: quote_esc f ++ [34]]
             | None => []
             end)).
  { unfold cd_value, segs_str. destruct f; cbn [flat_map s2l]; lnorm;
      rewrite ?app_nil_r; reflexivity. }
  rewrite E. rewrite parseparam_segs; [| |lia].
  - cbn [map]. change (strip_u (s2l "form-data")) with (s2l "form-data").
    f_equal. cbn [flat_map].
    change (s2l " name=" ++ 34 :: quote_esc n ++ [34])
      with (32 :: s2l "name" ++ 61 :: 34 :: quote_esc n ++ [34]).
    rewrite strip_u_seg; [|reflexivity|].
    2:{ change (s2l "name" ++ 61 :: 34 :: quote_esc n ++ [34])
          with (s2l "name=" ++ 34 :: quote_esc n ++ [34]).
        rewrite last_quoted. reflexivity. }
    rewrite header_param_quoted by reflexivity.
    destruct f as [f|]; [|reflexivity].
    cbn [map flat_map].
    change (s2l " filename=" ++ 34 :: quote_esc f ++ [34])
      with (32 :: s2l "filename" ++ 61 :: 34 :: quote_esc f ++ [34]).
    rewrite strip_u_seg; [|reflexivity|].
    2:{ change (s2l "filename" ++ 61 :: 34 :: quote_esc f ++ [34])
          with (s2l "filename=" ++ 34 :: quote_esc f ++ [34]).
        rewrite last_quoted. reflexivity. }
    rewrite header_param_quoted by reflexivity. reflexivity.
  - constructor; [apply plain_stops; reflexivity|].
    constructor; [apply quoted_stops; reflexivity|].
    destruct f; [constructor; [apply quoted_stops; reflexivity|constructor]
                |constructor].
Qed.

(* ... and on a value without any semicolon (a bare media type) *)
Lemma parse_header_plain t : existsb (Z.eqb 59) t = false ->
  parse_header t = (strip_u t, []).
Proof.
  intros H. unfold parse_header, parseparam.
  cbn [List.length parseparam_fuel]. rewrite Z.eqb_refl. cbv zeta.
  pose proof (scan_no_semi (List.length t) t false 0 ltac:(lia) H) as He.
  rewrite slice_to_all, slice_from_all by lia.
  destruct t; reflexivity.
Qed.

(* ---- FeedParser on the header block the encoder writes *)
Definition noeol (l : list Z) : bool := forallb (fun c => negb (is_crlf_c c)) l.

Lemma splitlines_line : forall l cur rest, noeol l = true ->
  splitlines cur (l ++ 13 :: 10 :: rest)
  = rv (10 :: 13 :: rev l ++ cur) :: splitlines [] rest.
Proof.
  induction l as [|c l IH]; intros cur rest H.
  - cbn [app rev splitlines starts_lf]. change (13 =? 10) with false.
    rewrite Z.eqb_refl. cbn [orb andb negb]. reflexivity.
  - cbn [noeol forallb] in H. apply andb_true_iff in H as [Hc Hl].
    apply negb_true_iff in Hc. unfold is_crlf_c in Hc.
    apply orb_false_iff in Hc as [H13 H10].
    cbn [app splitlines]. rewrite H10, H13. cbn [orb andb].
    rewrite IH by exact Hl. cbn [rev]. rewrite <- app_assoc. reflexivity.
Qed.

Lemma rv_line l : rv (10 :: 13 :: rev l ++ []) = l ++ [13; 10].
Proof.
  rewrite rv_rev, app_nil_r. cbn [rev]. rewrite rev_involutive. lnorm.
  reflexivity.
Qed.

Lemma hdr_text_noeol s : hdr_text s = true -> noeol s = true.
Proof.
  unfold hdr_text, noeol. induction s as [|c s IH]; [reflexivity|].
  cbn [forallb]. intros H. apply andb_true_iff in H as [Hc Hs].
  rewrite IH by exact Hs. unfold hdr_char in Hc.
  apply andb_true_iff in Hc as [Hc H13]. apply andb_true_iff in Hc as [_ H10].
  apply negb_true_iff in H10, H13. unfold is_crlf_c. rewrite H10, H13. reflexivity.
Qed.

Lemma hdr_text_scalar s : hdr_text s = true -> forallb scalar s = true.
Proof.
  unfold hdr_text. induction s as [|c s IH]; [reflexivity|].
  cbn [forallb]. intros H. apply andb_true_iff in H as [Hc Hs].
  rewrite IH by exact Hs. unfold hdr_char in Hc.
  apply andb_true_iff in Hc as [Hc _]. apply andb_true_iff in Hc as [Hc _].
  rewrite Hc. reflexivity.
Qed.

Lemma forallb_quote_esc (P : Z -> bool) s :
  P 92 = true -> P 34 = true -> forallb P s = true ->
  forallb P (quote_esc s) = true.
Proof.
  intros H92 H34. unfold quote_esc. induction s as [|c s IH]; [reflexivity|].
  cbn [forallb flat_map]. intros H. apply andb_true_iff in H as [Hc Hs].
  rewrite forallb_app, IH by exact Hs. rewrite andb_true_r.
  destruct (c =? 92); [cbn [forallb]; rewrite H92; reflexivity|].
  destruct (c =? 34); [cbn [forallb]; rewrite H92, H34; reflexivity|].
  cbn [forallb]. rewrite Hc. reflexivity.
Qed.

(* the value of Content-Disposition has encodable characters and no line end *)
Lemma cd_value_ok (P : Z -> bool) n f :
  forallb P (s2l "form-data; name=""") = true ->
  forallb P (s2l "; filename=""") = true ->
  P 92 = true -> P 34 = true -> forallb P n = true ->
  match f with Some f => forallb P f = true | None => True end ->
  forallb P (cd_value n f) = true.
Proof.
  intros Hc1 Hc2 H92 H34 Hn Hf. unfold cd_value.
  rewrite !forallb_app. rewrite (forallb_quote_esc P n H92 H34 Hn), Hc1.
  cbn [forallb]. rewrite H34.
  destruct f as [f|]; [|reflexivity].
  rewrite !forallb_app. rewrite (forallb_quote_esc P f H92 H34 Hf), Hc2.
  cbn [forallb]. rewrite H34. reflexivity.
Qed.

Definition cd_text (p : part) : list Z :=
  s2l "Content-Disposition: " ++ cd_value (p_name p) (p_filename p).
Definition ct_text (t : list Z) : list Z := s2l "Content-Type: " ++ t.

Lemma header_text_lines p :
  part_header_text p
  = cd_text p ++ 13 :: 10 ::
    match p_ctype p with
    | Some t => ct_text t ++ 13 :: 10 :: [13; 10]
    | None => [13; 10]
    end.
Proof.
  unfold part_header_text, cd_text, cd_value, ct_text, crlf.
  destruct (p_filename p), (p_ctype p); lnorm; reflexivity.
Qed.

Lemma parse_hlines_cd v t cur :
  parse_hlines ((s2l "Content-Disposition: " ++ v) :: t) cur
  = match parse_hlines t (Some (s2l "Content-Disposition",
                                lstrip_by is_blank_c v)) with
    | Some rest => Some (close_hdr cur ++ rest)
    | None => None
    end.
Proof. reflexivity. Qed.

Lemma parse_hlines_ct v t cur :
  parse_hlines ((s2l "Content-Type: " ++ v) :: t) cur
  = match parse_hlines t (Some (s2l "Content-Type", lstrip_by is_blank_c v)) with
    | Some rest => Some (close_hdr cur ++ rest)
    | None => None
    end.
Proof. reflexivity. Qed.

Lemma header_line_cd v : header_line (s2l "Content-Disposition: " ++ v) = true.
Proof. reflexivity. Qed.
Lemma header_line_ct v : header_line (s2l "Content-Type: " ++ v) = true.
Proof. reflexivity. Qed.

Lemma lstrip_head ws : forall s,
  match lstrip_by ws s with c :: _ => ws c = false | [] => True end.
Proof.
  induction s as [|c s IH]; [exact I|]. cbn [lstrip_by].
  destruct (ws c) eqn:E; [exact IH|exact E].
Qed.

Lemma is_blank_ws_u c : is_blank_c c = true -> is_ws_u c = true.
Proof.
  intros H. apply is_blank_ws in H. unfold is_ws_u. rewrite H. reflexivity.
Qed.

(* a media type without blanks at its ends keeps them behind "Content-Type:" *)
Lemma lstrip_blank_stripped t r : strip_u t = t -> is_blank_c (hd 0 r) = false ->
  lstrip_by is_blank_c (t ++ r) = t ++ r.
Proof.
  intros Hs Hr. destruct t as [|c t].
  - cbn [app]. destruct r as [|d r]; [reflexivity|]. cbn [hd] in Hr.
    cbn [lstrip_by]. rewrite Hr. reflexivity.
  - pose proof (lstrip_head is_ws_u (rstrip_by is_ws_u (c :: t))) as H.
    unfold strip_u, strip_by in Hs. rewrite Hs in H.
    cbn [app lstrip_by]. destruct (is_blank_c c) eqn:E; [|reflexivity].
    apply is_blank_ws_u in E. congruence.
Qed.

Lemma rstrip_crlf v : noeol v = true -> rstrip_by is_crlf_c (v ++ [13; 10]) = v.
Proof.
  intros H. destruct v as [|c v]; [reflexivity|].
  destruct (@exists_last _ (c :: v) ltac:(discriminate)) as (x & d & E).
  rewrite E in *. unfold noeol in H. rewrite forallb_app in H.
  apply andb_true_iff in H as [_ H]. cbn [forallb] in H.
  rewrite andb_true_r in H. apply negb_true_iff in H.
  rewrite <- app_assoc. apply rstrip_app_ws; [exact H|reflexivity].
Qed.

Lemma lstrip_blank_cd n f r :
  lstrip_by is_blank_c (cd_value n f ++ r) = cd_value n f ++ r.
Proof. unfold cd_value. reflexivity. Qed.

Lemma hdr_get_cd v t :
  hdr_get ((s2l "Content-Disposition", v) :: t) (s2l "content-disposition") = Some v.
Proof. reflexivity. Qed.
Lemma hdr_get_ct1 v w t :
  hdr_get ((s2l "Content-Disposition", v) :: (s2l "Content-Type", w) :: t)
          (s2l "content-type") = Some w.
Proof. reflexivity. Qed.
Lemma hdr_get_ct0 v :
  hdr_get [(s2l "Content-Disposition", v)] (s2l "content-type") = None.
Proof. reflexivity. Qed.

Lemma ctype_ok_facts t : ctype_ok t = true ->
  hdr_text t = true /\ existsb (Z.eqb 59) t = false /\ strip_u t = t /\
  lz_eqb t (s2l "application/x-www-form-urlencoded") = false /\
  lz_eqb (slice_to t 10) (s2l "multipart/") = false.
Proof.
  unfold ctype_ok. intros H.
  apply andb_true_iff in H as [H H5]. apply andb_true_iff in H as [H H4].
  apply andb_true_iff in H as [H H3]. apply andb_true_iff in H as [H1 H2].
  apply negb_true_iff in H2, H4, H5. apply lz_eqb_eq in H3. auto.
Qed.

(* The header codec gives back name, filename and media type of EVERY part
   whose header texts can be written at all: any name and filename (blanks,
   quotes, semicolons, backslashes -- also at the end, also in front of the
   filename parameter --, controls, non-ASCII) that UTF-8 can encode and
   that has no CR or LF. *)
Theorem headers_decode_wf b p :
  b <> [] -> hdr_text (p_name p) = true ->
  match p_filename p with Some f => hdr_text f = true | None => True end ->
  match p_ctype p with Some t => ctype_ok t = true | None => True end ->
  headers_decode b p.
Proof.
  intros Hb Hn Hf Ht. unfold headers_decode, hdr_bytes.
  assert (Hcds : forallb scalar (cd_value (p_name p) (p_filename p)) = true).
  { apply cd_value_ok; try reflexivity; [apply hdr_text_scalar; exact Hn|].
    destruct (p_filename p); [apply hdr_text_scalar; exact Hf|exact I]. }
  assert (Hcde : noeol (cd_value (p_name p) (p_filename p)) = true).
  { apply cd_value_ok; try reflexivity; [apply hdr_text_noeol; exact Hn|].
    destruct (p_filename p); [apply hdr_text_noeol; exact Hf|exact I]. }
  rewrite utf8_roundtrip.
  2:{ rewrite header_text_lines. unfold cd_text. rewrite !forallb_app, Hcds.
      cbn [forallb]. destruct (p_ctype p) as [t|]; [|reflexivity].
      apply ctype_ok_facts in Ht as (Ht & _). unfold ct_text.
      rewrite !forallb_app, (hdr_text_scalar t Ht). reflexivity. }
  unfold part_headers. rewrite header_text_lines.
  rewrite splitlines_line.
  2:{ unfold cd_text, noeol. rewrite forallb_app. fold (noeol (cd_value (p_name p) (p_filename p))).
      rewrite Hcde. reflexivity. }
  rewrite rv_line. unfold cd_text. rewrite <- app_assoc.
  destruct (p_ctype p) as [t|] eqn:Ect.
  - apply ctype_ok_facts in Ht as (Ht & H59 & Hst & Hu & Hm).
    rewrite splitlines_line.
    2:{ unfold ct_text, noeol. rewrite forallb_app. fold (noeol t).
        rewrite (hdr_text_noeol t Ht). reflexivity. }
    rewrite rv_line. unfold ct_text. rewrite <- app_assoc.
    change (splitlines [] [13; 10]) with [[13; 10]].
    cbn [take_header_lines]. rewrite header_line_cd, header_line_ct.
    change (header_line [13; 10]) with false. cbn iota.
    rewrite parse_hlines_cd, parse_hlines_ct. cbn [parse_hlines close_hdr app].
    rewrite lstrip_blank_cd, rstrip_crlf by exact Hcde.
    rewrite lstrip_blank_stripped by (exact Hst || reflexivity).
    rewrite rstrip_crlf by (apply hdr_text_noeol; exact Ht).
    eexists. split; [reflexivity|].
    unfold part_meta. rewrite hdr_get_cd, hdr_get_ct1, parse_header_cd.
    rewrite parse_header_plain by exact H59. cbn [fst snd]. rewrite Hst.
    unfold expected_type. rewrite Ect.
    split; [|split; assumption].
    destruct (p_filename p); reflexivity.
  - change (splitlines [] [13; 10]) with [[13; 10]].
    cbn [take_header_lines]. rewrite header_line_cd.
    change (header_line [13; 10]) with false. cbn iota.
    rewrite parse_hlines_cd. cbn [parse_hlines close_hdr app].
    rewrite lstrip_blank_cd, rstrip_crlf by exact Hcde.
    eexists. split; [reflexivity|].
    unfold part_meta. rewrite hdr_get_cd, hdr_get_ct0, parse_header_cd.
    cbn [fst snd]. rewrite (is_nil_false b Hb).
    unfold expected_type. rewrite Ect.
    split; [|split; reflexivity].
    destruct (p_filename p); reflexivity.
Qed.

(* the same without the vocabulary of the model *)
Corollary headers_decode_meta b p :
  b <> [] -> hdr_text (p_name p) = true ->
  match p_filename p with Some f => hdr_text f = true | None => True end ->
  match p_ctype p with Some t => ctype_ok t = true | None => True end ->
  exists hs,
    part_headers (utf8_decode (utf8_encode (part_header_text p))) = Some hs /\
    part_meta hs b = (Some (p_name p), p_filename p, expected_type p).
Proof.
  intros Hb Hn Hf Ht.
  destruct (headers_decode_wf b p Hb Hn Hf Ht) as (hs & H1 & H2 & _).
  exists hs. split; assumption.
Qed.

Lemma hdr_text_no_lf s : hdr_text s = true -> ~ In 10 s.
Proof.
  intros H. apply hdr_text_noeol in H. unfold noeol in H.
  rewrite forallb_forall in H. intros Hi. specialize (H 10 Hi). discriminate.
Qed.

(* a part with writable header texts satisfies the hypotheses of the round
   trip *)
Lemma part_wf_ok b p : b <> [] -> part_wf b p -> part_ok b p.
Proof.
  intros Hb (Hn & Hf & Ht & Hc). unfold part_ok.
  split; [apply hdr_text_no_lf; exact Hn|].
  split; [intros f E; rewrite E in Hf; apply hdr_text_no_lf; exact Hf|].
  split; [intros t E; rewrite E in Ht; apply ctype_ok_facts in Ht as (Ht & _);
          apply hdr_text_no_lf; exact Ht|].
  split; [apply headers_decode_wf; assumption|exact Hc].
Qed.

Lemma boundary_not_nil b : boundary_ok b = true -> b <> [].
Proof.
  intros Hb. destruct (boundary_ok_facts b Hb) as (_ & (b0 & c & -> & _) & _).
  destruct b0; discriminate.
Qed.

Lemma parts_wf_ok b ps : boundary_ok b = true ->
  Forall (part_wf b) ps -> Forall (part_ok b) ps.
Proof.
  intros Hb H. apply Forall_impl with (2 := H). intros p.
  apply part_wf_ok. apply boundary_not_nil. exact Hb.
Qed.

(* (2) and (3) with the header codec discharged *)
Theorem multipart_roundtrip_wf :
  forall (St : Type) (rl : Z -> St -> bytes * St) (rem : St -> bytes)
         (L : Z -> Prop) (P : St -> Prop),
    good_reader St rl rem L P ->
  forall (maxline : Z) (b : bytes) (p : part) (ps : list part) (final : bool)
         (ctv : list Z) (clen : Z) (s : St) (fuel : nat),
    L maxline -> L (-1) ->
    boundary_ok b = true -> len b + 7 <= maxline ->
    ctype_names ctv b ->
    Forall (part_wf b) (p :: ps) ->
    P s -> rem s = encode b (p :: ps) final ->
    (clen < 0 \/ clen = len (rem s)) ->
    len (rem s) < Z.of_nat fuel ->
    exists fields s',
      parse St rl maxline fuel (Some ctv) clen s = Ok (fields, s') /\
      Forall2 field_matches (p :: ps) fields /\ rem s' = [].
Proof.
  intros St rl rem L P G maxline b p ps final ctv clen s fuel HLm HL1 Hb Hmax
         Hct Hall. apply multipart_roundtrip with (L := L) (P := P); auto.
  apply parts_wf_ok; assumption.
Qed.

Theorem reader_independent_wf :
  forall (St1 St2 : Type) rl1 rl2 rem1 rem2 L1 L2 P1 P2,
    good_reader St1 rl1 rem1 L1 P1 -> good_reader St2 rl2 rem2 L2 P2 ->
  forall maxline b p ps final ctv clen s1 s2 fuel,
    L1 maxline -> L1 (-1) -> L2 maxline -> L2 (-1) ->
    boundary_ok b = true -> len b + 7 <= maxline ->
    ctype_names ctv b -> Forall (part_wf b) (p :: ps) ->
    P1 s1 -> P2 s2 ->
    rem1 s1 = encode b (p :: ps) final -> rem2 s2 = encode b (p :: ps) final ->
    (clen < 0 \/ clen = len (encode b (p :: ps) final)) ->
    len (encode b (p :: ps) final) < Z.of_nat fuel ->
    exists fs1 fs2 t1 t2,
      parse St1 rl1 maxline fuel (Some ctv) clen s1 = Ok (fs1, t1) /\
      parse St2 rl2 maxline fuel (Some ctv) clen s2 = Ok (fs2, t2) /\
      Forall2 same_field fs1 fs2.
Proof.
  intros St1 St2 rl1 rl2 rem1 rem2 L1 L2 P1 P2 G1 G2 maxline b p ps final ctv
         clen s1 s2 fuel Ha Hb Hc Hd Hbo Hmax Hct Hall.
  apply reader_independent with (L1 := L1) (L2 := L2) (P1 := P1) (P2 := P2)
                                (rem1 := rem1) (rem2 := rem2); auto.
  apply parts_wf_ok; assumption.
Qed.

(* ------------------------------------------------------------------ *)
(* examples and refutations *)

Definition ex_b : bytes := s2l "XyZ".
Definition ex_parts : list part :=
  [mkpart (s2l "a ""b""; c\d") None None (s2l "plain");
   mkpart (s2l "f") (Some (s2l "x y;.bin")) (Some (s2l "application/octet-stream"))
          ([13; 10] ++ s2l "--XyZ-" ++ [13; 10; 0; 255; 13] ++ s2l "--XyZ" ++ [13]);
   mkpart [233; 21517] None None [];
   mkpart (s2l "trail\") (Some (s2l "C:\dir\")) None (s2l "x")].
Definition ex_ctv : list Z := s2l "multipart/form-data; boundary=XyZ".

Fixpoint occursb (p s : list Z) : bool :=
  prefixb p s || match s with [] => false | _ :: s' => occursb p s' end.

Lemma occursb_complete p : forall x y, occursb p (x ++ p ++ y) = true.
Proof.
  induction x as [|a x IH]; intros y.
  - cbn [app]. destruct (p ++ y) eqn:E; cbn [occursb]; rewrite <- E;
      rewrite prefixb_app; reflexivity.
  - cbn [app occursb]. rewrite IH. apply orb_true_r.
Qed.

Lemma not_occurs p s : occursb p s = false -> ~ occurs p s.
Proof. intros H [x [y ->]]. rewrite occursb_complete in H. discriminate. Qed.

(* the computed test is sound *)
Lemma no_delim_from_sound pat : pat <> [] -> forall x y,
  no_delim_from pat (x ++ pat ++ y) = true -> harmless (y ++ [13; 10]) = true.
Proof.
  intros Hp. induction x as [|a x IH]; intros y H.
  - cbn [app] in H. destruct (pat ++ y) as [|e r] eqn:E.
    { destruct pat; [congruence | discriminate E]. }
    cbn [no_delim_from] in H. rewrite <- E in H. rewrite prefixb_app in H.
    apply andb_true_iff in H as [H _].
    rewrite skipn_app, skipn_all, Nat.sub_diag in H. exact H.
  - cbn [app no_delim_from] in H. apply andb_true_iff in H as [_ H].
    apply IH. exact H.
Qed.

Lemma no_delim_lineb_sound b c : no_delim_lineb b c = true -> no_delim_line b c.
Proof.
  unfold no_delim_lineb, no_delim_line. intros H x y E. rewrite E in H.
  apply (no_delim_from_sound (10 :: dashb b)) in H; [exact H | discriminate].
Qed.

(* a content without any line that starts with the dash-boundary *)
Lemma not_occurs_no_delim b c :
  ~ occurs (10 :: dashb b) (10 :: c) -> no_delim_line b c.
Proof. intros H x y E. exfalso. apply H. exists x, y. exact E. Qed.

(* the hypotheses of the theorems hold for a non-trivial input *)
Example ex_hypotheses :
  boundary_ok ex_b = true /\ ctype_names ex_ctv ex_b /\
  Forall (part_wf ex_b) ex_parts.
Proof.
  split; [reflexivity|]. split; [repeat split; vm_compute; reflexivity|].
  unfold ex_parts.
  repeat (apply Forall_cons;
          [unfold part_wf; cbn [p_name p_filename p_ctype p_content];
           repeat split; try (vm_compute; reflexivity);
           apply no_delim_lineb_sound; vm_compute; reflexivity|]).
  apply Forall_nil.
Qed.

(* the witness of the former finding param-backslash-before-next-param: a
   name ending in a backslash in front of a filename parameter (it used to
   come back as name = trail"; filename="f.txt without a filename) *)
Example headers_decode_backslash_witness :
  headers_decode (s2l "b") (mkpart (s2l "trail\") (Some (s2l "f.txt")) None []).
Proof. apply headers_decode_wf; [discriminate|reflexivity|reflexivity|exact I]. Qed.

Example parse_header_backslash_witness :
  parse_header (s2l "form-data; name=""trail\\""; filename=""f.txt""")
  = (s2l "form-data", [(s2l "name", s2l "trail\"); (s2l "filename", s2l "f.txt")]).
Proof. vm_compute. reflexivity. Qed.

(* ... and the parser indeed returns the parts, through both readers *)
Example ex_roundtrip_lf :
  exists fs, parse bytes lf_line 65536 (fuel_for (encode ex_b ex_parts true))
                   (Some ex_ctv) (-1) (encode ex_b ex_parts true) = Ok (fs, [])
             /\ map f_bytes fs = map p_content ex_parts.
Proof. eexists. split; vm_compute; reflexivity. Qed.

Example ex_roundtrip_crlf_small_limit :
  exists fs, parse bytes crlf_line 16 (fuel_for (encode ex_b ex_parts false))
                   (Some ex_ctv) (len (encode ex_b ex_parts false))
                   (encode ex_b ex_parts false) = Ok (fs, [])
             /\ map f_bytes fs = map p_content ex_parts.
Proof. eexists. split; vm_compute; reflexivity. Qed.

(* The case that used to fail (fixed in /repo by 0c4c429): the CRLF-splitting
   reader separates the CR of the CRLF in front of the delimiter from its LF
   (line limit 8 here, 65536 and a content of 65535 CRLF-free bytes in the
   implementation); the next piece is "\n--b\r\n".  It is an instance of
   lines_to_boundary_exact now (crlf_reader_good holds for every input);
   computed here for a witness. *)
Example crlf_cut_divides_delimiter_ok :
  let b := s2l "b" in let c := s2l "aaaaaaa" in let rest := s2l "next" in
  let input := c ++ [13; 10] ++ bline b false [] ++ [13; 10] ++ rest in
  fst (crlf_line 8 input) = c ++ [13] /\
  exists pieces n,
    rlob bytes crlf_line 8 (fuel_for input) (dashb b) (dashb b ++ [45; 45])
         None [] [] true 0 input = RDone pieces 0 n rest /\
    List.concat pieces = c.
Proof.
  cbv zeta. split; [reflexivity|]. eexists _, _.
  split; vm_compute; reflexivity.
Qed.

(* ---- where the faithful model does NOT return the content *)

(* (a) the hypothesis cannot be weakened to RFC 2046's "CRLF--b does not
   occur in the content": a line that follows a bare LF (or is the first
   line of the content) and reads --b ends the part for the LF-splitting
   reader.  Python's cgi module behaved the same way; not counted as a
   defect because the property assumes that the boundary does not occur. *)
Theorem rfc_delimiter_hypothesis_refuted :
  exists b c rest input,
    input = c ++ [13; 10] ++ bline b false [] ++ [13; 10] ++ rest /\
    boundary_ok b = true /\ ~ occurs (13 :: 10 :: dashb b) c /\
    exists pieces n s',
      rlob bytes lf_line 65536 (fuel_for input) (dashb b)
           (dashb b ++ [45; 45]) None [] [] true 0 input
        = RDone pieces 0 n s' /\
      List.concat pieces <> c.
Proof.
  exists (s2l "b"), (s2l "a" ++ [10] ++ s2l "--b" ++ [13; 10] ++ s2l "z"),
         (s2l "next"). eexists.
  split; [reflexivity|]. split; [reflexivity|].
  split; [apply not_occurs; reflexivity|].
  eexists _, _, _. split; [vm_compute; reflexivity|]. vm_compute. discriminate.
Qed.

(* (b) on bodies that are not RFC 7578 encodings the two readers may
   disagree (a bare LF in front of a delimiter line) *)
Theorem reader_independent_any_input_refuted :
  exists ctv body,
    parse bytes lf_line 65536 (fuel_for body) (Some ctv) (-1) body <>
    parse bytes crlf_line 65536 (fuel_for body) (Some ctv) (-1) body.
Proof.
  exists (s2l "multipart/form-data; boundary=b"),
         (s2l "--b" ++ [13; 10] ++
          s2l "Content-Disposition: form-data; name=""a""" ++ [13; 10; 13; 10] ++
          s2l "x" ++ [10] ++ s2l "--b--" ++ [13; 10]).
  vm_compute. discriminate.
Qed.
