(* Proofs about model/Multipart.v (C08). *)
From Coq Require Import ZArith List Bool Lia String.
Require Import PW.lib.Val PW.lib.ValFacts PW.model.Multipart.
Import ListNotations.
Open Scope list_scope.
Open Scope Z_scope.

(* ------------------------------------------------------------------ *)
(* lists *)

(* right-nest every ++ and compute it on explicit heads *)
Ltac lnorm := repeat (rewrite <- app_assoc); cbn [app];
              repeat (rewrite <- app_assoc); cbn [app].

Lemma rv_rev (l : list Z) : rv l = rev l.
Proof. unfold rv. rewrite rev_append_rev, app_nil_r. reflexivity. Qed.

Lemma len_nil {A} : len (@nil A) = 0.
Proof. reflexivity. Qed.
Lemma len_cons {A} (x : A) l : len (x :: l) = 1 + len l.
Proof. unfold len. cbn [List.length]. lia. Qed.
Lemma len_app {A} (a b : list A) : len (a ++ b) = len a + len b.
Proof. unfold len. rewrite app_length. lia. Qed.
Lemma len_nonneg {A} (l : list A) : 0 <= len l.
Proof. unfold len. lia. Qed.
Lemma len_zero_nil {A} (l : list A) : len l = 0 -> l = [].
Proof. destruct l; [reflexivity|]. rewrite len_cons. pose proof (len_nonneg l). lia. Qed.

Lemma is_nil_false {A} (l : list A) : l <> [] -> is_nil l = false.
Proof. destruct l; [congruence | reflexivity]. Qed.
Lemma is_nil_true {A} (l : list A) : is_nil l = true -> l = [].
Proof. destruct l; [reflexivity | discriminate]. Qed.

Lemma prefixb_app p s : prefixb p (p ++ s) = true.
Proof.
  induction p as [|x p IH]; [reflexivity|].
  cbn [prefixb app]. rewrite Z.eqb_refl, IH. reflexivity.
Qed.

Lemma prefixb_spec p : forall s, prefixb p s = true -> exists t, s = p ++ t.
Proof.
  induction p as [|x p IH]; intros s H.
  - exists s. reflexivity.
  - destruct s as [|y s]; [discriminate|]. cbn [prefixb] in H.
    apply andb_true_iff in H as [H1 H2]. apply Z.eqb_eq in H1. subst y.
    destruct (IH _ H2) as [t ->]. exists t. reflexivity.
Qed.

(* a ++ m = p ++ t with no element of p equal to the head of m *)
Lemma app_prefix_clean (a m p t : list Z) (x : Z) :
  a ++ m = p ++ t -> ~ In x p -> (m = [] \/ exists m', m = x :: m') ->
  exists k, a = p ++ k.
Proof.
  revert a. induction p as [|y p IH]; intros a H Hn Hm.
  - exists a. reflexivity.
  - destruct a as [|z a].
    + cbn [app] in H. destruct Hm as [-> | [m' ->]]; [discriminate|].
      injection H as -> _. exfalso. apply Hn. left. reflexivity.
    + cbn [app] in H. injection H as -> H.
      destruct (IH a H) as [k ->]; [intros Hi; apply Hn; right; exact Hi | exact Hm |].
      exists k. reflexivity.
Qed.

(* where a piece without inner CRLF that starts in c2 ++ CRLF ++ z ends *)
Lemma piece_cases (l u' c2 z : bytes) :
  l ++ u' = c2 ++ [13; 10] ++ z -> no_inner_crlf l ->
  exists l1 c2b m, l = l1 ++ m /\ c2 = l1 ++ c2b /\
    ((m = [] /\ u' = c2b ++ [13; 10] ++ z) \/
     (m = [13] /\ c2b = [] /\ u' = 10 :: z) \/
     (m = [13; 10] /\ c2b = [] /\ u' = z)).
Proof.
  intros H Hn. apply app_eq_app in H. destruct H as [k [[H1 H2] | [H1 H2]]].
  - (* l = c2 ++ k, 13::10::z = k ++ u' *)
    destruct k as [|k1 k].
    + exists l, [], []. rewrite !app_nil_r. cbn [app] in H2.
      rewrite app_nil_r in H1. subst c2.
      split; [reflexivity|]. split; [reflexivity|]. left.
      split; [reflexivity|]. symmetry. exact H2.
    + cbn [app] in H2. injection H2 as <- H2. destruct k as [|k2 k].
      * cbn [app] in H2. exists c2, [], [13]. rewrite app_nil_r.
        split; [exact H1|]. split; [reflexivity|]. right. left.
        split; [reflexivity|]. split; [reflexivity|]. symmetry. exact H2.
      * cbn [app] in H2. injection H2 as <- H2.
        assert (k = []) by (apply (Hn c2 k); exact H1). subst k.
        cbn [app] in H2. exists c2, [], [13; 10]. rewrite app_nil_r.
        split; [exact H1|]. split; [reflexivity|]. right. right.
        split; [reflexivity|]. split; [reflexivity|]. symmetry. exact H2.
  - (* c2 = l ++ k *)
    exists l, k, []. rewrite app_nil_r.
    split; [reflexivity|]. split; [exact H1|]. left.
    split; [reflexivity|exact H2].
Qed.

(* ------------------------------------------------------------------ *)
(* strip *)

Lemma lstrip_suffix ws s : exists t, s = t ++ lstrip_by ws s.
Proof.
  induction s as [|c s [t IH]].
  - exists []. reflexivity.
  - cbn [lstrip_by]. destruct (ws c).
    + exists (c :: t). cbn [app]. rewrite <- IH. reflexivity.
    + exists []. reflexivity.
Qed.

Lemma lstrip_app_all ws a b :
  forallb ws a = true -> lstrip_by ws (a ++ b) = lstrip_by ws b.
Proof.
  induction a as [|c a IH]; intros H; [reflexivity|].
  cbn [forallb] in H. apply andb_true_iff in H as [H1 H2].
  cbn [app lstrip_by]. rewrite H1. apply IH. exact H2.
Qed.

Lemma lstrip_all ws a : forallb ws a = true -> lstrip_by ws a = [].
Proof.
  intros H. rewrite <- (app_nil_r a). rewrite lstrip_app_all by exact H.
  reflexivity.
Qed.

Lemma rstrip_by_rev ws l : rstrip_by ws l = rev (lstrip_by ws (rev l)).
Proof. unfold rstrip_by. rewrite !rv_rev. reflexivity. Qed.

Lemma rstrip_prefix ws l : exists t, l = rstrip_by ws l ++ t.
Proof.
  rewrite rstrip_by_rev. destruct (lstrip_suffix ws (rev l)) as [t H].
  exists (rev t). rewrite <- rev_app_distr, <- H, rev_involutive. reflexivity.
Qed.

Lemma forallb_rev {A} (f : A -> bool) l : forallb f (rev l) = forallb f l.
Proof.
  induction l as [|x l IH]; [reflexivity|].
  cbn [rev forallb]. rewrite forallb_app, IH. cbn [forallb].
  rewrite andb_true_r. apply andb_comm.
Qed.

(* x ends with a non-blank character, w is all blank *)
Lemma rstrip_app_ws ws x c w :
  ws c = false -> forallb ws w = true ->
  rstrip_by ws (x ++ [c] ++ w) = x ++ [c].
Proof.
  intros Hc Hw. rewrite rstrip_by_rev, !rev_app_distr.
  rewrite <- app_assoc. rewrite lstrip_app_all by (rewrite forallb_rev; exact Hw).
  cbn [rev app lstrip_by]. rewrite Hc. cbn [rev].
  rewrite rev_involutive. reflexivity.
Qed.

Lemma strip_nil_all l : forallb is_ws l = true -> strip l = [].
Proof.
  intros H. unfold strip, strip_by. rewrite rstrip_by_rev.
  rewrite (lstrip_all is_ws (rev l)) by (rewrite forallb_rev; exact H).
  reflexivity.
Qed.

(* ------------------------------------------------------------------ *)
(* the endswith ladder *)

Lemma split_end_crlf x : split_end (x ++ [13; 10]) = (x, [13; 10], true).
Proof.
  unfold split_end. rewrite rv_rev, rev_app_distr. cbn [rev app].
  rewrite !Z.eqb_refl. rewrite rv_rev, rev_involutive. reflexivity.
Qed.

Lemma split_end_cr x : split_end (x ++ [13]) = (x, [13], false).
Proof.
  unfold split_end. rewrite rv_rev, rev_app_distr. cbn [rev app].
  replace (13 =? 10) with false by reflexivity. rewrite Z.eqb_refl.
  rewrite rv_rev, rev_involutive. reflexivity.
Qed.

Lemma split_end_spec line body d lf :
  split_end line = (body, d, lf) ->
  line = body ++ d /\ (lf = true -> ends_lf line) /\
  (d = [13] -> exists z, line = z ++ [13]).
Proof.
  unfold split_end. rewrite rv_rev.
  assert (Hl : line = rev (rev line)) by (rewrite rev_involutive; reflexivity).
  destruct (rev line) as [|x r] eqn:E.
  - intros H. injection H as <- <- <-. rewrite app_nil_r.
    repeat split; intros; discriminate.
  - cbn [rev] in Hl. destruct (x =? 10) eqn:E10.
    + apply Z.eqb_eq in E10. subst x. destruct r as [|y r'].
      * intros H. injection H as <- <- <-. cbn [rev app] in Hl.
        repeat split; auto.
        -- intros _. exists []. exact Hl.
        -- discriminate.
      * destruct (y =? 13) eqn:E13.
        -- apply Z.eqb_eq in E13. subst y. intros H. injection H as <- <- <-.
           rewrite rv_rev. cbn [rev] in Hl. rewrite <- app_assoc in Hl.
           cbn [app] in Hl. repeat split; auto.
           ++ intros _. exists (rev r' ++ [13]). rewrite <- app_assoc. exact Hl.
           ++ discriminate.
        -- intros H. injection H as <- <- <-. rewrite rv_rev.
           repeat split; auto.
           ++ intros _. exists (rev (y :: r')). exact Hl.
           ++ discriminate.
    + destruct (x =? 13) eqn:E13.
      * apply Z.eqb_eq in E13. subst x. intros H. injection H as <- <- <-.
        rewrite rv_rev. repeat split; auto.
        -- discriminate.
        -- intros _. exists (rev r). exact Hl.
      * intros H. injection H as <- <- <-. rewrite app_nil_r.
        repeat split; intros; discriminate.
Qed.

(* ------------------------------------------------------------------ *)
(* boundaries *)

Lemma graphic_range c : graphic c = true -> 33 <= c <= 126.
Proof. unfold graphic. intros H. apply andb_true_iff in H as [H1 H2].
  apply Z.leb_le in H1, H2. lia. Qed.
Lemma printable_range c : printable c = true -> 32 <= c <= 126.
Proof. unfold printable. intros H. apply andb_true_iff in H as [H1 H2].
  apply Z.leb_le in H1, H2. lia. Qed.

Lemma is_ws_false c : 33 <= c <= 126 -> is_ws c = false.
Proof.
  intros H. unfold is_ws.
  replace (c =? 32) with false by (symmetry; apply Z.eqb_neq; lia).
  replace (c <=? 13) with false by (symmetry; apply Z.leb_gt; lia).
  rewrite andb_false_r. reflexivity.
Qed.

Lemma boundary_ok_facts b : boundary_ok b = true ->
  (forall x, In x b -> 32 <= x <= 126) /\
  (exists b0 c, b = b0 ++ [c] /\ 33 <= c <= 126) /\ len b <= 201.
Proof.
  unfold boundary_ok. intros H.
  assert (Hb : b = rev (rev b)) by (rewrite rev_involutive; reflexivity).
  destruct (rev b) as [|c t]; [discriminate|].
  apply andb_true_iff in H as [H12 H3]. apply andb_true_iff in H12 as [H1 H2].
  apply graphic_range in H1. apply Z.leb_le in H3.
  cbn [rev] in Hb. split; [|split].
  - intros x Hx. rewrite Hb in Hx. apply in_app_or in Hx as [Hx|Hx].
    + apply in_rev in Hx. rewrite forallb_forall in H2.
      apply printable_range. apply H2. exact Hx.
    + destruct Hx as [<-|[]]. lia.
  - exists (rev t), c. split; [exact Hb | exact H1].
  - rewrite Hb, len_app. unfold len in *. rewrite rev_length.
    cbn [List.length]. lia.
Qed.

Lemma boundary_ok_valid b : boundary_ok b = true -> valid_boundary b = true.
Proof.
  unfold boundary_ok, valid_boundary. rewrite rv_rev.
  destruct (rev b) as [|c t]; [discriminate|]. intros H.
  assert (Hc : c =? 10 = false).
  { apply andb_true_iff in H as [H1 _]. apply andb_true_iff in H1 as [H2 _].
    apply graphic_range in H2. apply Z.eqb_neq. lia. }
  rewrite Hc. exact H.
Qed.

Lemma dashb_chars b x : (forall y, In y b -> 32 <= y <= 126) ->
  In x (dashb b) -> 32 <= x <= 126.
Proof.
  intros Hb [<-|[<-|Hx]]; try lia. apply Hb. exact Hx.
Qed.

(* ------------------------------------------------------------------ *)
(* one round of read_lines_to_outerboundary *)

Lemma carry_spec d l : exists dpre odelim,
  carry d l = (dpre ++ l, odelim) /\ odelim ++ dpre = d /\
  (dpre = [] \/ dpre = [13]).
Proof.
  unfold carry. destruct (lz_eqb d [13]) eqn:E.
  - apply lz_eqb_eq in E. subst d. exists [13], []. auto.
  - exists [], d. rewrite app_nil_r. auto.
Qed.

Lemma boundary_hit_some nb lb line lfend k :
  boundary_hit nb lb line lfend = Some k ->
  lfend = true /\ ((k = 0 /\ exists t, line = nb ++ t) \/
                   (k = 1 /\ exists t, line = lb ++ t)).
Proof.
  unfold boundary_hit. destruct (prefixb [45; 45] line && lfend) eqn:E;
    [|discriminate].
  apply andb_true_iff in E as [_ ->]. cbv zeta. intros H.
  split; [reflexivity|].
  destruct (rstrip_prefix is_ws line) as [t Ht]. fold rstrip in Ht.
  destruct (lz_eqb (rstrip line) nb) eqn:E1.
  - injection H as <-. apply lz_eqb_eq in E1. left.
    split; [reflexivity|]. exists t. rewrite <- E1. exact Ht.
  - destruct (lz_eqb (rstrip line) lb) eqn:E2; [|discriminate].
    injection H as <-. apply lz_eqb_eq in E2. right.
    split; [reflexivity|]. exists t. rewrite <- E2. exact Ht.
Qed.

Lemma ends_lf_app a l : ends_lf l -> ends_lf (a ++ l).
Proof. intros [z ->]. exists (a ++ z). rewrite app_assoc. reflexivity. Qed.

(* phase A: the delimiter CRLF--b is still completely unread *)
Lemma step_content b c w d lfend l u' c2 z :
  (forall x, In x b -> 32 <= x <= 126) ->
  ~ occurs (10 :: dashb b) (10 :: c) ->
  w ++ d ++ c2 = c ->
  (lfend = true -> w ++ d = [] \/ ends_lf (w ++ d)) ->
  l <> [] -> no_inner_crlf l -> l ++ u' = c2 ++ [13; 10] ++ z ->
  exists piece d' lf',
    rlob_step (dashb b) (dashb b ++ [45; 45]) d lfend l = SCont piece d' lf' /\
    (w ++ piece) ++ d' = (w ++ d) ++ l /\
    (lf' = true -> ends_lf ((w ++ piece) ++ d')) /\
    (d' = [13] -> exists y, l = y ++ [13]) /\
    ((exists c2', u' = c2' ++ [13; 10] ++ z /\ (w ++ piece) ++ d' ++ c2' = c) \/
     (d' = [13] /\ w ++ piece = c /\ u' = 10 :: z) \/
     (d' = [13; 10] /\ w ++ piece = c /\ lf' = true /\ u' = z)).
Proof.
  intros Hb Hocc Hc Hlf Hne Hin Hcat.
  destruct (piece_cases l u' c2 z Hcat Hin) as (l1 & c2b & m & Hl & Hc2 & Hm).
  destruct (carry_spec d l) as (dpre & odelim & Hcarry & Hd & Hdpre).
  unfold rlob_step. rewrite Hcarry.
  assert (Hhit : boundary_hit (dashb b) (dashb b ++ [45; 45]) (dpre ++ l) lfend
                 = None).
  { destruct (boundary_hit (dashb b) (dashb b ++ [45; 45]) (dpre ++ l) lfend)
      as [hit|] eqn:E; [|reflexivity]. exfalso.
    apply boundary_hit_some in E as [Elf E].
    assert (Hpre : exists t, dpre ++ l = dashb b ++ t).
    { destruct E as [[_ [t Ht]] | [_ [t Ht]]].
      - exists t. exact Ht.
      - exists ([45; 45] ++ t). rewrite Ht, <- app_assoc. reflexivity. }
    destruct Hpre as [t Ht].
    destruct Hdpre as [-> | ->]; [|discriminate Ht].
    cbn [app] in Ht, Hd. rewrite app_nil_r in Hd. subst odelim.
    rewrite Hl in Ht.
    assert (H13 : ~ In 13 (dashb b)).
    { intros Hi. apply (dashb_chars b 13 Hb) in Hi. lia. }
    destruct (app_prefix_clean l1 m (dashb b) t 13 Ht H13) as [k Hk].
    { destruct Hm as [[-> _] | [[-> _] | [-> _]]]; eauto. }
    apply Hocc. specialize (Hlf Elf). rewrite <- Hc, Hc2, Hk.
    destruct Hlf as [Hlf | [y Hlf]].
    - exists [], (k ++ c2b). rewrite app_assoc, Hlf. lnorm. reflexivity.
    - exists (10 :: y), (k ++ c2b). rewrite app_assoc, Hlf. lnorm.
      reflexivity. }
  rewrite Hhit.
  assert (Hwd : forall r, w ++ odelim ++ dpre ++ r = (w ++ d) ++ r).
  { intros r. rewrite <- Hd, <- !app_assoc. reflexivity. }
  destruct Hm as [[-> Hu] | [[-> [-> Hu]] | [-> [-> Hu]]]].
  - (* the piece ends inside the content *)
    rewrite app_nil_r in Hl. subst l1.
    destruct (split_end (dpre ++ l)) as [[body d'] lf'] eqn:Es.
    apply split_end_spec in Es as (Hline & Hlf' & Hcr).
    exists (odelim ++ body), d', lf'.
    assert (Hall : (w ++ odelim ++ body) ++ d' = (w ++ d) ++ l).
    { rewrite <- Hwd, Hline, <- !app_assoc. reflexivity. }
    split; [reflexivity|]. split; [exact Hall|]. split; [|split].
    + intros E. rewrite Hall. apply ends_lf_app.
      specialize (Hlf' E). destruct Hdpre as [-> | ->]; [exact Hlf'|].
      destruct Hlf' as [y Hy]. destruct (exists_last Hne) as (l' & x & ->).
      change ([13] ++ l' ++ [x]) with ((13 :: l') ++ [x]) in Hy.
      apply app_inj_tail in Hy as [_ ->].
      exists l'. reflexivity.
    + intros E. destruct (Hcr E) as [y Hy].
      destruct Hdpre as [-> | ->]; [exists y; exact Hy|].
      destruct (exists_last Hne) as (l' & x & ->).
      change ([13] ++ l' ++ [x]) with ((13 :: l') ++ [x]) in Hy.
      apply app_inj_tail in Hy as [_ ->].
      exists l'. reflexivity.
    + left. exists c2b. split; [exact Hu|].
      rewrite app_assoc, Hall, <- Hc, Hc2, <- !app_assoc. reflexivity.
  - (* the piece ends between CR and LF of the delimiter *)
    rewrite app_nil_r in Hc2. subst l1.
    rewrite Hl, app_assoc, split_end_cr.
    exists (odelim ++ dpre ++ c2), [13], false.
    split; [reflexivity|]. split; [|split; [discriminate|split]].
    + rewrite <- Hwd. lnorm. reflexivity.
    + intros _. exists c2. reflexivity.
    + right. left. split; [reflexivity|]. split; [|exact Hu].
      rewrite Hwd, <- Hc, <- app_assoc. reflexivity.
  - (* the piece ends right before the dash-boundary *)
    rewrite app_nil_r in Hc2. subst l1.
    rewrite Hl, app_assoc, split_end_crlf.
    exists (odelim ++ dpre ++ c2), [13; 10], true.
    split; [reflexivity|]. split; [|split; [|split; [discriminate|]]].
    + rewrite <- Hwd. lnorm. reflexivity.
    + intros _. exists ((w ++ odelim ++ dpre ++ c2) ++ [13]).
      lnorm. reflexivity.
    + right. right. split; [reflexivity|]. split; [|split; [reflexivity|exact Hu]].
      rewrite Hwd, <- Hc, <- app_assoc. reflexivity.
Qed.

(* phase B: a cut separated the CR of the delimiter from its LF *)
Lemma step_lone_lf nb lb lfend :
  rlob_step nb lb [13] lfend [10] = SCont [] [13; 10] true.
Proof. reflexivity. Qed.

Lemma lz_eqb_app_neq a t : t <> [] -> lz_eqb (a ++ t) a = false.
Proof.
  intros Ht. apply lz_eqb_neq. intros E.
  apply (f_equal (@List.length Z)) in E. rewrite app_length in E.
  destruct t; [congruence|]. cbn [List.length] in E. lia.
Qed.

Lemma is_blank_ws c : is_blank_c c = true -> is_ws c = true.
Proof.
  unfold is_blank_c, is_ws. intros H. apply orb_true_iff in H as [H|H];
    apply Z.eqb_eq in H; subst c; reflexivity.
Qed.

(* phase C: the delimiter line *)
Lemma step_delimiter b last pad eol :
  boundary_ok b = true -> forallb is_blank_c pad = true ->
  (eol = [13; 10] \/ eol = []) ->
  rlob_step (dashb b) (dashb b ++ [45; 45]) [13; 10] true
            (bline b last pad ++ eol) = SBreak (if last then 1 else 0).
Proof.
  intros Hb Hpad Heol.
  destruct (boundary_ok_facts b Hb) as (_ & (b0 & c & -> & Hc) & _).
  assert (Hws : forallb is_ws (pad ++ eol) = true).
  { rewrite forallb_app. apply andb_true_iff. split.
    - rewrite forallb_forall in *. intros x Hx. apply is_blank_ws, Hpad, Hx.
    - destruct Heol as [-> | ->]; reflexivity. }
  unfold rlob_step, carry.
  replace (lz_eqb [13; 10] [13]) with false by reflexivity.
  unfold boundary_hit.
  assert (Hp : prefixb [45; 45] (bline (b0 ++ [c]) last pad ++ eol) = true).
  { unfold bline, dashb. cbn [app prefixb]. rewrite !Z.eqb_refl. reflexivity. }
  rewrite Hp. cbn [andb]. cbv zeta.
  destruct last.
  - assert (Hr : rstrip (bline (b0 ++ [c]) true pad ++ eol)
                 = dashb (b0 ++ [c]) ++ [45; 45]).
    { unfold bline, rstrip.
      replace ((dashb (b0 ++ [c]) ++ [45; 45] ++ pad) ++ eol)
        with ((dashb (b0 ++ [c]) ++ [45]) ++ [45] ++ (pad ++ eol))
        by (lnorm; reflexivity).
      rewrite rstrip_app_ws; [lnorm; reflexivity | reflexivity | exact Hws]. }
    rewrite Hr. rewrite lz_eqb_app_neq by discriminate.
    rewrite lz_eqb_refl. reflexivity.
  - assert (Hr : rstrip (bline (b0 ++ [c]) false pad ++ eol)
                 = dashb (b0 ++ [c])).
    { unfold bline, rstrip, dashb.
      replace (((45 :: 45 :: b0 ++ [c]) ++ [] ++ pad) ++ eol)
        with ((45 :: 45 :: b0) ++ [c] ++ (pad ++ eol))
        by (lnorm; reflexivity).
      rewrite rstrip_app_ws; [lnorm; reflexivity | apply is_ws_false; exact Hc
                             | exact Hws]. }
    rewrite Hr, lz_eqb_refl. reflexivity.
Qed.

Lemma limit_hit_false limit clen nread :
  limit_ok limit clen -> nread <= clen + 2 -> limit_hit limit nread = false.
Proof.
  unfold limit_ok, limit_hit. destruct limit as [L|]; [|reflexivity].
  intros [H|H] Hn.
  - replace (0 <=? L) with false by (symmetry; apply Z.leb_gt; lia).
    reflexivity.
  - replace (L <=? nread) with false by (symmetry; apply Z.leb_gt; lia).
    apply andb_false_r.
Qed.

(* ------------------------------------------------------------------ *)
(* what the contract says about complete lines *)

Lemma not_ends_lf_in l x : ~ In 10 x -> (exists t, x = l ++ t) -> l <> [] ->
  ~ ends_lf l.
Proof.
  intros Hx [t ->] Hne [z ->]. apply Hx. apply in_or_app. left.
  apply in_or_app. right. left. reflexivity.
Qed.

Section Reader.
  Variable St : Type.
  Variable rl : Z -> St -> bytes * St.
  Variable rem : St -> bytes.
  Variable L : Z -> Prop.
  Variable P : St -> Prop.
  Hypothesis G : good_reader St rl rem L P.

  Lemma read_line_crlf lim s x rest :
    L lim -> P s -> rem s = x ++ [13; 10] ++ rest -> ~ In 10 x ->
    (lim < 0 \/ len x + 2 <= lim) ->
    fst (rl lim s) = x ++ [13; 10] /\ rem (snd (rl lim s)) = rest.
  Proof.
    intros HL Hs Hrem Hx Hlim.
    pose proof (gr_concat _ _ _ _ _ G lim s HL Hs) as Hcat.
    pose proof (gr_line _ _ _ _ _ G lim s HL Hs) as Hin.
    pose proof (gr_full _ _ _ _ _ G lim s HL Hs) as Hfull.
    assert (Hne : fst (rl lim s) <> []).
    { apply (gr_progress _ _ _ _ _ G); auto.
      - pose proof (len_nonneg x). lia.
      - rewrite Hrem. destruct x; discriminate. }
    set (l := fst (rl lim s)) in *. set (s' := snd (rl lim s)) in *.
    rewrite Hrem in Hcat.
    destruct (piece_cases l (rem s') x rest Hcat Hin)
      as (l1 & c2b & m & Hl & Hc2 & Hm).
    destruct Hm as [[-> Hu] | [[-> [-> Hu]] | [-> [-> Hu]]]].
    - exfalso. rewrite app_nil_r in Hl.
      assert (Hnl : ~ ends_lf l).
      { apply (not_ends_lf_in l x Hx); [|exact Hne]. exists c2b.
        rewrite Hl. exact Hc2. }
      destruct (Hfull Hnl) as [Hf | Hf].
      + assert (len l <= len x) by (rewrite Hc2, <- Hl, len_app;
                                    pose proof (len_nonneg c2b); lia).
        lia.
      + rewrite Hu in Hf. destruct c2b; discriminate.
    - exfalso. rewrite app_nil_r in Hc2. subst l1.
      assert (Hnl : ~ ends_lf l).
      { intros [y Hy]. rewrite Hl in Hy. apply app_inj_tail in Hy as [_ Hy].
        discriminate. }
      destruct (Hfull Hnl) as [Hf | Hf].
      + rewrite Hl, len_app in Hf. change (len [13]) with 1 in Hf. lia.
      + rewrite Hu in Hf. discriminate.
    - rewrite app_nil_r in Hc2. subst l1. split; [exact Hl | exact Hu].
  Qed.

  Lemma read_line_eof lim s x :
    L lim -> P s -> rem s = x -> x <> [] -> ~ In 10 x ->
    (lim < 0 \/ len x + 1 <= lim) ->
    fst (rl lim s) = x /\ rem (snd (rl lim s)) = [].
  Proof.
    intros HL Hs Hrem Hxne Hx Hlim.
    pose proof (gr_concat _ _ _ _ _ G lim s HL Hs) as Hcat.
    pose proof (gr_full _ _ _ _ _ G lim s HL Hs) as Hfull.
    assert (Hne : fst (rl lim s) <> []).
    { apply (gr_progress _ _ _ _ _ G); auto.
      - pose proof (len_nonneg x). lia.
      - rewrite Hrem. exact Hxne. }
    set (l := fst (rl lim s)) in *. set (s' := snd (rl lim s)) in *.
    rewrite Hrem in Hcat.
    assert (Hnl : ~ ends_lf l).
    { apply (not_ends_lf_in l x Hx); [|exact Hne]. exists (rem s').
      symmetry. exact Hcat. }
    destruct (Hfull Hnl) as [Hf | Hf].
    - exfalso. assert (len l <= len x) by (rewrite <- Hcat, len_app;
                                           pose proof (len_nonneg (rem s')); lia).
      lia.
    - rewrite Hf, app_nil_r in Hcat. split; [exact Hcat | exact Hf].
  Qed.
End Reader.

(* ------------------------------------------------------------------ *)
(* (1) read_lines_to_outerboundary returns exactly the content *)

Lemma concat_snoc (ps : list bytes) p : List.concat (ps ++ [p]) = List.concat ps ++ p.
Proof. rewrite concat_app. cbn [List.concat]. rewrite app_nil_r. reflexivity. Qed.

Lemma bline_no_lf b last pad :
  boundary_ok b = true -> forallb is_blank_c pad = true ->
  ~ In 10 (bline b last pad).
Proof.
  intros Hb Hpad Hi. destruct (boundary_ok_facts b Hb) as (Hc & _ & _).
  unfold bline in Hi. apply in_app_or in Hi as [Hi|Hi].
  - apply (dashb_chars b 10 Hc) in Hi. lia.
  - apply in_app_or in Hi as [Hi|Hi].
    + destruct last; [|destruct Hi].
      destruct Hi as [Hi|[Hi|[]]]; discriminate.
    + rewrite forallb_forall in Hpad. apply Hpad in Hi. discriminate.
Qed.

Lemma bline_len b last pad : 2 <= len (bline b last pad).
Proof.
  unfold bline, dashb. rewrite len_app, !len_cons.
  pose proof (len_nonneg b).
  pose proof (len_nonneg ((if last then [45; 45] else []) ++ pad)). lia.
Qed.

Section Exact.
  Variable St : Type.
  Variable rl : Z -> St -> bytes * St.
  Variable rem : St -> bytes.
  Variable L : Z -> Prop.
  Variable P : St -> Prop.
  Hypothesis G : good_reader St rl rem L P.
  Variable maxline : Z.
  Hypothesis HL : L maxline.
  Variables (b : bytes) (last : bool) (pad c eol rest : bytes).
  Variable limit : option Z.
  Hypothesis Hb : boundary_ok b = true.
  Hypothesis Hpad : forallb is_blank_c pad = true.
  Hypothesis Heol : eol = [13; 10] \/ (eol = [] /\ rest = []).
  Hypothesis Hmax : len (bline b last pad) + 2 <= maxline.
  Hypothesis Hocc : ~ occurs (10 :: dashb b) (10 :: c).
  Hypothesis Hlim : limit_ok limit (len c).

  Let tailz : bytes := bline b last pad ++ eol ++ rest.
  Let nfin : Z := len c + 2 + len (bline b last pad) + len eol.

  Inductive phase (w d : bytes) (lfend : bool) (s : St) : Prop :=
    | PhA c2 : rem s = c2 ++ [13; 10] ++ tailz -> w ++ d ++ c2 = c ->
               (lfend = true -> w ++ d = [] \/ ends_lf (w ++ d)) ->
               phase w d lfend s
    | PhB : d = [13] -> w = c -> rem s = 10 :: tailz ->
            fst (rl maxline s) = [10] -> phase w d lfend s
    | PhC : d = [13; 10] -> w = c -> lfend = true -> rem s = tailz ->
            phase w d lfend s.

  Lemma maxline_pos : 0 < maxline.
  Proof. pose proof (bline_len b last pad). lia. Qed.

  Lemma rlob_inv : forall fuel pieces d lfend nread s,
    P s -> phase (List.concat pieces) d lfend s ->
    nread = len (List.concat pieces ++ d) ->
    len (rem s) < Z.of_nat fuel ->
    exists pieces' s',
      rlob St rl maxline fuel (dashb b) (dashb b ++ [45; 45]) limit
           pieces d lfend nread s
        = RDone pieces' (if last then 1 else 0) nfin s' /\
      List.concat pieces' = c /\ rem s' = rest /\ P s'.
  Proof.
    pose proof maxline_pos as Hmp.
    induction fuel as [|fuel IH]; intros pieces d lfend nread s Hs Hph Hn Hf.
    { pose proof (len_nonneg (rem s)). lia. }
    pose proof (gr_concat _ _ _ _ _ G maxline s HL Hs) as Hcat.
    pose proof (gr_line _ _ _ _ _ G maxline s HL Hs) as Hin.
    pose proof (gr_inv _ _ _ _ _ G maxline s HL Hs) as Hs1.
    pose proof (gr_progress _ _ _ _ _ G maxline s HL Hs ltac:(lia)) as Hprog.
    pose proof (gr_lone_lf _ _ _ _ _ G maxline maxline s HL HL Hs ltac:(lia))
      as Hlone.
    cbn [rlob].
    destruct Hph as [c2 Hrem Hc Hlf | Hd Hw Hrem Hnext | Hd Hw Hlf Hrem].
    - (* content *)
      rewrite (limit_hit_false limit (len c) nread Hlim)
        by (rewrite Hn, <- Hc, !len_app; pose proof (len_nonneg c2); lia).
      assert (Hne : fst (rl maxline s) <> []).
      { apply Hprog. rewrite Hrem. destruct c2; discriminate. }
      destruct (rl maxline s) as [l s1] eqn:E. cbn [fst snd] in *.
      rewrite Hrem in Hcat.
      destruct (boundary_ok_facts b Hb) as (Hchars & _ & _).
      destruct (step_content b c (List.concat pieces) d lfend l (rem s1) c2 tailz
                  Hchars Hocc Hc Hlf Hne Hin Hcat)
        as (piece & d' & lf' & Hstep & Hall & Hlf' & Hcr & Hnext).
      rewrite (is_nil_false l Hne), Hstep.
      assert (Hlen : len l + len (rem s1) = len (rem s)).
      { rewrite Hrem, <- Hcat, len_app. reflexivity. }
      assert (Hl1 : 1 <= len l).
      { destruct l; [congruence|]. rewrite len_cons.
        pose proof (len_nonneg l). lia. }
      apply IH.
      + exact Hs1.
      + rewrite concat_snoc.
        destruct Hnext as [(c2' & Hu & Hc') | [(Hd' & Hw' & Hu) |
                                               (Hd' & Hw' & Hlf2 & Hu)]].
        * apply (PhA _ _ _ _ c2'); [exact Hu | |].
          -- rewrite <- Hc'. lnorm. reflexivity.
          -- intros E2. right. apply Hlf'. exact E2.
        * apply PhB; [exact Hd' | exact Hw' | exact Hu |].
          apply Hlone; [apply Hcr; exact Hd' | exists tailz; exact Hu].
        * apply PhC; [exact Hd' | exact Hw' | exact Hlf2 | exact Hu].
      + rewrite concat_snoc, Hall, len_app, Hn. reflexivity.
      + lia.
    - (* the lone LF of the delimiter *)
      subst d.
      rewrite (limit_hit_false limit (len c) nread Hlim)
        by (rewrite Hn, Hw, len_app; change (len [13]) with 1; lia).
      destruct (rl maxline s) as [l s1] eqn:E. cbn [fst snd] in *.
      subst l. rewrite Hrem in Hcat. cbn [app] in Hcat.
      injection Hcat as Hcat.
      cbn [is_nil]. rewrite step_lone_lf.
      apply IH.
      + exact Hs1.
      + rewrite concat_snoc, app_nil_r.
        apply PhC; [reflexivity | exact Hw | reflexivity | exact Hcat].
      + rewrite concat_snoc, app_nil_r, Hn, !len_app.
        change (len [13; 10]) with 2. change (len [13]) with 1.
        change (len [10]) with 1. lia.
      + rewrite Hrem, len_cons, <- Hcat in Hf. lia.
    - (* the delimiter line *)
      subst d lfend.
      rewrite (limit_hit_false limit (len c) nread Hlim)
        by (rewrite Hn, Hw, len_app; change (len [13; 10]) with 2; lia).
      pose proof (bline_no_lf b last pad Hb Hpad) as Hnolf.
      assert (Hread : fst (rl maxline s) = bline b last pad ++ eol /\
                      rem (snd (rl maxline s)) = rest).
      { destruct Heol as [He | [He Hr]].
        - rewrite He. apply (read_line_crlf St rl rem L P G); auto.
          rewrite Hrem. unfold tailz. rewrite He. reflexivity.
        - assert (Hx : bline b last pad <> []).
          { pose proof (bline_len b last pad) as H2. intros E.
            rewrite E in H2. cbn in H2. lia. }
          rewrite He, Hr, app_nil_r.
          apply (read_line_eof St rl rem L P G); auto.
          + rewrite Hrem. unfold tailz. rewrite He, Hr, !app_nil_r.
            reflexivity.
          + right. lia. }
      destruct Hread as [Hl Hrest].
      destruct (rl maxline s) as [l s1] eqn:E. cbn [fst snd] in *.
      assert (Hne : l <> []).
      { rewrite Hl. pose proof (bline_len b last pad) as H2. intros E2.
        apply (f_equal (@len Z)) in E2. rewrite len_app in E2.
        pose proof (len_nonneg eol). change (len (@nil Z)) with 0 in E2. lia. }
      rewrite (is_nil_false l Hne), Hl.
      rewrite (step_delimiter b last pad eol Hb Hpad)
        by (destruct Heol as [He | [He _]]; auto).
      exists pieces, s1. split; [|split; [exact Hw | split; [exact Hrest | exact Hs1]]].
      f_equal. rewrite Hn, Hw, !len_app. change (len [13; 10]) with 2.
      unfold nfin. lia.
  Qed.

  Lemma rlob_exact_sec s fuel :
    P s -> rem s = c ++ [13; 10] ++ tailz -> len (rem s) < Z.of_nat fuel ->
    exists pieces s',
      rlob St rl maxline fuel (dashb b) (dashb b ++ [45; 45]) limit
           [] [] true 0 s
        = RDone pieces (if last then 1 else 0) nfin s' /\
      List.concat pieces = c /\ rem s' = rest /\ P s'.
  Proof.
    intros Hs Hrem Hf. apply rlob_inv; auto.
    apply (PhA _ _ _ _ c); auto.
  Qed.
End Exact.

(* read_lines_to_outerboundary, started at the first byte of a part's
   content [c] that is followed by CRLF, a delimiter line and [rest], returns
   exactly [c] (whatever bytes it consists of), reports whether the
   delimiter was the closing one, has read exactly up to the end of the
   delimiter line and leaves the reader at [rest] -- for every line source
   that satisfies [good_reader]. *)
Theorem lines_to_boundary_exact :
  forall (St : Type) (rl : Z -> St -> bytes * St) (rem : St -> bytes)
         (L : Z -> Prop) (P : St -> Prop),
    good_reader St rl rem L P ->
  forall (maxline : Z) (b : bytes) (last : bool) (pad c eol rest : bytes)
         (limit : option Z) (s : St) (fuel : nat),
    L maxline ->
    boundary_ok b = true ->
    forallb is_blank_c pad = true ->
    (eol = [13; 10] \/ (eol = [] /\ rest = [])) ->
    len (bline b last pad) + 2 <= maxline ->
    ~ occurs (10 :: dashb b) (10 :: c) ->
    limit_ok limit (len c) ->
    P s ->
    rem s = c ++ [13; 10] ++ bline b last pad ++ eol ++ rest ->
    len (rem s) < Z.of_nat fuel ->
    exists pieces s',
      rlob St rl maxline fuel (dashb b) (dashb b ++ [45; 45]) limit
           [] [] true 0 s
        = RDone pieces (if last then 1 else 0)
                (len c + 2 + len (bline b last pad) + len eol) s' /\
      List.concat pieces = c /\ rem s' = rest /\ P s'.
Proof.
  intros St rl rem L P G maxline b last pad c eol rest limit s fuel
         HL Hb Hpad Heol Hmax Hocc Hlim Hs Hrem Hf.
  exact (rlob_exact_sec St rl rem L P G maxline HL b last pad c eol rest limit
           Hb Hpad Heol Hmax Hocc Hlim s fuel Hs Hrem Hf).
Qed.

(* ------------------------------------------------------------------ *)
(* the two readers satisfy the contract *)

Definition idb (s : bytes) : bytes := s.
Definition any_lim (k : Z) : Prop := True.
Definition any_state (s : bytes) : Prop := True.

Lemma lf_line_cons k x r :
  lf_line k (x :: r) =
  if k =? 0 then ([], x :: r)
  else if x =? 10 then ([x], r)
  else (x :: fst (lf_line (k - 1) r), snd (lf_line (k - 1) r)).
Proof.
  cbn [lf_line]. destruct (k =? 0); [reflexivity|].
  destruct (x =? 10); [reflexivity|].
  destruct (lf_line (k - 1) r). reflexivity.
Qed.

Lemma lf_concat : forall s k, fst (lf_line k s) ++ snd (lf_line k s) = s.
Proof.
  induction s as [|x r IH]; intros k; [reflexivity|].
  rewrite lf_line_cons. destruct (k =? 0); [reflexivity|].
  destruct (x =? 10); [reflexivity|]. cbn [fst snd app]. rewrite IH.
  reflexivity.
Qed.

Lemma lf_progress : forall s k, k <> 0 -> s <> [] -> fst (lf_line k s) <> [].
Proof.
  intros [|x r] k Hk Hs; [congruence|]. rewrite lf_line_cons.
  replace (k =? 0) with false by (symmetry; apply Z.eqb_neq; exact Hk).
  destruct (x =? 10); discriminate.
Qed.

(* a piece has no LF except possibly as its last byte *)
Lemma lf_shape : forall s k,
  ~ In 10 (fst (lf_line k s)) \/
  exists x, fst (lf_line k s) = x ++ [10] /\ ~ In 10 x.
Proof.
  induction s as [|x r IH]; intros k.
  - left. intros [].
  - rewrite lf_line_cons. destruct (k =? 0); [left; intros []|].
    destruct (x =? 10) eqn:E.
    + apply Z.eqb_eq in E. subst x. right. exists []. split; [reflexivity|].
      intros [].
    + apply Z.eqb_neq in E. cbn [fst]. destruct (IH (k - 1)) as [H | [y [H1 H2]]].
      * left. intros [Hi|Hi]; [congruence | exact (H Hi)].
      * right. exists (x :: y). rewrite H1. split; [reflexivity|].
        intros [Hi|Hi]; [congruence | exact (H2 Hi)].
Qed.

Lemma lf_no_inner_crlf s k : no_inner_crlf (fst (lf_line k s)).
Proof.
  intros x y H. destruct (lf_shape s k) as [Hn | [z [Hz Hn]]].
  - exfalso. apply Hn. rewrite H. apply in_or_app. right. right. left.
    reflexivity.
  - rewrite Hz in H.
    destruct y as [|e y]; [reflexivity|]. exfalso.
    destruct (@exists_last _ (e :: y)) as (y' & e' & Hy); [discriminate|].
    rewrite Hy in H.
    replace (x ++ [13; 10] ++ y' ++ [e']) with ((x ++ [13; 10] ++ y') ++ [e'])
      in H by (lnorm; reflexivity).
    apply app_inj_tail in H as [H _]. apply Hn. rewrite H.
    apply in_or_app. right. right. left. reflexivity.
Qed.

Lemma ends_lf_cons x l : ends_lf l -> ends_lf (x :: l).
Proof. intros [z ->]. exists (x :: z). reflexivity. Qed.

Lemma lf_full : forall s k, ~ ends_lf (fst (lf_line k s)) ->
  0 <= k <= len (fst (lf_line k s)) \/ snd (lf_line k s) = [].
Proof.
  induction s as [|x r IH]; intros k; [right; reflexivity|].
  rewrite lf_line_cons. destruct (k =? 0) eqn:E0.
  - apply Z.eqb_eq in E0. subst k. intros _. left. unfold len. cbn [fst List.length]. lia.
  - apply Z.eqb_neq in E0. destruct (x =? 10) eqn:E.
    + apply Z.eqb_eq in E. subst x. intros H. exfalso. apply H. exists [].
      reflexivity.
    + cbn [fst snd]. intros H.
      destruct (IH (k - 1)) as [Hk | Hk].
      * intros He. apply H. apply ends_lf_cons. exact He.
      * left. rewrite len_cons. lia.
      * right. exact Hk.
Qed.

Theorem lf_reader_good : good_reader bytes lf_line idb any_lim any_state.
Proof.
  split; unfold idb.
  - intros; exact I.
  - intros lim s _ _. apply lf_concat.
  - intros lim s _ _ Hk Hs. apply lf_progress; assumption.
  - intros lim s _ _. apply lf_no_inner_crlf.
  - intros lim s _ _. apply lf_full.
  - intros lim lim' s _ _ _ Hk _ [t Ht]. rewrite Ht, lf_line_cons.
    replace (lim' =? 0) with false by (symmetry; apply Z.eqb_neq; exact Hk).
    reflexivity.
Qed.

(* ---- the CRLF-splitting reader *)
Lemma crlf_line_cons k x r :
  crlf_line k (x :: r) =
  if k =? 0 then ([], x :: r)
  else match r with
       | y :: r' =>
           if (x =? 13) && (y =? 10) && negb (k =? 1) then ([x; y], r')
           else (x :: fst (crlf_line (k - 1) r), snd (crlf_line (k - 1) r))
       | [] => ([x], [])
       end.
Proof.
  cbn [crlf_line]. destruct (k =? 0); [reflexivity|].
  destruct r as [|y r']; [reflexivity|].
  destruct ((x =? 13) && (y =? 10) && negb (k =? 1)); [reflexivity|].
  destruct (crlf_line (k - 1) (y :: r')). reflexivity.
Qed.

Lemma crlf_concat : forall s k, fst (crlf_line k s) ++ snd (crlf_line k s) = s.
Proof.
  induction s as [|x r IH]; intros k; [reflexivity|].
  rewrite crlf_line_cons. destruct (k =? 0); [reflexivity|].
  destruct r as [|y r']; [reflexivity|].
  destruct ((x =? 13) && (y =? 10) && negb (k =? 1)) eqn:E.
  - reflexivity.
  - cbn [fst snd app]. rewrite IH. reflexivity.
Qed.

Lemma crlf_progress : forall s k, k <> 0 -> s <> [] -> fst (crlf_line k s) <> [].
Proof.
  intros [|x r] k Hk Hs; [congruence|]. rewrite crlf_line_cons.
  replace (k =? 0) with false by (symmetry; apply Z.eqb_neq; exact Hk).
  destruct r as [|y r']; [discriminate|].
  destruct ((x =? 13) && (y =? 10) && negb (k =? 1)); discriminate.
Qed.

Lemma crlf_head k y r :
  fst (crlf_line k (y :: r)) = [] \/ exists t, fst (crlf_line k (y :: r)) = y :: t.
Proof.
  rewrite crlf_line_cons. destruct (k =? 0); [left; reflexivity|].
  destruct r as [|y' r']; [right; exists []; reflexivity|].
  destruct ((y =? 13) && (y' =? 10) && negb (k =? 1)); right; eexists;
    reflexivity.
Qed.

Lemma crlf_no_inner_crlf : forall s k, no_inner_crlf (fst (crlf_line k s)).
Proof.
  induction s as [|x r IH]; intros k x0 y0 H.
  - destruct x0; discriminate.
  - rewrite crlf_line_cons in H. destruct (k =? 0) eqn:E0.
    { destruct x0; discriminate. }
    apply Z.eqb_neq in E0.
    destruct r as [|y r'].
    { destruct x0 as [|? [|? ?]]; discriminate. }
    destruct ((x =? 13) && (y =? 10) && negb (k =? 1)) eqn:E.
    + cbn [fst] in H. destruct x0 as [|a [|a' x0]].
      * cbn [app] in H. injection H as _ _ H. symmetry. exact H.
      * cbn [app] in H. injection H as _ _ H. discriminate.
      * cbn [app] in H. injection H as _ _ H. destruct x0; discriminate.
    + remember (crlf_line (k - 1) (y :: r')) as rec eqn:Erec.
      cbn [fst] in H. destruct x0 as [|a x0].
      * cbn [app] in H. injection H as Hx H.
        exfalso. subst x. subst rec.
        destruct (crlf_head (k - 1) y r') as [Hh | [t Hh]]; rewrite Hh in H;
          [discriminate|].
        injection H as Hy _. subst y.
        assert (Hk1 : k <> 1).
        { intros ->. change (1 - 1) with 0 in Hh. cbn in Hh. discriminate. }
        replace (k =? 1) with false in E by (symmetry; apply Z.eqb_neq; exact Hk1).
        discriminate.
      * cbn [app] in H. injection H as _ H. subst rec.
        apply (IH (k - 1) x0 y0). exact H.
Qed.

Lemma crlf_full : forall s k, ~ ends_lf (fst (crlf_line k s)) ->
  0 <= k <= len (fst (crlf_line k s)) \/ snd (crlf_line k s) = [].
Proof.
  induction s as [|x r IH]; intros k; [right; reflexivity|].
  rewrite crlf_line_cons. destruct (k =? 0) eqn:E0.
  - apply Z.eqb_eq in E0. subst k. intros _. left. unfold len.
    cbn [fst List.length]. lia.
  - apply Z.eqb_neq in E0. destruct r as [|y r']; [right; reflexivity|].
    destruct ((x =? 13) && (y =? 10) && negb (k =? 1)) eqn:E.
    + intros H. exfalso. apply H. cbn [fst].
      apply andb_true_iff in E as [E _]. apply andb_true_iff in E as [_ E].
      apply Z.eqb_eq in E. subst y. exists [x]. reflexivity.
    + cbn [fst snd]. intros H. destruct (IH (k - 1)) as [Hk | Hk].
      * intros He. apply H. apply ends_lf_cons. exact He.
      * left. rewrite len_cons. lia.
      * right. exact Hk.
Qed.

(* the reader separates a CR from the LF behind it *)
Definition divided (k : Z) (t : bytes) : Prop :=
  (exists z, fst (crlf_line k t) = z ++ [13]) /\
  (exists u, snd (crlf_line k t) = 10 :: u).

(* that happens only at a size cut *)
Lemma divided_cut : forall s k, divided k s -> len (fst (crlf_line k s)) = k.
Proof.
  induction s as [|x r IH]; intros k [[z Hz] [u Hu]].
  - destruct z; discriminate.
  - rewrite crlf_line_cons in *. destruct (k =? 0) eqn:E0.
    { destruct z; discriminate. }
    apply Z.eqb_neq in E0. destruct r as [|y r']; [discriminate|].
    destruct ((x =? 13) && (y =? 10) && negb (k =? 1)) eqn:E.
    + apply andb_true_iff in E as [E _]. apply andb_true_iff in E as [_ E].
      apply Z.eqb_eq in E. subst y. cbn [fst] in Hz.
      destruct z as [|a [|a' z]]; cbn [app] in Hz; try discriminate.
      destruct z; discriminate.
    + cbn [fst snd] in *. rewrite len_cons.
      destruct (fst (crlf_line (k - 1) (y :: r'))) as [|e l'] eqn:El.
      * assert (k - 1 = 0).
        { destruct (Z.eq_dec (k - 1) 0) as [H0|H0]; [exact H0|].
          exfalso. apply (crlf_progress (y :: r') (k - 1) H0); [discriminate|].
          exact El. }
        rewrite len_nil. lia.
      * destruct z as [|a z]; [discriminate|]. cbn [app] in Hz.
        injection Hz as _ Hz.
        rewrite <- El in Hz. rewrite <- El.
        rewrite (IH (k - 1)); [lia|]. split; [exists z; exact Hz | exists u; exact Hu].
Qed.

Definition suffix (t s : bytes) : Prop := exists p, s = p ++ t.
Definition crlf_lims (maxline : Z) (k : Z) : Prop := k = -1 \/ k = maxline.
(* the CRLF reader never separates a CR from its LF on the rest of s *)
Definition crlf_safe (maxline : Z) (s : bytes) : Prop :=
  forall t, suffix t s -> ~ divided maxline t.

Lemma crlf_safe_short maxline s : len s <= maxline -> crlf_safe maxline s.
Proof.
  intros H t [p ->] Hd. pose proof (divided_cut t maxline Hd) as Hc.
  destruct Hd as [_ [u Hu]].
  pose proof (crlf_concat t maxline) as Hcat. rewrite Hu in Hcat.
  rewrite len_app in H. rewrite <- Hcat, len_app, len_cons in H.
  pose proof (len_nonneg p). pose proof (len_nonneg u). lia.
Qed.

Theorem crlf_reader_good maxline :
  good_reader bytes crlf_line idb (crlf_lims maxline) (crlf_safe maxline).
Proof.
  split; unfold idb.
  - intros lim s _ Hs t [p Hp]. apply Hs.
    exists (fst (crlf_line lim s) ++ p).
    rewrite <- (crlf_concat s lim) at 1. rewrite Hp. lnorm. reflexivity.
  - intros lim s _ _. apply crlf_concat.
  - intros lim s _ _ Hk Hs. apply crlf_progress; assumption.
  - intros lim s _ _. apply crlf_no_inner_crlf.
  - intros lim s _ _. apply crlf_full.
  - intros lim lim' s Hl _ Hs _ Hz Hu. exfalso.
    destruct Hl as [-> | ->].
    + pose proof (divided_cut s (-1) (conj Hz Hu)) as Hc.
      pose proof (len_nonneg (fst (crlf_line (-1) s))). lia.
    + apply (Hs s); [exists []; reflexivity | split; assumption].
Qed.
