(* The hand model of read_lines_to_outerboundary (model/Multipart.v: rlob,
   rlob_step, carry, boundary_hit, split_end, limit_hit) and of _write (the
   file model [fstate]/[mwrite] below, tied to the model's spilled/f_bytes/
   f_text) equal the definitions generated from the current
   poorwsgi/fieldstorage.py (gen/MultipartGen.v) over the Python semantics of
   lib/Py.v and lib/PyMultipart.v. *)
From Coq Require Import String.
From Coq Require Import ZArith List Bool Lia.
Require Import PW.lib.Val PW.lib.ValFacts PW.lib.Py PW.lib.PyMultipart.
Require Import PW.model.Multipart PW.proofs.MultipartProofs PW.gen.MultipartGen.
Import ListNotations.
Open Scope list_scope.
Open Scope Z_scope.

(* ------------------------------------------------------------------ *)
(* encodings *)

(* self.filename: None or a str *)
Definition inj_name (o : option (list Z)) : pv :=
  match o with Some n => PStr n | None => PNone end.
(* self.limit: None or an int *)
Definition inj_lim (o : option Z) : pv :=
  match o with Some L => PInt L | None => PNone end.
(* self.filename is truthy *)
Definition named (o : option (list Z)) : bool :=
  match o with Some (_ :: _) => true | _ => false end.

Lemma truthy_name o : Py.truthy (inj_name o) = named o.
Proof. destruct o as [[|c n]|]; reflexivity. Qed.

Lemma named_is_file f : named (f_filename f) = is_file f.
Proof. reflexivity. Qed.

(* ------------------------------------------------------------------ *)
(* the file model: what _write does to the object read_lines created *)

Section Files.
  Variable D : list Z -> list Z.            (* bytes.decode(encoding, errors) *)
  Variable fn : option (list Z).            (* self.filename *)
  Variables cb enc errs : pv.               (* file_callback, encoding, errors *)

  Definition isfile : bool := named fn.
  (* the part goes through the file factory *)
  Definition prod : bool := isfile && Py.truthy cb.

  (* what one piece becomes when written *)
  Definition item (p : bytes) : pv := if isfile then PBytes p else PStr (D p).
  Definition item_size (p : bytes) : Z := if isfile then len p else len (D p).
  Definition tell_of (ps : list bytes) : Z :=
    fold_right (fun p a => item_size p + a) 0 ps.
  Definition whole (ps : list bytes) : pv :=
    if isfile then PBytes (List.concat ps)
    else PStr (List.concat (map D ps)).

  Definition memctor : pv :=
    PTuple [PStr (if isfile then s2l "BytesIO" else s2l "StringIO")].
  Definition tmpctor : pv :=
    if isfile then PTuple [PStr (s2l "TemporaryFile"); PStr (s2l "wb+")]
    else PTuple [PStr (s2l "TemporaryFile"); PStr (s2l "w+"); enc; PStr [10]].
  Definition prodctor : pv := PTuple [PStr (s2l "Product"); inj_name fn].

  Inductive fstate :=
    | FMem (ps : list bytes)        (* the parser's own BytesIO / StringIO *)
    | FTmp (ps0 ps : list bytes)    (* spilled when it held ps0 *)
    | FProd (ps : list bytes).      (* product of the file factory *)

  Definition inj_file (st : fstate) : pv :=
    match st with
    | FMem ps => PTuple [memctor; PList (map item ps)]
    | FTmp ps0 ps => PTuple [tmpctor; PList (whole ps0 :: map item ps)]
    | FProd ps => PTuple [prodctor; PList (map item ps)]
    end.

  (* _write(piece, file) *)
  Definition mwrite (st : fstate) (p : bytes) : fstate :=
    match st with
    | FMem ps => if BUFSIZE <? tell_of ps + len p then FTmp ps [p]
                 else FMem (ps ++ [p])
    | FTmp ps0 ps => FTmp ps0 (ps ++ [p])
    | FProd ps => FProd (ps ++ [p])
    end.

  (* the object matches the configuration, as read_lines guarantees *)
  Definition wf (st : fstate) : Prop :=
    match st with FProd _ => prod = true | _ => prod = false end.
  (* read_lines: make_file() if filename and file_callback, else a fresh
     BytesIO / StringIO *)
  Definition start : fstate := if prod then FProd [] else FMem [].

  Lemma wf_start : wf start.
  Proof. unfold start, wf. destruct prod eqn:E; exact E || reflexivity. Qed.
  Lemma wf_mwrite st p : wf st -> wf (mwrite st p).
  Proof.
    destruct st; cbn [mwrite wf]; auto.
    destruct (BUFSIZE <? tell_of ps + len p); auto.
  Qed.

  Lemma sum_len_items ps : sum_len (map item ps) = Some (tell_of ps).
  Proof.
    induction ps as [|p ps IH]; [reflexivity|].
    cbn [map sum_len tell_of fold_right]. fold (tell_of ps). rewrite IH.
    unfold item, item_size, len. destruct isfile; reflexivity.
  Qed.

  Lemma cat_items_mem ps :
    cat_items isfile (map item ps)
    = Some (if isfile then List.concat ps else List.concat (map D ps)).
  Proof.
    induction ps as [|p ps IH]; [destruct isfile; reflexivity|].
    cbn [map cat_items]. rewrite IH. unfold item.
    destruct isfile; reflexivity.
  Qed.

  Lemma make_file_noprod :
    prod = false ->
    gen_make_file (inj_name fn) cb enc = Py.Ok (pnewfile tmpctor).
  Proof.
    unfold prod, gen_make_file, tmpctor, isfile. rewrite !truthy_name.
    destruct (named fn); cbn [andb]; intros H; [rewrite H|]; reflexivity.
  Qed.

  Lemma bind_ret (r : res pv) : (x <- r ;; Py.Ok x) = r.
  Proof. destruct r; reflexivity. Qed.

  Definition append (st : fstate) (p : bytes) : fstate :=
    match st with
    | FMem ps => FMem (ps ++ [p])
    | FTmp ps0 ps => FTmp ps0 (ps ++ [p])
    | FProd ps => FProd (ps ++ [p])
    end.

  Lemma ptell_mem ps : ptell (inj_file (FMem ps)) = Py.Ok (PInt (tell_of ps)).
  Proof.
    unfold ptell, inj_file, memctor. rewrite sum_len_items. reflexivity.
  Qed.

  Lemma pgetvalue_mem ps : pgetvalue (inj_file (FMem ps)) = Py.Ok (whole ps).
  Proof.
    unfold pgetvalue, inj_file, memctor, whole.
    pose proof (cat_items_mem ps) as Hc. destruct isfile.
    - change (lz_eqb (s2l "BytesIO") (s2l "BytesIO")) with true. cbv iota.
      rewrite Hc. reflexivity.
    - change (lz_eqb (s2l "StringIO") (s2l "BytesIO")) with false.
      change (lz_eqb (s2l "StringIO") (s2l "StringIO")) with true. cbv iota.
      rewrite Hc. reflexivity.
  Qed.

  Lemma pwrite_item st p :
    pwrite (inj_file st) (item p) = Py.Ok (inj_file (append st p)).
  Proof.
    destruct st as [ps | ps0 ps | ps];
      unfold inj_file, append, pwrite, file_binary, memctor, tmpctor, prodctor,
        item; rewrite map_app; destruct isfile; reflexivity.
  Qed.

  Lemma pwrite_tmp_whole ps :
    pwrite (pnewfile tmpctor) (whole ps)
    = Py.Ok (PTuple [tmpctor; PList [whole ps]]).
  Proof.
    unfold pwrite, pnewfile, file_binary, tmpctor, whole.
    destruct isfile; reflexivity.
  Qed.

  (* the last four lines of _write *)
  Lemma write_tail f p :
    (if named fn
     then (x <- pwrite f (PBytes p) ;; Py.Ok x)
     else (t <- pdecode D (PBytes p) enc errs ;;
           x <- pwrite f t ;; Py.Ok x))
    = pwrite f (item p).
  Proof.
    unfold item, isfile. destruct (named fn); cbn [pdecode bind];
      apply bind_ret.
  Qed.

  (* generated _write = the file model *)
  Theorem gen_write_eq st p :
    wf st ->
    gen_write D (inj_name fn) cb enc errs (PBytes p) (inj_file st)
    = Py.Ok (inj_file (mwrite st p)).
  Proof.
    intros Hwf. unfold gen_write.
    cbn [pmul arith as_int bind]. rewrite !truthy_name.
    destruct st as [ps | ps0 ps | ps]; cbn [wf] in Hwf.
    - (* own buffer *)
      match goal with |- context [pisinstance ?f ?n] =>
        assert (Hi : pisinstance f n = Py.Ok (PBool true))
          by (unfold pisinstance, inj_file, memctor, file_cls;
              destruct isfile; reflexivity);
        rewrite Hi end.
      cbn [bind Py.truthy].
      cbn [mwrite].
      destruct (named fn) eqn:En; cbn [pnot bind Py.truthy];
        [ unfold prod, isfile in Hwf; rewrite En in Hwf; cbn [andb] in Hwf;
          rewrite Hwf
        | rewrite truthy_name, En ];
        cbn [negb Py.truthy]; rewrite ptell_mem;
        cbn [bind plen padd arith as_int pgt pcmp Py.truthy];
        fold (len p); rewrite Z.gtb_ltb; change (8 * 1024) with BUFSIZE;
        (destruct (BUFSIZE <? tell_of ps + len p); cbn [Py.truthy];
         [ rewrite make_file_noprod by
             (unfold prod, isfile; rewrite En; try rewrite Hwf; reflexivity);
           cbn [bind]; rewrite pgetvalue_mem; cbn [bind];
           rewrite pwrite_tmp_whole; cbn [bind];
           pose proof (write_tail (PTuple [tmpctor; PList [whole ps]]) p) as Ht;
           rewrite En in Ht; rewrite Ht;
           change (PTuple [tmpctor; PList [whole ps]])
             with (inj_file (FTmp ps [])); rewrite pwrite_item; reflexivity
         | pose proof (write_tail (inj_file (FMem ps)) p) as Ht;
           rewrite En in Ht; rewrite Ht, pwrite_item; reflexivity ]).
    - (* temporary file *)
      match goal with |- context [pisinstance ?f ?n] =>
        assert (Hi : pisinstance f n = Py.Ok (PBool false))
          by (unfold pisinstance, inj_file, tmpctor, file_cls;
              destruct isfile; reflexivity);
        rewrite Hi end.
      cbn [bind Py.truthy].
      pose proof (write_tail (inj_file (FTmp ps0 ps)) p) as Ht.
      destruct (named fn); rewrite Ht, pwrite_item; reflexivity.
    - (* factory product *)
      match goal with |- context [pisinstance ?f ?n] =>
        assert (Hi : pisinstance f n = Py.Ok (PBool false)) by reflexivity;
        rewrite Hi end.
      cbn [bind Py.truthy].
      pose proof (write_tail (inj_file (FProd ps)) p) as Ht.
      destruct (named fn); rewrite Ht, pwrite_item; reflexivity.
  Qed.
End Files.

(* ---- the file model against the model's f_pieces / spilled / in_memory *)
Section FileModel.
  Variable fn : option (list Z).
  Variable cb : pv.
  Let D := utf8_decode.

  Definition contents (st : fstate) : list bytes :=
    match st with FMem ps => ps | FTmp ps0 ps => ps0 ++ ps | FProd ps => ps end.
  Definition in_mem (st : fstate) : bool :=
    match st with FMem _ => true | _ => false end.

  Lemma contents_mwrite st p :
    contents (mwrite D fn st p) = contents st ++ [p].
  Proof.
    destruct st; cbn [mwrite contents]; try reflexivity.
    - destruct (BUFSIZE <? tell_of D fn ps + len p); reflexivity.
    - rewrite app_assoc. reflexivity.
  Qed.

  Lemma contents_fold ps : forall st,
    contents (fold_left (mwrite D fn) ps st) = contents st ++ ps.
  Proof.
    induction ps as [|p ps IH]; intros st; cbn [fold_left].
    - rewrite app_nil_r. reflexivity.
    - rewrite IH, contents_mwrite, <- app_assoc. reflexivity.
  Qed.

  Lemma tell_of_snoc ps p :
    tell_of D fn (ps ++ [p]) = tell_of D fn ps + item_size D fn p.
  Proof.
    induction ps as [|q ps IH]; cbn [app tell_of fold_right].
    - lia.
    - fold (tell_of D fn (ps ++ [p])). fold (tell_of D fn ps). rewrite IH. lia.
  Qed.

  Lemma in_mem_fold_tmp ps : forall ps0 ps1,
    in_mem (fold_left (mwrite D fn) ps (FTmp ps0 ps1)) = false.
  Proof.
    induction ps as [|p ps IH]; intros ps0 ps1; [reflexivity|].
    cbn [fold_left mwrite]. apply IH.
  Qed.

  Lemma in_mem_fold_prod ps : forall ps1,
    in_mem (fold_left (mwrite D fn) ps (FProd ps1)) = false.
  Proof.
    induction ps as [|p ps IH]; intros ps1; [reflexivity|].
    cbn [fold_left mwrite]. apply IH.
  Qed.

  Lemma in_mem_fold_mem ps : forall ps0,
    in_mem (fold_left (mwrite D fn) ps (FMem ps0))
    = negb (spilled (isfile fn) (tell_of D fn ps0) ps).
  Proof.
    induction ps as [|p ps IH]; intros ps0; [reflexivity|].
    cbn [fold_left mwrite spilled].
    destruct (BUFSIZE <? tell_of D fn ps0 + len p).
    - rewrite in_mem_fold_tmp. reflexivity.
    - rewrite IH, tell_of_snoc. unfold item_size, D. cbn [orb]. reflexivity.
  Qed.

  (* writing the pieces of a field one by one into what read_lines created
     leaves a file that holds exactly the pieces and is in memory exactly
     when the model says so *)
  Theorem write_fold_is_model (f : field) :
    f_filename f = fn ->
    let st := fold_left (mwrite D fn) (f_pieces f) (start fn cb) in
    contents st = f_pieces f /\ in_mem st = in_memory (Py.truthy cb) f.
  Proof.
    intros Hf. cbv zeta. split.
    - rewrite contents_fold. unfold start. destruct (prod fn cb); reflexivity.
    - unfold in_memory, start, prod, isfile. rewrite <- named_is_file, Hf.
      destruct (named fn) eqn:En; cbn [andb].
      + destruct (Py.truthy cb); cbn [negb andb].
        * apply in_mem_fold_prod.
        * rewrite in_mem_fold_mem. unfold isfile. rewrite En. reflexivity.
      + rewrite in_mem_fold_mem. unfold isfile. rewrite En. reflexivity.
  Qed.
End FileModel.

(* ------------------------------------------------------------------ *)
(* Python operations on bytes against the model's list functions *)

Lemma plen_bytes b : plen (PBytes b) = Py.Ok (PInt (len b)).
Proof. reflexivity. Qed.

Lemma truthy_bytes b : Py.truthy (PBytes b) = negb (is_nil b).
Proof. destruct b; reflexivity. Qed.

Lemma lstrip_ws_eq s : lstrip_ws s = lstrip_by is_ws s.
Proof.
  induction s as [|c s IH]; [reflexivity|].
  cbn [lstrip_ws lstrip_by]. unfold ws_byte, is_ws in *.
  destruct ((c =? 32) || ((9 <=? c) && (c <=? 13))); [exact IH | reflexivity].
Qed.

Lemma prstrip_eq b : prstrip (PBytes b) = Py.Ok (PBytes (rstrip b)).
Proof.
  unfold prstrip, rstrip. rewrite rstrip_by_rev, lstrip_ws_eq. reflexivity.
Qed.

Lemma slice_bounds (l : list Z) : 0 <= Z.of_nat (List.length l).
Proof. lia. Qed.

(* b[:k] for 0 <= k *)
Lemma pslice_head b k : 0 <= k ->
  pslice (PBytes b) PNone (PInt k) = Py.Ok (PBytes (firstn (Z.to_nat k) b)).
Proof.
  intros Hk. unfold pslice, slice_list. cbn [as_int bind]. unfold Py.norm_idx.
  change (0 <? 0) with false.
  replace (k <? 0) with false by (symmetry; apply Z.ltb_ge; lia).
  pose proof (slice_bounds b).
  rewrite (Z.min_l 0) by lia. cbn [Z.to_nat skipn]. rewrite Z.sub_0_r.
  f_equal. f_equal.
  destruct (Z_le_gt_dec k (Z.of_nat (List.length b))).
  - rewrite Z.min_l by lia. reflexivity.
  - rewrite Z.min_r by lia. rewrite Nat2Z.id, firstn_all, firstn_all2 by lia.
    reflexivity.
Qed.

(* b[k:] for 0 <= k *)
Lemma pslice_tail b k : 0 <= k ->
  pslice (PBytes b) (PInt k) PNone = Py.Ok (PBytes (skipn (Z.to_nat k) b)).
Proof.
  intros Hk. unfold pslice, slice_list. cbn [as_int bind]. unfold Py.norm_idx.
  replace (k <? 0) with false by (symmetry; apply Z.ltb_ge; lia).
  pose proof (slice_bounds b) as Hn.
  replace (Z.of_nat (List.length b) <? 0) with false
    by (symmetry; apply Z.ltb_ge; lia).
  rewrite Z.min_id. f_equal. f_equal.
  destruct (Z_le_gt_dec k (Z.of_nat (List.length b))).
  - rewrite Z.min_l by lia. apply firstn_all2. rewrite skipn_length. lia.
  - rewrite Z.min_r by lia. rewrite Nat2Z.id, skipn_all, skipn_all2 by lia.
    apply firstn_nil.
Qed.

(* b[-k:] and b[:-k] for 0 < k: the last k bytes / all but the last k *)
Definition lastn (k : nat) (b : list Z) : list Z :=
  skipn (List.length b - k) b.
Definition butlastn (k : nat) (b : list Z) : list Z :=
  firstn (List.length b - k) b.

Lemma pslice_last b k : 0 < k ->
  pslice (PBytes b) (PInt (- k)) PNone = Py.Ok (PBytes (lastn (Z.to_nat k) b)).
Proof.
  intros Hk. unfold pslice, slice_list, lastn. cbn [as_int bind].
  unfold Py.norm_idx.
  replace (- k <? 0) with true by (symmetry; apply Z.ltb_lt; lia).
  pose proof (slice_bounds b) as Hn.
  replace (Z.of_nat (List.length b) <? 0) with false
    by (symmetry; apply Z.ltb_ge; lia).
  rewrite Z.min_id. f_equal. f_equal.
  replace (Z.to_nat (Z.max 0 (- k + Z.of_nat (List.length b))))
    with (List.length b - Z.to_nat k)%nat by lia.
  apply firstn_all2. rewrite skipn_length. lia.
Qed.

Lemma pslice_butlast b k : 0 < k ->
  pslice (PBytes b) PNone (PInt (- k))
  = Py.Ok (PBytes (butlastn (Z.to_nat k) b)).
Proof.
  intros Hk. unfold pslice, slice_list, butlastn. cbn [as_int bind].
  unfold Py.norm_idx. change (0 <? 0) with false.
  replace (- k <? 0) with true by (symmetry; apply Z.ltb_lt; lia).
  pose proof (slice_bounds b) as Hn.
  rewrite (Z.min_l 0) by lia. cbn [Z.to_nat skipn]. rewrite Z.sub_0_r.
  f_equal. f_equal. f_equal. lia.
Qed.

Lemma lastn_app k x y : List.length y = k -> lastn k (x ++ y) = y.
Proof.
  intros H. unfold lastn. rewrite app_length, H.
  replace (List.length x + k - k)%nat with (List.length x + 0)%nat by lia.
  rewrite skipn_app, Nat.add_0_r, skipn_all.
  replace (List.length x - List.length x)%nat with 0%nat by lia. reflexivity.
Qed.
Lemma butlastn_app k x y : List.length y = k -> butlastn k (x ++ y) = x.
Proof.
  intros H. unfold butlastn. rewrite app_length, H.
  replace (List.length x + k - k)%nat with (List.length x + 0)%nat by lia.
  rewrite firstn_app, Nat.add_0_r, firstn_all.
  replace (List.length x - List.length x)%nat with 0%nat by lia.
  cbn [firstn]. apply app_nil_r.
Qed.
Lemma lastn_short k b : (List.length b <= k)%nat -> lastn k b = b.
Proof.
  intros H. unfold lastn. replace (List.length b - k)%nat with 0%nat by lia.
  reflexivity.
Qed.

(* line.startswith(b"--") as the translator writes it *)
Lemma starts_dashes l : lz_eqb (firstn 2 l) [45; 45] = prefixb [45; 45] l.
Proof.
  destruct l as [|x [|y r]]; cbn [firstn lz_eqb prefixb]; try reflexivity.
  - rewrite !andb_false_r. reflexivity.
  - rewrite (Z.eqb_sym x 45), (Z.eqb_sym y 45). reflexivity.
Qed.

(* the endswith chain as the translator writes it *)
Definition chain (line : bytes) : bytes * bytes * bool :=
  if lz_eqb (lastn 2 line) [13; 10] then (butlastn 2 line, [13; 10], true)
  else if lz_eqb (lastn 1 line) [10] then (butlastn 1 line, [10], true)
  else if lz_eqb (lastn 1 line) [13] then (butlastn 1 line, [13], false)
  else (line, [], false).

Lemma lz_eqb_2 x y a b : lz_eqb [x; y] [a; b] = (x =? a) && (y =? b).
Proof. cbn [lz_eqb]. rewrite andb_true_r. reflexivity. Qed.
Lemma lz_eqb_1 x a : lz_eqb [x] [a] = (x =? a).
Proof. cbn [lz_eqb]. apply andb_true_r. Qed.

Lemma chain_split_end line : chain line = split_end line.
Proof.
  unfold chain, split_end. rewrite rv_rev.
  assert (Hl : line = rev (rev line)) by (rewrite rev_involutive; reflexivity).
  destruct (rev line) as [|x [|y r]] eqn:E; cbn [rev app] in Hl.
  - subst line. reflexivity.
  - subst line. rewrite (lastn_short 2 [x]) by (cbn; lia).
    replace (lz_eqb [x] [13; 10]) with false
      by (cbn [lz_eqb]; symmetry; apply andb_false_r).
    rewrite (lastn_short 1 [x]) by (cbn; lia). rewrite !lz_eqb_1.
    change (butlastn 1 [x]) with (@nil Z).
    destruct (x =? 10); [reflexivity|]. destruct (x =? 13); reflexivity.
  - rewrite <- app_assoc in Hl. cbn [app] in Hl.
    assert (H3 : lastn 2 line = [y; x])
      by (rewrite Hl; apply lastn_app; reflexivity).
    assert (H4 : butlastn 2 line = rev r)
      by (rewrite Hl; apply butlastn_app; reflexivity).
    rewrite H3, H4, lz_eqb_2.
    assert (H1 : lastn 1 line = [x]).
    { rewrite Hl. change (rev r ++ [y; x]) with (rev r ++ [y] ++ [x]).
      rewrite app_assoc. apply lastn_app. reflexivity. }
    assert (H2 : butlastn 1 line = rev r ++ [y]).
    { rewrite Hl. change (rev r ++ [y; x]) with (rev r ++ [y] ++ [x]).
      rewrite app_assoc. apply butlastn_app. reflexivity. }
    rewrite H1, H2, !lz_eqb_1, !rv_rev. cbn [rev].
    destruct (x =? 10) eqn:E10.
    + destruct (y =? 13); reflexivity.
    + rewrite andb_false_r. destruct (x =? 13); reflexivity.
Qed.

(* the model's loop accumulates the pieces *)
Lemma rlob_acc St rl maxline : forall fuel nb lb limit pieces delim lfend nread s,
  rlob St rl maxline fuel nb lb limit pieces delim lfend nread s =
  match rlob St rl maxline fuel nb lb limit [] delim lfend nread s with
  | RDone ps d n s' => RDone (pieces ++ ps) d n s'
  | RFuel => RFuel
  end.
Proof.
  induction fuel as [|f IH]; intros nb lb limit pieces delim lfend nread s;
    [reflexivity|].
  cbn [rlob]. destruct (limit_hit limit nread);
    [rewrite app_nil_r; reflexivity|].
  destruct (rl maxline s) as [line0 s1].
  destruct (is_nil line0); [rewrite app_nil_r; reflexivity|].
  destruct (rlob_step nb lb delim lfend line0) as [d | piece delim' lfend'];
    [rewrite app_nil_r; reflexivity|].
  destruct piece as [p|].
  - rewrite (IH nb lb limit (pieces ++ [p])), (IH nb lb limit ([] ++ [p])).
    destruct (rlob St rl maxline f nb lb limit [] delim' lfend'
                   (nread + len line0) s1); [|reflexivity].
    rewrite <- app_assoc. reflexivity.
  - apply IH.
Qed.

(* ------------------------------------------------------------------ *)
(* the loop *)

Lemma pslice_last2 b :
  pslice (PBytes b) (PInt (-2)) PNone = Py.Ok (PBytes (lastn 2 b)).
Proof. exact (pslice_last b 2 ltac:(lia)). Qed.
Lemma pslice_last1 b :
  pslice (PBytes b) (PInt (-1)) PNone = Py.Ok (PBytes (lastn 1 b)).
Proof. exact (pslice_last b 1 ltac:(lia)). Qed.
Lemma pslice_butlast2 b :
  pslice (PBytes b) PNone (PInt (-2)) = Py.Ok (PBytes (butlastn 2 b)).
Proof. exact (pslice_butlast b 2 ltac:(lia)). Qed.
Lemma pslice_butlast1 b :
  pslice (PBytes b) PNone (PInt (-1)) = Py.Ok (PBytes (butlastn 1 b)).
Proof. exact (pslice_butlast b 1 ltac:(lia)). Qed.
Lemma pslice_head2 b :
  pslice (PBytes b) PNone (PInt 2) = Py.Ok (PBytes (firstn 2 b)).
Proof. exact (pslice_head b 2 ltac:(lia)). Qed.
Lemma pslice_head1 b :
  pslice (PBytes b) PNone (PInt 1) = Py.Ok (PBytes (firstn 1 b)).
Proof. exact (pslice_head b 1 ltac:(lia)). Qed.
Lemma pslice_tail1 b :
  pslice (PBytes b) (PInt 1) PNone = Py.Ok (PBytes (skipn 1 b)).
Proof. exact (pslice_tail b 1 ltac:(lia)). Qed.
Lemma peq_bytes a b : peq (PBytes a) (PBytes b) = Py.Ok (PBool (lz_eqb a b)).
Proof. reflexivity. Qed.

Section Loop.
  Variable St : Type.
  Variable rl : Z -> St -> bytes * St.
  Variable D : list Z -> list Z.
  Variable fn : option (list Z).
  Variables cb enc errs : pv.
  Variable B0 : Z.                       (* self.bytes_read at the call *)
  Variables nb lb ob : bytes.
  Variable limit : option Z.

  (* the model's result as the generated function returns it: the file after
     the writes, self.done, self.bytes_read, and the input object *)
  Definition inj_res (r : rlob_res St) (st : fstate) : res (pv * St) :=
    match r with
    | RDone ps d n s' =>
        Py.Ok (PTuple [inj_file D fn enc (fold_left (mwrite D fn) ps st);
                       PInt d; PInt (B0 + n)], s')
    | RFuel => Err (Py.Raised "OutOfFuel"%string PNone)
    end.

(* the remaining piece of a round: _write, then the next round *)
Ltac write_step IH Hwf Hbr :=
  cbn [bind padd]; rewrite gen_write_eq by exact Hwf; cbn [bind app];
  rewrite rlob_acc;
  (etransitivity;
   [apply IH; [apply wf_mwrite; exact Hwf | rewrite Hbr; lia] |]);
  match goal with
  | |- context [rlob ?a ?b ?c ?d ?e ?f ?g ?h ?i ?j ?k ?l] =>
      destruct (rlob a b c d e f g h i j k l)
  end; reflexivity.

(* the endswith chain *)
Ltac ladder IH Hwf Hbr LN :=
  rewrite <- (chain_split_end LN); unfold chain;
  rewrite pslice_last2; cbn [bind]; rewrite peq_bytes; cbn [bind Py.truthy];
  destruct (lz_eqb (lastn 2 LN) [13; 10]); cbn [Py.truthy];
  [ rewrite pslice_butlast2; write_step IH Hwf Hbr
  | rewrite pslice_last1; cbn [bind]; rewrite peq_bytes; cbn [bind Py.truthy];
    destruct (lz_eqb (lastn 1 LN) [10]); cbn [Py.truthy];
    [ rewrite pslice_butlast1; write_step IH Hwf Hbr
    | rewrite peq_bytes; cbn [bind Py.truthy];
      destruct (lz_eqb (lastn 1 LN) [13]); cbn [Py.truthy];
      [ rewrite pslice_butlast1; write_step IH Hwf Hbr
      | write_step IH Hwf Hbr ] ] ].

(* a break: the result is the current file *)
Ltac leave Hbr :=
  cbn [inj_res fold_left]; rewrite Hbr, <- Z.add_assoc; reflexivity.

(* the comparison with the two delimiter lines *)
Ltac hit IH Hwf Hbr LN :=
  rewrite prstrip_eq; cbn [bind]; rewrite peq_bytes; cbn [bind Py.truthy];
  destruct (lz_eqb (rstrip LN) nb); cbn [Py.truthy];
  [ leave Hbr
  | rewrite peq_bytes; cbn [bind Py.truthy];
    destruct (lz_eqb (rstrip LN) lb); cbn [Py.truthy];
    [ leave Hbr | ladder IH Hwf Hbr LN ] ].

(* the delimiter test, then the chain; LN = the line, LF = last_line_lfend *)
Ltac tail IH Hwf Hbr LN LF :=
  rewrite pslice_head2; cbn [bind]; rewrite peq_bytes; cbn [bind Py.truthy];
  rewrite starts_dashes; unfold boundary_hit;
  destruct (prefixb [45; 45] LN); cbn [Py.truthy andb];
  [ lazymatch LF with
    | true => hit IH Hwf Hbr LN
    | _ => destruct LF; cbn [Py.truthy];
           [ hit IH Hwf Hbr LN | ladder IH Hwf Hbr LN ]
    end
  | ladder IH Hwf Hbr LN ].

(* the block  if delim == b"\r": ...  when delim is a CR *)
Ltac carried_cr IH Hwf Hbr Ed delim c r lfend :=
  apply lz_eqb_eq in Ed; subst delim;
  rewrite pslice_head1; cbn [bind]; rewrite peq_bytes; cbn [firstn bind];
  rewrite lz_eqb_1;
  destruct (c =? 10); cbn [Py.truthy];
  [ rewrite pslice_tail1; cbn [skipn bind];
    rewrite truthy_bytes, negb_involutive;
    let c2 := fresh "c2" in let r2 := fresh "r2" in
    destruct r as [|c2 r2]; cbn [is_nil];
    [ apply IH; [exact Hwf | rewrite Hbr; lia]
    | tail IH Hwf Hbr (c2 :: r2) true ]
  | cbn [padd bind app]; tail IH Hwf Hbr (13 :: c :: r) lfend ].

  Lemma loop_eq : forall fuel delim lfend nread br s st a1 a2 a3,
    wf fn cb st -> br = B0 + nread ->
    gen_read_lines_to_outerboundary_loop_1 St rl D fuel
      (inj_lim limit) (PBytes ob) (inj_name fn) cb enc errs
      (PBytes nb) (PBytes lb) a1 (PInt br) (PInt nread) (PInt 0)
      (PBytes delim) (PBool lfend) a2 a3 (inj_file D fn enc st) s
    = inj_res (rlob St rl 65536 fuel nb lb limit [] delim lfend nread s) st.
  Proof.
    induction fuel as [|fuel IH]; intros delim lfend nread br s st a1 a2 a3
                                         Hwf Hbr; [reflexivity|].
    cbn [gen_read_lines_to_outerboundary_loop_1 rlob Py.truthy Z.eqb negb].
    (* the limit test *)
    assert (Hhit : Py.Ok (PTuple [inj_file D fn enc st; PInt 0; PInt br], s)
                   = inj_res (RDone [] 0 nread s) st).
    { cbn [inj_res fold_left]. rewrite Hbr. reflexivity. }
    destruct limit as [L|];
      cbn [inj_lim pis_not_none bind Py.truthy limit_hit ple pcmp as_int];
      [ destruct (0 <=? L); cbn [Py.truthy andb bind];
        [ destruct (L <=? nread); cbn [Py.truthy]; [exact Hhit|] | ] | ].
    all: clear Hhit.
    (* readline(1 << 16) and the accounting *)
    all: cbn [plshift as_int bind]; change (16 <? 0) with false; cbv iota;
      change (Z.shiftl 1 16) with 65536; unfold preadline; cbn [as_int bind];
      destruct (rl 65536 s) as [l s1]; cbn [bind plen padd arith as_int];
      fold (len l).
    (* end of input *)
    all: destruct l as [|c r]; cbn [pnot Py.truthy negb bind is_nil];
      [ cbn [inj_res fold_left]; rewrite Hbr, <- Z.add_assoc; reflexivity | ].
    (* the carried CR *)
    all: rewrite peq_bytes; cbn [bind Py.truthy]; unfold rlob_step, carry;
      destruct (lz_eqb delim [13]) eqn:Ed.
    all: [> carried_cr IH Hwf Hbr Ed delim c r lfend
           | tail IH Hwf Hbr (c :: r) lfend
           | carried_cr IH Hwf Hbr Ed delim c r lfend
           | tail IH Hwf Hbr (c :: r) lfend
           | carried_cr IH Hwf Hbr Ed delim c r lfend
           | tail IH Hwf Hbr (c :: r) lfend ].
  Qed.
End Loop.

(* generated read_lines_to_outerboundary = the model's rlob, for every
   reader, input state, limit, boundary, configuration and fuel; the file is
   the one _write leaves after the model's pieces *)
Theorem gen_read_lines_to_outerboundary_eq
        (St : Type) (rl : Z -> St -> bytes * St) (D : list Z -> list Z)
        (fn : option (list Z)) (cb enc errs : pv) (B0 : Z) (ob : bytes)
        (limit : option Z) (fuel : nat) (s : St) (st : fstate) :
  wf fn cb st ->
  gen_read_lines_to_outerboundary St rl D (inj_lim limit) (PBytes ob) s
    (PInt B0) (PInt 0) (inj_name fn) cb enc errs (inj_file D fn enc st) fuel
  = inj_res St D fn enc B0
      (rlob St rl 65536 fuel (dashb ob) (dashb ob ++ [45; 45]) limit
            [] [] true 0 s) st.
Proof.
  intros Hwf. unfold gen_read_lines_to_outerboundary.
  cbn [padd bind app]. unfold dashb.
  apply (loop_eq St rl D fn cb enc errs B0 (45 :: 45 :: ob)
                 ((45 :: 45 :: ob) ++ [45; 45]) ob limit);
    [exact Hwf | lia].
Qed.

(* ------------------------------------------------------------------ *)
(* valid_boundary *)

Lemma in_ranges_1 c lo hi : in_ranges c [(lo, hi)] = (lo <=? c) && (c <=? hi).
Proof. unfold in_ranges. cbn [existsb fst snd]. apply orb_false_r. Qed.

Lemma forallb_same {A} (f g : A -> bool) l :
  (forall x, f x = g x) -> forallb f l = forallb g l.
Proof.
  intros H. induction l as [|x l IH]; [reflexivity|].
  cbn [forallb]. rewrite H, IH. reflexivity.
Qed.

(* what both the regular expression and the model accept *)
Definition vb_shape (b : bytes) : Prop :=
  exists t c, (b = t ++ [c] \/ b = t ++ [c; 10]) /\ graphic c = true /\
              forallb printable t = true /\ (List.length t <= 200)%nat.

Lemma rep_spec rs cont : forall k s,
  rmatch_rep rs k 0 cont s = true <->
  exists t s', s = t ++ s' /\ (List.length t <= k)%nat /\
               forallb (fun c => in_ranges c rs) t = true /\ cont s' = true.
Proof.
  induction k as [|k IH]; intros s; cbn [rmatch_rep Nat.eqb andb pred].
  - rewrite orb_false_r. split.
    + intros H. exists [], s. repeat split; auto.
    + intros (t & s' & -> & Hl & _ & Hc). destruct t; [exact Hc|].
      cbn in Hl. lia.
  - split.
    + intros H. apply orb_true_iff in H as [H|H].
      * exists [], s. repeat split; auto. cbn. lia.
      * destruct s as [|c r]; [discriminate|].
        apply andb_true_iff in H as [Hc H]. apply IH in H.
        destruct H as (t & s' & -> & Hl & Hf & Hk).
        exists (c :: t), s'. cbn [app List.length forallb]. rewrite Hc, Hf.
        repeat split; auto. lia.
    + intros (t & s' & -> & Hl & Hf & Hc). destruct t as [|c t].
      * cbn [app]. rewrite Hc. reflexivity.
      * cbn [app forallb List.length] in *.
        apply andb_true_iff in Hf as [Hf1 Hf2]. rewrite Hf1. cbn [andb].
        apply orb_true_iff. right. apply IH. exists t, s'.
        repeat split; auto. lia.
Qed.

Lemma graphic_item s :
  rmatch [RClass [(33, 126)] 1 1] true s
  = match s with
    | c :: r => graphic c && match r with
                             | [] => true
                             | [x] => x =? 10
                             | _ => false
                             end
    | [] => false
    end.
Proof.
  cbn [rmatch rmatch_rep Nat.eqb andb orb pred].
  destruct s as [|c r]; [reflexivity|]. rewrite in_ranges_1.
  fold (graphic c). destruct r as [|x [|y r]]; cbn [andb orb];
    rewrite ?orb_false_r; reflexivity.
Qed.

Lemma regex_shape b :
  rmatch [RClass [(32, 126)] 0 200; RClass [(33, 126)] 1 1] true b = true
  <-> vb_shape b.
Proof.
  cbn [rmatch]. rewrite rep_spec. unfold vb_shape. split.
  - intros (t & s' & -> & Hl & Hf & Hc).
    change (rmatch_rep [(33, 126)] 1 1
              (fun s => match s with [] => true | [c] => c =? 10
                                 | _ => false end) s')
      with (rmatch [RClass [(33, 126)] 1 1] true s') in Hc.
    rewrite graphic_item in Hc. destruct s' as [|c r]; [discriminate|].
    apply andb_true_iff in Hc as [Hg Hr]. exists t, c.
    assert (Hp : forallb printable t = true).
    { rewrite <- Hf. apply forallb_same. intros x. rewrite in_ranges_1.
      reflexivity. }
    destruct r as [|x [|y r]]; try discriminate.
    + repeat split; auto.
    + apply Z.eqb_eq in Hr. subst x. repeat split; auto.
  - intros (t & c & Hb & Hg & Hp & Hl).
    assert (Hf : forallb (fun x => in_ranges x [(32, 126)]) t = true).
    { rewrite <- Hp. apply forallb_same. intros x. rewrite in_ranges_1.
      reflexivity. }
    destruct Hb as [-> | ->]; [exists t, [c] | exists t, [c; 10]];
      (split; [reflexivity|]); (split; [exact Hl|]); (split; [exact Hf|]);
      match goal with |- rmatch_rep _ _ _ _ ?s = true =>
        change (rmatch [RClass [(33, 126)] 1 1] true s = true) end;
      rewrite graphic_item, Hg; reflexivity.
Qed.

Lemma model_shape b : valid_boundary b = true <-> vb_shape b.
Proof.
  unfold valid_boundary, vb_shape. rewrite rv_rev.
  assert (Hb : b = rev (rev b)) by (rewrite rev_involutive; reflexivity).
  split.
  - destruct (rev b) as [|x r]; [discriminate|].
    destruct (x =? 10) eqn:Ex.
    + apply Z.eqb_eq in Ex. subst x. destruct r as [|c t]; [discriminate|].
      intros H. apply andb_true_iff in H as [H H3].
      apply andb_true_iff in H as [H1 H2]. apply Z.leb_le in H3.
      exists (rev t), c. cbn [rev] in Hb. rewrite <- app_assoc in Hb.
      split; [right; exact Hb|]. split; [exact H1|].
      rewrite MultipartProofs.forallb_rev, rev_length. unfold len in H3.
      split; [exact H2 | lia].
    + intros H. apply andb_true_iff in H as [H H3].
      apply andb_true_iff in H as [H1 H2]. apply Z.leb_le in H3.
      exists (rev r), x. cbn [rev] in Hb.
      split; [left; exact Hb|]. split; [exact H1|].
      rewrite MultipartProofs.forallb_rev, rev_length. unfold len in H3.
      split; [exact H2 | lia].
  - intros (t & c & Hs & Hg & Hp & Hl).
    assert (Hc : c =? 10 = false).
    { apply graphic_range in Hg. apply Z.eqb_neq. lia. }
    assert (Hcond : graphic c && forallb printable (rev t) &&
                    (len (rev t) <=? 200) = true).
    { rewrite Hg, MultipartProofs.forallb_rev, Hp. cbn [andb].
      apply Z.leb_le. unfold len. rewrite rev_length. lia. }
    destruct Hs as [-> | ->]; rewrite rev_app_distr; cbn [rev app].
    + rewrite Hc. exact Hcond.
    + rewrite Z.eqb_refl. exact Hcond.
Qed.

(* generated valid_boundary = the model's, on bytes (what the parser passes) *)
Theorem gen_valid_boundary_eq b :
  gen_valid_boundary (PBytes b) = Py.Ok (PBool (valid_boundary b)).
Proof.
  unfold gen_valid_boundary.
  match goal with |- context [pisinstance ?v ?n] =>
    change (pisinstance v n) with (Py.Ok (PBool true)) end.
  cbn [bind Py.truthy pre_match pbool].
  assert (H : rmatch [RClass [(32, 126)] 0 200; RClass [(33, 126)] 1 1] true b
              = valid_boundary b).
  { apply eq_true_iff_eq. rewrite regex_shape, model_shape. reflexivity. }
  rewrite H. destruct (valid_boundary b); reflexivity.
Qed.
