(* Translator tie for the constructors of the response classes (C05/C06):
   the definitions of gen/ClassesGen.v (regenerated on every run from
   poorwsgi/response.py by harness/py2v_classes.py, over lib/PyClasses.v)
   build, for all arguments, the response the hand model's constructor
   primitives of lib/PyShapes.v (base_init, c_NoContentResponse,
   c_JSONResponse, c_Response) build. *)
From Coq Require Import ZArith List Bool Lia String.
Require Import PW.lib.Val PW.lib.ValFacts PW.lib.Dec PW.model.Dispatch
  PW.lib.PyDispatch PW.lib.PyShapes PW.lib.PyAbort PW.lib.PyClasses.
Require Import PW.gen.ClassesGen.
Import ListNotations.
Open Scope list_scope.
Open Scope Z_scope.

Local Arguments Dispatch.utf8 : simpl never.
Local Arguments Dispatch.iso_pairs : simpl never.
Local Arguments Z.eqb : simpl never.

(* ---------- generic facts about the monad *)
Lemma bind_ret_r {A} (m : M A) : bind m (fun x => ret x) = m.
Proof.
  destruct m as [[x|e] ev]; unfold bind, ret; cbn; rewrite ?app_nil_r; reflexivity.
Qed.
Lemma bind_ret_l {A B} (x : A) (k : A -> M B) : bind (ret x) k = k x.
Proof. unfold bind, ret. destruct (k x). reflexivity. Qed.
Lemma bind_assoc {A B C} (m : M A) (f : A -> M B) (g : B -> M C) :
  bind (bind m f) g = bind m (fun x => bind (f x) g).
Proof.
  destruct m as [[x|e] ev]; unfold bind; [|reflexivity].
  destruct (f x) as [[y|e] ev1]; [|reflexivity].
  destruct (g y) as [r ev2]. rewrite app_assoc. reflexivity.
Qed.
Lemma bind_ext {A B} (m : M A) (f g : A -> M B) :
  (forall x, f x = g x) -> bind m f = bind m g.
Proof. intros H. destruct m as [[x|e] ev]; unfold bind; [rewrite H|]; reflexivity. Qed.
Lemma getattr_set o k v : cl_getattr (obj_set o k v) k = ret v.
Proof. unfold cl_getattr, obj_set. cbn [obj_get]. rewrite lz_eqb_refl. reflexivity. Qed.
Lemma fst_bind {A B} (m : M A) (k : A -> M B) :
  fst (bind m k) = match fst m with Val x => fst (k x) | Exc e => Exc e end.
Proof.
  destruct m as [[x|e] ev]; unfold bind; cbn; [destruct (k x)|]; reflexivity.
Qed.

Lemma iso_pairs_app l n s :
  iso_pairs (l ++ [(n, s)]) =
  match iso_pairs l, utf8 n, utf8 s with
  | Some hs, Some n', Some s' => Some (hs ++ [(n', s')])
  | _, _, _ => None
  end.
Proof.
  induction l as [|[k v] l IH]; cbn [List.app Dispatch.iso_pairs].
  - unfold iso_pairs at 1. fold iso_pairs.
    destruct (utf8 n), (utf8 s); reflexivity.
  - change (iso_pairs ((k, v) :: l ++ [(n, s)]))
      with (match utf8 k, utf8 v, iso_pairs (l ++ [(n, s)]) with
            | Some k', Some v', Some r => Some ((k', v') :: r)
            | _, _, _ => None end).
    change (iso_pairs ((k, v) :: l))
      with (match utf8 k, utf8 v, iso_pairs l with
            | Some k', Some v', Some r => Some ((k', v') :: r)
            | _, _, _ => None end).
    rewrite IH.
    destruct (utf8 k), (utf8 v), (iso_pairs l), (utf8 n), (utf8 s); reflexivity.
Qed.

Section Eq.
  Variable w : world.
  Variable ce : cenv.
  (* a Headers object is [PHdrs (Some l)], l the pairs it was built from *)
  Hypothesis ih_ok :
    forall x, ce_ih ce x = true ->
              exists l hs, x = DV (PHdrs (Some l)) /\ iso_pairs l = Some hs.

  (* the known deviation of mk_ctype (model/Dispatch.v): a content type with
     a lone surrogate is refused by the model, accepted by the constructor *)
  Definition ctype_ok (c : dv) : Prop :=
    forall s, c = DV (PStr s) -> utf8 s <> None.

  Definition xpb_lit : dv := Eval vm_compute in
    DV (PHdrs (Some [(s2l "X-Powered-By", s2l "Poor WSGI for Python")])).
  Definition stored_headers (h : dv) : M dv :=
    if ce_ih ce h then ret h
    else if is_none h then cl_Headers xpb_lit else cl_Headers h.

  (* the object BaseResponse.__init__ leaves *)
  Definition base_obj (s0 : obj) (c hv s r : dv) : obj :=
    [(s2l "_units", DV PNone);
     (s2l "_content_length", DV (PInt 0));
     (s2l "_end", DV PNone);
     (s2l "_start", DV (PInt 0));
     (s2l "_BaseResponse__done", of_bool false);
     (s2l "_ranges", cl_empty_list);
     (s2l "_BaseResponse__reason", r);
     (s2l "_BaseResponse__status_code", s);
     (s2l "_BaseResponse__headers", hv);
     (s2l "content_type", c)] ++ s0.

  Lemma gen_base_init_unfold s0 c h s :
    gen_base_init w ce s0 c h s =
    if cl_isinstance c [ClStr] then
      if cl_isinstance s [ClInt] then
        bind (stored_headers h) (fun hv =>
        bind (cl_reason w s) (fun r => ret (base_obj s0 c hv s r)))
      else raise assert_error
    else raise assert_error.
  Proof.
    unfold gen_base_init, stored_headers, xpb_lit.
    destruct (cl_isinstance c [ClStr]); [|reflexivity].
    destruct (cl_isinstance s [ClInt]); [|reflexivity].
    rewrite !bind_ret_r.
    destruct (ce_ih ce h).
    - rewrite !bind_ret_l, getattr_set, bind_ret_l. reflexivity.
    - destruct (is_none h).
      + rewrite bind_assoc. apply bind_ext. intros hv.
        rewrite bind_ret_l, getattr_set, bind_ret_l. reflexivity.
      + rewrite bind_assoc. apply bind_ext. intros hv.
        rewrite bind_ret_l, getattr_set, bind_ret_l. reflexivity.
  Qed.

  Lemma triple_base_obj s0 ct l z r :
    obj_triple (base_obj s0 (DV (PStr ct)) (DV (PHdrs (Some l))) (DV (PInt z)) r)
    = match iso_pairs l with Some hs => Some (ct, hs, z) | None => None end.
  Proof. reflexivity. Qed.
  Lemma resp_base_obj k ct l z r :
    obj_resp ce k (base_obj [] (DV (PStr ct)) (DV (PHdrs (Some l))) (DV (PInt z)) r)
    = match iso_pairs l with
      | Some hs => Some (mkResp k z hs ct 0 []) | None => None end.
  Proof.
    unfold obj_resp. rewrite triple_base_obj. destruct (iso_pairs l); reflexivity.
  Qed.

  Lemma stored_headers_model h :
    match fst (stored_headers h) with
    | Val hv => exists l hs, hv = DV (PHdrs (Some l)) /\ iso_pairs l = Some hs
                             /\ mk_headers (dv_to_py h) = Some hs
    | Exc _ => mk_headers (dv_to_py h) = None
    end.
  Proof.
    unfold stored_headers. destruct (ce_ih ce h) eqn:E.
    - destruct (ih_ok _ E) as (l & hs & -> & Hl). cbn. exists l, hs. auto.
    - destruct h as [v| | | | | | | | | | | | | | | | | | | ]; try reflexivity.
      destruct v as [?|?|?|?|?|?| |?| |[l|]|?|?]; try reflexivity.
      + cbn. eexists _, _. split; [reflexivity|]. split; vm_compute; reflexivity.
      + cbn. unfold mk_headers. destruct (iso_pairs l) as [hs|] eqn:Hl; cbn; [|reflexivity].
        exists l, hs. auto.
  Qed.

  Definition m_triple (m : M obj) : option (list Z * list hdr * Z) :=
    match fst m with Val o => obj_triple o | Exc _ => None end.

  (* (1) BaseResponse.__init__ = the model's base_init *)
  Theorem gen_base_init_eq s0 c h s :
    ctype_ok c ->
    m_triple (gen_base_init w ce s0 c h s) = base_init w c h s.
  Proof.
    intros Hc. rewrite gen_base_init_unfold. unfold m_triple, base_init.
    destruct c as [vc| | | | | | | | | | | | | | | | | | | ]; try reflexivity.
    destruct vc as [sc|?|?|?|?|?| |?| |?|?|?]; try reflexivity.
    cbn [dv_to_py]. unfold mk_ctype.
    destruct (utf8 sc) as [usc|] eqn:U; [|exfalso; exact (Hc sc eq_refl U)].
    change (cl_isinstance (DV (PStr sc)) [ClStr]) with true. cbv iota.
    pose proof (stored_headers_model h) as Hh.
    destruct s as [vs| | | | | | | | | | | | | | | | | | | ];
      try (cbn; destruct (mk_headers (dv_to_py h)); reflexivity).
    destruct vs as [?|?|?|?|?|?| |z| |?|?|?];
      try (cbn; destruct (mk_headers (dv_to_py h)); reflexivity).
    change (cl_isinstance (DV (PInt z)) [ClInt]) with true. cbv iota.
    rewrite fst_bind.
    destruct (fst (stored_headers h)) as [hv|e].
    - destruct Hh as (l & hs & -> & Hl & ->). rewrite fst_bind.
      unfold cl_reason, mk_status. cbn [dv_to_py].
      destruct (w_known w z); cbn [fst ret raise]; [|reflexivity].
      rewrite triple_base_obj, Hl. reflexivity.
    - rewrite Hh. reflexivity.
  Qed.

  Lemma base_init_cases s0 c h s :
    ctype_ok c ->
    match fst (gen_base_init w ce s0 c h s), base_init w c h s with
    | Val o, Some (ct, hs, st) =>
        exists l r, o = base_obj s0 (DV (PStr ct)) (DV (PHdrs (Some l)))
                                 (DV (PInt st)) r
                    /\ iso_pairs l = Some hs
    | Exc _, None => True
    | _, _ => False
    end.
  Proof.
    intros Hc. rewrite gen_base_init_unfold. unfold base_init.
    destruct c as [vc| | | | | | | | | | | | | | | | | | | ]; try exact I.
    destruct vc as [sc|?|?|?|?|?| |?| |?|?|?]; try exact I.
    cbn [dv_to_py]. unfold mk_ctype.
    destruct (utf8 sc) as [usc|] eqn:U; [|exfalso; exact (Hc sc eq_refl U)].
    change (cl_isinstance (DV (PStr sc)) [ClStr]) with true. cbv iota.
    pose proof (stored_headers_model h) as Hh.
    destruct s as [vs| | | | | | | | | | | | | | | | | | | ];
      try (cbn; destruct (mk_headers (dv_to_py h)); exact I).
    destruct vs as [?|?|?|?|?|?| |z| |?|?|?];
      try (cbn; destruct (mk_headers (dv_to_py h)); exact I).
    change (cl_isinstance (DV (PInt z)) [ClInt]) with true. cbv iota.
    rewrite fst_bind.
    destruct (fst (stored_headers h)) as [hv|e].
    - destruct Hh as (l & hs & -> & Hl & ->). rewrite fst_bind.
      unfold cl_reason, mk_status. cbn [dv_to_py].
      destruct (w_known w z); cbn [fst ret raise]; [|exact I].
      eexists _, _. split; [reflexivity|exact Hl].
    - rewrite Hh. exact I.
  Qed.

  (* ---------- obj-kind constructors against the resp-valued primitives *)
  Definition sim (c : rclass) (m : M obj) (m' : M dv) : Prop :=
    match fst m, fst m' with
    | Val o, Val (DV (PResp r)) => obj_resp ce c o = Some r
    | Exc _, Exc _ => True
    | _, _ => False
    end.
  Definition obj_outcome (c : rclass) (m : M obj) : option resp :=
    match fst m with Val o => obj_resp ce c o | Exc _ => None end.
  Definition dv_outcome (m : M dv) : option resp :=
    match fst m with Val (DV (PResp r)) => Some r | _ => None end.
  Lemma sim_outcome c m m' : sim c m m' -> obj_outcome c m = dv_outcome m'.
  Proof.
    unfold sim, obj_outcome, dv_outcome.
    destruct (fst m); destruct (fst m') as [[v| | | | | | | | | | | | | | | | | | | ]|];
      try tauto.
    destruct v; tauto.
  Qed.

  Lemma base_sim k h s :
    sim k (gen_base_init w ce [] (DV (PStr [])) h s)
        (of_opt match base_init w (DV (PStr [])) h s with
                | Some (ct, hs, st) => Some (mkResp k st hs ct 0 [])
                | None => None
                end).
  Proof.
    assert (Hc : ctype_ok (DV (PStr []))) by (intros s' [= <-]; discriminate).
    pose proof (base_init_cases [] _ h s Hc) as H. unfold sim.
    destruct (fst (gen_base_init w ce [] (DV (PStr [])) h s)) as [o|e];
      destruct (base_init w (DV (PStr [])) h s) as [[[ct hs] st]|];
      try contradiction; unfold of_opt; cbn [fst ret raise]; [|exact I].
    destruct H as (l & r & -> & Hl). rewrite resp_base_obj, Hl. reflexivity.
  Qed.

  Lemma nocontent_sim h s :
    sim CNoContent (gen_nocontent_init w ce [] h s)
        (c_NoContentResponse w h s).
  Proof.
    unfold gen_nocontent_init, c_NoContentResponse.
    rewrite bind_ret_r. apply base_sim.
  Qed.

  (* (2c) NoContentResponse.__init__ = c_NoContentResponse *)
  Theorem gen_nocontent_init_eq h s :
    obj_outcome CNoContent (gen_nocontent_init w ce [] h s)
    = dv_outcome (c_NoContentResponse w h s).
  Proof. apply sim_outcome, nocontent_sim. Qed.

  (* ---------- (2a, 2b) JSONResponse.__init__, TextResponse.__init__ *)
  Local Arguments c_Response : simpl never.

  Theorem gen_json_response_init_eq data cs h s kw :
    truthy kw = false ->
    gen_json_response_init w ce data (DV (PStr cs)) h s (DV PNone) kw
    = c_JSONResponse w data (DV (PStr cs)) h s (DV PNone).
  Proof.
    intros Hk. unfold gen_json_response_init, c_JSONResponse. rewrite Hk.
    cbn [andb dv_to_py].
    destruct cs as [|c0 cs];
      repeat (progress (rewrite ?bind_ret_l; cbn [truthy cl_add cl_or andb]));
      (destruct data as [v| | | | | | | | | | | | | | | | | | | ]; try reflexivity);
      (destruct v as [?|?|[t|]|[t|]|?|?| |?| |?|?|?]; try reflexivity);
      cbn [cl_dumps cl_empty_dict dv_to_py]; rewrite ?bind_ret_l, ?bind_ret_r; reflexivity.
  Qed.

  (* TextResponse has no primitive in lib/PyShapes.v: it is Response(text,
     "text/plain" [+ "; charset=" + charset], headers, status_code) *)
  Definition text_response (text charset h s : dv) : M dv :=
    match dv_to_py charset with
    | PStr cs =>
        c_Response w text
          (DV (PStr (s2l "text/plain" ++
                     match cs with [] => [] | _ => s2l "; charset=" ++ cs end)))
          h s
    | _ => raise ctor_error
    end.
  Theorem gen_text_response_init_eq text cs h s :
    gen_text_response_init w ce text (DV (PStr cs)) h s
    = text_response text (DV (PStr cs)) h s.
  Proof.
    unfold gen_text_response_init, text_response. cbn [dv_to_py].
    destruct cs as [|c0 cs];
      repeat (progress (rewrite ?bind_ret_l; cbn [truthy cl_add]));
      rewrite bind_ret_r; reflexivity.
  Qed.

  (* ---------- (2d) NotModifiedResponse.__init__ *)
  Lemma sim_ret c o r : obj_resp ce c o = Some r -> sim c (ret o) (ret (DV (PResp r))).
  Proof. intros H. exact H. Qed.
  Lemma sim_bind c m m' k k' :
    sim c m m' ->
    (forall o r, obj_resp ce c o = Some r -> sim c (k o) (k' (DV (PResp r)))) ->
    sim c (bind m k) (bind m' k').
  Proof.
    unfold sim. rewrite !fst_bind.
    destruct (fst m) as [o|e]; destruct (fst m') as [v|e']; try tauto.
    destruct v; try tauto. destruct v; try tauto. intros H K. apply K, H.
  Qed.
  Lemma sim_bind_ret c m m' : sim c m m' -> sim c (bind m (fun s => ret s)) m'.
  Proof. rewrite bind_ret_r. tauto. Qed.

  Lemma obj_triple_set_hdrs o X :
    obj_triple (obj_set o base_headers_attr X)
    = match obj_get o (s2l "content_type"), X,
            obj_get o (s2l "_BaseResponse__status_code") with
      | Some (DV (PStr ct)), DV (PHdrs (Some l)), Some (DV (PInt st)) =>
          match iso_pairs l with Some hs => Some (ct, hs, st) | None => None end
      | _, _, _ => None
      end.
  Proof. reflexivity. Qed.
  Lemma obj_get_set_hdrs_clen o X :
    obj_get (obj_set o base_headers_attr X) (s2l "_content_length")
    = obj_get o (s2l "_content_length").
  Proof. reflexivity. Qed.

  Lemma add_header_sim c o r k v :
    obj_resp ce c o = Some r ->
    sim c (obj_add_header base_headers_attr o k v)
        (resp_add_header (DV (PResp r)) k v).
  Proof.
    unfold obj_resp, obj_triple. intros H.
    destruct (obj_get o (s2l "content_type")) as [xc|] eqn:Hc; [|discriminate].
    destruct xc as [vc| | | | | | | | | | | | | | | | | | | ]; try discriminate.
    destruct vc as [ct|?|?|?|?|?| |?| |?|?|?]; try discriminate.
    destruct (obj_get o base_headers_attr) as [xh|] eqn:Hh; [|discriminate].
    destruct xh as [vh| | | | | | | | | | | | | | | | | | | ]; try discriminate.
    destruct vh as [?|?|?|?|?|?| |?| |[l|]|?|?]; try discriminate.
    destruct (obj_get o (s2l "_BaseResponse__status_code")) as [xs|] eqn:Hs; [|discriminate].
    destruct xs as [vs| | | | | | | | | | | | | | | | | | | ]; try discriminate.
    destruct vs as [?|?|?|?|?|?| |st| |?|?|?]; try discriminate.
    destruct (iso_pairs l) as [hs|] eqn:Hl; [|discriminate].
    destruct (obj_get o (s2l "_content_length")) as [xn|] eqn:Hn; [|discriminate].
    destruct xn as [vn| | | | | | | | | | | | | | | | | | | ]; try discriminate.
    destruct vn as [?|?|?|?|?|?| |n| |?|?|?]; try discriminate.
    injection H as <-.
    unfold obj_add_header, resp_add_header, sim. rewrite Hh.
    destruct k as [vk| | | | | | | | | | | | | | | | | | | ]; try exact I.
    destruct vk as [nk|?|?|?|?|?| |?| |?|?|?]; try exact I.
    destruct v as [vv| | | | | | | | | | | | | | | | | | | ]; try exact I.
    destruct vv as [sv|?|?|?|?|?| |?| |?|?|?]; try exact I.
    destruct (utf8 nk) as [n'|] eqn:Un; [|exact I].
    destruct (utf8 sv) as [s'|] eqn:Us; [|exact I].
    cbn [fst ret rhdrs rcls rstatus rctype rclen rbody].
    unfold obj_resp. rewrite obj_triple_set_hdrs, obj_get_set_hdrs_clen, Hc, Hs, Hn.
    rewrite iso_pairs_app, Hl, Un, Us. reflexivity.
  Qed.

  Definition hname (s : string) : dv := DV (PStr (s2l s)).
  (* NotModifiedResponse(headers, etag, content_location, date, vary) over
     the model's primitives: NoContentResponse(headers, 304), then ETag,
     Content-Location, Date, Vary are added in this order, each only if its
     argument is given; Date from a non-empty str as it is, from an int
     through time_to_http, from a datetime through datetime_to_http *)
  Definition add_if (b : bool) (name : string) (v : dv) (r : dv) : M dv :=
    if b then resp_add_header r (hname name) v else ret r.
  Definition notmodified_response (h etag cloc date vary : dv) : M dv :=
    bind (c_NoContentResponse w h (DV (PInt 304))) (fun r0 =>
    bind (add_if (truthy etag) "ETag" etag r0) (fun r1 =>
    bind (add_if (truthy cloc) "Content-Location" cloc r1) (fun r2 =>
    bind (if cl_isinstance date [ClStr] && truthy date
          then resp_add_header r2 (hname "Date") date
          else if cl_isinstance date [ClInt]
               then resp_add_header r2 (hname "Date") (ce_t2h ce date)
               else add_if (ce_idt ce date) "Date" (ce_d2h ce date) r2) (fun r3 =>
    add_if (truthy vary) "Vary" vary r3)))).

  Lemma add_if_sim c (b : bool) name v o r :
    obj_resp ce c o = Some r ->
    sim c (if b then bind (obj_add_header base_headers_attr o (hname name) v)
                          (fun s => ret s)
           else ret o)
        (add_if b name v (DV (PResp r))).
  Proof.
    intros H. unfold add_if. destruct b.
    - apply sim_bind_ret, add_header_sim, H.
    - apply sim_ret, H.
  Qed.

  Theorem gen_notmodified_init_eq h etag cloc date vary :
    obj_outcome CNoContent
      (gen_notmodified_init w ce [] h etag cloc date vary)
    = dv_outcome (notmodified_response h etag cloc date vary).
  Proof.
    apply sim_outcome. unfold gen_notmodified_init, notmodified_response.
    apply sim_bind; [apply nocontent_sim|intros o0 r0 H0].
    apply sim_bind; [exact (add_if_sim _ _ "ETag" _ _ _ H0)|intros o1 r1 H1].
    apply sim_bind;
      [exact (add_if_sim _ _ "Content-Location" _ _ _ H1)|intros o2 r2 H2].
    apply sim_bind; [|intros o3 r3 H3].
    - destruct (cl_isinstance date [ClStr] && truthy date).
      + apply sim_bind_ret.
        exact (add_header_sim _ _ _ (hname "Date") _ H2).
      + apply sim_bind_ret. destruct (cl_isinstance date [ClInt]).
        * apply sim_bind_ret.
          exact (add_header_sim _ _ _ (hname "Date") _ H2).
        * apply sim_bind_ret. exact (add_if_sim _ _ "Date" _ _ _ H2).
    - apply sim_bind_ret. exact (add_if_sim _ _ "Vary" _ _ _ H3).
  Qed.

  (* ---------- (3) FileObjResponse.__init__ (without its length tail, which
     gen/ClenGen.v ties) and FileResponse.__init__ *)
  Hypothesis flen_int : forall f, exists n, ce_flen ce f = DV (PInt n).

  Lemma sim_bind_same {A} c (m : M A) k k' :
    (forall x, sim c (k x) (k' x)) -> sim c (bind m k) (bind m k').
  Proof.
    intros H. unfold sim. rewrite !fst_bind. destruct (fst m); [apply H|exact I].
  Qed.

  Lemma obj_resp_inv c o r :
    obj_resp ce c o = Some r ->
    exists ct l hs st n,
      obj_get o (s2l "content_type") = Some (DV (PStr ct)) /\
      obj_get o base_headers_attr = Some (DV (PHdrs (Some l))) /\
      obj_get o (s2l "_BaseResponse__status_code") = Some (DV (PInt st)) /\
      obj_get o (s2l "_content_length") = Some (DV (PInt n)) /\
      iso_pairs l = Some hs /\
      r = mkResp c st hs ct n
            match obj_get o (s2l "_FileObjResponse__file") with
            | Some f => ce_fbody ce f | None => [] end.
  Proof.
    unfold obj_resp, obj_triple. intros H.
    destruct (obj_get o (s2l "content_type")) as [xc|] eqn:Hc; [|discriminate].
    destruct xc as [vc| | | | | | | | | | | | | | | | | | | ]; try discriminate.
    destruct vc as [ct|?|?|?|?|?| |?| |?|?|?]; try discriminate.
    destruct (obj_get o base_headers_attr) as [xh|] eqn:Hh; [|discriminate].
    destruct xh as [vh| | | | | | | | | | | | | | | | | | | ]; try discriminate.
    destruct vh as [?|?|?|?|?|?| |?| |[l|]|?|?]; try discriminate.
    destruct (obj_get o (s2l "_BaseResponse__status_code")) as [xs|] eqn:Hs; [|discriminate].
    destruct xs as [vs| | | | | | | | | | | | | | | | | | | ]; try discriminate.
    destruct vs as [?|?|?|?|?|?| |st| |?|?|?]; try discriminate.
    destruct (iso_pairs l) as [hs|] eqn:Hl; [|discriminate].
    destruct (obj_get o (s2l "_content_length")) as [xn|] eqn:Hn; [|discriminate].
    destruct xn as [vn| | | | | | | | | | | | | | | | | | | ]; try discriminate.
    destruct vn as [?|?|?|?|?|?| |n| |?|?|?]; try discriminate.
    injection H as <-. exists ct, l, hs, st, n. auto 10.
  Qed.

  Lemma obj_resp_set_units c o X :
    obj_resp ce c (obj_set o (s2l "_units") X) = obj_resp ce c o.
  Proof. reflexivity. Qed.
  Lemma obj_resp_set_ranges c o X :
    obj_resp ce c (obj_set o (s2l "_ranges") X) = obj_resp ce c o.
  Proof. reflexivity. Qed.

  (* make_partial() and `name in headers` on a response value *)
  Definition resp_make_partial (x : dv) : M dv :=
    match x with
    | DV (PResp r) =>
        if rstatus r =? 200
        then resp_add_header x (hname "Accept-Ranges") (hname "bytes")
        else ret x
    | _ => raise attr_error
    end.
  Definition resp_has_header (x : dv) (n : string) : bool :=
    match x with DV (PResp r) => has_hdr (s2l n) (rhdrs r) | _ => false end.

  Lemma make_partial_sim c o r :
    obj_resp ce c o = Some r ->
    sim c (obj_make_partial o) (resp_make_partial (DV (PResp r))).
  Proof.
    intros H. destruct (obj_resp_inv _ _ _ H) as (ct & l & hs & st & n & _ & _ & Hs & _ & _ & Hr).
    unfold obj_make_partial, resp_make_partial. rewrite Hs.
    replace (rstatus r) with st by (rewrite Hr; reflexivity).
    destruct (st =? 200); [|apply sim_ret, H].
    rewrite <- (bind_ret_r (resp_add_header _ _ _)).
    apply sim_bind.
    - apply (add_header_sim c _ r (hname "Accept-Ranges") (hname "bytes")).
      rewrite obj_resp_set_units. exact H.
    - intros o' r' H'. apply sim_ret. rewrite obj_resp_set_ranges. exact H'.
  Qed.

  Lemma has_header_sim c o r n :
    obj_resp ce c o = Some r ->
    obj_has_header base_headers_attr o (s2l n) = resp_has_header (DV (PResp r)) n.
  Proof.
    intros H. destruct (obj_resp_inv _ _ _ H) as (ct & l & hs & st & m & _ & Hh & _ & _ & Hl & Hr).
    unfold obj_has_header, resp_has_header. rewrite Hh, Hl, Hr. reflexivity.
  Qed.

  (* FileObjResponse(file_obj, content_type, headers, status_code) over the
     model's base_init: readable binary stream required; content type
     "application/octet-stream" unless given; class CBase, length and body
     from the file object *)
  Definition fileobj_ctype (ctype : dv) : dv :=
    if is_none ctype then hname "application/octet-stream" else ctype.
  Definition fileobj_response (f ctype h s : dv) : M dv :=
    if ce_frd ce f then
      if negb (ce_itx ce f) then
        of_opt match base_init w (fileobj_ctype ctype) h s, ce_flen ce f with
               | Some (ct, hs, st), DV (PInt n) =>
                   Some (mkResp CBase st hs ct n (ce_fbody ce f))
               | _, _ => None
               end
      else raise assert_error
    else raise assert_error.

  Lemma resp_file_obj ct l z r f p n :
    obj_resp ce CBase
      (obj_set (obj_set (obj_set
         (base_obj [] (DV (PStr ct)) (DV (PHdrs (Some l))) (DV (PInt z)) r)
         (s2l "_FileObjResponse__file") f)
         (s2l "_FileObjResponse__pos") p)
         (s2l "_content_length") (DV (PInt n)))
    = match iso_pairs l with
      | Some hs => Some (mkResp CBase z hs ct n (ce_fbody ce f))
      | None => None
      end.
  Proof.
    unfold obj_resp.
    change (obj_triple _)
      with (match iso_pairs l with Some hs => Some (ct, hs, z) | None => None end).
    destruct (iso_pairs l); reflexivity.
  Qed.

  Lemma bind_if_ret {A B} (b : bool) (x y : A) (K : A -> M B) :
    bind (if b then ret x else ret y) K = K (if b then x else y).
  Proof. destruct b; apply bind_ret_l. Qed.

  Lemma fileobj_core f c' h s :
    ctype_ok c' ->
    sim CBase (bind (gen_base_init w ce [] c' h s) (fun s8 =>
               bind (fo_tail ce s8 f) (fun s9 => ret s9)))
        (of_opt match base_init w c' h s, ce_flen ce f with
                | Some (ct, hs, st), DV (PInt n) =>
                    Some (mkResp CBase st hs ct n (ce_fbody ce f))
                | _, _ => None
                end).
  Proof.
    intros Hc. pose proof (base_init_cases [] _ h s Hc) as H.
    unfold sim. rewrite fst_bind.
    destruct (fst (gen_base_init w ce [] c' h s)) as [o|e];
      destruct (base_init w c' h s) as [[[ct hs] st]|];
      try contradiction; [|exact I].
    destruct H as (l & r & -> & Hl). destruct (flen_int f) as [n Hn].
    rewrite bind_ret_r. unfold fo_tail. rewrite Hn. unfold of_opt. cbn [fst ret].
    rewrite resp_file_obj, Hl. reflexivity.
  Qed.

  Lemma fileobj_sim f ctype h s :
    ctype_ok (fileobj_ctype ctype) ->
    sim CBase (gen_fileobj_init w ce [] f ctype h s) (fileobj_response f ctype h s).
  Proof.
    intros Hc. unfold gen_fileobj_init, fileobj_response, fileobj_ctype in *.
    destruct (ce_frd ce f); [|exact I].
    destruct (negb (ce_itx ce f)); [|exact I].
    cbv zeta. rewrite bind_if_ret.
    destruct (is_none ctype); cbv beta iota; apply fileobj_core; exact Hc.
  Qed.

  (* FileResponse(path, content_type, headers, status_code): IOError unless
     readable; the content type guessed from the path if none is given; the
     file opened 'rb' unbuffered; FileObjResponse of it; make_partial();
     Last-Modified = time_to_http(getctime(path)) unless the headers given
     already have one *)
  Definition file_response (path ctype h s : dv) : M dv :=
    if negb (ce_acc ce path) then raise cl_io_error
    else
      bind (ce_fopen ce path) (fun f =>
      bind (fileobj_response f (if is_none ctype then ce_mime ce path else ctype) h s)
           (fun r0 =>
      bind (resp_make_partial r0) (fun r1 =>
      if negb (resp_has_header r1 "Last-Modified")
      then resp_add_header r1 (hname "Last-Modified") (ce_t2h ce (ce_ctime ce path))
      else ret r1))).

  Lemma file_rest path c' h s :
    ctype_ok (fileobj_ctype c') ->
    sim CBase
      (bind (ce_fopen ce path) (fun x11 =>
       bind (gen_fileobj_init w ce [] x11 c' h s) (fun s12 =>
       bind (obj_make_partial s12) (fun s13 =>
       bind (if negb (obj_has_header base_headers_attr s13 (s2l "Last-Modified"))
             then bind (obj_add_header base_headers_attr s13 (hname "Last-Modified")
                          (ce_t2h ce (ce_ctime ce path))) (fun s14 => ret s14)
             else ret s13) (fun s15 => ret s15)))))
      (bind (ce_fopen ce path) (fun f =>
       bind (fileobj_response f c' h s) (fun r0 =>
       bind (resp_make_partial r0) (fun r1 =>
       if negb (resp_has_header r1 "Last-Modified")
       then resp_add_header r1 (hname "Last-Modified") (ce_t2h ce (ce_ctime ce path))
       else ret r1)))).
  Proof.
    intros Hc. apply sim_bind_same. intros f.
    apply sim_bind; [apply fileobj_sim, Hc|intros o0 r0 H0].
    apply sim_bind; [apply make_partial_sim, H0|intros o1 r1 H1].
    apply sim_bind_ret.
    rewrite (has_header_sim _ _ _ "Last-Modified" H1).
    destruct (negb (resp_has_header (DV (PResp r1)) "Last-Modified")).
    - apply sim_bind_ret. exact (add_header_sim _ _ _ (hname "Last-Modified") _ H1).
    - apply sim_ret, H1.
  Qed.

  Theorem gen_file_response_init_eq path ctype h s :
    ctype_ok (fileobj_ctype (if is_none ctype then ce_mime ce path else ctype)) ->
    obj_outcome CBase (gen_file_response_init w ce [] path ctype h s)
    = dv_outcome (file_response path ctype h s).
  Proof.
    intros Hc. apply sim_outcome. unfold gen_file_response_init, file_response.
    destruct (negb (ce_acc ce path)); [exact I|].
    rewrite bind_ret_l. cbv zeta. rewrite bind_if_ret.
    destruct (is_none ctype); cbv beta iota; apply file_rest; exact Hc.
  Qed.

  Theorem gen_fileobj_init_eq f ctype h s :
    ctype_ok (fileobj_ctype ctype) ->
    obj_outcome CBase (gen_fileobj_init w ce [] f ctype h s)
    = dv_outcome (fileobj_response f ctype h s).
  Proof. intros Hc. apply sim_outcome, fileobj_sim, Hc. Qed.

  (* ---------- (4) GeneratorResponse.__init__ = c_GeneratorResponse: the
     body of the response is the iterable of bytes it holds; the model has
     no response for another kind of generator or a non-int length *)
  Definition generator_view (o : obj) : option resp :=
    match obj_resp ce CBase o,
          obj_get o (s2l "_GeneratorResponse__generator") with
    | Some r, Some (DV (PListBytes ch | PIter ch)) =>
        Some (mkResp CBase (rstatus r) (rhdrs r) (rctype r) (rclen r) ch)
    | _, _ => None
    end.

  Theorem gen_generator_init_eq g c h s n :
    ctype_ok c ->
    match fst (gen_generator_init w ce [] g c h s n) with
    | Val o => generator_view o
    | Exc _ => None
    end = dv_outcome (c_GeneratorResponse w g c h s n).
  Proof.
    intros Hc. pose proof (base_init_cases [] _ h s Hc) as H.
    unfold gen_generator_init, c_GeneratorResponse, dv_outcome. rewrite fst_bind.
    destruct (fst (gen_base_init w ce [] c h s)) as [o|e];
      destruct (base_init w c h s) as [[[ct hs] st]|];
      try contradiction; [|reflexivity].
    destruct H as (l & r & -> & Hl). cbv zeta. cbn [fst ret].
    unfold generator_view, obj_resp.
    change (obj_triple _)
      with (match iso_pairs l with Some hs => Some (ct, hs, st) | None => None end).
    rewrite Hl.
    destruct n as [vn| | | | | | | | | | | | | | | | | | | ];
      try (destruct g as [[]| | | | | | | | | | | | | | | | | | | ]; reflexivity).
    destruct vn as [?|?|?|?|?|?| |k| |?|?|?];
      destruct g as [[]| | | | | | | | | | | | | | | | | | | ]; reflexivity.
  Qed.
End Eq.
