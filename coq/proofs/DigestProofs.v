From Coq Require Import ZArith List Bool Lia String.
Require Import PW.lib.Val PW.lib.ValFacts PW.lib.Dec PW.model.Token
        PW.proofs.TokenProofs PW.model.Digest.
Import ListNotations.
Open Scope list_scope.
Open Scope Z_scope.

(* ------------------------------------------------------------ basics *)
Lemma opt_eqb_true o s : opt_eqb o s = true -> o = Some s.
Proof.
  destruct o as [v|]; cbn [opt_eqb]; [|discriminate].
  intros H. apply lz_eqb_eq in H. subst. reflexivity.
Qed.

Lemma opt_eqb_refl s : opt_eqb (Some s) s = true.
Proof. apply lz_eqb_refl. Qed.

Lemma dget_dset_eq k v d : dget k (dset k v d) = Some v.
Proof. unfold dset. cbn [dget]. rewrite lz_eqb_refl. reflexivity. Qed.

Lemma dget_dset_ne k k' v d :
  lz_eqb k k' = false -> dget k (dset k' v d) = dget k d.
Proof. intros H. unfold dset. cbn [dget]. rewrite H. reflexivity. Qed.

Ltac dsimp :=
  repeat (rewrite dget_dset_eq || rewrite dget_dset_ne by reflexivity).
Ltac dsimp_in H :=
  repeat (rewrite dget_dset_eq in H || rewrite dget_dset_ne in H by reflexivity).

Ltac red_d :=
  repeat progress (dsimp; cbv beta iota;
                   repeat match goal with
                          | Hd : dget _ _ = _ |- _ => rewrite Hd
                          end).

Lemma nonempty_true s : nonempty s = true <-> s <> [].
Proof. destruct s; cbn; split; congruence. Qed.

Lemma colon_inj_l a a' b : colon a b = colon a' b -> a = a'.
Proof. unfold colon. apply app_inv_tail. Qed.

Lemma colon_inj_r a b b' : colon a b = colon a b' -> b = b'.
Proof.
  unfold colon. intros H. apply app_inv_head in H. congruence.
Qed.

Definition injective (H : list Z -> list Z) := forall a b, H a = H b -> a = b.

Section Proofs.
  Variable Ht Hh Ho Unq : str -> str.

  Notation gate := (gate Ht Hh Ho Unq).
  Notation check_credentials := (check_credentials Hh Ho Unq).
  Notation check_response := (check_response Hh).
  Notation check_nonce := (check_nonce Ht).
  Notation rfc_response := (rfc_response Hh).
  Notation rfc_A1 := (rfc_A1 Hh).
  Notation rfc7616_fields := (rfc7616_fields Hh).

  (* ------------------------------------------------ no exception paths *)
  Lemma check_token_total tok s c timeout t :
    check_token Ht tok s c timeout t <> None.
  Proof.
    unfold check_token, tok_eqb, get_token, token_text, has_timeout, aligned.
    destruct timeout as [T|]; [|cbn; discriminate].
    destruct (T =? 0) eqn:E; cbn [negb option_map]; [discriminate|].
    repeat match goal with
           | |- context [if ?b then _ else _] => destruct b; cbn [option_map]
           end; discriminate.
  Qed.

  Lemma check_nonce_total d e : check_nonce d e <> None.
  Proof.
    unfold Digest.check_nonce. destruct (dget k_nonce d).
    - apply check_token_total.
    - destruct (check_token Ht [] (c_secret e) (r_client e) (c_timeout e)
                            (r_time e)) eqn:E; cbn [option_map];
        [discriminate|]. apply check_token_total in E. contradiction.
  Qed.

  (* ----------------------------------------------- check_response *)
  Definition resp_ok (d : dict) (e : env) (p : str) : Prop :=
    dget k_nonce d <> None /\ dget k_uri d <> None /\
    (is_sess e || nonempty (c_qop e) = true -> dget k_cnonce d <> None) /\
    (nonempty (c_qop e) = true ->
     dget k_nc d <> None /\ dget k_qop d <> None) /\
    dget k_response d =
    Some (rfc_response (is_sess e) (nonempty (c_qop e)) p
                       (dgetd k_nonce d) (dgetd k_nc d) (dgetd k_cnonce d)
                       (dgetd k_qop d) (r_method e) (dgetd k_uri d)).

  Ltac fin :=
    match goal with
    | |- _ <-> _ => split; intros Hx; fin
    | Hx : CRKeyError _ = CR true |- _ => discriminate Hx
    | Hx : CR (lz_eqb _ _) = CR true |- _ =>
        injection Hx as Hx; apply lz_eqb_eq in Hx; subst;
        repeat split; intros; try discriminate; reflexivity
    | Hx : _ /\ _ |- _ =>
        let H1 := fresh in let H2 := fresh in let H3 := fresh in
        let H4 := fresh in let H5 := fresh in
        destruct Hx as (H1 & H2 & H3 & H4 & H5);
        try (exfalso; apply H1; reflexivity);
        try (exfalso; apply H2; reflexivity);
        try (exfalso; apply H3; reflexivity);
        try (exfalso; apply H4; reflexivity);
        try (exfalso; apply (H3 eq_refl); reflexivity);
        try (exfalso; destruct (H4 eq_refl) as [H6 H7];
             (apply H6; reflexivity) || (apply H7; reflexivity));
        try discriminate H5;
        try (injection H5 as H5; rewrite H5; rewrite lz_eqb_refl; reflexivity)
    end.

  Lemma check_response_iff d e p :
    check_response d e p = CR true <-> resp_ok d e p.
  Proof.
    unfold Digest.check_response, resp_ok, Digest.rfc_response, dgetd, colon.
    destruct (is_sess e); destruct (nonempty (c_qop e)); cbn [fmt orb];
      red_d;
      destruct (dget k_nonce d) as [n|] eqn:En; red_d;
      destruct (dget k_cnonce d) as [cn|] eqn:Ecn; red_d;
      destruct (dget k_uri d) as [u|] eqn:Eu; red_d;
      destruct (dget k_nc d) as [nc|] eqn:Enc; red_d;
      destruct (dget k_qop d) as [q|] eqn:Eq; red_d;
      destruct (dget k_response d) as [r|] eqn:Er; red_d; fin.
  Qed.

  (* ----------------------------------------------- check_credentials *)
  Lemma uri_mismatch_false d e :
    uri_mismatch Unq d e = false <->
    Unq (fst (split_uri (dgetd k_uri d))) = req_path e /\
    snd (split_uri (dgetd k_uri d)) = req_query e.
  Proof.
    unfold uri_mismatch. cbv zeta. rewrite orb_false_iff, !negb_false_iff.
    split; intros [A B]; split; apply lz_eqb_eq; assumption.
  Qed.

  Definition cred_ok (d : dict) (e : env) (u p : str) : Prop :=
    dget k_algorithm d = Some (c_algorithm e) /\
    dget k_opaque d = Some (Ho (r_host e)) /\
    (Unq (fst (split_uri (dgetd k_uri d))) = req_path e /\
     snd (split_uri (dgetd k_uri d)) = req_query e) /\
    (c_qop e <> [] -> dget k_qop d = Some (c_qop e)) /\
    dget k_realm d = Some (c_realm e) /\
    (forall r, c_user e = Some r -> r <> [] -> u = r) /\
    dget k_username d = Some u /\
    lookup_password e (Some u) = Some p /\ p <> [] /\
    resp_ok d e p.

  Lemma check_credentials_iff d e :
    check_credentials d e = true <-> exists u p, cred_ok d e u p.
  Proof.
    unfold Digest.check_credentials, cred_ok. split.
    - destruct (opt_eqb (dget k_algorithm d) (c_algorithm e)) eqn:E1;
        cbn [negb]; [|discriminate].
      destruct (opt_eqb (dget k_opaque d) (Ho (r_host e))) eqn:E2;
        cbn [negb]; [|discriminate].
      destruct (uri_mismatch Unq d e) eqn:E3; [discriminate|].
      destruct (nonempty (c_qop e) &&
                negb (opt_eqb (dget k_qop d) (c_qop e))) eqn:E4;
        [discriminate|].
      destruct (opt_eqb (dget k_realm d) (c_realm e)) eqn:E5;
        cbn [negb]; [|discriminate].
      destruct (match c_user e with
                | Some u => nonempty u && negb (opt_eqb (dget k_username d) u)
                | None => false
                end) eqn:E6; [discriminate|].
      destruct (is_some (dget k_response d)) eqn:E7;
        cbn [negb]; [|discriminate].
      destruct (lookup_password e (dget k_username d)) as [p|] eqn:E8;
        [|discriminate].
      destruct (nonempty p) eqn:E9; cbn [negb]; [|discriminate].
      destruct (check_response d e p) as [b|k] eqn:E10; [|discriminate].
      intros ->. apply check_response_iff in E10.
      destruct (dget k_username d) as [u|] eqn:E11;
        [|cbn [lookup_password] in E8; discriminate].
      exists u, p.
      apply opt_eqb_true in E1. apply opt_eqb_true in E2.
      apply opt_eqb_true in E5. apply uri_mismatch_false in E3.
      apply nonempty_true in E9.
      pose proof E10 as (R1 & R2 & R3 & R4 & R5).
      repeat split; try assumption; try (apply E3); try (apply R4; assumption).
      + intros Hq. apply nonempty_true in Hq. rewrite Hq in E4.
        cbn [andb] in E4. apply negb_false_iff in E4.
        apply opt_eqb_true in E4. exact E4.
      + intros r Hr Hne. rewrite Hr in E6. apply nonempty_true in Hne.
        rewrite Hne in E6. cbn [andb] in E6. apply negb_false_iff in E6.
        apply opt_eqb_true in E6. congruence.
    - intros (u & p & A1 & A2 & A3 & A4 & A5 & A6 & A7 & A8 & A9 & A10).
      rewrite A1, A2, A5, !opt_eqb_refl. cbn [negb].
      apply uri_mismatch_false in A3. rewrite A3.
      replace (nonempty (c_qop e) && negb (opt_eqb (dget k_qop d) (c_qop e)))
        with false.
      2:{ destruct (nonempty (c_qop e)) eqn:Q; [|reflexivity].
          apply nonempty_true in Q. rewrite (A4 Q), opt_eqb_refl.
          reflexivity. }
      replace (match c_user e with
               | Some u0 =>
                   nonempty u0 && negb (opt_eqb (dget k_username d) u0)
               | None => false
               end) with false.
      2:{ destruct (c_user e) as [r|] eqn:R; [|reflexivity].
          destruct (nonempty r) eqn:N; [|reflexivity].
          apply nonempty_true in N. rewrite <- (A6 r eq_refl N), A7.
          rewrite opt_eqb_refl. reflexivity. }
      pose proof A10 as (_ & _ & _ & _ & Hr). rewrite Hr. cbn [is_some negb].
      rewrite A7, A8. apply nonempty_true in A9. rewrite A9. cbn [negb].
      apply check_response_iff in A10. rewrite A10. reflexivity.
  Qed.

  (* ------------------------------------------------------ the gate *)
  Lemma check_nonce_true d e :
    check_nonce d e = Some true <->
    dget k_nonce d <> None /\
    check_token Ht (dgetd k_nonce d) (c_secret e) (r_client e) (c_timeout e)
                (r_time e) = Some true.
  Proof.
    unfold Digest.check_nonce, dgetd. destruct (dget k_nonce d) as [n|].
    - split; [intros H; split; [discriminate|exact H]|intros [_ H]; exact H].
    - split.
      + destruct (check_token Ht [] (c_secret e) (r_client e) (c_timeout e)
                              (r_time e)); cbn [option_map]; discriminate.
      + intros [H _]. contradiction.
  Qed.

  Theorem gate_run_iff d e u :
    gate (Some d) e = Run u <->
    dget k_type d = Some s_Digest /\
    check_nonce d e = Some true /\
    exists p, cred_ok d e u p.
  Proof.
    unfold Digest.gate. split.
    - destruct (dget k_type d) as [ty|]; [|discriminate].
      destruct (lz_eqb ty s_Digest) eqn:T; cbn [negb]; [|discriminate].
      apply lz_eqb_eq in T. subst ty.
      destruct (check_nonce d e) as [[|]|]; try discriminate.
      destruct (check_credentials d e) eqn:C; cbn [negb]; [|discriminate].
      apply check_credentials_iff in C. destruct C as (u' & p & C).
      pose proof C as (_ & _ & _ & _ & _ & _ & U & _).
      rewrite U. intros [= <-]. repeat split. exists p. exact C.
    - intros (T & N & p & C). rewrite T, lz_eqb_refl, N. cbn [negb].
      assert (C' : check_credentials d e = true)
        by (apply check_credentials_iff; exists u, p; exact C).
      rewrite C'. cbn [negb].
      destruct C as (_ & _ & _ & _ & _ & _ & U & _). rewrite U. reflexivity.
  Qed.

  (* every exception path is impossible or caught *)
  Theorem digest_total_dict d e x :
    dget k_type d <> None -> gate (Some d) e <> Crash x.
  Proof.
    intros Ty. unfold Digest.gate.
    destruct (dget k_type d) as [ty|]; [|contradiction].
    destruct (negb (lz_eqb ty s_Digest)); [discriminate|].
    destruct (check_nonce d e) as [[|]|] eqn:N; try discriminate.
    - destruct (check_credentials d e) eqn:C; cbn [negb]; [|discriminate].
      apply check_credentials_iff in C.
      destruct C as (u & p & _ & _ & _ & _ & _ & _ & U & _).
      rewrite U. discriminate.
    - apply check_nonce_total in N. contradiction.
  Qed.

  Theorem digest_total ty fields e x :
    gate (Some (dset k_type ty fields)) e <> Crash x.
  Proof. apply digest_total_dict. rewrite dget_dset_eq. discriminate. Qed.

  Lemma parse_has_type raw : dget k_type (parse_authorization Unq raw) <> None.
  Proof.
    unfold parse_authorization. cbv zeta.
    match goal with
    | |- context [match ?o with Some _ => _ | None => _ end] => destruct o
    end; [match goal with
          | |- context [if ?b then _ else _] => destruct b
          end|]; dsimp; discriminate.
  Qed.

  Theorem digest_total_raw raw e x :
    gate_raw Ht Hh Ho Unq raw e <> Crash x.
  Proof.
    unfold gate_raw. destruct raw as [r|]; cbn [option_map].
    - apply digest_total_dict. apply parse_has_type.
    - cbn. discriminate.
  Qed.

  Theorem no_header_denied e : gate None e = Deny401 false.
  Proof. reflexivity. Qed.

  (* soundness *)
  Theorem digest_sound d e u :
    gate (Some d) e = Run u ->
    dget k_type d = Some s_Digest /\
    dget k_username d = Some u /\
    (exists p,
        lookup_password e (Some u) = Some p /\ p <> [] /\
        dget k_response d =
        Some (rfc_response (is_sess e) (nonempty (c_qop e)) p
                           (dgetd k_nonce d) (dgetd k_nc d) (dgetd k_cnonce d)
                           (dgetd k_qop d) (r_method e) (dgetd k_uri d))) /\
    (forall r, c_user e = Some r -> r <> [] -> u = r) /\
    dget k_algorithm d = Some (c_algorithm e) /\
    dget k_opaque d = Some (Ho (r_host e)) /\
    (c_qop e <> [] -> dget k_qop d = Some (c_qop e)) /\
    dget k_realm d = Some (c_realm e) /\
    (dget k_uri d <> None /\
     Unq (fst (split_uri (dgetd k_uri d))) = req_path e /\
     snd (split_uri (dgetd k_uri d)) = req_query e) /\
    (dget k_nonce d <> None /\
     check_token Ht (dgetd k_nonce d) (c_secret e) (r_client e) (c_timeout e)
                 (r_time e) = Some true).
  Proof.
    intros G. apply gate_run_iff in G. destruct G as (T & N & p & C).
    apply check_nonce_true in N.
    destruct C as (A1 & A2 & A3 & A4 & A5 & A6 & A7 & A8 & A9 & A10).
    destruct A10 as (R1 & R2 & R3 & R4 & R5).
    repeat split; try assumption; try (apply A3); try (apply N).
    exists p. repeat split; assumption.
  Qed.

  Theorem digest_altered_response_rejected d e u p :
    lookup_password e (dget k_username d) = Some p ->
    dget k_response d <>
    Some (rfc_response (is_sess e) (nonempty (c_qop e)) p
                       (dgetd k_nonce d) (dgetd k_nc d) (dgetd k_cnonce d)
                       (dgetd k_qop d) (r_method e) (dgetd k_uri d)) ->
    gate (Some d) e <> Run u.
  Proof.
    intros L R G. apply digest_sound in G.
    destruct G as (_ & U & (p' & L' & _ & R') & _).
    rewrite U in L. rewrite L in L'. injection L' as <-. contradiction.
  Qed.

  (* stale *)
  Theorem stale_iff hdr e :
    gate hdr e = Deny401 true <->
    exists d, hdr = Some d /\ dget k_type d = Some s_Digest /\
              check_nonce d e = Some false.
  Proof.
    unfold Digest.gate. split.
    - destruct hdr as [d|]; [|discriminate].
      destruct (dget k_type d) as [ty|] eqn:Ty; [|discriminate].
      destruct (lz_eqb ty s_Digest) eqn:T; cbn [negb]; [|discriminate].
      apply lz_eqb_eq in T. subst ty.
      destruct (check_nonce d e) as [[|]|] eqn:N; try discriminate.
      + destruct (negb (check_credentials d e)); [discriminate|].
        destruct (dget k_username d); discriminate.
      + intros _. exists d. repeat split; assumption.
    - intros (d & -> & T & N). rewrite T, lz_eqb_refl, N. reflexivity.
  Qed.

  Theorem valid_nonce_never_stale d e :
    check_nonce d e = Some true -> gate (Some d) e <> Deny401 true.
  Proof.
    intros N G. apply stale_iff in G. destruct G as (d' & [= <-] & _ & N').
    congruence.
  Qed.

  (* -------------------------------------------- the RFC 7616 client *)
  Section Fields.
    Variables alg qop realm opaque user pw nonce nc cnonce method uri : str.
    Let F := rfc7616_fields alg qop realm opaque user pw nonce nc cnonce
                            method uri.
    Let sess := ends_with alg s_sess.
    Let qon := nonempty qop.

    Lemma F_type : dget k_type F = Some s_Digest.
    Proof. reflexivity. Qed.
    Lemma F_username : dget k_username F = Some user.
    Proof. reflexivity. Qed.
    Lemma F_realm : dget k_realm F = Some realm.
    Proof. reflexivity. Qed.
    Lemma F_nonce : dget k_nonce F = Some nonce.
    Proof. reflexivity. Qed.
    Lemma F_uri : dget k_uri F = Some uri.
    Proof. reflexivity. Qed.
    Lemma F_algorithm : dget k_algorithm F = Some alg.
    Proof. reflexivity. Qed.
    Lemma F_opaque : dget k_opaque F = Some opaque.
    Proof. reflexivity. Qed.
    Lemma F_response :
      dget k_response F =
      Some (rfc_response sess qon (rfc_A1 user realm pw) nonce nc cnonce qop
                         method uri).
    Proof. reflexivity. Qed.
    Lemma F_qop : dget k_qop F = if qon then Some qop else None.
    Proof.
      subst F qon. unfold Digest.rfc7616_fields.
      destruct (nonempty qop); [reflexivity|].
      destruct (ends_with alg s_sess); reflexivity.
    Qed.
    Lemma F_nc : dget k_nc F = if qon then Some nc else None.
    Proof.
      subst F qon. unfold Digest.rfc7616_fields.
      destruct (nonempty qop); [reflexivity|].
      destruct (ends_with alg s_sess); reflexivity.
    Qed.
    Lemma F_cnonce : dget k_cnonce F = if sess || qon then Some cnonce else None.
    Proof.
      subst F qon sess. unfold Digest.rfc7616_fields.
      destruct (nonempty qop); [rewrite orb_true_r; reflexivity|].
      destruct (ends_with alg s_sess); reflexivity.
    Qed.

    (* the arguments the server reads back are those the client used *)
    Lemma F_args p m :
      rfc_response sess qon p (dgetd k_nonce F) (dgetd k_nc F)
                   (dgetd k_cnonce F) (dgetd k_qop F) m (dgetd k_uri F) =
      rfc_response sess qon p nonce nc cnonce qop m uri.
    Proof.
      unfold dgetd. rewrite F_nonce, F_nc, F_cnonce, F_qop, F_uri.
      unfold Digest.rfc_response. destruct sess, qon; reflexivity.
    Qed.
  End Fields.

  Lemma rfc_response_inj_ha1 s q a a' n nc c qp m u :
    injective Hh ->
    rfc_response s q a n nc c qp m u = rfc_response s q a' n nc c qp m u ->
    a = a'.
  Proof.
    intros Inj. unfold Digest.rfc_response.
    destruct s, q; intros H; apply Inj in H; apply colon_inj_l in H;
      try (apply Inj in H; apply colon_inj_l in H); exact H.
  Qed.

  Lemma rfc_response_inj_method s q a n nc c qp m m' u :
    injective Hh ->
    rfc_response s q a n nc c qp m u = rfc_response s q a n nc c qp m' u ->
    m = m'.
  Proof.
    intros Inj. unfold Digest.rfc_response.
    destruct q; intros H; apply Inj in H;
      repeat (apply colon_inj_r in H); apply Inj in H;
      apply colon_inj_l in H; exact H.
  Qed.

  Lemma rfc_A1_inj_pw user realm pw pw' :
    injective Hh -> rfc_A1 user realm pw = rfc_A1 user realm pw' -> pw = pw'.
  Proof.
    intros Inj H. apply Inj in H. repeat (apply colon_inj_r in H). exact H.
  Qed.

  (* completeness: a header built per RFC 7616 runs the endpoint, for every
     algorithm name (with or without -sess) and every qop setting *)
  Theorem digest_complete e user pw nonce nc cnonce uri :
    lookup_password e (Some user) = Some (rfc_A1 user (c_realm e) pw) ->
    rfc_A1 user (c_realm e) pw <> [] ->
    (forall r, c_user e = Some r -> r <> [] -> user = r) ->
    Unq (fst (split_uri uri)) = req_path e ->
    snd (split_uri uri) = req_query e ->
    check_token Ht nonce (c_secret e) (r_client e) (c_timeout e) (r_time e)
    = Some true ->
    gate (Some (rfc7616_fields (c_algorithm e) (c_qop e) (c_realm e)
                               (Ho (r_host e)) user pw nonce nc cnonce
                               (r_method e) uri)) e = Run user.
  Proof.
    intros L Ne Req U1 U2 N. apply gate_run_iff. split; [apply F_type|]. split.
    - apply check_nonce_true. unfold dgetd. rewrite F_nonce.
      split; [discriminate|exact N].
    - exists (rfc_A1 user (c_realm e) pw). unfold cred_ok, resp_ok, is_sess.
      rewrite F_args. unfold dgetd.
      rewrite F_algorithm, F_opaque, F_uri, F_realm, F_username, F_nonce,
        F_response, F_qop, F_nc, F_cnonce.
      repeat split; try assumption; try discriminate.
      + intros Q. apply nonempty_true in Q. rewrite Q. reflexivity.
      + intros Q. rewrite Q. discriminate.
      + rewrite H. discriminate.
      + rewrite H. discriminate.
  Qed.

  Theorem digest_wrong_password_rejected e user pw pw' nonce nc cnonce uri u :
    injective Hh ->
    lookup_password e (Some user) = Some (rfc_A1 user (c_realm e) pw) ->
    pw' <> pw ->
    gate (Some (rfc7616_fields (c_algorithm e) (c_qop e) (c_realm e)
                               (Ho (r_host e)) user pw' nonce nc cnonce
                               (r_method e) uri)) e <> Run u.
  Proof.
    intros Inj L Ne G. apply digest_sound in G.
    destruct G as (_ & U & (p & L' & _ & R) & _).
    rewrite F_username in U. injection U as <-.
    rewrite L in L'. injection L' as <-.
    unfold is_sess in R. rewrite F_args, F_response in R. injection R as R.
    apply rfc_response_inj_ha1 in R; [|exact Inj].
    apply rfc_A1_inj_pw in R; [|exact Inj]. contradiction.
  Qed.

  Theorem digest_wrong_method_rejected e user pw m' nonce nc cnonce uri u :
    injective Hh ->
    lookup_password e (Some user) = Some (rfc_A1 user (c_realm e) pw) ->
    m' <> r_method e ->
    gate (Some (rfc7616_fields (c_algorithm e) (c_qop e) (c_realm e)
                               (Ho (r_host e)) user pw nonce nc cnonce
                               m' uri)) e <> Run u.
  Proof.
    intros Inj L Ne G. apply digest_sound in G.
    destruct G as (_ & U & (p & L' & _ & R) & _).
    rewrite F_username in U. injection U as <-.
    rewrite L in L'. injection L' as <-.
    unfold is_sess in R. rewrite F_args, F_response in R. injection R as R.
    apply rfc_response_inj_method in R; [|exact Inj]. contradiction.
  Qed.

  (* --------------------------------------------- nonce age and stale *)
  Lemma issued_token_check s c T t0 t1 tok :
    get_token Ht s c (Some T) 0 t0 = Some tok ->
    check_token Ht tok s c (Some T) t1 = verify Ht s c s c (Some T) t0 t1.
  Proof. intros G. unfold verify. rewrite G. reflexivity. Qed.

  Theorem digest_complete_fresh e user pw nonce nc cnonce uri T t0 :
    injective Ht ->
    lookup_password e (Some user) = Some (rfc_A1 user (c_realm e) pw) ->
    rfc_A1 user (c_realm e) pw <> [] ->
    (forall r, c_user e = Some r -> r <> [] -> user = r) ->
    Unq (fst (split_uri uri)) = req_path e ->
    snd (split_uri uri) = req_query e ->
    c_timeout e = Some T -> 0 < T ->
    get_token Ht (c_secret e) (r_client e) (Some T) 0 t0 = Some nonce ->
    0 <= t0 <= r_time e -> r_time e - t0 < T * usec ->
    gate (Some (rfc7616_fields (c_algorithm e) (c_qop e) (c_realm e)
                               (Ho (r_host e)) user pw nonce nc cnonce
                               (r_method e) uri)) e = Run user.
  Proof.
    intros Inj L Ne Req U1 U2 HT Tpos G T01 Fresh.
    apply digest_complete; try assumption.
    rewrite HT, (issued_token_check _ _ _ _ _ _ G).
    apply fresh_verifies; assumption.
  Qed.

  (* stale=true on a nonce this server issued means the nonce is at least
     one period old *)
  Theorem stale_only_when_nonce_old d e T t0 tok :
    injective Ht ->
    c_timeout e = Some T -> 0 < T ->
    dget k_nonce d = Some tok ->
    get_token Ht (c_secret e) (r_client e) (Some T) 0 t0 = Some tok ->
    0 <= t0 <= r_time e ->
    gate (Some d) e = Deny401 true ->
    T * usec <= r_time e - t0 /\
    r_time e / (T * usec) <> t0 / (T * usec) /\
    r_time e / (T * usec) <> t0 / (T * usec) + 1.
  Proof.
    intros Inj HT Tpos Dn G T01 S. apply stale_iff in S.
    destruct S as (d' & [= <-] & _ & N).
    unfold Digest.check_nonce in N. rewrite Dn, HT in N.
    rewrite (issued_token_check _ _ _ _ _ _ G) in N.
    assert (W : ~ (window (r_time e) T = window t0 T \/
                   window (r_time e) T = window t0 T + 1)).
    { intros W. apply (verify_iff_windows Ht Inj (c_secret e) (r_client e))
        in W; try lia. congruence. }
    unfold window in W. split; [|split; intros E; apply W; auto].
    destruct (Z_lt_le_dec (r_time e - t0) (T * usec)) as [Lt|]; [|assumption].
    rewrite (fresh_verifies Ht Inj) in N by assumption. discriminate.
  Qed.

  (* ... and an expired nonce of a Digest header is always answered stale,
     whatever the other fields are *)
  Theorem expired_nonce_is_stale d e T t0 tok :
    injective Ht ->
    c_timeout e = Some T -> 0 < T ->
    dget k_type d = Some s_Digest ->
    dget k_nonce d = Some tok ->
    get_token Ht (c_secret e) (r_client e) (Some T) 0 t0 = Some tok ->
    0 <= t0 <= r_time e -> 2 * T * usec <= r_time e - t0 ->
    gate (Some d) e = Deny401 true.
  Proof.
    intros Inj HT Tpos Ty Dn G T01 Old. apply stale_iff. exists d.
    repeat split; [assumption|].
    unfold Digest.check_nonce. rewrite Dn, HT.
    rewrite (issued_token_check _ _ _ _ _ _ G).
    apply old_rejected; assumption.
  Qed.

  (* a refusal with a valid nonce is never marked stale, and everything
     that is not Run is a 401 *)
  Theorem not_run_is_401 hdr e :
    (forall d, hdr = Some d -> dget k_type d <> None) ->
    (exists u, gate hdr e = Run u) \/ (exists s, gate hdr e = Deny401 s).
  Proof.
    intros Ty. destruct (gate hdr e) as [u|s|x] eqn:G.
    - left. exists u. reflexivity.
    - right. exists s. reflexivity.
    - exfalso. destruct hdr as [d|]; [|discriminate].
      apply digest_total_dict in G; [exact G|]. apply Ty. reflexivity.
  Qed.
End Proofs.

(* the same statement spelled out for the configurations PoorWSGI accepts *)
Theorem digest_complete_grid Ht Hh Ho Unq e user pw nonce nc cnonce uri :
  In (c_algorithm e) [s2l "MD5"; s2l "MD5-sess"; s2l "SHA-256";
                      s2l "SHA-256-sess"] ->
  c_qop e = s2l "auth" \/ c_qop e = [] ->
  lookup_password e (Some user) = Some (rfc_A1 Hh user (c_realm e) pw) ->
  rfc_A1 Hh user (c_realm e) pw <> [] ->
  (forall r, c_user e = Some r -> r <> [] -> user = r) ->
  Unq (fst (split_uri uri)) = req_path e ->
  snd (split_uri uri) = req_query e ->
  check_token Ht nonce (c_secret e) (r_client e) (c_timeout e) (r_time e)
  = Some true ->
  gate Ht Hh Ho Unq
       (Some (rfc7616_fields Hh (c_algorithm e) (c_qop e) (c_realm e)
                             (Ho (r_host e)) user pw nonce nc cnonce
                             (r_method e) uri)) e = Run user.
Proof. intros _ _. apply digest_complete. Qed.

(* ------------------------------------------------------- non-vacuity *)
Definition ex_env (alg qop : string) (t : Z) : env :=
  mk_env (s2l alg) (s2l qop) (Some 300)
         [(s2l "Zone", [(s2l "user", rfc_A1 (fakeH 77) (s2l "user")
                                            (s2l "Zone") (s2l "pw"))])]
         (s2l "key") (s2l "Zone") None (s2l "GET") (s2l "/admin") (s2l "x=1")
         (s2l "UA") (s2l "host") t.
Definition ex_nonce : str :=
  match get_token (fakeH 84) (s2l "key") (s2l "UA") (Some 300) 0 900000000
  with Some t => t | None => [] end.
Definition ex_fields (alg qop uri pw method : string) : dict :=
  rfc7616_fields (fakeH 77) (s2l alg) (s2l qop) (s2l "Zone")
                 (fakeH 79 (s2l "host")) (s2l "user") (s2l pw) ex_nonce
                 (s2l "00000001") (s2l "abc") (s2l method) (s2l uri).
Definition ex_gate := gate (fakeH 84) (fakeH 77) (fakeH 79) unquote.

Example digest_example :
  (* correct header, 100 s after the nonce was issued: all four algorithms
     and both qop settings *)
  ex_gate (Some (ex_fields "MD5" "auth" "/admin?x=1" "pw" "GET"))
          (ex_env "MD5" "auth" 1000000000) = Run (s2l "user") /\
  ex_gate (Some (ex_fields "MD5-sess" "" "/admin?x=1" "pw" "GET"))
          (ex_env "MD5-sess" "" 1000000000) = Run (s2l "user") /\
  ex_gate (Some (ex_fields "SHA-256" "" "http://host/admin?x=1" "pw" "GET"))
          (ex_env "SHA-256" "" 1000000000) = Run (s2l "user") /\
  ex_gate (Some (ex_fields "SHA-256-sess" "auth" "/%61dmin?x=1" "pw" "GET"))
          (ex_env "SHA-256-sess" "auth" 1000000000) = Run (s2l "user") /\
  (* wrong password, wrong method, uri that only ends with the target,
     percent-decoded query, other algorithm *)
  ex_gate (Some (ex_fields "MD5" "auth" "/admin?x=1" "pW" "GET"))
          (ex_env "MD5" "auth" 1000000000) = Deny401 false /\
  ex_gate (Some (ex_fields "MD5" "auth" "/admin?x=1" "pw" "POST"))
          (ex_env "MD5" "auth" 1000000000) = Deny401 false /\
  ex_gate (Some (ex_fields "MD5" "auth" "/x/admin?x=1" "pw" "GET"))
          (ex_env "MD5" "auth" 1000000000) = Deny401 false /\
  ex_gate (Some (ex_fields "MD5" "auth" "/admin?x=%31" "pw" "GET"))
          (ex_env "MD5" "auth" 1000000000) = Deny401 false /\
  ex_gate (Some (ex_fields "MD5" "auth" "/admin?x=1" "pw" "GET"))
          (ex_env "SHA-256" "auth" 1000000000) = Deny401 false /\
  (* the correct header 1100 s after issue *)
  ex_gate (Some (ex_fields "MD5" "auth" "/admin?x=1" "pw" "GET"))
          (ex_env "MD5" "auth" 2000000000) = Deny401 true /\
  (* no header *)
  ex_gate None (ex_env "MD5" "auth" 0) = Deny401 false.
Proof. repeat split; vm_compute; reflexivity. Qed.

Example tokenizer_example :
  let d := parse_authorization unquote
             (s2l "digest realm=""Admin Zone"", nc=00000001,x=, uri=/a, username*=UTF-8''J%C3%BCrgen, realm=""r2""") in
  dget k_type d = Some s_Digest /\ dget k_realm d = Some (s2l "r2") /\
  dget k_nc d = Some (s2l "00000001") /\ dget k_uri d = None /\
  dget k_username d = Some [74; 252; 114; 103; 101; 110].
Proof. repeat split; vm_compute; reflexivity. Qed.

Example split_uri_example :
  split_uri (s2l "/a%20b?x=1?y") = (s2l "/a%20b", s2l "x=1?y") /\
  split_uri (s2l "/admin") = (s2l "/admin", []) /\
  split_uri (s2l "http://host:80/admin?q") = (s2l "/admin", s2l "q") /\
  split_uri (s2l "http://host") = (s2l "/", []).
Proof. repeat split; vm_compute; reflexivity. Qed.
