(* The hand model of the Digest challenge of the 401 page (model/Challenge.v)
   equals the definition generated from the current poorwsgi/results.py
   unauthorized (gen/ChallengeGen.v), with get_token of session.py being the
   generated gen_get_token (gen/TokenGen.v, equal to model/Token.v by
   proofs/TokenGenEq.v). *)
From Coq Require Import ZArith List Bool Lia String.
Require Import PW.lib.Val PW.lib.ValFacts PW.lib.Dec PW.lib.Py PW.lib.PyDigest
  PW.lib.PyChallenge PW.model.Token PW.model.Digest PW.model.Challenge
  PW.gen.TokenGen PW.proofs.TokenGenEq PW.gen.ChallengeGen.
Import ListNotations.
Open Scope list_scope.
Open Scope Z_scope.

Definition inj_os (o : option str) : pv :=
  match o with Some s => PStr s | None => PNone end.

(* a Python exception of the model as the error of lib/Py.v *)
Definition inj_exn (exn : string) (msg : str) : perr :=
  if String.eqb exn "ZeroDivisionError" then ZeroDivisionError
  else Raised exn (PStr msg).

Definition k_www : str := s2l "WWW-Authenticate".
Definition inj_headers (h : header_text) : pv :=
  match h with
  | Some t => PDict [PTuple [PStr k_www; PStr t]]
  | None => PNone
  end.

Section Eq.
  Variable Ht Ho Esc : list Z -> list Z.
  Variable Page : list pv -> res pv.

  (* Response(content, headers=headers, status_code=HTTP_UNAUTHORIZED), the
     content being the page text for (method, escaped uri, escaped admin) *)
  Definition response_of (m u a : str) (h : header_text) : res pv :=
    content <- Page [PStr m; PStr (Esc u); PStr (Esc a)] ;;
    pctor (s2l "Response") [content]
          [PTuple [PStr (s2l "headers"); inj_headers h];
           PTuple [PStr (s2l "status_code"); PInt 401]].

  Definition inj_outcome (m u a : str) (o : outcome header_text) : res pv :=
    match o with
    | Raises exn msg => Err (inj_exn exn msg)
    | Returns h => response_of m u a h
    end.

  (* get_token of session.py at clock t *)
  Definition GTt (t : Z) (s c timeout e : pv) : res pv :=
    gen_get_token Ht s c timeout e (clock t).

  Theorem gen_unauthorized_eq c r realm stale m u a err :
    0 <= q_time r -> (forall T, a_timeout c = Some T -> 0 <= T) ->
    gen_unauthorized Ho Esc (GTt (q_time r)) Page
      (inj_os (a_type c)) (PStr (q_secret r)) (PStr (q_client r))
      (inj_to (a_timeout c)) (PStr (q_host r)) (inj_os (a_qop c))
      (PStr (a_algorithm c)) (PStr m) (PStr u) (PStr a)
      (inj_os realm) (PBool stale) err
    = inj_outcome m u a (challenge Ht Ho c r realm stale).
  Proof.
    intros Ht0 HT.
    destruct c as [ty alg qop to], r as [sec cli host t].
    cbn [a_type a_algorithm a_qop a_timeout q_secret q_client q_host q_time] in *.
    unfold gen_unauthorized, challenge, issued_nonce, issued_opaque, GTt.
    cbn [a_type a_algorithm a_qop a_timeout q_secret q_client q_host q_time].
    cbv zeta.
    match goal with
    | |- (if truthy err then ?X else ?X) = _ =>
        transitivity X; [destruct (truthy err); reflexivity|]
    end.
    rewrite gen_get_token_eq by assumption.
    destruct (get_token Ht sec cli to 0 t) as [nonce|];
      destruct ty as [ty|]; try reflexivity;
      unfold peq, Py.peq; cbn [inj_os as_dict bind pv_eqb opt_eqb];
      unfold s_Digest;
      (destruct (lz_eqb ty [68; 105; 103; 101; 115; 116]);
       [|reflexivity]);
      destruct realm as [[|r0 rs]|]; try reflexivity;
      destruct qop as [[|q0 qs]|]; destruct stale; reflexivity.
  Qed.
End Eq.
