(* T-tie for the two static methods of poorwsgi/headers.py class Headers:
   the definitions generated from the current source (gen/LatinGen.v, by
   harness/py2v_latin.py) equal model/Headers.v's [iso88591] and [utf8], and
   gen_iso88591 equals the primitive [p_iso88591] of lib/PyHeaders.v on
   which the Headers tie (gen/HeadersGen.v) rests. *)
From Coq Require Import ZArith List Bool.
Require Import PW.lib.Val PW.model.Headers PW.lib.PyHeaders PW.lib.PyLatin
               PW.gen.LatinGen.
Import ListNotations.
Open Scope list_scope.
Open Scope Z_scope.

(* ------------------------------------------------------ Headers.iso88591 *)
(* for EVERY Python value of lib/PyHeaders.v (str with or without lone
   surrogates, bytes, None, int, bool, list, tuple, set, dict, negotiation
   lists, other objects): the generated function is the primitive *)
Theorem gen_iso88591_is_primitive :
  forall v : hv, gen_iso88591 v = plift (p_iso88591 v).
Proof.
  intros v. unfold gen_iso88591, p_iso88591, iso88591.
  destruct v; try reflexivity.
  - (* str *)
    cbn [plift p_isinstance existsb isinstance1 orb pbind truthy ptry
         p_encode_utf8].
    destruct (encodable s); reflexivity.
  - (* a negotiation list / tuple *)
    destruct tup; reflexivity.
Qed.

(* ... and it is the model's function on the model's arguments *)
Lemma p_iso88591_is_model :
  forall a : arg, plift (p_iso88591 (emb_arg a)) = emb_res_str (iso88591 a).
Proof.
  intros [s|b| |z]; try reflexivity.
  unfold p_iso88591, emb_arg. destruct (iso88591 (AStr s)); reflexivity.
Qed.

Theorem gen_iso88591_is_model :
  forall a : arg, gen_iso88591 (emb_arg a) = emb_res_str (iso88591 a).
Proof.
  intros a. rewrite gen_iso88591_is_primitive. apply p_iso88591_is_model.
Qed.

(* no UnicodeError leaves Headers.iso88591, whatever the argument *)
Corollary gen_iso88591_raises_model_exn :
  forall v e, gen_iso88591 v = PErr e -> exists e', e = PExn e'.
Proof.
  intros v e. rewrite gen_iso88591_is_primitive.
  destruct (p_iso88591 v) as [w|e']; cbn [plift]; intros H;
    [discriminate|]. exists e'. congruence.
Qed.

(* ---------------------------------------------------------- Headers.utf8 *)
(* the argument is a str (the model's domain: [utf8 : str -> str]) *)
Theorem gen_utf8_is_model :
  forall s : str, gen_utf8 (VStr s) = POk (VStr (utf8 s)).
Proof.
  intros s. unfold gen_utf8, utf8.
  cbn [p_encode_latin1 pbind ptry].
  destruct (forallb is_byte s); [|reflexivity].
  cbn [pbind p_decode_utf8 ptry].
  destruct (utf8_decode s); reflexivity.
Qed.

(* outside that domain: bytes, None, int, ... have no .encode -- the
   AttributeError is not a UnicodeError and leaves the method *)
Theorem gen_utf8_not_str :
  forall v : hv, (forall s, v <> VStr s) ->
                 gen_utf8 v = PErr (PExn AttributeError).
Proof.
  intros v H. destruct v; try reflexivity. exfalso. exact (H s eq_refl).
Qed.

(* ------------------------------------------------------ Headers.__iter__ *)
(* the model has no operation of its own for iteration: "OItems -- items(),
   also list(h)".  What a step of the model is as a run of __iter__ whose
   iterator is consumed at once: *)
Definition emb_iter_step (r : state * outcome) : hv * res (list hv) :=
  (emb_state (fst r),
   match snd r with
   | OPairs l => Ok (map emb_pair l)
   | Raised e => Err e
   | _ => Err TypeError
   end).

Theorem gen_iter_is_model :
  forall s : state, gen_iter (emb_state s) = emb_iter_step (step s OItems).
Proof. intros s. reflexivity. Qed.

(* spelled out: the stored list is unchanged and the pairs come in order *)
Corollary gen_iter_yields_the_pairs :
  forall s : state, gen_iter (emb_state s) = (emb_state s, Ok (map emb_pair s)).
Proof. intros s. reflexivity. Qed.
