(* Proofs for C10 (model: PW.model.QueryForm).
   1. UTF-8: decode (encode s) = s for every text of Unicode scalar values,
      one arithmetic case per length class (lia + Euclidean division).
   2. Percent/plus codec: every legal encoding (relation [qs_of]) of a pair
      list is parsed back by parse_qsl; quote_plus/urlencode is one such.
   3. strip / Args / form, grouping (parse_qs), scalar/list collapse, key
      order, accessor trios, body read plan. *)
From Coq Require Import ZArith List Bool Lia String.
Require Import PW.lib.Val PW.lib.ValFacts PW.model.QueryForm.
Import ListNotations.
Open Scope Z_scope.

Ltac Zify.zify_post_hook ::= Z.to_euclidean_division_equations.

(* decide every integer comparison in the goal by lia *)
Ltac ztest :=
  repeat match goal with
  | |- context [?a <? ?b] =>
      first [ replace (a <? b) with true by (symmetry; apply Z.ltb_lt; lia)
            | replace (a <? b) with false by (symmetry; apply Z.ltb_ge; lia) ]
  | |- context [?a <=? ?b] =>
      first [ replace (a <=? b) with true by (symmetry; apply Z.leb_le; lia)
            | replace (a <=? b) with false by (symmetry; apply Z.leb_gt; lia) ]
  | |- context [?a =? ?b] =>
      first [ replace (a =? b) with true by (symmetry; apply Z.eqb_eq; lia)
            | replace (a =? b) with false by (symmetry; apply Z.eqb_neq; lia) ]
  end.

(* ------------------------------------------------------------- UTF-8 *)
Lemma dec1 b r : b < 128 -> utf8_dec (b :: r) = b :: utf8_dec r.
Proof. intros H. cbn [utf8_dec]. ztest. reflexivity. Qed.

Lemma dec2 b0 b1 r :
  194 <= b0 < 224 -> 128 <= b1 < 192 ->
  utf8_dec (b0 :: b1 :: r) = ((b0 - 192) * 64 + (b1 - 128)) :: utf8_dec r.
Proof.
  intros H0 H1. cbn [utf8_dec]. unfold is_cont. ztest. reflexivity.
Qed.

Lemma dec3 b0 b1 b2 r :
  224 <= b0 < 240 -> 128 <= b1 < 192 -> 128 <= b2 < 192 ->
  (b0 = 224 -> 160 <= b1) -> (b0 = 237 -> b1 < 160) ->
  utf8_dec (b0 :: b1 :: b2 :: r) =
  ((b0 - 224) * 4096 + (b1 - 128) * 64 + (b2 - 128)) :: utf8_dec r.
Proof.
  intros H0 H1 H2 Ha Hb. cbn [utf8_dec].
  replace (ok3 b0 b1) with true.
  - unfold is_cont. ztest. reflexivity.
  - symmetry. unfold ok3, is_cont.
    destruct (Z.eq_dec b0 224) as [E|E]; [specialize (Ha E)|];
    (destruct (Z.eq_dec b0 237) as [E'|E']; [specialize (Hb E')|]);
    try (exfalso; lia); ztest; reflexivity.
Qed.

Lemma dec4 b0 b1 b2 b3 r :
  240 <= b0 < 245 -> 128 <= b1 < 192 -> 128 <= b2 < 192 -> 128 <= b3 < 192 ->
  (b0 = 240 -> 144 <= b1) -> (b0 = 244 -> b1 < 144) ->
  utf8_dec (b0 :: b1 :: b2 :: b3 :: r) =
  ((b0 - 240) * 262144 + (b1 - 128) * 4096 + (b2 - 128) * 64 + (b3 - 128))
    :: utf8_dec r.
Proof.
  intros H0 H1 H2 H3 Ha Hb. cbn [utf8_dec].
  replace (ok4 b0 b1) with true.
  - unfold is_cont. ztest. reflexivity.
  - symmetry. unfold ok4, is_cont.
    destruct (Z.eq_dec b0 240) as [E|E]; [specialize (Ha E)|];
    (destruct (Z.eq_dec b0 244) as [E'|E']; [specialize (Hb E')|]);
    try (exfalso; lia); ztest; reflexivity.
Qed.

Lemma utf8_cp_roundtrip c r :
  valid_scalar c -> utf8_dec (utf8_enc_cp c ++ r) = c :: utf8_dec r.
Proof.
  intros Hv. unfold valid_scalar in Hv. unfold utf8_enc_cp.
  destruct (c <? 128) eqn:E1; [apply Z.ltb_lt in E1|apply Z.ltb_ge in E1].
  { cbn [app]. apply dec1. lia. }
  destruct (c <? 2048) eqn:E2; [apply Z.ltb_lt in E2|apply Z.ltb_ge in E2].
  { cbn [app]. rewrite dec2 by lia. f_equal. lia. }
  destruct (c <? 65536) eqn:E3; [apply Z.ltb_lt in E3|apply Z.ltb_ge in E3].
  { cbn [app]. rewrite dec3 by lia. f_equal. lia. }
  cbn [app]. rewrite dec4 by lia. f_equal. lia.
Qed.

Theorem utf8_roundtrip s : valid_scalar_text s -> utf8_dec (utf8_enc s) = s.
Proof.
  unfold valid_scalar_text, utf8_enc. induction 1 as [|c s Hc Hs IH].
  - reflexivity.
  - cbn [flat_map]. rewrite utf8_cp_roundtrip by assumption. f_equal. exact IH.
Qed.

(* ------------------------------------------------------ boolean helpers *)
Ltac b2z :=
  repeat match goal with
  | H : _ && _ = true |- _ => apply andb_true_iff in H; destruct H
  | H : _ || _ = true |- _ => apply orb_true_iff in H; destruct H
  | H : _ && _ = false |- _ => apply andb_false_iff in H; destruct H
  | H : _ || _ = false |- _ => apply orb_false_iff in H; destruct H
  | H : negb _ = true |- _ => apply negb_true_iff in H
  | H : negb _ = false |- _ => apply negb_false_iff in H
  | H : (_ <=? _) = true |- _ => apply Z.leb_le in H
  | H : (_ <? _) = true |- _ => apply Z.ltb_lt in H
  | H : (_ =? _) = true |- _ => apply Z.eqb_eq in H
  | H : (_ <=? _) = false |- _ => apply Z.leb_gt in H
  | H : (_ <? _) = false |- _ => apply Z.ltb_ge in H
  | H : (_ =? _) = false |- _ => apply Z.eqb_neq in H
  end.

(* ---------------------------------------------------------- hex digits *)
Lemma hexval_some h a :
  hexval h = Some a ->
  (48 <= h <= 57 \/ 65 <= h <= 70 \/ 97 <= h <= 102) /\ 0 <= a < 16.
Proof.
  unfold hexval.
  destruct ((48 <=? h) && (h <=? 57)) eqn:E1.
  { intros E; injection E as <-. b2z. lia. }
  destruct ((65 <=? h) && (h <=? 70)) eqn:E2.
  { intros E; injection E as <-. b2z; lia. }
  destruct ((97 <=? h) && (h <=? 102)) eqn:E3.
  { intros E; injection E as <-. b2z; lia. }
  discriminate.
Qed.

Lemma hexval_hexdig n : 0 <= n < 16 -> hexval (hexdig n) = Some n.
Proof.
  intros H. unfold hexdig. destruct (n <? 10) eqn:E; b2z; unfold hexval.
  - ztest. cbn [andb]. f_equal. lia.
  - ztest. cbn [andb]. f_equal. lia.
Qed.

(* characters that may occur inside an encoded key or value *)
Definition nospace (c : Z) : Prop := is_space c = false.

Lemma vis_nospace c : 33 <= c < 127 -> nospace c.
Proof. intros H. unfold nospace, is_space. ztest. reflexivity. Qed.

Lemma enc_chars t bs :
  enc_of t bs ->
  Forall (fun c => 33 <= c < 127 /\ c <> 38 /\ c <> 61) t.
Proof.
  induction 1 as [|b t bs Hb _ IH| t bs _ IH | h l b t bs Hh Hl _ IH].
  - constructor.
  - constructor; [|exact IH]. unfold lit_ok in Hb. b2z. lia.
  - constructor; [lia|exact IH].
  - apply hexval_some in Hh. apply hexval_some in Hl.
    repeat (constructor; [lia|]). exact IH.
Qed.

Lemma enc_nil t bs : enc_of t bs -> is_nil t = is_nil bs.
Proof. destruct 1; reflexivity. Qed.

(* percent-decoding undoes every legal encoding *)
Lemma unq_enc t bs : enc_of t bs -> unq_bytes (plus2sp t) = bs.
Proof.
  induction 1 as [|b t bs Hb _ IH| t bs _ IH | h l b t bs Hh Hl _ IH].
  - reflexivity.
  - unfold lit_ok in Hb. b2z. unfold plus2sp in *. cbn [map unq_bytes].
    ztest. cbn [unq_bytes]. ztest. rewrite IH. reflexivity.
  - unfold plus2sp in *. cbn [map]. ztest. cbn [unq_bytes]. ztest.
    rewrite IH. reflexivity.
  - pose proof (hexval_some _ _ Hh) as [Rh _].
    pose proof (hexval_some _ _ Hl) as [Rl _].
    unfold plus2sp in *. cbn [map]. ztest. cbn [unq_bytes]. ztest.
    rewrite Hh, Hl, IH. f_equal. lia.
Qed.

Lemma plus2sp_ascii t :
  Forall (fun c => 33 <= c < 127 /\ c <> 38 /\ c <> 61) t ->
  Forall (fun c => c < 128) (plus2sp t).
Proof.
  induction 1 as [|c t Hc _ IH]; [constructor|].
  unfold plus2sp in *. cbn [map]. constructor; [|exact IH].
  destruct (c =? 43); lia.
Qed.

Lemma utf8_dec_ascii s : Forall (fun c => c < 128) s -> utf8_dec s = s.
Proof.
  induction 1 as [|c s Hc _ IH]; [reflexivity|].
  rewrite dec1 by assumption. rewrite IH. reflexivity.
Qed.

Lemma unq_bytes_nopct s : has_pct s = false -> unq_bytes s = s.
Proof.
  unfold has_pct. induction s as [|c s IH]; [reflexivity|].
  cbn [existsb unq_bytes]. intros H. apply orb_false_iff in H as [H1 H2].
  rewrite Z.eqb_sym in H1. rewrite H1, IH by assumption. reflexivity.
Qed.

Lemma unq_runs_ascii s : forall acc,
  Forall (fun c => c < 128) s ->
  unq_runs s acc = utf8_dec (unq_bytes (rev acc ++ s)).
Proof.
  induction s as [|c s IH]; intros acc H.
  - cbn [unq_runs]. unfold flush_run. rewrite app_nil_r. reflexivity.
  - inversion H as [|? ? Hc Hs]; subst. cbn [unq_runs].
    replace (c <? 128) with true by (symmetry; apply Z.ltb_lt; assumption).
    rewrite IH by assumption. cbn [rev]. rewrite <- app_assoc. reflexivity.
Qed.

Lemma unquote_ascii s :
  Forall (fun c => c < 128) s -> unquote s = utf8_dec (unq_bytes s).
Proof.
  intros H. unfold unquote. destruct (has_pct s) eqn:E.
  - rewrite unq_runs_ascii by assumption. reflexivity.
  - rewrite unq_bytes_nopct by assumption.
    rewrite utf8_dec_ascii by assumption. reflexivity.
Qed.

(* a legally encoded text decodes to the text that was encoded *)
Lemma decode_enc t x :
  enc_of t (utf8_enc x) -> valid_scalar_text x -> unquote (plus2sp t) = x.
Proof.
  intros He Hv. rewrite unquote_ascii.
  - rewrite (unq_enc _ _ He). apply utf8_roundtrip. exact Hv.
  - apply plus2sp_ascii. eapply enc_chars. exact He.
Qed.

(* ------------------------------------------------------------ splitting *)
Lemma split_on_none sep a :
  Forall (fun c => c <> sep) a -> split_on sep a = [a].
Proof.
  induction 1 as [|c a Hc _ IH]; [reflexivity|].
  cbn [split_on]. ztest. rewrite IH. reflexivity.
Qed.

Lemma split_on_app sep a b :
  Forall (fun c => c <> sep) a ->
  split_on sep (a ++ sep :: b) = a :: split_on sep b.
Proof.
  induction 1 as [|c a Hc _ IH].
  - cbn [app split_on]. rewrite Z.eqb_refl. reflexivity.
  - cbn [app split_on]. ztest. rewrite IH. reflexivity.
Qed.

Lemma split1_app sep a b :
  Forall (fun c => c <> sep) a -> split1 sep (a ++ sep :: b) = (a, Some b).
Proof.
  induction 1 as [|c a Hc _ IH].
  - cbn [app split1]. rewrite Z.eqb_refl. reflexivity.
  - cbn [app split1]. ztest. rewrite IH. reflexivity.
Qed.

Lemma utf8_enc_nil v : is_nil (utf8_enc v) = is_nil v.
Proof.
  destruct v as [|c v]; [reflexivity|].
  unfold utf8_enc. cbn [flat_map]. unfold utf8_enc_cp.
  destruct (c <? 128); [reflexivity|]. destruct (c <? 2048); [reflexivity|].
  destruct (c <? 65536); reflexivity.
Qed.

Definition parse_all keep q := flat_map (parse_piece keep) (split_on 38 q).

Lemma parse_qsl_all keep q : parse_qsl keep q = parse_all keep q.
Proof.
  unfold parse_qsl, parse_all. destruct q; [|reflexivity].
  destruct keep; reflexivity.
Qed.

Lemma piece_ok keep ek ev k v :
  enc_of ek (utf8_enc k) -> enc_of ev (utf8_enc v) ->
  valid_scalar_text k -> valid_scalar_text v ->
  parse_piece keep (ek ++ 61 :: ev) = sel keep [(k, v)].
Proof.
  intros Hk Hv Vk Vv. unfold parse_piece.
  replace (is_nil (ek ++ 61 :: ev)) with false by (destruct ek; reflexivity).
  rewrite split1_app.
  2:{ eapply Forall_impl; [|eapply enc_chars; exact Hk]. cbn. intros; lia. }
  rewrite (enc_nil _ _ Hv), utf8_enc_nil.
  rewrite (decode_enc _ _ Hk Vk), (decode_enc _ _ Hv Vv).
  unfold sel, nonblank. cbn [filter snd].
  destruct keep, (is_nil v); reflexivity.
Qed.

Lemma piece_chars ek ev k v :
  enc_of ek k -> enc_of ev v ->
  Forall (fun c => c <> 38) (ek ++ 61 :: ev).
Proof.
  intros Hk Hv. apply Forall_app. split.
  - eapply Forall_impl; [|eapply enc_chars; exact Hk]. cbn. intros; lia.
  - constructor; [lia|].
    eapply Forall_impl; [|eapply enc_chars; exact Hv]. cbn. intros; lia.
Qed.

(* every legal encoding of the pairs is parsed back to the pairs *)
Theorem qsl_decodes keep q ps :
  qs_of q ps -> valid_pairs ps -> parse_qsl keep q = sel keep ps.
Proof.
  intros Hq. rewrite parse_qsl_all. unfold parse_all.
  induction Hq as [|ek ev k v Hk Hv|q ps _ IH|ek ev k v q ps Hk Hv _ IH];
    intros Hvalid.
  - destruct keep; reflexivity.
  - inversion Hvalid as [|? ? [Vk Vv] _]; subst. cbn [fst snd] in *.
    rewrite split_on_none by (eapply piece_chars; eassumption).
    cbn [flat_map]. rewrite app_nil_r. apply piece_ok; assumption.
  - cbn [split_on]. rewrite Z.eqb_refl. cbn [flat_map].
    replace (parse_piece keep []) with (@nil (list Z * list Z))
      by (destruct keep; reflexivity).
    apply IH. exact Hvalid.
  - inversion Hvalid as [|? ? [Vk Vv] Hrest]; subst. cbn [fst snd] in *.
    replace (ek ++ 61 :: ev ++ 38 :: q) with ((ek ++ 61 :: ev) ++ 38 :: q)
      by (rewrite <- app_assoc; reflexivity).
    rewrite split_on_app by (eapply piece_chars; eassumption).
    cbn [flat_map]. rewrite IH by assumption.
    rewrite (piece_ok keep ek ev k v) by assumption.
    unfold sel. destruct keep; [reflexivity|].
    cbn [filter]. destruct (nonblank (k, v)); reflexivity.
Qed.

(* ------------------------------------------ the quote_plus / urlencode spec *)
Lemma unreserved_lit b : unreserved b = true -> lit_ok b = true.
Proof.
  unfold unreserved. intros H. b2z; unfold lit_ok; ztest; reflexivity.
Qed.

Lemma quote_bytes_enc bs :
  Forall (fun b => 0 <= b < 256) bs -> enc_of (flat_map quote_byte bs) bs.
Proof.
  induction 1 as [|b bs Hb _ IH]; [constructor|].
  cbn [flat_map]. unfold quote_byte.
  destruct (unreserved b) eqn:E1.
  { cbn [app]. apply E_lit; [apply unreserved_lit; exact E1|exact IH]. }
  destruct (b =? 32) eqn:E2.
  { b2z. subst b. cbn [app]. apply E_plus. exact IH. }
  cbn [app]. apply E_pct; [apply hexval_hexdig; lia|apply hexval_hexdig; lia|
                           exact IH].
Qed.

Lemma utf8_enc_bytes s :
  valid_scalar_text s -> Forall (fun b => 0 <= b < 256) (utf8_enc s).
Proof.
  unfold valid_scalar_text, utf8_enc. induction 1 as [|c s Hc _ IH].
  - constructor.
  - cbn [flat_map]. apply Forall_app. split; [|exact IH].
    unfold valid_scalar in Hc. unfold utf8_enc_cp.
    destruct (c <? 128) eqn:E1; b2z.
    { repeat constructor; lia. }
    destruct (c <? 2048) eqn:E2; b2z.
    { repeat constructor; lia. }
    destruct (c <? 65536) eqn:E3; b2z; repeat constructor; lia.
Qed.

Lemma quote_plus_enc s :
  valid_scalar_text s -> enc_of (quote_plus s) (utf8_enc s).
Proof. intros H. apply quote_bytes_enc, utf8_enc_bytes, H. Qed.

Lemma encode_qs_of ps : valid_pairs ps -> qs_of (encode ps) ps.
Proof.
  induction 1 as [|[k v] ps [Vk Vv] Hps IH]; [constructor|].
  cbn [fst snd] in *. cbn [encode]. destruct ps as [|p ps'].
  - apply Q_one; apply quote_plus_enc; assumption.
  - apply Q_cons; try (apply quote_plus_enc; assumption). exact IH.
Qed.

Theorem qsl_roundtrip ps keep :
  valid_pairs ps -> parse_qsl keep (encode ps) = sel keep ps.
Proof. intros H. apply qsl_decodes; [apply encode_qs_of|]; exact H. Qed.

(* ------------------------------------------------------- strip / Args *)
Lemma enc_nospace t bs : enc_of t bs -> Forall nospace t.
Proof.
  intros H. eapply Forall_impl; [|eapply enc_chars; exact H].
  cbn. intros c Hc. apply vis_nospace. lia.
Qed.

Lemma qs_nospace q ps : qs_of q ps -> Forall nospace q.
Proof.
  induction 1 as [|ek ev k v Hk Hv|q ps _ IH|ek ev k v q ps Hk Hv _ IH].
  - constructor.
  - apply Forall_app. split; [eapply enc_nospace; exact Hk|].
    constructor; [reflexivity|eapply enc_nospace; exact Hv].
  - constructor; [reflexivity|exact IH].
  - apply Forall_app. split; [eapply enc_nospace; exact Hk|].
    constructor; [reflexivity|]. apply Forall_app. split.
    + eapply enc_nospace; exact Hv.
    + constructor; [reflexivity|exact IH].
Qed.

Lemma lstrip_id s : Forall nospace s -> lstrip s = s.
Proof. destruct 1 as [|c s Hc _]; cbn [lstrip]; [|rewrite Hc]; reflexivity. Qed.

Lemma strip_id s : Forall nospace s -> strip s = s.
Proof.
  intros H. unfold strip. rewrite (lstrip_id s H).
  rewrite lstrip_id by (apply Forall_rev; exact H). apply rev_involutive.
Qed.

(* the query string of a request: what Args holds *)
Theorem args_roundtrip keep q ps :
  qs_of q ps -> valid_pairs ps -> args_of keep q = args_dict (sel keep ps).
Proof.
  intros Hq Hv. unfold args_of. rewrite (strip_id q (qs_nospace _ _ Hq)).
  rewrite <- (qsl_decodes keep q ps Hq Hv).
  destruct q; [destruct keep|]; reflexivity.
Qed.

(* the urlencoded body: what the form holds *)
Theorem form_roundtrip keep q ps :
  qs_of q ps -> valid_pairs ps -> form_fields keep q = sel keep ps.
Proof.
  intros Hq Hv. unfold form_fields. rewrite utf8_dec_ascii.
  - apply qsl_decodes; assumption.
  - clear Hv. induction Hq as [|ek ev k v Hk Hv|q ps _ IH|ek ev k v q ps Hk Hv _ IH].
    + constructor.
    + apply Forall_app. split.
      * eapply Forall_impl; [|eapply enc_chars; exact Hk]. cbn; intros; lia.
      * constructor; [lia|].
        eapply Forall_impl; [|eapply enc_chars; exact Hv]. cbn; intros; lia.
    + constructor; [lia|exact IH].
    + apply Forall_app. split.
      * eapply Forall_impl; [|eapply enc_chars; exact Hk]. cbn; intros; lia.
      * constructor; [lia|]. apply Forall_app. split.
        -- eapply Forall_impl; [|eapply enc_chars; exact Hv]. cbn; intros; lia.
        -- constructor; [lia|exact IH].
Qed.

(* ------------------------------------------------------------- grouping *)
Definition lookupl (k : K) (d : list (K * list K)) : list K :=
  match lookup k d with Some l => l | None => [] end.
Definition add_pair (d : list (K * list K)) (kv : K * K) :=
  dict_add d (fst kv) (snd kv).

Lemma lookup_add_same d k v :
  lookupl k (dict_add d k v) = lookupl k d ++ [v].
Proof.
  unfold lookupl. induction d as [|[k' vs] d IH].
  - cbn [dict_add lookup]. rewrite lz_eqb_refl. reflexivity.
  - cbn [dict_add lookup]. destruct (lz_eqb k' k) eqn:E.
    + cbn [lookup]. rewrite E. reflexivity.
    + cbn [lookup]. rewrite E. exact IH.
Qed.

Lemma lookup_add_other d kn k v :
  lz_eqb kn k = false -> lookup k (dict_add d kn v) = lookup k d.
Proof.
  intros Hn. induction d as [|[k' vs] d IH].
  - cbn [dict_add lookup]. rewrite Hn. reflexivity.
  - cbn [dict_add lookup]. destruct (lz_eqb k' kn) eqn:E.
    + apply lz_eqb_eq in E. subst k'. cbn [lookup]. rewrite Hn. reflexivity.
    + cbn [lookup]. destruct (lz_eqb k' k); [reflexivity|exact IH].
Qed.

Lemma fold_lookupl k ps : forall d,
  lookupl k (fold_left add_pair ps d) = lookupl k d ++ vals k ps.
Proof.
  induction ps as [|[kn v] ps IH]; intros d.
  - unfold vals. cbn. rewrite app_nil_r. reflexivity.
  - cbn [fold_left]. rewrite IH. unfold add_pair, vals. cbn [fst snd filter].
    destruct (lz_eqb kn k) eqn:E.
    + apply lz_eqb_eq in E. subst kn. rewrite lookup_add_same.
      rewrite <- app_assoc. reflexivity.
    + unfold lookupl. rewrite lookup_add_other by exact E. reflexivity.
Qed.

Definition nonempty_lists (d : list (K * list K)) : Prop :=
  Forall (fun kv => snd kv <> []) d.

Lemma dict_add_nonempty d k v : nonempty_lists d -> nonempty_lists (dict_add d k v).
Proof.
  unfold nonempty_lists. induction 1 as [|[k' vs] d Hkv Hd IH].
  - cbn [dict_add]. repeat constructor. discriminate.
  - cbn [dict_add]. destruct (lz_eqb k' k).
    + constructor; [|exact Hd]. cbn [snd]. destruct vs; discriminate.
    + constructor; assumption.
Qed.

Lemma fold_nonempty ps : forall d,
  nonempty_lists d -> nonempty_lists (fold_left add_pair ps d).
Proof.
  induction ps as [|p ps IH]; intros d H; [exact H|].
  cbn [fold_left]. apply IH. apply dict_add_nonempty. exact H.
Qed.

Lemma lookup_nonempty k d l :
  nonempty_lists d -> lookup k d = Some l -> l <> [].
Proof.
  unfold nonempty_lists. induction 1 as [|[k' vs] d Hkv _ IH]; [discriminate|].
  cbn [lookup]. destruct (lz_eqb k' k); [|exact IH].
  intros E. injection E as <-. exact Hkv.
Qed.

Lemma group_lookup k ps :
  lookup k (group ps) =
  match vals k ps with [] => None | vs => Some vs end.
Proof.
  pose proof (fold_lookupl k ps []) as H.
  pose proof (fold_nonempty ps [] (Forall_nil _)) as Hn.
  change (fold_left add_pair ps []) with (group ps) in *.
  unfold lookupl in H. cbn [lookup app] in H.
  destruct (lookup k (group ps)) as [l|] eqn:E.
  - pose proof (lookup_nonempty _ _ _ Hn E) as Hl. rewrite <- H.
    destruct l; [contradiction|reflexivity].
  - rewrite <- H. reflexivity.
Qed.

Lemma lookup_map {A B} (f : A -> B) k (d : list (K * A)) :
  lookup k (map (fun kv => (fst kv, f (snd kv))) d) = option_map f (lookup k d).
Proof.
  induction d as [|[k' x] d IH]; [reflexivity|].
  cbn [map lookup fst snd]. destruct (lz_eqb k' k); [reflexivity|exact IH].
Qed.

(* single keys are scalars, repeated keys lists in order, others absent *)
Theorem args_collapse ps k :
  lookup k (args_dict ps) =
  match vals k ps with
  | [] => None
  | [v] => Some (AS v)
  | vs => Some (AL vs)
  end.
Proof.
  unfold args_dict. rewrite lookup_map, group_lookup.
  destruct (vals k ps) as [|v [|v2 l]]; reflexivity.
Qed.

(* keys appear in the order of their first occurrence *)
Lemma keys_dict_add d k v :
  map fst (dict_add d k v) =
  if existsb (fun k' => lz_eqb k' k) (map fst d) then map fst d
  else map fst d ++ [k].
Proof.
  induction d as [|[k' vs] d IH]; [reflexivity|].
  cbn [dict_add map fst existsb]. destruct (lz_eqb k' k); [reflexivity|].
  cbn [map fst orb]. rewrite IH.
  destruct (existsb (fun k'0 => lz_eqb k'0 k) (map fst d)); reflexivity.
Qed.

Lemma fold_keys ps : forall d,
  map fst (fold_left add_pair ps d) =
  map fst d ++ first_occ (map fst d) (map fst ps).
Proof.
  induction ps as [|[kn v] ps IH]; intros d.
  - cbn. rewrite app_nil_r. reflexivity.
  - cbn [fold_left map fst first_occ]. rewrite IH. unfold add_pair.
    cbn [fst snd]. rewrite keys_dict_add.
    destruct (existsb (fun k' => lz_eqb k' kn) (map fst d)); [reflexivity|].
    rewrite <- app_assoc. reflexivity.
Qed.

Theorem args_key_order ps :
  map fst (args_dict ps) = first_occ [] (map fst ps).
Proof.
  unfold args_dict. rewrite map_map. cbn [fst].
  change (map (fun x => fst x) (group ps)) with (map fst (group ps)).
  unfold group. change (fun d kv => dict_add d (fst kv) (snd kv)) with add_pair.
  rewrite fold_keys. reflexivity.
Qed.

(* ------------------------------------------------------------ accessors *)
Theorem args_accessors ps k :
  a_getlist (args_dict ps) k = TList (map Some (vals k ps)) /\
  a_getfirst (args_dict ps) k =
    match vals k ps with [] => TNone | v :: _ => TStr v end /\
  a_getvalue (args_dict ps) k =
    match vals k ps with
    | [] => TNone | [v] => TStr v | vs => TList (map Some vs)
    end.
Proof.
  unfold a_getlist, a_getfirst, a_getvalue. rewrite args_collapse.
  destruct (vals k ps) as [|v [|v2 l]]; repeat split; reflexivity.
Qed.

Lemma existsb_filter {A} (p : A -> bool) l :
  existsb p l = negb (is_nil (filter p l)).
Proof.
  induction l as [|x l IH]; [reflexivity|].
  cbn [existsb filter]. destruct (p x); [reflexivity|exact IH].
Qed.

Lemma f_contains_found fs k : f_contains fs k = negb (is_nil (f_found fs k)).
Proof.
  unfold f_contains, f_found. destruct fs; [reflexivity|].
  cbn [is_nil]. apply existsb_filter.
Qed.

Lemma f_getitem_found fs k :
  f_getitem fs k =
  match f_found fs k with
  | [] => None | [f] => Some (FOne f) | l => Some (FMany l)
  end.
Proof. unfold f_getitem. destruct fs; reflexivity. Qed.

Lemma map_fval (l : list (K * K)) :
  map (fun f => fval (snd f)) l = map Some (map snd l).
Proof. rewrite map_map. reflexivity. Qed.

(* FieldStorage: the trio agrees with the fields (blank values included) *)
Theorem form_accessors fs k :
  f_getlist fs k = TList (map Some (vals k fs)) /\
  f_getfirst fs k =
    match vals k fs with [] => TNone | v :: _ => TStr v end /\
  f_getvalue fs k =
    match vals k fs with
    | [] => TNone | [v] => TStr v | vs => TList (map Some vs)
    end.
Proof.
  unfold f_getlist, f_getfirst, f_getvalue.
  rewrite f_contains_found, f_getitem_found.
  unfold vals. fold (f_found fs k).
  destruct (f_found fs k) as [|f [|f2 l]] eqn:E.
  - repeat split; reflexivity.
  - repeat split; reflexivity.
  - cbn [is_nil negb]. rewrite map_fval. repeat split; reflexivity.
Qed.

Theorem empty_accessors k :
  e_getvalue k = TNone /\ e_getfirst k = TNone /\ e_getlist k = TList [].
Proof. repeat split; reflexivity. Qed.

Theorem jsondict_accessors d k :
  match lookup k d with
  | None => jd_getvalue d k = JRNone /\ jd_getfirst d k = JRNone /\
            jd_getlist d k = JRVal (JArr [])
  | Some (JArr l) =>
      jd_getvalue d k = JRVal (JArr l) /\ jd_getlist d k = JRVal (JArr l) /\
      jd_getfirst d k = match l with [] => JRNone | x :: _ => JRVal x end
  | Some j => jd_getvalue d k = JRVal j /\ jd_getfirst d k = JRVal j /\
              jd_getlist d k = JRVal (JArr [j])
  end.
Proof.
  unfold jd_getvalue, jd_getfirst, jd_getlist.
  destruct (lookup k d) as [[| | | | |l|]|]; repeat split; try reflexivity.
Qed.

Theorem jsonlist_accessors l :
  jl_getlist l = JRVal (JArr l) /\
  jl_getvalue l = match l with [] => JRNone | x :: _ => JRVal x end /\
  jl_getfirst l = jl_getvalue l.
Proof. repeat split; reflexivity. Qed.

Theorem bad_json_400 decode loads raw charset :
  (decode charset raw = None \/
   exists t, decode charset raw = Some t /\ loads t = None) ->
  parse_json_request decode loads raw charset = J400.
Proof.
  unfold parse_json_request. intros [H|[t [H1 H2]]].
  - rewrite H. reflexivity.
  - rewrite H1, H2. reflexivity.
Qed.

(* ------------------------------------------------------------ body plan *)
Theorem body_budget c :
  (http09 c = false \/ 0 <= clen c) -> raw_lines c = false ->
  exists n, plan_cost (body_plan c) = Some n /\ n <= Z.max 0 (clen c).
Proof.
  intros Hproto Hraw. unfold body_plan.
  destruct (buffered c) eqn:B.
  { unfold buffered in B. b2z. cbn [plan_cost rd_cost]. ztest.
    eexists. split; [reflexivity|lia]. }
  destruct (json_branch c) eqn:J.
  { unfold json_branch, body_expected, is_body_request in J. b2z;
      (destruct Hproto as [Hp|Hp]; [try congruence|]);
      cbn [plan_cost rd_cost]; ztest; eexists; (split; [reflexivity|lia]). }
  destruct (form_branch c) eqn:F.
  2:{ exists 0. split; [reflexivity|lia]. }
  assert (Hlen : 0 <= clen c).
  { unfold form_branch, body_expected, is_body_request in F. b2z;
      destruct Hproto as [Hp|Hp]; try congruence; lia. }
  unfold raw_lines in Hraw. rewrite B, F in Hraw. cbn [negb andb] in Hraw.
  unfold form_reads, line_reads. destruct (kind c).
  - cbn [plan_cost rd_cost]. ztest. eexists. split; [reflexivity|lia].
  - destruct (cached c); [|discriminate].
    cbn [plan_cost rd_cost]. ztest. eexists. split; [reflexivity|lia].
  - replace (0 <=? clen c) with true by (symmetry; apply Z.leb_le; lia).
    clear Hraw. unfold single_reads, BUFSIZE.
    destruct (0 <? clen c) eqn:E; [apply Z.ltb_lt in E|apply Z.ltb_ge in E].
    + cbn [plan_cost rd_cost]. ztest. eexists. split; [reflexivity|lia].
    + exists 0. split; [reflexivity|lia].
Qed.

(* the raw-stream line parser is not bounded by the declared length *)
Theorem raw_lines_unbounded c :
  raw_lines c = true -> body_plan c = [RLines] /\ plan_cost (body_plan c) = None.
Proof.
  unfold raw_lines. intros H.
  apply andb_true_iff in H as [H Hk]. apply andb_true_iff in H as [H Hc].
  apply andb_true_iff in H as [Hb Hf]. apply negb_true_iff in Hb, Hc.
  assert (J : json_branch c = false).
  { unfold form_branch in Hf.
    destruct (json_branch c); [cbn in Hf; discriminate|reflexivity]. }
  unfold body_plan. rewrite Hb, J, Hf. unfold form_reads, line_reads.
  rewrite Hc. destruct (kind c); [discriminate|split; reflexivity|].
  apply Z.ltb_lt in Hk.
  replace (0 <=? clen c) with false by (symmetry; apply Z.leb_gt; lia).
  split; reflexivity.
Qed.

Theorem body_budget_refuted :
  exists c, http09 c = false /\ 0 < clen c /\
            plan_cost (body_plan c) = None.
Proof.
  exists {| auto_data := true; data_size := 60; clen := 61; http09 := false;
            in_json := false; in_form := true; kind := KMulti;
            auto_json := true; auto_form := true; cached_size := 0 |}.
  repeat split; vm_compute; reflexivity.
Qed.

(* ---------------------------------------------------------- non-vacuity *)
Example roundtrip_example :
  let ps := [([233; 32; 107], [97; 38; 98; 61; 99; 37]);
             ([], []); ([233; 32; 107], [8364; 128512; 43])] in
  valid_pairs ps /\
  parse_qsl true (encode ps) = ps /\
  parse_qsl false (encode ps) = [([233; 32; 107], [97; 38; 98; 61; 99; 37]);
                                 ([233; 32; 107], [8364; 128512; 43])] /\
  lookup [233; 32; 107] (args_of true (encode ps)) =
    Some (AL [[97; 38; 98; 61; 99; 37]; [8364; 128512; 43]]).
Proof.
  cbv zeta. split; [|split; [|split]].
  - unfold valid_pairs, valid_pair, valid_scalar_text, valid_scalar.
    repeat (constructor; cbn [fst snd]); lia.
  - vm_compute. reflexivity.
  - vm_compute. reflexivity.
  - vm_compute. reflexivity.
Qed.

Example qs_of_example :
  (* "a=%c3%A9+b&&c=" : lower/upper hex, '+', an empty piece *)
  qs_of [97; 61; 37; 99; 51; 37; 65; 57; 43; 98; 38; 38; 99; 61]
        [([97], [233; 32; 98]); ([99], [])].
Proof.
  apply (Q_cons [97] [37; 99; 51; 37; 65; 57; 43; 98] [97] [233; 32; 98]
                [38; 99; 61] [([99], [])]).
  - apply E_lit; [reflexivity|constructor].
  - change (utf8_enc [233; 32; 98]) with [195; 169; 32; 98].
    apply E_pct; [reflexivity|reflexivity|].
    apply E_pct; [reflexivity|reflexivity|].
    apply E_plus. apply E_lit; [reflexivity|constructor].
  - apply Q_skip. apply (Q_one [99] [] [99] []).
    + apply E_lit; [reflexivity|constructor].
    + constructor.
Qed.

Example budget_example :
  let c := {| auto_data := false; data_size := 0; clen := 20; http09 := false;
              in_json := false; in_form := true; kind := KMulti;
              auto_json := true; auto_form := true; cached_size := 4 |} in
  (http09 c = false \/ 0 <= clen c) /\ raw_lines c = false /\
  body_plan c = [RCached 20].
Proof. cbn. repeat split. left; reflexivity. Qed.
