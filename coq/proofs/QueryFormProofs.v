From Coq Require Import ZArith List Bool Lia.
Require Import PW.lib.Val PW.lib.ValFacts PW.model.QueryForm.
Import ListNotations.
Open Scope Z_scope.
Lemma placeholder : parse_qsl true [] = []. Proof. reflexivity. Qed.
