(* The hand model of CachedInput (model/CachedInput.v, timeout=None) equals
   the definitions generated from the current poorwsgi/request.py
   (gen/CachedGen.v) over the Python semantics of lib/Py.v. *)
From Coq Require Import String.
From Coq Require Import ZArith List Bool Lia.
Require Import PW.lib.Val PW.lib.Py PW.model.CachedInput PW.gen.CachedGen.
Import ListNotations.
Open Scope list_scope.
Open Scope Z_scope.

Definition inj_stream (f : stream) : pv :=
  PTuple [PBytes (s_data f); PList (map PInt (s_shorts f))].
Definition inj_log (q : log) : pv :=
  PList (map (fun p => PTuple [PInt (fst p); PInt (snd p)]) q).
Definition inj_out (o : outcome) : res pv :=
  match o with
  | CachedInput.Ok r s q =>
      Py.Ok (PTuple [PBytes r; PBytes (buf s); PInt (todo s); inj_stream (src s); inj_log q])
  | OutOfFuel => Err (Raised "OutOfFuel"%string PNone)
  end.

Lemma stream_read_eq f k :
  stream_read (inj_stream f) (PInt k)
  = Py.Ok (PBytes (fst (s_read k f)), inj_stream (snd (s_read k f))).
Proof.
  unfold stream_read, inj_stream, s_read. cbn [as_int].
  destruct (s_shorts f) as [|b bs]; cbn [map fst snd s_data s_shorts]; reflexivity.
Qed.

Lemma firstn_min {A} (l : list A) k :
  0 <= k -> firstn (Z.to_nat (Z.min k (Z.of_nat (length l)))) l = firstn (Z.to_nat k) l.
Proof.
  intros Hk. destruct (Z_le_gt_dec k (Z.of_nat (length l))).
  - rewrite Z.min_l by lia. reflexivity.
  - rewrite Z.min_r by lia. rewrite Nat2Z.id, firstn_all, firstn_all2 by lia. reflexivity.
Qed.

Lemma skipn_min {A} (l : list A) k :
  0 <= k -> skipn (Z.to_nat (Z.min k (Z.of_nat (length l)))) l = skipn (Z.to_nat k) l.
Proof.
  intros Hk. destruct (Z_le_gt_dec k (Z.of_nat (length l))).
  - rewrite Z.min_l by lia. reflexivity.
  - rewrite Z.min_r by lia. rewrite Nat2Z.id, skipn_all, skipn_all2 by lia. reflexivity.
Qed.

(* b[:k] and b[k:] for k >= 0 *)
Lemma pslice_take b k : 0 <= k -> pslice (PBytes b) PNone (PInt k) = Py.Ok (PBytes (take k b)).
Proof.
  intros Hk. unfold pslice, slice_list, take. cbn [as_int bind Py.norm_idx].
  unfold Py.norm_idx. change (0 <? 0) with false.
  replace (k <? 0) with false by (symmetry; apply Z.ltb_ge; lia).
  pose proof (Zle_0_nat (length b)).
  rewrite (Z.min_l 0) by lia. cbn [Z.to_nat skipn]. rewrite Z.sub_0_r, firstn_min by lia.
  reflexivity.
Qed.

Lemma pslice_drop b k : 0 <= k -> pslice (PBytes b) (PInt k) PNone = Py.Ok (PBytes (drop k b)).
Proof.
  intros Hk. unfold pslice, slice_list, drop. cbn [as_int bind].
  unfold Py.norm_idx.
  replace (k <? 0) with false by (symmetry; apply Z.ltb_ge; lia).
  pose proof (Zle_0_nat (length b)) as Hn.
  replace (Z.of_nat (length b) <? 0) with false by (symmetry; apply Z.ltb_ge; lia).
  rewrite Z.min_id, skipn_min by lia.
  rewrite firstn_all2; [reflexivity|].
  rewrite skipn_length. lia.
Qed.



Lemma pmin2_int a b : pmin2 (PInt a) (PInt b) = Py.Ok (PInt (Z.min a b)).
Proof.
  unfold pmin2. cbn [as_int]. destruct (b <? a) eqn:E;
    [apply Z.ltb_lt in E; rewrite Z.min_r by lia|apply Z.ltb_ge in E; rewrite Z.min_l by lia];
    reflexivity.
Qed.

Lemma plen_bytes b : plen (PBytes b) = Py.Ok (PInt (len b)).
Proof. reflexivity. Qed.

Theorem gen_cached_read_eq b t f tmo block size clk :
  0 <= t -> 0 <= block ->
  gen_cached_read (PBytes b) (PInt t) (inj_stream f) tmo (PInt block) (PInt size) clk
  = inj_out (read block size (St b t f)).
Proof.
  intros Ht Hb. unfold gen_cached_read, read. cbn [buf todo src].
  cbn [plt pcmp as_int bind Py.truthy].
  set (size1 := if size <? 0 then block else size).
  assert (Hs1 : 0 <= size1).
  { unfold size1. destruct (size <? 0) eqn:E; [|apply Z.ltb_ge in E]; lia. }
  assert (Hl : 0 <= len b) by (unfold len; lia).
  set (sz := Z.min (t + len b) size1).
  assert (Hsz : 0 <= sz) by (unfold sz; lia).
  destruct (size <? 0) eqn:Es; cbn [Py.truthy]; subst size1;
    rewrite plen_bytes; cbn [bind padd arith as_int]; rewrite pmin2_int;
    fold sz; cbn [bind];
    (destruct b as [|x b']; cbn [nonempty];
     [ rewrite pmin2_int; cbn [bind]; rewrite stream_read_eq;
       destruct (s_read (Z.min t sz) f) as [data f'];
       cbn [fst snd bind plen pappend app psub arith as_int inj_out buf todo src inj_log map];
       fold (len data); reflexivity
     | set (bb := x :: b') in *;
       cbn [pge pcmp as_int bind Py.truthy];
       destruct (len bb >=? sz) eqn:Eg; cbn [Py.truthy];
       [ rewrite pslice_take, pslice_drop by assumption; cbn [bind]; reflexivity
       | cbn [psub arith as_int bind]; rewrite stream_read_eq;
         destruct (s_read (sz - len bb) f) as [data f'];
         cbn [fst snd bind plen pappend app psub arith as_int padd inj_out buf todo src inj_log map];
         fold (len data); reflexivity ] ]).
Qed.

(* ------------------------------------------------------------------ *)
(* readline *)

Lemma lz_eqb_1 x c : lz_eqb x [c] = match x with [y] => y =? c | _ => false end.
Proof.
  destruct x as [|y [|z x]]; cbn [lz_eqb]; try reflexivity.
  - rewrite andb_true_r. reflexivity.
  - rewrite andb_false_r. reflexivity.
Qed.

Lemma skipn_last (l : list Z) : forall x,
  firstn 1 (skipn (length l) (x :: l)) = [last (x :: l) 0].
Proof.
  induction l as [|y l IH]; intros x; [reflexivity|].
  cbn [length skipn]. rewrite IH. reflexivity.
Qed.

Lemma last_slice line :
  pslice (PBytes line) (PInt (-1)) PNone
  = Py.Ok (PBytes (match line with [] => [] | _ => [last line 0] end)).
Proof.
  unfold pslice, slice_list. cbn [as_int bind]. unfold Py.norm_idx.
  change (-1 <? 0) with true.
  destruct line as [|x l]; [reflexivity|].
  pose proof (Zle_0_nat (length (x :: l))) as Hn.
  replace (Z.of_nat (length (x :: l)) <? 0) with false by (symmetry; apply Z.ltb_ge; lia).
  rewrite Z.min_id. f_equal. f_equal.
  replace (Z.max 0 (-1 + Z.of_nat (length (x :: l)))) with (Z.of_nat (length l))
    by (cbn [length]; lia).
  rewrite Nat2Z.id.
  replace (Z.to_nat (Z.of_nat (length (x :: l)) - Z.of_nat (length l))) with 1%nat
    by (cbn [length]; lia).
  apply skipn_last.
Qed.

Lemma ends_cr_eq line :
  (t <- pslice (PBytes line) (PInt (-1)) PNone ;; peq t (PBytes [13]))
  = Py.Ok (PBool (ends_cr line)).
Proof.
  rewrite last_slice. cbn [bind]. unfold peq. cbn [pv_eqb]. rewrite lz_eqb_1. unfold ends_cr.
  destruct line as [|x l]; [reflexivity|]. reflexivity.
Qed.

Lemma starts_lf_eq b :
  (t <- pslice (PBytes b) PNone (PInt 1) ;; peq t (PBytes [10]))
  = Py.Ok (PBool (starts_lf b)).
Proof.
  rewrite pslice_take by lia. cbn [bind]. unfold peq. cbn [pv_eqb]. rewrite lz_eqb_1.
  destruct b as [|x [|y b]]; reflexivity.
Qed.

Lemma find_from_crlf w : forall i,
  find_from [13; 10] w i = match find_crlf w with Some p => i + p | None => -1 end.
Proof.
  induction w as [|x t IH]; intros i; [reflexivity|].
  cbn [find_from find_crlf is_prefix].
  replace ((13 =? x) && match t with
                        | [] => false
                        | y :: _ => (10 =? y) && true
                        end) with ((x =? 13) && starts_lf t).
  2:{ rewrite (Z.eqb_sym 13 x). f_equal. destruct t as [|y l']; [reflexivity|].
      cbn [starts_lf]. rewrite andb_true_r. apply Z.eqb_sym. }
  destruct ((x =? 13) && starts_lf t); [cbv beta iota; lia|].
  rewrite IH. destruct (find_crlf t); cbn [option_map]; cbv beta iota; lia.
Qed.

Lemma find_crlf_nonneg w p : find_crlf w = Some p -> 0 <= p.
Proof.
  revert p. induction w as [|x t IH]; cbn [find_crlf]; intros p H; [discriminate|].
  destruct ((x =? 13) && starts_lf t); [injection H as <-; lia|].
  destruct (find_crlf t) eqn:E; [|discriminate]. injection H as <-.
  specialize (IH _ eq_refl). lia.
Qed.

Lemma pfind_crlf b m : 0 <= m ->
  pfind (PBytes b) (PBytes [13; 10]) (PInt 0) (PInt m)
  = Py.Ok (PInt (match find_crlf (take m b) with Some p => p | None => -1 end)).
Proof.
  intros Hm. unfold pfind. cbn [as_int]. unfold Py.norm_idx.
  change (0 <? 0) with false.
  replace (m <? 0) with false by (symmetry; apply Z.ltb_ge; lia).
  pose proof (Zle_0_nat (length b)).
  rewrite (Z.min_l 0) by lia. cbn [Z.to_nat skipn]. rewrite Z.sub_0_r, firstn_min by lia.
  fold (take m b). rewrite find_from_crlf.
  destruct (find_crlf (take m b)) as [p|] eqn:E.
  - apply find_crlf_nonneg in E.
    replace (0 + p <? 0) with false by (symmetry; apply Z.ltb_ge; lia).
    f_equal. f_equal. lia.
  - reflexivity.
Qed.

Lemma inj_log_app q k g :
  pappend (inj_log q) (PTuple [PInt k; PInt g]) = Py.Ok (inj_log (q ++ [(k, g)])).
Proof. unfold pappend, inj_log. rewrite map_app. reflexivity. Qed.

Lemma padd_bytes a b : padd (PBytes a) (PBytes b) = Py.Ok (PBytes (a ++ b)).
Proof. reflexivity. Qed.

Lemma len_nonneg l : 0 <= len l.
Proof. unfold len. lia. Qed.

Definition lastb (line : list Z) : list Z :=
  match line with [] => [] | _ => [last line 0] end.
Lemma lastb_cr line : lz_eqb (lastb line) [13] = ends_cr line.
Proof. rewrite lz_eqb_1. unfold ends_cr, lastb. destruct line; reflexivity. Qed.
Lemma take1_lf b : lz_eqb (take 1 b) [10] = starts_lf b.
Proof. rewrite lz_eqb_1. destruct b as [|x [|y b]]; reflexivity. Qed.

Lemma s_read_len k f : 0 <= k -> len (fst (s_read k f)) <= k.
Proof.
  intros Hk. unfold s_read, len, take.
  destruct (s_shorts f) as [|b bs]; cbn [fst]; rewrite firstn_length; lia.
Qed.

Lemma truthy_bytes d : Py.truthy (PBytes d) = nonempty d.
Proof. destruct d; reflexivity. Qed.

Ltac rest_tac IH line size t block b f :=
    rewrite pfind_crlf by lia; cbn [bind pge pcmp as_int Py.truthy];
    let p := fresh "p" in let Ef := fresh "Ef" in
    destruct (find_crlf (take (size - len line) b)) as [p|] eqn:Ef;
    [ pose proof (find_crlf_nonneg _ _ Ef);
      replace (p >=? 0) with true by (symmetry; apply Z.geb_le; lia);
      cbn [Py.truthy padd arith as_int bind];
      rewrite pslice_take, pslice_drop by lia; cbn [bind];
      cbn [padd bind]; reflexivity
    | change (-1 >=? 0) with false; cbn [Py.truthy pis_not_none bind];
      rewrite pslice_take, pslice_drop by lia; cbn [bind];
      cbn [padd bind plen];
      fold (len (line ++ take (size - len line) b));
      cbn [plt pcmp as_int bind Py.truthy];
      let El2 := fresh "El2" in
      destruct (len (line ++ take (size - len line) b) <? size) eqn:El2; cbn [Py.truthy];
      [ apply Z.ltb_lt in El2; cbn [as_int bind]; rewrite pmin2_int; cbn [bind];
        rewrite pmin2_int; cbn [bind pnot Py.truthy]; rewrite negb_involutive;
        let En := fresh "En" in
        destruct (Z.min (Z.min t (size - len (line ++ take (size - len line) b))) block =? 0) eqn:En;
        [ reflexivity
        | apply Z.eqb_neq in En; rewrite stream_read_eq;
          let data := fresh "data" in let f' := fresh "f'" in let Er := fresh "Er" in
          destruct (s_read (Z.min (Z.min t (size - len (line ++ take (size - len line) b))) block) f)
            as [data f'] eqn:Er;
          cbn [fst snd bind plen]; fold (len data);
          rewrite inj_log_app; cbn [bind psub arith as_int pnot];
          rewrite truthy_bytes; cbn [Py.truthy pis_none bind];
          let Ed := fresh "Ed" in
          destruct (nonempty data) eqn:Ed; cbn [negb Py.truthy];
          [ apply IH; [|assumption];
            pose proof (s_read_len (Z.min (Z.min t (size - len (line ++ take (size - len line) b))) block) f ltac:(lia));
            rewrite Er in *; cbn [fst] in *; lia
          | reflexivity ] ]
      | apply IH; assumption ] ].

Lemma readline_loop_eq fuel : forall block size line b t f q clk a1 a2 a3 a4 a5,
  0 <= t -> 0 <= block ->
  gen_cached_readline_loop_1 fuel PNone (PInt block) (PInt size) clk a1 (PBytes b) a2
    (PBytes line) a3 a4 (PInt (len line)) a5 (PInt t) (inj_log q) (inj_stream f)
  = inj_out (rl_loop fuel block size line (St b t f) q).
Proof.
  induction fuel as [|fuel IH]; intros block size line b t f q clk a1 a2 a3 a4 a5 Ht Hb;
    cbn [gen_cached_readline_loop_1 rl_loop];
    cbn [plt pcmp as_int bind Py.truthy buf todo src];
    destruct (len line <? size) eqn:Et; cbn [Py.truthy]; try reflexivity.
  apply Z.ltb_lt in Et. pose proof (len_nonneg line) as Hl.
  cbn [psub arith as_int bind].
  rewrite last_slice. fold (lastb line). cbn [bind]. unfold peq at 1. cbn [pv_eqb Py.truthy].
  rewrite lastb_cr. cbn [bind Py.truthy].
  rewrite (pslice_take b 1) by lia. cbn [bind]. unfold peq at 1. cbn [pv_eqb Py.truthy].
  rewrite take1_lf. cbn [bind Py.truthy].
  destruct (ends_cr line); destruct (starts_lf b); cbn [andb].
  - rewrite pslice_drop by lia. cbn [bind]. rewrite padd_bytes. reflexivity.
  - rest_tac IH line size t block b f.
  - rest_tac IH line size t block b f.
  - rest_tac IH line size t block b f.
Qed.

Theorem gen_cached_readline_eq b t f block size clk fuel :
  0 <= t -> 0 <= block ->
  gen_cached_readline (PBytes b) (PInt t) (inj_stream f) PNone (PInt block) (PInt size) clk fuel
  = inj_out (readline fuel block size (St b t f)).
Proof.
  intros Ht Hb. unfold gen_cached_readline, readline, eff_size. cbn [buf todo].
  cbn [plt pcmp as_int bind Py.truthy pis_not_none].
  destruct (size <? 0); cbn [Py.truthy plen bind padd arith as_int];
    change (PList []) with (inj_log []); change 0 with (len []) at 1;
    apply readline_loop_eq; assumption.
Qed.
