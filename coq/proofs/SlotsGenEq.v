(* The definitions generated from poorwsgi/request.py (gen/SlotsGen.v:
   SimpleRequest.__init__ slot part, the three property getters and setters)
   are the write-once slots of model/Slots.v, for every object state and
   every value.  [abs] reads the three private attributes of an object. *)
From Coq Require Import List String Bool.
Require Import PW.lib.PySlots PW.model.Slots PW.proofs.SlotsProofs
  PW.gen.SlotsGen.
Import ListNotations.
Open Scope string_scope.

(* trusted table: which private attribute carries which slot *)
Definition attr_of (n : slot_name) : string :=
  match n with
  | UriRule => "_SimpleRequest__uri_rule"
  | UriHandler => "_SimpleRequest__uri_handler"
  | ErrorHandler => "_SimpleRequest__error_handler"
  end.

Section SlotsGenEq.
  Variable A : Type.

  Definition abs (o : obj A) : slots A :=
    mkSlots (o (attr_of UriRule)) (o (attr_of UriHandler))
            (o (attr_of ErrorHandler)).

  Definition gen_get (n : slot_name) : obj A -> pval A :=
    match n with
    | UriRule => gen_uri_rule_get
    | UriHandler => gen_uri_handler_get
    | ErrorHandler => gen_error_handler_get
    end.

  Definition gen_set (n : slot_name) : obj A -> pval A -> obj A :=
    match n with
    | UriRule => gen_uri_rule_set
    | UriHandler => gen_uri_handler_set
    | ErrorHandler => gen_error_handler_set
    end.

  Lemma get_abs n o : get n (abs o) = o (attr_of n).
  Proof. destruct n; reflexivity. Qed.

  (* SimpleRequest.__init__ leaves the three slots empty *)
  Lemma gen_init_slots_eq o : abs (gen_init_slots o) = empty_slots.
  Proof. reflexivity. Qed.

  (* ... and touches no other attribute *)
  Lemma gen_init_slots_frame (o : obj A) name :
    (forall n, name <> attr_of n) -> gen_init_slots o name = o name.
  Proof.
    intros H. unfold gen_init_slots, attr_store. cbv zeta.
    destruct (String.eqb_spec name "_SimpleRequest__error_handler") as [E|_];
      [now elim (H ErrorHandler)|].
    destruct (String.eqb_spec name "_SimpleRequest__uri_handler") as [E|_];
      [now elim (H UriHandler)|].
    destruct (String.eqb_spec name "_SimpleRequest__uri_rule") as [E|_];
      [now elim (H UriRule)|].
    reflexivity.
  Qed.

  Lemma gen_get_eq n o : gen_get n o = get n (abs o).
  Proof. destruct n; reflexivity. Qed.

  Lemma gen_set_eq n o v : abs (gen_set n o v) = set_slot n v (abs o).
  Proof.
    destruct n; cbn [gen_set];
      unfold gen_uri_rule_set, gen_uri_handler_set, gen_error_handler_set,
        attr_load, abs, set_slot; cbn [attr_of s_uri_rule s_uri_handler
                                       s_error_handler]; cbv zeta;
      match goal with |- context [is_none ?x] => destruct x eqn:E end;
      cbn [is_none set_once]; unfold attr_store; cbn [String.eqb Ascii.eqb
        Bool.eqb]; try rewrite E; reflexivity.
  Qed.

  (* the setter of slot n stores into the attribute of slot n only *)
  Lemma gen_set_frame n (o : obj A) v name :
    name <> attr_of n -> gen_set n o v name = o name.
  Proof.
    intros H.
    destruct n; cbn [gen_set];
      unfold gen_uri_rule_set, gen_uri_handler_set, gen_error_handler_set,
        attr_load; cbv zeta;
      match goal with |- context [is_none ?x] => destruct x end;
      cbn [is_none]; try reflexivity; unfold attr_store;
      match goal with |- context [String.eqb name ?s] =>
        destruct (String.eqb_spec name s) as [E|_]; [now elim H|reflexivity]
      end.
  Qed.

  (* the statement of the C03 slot theorems, for one slot *)
  Definition write_once_slot (n : slot_name) : Prop :=
    (forall o, abs (gen_init_slots o) = empty_slots) /\
    (forall o, gen_get n o = get n (abs o)) /\
    (forall o v, abs (gen_set n o v) = set_slot n v (abs o)) /\
    (forall (o : obj A) v name,
        name <> attr_of n -> gen_set n o v name = o name) /\
    (forall o v, gen_get n o = None -> gen_get n (gen_set n o v) = v) /\
    (forall o v x, gen_get n o = Some x ->
                   gen_get n (gen_set n o v) = Some x).

  Theorem generated_slot_is_write_once n : write_once_slot n.
  Proof.
    repeat split.
    - apply gen_get_eq.
    - apply gen_set_eq.
    - apply gen_set_frame.
    - intros o v H. rewrite gen_get_eq in *. rewrite gen_set_eq.
      now apply set_empty_slot.
    - intros o v x H. rewrite gen_get_eq in *. rewrite gen_set_eq.
      now apply set_keeps_filled.
  Qed.

  (* any sequence of property assignments through the generated setters *)
  Definition gen_run_ops (ops : list (op A)) (o : obj A) : obj A :=
    fold_left (fun o' p => gen_set (fst p) o' (snd p)) ops o.

  Lemma gen_run_ops_eq ops o : abs (gen_run_ops ops o) = run_ops ops (abs o).
  Proof.
    revert o. induction ops as [|[n v] ops IH]; intros o; [reflexivity|].
    cbn. rewrite IH. unfold apply_op; cbn [fst snd]. now rewrite gen_set_eq.
  Qed.

  (* on the generated code: once the application has assigned rule and
     handler on a freshly initialised request, whatever the before hooks
     assign through the properties, every hook and the endpoint read the
     chosen rule and handler *)
  Theorem generated_hooks_cannot_change_the_visible_endpoint
      (r h : A) (o : obj A) (hooks : list (list (op A))) k :
    let o1 := gen_uri_handler_set
                (gen_uri_rule_set (gen_init_slots o) (Some r)) (Some h) in
    let o2 := gen_run_ops (List.concat (firstn k hooks)) o1 in
    gen_uri_rule_get o2 = Some r /\ gen_uri_handler_get o2 = Some h.
  Proof.
    cbv zeta.
    change gen_uri_rule_get with (gen_get UriRule).
    change gen_uri_handler_get with (gen_get UriHandler).
    rewrite !gen_get_eq, gen_run_ops_eq.
    change (gen_uri_handler_set ?a ?b) with (gen_set UriHandler a b).
    change (gen_uri_rule_set ?a ?b) with (gen_set UriRule a b).
    rewrite !gen_set_eq, gen_init_slots_eq.
    exact (hooks_cannot_change_the_visible_endpoint A r h hooks k).
  Qed.
End SlotsGenEq.
