(* The hand model of the part loop of the multipart parser (model/Multipart.v:
   skip_to_boundary, read_hdr, part_loop, read_multi) equals the definitions
   generated from the current poorwsgi/fieldstorage.py (gen/MultiGen.v) over
   the Python semantics of lib/Py.v, lib/PyMultipart.v and lib/PyMulti.v. *)
From Coq Require Import String.
From Coq Require Import ZArith List Bool Lia.
Require Import PW.lib.Val PW.lib.ValFacts PW.lib.Py PW.lib.PyMultipart
  PW.lib.PyMulti.
Require Import PW.model.Multipart PW.proofs.MultipartProofs
  PW.gen.MultipartGen PW.proofs.MultipartGenEq PW.gen.MultiGen.
Import ListNotations.
Open Scope list_scope.
Open Scope Z_scope.

Definition out_of_fuel {A} : res A := Err (Py.Raised "OutOfFuel"%string PNone).
Definition value_error {A} : res A := Err (Py.Raised "ValueError"%string PNone).

Lemma pstrip_eq b : pstrip (PBytes b) = Py.Ok (PBytes (strip b)).
Proof.
  unfold pstrip, strip, strip_by. rewrite rstrip_by_rev, !lstrip_ws_eq.
  reflexivity.
Qed.

Lemma pne_bytes a b : pne (PBytes a) (PBytes b) = Py.Ok (PBool (negb (lz_eqb a b))).
Proof. reflexivity. Qed.

(* ------------------------------------------------------------------ *)
(* _skip_to_boundary *)
Section Skip.
  Variable St : Type.
  Variable rl : Z -> St -> bytes * St.

  (* the result of the model as the generated function returns it: the tuple
     of the assigned fields (self.bytes_read) and the input object *)
  Definition inj_skip (r : option (Z * St)) : res (pv * St) :=
    match r with
    | Some (n, s') => Py.Ok (PTuple [PInt n], s')
    | None => out_of_fuel
    end.

  (* the while loop, entered after a line was read: [fuel] more rounds *)
  Lemma skip_loop_eq : forall fuel ib a1 line nread s,
    gen_skip_to_boundary_loop_1 St rl fuel (PBytes ib) a1 (PBytes line)
      (PInt nread) s
    = if negb (lz_eqb (strip line) (45 :: 45 :: ib)) && negb (is_nil line)
      then inj_skip (skip_to_boundary St rl fuel (45 :: 45 :: ib) nread s)
      else Py.Ok (PTuple [PInt nread], s).
  Proof.
    induction fuel as [|fuel IH]; intros ib a1 line nread s;
      cbn [gen_skip_to_boundary_loop_1 skip_to_boundary];
      rewrite pstrip_eq; cbn [bind padd app]; rewrite pne_bytes;
      cbn [bind]; rewrite <- (negb_involutive (is_nil line)), <- truthy_bytes;
      destruct (lz_eqb (strip line) (45 :: 45 :: ib)); cbn [negb andb];
      change (Py.truthy (PBool true)) with true;
      change (Py.truthy (PBool false)) with false; cbv iota;
      try reflexivity;
      destruct (Py.truthy (PBytes line)); cbn [negb]; try reflexivity.
    unfold preadline. cbn [as_int bind]. destruct (rl (-1) s) as [l s1].
    cbn [bind plen padd arith as_int]. fold (len l). rewrite IH.
    destruct (negb (lz_eqb (strip l) (45 :: 45 :: ib)) && negb (is_nil l));
      reflexivity.
  Qed.

  (* generated _skip_to_boundary = the valid_boundary test of the model's
     read_multi followed by the model's skip_to_boundary.  The first
     readline() stands outside the Python loop, so [fuel] rounds of the loop
     are [S fuel] rounds of the model's recursion. *)
  Theorem gen_skip_to_boundary_eq (ib : bytes) (B0 : Z) (fuel : nat) (s : St) :
    gen_skip_to_boundary St rl (PBytes ib) s (PInt B0) fuel
    = if negb (valid_boundary ib) then value_error
      else inj_skip (skip_to_boundary St rl (S fuel) (dashb ib) B0 s).
  Proof.
    unfold gen_skip_to_boundary. rewrite gen_valid_boundary_eq.
    cbn [bind pnot Py.truthy]. destruct (valid_boundary ib); cbn [negb];
      [|reflexivity].
    unfold preadline. cbn [as_int bind skip_to_boundary].
    destruct (rl (-1) s) as [l s1].
    change (pisinstance (PBytes l) [[98; 121; 116; 101; 115]])
      with (Py.Ok (PBool true)).
    cbn [bind pnot Py.truthy negb plen padd arith as_int]. fold (len l).
    rewrite skip_loop_eq. unfold dashb.
    destruct (negb (lz_eqb (strip l) (45 :: 45 :: ib)) && negb (is_nil l));
      reflexivity.
  Qed.
End Skip.

(* ------------------------------------------------------------------ *)
(* the inner while of read_multi: hdr_text *)
Section Hdr.
  Variable St : Type.
  Variable rl : Z -> St -> bytes * St.

  (* the generated loop returns its carried variables (data, hdr_text) and
     the input object; the model returns hdr_text and the input object *)
  Definition hdr_view (r : res (pv * St)) : res (pv * St) :=
    match r with
    | Py.Ok (PTuple [_; h], s) => Py.Ok (h, s)
    | Py.Ok _ => Err TypeError
    | Err e => Err e
    end.
  Definition inj_hdr (r : option (bytes * St)) : res (pv * St) :=
    match r with
    | Some (h, s') => Py.Ok (PBytes h, s')
    | None => out_of_fuel
    end.

  Lemma hdr_loop_eq : forall fuel a acc s, exists d,
    gen_read_multi_loop_1_1 St rl fuel a (PBytes acc) s
    = match read_hdr St rl fuel acc s with
      | Some (h, s') => Py.Ok (PTuple [d; PBytes h], s')
      | None => out_of_fuel
      end.
  Proof.
    induction fuel as [|fuel IH]; intros a acc s;
      cbn [gen_read_multi_loop_1_1 read_hdr Py.truthy];
      [exists PNone; reflexivity|].
    unfold preadline. cbn [as_int bind]. destruct (rl (-1) s) as [l s1].
    cbn [bind padd]. rewrite pstrip_eq. cbn [bind pnot].
    rewrite truthy_bytes, negb_involutive.
    destruct (is_nil (strip l)); cbn [Py.truthy].
    - exists (PBytes l). reflexivity.
    - apply IH.
  Qed.

  (* generated inner loop (`hdr_text += data; if not data.strip(): break`)
     = the model's read_hdr, for every reader, state, accumulator and fuel *)
  Theorem gen_read_hdr_eq (fuel : nat) (a : pv) (acc : bytes) (s : St) :
    hdr_view (gen_read_multi_loop_1_1 St rl fuel a (PBytes acc) s)
    = inj_hdr (read_hdr St rl fuel acc s).
  Proof.
    destruct (hdr_loop_eq fuel a acc s) as [d ->].
    destruct (read_hdr St rl fuel acc s) as [[h s']|]; reflexivity.
  Qed.
End Hdr.

(* ------------------------------------------------------------------ *)
(* the while True of read_multi *)

(* the model's loop with the two things the Python loop also carries: the
   counter max_num_fields (None at the top level of a request; an atomic part
   has no part.list, so each part costs one) and self.bytes_read, which the
   generated function returns *)
Section LoopX.
  Variable St : Type.
  Variable rl : Z -> St -> bytes * St.
  Variable maxline : Z.

  Definition mnf_step (mnf : option Z) : option Z :=
    match mnf with Some m => Some (m - 1) | None => None end.
  Definition mnf_exceeded (mnf : option Z) : bool :=
    match mnf with Some m => m <? 0 | None => false end.

  Fixpoint part_loop_x (fuel fuel0 : nat) (ib : bytes) (limit : option Z)
           (length : Z) (bytes_read : Z) (mnf : option Z) (acc : list field)
           (s : St) : outcome (list field * Z * St) :=
    match fuel with
    | O => OutOfFuel
    | S f =>
        match read_hdr St rl fuel0 [] s with
        | None => OutOfFuel
        | Some (hdr, s1) =>
            if is_nil hdr then Multipart.Ok (acc, bytes_read, s1)
            else
              let bytes_read1 := bytes_read + len hdr in
              match part_headers (utf8_decode hdr) with
              | None => Unmodelled "From line in part headers"
              | Some hdrs =>
                  let plimit := match limit with
                                | Some L => Some (L - bytes_read1)
                                | None => None
                                end in
                  match parse_part St rl maxline fuel0 hdrs ib plimit s1 with
                  | Multipart.Ok (fld, done, br, s2) =>
                      if mnf_exceeded (mnf_step mnf)
                      then Multipart.Raised "ValueError"
                      else
                      let bytes_read2 := bytes_read1 + br in
                      if negb (done =? 0) ||
                         ((length <=? bytes_read2) && (0 <? length))
                      then Multipart.Ok (acc ++ [fld], bytes_read2, s2)
                      else part_loop_x f fuel0 ib limit length bytes_read2
                                       (mnf_step mnf) (acc ++ [fld]) s2
                  | Multipart.Raised e => Multipart.Raised e
                  | OutOfFuel => OutOfFuel
                  | Unmodelled w => Unmodelled w
                  end
              end
        end
    end.

  Definition forget_count {A B C} (o : outcome (A * B * C)) : outcome (A * C) :=
    match o with
    | Multipart.Ok (a, _, c) => Multipart.Ok (a, c)
    | Multipart.Raised e => Multipart.Raised e
    | OutOfFuel => OutOfFuel
    | Unmodelled w => Unmodelled w
    end.

  (* without a field limit it is the model's part_loop *)
  Lemma part_loop_x_none : forall fuel fuel0 ib limit length bytes_read acc s,
    forget_count (part_loop_x fuel fuel0 ib limit length bytes_read None acc s)
    = part_loop St rl maxline fuel fuel0 ib limit length bytes_read acc s.
  Proof.
    induction fuel as [|fuel IH]; intros; [reflexivity|].
    cbn [part_loop_x part_loop].
    destruct (read_hdr St rl fuel0 [] s) as [[hdr s1]|]; [|reflexivity].
    destruct (is_nil hdr); [reflexivity|].
    destruct (part_headers (utf8_decode hdr)) as [hdrs|]; [|reflexivity].
    destruct (parse_part St rl maxline fuel0 hdrs ib _ s1)
      as [[[[fld done] br] s2]|e| |w]; try reflexivity.
    cbn [mnf_step mnf_exceeded].
    destruct (negb (done =? 0) || _); [reflexivity|]. apply IH.
  Qed.
End LoopX.

(* ---- objects *)
Definition enc_hdr (nv : list Z * list Z) : pv :=
  PTuple [PStr (fst nv); PStr (snd nv)].
(* the email.message.Message that FeedParser.close() returns *)
Definition enc_hdrs (hs : list (list Z * list Z)) : pv := PList (map enc_hdr hs).
(* the FieldStorage that parse() of an atomic part returns: no .list *)
Definition enc_field (f : field) : pv :=
  PTuple [PStr (s2l "FieldStorage"); PNone; inj_name (f_name f);
          inj_name (f_filename f); PStr (f_type f);
          PList (map PBytes (f_pieces f))].
Definition unmodelled {A} (w : string) : res A :=
  Err (Py.Raised "Unmodelled"%string (PStr (s2l w))).
Definition inj_out {A B} (f : A -> B) (o : outcome A) : res B :=
  match o with
  | Multipart.Ok a => Py.Ok (f a)
  | Multipart.Raised e => Err (Py.Raised e PNone)
  | OutOfFuel => out_of_fuel
  | Unmodelled w => unmodelled w
  end.
(* FeedParser: feed(text), close() *)
Definition FPm (t : list Z) : res pv :=
  match part_headers t with
  | Some hs => Py.Ok (enc_hdrs hs)
  | None => unmodelled "From line in part headers"
  end.

Definition cl : list Z := s2l "content-length".
Definition is_cl (nv : list Z * list Z) : bool := lz_eqb (lower (fst nv)) cl.
Definition del_cl (hs : list (list Z * list Z)) : list (list Z * list Z) :=
  filter (fun nv => negb (is_cl nv)) hs.

Lemma msg_name_is_cl nv : msg_name_is cl (enc_hdr nv) = is_cl nv.
Proof. reflexivity. Qed.

Lemma contains_cl hs :
  pmsg_contains (enc_hdrs hs) (PStr cl) = Py.Ok (PBool (existsb is_cl hs)).
Proof.
  unfold pmsg_contains, enc_hdrs. do 2 f_equal.
  induction hs as [|nv hs IH]; [reflexivity|].
  cbn [map existsb]. rewrite msg_name_is_cl, IH. reflexivity.
Qed.

Lemma del_cl_eq hs :
  pmsg_del (enc_hdrs hs) (PStr cl) = Py.Ok (enc_hdrs (del_cl hs)).
Proof.
  unfold pmsg_del, enc_hdrs, del_cl. do 2 f_equal.
  induction hs as [|nv hs IH]; [reflexivity|].
  cbn [map filter]. rewrite msg_name_is_cl, IH.
  destruct (is_cl nv); reflexivity.
Qed.

Lemma del_cl_absent hs : existsb is_cl hs = false -> del_cl hs = hs.
Proof.
  induction hs as [|nv hs IH]; [reflexivity|]. cbn [existsb del_cl filter].
  intros H. apply orb_false_iff in H as [H1 H2]. rewrite H1. cbn [negb].
  f_equal. apply IH. exact H2.
Qed.

(* the deleted header is not one the sub-parser looks at *)
Lemma hdr_get_del_cl hs k :
  lz_eqb cl k = false -> hdr_get (del_cl hs) k = hdr_get hs k.
Proof.
  intros Hk. induction hs as [|[n v] hs IH]; [reflexivity|].
  cbn [del_cl filter hdr_get]. unfold is_cl. cbn [fst].
  destruct (lz_eqb (lower n) cl) eqn:E; cbn [negb].
  - apply lz_eqb_eq in E. rewrite E, Hk. exact IH.
  - cbn [hdr_get]. destruct (lz_eqb (lower n) k); [reflexivity | exact IH].
Qed.

Lemma part_meta_del_cl hs ob : part_meta (del_cl hs) ob = part_meta hs ob.
Proof.
  unfold part_meta. rewrite !hdr_get_del_cl by reflexivity. reflexivity.
Qed.

Lemma parse_part_del_cl St rl maxline fuel hs ob limit s :
  parse_part St rl maxline fuel (del_cl hs) ob limit s
  = parse_part St rl maxline fuel hs ob limit s.
Proof. unfold parse_part. rewrite part_meta_del_cl. reflexivity. Qed.

Section PartLoop.
  Variable St : Type.
  Variable rl : Z -> St -> bytes * St.
  (* the sub-parser: constructor + parse() *)
  Variable PARSE : nat -> pv -> St -> res (pv * pv * pv * St).
  Variable ib : bytes.                    (* self.innerboundary *)
  Variable limit : option Z.              (* self.limit *)
  Variable length : Z.                    (* self.length *)
  Variables m0 enc errs kbv sp sep cb d0 : pv.
  Variable fuel0 : nat.

  Definition inj_part (r : field * Z * Z * St) : pv * pv * pv * St :=
    let '(fld, done, br, s2) := r in (enc_field fld, PInt done, PInt br, s2).

  (* What is assumed of the sub-parser (the class's constructor called with
     these arguments by parameter name, then parse()): on the headers of a
     part, boundary, limit and the configuration of this parser, with any
     field count, it does what the model's parse_part says. *)
  Hypothesis PARSE_spec : forall hdrs plimit mnf s,
    PARSE fuel0
      (PTuple [enc_hdrs hdrs; PBytes ib; kbv; sp; inj_lim plimit; enc; errs;
               inj_lim mnf; sep; cb]) s
    = inj_out inj_part (parse_part St rl 65536 fuel0 hdrs ib plimit s).

  Definition inj_loop (r : list field * Z * St) : pv * St :=
    let '(fs, br, s') := r in
    (PTuple [PList (map enc_field fs); d0; PInt br], s').

  Lemma part_loop_eq : forall fuel br mnf acc s a1 a2 a3 a4 a5 a6 a7,
    gen_read_multi_loop_1 St rl utf8_decode FPm PARSE fuel0 fuel
      (PBytes ib) m0 enc errs (inj_lim limit) kbv sp sep cb (PInt length)
      (PBytes []) d0 a1 a2 a3 (PInt br) a4 a5 a6 a7 (inj_lim mnf)
      (PList (map enc_field acc)) s
    = inj_out inj_loop
        (part_loop_x St rl 65536 fuel fuel0 ib limit length br mnf acc s).
  Proof.
    induction fuel as [|fuel IH]; intros br mnf acc s a1 a2 a3 a4 a5 a6 a7;
      [reflexivity|].
    cbn [gen_read_multi_loop_1 part_loop_x Py.truthy].
    destruct (hdr_loop_eq St rl fuel0 a3 [] s) as [d Hd]. rewrite Hd. clear Hd.
    destruct (read_hdr St rl fuel0 [] s) as [[hdr s1]|]; [|reflexivity].
    cbn [bind]. rewrite pindex_0, pindex_1. cbn [bind pnot].
    rewrite truthy_bytes, negb_involutive.
    destruct (is_nil hdr); cbn [Py.truthy].
    { (* no more parts: skip_lines of a parser without outer boundary *)
      unfold gen_skip_lines. cbn [pnot Py.truthy negb bind].
      rewrite pindex_0, pindex_1. reflexivity. }
    cbn [plen padd arith as_int bind pdecode pnew_feedparser pfeed pclose
         cat_items app]. fold (len hdr). rewrite app_nil_r. unfold FPm.
    destruct (part_headers (utf8_decode hdr)) as [hdrs|]; [|reflexivity].
    cbn [bind]. change (PStr _) with (PStr cl) at 1 2.
    rewrite contains_cl. cbn [bind Py.truthy].
    (* both ways the sub-parser gets the headers without Content-Length *)
    destruct (existsb is_cl hdrs) eqn:E;
      [ rewrite del_cl_eq; cbn [bind]
      | rewrite <- (del_cl_absent hdrs E) at 1 ].
    all: destruct limit as [L|];
      cbn [inj_lim pis_none Py.truthy bind psub arith as_int].
    all: match goal with
         | |- context [PARSE fuel0 (PTuple (_ :: _ :: _ :: _ :: ?l :: _)) ?s] =>
             first [ change l with (inj_lim (Some (L - (br + len hdr))))
                   | change l with (inj_lim (@None Z)) ]
         end; rewrite PARSE_spec, parse_part_del_cl.
    all: match goal with
         | |- context [parse_part ?x1 ?x2 ?x3 ?x4 ?x5 ?x6 ?x7 ?x8] =>
             destruct (parse_part x1 x2 x3 x4 x5 x6 x7 x8)
               as [[[[fld done] nr] s2]|e| |w]
         end; try reflexivity.
    all: cbn [inj_out inj_part bind].
    all: destruct mnf as [m|];
      cbn [inj_lim pis_not_none Py.truthy bind psub arith as_int enc_field
           ppart_list plt pcmp mnf_step mnf_exceeded];
      try (destruct (m - 1 <? 0); cbn [Py.truthy]; [reflexivity|]).
    all: cbn [padd arith as_int bind pappend pge pgt pcmp Py.truthy];
      change [enc_field fld] with (map enc_field [fld]); rewrite <- map_app;
      rewrite Z.geb_leb, Z.gtb_ltb.
    all: destruct (done =? 0); cbn [negb orb Py.truthy bind];
      [ destruct (length <=? br + len hdr + nr); cbn [Py.truthy andb];
        [ destruct (0 <? length); cbn [Py.truthy] | ] | ].
    all: try (unfold gen_skip_lines; cbn [pnot Py.truthy negb bind];
              rewrite pindex_0, pindex_1; reflexivity).
    all: first [ exact (IH _ (Some (m - 1)) _ _ _ _ _ _ _ _ _)
               | exact (IH _ None _ _ _ _ _ _ _ _ _) ].
  Qed.

  (* the generated function returns (_list, self.done, self.bytes_read); the
     model's part_loop returns the list *)
  Definition list_view (r : res (pv * St)) : res (pv * St) :=
    match r with
    | Py.Ok (PTuple [l; _; _], s) => Py.Ok (l, s)
    | Py.Ok _ => Err TypeError
    | Err e => Err e
    end.
  Definition inj_fields (r : list field * St) : pv * St :=
    (PList (map enc_field (fst r)), snd r).

  (* generated outer loop of read_multi, without a field limit = the model's
     part_loop *)
  Theorem gen_part_loop_eq fuel br acc s a1 a2 a3 a4 a5 a6 a7 :
    list_view
      (gen_read_multi_loop_1 St rl utf8_decode FPm PARSE fuel0 fuel
         (PBytes ib) m0 enc errs (inj_lim limit) kbv sp sep cb (PInt length)
         (PBytes []) d0 a1 a2 a3 (PInt br) a4 a5 a6 a7 PNone
         (PList (map enc_field acc)) s)
    = inj_out inj_fields
        (part_loop St rl 65536 fuel fuel0 ib limit length br acc s).
  Proof.
    rewrite (part_loop_eq fuel br None), <- part_loop_x_none.
    destruct (part_loop_x St rl 65536 fuel fuel0 ib limit length br None acc s)
      as [[[fs b] s']|e| |w]; reflexivity.
  Qed.
End PartLoop.

(* ------------------------------------------------------------------ *)
(* read_multi of a parser without outer boundary (the top level) *)
Lemma skip_mono St rl : forall fuel d n s r,
  skip_to_boundary St rl fuel d n s = Some r ->
  skip_to_boundary St rl (S fuel) d n s = Some r.
Proof.
  induction fuel as [|fuel IH]; intros d n s r; [discriminate|].
  intros H. cbn [skip_to_boundary] in H.
  change (skip_to_boundary St rl (S (S fuel)) d n s)
    with (let (line, s1) := rl (-1) s in
          let nread1 := n + len line in
          if negb (lz_eqb (strip line) d) && negb (is_nil line)
          then skip_to_boundary St rl (S fuel) d nread1 s1
          else Some (nread1, s1)).
  destruct (rl (-1) s) as [line s1]. cbv zeta in *.
  destruct (negb (lz_eqb (strip line) d) && negb (is_nil line));
    [apply IH; exact H | exact H].
Qed.

Section ReadMulti.
  Variable St : Type.
  Variable rl : Z -> St -> bytes * St.
  Variable PARSE : nat -> pv -> St -> res (pv * pv * pv * St).
  Variable ib : bytes.
  Variable limit : option Z.
  Variable length : Z.
  Variables enc errs kbv sp sep cb d0 : pv.
  Variable fuel : nat.
  Hypothesis PARSE_spec : forall hdrs plimit mnf s,
    PARSE fuel
      (PTuple [enc_hdrs hdrs; PBytes ib; kbv; sp; inj_lim plimit; enc; errs;
               inj_lim mnf; sep; cb]) s
    = inj_out (inj_part St) (parse_part St rl 65536 fuel hdrs ib plimit s).

  (* generated read_multi = valid_boundary test, skip_to_boundary, part loop
     of the model.  [S fuel]: see gen_skip_to_boundary_eq. *)
  Theorem gen_read_multi_eq (B0 : Z) (mnf : option Z) (s : St) :
    gen_read_multi St rl utf8_decode FPm PARSE (PBytes ib) s (PInt B0)
      (inj_lim mnf) enc errs (inj_lim limit) kbv sp sep cb (PInt length)
      (PBytes []) d0 fuel
    = if negb (valid_boundary ib) then value_error
      else match skip_to_boundary St rl (S fuel) (dashb ib) B0 s with
           | None => out_of_fuel
           | Some (br, s1) =>
               inj_out (inj_loop St d0)
                 (part_loop_x St rl 65536 fuel fuel ib limit length br mnf
                              [] s1)
           end.
  Proof.
    unfold gen_read_multi. rewrite gen_skip_to_boundary_eq.
    destruct (valid_boundary ib); cbn [negb]; [|reflexivity].
    destruct (skip_to_boundary St rl (S fuel) (dashb ib) B0 s) as [[br s1]|];
      [|reflexivity].
    cbn [inj_skip bind]. rewrite pindex_0. cbn [bind].
    exact (part_loop_eq St rl PARSE ib limit length (inj_lim mnf) enc errs kbv
             sp sep cb d0 fuel PARSE_spec fuel br mnf [] s1
             PNone PNone PNone PNone PNone PNone PNone).
  Qed.

  (* ... which is the model's read_multi whenever that finds the first
     delimiter line within its fuel *)
  Theorem gen_read_multi_is_model (s : St) :
    skip_to_boundary St rl fuel (dashb ib) 0 s <> None ->
    list_view St
      (gen_read_multi St rl utf8_decode FPm PARSE (PBytes ib) s (PInt 0)
         PNone enc errs (inj_lim limit) kbv sp sep cb (PInt length)
         (PBytes []) d0 fuel)
    = inj_out (inj_fields St) (read_multi St rl 65536 fuel ib limit length s).
  Proof.
    intros Hs. rewrite (gen_read_multi_eq 0 None). unfold read_multi, dashb in *.
    destruct (valid_boundary ib); cbn [negb]; [|reflexivity].
    destruct (skip_to_boundary St rl fuel (45 :: 45 :: ib) 0 s) as [[br s1]|]
      eqn:E; [|contradiction].
    rewrite (skip_mono St rl _ _ _ _ _ E), <- part_loop_x_none.
    destruct (part_loop_x St rl 65536 fuel fuel ib limit length br None [] s1)
      as [[[fs b] s']|e| |w]; reflexivity.
  Qed.
End ReadMulti.
