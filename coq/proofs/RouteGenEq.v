(* The route compiler generated from poorwsgi/wsgi.py (gen/RouteGen.v, by
   harness/py2v_route.py) IS the hand model of model/Routing.v. *)
From Coq Require Import ZArith List Bool String.
Require Import PW.lib.Val PW.model.Regex PW.model.Routing PW.lib.PyRoute
        PW.gen.RouteGen.
Import ListNotations.
Open Scope string_scope.
Open Scope list_scope.
Open Scope Z_scope.

(* ------------------------------------------- (1) constants of the source *)
Theorem gen_re_filter_pattern_is_model :
  gen_re_filter_pattern = re_filter_pattern.
Proof. reflexivity. Qed.

Theorem gen_init_filters_is_model : gen_init_filters = init_filters.
Proof. reflexivity. Qed.

(* ------------------------------------------------------------ (2) __regex *)
(* the text a group becomes, as the model writes it in [compile_parts] *)
Definition group_text (F : ftab) (nm : list Z) (filt : option (list Z))
  : outcome (list Z) :=
  match regex_of F filt with
  | Ok rx => Ok (s2l "(?P<" ++ nm ++ [62] ++ rx ++ [41])
  | Raised e => Raised e
  end.

Definition lift (o : outcome (list Z)) : outcome rv :=
  match o with Ok t => Ok (RS t) | Raised e => Raised e end.

Theorem gen_regex_is_model :
  forall F nm filt,
    gen_regex F (RS nm) (opt_rv filt) = lift (group_text F nm filt).
Proof.
  intros F nm filt.
  unfold gen_regex, group_text, regex_of, filter_key, starts_re, lift.
  destruct filt as [f|]; cbn [opt_rv py_str py_lower bind].
  - unfold tab_mem, tab_regex.
    destruct (lget (str_lower f) F) as [[rx cv]|] eqn:E.
    + destruct rx as [t|]; cbn [opt_rv bind]; unfold py_format;
        cbn [py_format_aux bind py_str]; rewrite app_nil_r; reflexivity.
    + cbn [py_slice_to bind rv_eqb].
      destruct (lz_eqb (firstn 4 (str_lower f)) _) eqn:R.
      * cbn [py_slice_from bind]. unfold py_format.
        cbn [py_format_aux bind py_str]. rewrite app_nil_r. reflexivity.
      * reflexivity.
  - unfold tab_mem, tab_regex.
    destruct (lget (str_lower (s2l "None")) F) as [[rx cv]|] eqn:E.
    + destruct rx as [t|]; cbn [opt_rv bind]; unfold py_format;
        cbn [py_format_aux bind py_str]; rewrite app_nil_r; reflexivity.
    + cbn [py_slice_to bind rv_eqb].
      replace (lz_eqb (firstn 4 (str_lower (s2l "None"))) _) with false
        by reflexivity.
      reflexivity.
Qed.

(* ... which is the piece [compile_parts] puts in for a group *)
Theorem compile_parts_group :
  forall F nm filt ps,
    compile_parts F (PGrp nm filt :: ps) =
    match group_text F nm filt with
    | Ok piece =>
        match compile_parts F ps with
        | Ok t => Ok (piece ++ t)
        | Raised e => Raised e
        end
    | Raised e => Raised e
    end.
Proof.
  intros. cbn [compile_parts]. unfold group_text.
  destruct (regex_of F filt); [|reflexivity].
  destruct (compile_parts F ps); [|reflexivity].
  rewrite <- !app_assoc. reflexivity.
Qed.

Theorem gen_regex_in_compile_parts :
  forall F nm filt,
    gen_regex F (RS nm) (opt_rv filt) =
    match regex_of F filt with
    | Ok rx => Ok (RS (s2l "(?P<" ++ nm ++ [62] ++ rx ++ [41]))
    | Raised e => Raised e
    end /\
    forall ps,
      compile_parts F (PGrp nm filt :: ps) =
      match gen_regex F (RS nm) (opt_rv filt) with
      | Ok piece =>
          match compile_parts F ps with
          | Ok t => Ok ((match piece with RS s => s | RN => [] end) ++ t)
          | Raised e => Raised e
          end
      | Raised e => Raised e
      end.
Proof.
  intros F nm filt. split.
  - rewrite gen_regex_is_model. unfold group_text, lift.
    destruct (regex_of F filt); reflexivity.
  - intros ps. rewrite compile_parts_group, gen_regex_is_model.
    unfold lift. destruct (group_text F nm filt); reflexivity.
Qed.

(* -------------------------------------------------------- (4) __converter *)
Theorem gen_converter_is_model :
  forall F filt, gen_converter F (opt_rv filt) = conv_of F filt.
Proof.
  intros F filt.
  unfold gen_converter, conv_of, filter_key, starts_re.
  change (s2l ":re:") with [58; 114; 101; 58].
  destruct filt as [f|]; cbn [opt_rv py_str py_lower py_slice_to bind rv_eqb].
  - destruct (lz_eqb (firstn 4 (str_lower f)) [58; 114; 101; 58]);
      cbn [bind]; unfold tab_conv.
    + destruct (lget [58; 114; 101; 58] F) as [[rx cv]|]; reflexivity.
    + destruct (lget (str_lower f) F) as [[rx cv]|]; reflexivity.
  - replace (lz_eqb (firstn 4 (str_lower (s2l "None"))) [58; 114; 101; 58])
      with false by reflexivity.
    cbn [bind]. unfold tab_conv.
    destruct (lget (str_lower (s2l "None")) F) as [[rx cv]|]; reflexivity.
Qed.

(* ----------------------------------------------- (3) the compile step *)
Lemma sub_parts_is_compile_parts :
  forall F ps,
    compile_parts F ps =
    match sub_parts (gen_regex F) ps with
    | Ok t => Ok (t ++ [92; 90])
    | Raised e => Raised e
    end.
Proof.
  intros F ps. induction ps as [|p ps IH]; [reflexivity|].
  destruct p as [c|nm filt].
  - cbn [compile_parts sub_parts]. rewrite IH.
    destruct (sub_parts (gen_regex F) ps); reflexivity.
  - rewrite compile_parts_group. cbn [sub_parts].
    rewrite gen_regex_is_model. unfold lift.
    destruct (group_text F nm filt) as [piece|e]; [|reflexivity].
    cbn [bind]. rewrite IH.
    destruct (sub_parts (gen_regex F) ps); cbn [bind]; [|reflexivity].
    rewrite app_assoc. reflexivity.
Qed.

Definition named (p : list Z * conv) : rv * conv := (RS (fst p), snd p).

Lemma tuple_of_is_converters :
  forall F ps,
    tuple_of (fun g0 g1 => bind (gen_converter F g1) (fun v => Ok (g0, v)))
             (groups_of ps) =
    match converters F ps with
    | Ok l => Ok (map named l)
    | Raised e => Raised e
    end.
Proof.
  intros F ps. induction ps as [|p ps IH]; [reflexivity|].
  destruct p as [c|nm filt]; [exact IH|].
  cbn [groups_of tuple_of converters]. rewrite gen_converter_is_model.
  destruct (conv_of F filt) as [cv|e]; [|reflexivity].
  cbn [bind]. rewrite IH.
  destruct (converters F ps); reflexivity.
Qed.

Theorem gen_route_test_is_model :
  forall U uri,
    gen_set_route_test U uri = has_group (scan_uri U uri) /\
    gen_pop_route_test U uri = has_group (scan_uri U uri) /\
    gen_is_route_test U uri = has_group (scan_uri U uri).
Proof. intros. repeat split. Qed.

Lemma text_step :
  forall U F uri,
    bind (re_sub U (gen_regex F) uri)
         (fun v1 => bind (py_add v1 (RS [92; 90])) (fun v2 => Ok v2)) =
    lift (compile_text U F uri).
Proof.
  intros U F uri. unfold re_sub, compile_text, lift.
  rewrite sub_parts_is_compile_parts.
  destruct (sub_parts (gen_regex F) (scan_uri U uri)); reflexivity.
Qed.

Theorem gen_route_text_is_model :
  forall U F uri,
    gen_pop_route_compile U F uri = lift (compile_text U F uri) /\
    gen_is_route_compile U F uri = lift (compile_text U F uri).
Proof. intros. split; apply text_step. Qed.

Theorem gen_set_route_compile_is_model :
  forall U F uri,
    gen_set_route_compile U F uri =
    match compile_text U F uri with
    | Ok text =>
        match converters F (scan_uri U uri) with
        | Ok cvs => Ok (RS text, map named cvs)
        | Raised e => Raised e
        end
    | Raised e => Raised e
    end.
Proof.
  intros U F uri. unfold gen_set_route_compile, re_sub, compile_text, re_groups.
  rewrite sub_parts_is_compile_parts, tuple_of_is_converters.
  destruct (sub_parts (gen_regex F) (scan_uri U uri)); [|reflexivity].
  cbn [bind py_add].
  destruct (converters F (scan_uri U uri)); reflexivity.
Qed.

(* what the compile step hands on: set_regular_route(text, fun, method,
   converters, uri) as in the model's [set_route]; pop / is: the text *)
Theorem gen_route_args_are_model :
  gen_set_route_args =
    [A_rv 1; A_param 2; A_param 3; A_convs 2; A_param 1] /\
  gen_pop_route_args = [A_rv 1; A_param 2] /\
  gen_is_route_args = [A_rv 1].
Proof. repeat split. Qed.

(* ------------------------------------------------------- (4) set_filter *)
Theorem gen_set_filter_is_model :
  forall F name rx cv,
    gen_set_filter F (RS name) (RS rx) cv = set_filter F name rx cv.
Proof.
  intros F name rx cv. unfold gen_set_filter, set_filter.
  destruct name as [|c name]; [reflexivity|].
  cbn [py_index0 bind]. unfold rv_neqb. cbn [rv_eqb lz_eqb].
  rewrite andb_true_r.
  destruct (c =? 58); reflexivity.
Qed.

Theorem gen_set_filter_default_is_model : gen_set_filter_default_3 = CStr.
Proof. reflexivity. Qed.

(* ------------- the model's set_route, read through the generated pieces *)
Definition rv_text (v : rv) : list Z := match v with RS s => s | RN => [] end.
Definition unnamed (p : rv * conv) : list Z * conv := (rv_text (fst p), snd p).

Lemma unnamed_named : forall l, map unnamed (map named l) = l.
Proof.
  induction l as [|[nm cv] l IH]; [reflexivity|].
  cbn [map]. rewrite IH. reflexivity.
Qed.

Theorem set_route_via_generated :
  forall U a uri f mask,
    set_route U a uri f mask =
    if gen_set_route_test U uri then
      match gen_set_route_compile U (a_filters a) uri with
      | Ok (text, cvs) =>
          set_regular a (rv_text text) f mask (map unnamed cvs) (Some uri)
      | Raised e => Raised e
      end
    else
      let mt := match lget uri (a_static a) with Some m => m | None => [] end in
      Ok (mkApp (lset uri (fan mask f meths mt) (a_static a)) (a_pats a)
                (a_defaults a) (a_filters a)).
Proof.
  intros U a uri f mask. unfold set_route.
  rewrite gen_set_route_compile_is_model.
  unfold gen_set_route_test, re_search, compile_text.
  destruct (has_group (scan_uri U uri)); [|reflexivity].
  destruct (compile_parts (a_filters a) (scan_uri U uri)); [|reflexivity].
  destruct (converters (a_filters a) (scan_uri U uri)); [|reflexivity].
  rewrite unnamed_named. reflexivity.
Qed.
