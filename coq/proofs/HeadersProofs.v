(* Proofs about coq/model/Headers.v (C14). *)
From Coq Require Import ZArith List Bool Lia ZifyBool.
Require Import PW.lib.Val PW.lib.ValFacts PW.model.Headers.
Import ListNotations.
Open Scope Z_scope.

Ltac Zify.zify_post_hook ::= Z.to_euclidean_division_equations.

(* ================================================================ UTF-8 *)

(* resolve the outermost [if] of the left-hand side by arithmetic *)
Ltac step_if :=
  match goal with
  | |- (if ?b then _ else _) = _ =>
      first [ replace b with true
                by (symmetry; unfold cont, is_surrogate, is_cp, is_byte; lia)
            | replace b with false
                by (symmetry; unfold cont, is_surrogate, is_cp, is_byte; lia) ];
      cbv iota
  end.

Lemma dec_enc1 c rest :
  is_scalar c = true ->
  utf8_decode (enc1 c ++ rest) = ocons c (utf8_decode rest).
Proof.
  unfold is_scalar, is_cp, is_surrogate. intros Hc.
  unfold enc1.
  destruct (c <? 128) eqn:E1; [|destruct (c <? 2048) eqn:E2;
    [|destruct (c <? 65536) eqn:E3]]; cbn [app utf8_decode].
  - rewrite E1. reflexivity.
  - repeat step_if. cbv zeta. step_if. f_equal. lia.
  - repeat step_if. cbv zeta. step_if. f_equal. lia.
  - repeat step_if. cbv zeta. step_if. f_equal. lia.
Qed.

Theorem utf8_roundtrip s :
  forallb is_scalar s = true -> utf8_decode (utf8_encode s) = Some s.
Proof.
  induction s as [|c s IH]; intros H; [reflexivity|].
  cbn [forallb] in H. apply andb_true_iff in H. destruct H as [Hc Hs].
  unfold utf8_encode. cbn [flat_map]. fold (utf8_encode s).
  rewrite dec_enc1 by exact Hc. rewrite IH by exact Hs. reflexivity.
Qed.
