(* Proofs about coq/model/Headers.v (C14). *)
From Coq Require Import ZArith List Bool Lia ZifyBool.
Require Import PW.lib.Val PW.lib.ValFacts PW.model.Headers.
Import ListNotations.
Open Scope Z_scope.

Ltac Zify.zify_post_hook ::= Z.to_euclidean_division_equations.

(* ================================================================ UTF-8 *)

(* resolve the outermost [if] of the left-hand side by arithmetic *)
Ltac step_if :=
  match goal with
  | |- (if ?b then _ else _) = _ =>
      first [ replace b with true
                by (symmetry; unfold cont, is_surrogate, is_cp, is_byte; lia)
            | replace b with false
                by (symmetry; unfold cont, is_surrogate, is_cp, is_byte; lia) ];
      cbv iota
  end.

Lemma dec_enc1 c rest :
  is_scalar c = true ->
  utf8_decode (enc1 c ++ rest) = ocons c (utf8_decode rest).
Proof.
  unfold is_scalar, is_cp, is_surrogate. intros Hc.
  unfold enc1.
  destruct (c <? 128) eqn:E1; [|destruct (c <? 2048) eqn:E2;
    [|destruct (c <? 65536) eqn:E3]]; cbn [app utf8_decode].
  - rewrite E1. reflexivity.
  - repeat step_if. f_equal. lia.
  - repeat step_if. f_equal. lia.
  - repeat step_if. f_equal. lia.
Qed.

Theorem utf8_roundtrip s :
  forallb is_scalar s = true -> utf8_decode (utf8_encode s) = Some s.
Proof.
  induction s as [|c s IH]; intros H; [reflexivity|].
  cbn [forallb] in H. apply andb_true_iff in H. destruct H as [Hc Hs].
  unfold utf8_encode. cbn [flat_map]. fold (utf8_encode s).
  rewrite dec_enc1 by exact Hc. rewrite IH by exact Hs. reflexivity.
Qed.

Lemma scalar_cp c : is_scalar c = true -> is_cp c = true.
Proof. unfold is_scalar. intros H. apply andb_true_iff in H. tauto. Qed.

Lemma scalar_encodable s : forallb is_scalar s = true -> encodable s = true.
Proof.
  unfold encodable. induction s as [|c s IH]; intros H; [reflexivity|].
  cbn [forallb] in *. apply andb_true_iff in H. destruct H as [Hc Hs].
  rewrite IH by exact Hs. unfold is_scalar in Hc.
  apply andb_true_iff in Hc. destruct Hc as [_ Hc]. rewrite Hc. reflexivity.
Qed.

Lemma scalars_cps s : forallb is_scalar s = true -> forallb is_cp s = true.
Proof.
  induction s as [|c s IH]; intros H; [reflexivity|].
  cbn [forallb] in *. apply andb_true_iff in H. destruct H as [Hc Hs].
  rewrite (scalar_cp _ Hc), IH by exact Hs. reflexivity.
Qed.

(* the bytes of a Python code point are bytes *)
Lemma enc1_bytes c : is_cp c = true -> forallb is_byte (enc1 c) = true.
Proof.
  unfold is_cp, enc1, is_byte. intros Hc.
  destruct (c <? 128) eqn:E1; [|destruct (c <? 2048) eqn:E2;
    [|destruct (c <? 65536) eqn:E3]]; cbn [forallb]; lia.
Qed.

Lemma utf8_encode_app a b :
  utf8_encode (a ++ b) = utf8_encode a ++ utf8_encode b.
Proof. unfold utf8_encode. apply flat_map_app. Qed.

Lemma utf8_encode_cons c s : utf8_encode (c :: s) = enc1 c ++ utf8_encode s.
Proof. reflexivity. Qed.

Lemma utf8_encode_latin1 s :
  forallb is_cp s = true -> latin1 (utf8_encode s) = true.
Proof.
  unfold latin1. induction s as [|c s IH]; intros H; [reflexivity|].
  cbn [forallb] in H. apply andb_true_iff in H. destruct H as [Hc Hs].
  rewrite utf8_encode_cons, forallb_app, enc1_bytes, IH by assumption.
  reflexivity.
Qed.

(* utf8(iso88591(s)) == s for every str of Unicode scalar values *)
Theorem utf8_of_iso s :
  forallb is_scalar s = true ->
  iso88591 (AStr s) = Ok (utf8_encode s) /\ utf8 (utf8_encode s) = s.
Proof.
  intros H. split.
  - unfold iso88591. rewrite scalar_encodable by exact H. reflexivity.
  - unfold utf8. fold (latin1 (utf8_encode s)).
    rewrite utf8_encode_latin1 by (apply scalars_cps; exact H).
    rewrite utf8_roundtrip by exact H. reflexivity.
Qed.

(* =========================================================== strings *)

Lemma lower_app a b : lower (a ++ b) = lower a ++ lower b.
Proof. apply map_app. Qed.

Lemma lower_enc1 c : lower (enc1 c) = enc1 (ascii_lower c).
Proof.
  unfold ascii_lower at 1.
  destruct ((65 <=? c) && (c <=? 90)) eqn:U.
  - unfold enc1.
    replace (c <? 128) with true by lia.
    replace (c + 32 <? 128) with true by lia.
    cbn [lower map]. unfold ascii_lower. rewrite U. reflexivity.
  - unfold enc1.
    destruct (c <? 128) eqn:E1; [|destruct (c <? 2048) eqn:E2;
      [|destruct (c <? 65536) eqn:E3]]; cbn [lower map]; unfold ascii_lower.
    + rewrite U. reflexivity.
    + repeat match goal with
             | |- context [if ?b then _ else _] =>
                 replace b with false by lia
             end. reflexivity.
    + repeat match goal with
             | |- context [if ?b then _ else _] =>
                 replace b with false by lia
             end. reflexivity.
    + repeat match goal with
             | |- context [if ?b then _ else _] =>
                 replace b with false by lia
             end. reflexivity.
Qed.

Lemma lower_utf8 s : lower (utf8_encode s) = utf8_encode (lower s).
Proof.
  induction s as [|c s IH]; [reflexivity|].
  cbn [lower map]. rewrite !utf8_encode_cons, lower_app, lower_enc1.
  fold (lower s). rewrite IH. reflexivity.
Qed.

Lemma surrogate_lower c : is_surrogate (ascii_lower c) = is_surrogate c.
Proof.
  unfold ascii_lower, is_surrogate.
  destruct ((65 <=? c) && (c <=? 90)) eqn:U; lia.
Qed.

Lemma encodable_lower s : encodable (lower s) = encodable s.
Proof.
  unfold encodable. induction s as [|c s IH]; [reflexivity|].
  cbn [lower map forallb]. fold (lower s). rewrite IH, surrogate_lower.
  reflexivity.
Qed.

Lemma enc1_not_nil c : enc1 c <> [].
Proof.
  unfold enc1. destruct (c <? 128); [|destruct (c <? 2048);
    [|destruct (c <? 65536)]]; discriminate.
Qed.

Lemma utf8_is_nil t : is_nil (utf8_encode t) = is_nil t.
Proof.
  destruct t as [|c t]; [reflexivity|].
  rewrite utf8_encode_cons. pose proof (enc1_not_nil c).
  destruct (enc1 c); [contradiction|reflexivity].
Qed.

Definition is_ascii (c : Z) : bool := (0 <=? c) && (c <? 128).

Lemma utf8_ascii a : forallb is_ascii a = true -> utf8_encode a = a.
Proof.
  induction a as [|c a IH]; intros H; [reflexivity|].
  cbn [forallb] in H. apply andb_true_iff in H. destruct H as [Hc Ha].
  rewrite utf8_encode_cons, IH by exact Ha. unfold enc1, is_ascii in *.
  replace (c <? 128) with true by lia. reflexivity.
Qed.

Lemma replace_char_app c r a b :
  replace_char c r (a ++ b) = replace_char c r a ++ replace_char c r b.
Proof. unfold replace_char. apply flat_map_app. Qed.

(* replacing an ASCII character commutes with UTF-8 encoding: the bytes of
   a non-ASCII code point are all >= 128 *)
Lemma replace_enc1 c r x :
  0 <= c < 128 -> utf8_encode r = r ->
  replace_char c r (enc1 x) = utf8_encode (if x =? c then r else [x]).
Proof.
  intros Hc Hr. destruct (x =? c) eqn:E.
  - apply Z.eqb_eq in E. subst x. rewrite Hr. unfold enc1.
    replace (c <? 128) with true by lia.
    unfold replace_char. cbn [flat_map]. rewrite Z.eqb_refl, app_nil_r.
    reflexivity.
  - unfold utf8_encode at 1. cbn [flat_map]. rewrite app_nil_r.
    unfold enc1.
    destruct (x <? 128) eqn:E1; [|destruct (x <? 2048) eqn:E2;
      [|destruct (x <? 65536) eqn:E3]]; unfold replace_char; cbn [flat_map app].
    + rewrite E. reflexivity.
    + repeat match goal with
             | |- context [if ?b then _ else _] =>
                 replace b with false by lia
             end. reflexivity.
    + repeat match goal with
             | |- context [if ?b then _ else _] =>
                 replace b with false by lia
             end. reflexivity.
    + repeat match goal with
             | |- context [if ?b then _ else _] =>
                 replace b with false by lia
             end. reflexivity.
Qed.

Lemma replace_char_utf8 c r s :
  0 <= c < 128 -> utf8_encode r = r ->
  replace_char c r (utf8_encode s) = utf8_encode (replace_char c r s).
Proof.
  intros Hc Hr. induction s as [|x s IH]; [reflexivity|].
  rewrite utf8_encode_cons, replace_char_app, IH, replace_enc1 by assumption.
  rewrite <- utf8_encode_app. reflexivity.
Qed.

Lemma escape_utf8 t : escape (utf8_encode t) = utf8_encode (escape t).
Proof.
  unfold escape.
  rewrite (replace_char_utf8 92 [92; 92]) by (try lia; reflexivity).
  rewrite (replace_char_utf8 34 [92; 34]) by (try lia; reflexivity).
  reflexivity.
Qed.

Lemma join_cons sep p q rest :
  join sep (p :: q :: rest) = p ++ sep ++ join sep (q :: rest).
Proof. reflexivity. Qed.

Lemma join_utf8 sep parts :
  utf8_encode (join sep parts) = join (utf8_encode sep) (map utf8_encode parts).
Proof.
  induction parts as [|p rest IH]; [reflexivity|].
  destruct rest as [|q rest]; [reflexivity|].
  rewrite join_cons. cbn [map]. rewrite join_cons.
  rewrite !utf8_encode_app, IH. reflexivity.
Qed.

(* ============================================= the code vs the reference *)

Definition step_rel (a : state * outcome) (b : state * soutcome) : Prop :=
  fst a = fst b /\ out_rel (snd a) (snd b).

Definition rejects (e : exn) : Prop := e = TypeError \/ e = ValueError.

Lemma text_str a t : text a = Some t -> a = AStr t /\ encodable t = true.
Proof.
  destruct a as [s| | |]; cbn [text]; try discriminate.
  destruct (encodable s) eqn:E; [|discriminate].
  intros H. injection H as <-. auto.
Qed.

Lemma iso_text a t : text a = Some t -> iso88591 a = Ok (utf8_encode t).
Proof.
  intros H. apply text_str in H. destruct H as [-> E].
  unfold iso88591. rewrite E. reflexivity.
Qed.

Lemma iso_notext a : text a = None -> exists e, iso88591 a = Err e /\ rejects e.
Proof.
  unfold rejects.
  destruct a as [s| | |]; cbn [text iso88591]; eauto.
  destruct (encodable s); [discriminate|eauto].
Qed.

Lemma norm_text a t :
  text a = Some t -> norm_name a = Ok (utf8_encode (lower t)).
Proof.
  intros H. unfold norm_name. rewrite (iso_text _ _ H). cbn [bind].
  rewrite lower_utf8. reflexivity.
Qed.

Lemma norm_notext a :
  text a = None -> exists e, norm_name a = Err e /\ rejects e.
Proof.
  intros H. destruct (iso_notext _ H) as (e & E & R).
  exists e. unfold norm_name. rewrite E. auto.
Qed.

Lemma key_eq k t :
  lz_eqb (lower k) (utf8_encode (lower t)) = same_name k (utf8_encode t).
Proof. unfold same_name. rewrite lower_utf8. reflexivity. Qed.

Lemma filter_ext' {A} (f g : A -> bool) l :
  (forall a, f a = g a) -> filter f l = filter g l.
Proof.
  intros H. induction l as [|a l IH]; [reflexivity|].
  cbn [filter]. rewrite H, IH. reflexivity.
Qed.

Lemma find_first_filter n s :
  find_first n s =
  match filter (fun kv => lz_eqb (lower (fst kv)) n) s with
  | [] => None
  | kv :: _ => Some (snd kv)
  end.
Proof.
  induction s as [|[k v] s IH]; [reflexivity|].
  cbn [find_first filter fst]. destruct (lz_eqb (lower k) n); [reflexivity|exact IH].
Qed.

Lemma entries_filter t s :
  filter (fun kv => lz_eqb (lower (fst kv)) (utf8_encode (lower t))) s =
  entries_of (utf8_encode t) s.
Proof. unfold entries_of. apply filter_ext'. intros a. apply key_eq. Qed.

Lemma others_filter t s :
  filter (fun kv => negb (lz_eqb (lower (fst kv)) (utf8_encode (lower t)))) s =
  others (utf8_encode t) s.
Proof.
  unfold others. apply filter_ext'. intros a. rewrite key_eq. reflexivity.
Qed.

Lemma has_entries k m : has k m = negb (is_nil (entries_of k m)).
Proof.
  unfold has, entries_of. induction m as [|kv m IH]; [reflexivity|].
  cbn [existsb filter]. destruct (same_name (fst kv) k); [reflexivity|exact IH].
Qed.

Lemma getitem_text s a t :
  text a = Some t ->
  getitem s a = match entries_of (utf8_encode t) s with
                | [] => Err KeyError
                | kv :: _ => Ok (snd kv)
                end.
Proof.
  intros H. unfold getitem. rewrite (norm_text _ _ H). cbn [bind].
  rewrite find_first_filter, entries_filter.
  destruct (entries_of (utf8_encode t) s); reflexivity.
Qed.

Lemma getitem_notext s a :
  text a = None ->
  exists e, getitem s a = Err e /\ rejects e.
Proof.
  intros H. destruct (norm_notext _ H) as (e & E & R).
  exists e. unfold getitem. rewrite E. auto.
Qed.

(* ---- add_header *)

Lemma all_some_cons {A} (o : option A) r :
  all_some (o :: r) =
  match o with
  | Some a => match all_some r with Some r' => Some (a :: r') | None => None end
  | None => None
  end.
Proof. destruct o; reflexivity. Qed.

Lemma formatparam_text k t :
  formatparam (replace_char 95 [45] (utf8_encode k)) (utf8_encode t) =
  utf8_encode (param_text k (Some t)).
Proof.
  unfold formatparam, param_text.
  rewrite utf8_is_nil, (replace_char_utf8 95 [45]) by (try lia; reflexivity).
  destruct (is_nil t); cbn [negb]; [reflexivity|].
  rewrite escape_utf8, !utf8_encode_app. reflexivity.
Qed.

Lemma params_parts_some ps l :
  param_texts ps = Some l -> params_parts ps = Ok (map utf8_encode l).
Proof.
  revert l. unfold param_texts.
  induction ps as [|[k val] ps IH]; intros l H.
  - injection H as <-. reflexivity.
  - cbn [map fst snd] in H. rewrite all_some_cons in H.
    cbn [params_parts].
    destruct (text (AStr k)) as [k'|] eqn:Ek; [|discriminate].
    pose proof (text_str _ _ Ek) as [Ek' _]. injection Ek' as <-.
    rewrite (iso_text _ _ Ek). cbn [bind].
    destruct val as [sv|bv| |zv].
    + destruct (text (AStr sv)) as [tv|] eqn:Ev; [|discriminate].
      pose proof (text_str _ _ Ev) as [Ev' _]. injection Ev' as <-.
      destruct (all_some _) as [r'|] eqn:Er; [|discriminate].
      injection H as <-. rewrite (iso_text _ _ Ev). cbn [bind].
      rewrite (IH _ eq_refl). cbn [bind map]. rewrite formatparam_text.
      reflexivity.
    + cbn [text] in H. discriminate.
    + destruct (all_some _) as [r'|] eqn:Er; [|discriminate].
      injection H as <-. rewrite (IH _ eq_refl). cbn [bind map].
      unfold param_text.
      rewrite (replace_char_utf8 95 [45]) by (try lia; reflexivity).
      reflexivity.
    + cbn [text] in H. discriminate.
Qed.

Lemma params_parts_none ps :
  param_texts ps = None -> exists e, params_parts ps = Err e /\ rejects e.
Proof.
  unfold param_texts.
  induction ps as [|[k val] ps IH]; intros H; [discriminate|].
  cbn [map fst snd] in H. rewrite all_some_cons in H.
  cbn [params_parts].
  destruct (text (AStr k)) as [k'|] eqn:Ek.
  2:{ destruct (iso_notext _ Ek) as (e & E & R). exists e. rewrite E. auto. }
  rewrite (iso_text _ _ Ek). cbn [bind].
  destruct val as [sv|bv| |zv].
  - destruct (text (AStr sv)) as [tv|] eqn:Ev.
    + rewrite (iso_text _ _ Ev). cbn [bind].
      destruct (all_some _) eqn:Er; [discriminate|].
      destruct (IH eq_refl) as (e & E & R). exists e. rewrite E. auto.
    + destruct (iso_notext _ Ev) as (e & E & R). exists e. rewrite E. auto.
  - exists TypeError. unfold rejects. auto.
  - destruct (all_some _) eqn:Er; [discriminate|].
    destruct (IH eq_refl) as (e & E & R). exists e. rewrite E. auto.
  - exists TypeError. unfold rejects. auto.
Qed.

Lemma header_parts_some v ps l :
  value_texts v ps = Some l -> header_parts v ps = Ok (map utf8_encode l).
Proof.
  destruct v as [a|items]; cbn [value_texts header_parts].
  - destruct (match a with
              | ANone => Some []
              | _ => match text a with Some t => Some [t] | None => None end
              end) as [first|] eqn:Ef; [|discriminate].
    destruct (param_texts ps) as [more|] eqn:Ep; [|discriminate].
    intros H. injection H as <-. rewrite (params_parts_some _ _ Ep).
    destruct a as [sv|bv| |zv]; try (cbn [text] in Ef; discriminate).
    + destruct (text (AStr sv)) as [t|] eqn:Et; [|discriminate].
      injection Ef as <-. rewrite (iso_text _ _ Et). reflexivity.
    + injection Ef as <-. reflexivity.
  - destruct (text (AStr (render_negotiation items))) as [t|] eqn:Et;
      [|discriminate].
    intros H. injection H as <-. rewrite (iso_text _ _ Et). reflexivity.
Qed.

Lemma header_parts_none v ps :
  value_texts v ps = None -> exists e, header_parts v ps = Err e /\ rejects e.
Proof.
  destruct v as [a|items]; cbn [value_texts header_parts].
  - destruct a as [sv|bv| |zv].
    + destruct (text (AStr sv)) as [t|] eqn:Et.
      * rewrite (iso_text _ _ Et). cbn [bind].
        destruct (param_texts ps) eqn:Ep; [discriminate|]. intros _.
        destruct (params_parts_none _ Ep) as (e & E & R).
        exists e. rewrite E. auto.
      * intros _. destruct (iso_notext _ Et) as (e & E & R).
        exists e. rewrite E. auto.
    + intros _. exists TypeError. unfold rejects. auto.
    + cbn [bind]. destruct (param_texts ps) eqn:Ep; [discriminate|]. intros _.
      destruct (params_parts_none _ Ep) as (e & E & R).
      exists e. rewrite E. auto.
    + intros _. exists TypeError. unfold rejects. auto.
  - destruct (text (AStr (render_negotiation items))) as [t|] eqn:Et;
      [discriminate|]. intros _.
    destruct (iso_notext _ Et) as (e & E & R). exists e. rewrite E. auto.
Qed.

Lemma rel_rejected s e :
  rejects e -> step_rel (s, Raised e) (s, SRejected).
Proof. unfold step_rel, rejects. cbn. intros [->| ->]; auto. Qed.

Lemma add_header_refines s n v ps :
  step_rel (add_header s n v ps) (spec_add_header utf8_encode s n v ps).
Proof.
  unfold add_header, spec_add_header.
  destruct (value_texts v ps) as [l|] eqn:Ev.
  - rewrite (header_parts_some _ _ _ Ev).
    destruct l as [|p l]; cbn [map is_nil].
    + apply rel_rejected. right. reflexivity.
    + destruct (text n) as [t|] eqn:En.
      * rewrite (iso_text _ _ En). split; [|reflexivity]. cbn [fst].
        rewrite join_utf8. reflexivity.
      * destruct (iso_notext _ En) as (e & E & R). rewrite E.
        apply rel_rejected. exact R.
  - destruct (header_parts_none _ _ Ev) as (e & E & R). rewrite E.
    apply rel_rejected. exact R.
Qed.

(* ---- lookups *)

Lemma mapping_get_text s a t :
  text a = Some t ->
  mapping_get s a = Ok (match entries_of (utf8_encode t) s with
                        | [] => None
                        | kv :: _ => Some (snd kv)
                        end).
Proof.
  intros H. unfold mapping_get. rewrite (getitem_text _ _ _ H).
  destruct (entries_of (utf8_encode t) s); reflexivity.
Qed.

Lemma mapping_get_notext s a :
  text a = None ->
  exists e, mapping_get s a = Err e /\ rejects e.
Proof.
  intros H. destruct (getitem_notext s _ H) as (e & E & R).
  exists e. unfold mapping_get. rewrite E. destruct R as [-> | ->]; split;
    try reflexivity; unfold rejects; auto.
Qed.

Lemma contains_text s a t :
  text a = Some t -> contains s a = Ok (has (utf8_encode t) s).
Proof.
  intros H. unfold contains. rewrite (getitem_text _ _ _ H), has_entries.
  destruct (entries_of (utf8_encode t) s); reflexivity.
Qed.

Lemma contains_notext s a :
  text a = None ->
  exists e, contains s a = Err e /\ rejects e.
Proof.
  intros H. destruct (getitem_notext s _ H) as (e & E & R).
  exists e. unfold contains. rewrite E. destruct R as [-> | ->]; split;
    try reflexivity; unfold rejects; auto.
Qed.

Lemma delitem_text s a t :
  text a = Some t -> delitem s a = Ok (others (utf8_encode t) s).
Proof.
  intros H. unfold delitem. rewrite (norm_text _ _ H). cbn [bind].
  rewrite others_filter. reflexivity.
Qed.

Lemma delitem_notext s a :
  text a = None ->
  exists e, delitem s a = Err e /\ rejects e.
Proof.
  intros H. destruct (norm_notext _ H) as (e & E & R).
  exists e. unfold delitem. rewrite E. auto.
Qed.

Lemma get_all_text s a t :
  text a = Some t ->
  get_all s a = Ok (map snd (entries_of (utf8_encode t) s)).
Proof.
  intros H. unfold get_all. rewrite (norm_text _ _ H). cbn [bind].
  rewrite entries_filter. reflexivity.
Qed.

Lemma get_all_notext s a :
  text a = None ->
  exists e, get_all s a = Err e /\ rejects e.
Proof.
  intros H. destruct (norm_notext _ H) as (e & E & R).
  exists e. unfold get_all. rewrite E. auto.
Qed.

(* ---- storing one plain value *)

Lemma add_header_plain s n v t tv :
  text n = Some t -> text v = Some tv ->
  add_header s n (HArg v) [] =
  (s ++ [(utf8_encode t, utf8_encode tv)], ONone).
Proof.
  intros Hn Hv. pose proof (text_str _ _ Hv) as [-> _].
  unfold add_header, header_parts. rewrite (iso_text _ _ Hv).
  cbn [bind params_parts app is_nil]. rewrite (iso_text _ _ Hn). reflexivity.
Qed.

Lemma spec_add_header_notext enc s n v ps :
  text n = None -> spec_add_header enc s n v ps = (s, SRejected).
Proof.
  intros H. unfold spec_add_header. rewrite H.
  destruct (value_texts v ps) as [[|p l]|]; reflexivity.
Qed.

Lemma spec_add_header_novalue enc s n v :
  text v = None -> spec_add_header enc s n (HArg v) [] = (s, SRejected).
Proof.
  intros H. unfold spec_add_header, value_texts. rewrite H.
  destruct v; reflexivity.
Qed.

Lemma rejected_inv s r :
  step_rel r (s, SRejected) -> exists e, r = (s, Raised e) /\ rejects e.
Proof.
  destruct r as [s' o]. unfold step_rel, rejects. cbn. intros [-> [-> | ->]]; eauto.
Qed.

Lemma add_header_bad_name s n v ps :
  text n = None -> exists e, add_header s n v ps = (s, Raised e) /\ rejects e.
Proof.
  intros H. apply rejected_inv.
  rewrite <- (spec_add_header_notext utf8_encode s n v ps H).
  apply add_header_refines.
Qed.

Lemma add_header_bad_value s n v :
  text v = None ->
  exists e, add_header s n (HArg v) [] = (s, Raised e) /\ rejects e.
Proof.
  intros H. apply rejected_inv.
  rewrite <- (spec_add_header_novalue utf8_encode s n v H).
  apply add_header_refines.
Qed.

Lemma spec_add_header_plain enc s n v t tv :
  text n = Some t -> text v = Some tv ->
  spec_add_header enc s n (HArg v) [] = (s ++ [(enc t, enc tv)], SRet ONone).
Proof.
  intros Hn Hv. pose proof (text_str _ _ Hv) as [-> _].
  unfold spec_add_header, value_texts. rewrite Hv, Hn. reflexivity.
Qed.

(* ---- constructor *)

Definition encp (kv : str * str) : str * str :=
  (utf8_encode (fst kv), utf8_encode (snd kv)).

Lemma iso_pairs_some l ps :
  pair_texts l = Some ps -> iso_pairs l = Ok (map encp ps).
Proof.
  revert ps. induction l as [|[k v] l IH]; intros ps H.
  - injection H as <-. reflexivity.
  - cbn [pair_texts] in H. cbn [iso_pairs].
    destruct (text k) as [k'|] eqn:Ek; [|discriminate].
    destruct (text v) as [v'|] eqn:Ev; [|discriminate].
    destruct (pair_texts l) as [r'|] eqn:Er; [|discriminate].
    injection H as <-. rewrite (iso_text _ _ Ek), (iso_text _ _ Ev).
    cbn [bind]. rewrite (IH _ eq_refl). reflexivity.
Qed.

Lemma iso_pairs_none l :
  pair_texts l = None -> exists e, iso_pairs l = Err e /\ rejects e.
Proof.
  induction l as [|[k v] l IH]; intros H; [discriminate|].
  cbn [pair_texts] in H. cbn [iso_pairs].
  destruct (text k) as [k'|] eqn:Ek.
  2:{ destruct (iso_notext _ Ek) as (e & E & R). exists e. rewrite E. auto. }
  rewrite (iso_text _ _ Ek). cbn [bind].
  destruct (text v) as [v'|] eqn:Ev.
  2:{ destruct (iso_notext _ Ev) as (e & E & R). exists e. rewrite E. auto. }
  rewrite (iso_text _ _ Ev). cbn [bind].
  destruct (pair_texts l) as [r'|] eqn:Er; [discriminate|].
  destruct (IH eq_refl) as (e & E & R). exists e. rewrite E. auto.
Qed.

Lemma with_name_notext m n f : text n = None -> with_name m n f = (m, SRejected).
Proof. intros H. unfold with_name. rewrite H. reflexivity. Qed.
Lemma with_name_text m n f t : text n = Some t -> with_name m n f = f t.
Proof. intros H. unfold with_name. rewrite H. reflexivity. Qed.

Ltac reject_with L :=
  let e := fresh "e" in let E := fresh "E" in let R := fresh "R" in
  destruct L as (e & E & R); rewrite E; cbn [of_res];
  apply rel_rejected; exact R.

(* every operation, one step, every argument (hostile ones included): the
   code does what the reference says *)
Theorem step_refines s o :
  step_rel (step s o) (spec_step utf8_encode s o).
Proof.
  destruct o as [c|c|n v|n v ps|n v|n|n v|n|n|n|n| | | |];
    cbn [step spec_step] in *.
  - (* OInit *)
    destruct c as [|l|l|truthy]; cbn [init_strict spec_init of_res].
    + split; reflexivity.
    + destruct (pair_texts l) as [ps|] eqn:E.
      * rewrite (iso_pairs_some _ _ E). split; reflexivity.
      * reject_with (iso_pairs_none _ E).
    + destruct (pair_texts l) as [ps|] eqn:E.
      * rewrite (iso_pairs_some _ _ E). split; reflexivity.
      * reject_with (iso_pairs_none _ E).
    + destruct truthy; [apply rel_rejected; left; reflexivity|split; reflexivity].
  - (* OInitRaw *)
    destruct c as [|l|l|truthy]; cbn [init_raw spec_init_raw of_res];
      try (split; reflexivity).
    destruct truthy; [apply rel_rejected; left; reflexivity|split; reflexivity].
  - (* OAdd *)
    unfold add. destruct (text n) as [t|] eqn:En.
    + rewrite (with_name_text _ _ _ _ En), (contains_text _ _ _ En).
      pose proof (text_str _ _ En) as [Hn _]. subst n.
      cbn [not_set_cookie lower_arg bind]. unfold same_name.
      change (lower s_set_cookie) with s_set_cookie.
      destruct (has (utf8_encode t) s); rewrite ?andb_false_r, ?andb_true_r.
      * destruct (lz_eqb (lower t) s_set_cookie); cbn [negb].
        -- apply add_header_refines.
        -- split; reflexivity.
      * apply add_header_refines.
    + rewrite (with_name_notext _ _ _ En).
      destruct (contains_notext s _ En) as (e & E & R). rewrite E.
      apply rel_rejected. exact R.
  - (* OAddHeader *) apply add_header_refines.
  - (* OSet *)
    unfold setitem. destruct (text n) as [t|] eqn:En.
    + rewrite (with_name_text _ _ _ _ En), (delitem_text _ _ _ En).
      destruct (text v) as [tv|] eqn:Ev.
      * rewrite (add_header_plain _ _ _ _ _ En Ev). split; reflexivity.
      * destruct (add_header_bad_value (others (utf8_encode t) s) n v Ev)
          as (e & E & R). rewrite E. apply rel_rejected. exact R.
    + rewrite (with_name_notext _ _ _ En).
      reject_with (delitem_notext s _ En).
  - (* ODel *)
    destruct (text n) as [t|] eqn:En.
    + rewrite (with_name_text _ _ _ _ En), (delitem_text _ _ _ En).
      split; reflexivity.
    + rewrite (with_name_notext _ _ _ En).
      reject_with (delitem_notext s _ En).
  - (* OSetdefault *)
    unfold setdefault. destruct (text n) as [t|] eqn:En.
    + rewrite (with_name_text _ _ _ _ En), (mapping_get_text _ _ _ En).
      destruct (entries_of (utf8_encode t) s) as [|kv r]; [|split; reflexivity].
      destruct (text v) as [tv|] eqn:Ev.
      * rewrite (add_header_plain _ _ _ _ _ En Ev).
        pose proof (text_str _ _ Ev) as [-> _]. split; reflexivity.
      * destruct (add_header_bad_value s n v Ev) as (e & E & R). rewrite E.
        apply rel_rejected. exact R.
    + rewrite (with_name_notext _ _ _ En).
      reject_with (mapping_get_notext s _ En).
  - (* OGet *)
    destruct (text n) as [t|] eqn:En.
    + rewrite (with_name_text _ _ _ _ En), (mapping_get_text _ _ _ En).
      cbn [of_res]. destruct (entries_of (utf8_encode t) s); split; reflexivity.
    + rewrite (with_name_notext _ _ _ En).
      reject_with (mapping_get_notext s _ En).
  - (* OGetAll *)
    destruct (text n) as [t|] eqn:En.
    + rewrite (with_name_text _ _ _ _ En), (get_all_text _ _ _ En).
      split; reflexivity.
    + rewrite (with_name_notext _ _ _ En).
      reject_with (get_all_notext s _ En).
  - (* OContains *)
    destruct (text n) as [t|] eqn:En.
    + rewrite (with_name_text _ _ _ _ En), (contains_text _ _ _ En).
      split; reflexivity.
    + rewrite (with_name_notext _ _ _ En).
      reject_with (contains_notext s _ En).
  - (* OGetItem *)
    destruct (text n) as [t|] eqn:En.
    + rewrite (with_name_text _ _ _ _ En), (getitem_text _ _ _ En).
      destruct (entries_of (utf8_encode t) s); split; reflexivity.
    + rewrite (with_name_notext _ _ _ En).
      reject_with (getitem_notext s _ En).
  - split; reflexivity.
  - split; reflexivity.
  - split; reflexivity.
  - split; reflexivity.
Qed.

(* every history, hostile arguments included: states and outcomes after
   every step *)
Theorem run_refines ops : forall s,
  Forall2 step_rel (run s ops) (srun utf8_encode s ops).
Proof.
  induction ops as [|o ops IH]; intros s; [constructor|].
  cbn [run srun]. pose proof (step_refines s o) as R.
  constructor; [exact R|]. destruct R as [Rs _]. rewrite Rs. apply IH.
Qed.

(* ======================================================= rejection *)

Ltac break_match :=
  match goal with
  | |- context [match ?x with _ => _ end] => destruct x eqn:?
  end.

Lemma add_header_raise s n v ps s' e :
  add_header s n v ps = (s', Raised e) -> s' = s.
Proof.
  unfold add_header. repeat break_match; intros H; injection H; intros;
    subst; try reflexivity; discriminate.
Qed.

(* an operation that raises (whatever it raises) leaves the collection
   unchanged *)
Theorem raise_never_stores s o e :
  snd (step s o) = Raised e -> fst (step s o) = s.
Proof.
  destruct o as [c|c|n v|n v ps|n v|n|n v|n|n|n|n| | | |]; cbn [step];
    unfold add, setitem, setdefault, of_res.
  5:{ (* OSet *)
      destruct (delitem s n) as [s1|e1] eqn:D; [|reflexivity].
      destruct (add_header s1 n (HArg v) []) as [s2 o2] eqn:A.
      destruct o2; cbn [fst snd]; intros H; try discriminate. reflexivity. }
  all: repeat break_match; cbn [fst snd]; intros H; subst;
    try first [discriminate | reflexivity
          | destruct v; discriminate
          | eapply add_header_raise; eassumption ].
  all: match goal with
       | H : snd ?x = Raised _ |- _ =>
           destruct x as [s2 o2] eqn:A; cbn [fst snd] in *; subst o2;
           eapply add_header_raise; exact A
       end.
Qed.

(* whatever the reference rejects (a non-str or unencodable name or value,
   an empty header) raises TypeError or ValueError *)
Theorem invalid_raises s o :
  snd (spec_step utf8_encode s o) = SRejected ->
  snd (step s o) = Raised TypeError \/ snd (step s o) = Raised ValueError.
Proof.
  intros H. destruct (step_refines s o) as [_ R]. rewrite H in R. exact R.
Qed.

(* ================================================== stored is latin-1 *)

Lemma forallb_replace_char (P : Z -> bool) c r s :
  forallb P r = true -> forallb P s = true ->
  forallb P (replace_char c r s) = true.
Proof.
  intros Hr. unfold replace_char. induction s as [|x s IH]; intros H; [reflexivity|].
  cbn [forallb] in H. apply andb_true_iff in H. destruct H as [Hx Hs].
  cbn [flat_map]. rewrite forallb_app, (IH Hs).
  destruct (x =? c); [rewrite Hr; reflexivity|]. cbn [forallb]. rewrite Hx. reflexivity.
Qed.

Lemma forallb_join (P : Z -> bool) sep parts :
  forallb P sep = true -> forallb (forallb P) parts = true ->
  forallb P (join sep parts) = true.
Proof.
  intros Hs. induction parts as [|p rest IH]; intros H; [reflexivity|].
  cbn [forallb] in H. apply andb_true_iff in H. destruct H as [Hp Hr].
  destruct rest as [|q rest]; [exact Hp|].
  rewrite join_cons, !forallb_app, Hp, Hs. cbn [andb]. exact (IH Hr).
Qed.

Lemma iso_latin1 a w :
  arg_cps a = true -> iso88591 a = Ok w -> latin1 w = true.
Proof.
  destruct a as [s| | |]; cbn [arg_cps iso88591]; try discriminate.
  intros H. destruct (encodable s); [|discriminate].
  intros E. injection E as <-. apply utf8_encode_latin1. exact H.
Qed.

Lemma formatparam_latin1 p v :
  latin1 p = true -> latin1 v = true -> latin1 (formatparam p v) = true.
Proof.
  unfold latin1, formatparam, escape. intros Hp Hv.
  destruct (negb (is_nil v)); [|exact Hp].
  rewrite !forallb_app, Hp.
  rewrite forallb_replace_char;
    [reflexivity|reflexivity|apply forallb_replace_char; [reflexivity|exact Hv]].
Qed.

Definition params_wf (ps : list (str * arg)) : bool :=
  forallb (fun kv => forallb is_cp (fst kv) && arg_cps (snd kv)) ps.

Lemma params_parts_latin1 ps l :
  params_wf ps = true -> params_parts ps = Ok l -> forallb latin1 l = true.
Proof.
  unfold params_wf. revert l.
  induction ps as [|[k val] ps IH]; intros l W H.
  - injection H as <-. reflexivity.
  - cbn [forallb fst snd] in W. apply andb_true_iff in W. destruct W as [Wk Wps].
    apply andb_true_iff in Wk. destruct Wk as [Wk Wv].
    cbn [params_parts] in H.
    destruct (iso88591 (AStr k)) as [k'|] eqn:Ek; [|discriminate].
    pose proof (iso_latin1 (AStr k) _ Wk Ek) as Lk. cbn [bind] in H.
    assert (Lr : latin1 (replace_char 95 [45] k') = true)
      by (apply forallb_replace_char; [reflexivity|exact Lk]).
    destruct (params_parts ps) as [more|] eqn:Em.
    2:{ destruct val; try discriminate;
        match type of H with
        | context [iso88591 ?a] => destruct (iso88591 a); discriminate
        end. }
    pose proof (IH _ Wps eq_refl) as Lm.
    destruct val as [sv|bv| |zv]; try discriminate.
    + destruct (iso88591 (AStr sv)) as [v'|] eqn:Ev; [|discriminate].
      cbn [bind] in H. injection H as <-. cbn [forallb].
      rewrite formatparam_latin1, Lm;
        [reflexivity|exact Lr|exact (iso_latin1 _ _ Wv Ev)].
    + cbn [bind] in H. injection H as <-. cbn [forallb]. rewrite Lr, Lm.
      reflexivity.
Qed.

Lemma nego_cps items :
  forallb (forallb (forallb is_cp)) items = true ->
  forallb is_cp (render_negotiation items) = true.
Proof.
  intros H. unfold render_negotiation.
  apply forallb_join; [reflexivity|].
  induction items as [|it items IH]; [reflexivity|].
  cbn [forallb] in H. apply andb_true_iff in H. destruct H as [Hi Hs].
  cbn [map forallb]. rewrite (IH Hs), forallb_join; [reflexivity|reflexivity|exact Hi].
Qed.

Lemma header_parts_latin1 v ps l :
  hval_cps v = true -> params_wf ps = true ->
  header_parts v ps = Ok l -> forallb latin1 l = true.
Proof.
  intros Wv Wp. destruct v as [a|items]; cbn [header_parts hval_cps] in *.
  - destruct (params_parts ps) as [more|] eqn:Em.
    2:{ destruct a; try discriminate;
        try (match goal with
             | |- context [iso88591 ?a] => destruct (iso88591 a)
             end); discriminate. }
    pose proof (params_parts_latin1 _ _ Wp Em) as Lm.
    destruct a as [sv|bv| |zv]; try discriminate.
    + destruct (iso88591 (AStr sv)) as [v'|] eqn:Ev; [|discriminate].
      cbn [bind app]. intros H. injection H as <-. cbn [forallb].
      rewrite (iso_latin1 _ _ Wv Ev), Lm. reflexivity.
    + cbn [bind app]. intros H. injection H as <-. exact Lm.
  - destruct (iso88591 (AStr (render_negotiation items))) as [w|] eqn:E;
      [|discriminate].
    cbn [bind]. intros H. injection H as <-. cbn [forallb].
    rewrite (iso_latin1 (AStr (render_negotiation items)) w); auto.
    cbn [arg_cps]. apply nego_cps. exact Wv.
Qed.

Lemma latin1_state_app a b :
  latin1_state (a ++ b) = latin1_state a && latin1_state b.
Proof. apply forallb_app. Qed.

Lemma latin1_state_filter f s :
  latin1_state s = true -> latin1_state (filter f s) = true.
Proof.
  unfold latin1_state. induction s as [|kv s IH]; intros H; [reflexivity|].
  cbn [forallb] in H. apply andb_true_iff in H. destruct H as [Hk Hs].
  cbn [filter]. destruct (f kv); [cbn [forallb]; rewrite Hk|]; auto.
Qed.

Lemma add_header_latin1 s n v ps :
  latin1_state s = true -> arg_cps n = true -> hval_cps v = true ->
  params_wf ps = true -> latin1_state (fst (add_header s n v ps)) = true.
Proof.
  intros Ls Wn Wv Wp. unfold add_header.
  destruct (header_parts v ps) as [parts|] eqn:Eh; [|exact Ls].
  destruct (is_nil parts); [exact Ls|].
  destruct (iso88591 n) as [n'|] eqn:En; [|exact Ls].
  cbn [fst]. rewrite latin1_state_app, Ls. unfold latin1_state.
  cbn [forallb fst snd andb]. rewrite (iso_latin1 _ _ Wn En).
  unfold latin1 at 1. rewrite forallb_join;
    [reflexivity|reflexivity|exact (header_parts_latin1 _ _ _ Wv Wp Eh)].
Qed.

Lemma iso_pairs_latin1 l st :
  forallb (fun kv => arg_cps (fst kv) && arg_cps (snd kv)) l = true ->
  iso_pairs l = Ok st -> latin1_state st = true.
Proof.
  revert st. induction l as [|[k v] l IH]; intros st W H.
  - injection H as <-. reflexivity.
  - cbn [forallb fst snd] in W. apply andb_true_iff in W. destruct W as [Wk Wl].
    apply andb_true_iff in Wk. destruct Wk as [Wk Wv].
    cbn [iso_pairs] in H.
    destruct (iso88591 k) as [k'|] eqn:Ek; [|discriminate].
    destruct (iso88591 v) as [v'|] eqn:Ev; [|discriminate].
    destruct (iso_pairs l) as [more|] eqn:Em; [|discriminate].
    cbn [bind] in H. injection H as <-. unfold latin1_state. cbn [forallb fst snd].
    rewrite (iso_latin1 _ _ Wk Ek), (iso_latin1 _ _ Wv Ev).
    exact (IH _ Wl eq_refl).
Qed.

Lemma delitem_latin1 s n s1 :
  latin1_state s = true -> delitem s n = Ok s1 -> latin1_state s1 = true.
Proof.
  unfold delitem. destruct (norm_name n); [|discriminate]. cbn [bind].
  intros Ls H. injection H as <-. apply latin1_state_filter. exact Ls.
Qed.

(* one step keeps "every stored name and value is latin-1" *)
Theorem step_latin1 s o :
  op_wf o = true -> latin1_state s = true ->
  latin1_state (fst (step s o)) = true.
Proof.
  intros W Ls.
  destruct o as [c|c|n v|n v ps|n v|n|n v|n|n|n|n| | | |]; cbn [step op_wf] in *;
    try exact Ls.
  - destruct c as [|l|l|truthy]; cbn [init_strict of_res ctor_cps] in *;
      try reflexivity.
    + destruct (iso_pairs l) eqn:E; [exact (iso_pairs_latin1 _ _ W E)|exact Ls].
    + destruct (iso_pairs l) eqn:E; [exact (iso_pairs_latin1 _ _ W E)|exact Ls].
    + destruct truthy; [exact Ls|reflexivity].
  - destruct c as [|l|l|truthy]; cbn [init_raw of_res]; try reflexivity;
      try exact W.
    destruct truthy; [exact Ls|reflexivity].
  - apply andb_true_iff in W. destruct W as [Wn Wv]. unfold add.
    repeat break_match; try exact Ls;
      apply add_header_latin1; auto.
  - apply andb_true_iff in W. destruct W as [W Wp].
    apply andb_true_iff in W. destruct W as [Wn Wv].
    apply add_header_latin1; auto.
  - apply andb_true_iff in W. destruct W as [Wn Wv]. unfold setitem.
    destruct (delitem s n) as [s1|] eqn:D; [|exact Ls].
    pose proof (add_header_latin1 s1 n (HArg v) [] (delitem_latin1 _ _ _ Ls D)
                  Wn Wv eq_refl) as La.
    destruct (add_header s1 n (HArg v) []) as [s2 o2]. cbn [fst] in La.
    destruct o2; first [exact La | exact Ls].
  - destruct (delitem s n) as [s1|] eqn:D; [|exact Ls].
    exact (delitem_latin1 _ _ _ Ls D).
  - apply andb_true_iff in W. destruct W as [Wn Wv]. unfold setdefault.
    destruct (mapping_get s n) as [[v0|]|]; try exact Ls.
    pose proof (add_header_latin1 s n (HArg v) [] Ls Wn Wv eq_refl) as La.
    destruct (add_header s n (HArg v) []) as [s1 o1]. cbn [fst] in La.
    destruct o1; exact La.
  - destruct (mapping_get s n) as [[v0|]|]; exact Ls.
  - destruct (get_all s n); exact Ls.
  - destruct (contains s n); exact Ls.
  - destruct (getitem s n); exact Ls.
Qed.

Theorem run_latin1 ops : forall s,
  forallb op_wf ops = true -> latin1_state s = true ->
  Forall (fun r => latin1_state (fst r) = true) (run s ops).
Proof.
  induction ops as [|o ops IH]; intros s W Ls; [constructor|].
  cbn [forallb] in W. apply andb_true_iff in W. destruct W as [Wo Ws].
  cbn [run]. pose proof (step_latin1 s o Wo Ls) as L1.
  constructor; [exact L1|]. apply IH; assumption.
Qed.

(* ===================================================== named corollaries *)

Lemma text_encodable n : encodable n = true -> text (AStr n) = Some n.
Proof. intros H. cbn [text]. rewrite H. reflexivity. Qed.

Lemma norm_name_case n1 n2 :
  lower n1 = lower n2 -> norm_name (AStr n1) = norm_name (AStr n2).
Proof.
  intros H. unfold norm_name, iso88591, bind.
  rewrite <- (encodable_lower n1), <- (encodable_lower n2), H.
  destruct (encodable (lower n2)); [|reflexivity].
  rewrite !lower_utf8, H. reflexivity.
Qed.

(* lookups (and deletion) do not see the case of the name they are given *)
Theorem lookup_ignores_case s n1 n2 :
  lower n1 = lower n2 ->
  step s (OGet (AStr n1)) = step s (OGet (AStr n2)) /\
  step s (OGetAll (AStr n1)) = step s (OGetAll (AStr n2)) /\
  step s (OContains (AStr n1)) = step s (OContains (AStr n2)) /\
  step s (OGetItem (AStr n1)) = step s (OGetItem (AStr n2)) /\
  step s (ODel (AStr n1)) = step s (ODel (AStr n2)).
Proof.
  intros H. cbn [step]. unfold mapping_get, contains, getitem, get_all, delitem.
  rewrite (norm_name_case _ _ H). repeat split; reflexivity.
Qed.

Lemma same_name_case k n n' :
  lower n' = lower n ->
  same_name k (utf8_encode n') = same_name k (utf8_encode n).
Proof. intros H. unfold same_name. rewrite !lower_utf8, H. reflexivity. Qed.

Lemma same_name_refl k : same_name k k = true.
Proof. unfold same_name. apply lz_eqb_refl. Qed.

Lemma filter_filter_neg {A} (p : A -> bool) l :
  filter p (filter (fun x => negb (p x)) l) = [].
Proof.
  induction l as [|a l IH]; [reflexivity|]. cbn [filter].
  destruct (p a) eqn:E; cbn [negb filter]; [exact IH|]. rewrite E. exact IH.
Qed.

Lemma encodable_case n n' :
  lower n' = lower n -> encodable n = true -> encodable n' = true.
Proof.
  intros H E. rewrite <- encodable_lower, H, encodable_lower. exact E.
Qed.

(* h[n] = v : every entry of that name (any casing) goes, one new entry is
   appended, everything else stays in place; afterwards every casing of the
   name sees exactly the new value *)
Theorem set_replaces_all s n v :
  encodable n = true -> encodable v = true ->
  let s' := filter (fun kv => negb (same_name (fst kv) (utf8_encode n))) s
            ++ [(utf8_encode n, utf8_encode v)] in
  step s (OSet (AStr n) (AStr v)) = (s', ONone) /\
  forall n', lower n' = lower n ->
    step s' (OGetAll (AStr n')) = (s', OStrs [utf8_encode v]).
Proof.
  intros En Ev. cbn zeta. split.
  - cbn [step]. unfold setitem.
    rewrite (delitem_text _ _ _ (text_encodable _ En)).
    rewrite (add_header_plain _ _ _ _ _ (text_encodable _ En)
               (text_encodable _ Ev)). reflexivity.
  - intros n' Hn. cbn [step].
    rewrite (get_all_text _ _ _ (text_encodable _ (encodable_case _ _ Hn En))).
    cbn [of_res]. f_equal. f_equal. unfold entries_of.
    rewrite filter_app.
    rewrite (filter_ext' _ (fun kv => same_name (fst kv) (utf8_encode n)))
      by (intros a; apply same_name_case; exact Hn).
    rewrite filter_filter_neg. cbn [app filter fst].
    rewrite (same_name_case _ _ _ Hn), same_name_refl. reflexivity.
Qed.

(* del h[n] : all and only the entries of that name go *)
Theorem del_removes_all_only s n :
  encodable n = true ->
  step s (ODel (AStr n)) =
  (filter (fun kv => negb (same_name (fst kv) (utf8_encode n))) s, ONone).
Proof.
  intros En. cbn [step].
  rewrite (delitem_text _ _ _ (text_encodable _ En)). reflexivity.
Qed.

(* add : refused iff the name is present (any casing) and is not Set-Cookie
   (any casing); otherwise appended *)
Theorem add_refuses_duplicate_except_set_cookie s n v :
  encodable n = true -> encodable v = true ->
  step s (OAdd (AStr n) (AStr v)) =
  if negb (lz_eqb (lower n) s_set_cookie) &&
     existsb (fun kv => same_name (fst kv) (utf8_encode n)) s
  then (s, Raised KeyError)
  else (s ++ [(utf8_encode n, utf8_encode v)], ONone).
Proof.
  intros En Ev. cbn [step]. unfold add.
  cbn [not_set_cookie lower_arg bind].
  rewrite (contains_text _ _ _ (text_encodable _ En)).
  rewrite (add_header_plain _ _ _ _ _ (text_encodable _ En)
             (text_encodable _ Ev)).
  fold (has (utf8_encode n) s).
  destruct (has (utf8_encode n) s); rewrite ?andb_false_r, ?andb_true_r;
    [|reflexivity].
  destruct (lz_eqb (lower n) s_set_cookie); reflexivity.
Qed.

(* iteration order is insertion order: apart from re-construction, an
   operation only removes entries and/or appends one at the end; the entries
   that stay keep their order; items() is the state itself *)
Definition is_init (o : op) : bool :=
  match o with OInit _ | OInitRaw _ => true | _ => false end.

Lemma filter_true {A} (l : list A) : filter (fun _ => true) l = l.
Proof. induction l as [|a l IH]; [reflexivity|]. cbn [filter]. rewrite IH. reflexivity. Qed.

Lemma add_header_shape s n v ps :
  fst (add_header s n v ps) = s \/ exists x, fst (add_header s n v ps) = s ++ [x].
Proof.
  unfold add_header. repeat break_match; cbn [fst]; eauto.
Qed.

Theorem iteration_is_insertion_order s o :
  is_init o = false ->
  step s OItems = (s, OPairs s) /\
  exists p new, fst (step s o) = filter p s ++ new /\ (length new <= 1)%nat.
Proof.
  intros I. split; [reflexivity|].
  assert (Same : exists p new, s = filter p s ++ new /\ (length new <= 1)%nat).
  { exists (fun _ => true), []. rewrite filter_true, app_nil_r. auto. }
  assert (AH : forall n v ps, exists p new,
             fst (add_header s n v ps) = filter p s ++ new /\ (length new <= 1)%nat).
  { intros n v ps. destruct (add_header_shape s n v ps) as [E|(x & E)]; rewrite E.
    - exact Same.
    - exists (fun _ => true), [x]. rewrite filter_true. auto. }
  destruct o as [c|c|n v|n v ps|n v|n|n v|n|n|n|n| | | |]; try discriminate;
    cbn [step]; try exact Same.
  - unfold add. repeat break_match; cbn [fst]; first [exact Same|apply AH].
  - apply AH.
  - unfold setitem, delitem. destruct (norm_name n) as [k|]; [|exact Same].
    cbn [bind].
    destruct (add_header_shape
                (filter (fun kv => negb (lz_eqb (lower (fst kv)) k)) s)
                n (HArg v) []) as [E|(x & E)];
      destruct (add_header _ n (HArg v) []) as [s2 o2]; cbn [fst] in E;
      subst s2; destruct o2; cbn [fst]; try exact Same.
    all: first [ solve [eexists _, []; rewrite app_nil_r; split;
                          [reflexivity|cbn; auto] ]
               | solve [eexists _, [_]; split; [reflexivity|cbn; auto] ] ].
  - unfold delitem. destruct (norm_name n) as [k|]; [|exact Same].
    cbn [bind of_res fst]. eexists _, []. rewrite app_nil_r. auto.
  - unfold setdefault. destruct (mapping_get s n) as [[v0|]|]; try exact Same.
    destruct (AH n (HArg v) []) as (p & new & E & L).
    destruct (add_header s n (HArg v) []) as [s1 o1]. cbn [fst] in E.
    exists p, new. destruct o1; auto.
  - destruct (mapping_get s n) as [[v0|]|]; exact Same.
  - destruct (get_all s n); exact Same.
  - destruct (contains s n); exact Same.
  - destruct (getitem s n); exact Same.
Qed.

(* ======================== the multimap over the supplied texts themselves *)

(* UTF-8 is injective (on all of Z, by first-byte ranges and arithmetic) *)
Lemma cons_eq {A} (x y : A) l l' : x :: l = y :: l' -> x = y /\ l = l'.
Proof. intros H. inversion H. auto. Qed.

Lemma enc1_inj_app a b r1 r2 :
  enc1 a ++ r1 = enc1 b ++ r2 -> a = b /\ r1 = r2.
Proof.
  unfold enc1.
  destruct (a <? 128) eqn:A1; [|destruct (a <? 2048) eqn:A2;
    [|destruct (a <? 65536) eqn:A3]];
  (destruct (b <? 128) eqn:B1; [|destruct (b <? 2048) eqn:B2;
    [|destruct (b <? 65536) eqn:B3]]);
  cbn [app]; intros H;
  repeat match goal with
         | H : _ :: _ = _ :: _ |- _ =>
             apply cons_eq in H; let H1 := fresh in destruct H as [H1 H]
         end;
  (split; [lia | first [assumption | exfalso; lia]]).
Qed.

Lemma utf8_encode_inj a : forall b, utf8_encode a = utf8_encode b -> a = b.
Proof.
  induction a as [|x a IH]; intros [|y b] H.
  - reflexivity.
  - rewrite utf8_encode_cons in H. cbn in H.
    pose proof (enc1_not_nil y). destruct (enc1 y); [contradiction|discriminate].
  - rewrite utf8_encode_cons in H. cbn in H.
    pose proof (enc1_not_nil x). destruct (enc1 x); [contradiction|discriminate].
  - rewrite !utf8_encode_cons in H. apply enc1_inj_app in H.
    destruct H as [-> H]. rewrite (IH _ H). reflexivity.
Qed.

Lemma lz_eqb_utf8 a b : lz_eqb (utf8_encode a) (utf8_encode b) = lz_eqb a b.
Proof.
  destruct (lz_eqb a b) eqn:E.
  - apply lz_eqb_eq in E. subst. apply lz_eqb_refl.
  - apply lz_eqb_neq. apply lz_eqb_neq in E. intros H. apply E.
    apply utf8_encode_inj. exact H.
Qed.

Lemma same_name_utf8 a b :
  same_name (utf8_encode a) (utf8_encode b) = same_name a b.
Proof. unfold same_name. rewrite !lower_utf8. apply lz_eqb_utf8. Qed.

(* The reference instantiated with [enc := tid] stores the supplied texts
   themselves.  On every history without strict=False construction the
   wire-level reference (hence, by [run_refines], the code) holds exactly
   the UTF-8/latin-1 image of the text-level multimap, entry by entry and
   in the same order, and raises in the same cases. *)
Definition tid (x : str) : str := x.

Definition skind (o : soutcome) : nat :=
  match o with SRet _ => 0 | SKeyError => 1 | SRejected => 2 end%nat.

Definition sim (a b : state * soutcome) : Prop :=
  fst a = map encp (fst b) /\ skind (snd a) = skind (snd b).

Lemma filter_map_comm {A B} (f : B -> bool) (g : A -> bool) (h : A -> B) l :
  (forall a, f (h a) = g a) -> filter f (map h l) = map h (filter g l).
Proof.
  intros H. induction l as [|a l IH]; [reflexivity|].
  cbn [map filter]. rewrite H. destruct (g a); cbn [map]; rewrite IH; reflexivity.
Qed.

Lemma entries_of_map t m :
  entries_of (utf8_encode t) (map encp m) = map encp (entries_of t m).
Proof.
  unfold entries_of. apply filter_map_comm. intros [k v]. cbn [encp fst].
  apply same_name_utf8.
Qed.

Lemma others_map t m :
  others (utf8_encode t) (map encp m) = map encp (others t m).
Proof.
  unfold others. apply filter_map_comm. intros [k v]. cbn [encp fst].
  rewrite same_name_utf8. reflexivity.
Qed.

Lemma has_map t m : has (utf8_encode t) (map encp m) = has t m.
Proof.
  unfold has. induction m as [|[k v] m IH]; [reflexivity|].
  cbn [map existsb encp fst]. rewrite same_name_utf8, IH. reflexivity.
Qed.

Lemma spec_add_header_sim mt n v ps :
  sim (spec_add_header utf8_encode (map encp mt) n v ps)
      (spec_add_header tid mt n v ps).
Proof.
  unfold spec_add_header, sim.
  destruct (value_texts v ps) as [[|p l]|]; destruct (text n);
    cbn [fst snd]; split; try reflexivity.
  rewrite map_app. reflexivity.
Qed.

Theorem spec_sim mt o :
  strict_op o = true ->
  sim (spec_step utf8_encode (map encp mt) o) (spec_step tid mt o).
Proof.
  intros S. unfold sim.
  destruct o as [c|c|n v|n v ps|n v|n|n v|n|n|n|n| | | |]; try discriminate;
    cbn [spec_step]; unfold with_name;
    try (destruct (text n) as [t|]; cbn [fst snd];
         [|split; reflexivity]);
    try (split; reflexivity).
  - (* OInit *)
    destruct c as [|l|l|truthy]; cbn [spec_init]; try (split; reflexivity).
    + destruct (pair_texts l) as [ps|]; cbn [fst snd]; split; try reflexivity.
      rewrite map_map. apply map_ext. intros [k v]. reflexivity.
    + destruct (pair_texts l) as [ps|]; cbn [fst snd]; split; try reflexivity.
      rewrite map_map. apply map_ext. intros [k v]. reflexivity.
    + destruct truthy; split; reflexivity.
  - (* OAdd *)
    change (has (tid t) mt) with (has t mt). rewrite has_map.
    destruct (negb (same_name t s_set_cookie) && has t mt);
      [split; reflexivity|apply spec_add_header_sim].
  - apply spec_add_header_sim.
  - (* OSet *)
    destruct (text v) as [tv|]; cbn [fst snd]; split; try reflexivity.
    change (tid t) with t. change (tid tv) with tv.
    rewrite others_map, map_app. reflexivity.
  - (* ODel *) split; [|reflexivity]. change (tid t) with t. apply others_map.
  - (* OSetdefault *)
    change (entries_of (tid t) mt) with (entries_of t mt).
    rewrite entries_of_map.
    destruct (entries_of t mt) as [|kv r]; cbn [map]; [|split; reflexivity].
    destruct (text v) as [tv|]; cbn [fst snd]; split; try reflexivity.
    rewrite map_app. reflexivity.
  - (* OGetItem *)
    change (entries_of (tid t) mt) with (entries_of t mt).
    rewrite entries_of_map.
    destruct (entries_of t mt); split; reflexivity.
Qed.

Theorem srun_sim ops : forall mt,
  forallb strict_op ops = true ->
  Forall2 sim (srun utf8_encode (map encp mt) ops) (srun tid mt ops).
Proof.
  induction ops as [|o ops IH]; intros mt S; [constructor|].
  cbn [forallb] in S. apply andb_true_iff in S. destruct S as [So Ss].
  cbn [srun]. pose proof (spec_sim mt o So) as R.
  constructor; [exact R|]. destruct R as [Rs _]. rewrite Rs.
  apply IH. exact Ss.
Qed.

Definition okind (o : outcome) : nat :=
  match o with
  | Raised KeyError => 1
  | Raised TypeError | Raised ValueError => 2
  | Raised AttributeError => 3
  | _ => 0
  end%nat.

Lemma spec_ret_kind enc m o x :
  snd (spec_step enc m o) = SRet x -> okind x = 0%nat.
Proof.
  destruct o as [c|c|n v|n v ps|n v|n|n v|n|n|n|n| | | |]; cbn [spec_step];
    unfold with_name, spec_add_header, spec_init, spec_init_raw;
    repeat break_match; cbn [snd]; intros H; inversion H; reflexivity.
Qed.

(* the code against the text-level multimap: after every step of every
   history the stored pairs are the UTF-8 images (read as latin-1) of the
   text-level entries, and the code raises KeyError / TypeError|ValueError
   exactly where the text-level multimap refuses / rejects *)
Theorem run_stores_utf8_of_texts ops : forall mt,
  forallb strict_op ops = true ->
  Forall2 (fun a b => fst a = map encp (fst b) /\
                      okind (snd a) = skind (snd b))
          (run (map encp mt) ops) (srun tid mt ops).
Proof.
  induction ops as [|o ops IH]; intros mt S; [constructor|].
  cbn [forallb] in S. apply andb_true_iff in S.
  destruct S as [So Ss]. cbn [run srun].
  destruct (step_refines (map encp mt) o) as [R1 R2].
  destruct (spec_sim mt o So) as [Q1 Q2].
  destruct (step (map encp mt) o) as [s1 o1].
  destruct (spec_step tid mt o) as [m2 k2].
  destruct (spec_step utf8_encode (map encp mt) o) as [m1 k1] eqn:K.
  cbn [fst snd] in *. subst s1 m1.
  constructor; [|apply IH; assumption].
  split; [reflexivity|]. cbn [snd]. rewrite <- Q2.
  destruct k1 as [x| |]; cbn [out_rel skind] in *.
  - subst o1. apply (spec_ret_kind utf8_encode (map encp mt) o). rewrite K.
    reflexivity.
  - subst o1. reflexivity.
  - destruct R2 as [-> | ->]; reflexivity.
Qed.

(* ============================================================ examples *)

(* "X-Tok", "x-tok", "Set-Cookie", "set-cookie"; values "é" (Latin-1),
   "€" (BMP), U+1F600 (astral) *)
Definition ex_XTok : str := [88; 45; 84; 111; 107].
Definition ex_xtok : str := [120; 45; 116; 111; 107].
Definition ex_SetCookie : str := [83; 101; 116; 45; 67; 111; 111; 107; 105; 101].
Definition ex_history : list op :=
  [ OAdd (AStr ex_XTok) (AStr [233]);
    OAdd (AStr ex_xtok) (AStr [98]);
    OAdd (AStr ex_SetCookie) (AStr [8364]);
    OAdd (AStr s_set_cookie) (AStr [128512]);
    OSet (AStr ex_xtok) (AStr [99]);
    OAddHeader (AStr ex_XTok) (HArg (AStr [97]))
               [([102; 95; 110], AStr [34; 233])];
    OGetAll (AStr ex_XTok);
    OGet ANone; ODel (AStr [55296]) ].

(* non-vacuity: a history meeting the hypotheses of the history theorems,
   with a refused duplicate, repeated Set-Cookie, replacement, parameters *)
Example history_example :
  forallb strict_op ex_history = true /\
  forallb op_wf ex_history = true /\
  map snd (run [] ex_history) =
  [ ONone; Raised KeyError; ONone; ONone; ONone; ONone;
    OStrs [[99]; [97; 59; 32; 102; 45; 110; 61; 34; 92; 34; 195; 169; 34]];
    Raised TypeError; Raised ValueError ] /\
  fst (last (run [] ex_history) ([], ONone)) =
  [ (ex_SetCookie, [226; 130; 172]);
    (s_set_cookie, [240; 159; 152; 128]);
    (ex_xtok, [99]);
    (ex_XTok, [97; 59; 32; 102; 45; 110; 61; 34; 92; 34; 195; 169; 34]) ].
Proof. vm_compute. repeat split; reflexivity. Qed.

Example roundtrip_example :
  forallb is_scalar [65; 233; 8364; 65535; 128512; 1114111] = true /\
  utf8_encode [233; 8364; 128512] = [195; 169; 226; 130; 172; 240; 159; 152; 128] /\
  utf8 [195; 169; 226; 130; 172; 240; 159; 152; 128] = [233; 8364; 128512] /\
  utf8 [237; 160; 128] = [237; 160; 128] /\        (* encoded surrogate *)
  utf8 [192; 128] = [192; 128] /\                   (* overlong *)
  iso88591 (AStr [55296]) = Err ValueError /\ iso88591 (AInt 5) = Err TypeError.
Proof. vm_compute. repeat split; reflexivity. Qed.
