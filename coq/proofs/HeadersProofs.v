(* Proofs about coq/model/Headers.v (C14). *)
From Coq Require Import ZArith List Bool Lia ZifyBool.
Require Import PW.lib.Val PW.lib.ValFacts PW.model.Headers.
Import ListNotations.
Open Scope Z_scope.

Ltac Zify.zify_post_hook ::= Z.to_euclidean_division_equations.

(* ================================================================ UTF-8 *)

(* resolve the outermost [if] of the left-hand side by arithmetic *)
Ltac step_if :=
  match goal with
  | |- (if ?b then _ else _) = _ =>
      first [ replace b with true
                by (symmetry; unfold cont, is_surrogate, is_cp, is_byte; lia)
            | replace b with false
                by (symmetry; unfold cont, is_surrogate, is_cp, is_byte; lia) ];
      cbv iota
  end.

Lemma dec_enc1 c rest :
  is_scalar c = true ->
  utf8_decode (enc1 c ++ rest) = ocons c (utf8_decode rest).
Proof.
  unfold is_scalar, is_cp, is_surrogate. intros Hc.
  unfold enc1.
  destruct (c <? 128) eqn:E1; [|destruct (c <? 2048) eqn:E2;
    [|destruct (c <? 65536) eqn:E3]]; cbn [app utf8_decode].
  - rewrite E1. reflexivity.
  - repeat step_if. f_equal. lia.
  - repeat step_if. f_equal. lia.
  - repeat step_if. f_equal. lia.
Qed.

Theorem utf8_roundtrip s :
  forallb is_scalar s = true -> utf8_decode (utf8_encode s) = Some s.
Proof.
  induction s as [|c s IH]; intros H; [reflexivity|].
  cbn [forallb] in H. apply andb_true_iff in H. destruct H as [Hc Hs].
  unfold utf8_encode. cbn [flat_map]. fold (utf8_encode s).
  rewrite dec_enc1 by exact Hc. rewrite IH by exact Hs. reflexivity.
Qed.

Lemma scalar_cp c : is_scalar c = true -> is_cp c = true.
Proof. unfold is_scalar. intros H. apply andb_true_iff in H. tauto. Qed.

Lemma scalar_encodable s : forallb is_scalar s = true -> encodable s = true.
Proof.
  unfold encodable. induction s as [|c s IH]; intros H; [reflexivity|].
  cbn [forallb] in *. apply andb_true_iff in H. destruct H as [Hc Hs].
  rewrite IH by exact Hs. unfold is_scalar in Hc.
  apply andb_true_iff in Hc. destruct Hc as [_ Hc]. rewrite Hc. reflexivity.
Qed.

Lemma scalars_cps s : forallb is_scalar s = true -> forallb is_cp s = true.
Proof.
  induction s as [|c s IH]; intros H; [reflexivity|].
  cbn [forallb] in *. apply andb_true_iff in H. destruct H as [Hc Hs].
  rewrite (scalar_cp _ Hc), IH by exact Hs. reflexivity.
Qed.

(* the bytes of a Python code point are bytes *)
Lemma enc1_bytes c : is_cp c = true -> forallb is_byte (enc1 c) = true.
Proof.
  unfold is_cp, enc1, is_byte. intros Hc.
  destruct (c <? 128) eqn:E1; [|destruct (c <? 2048) eqn:E2;
    [|destruct (c <? 65536) eqn:E3]]; cbn [forallb]; lia.
Qed.

Lemma utf8_encode_app a b :
  utf8_encode (a ++ b) = utf8_encode a ++ utf8_encode b.
Proof. unfold utf8_encode. apply flat_map_app. Qed.

Lemma utf8_encode_cons c s : utf8_encode (c :: s) = enc1 c ++ utf8_encode s.
Proof. reflexivity. Qed.

Lemma utf8_encode_latin1 s :
  forallb is_cp s = true -> latin1 (utf8_encode s) = true.
Proof.
  unfold latin1. induction s as [|c s IH]; intros H; [reflexivity|].
  cbn [forallb] in H. apply andb_true_iff in H. destruct H as [Hc Hs].
  rewrite utf8_encode_cons, forallb_app, enc1_bytes, IH by assumption.
  reflexivity.
Qed.

(* utf8(iso88591(s)) == s for every str of Unicode scalar values *)
Theorem utf8_of_iso s :
  forallb is_scalar s = true ->
  iso88591 (AStr s) = Ok (utf8_encode s) /\ utf8 (utf8_encode s) = s.
Proof.
  intros H. split.
  - unfold iso88591. rewrite scalar_encodable by exact H. reflexivity.
  - unfold utf8. fold (latin1 (utf8_encode s)).
    rewrite utf8_encode_latin1 by (apply scalars_cps; exact H).
    rewrite utf8_roundtrip by exact H. reflexivity.
Qed.

(* =========================================================== strings *)

Lemma lower_app a b : lower (a ++ b) = lower a ++ lower b.
Proof. apply map_app. Qed.

Lemma lower_enc1 c : lower (enc1 c) = enc1 (ascii_lower c).
Proof.
  unfold ascii_lower at 1.
  destruct ((65 <=? c) && (c <=? 90)) eqn:U.
  - unfold enc1.
    replace (c <? 128) with true by lia.
    replace (c + 32 <? 128) with true by lia.
    cbn [lower map]. unfold ascii_lower. rewrite U. reflexivity.
  - unfold enc1.
    destruct (c <? 128) eqn:E1; [|destruct (c <? 2048) eqn:E2;
      [|destruct (c <? 65536) eqn:E3]]; cbn [lower map]; unfold ascii_lower.
    + rewrite U. reflexivity.
    + repeat match goal with
             | |- context [if ?b then _ else _] =>
                 replace b with false by lia
             end. reflexivity.
    + repeat match goal with
             | |- context [if ?b then _ else _] =>
                 replace b with false by lia
             end. reflexivity.
    + repeat match goal with
             | |- context [if ?b then _ else _] =>
                 replace b with false by lia
             end. reflexivity.
Qed.

Lemma lower_utf8 s : lower (utf8_encode s) = utf8_encode (lower s).
Proof.
  induction s as [|c s IH]; [reflexivity|].
  cbn [lower map]. rewrite !utf8_encode_cons, lower_app, lower_enc1.
  fold (lower s). rewrite IH. reflexivity.
Qed.

Lemma surrogate_lower c : is_surrogate (ascii_lower c) = is_surrogate c.
Proof.
  unfold ascii_lower, is_surrogate.
  destruct ((65 <=? c) && (c <=? 90)) eqn:U; lia.
Qed.

Lemma encodable_lower s : encodable (lower s) = encodable s.
Proof.
  unfold encodable. induction s as [|c s IH]; [reflexivity|].
  cbn [lower map forallb]. fold (lower s). rewrite IH, surrogate_lower.
  reflexivity.
Qed.

Lemma enc1_not_nil c : enc1 c <> [].
Proof.
  unfold enc1. destruct (c <? 128); [|destruct (c <? 2048);
    [|destruct (c <? 65536)]]; discriminate.
Qed.

Lemma utf8_is_nil t : is_nil (utf8_encode t) = is_nil t.
Proof.
  destruct t as [|c t]; [reflexivity|].
  rewrite utf8_encode_cons. pose proof (enc1_not_nil c).
  destruct (enc1 c); [contradiction|reflexivity].
Qed.

Definition is_ascii (c : Z) : bool := (0 <=? c) && (c <? 128).

Lemma utf8_ascii a : forallb is_ascii a = true -> utf8_encode a = a.
Proof.
  induction a as [|c a IH]; intros H; [reflexivity|].
  cbn [forallb] in H. apply andb_true_iff in H. destruct H as [Hc Ha].
  rewrite utf8_encode_cons, IH by exact Ha. unfold enc1, is_ascii in *.
  replace (c <? 128) with true by lia. reflexivity.
Qed.

Lemma replace_char_app c r a b :
  replace_char c r (a ++ b) = replace_char c r a ++ replace_char c r b.
Proof. unfold replace_char. apply flat_map_app. Qed.

(* replacing an ASCII character commutes with UTF-8 encoding: the bytes of
   a non-ASCII code point are all >= 128 *)
Lemma replace_enc1 c r x :
  0 <= c < 128 -> utf8_encode r = r ->
  replace_char c r (enc1 x) = utf8_encode (if x =? c then r else [x]).
Proof.
  intros Hc Hr. destruct (x =? c) eqn:E.
  - apply Z.eqb_eq in E. subst x. rewrite Hr. unfold enc1.
    replace (c <? 128) with true by lia.
    unfold replace_char. cbn [flat_map]. rewrite Z.eqb_refl, app_nil_r.
    reflexivity.
  - unfold utf8_encode at 1. cbn [flat_map]. rewrite app_nil_r.
    unfold enc1.
    destruct (x <? 128) eqn:E1; [|destruct (x <? 2048) eqn:E2;
      [|destruct (x <? 65536) eqn:E3]]; unfold replace_char; cbn [flat_map app].
    + rewrite E. reflexivity.
    + repeat match goal with
             | |- context [if ?b then _ else _] =>
                 replace b with false by lia
             end. reflexivity.
    + repeat match goal with
             | |- context [if ?b then _ else _] =>
                 replace b with false by lia
             end. reflexivity.
    + repeat match goal with
             | |- context [if ?b then _ else _] =>
                 replace b with false by lia
             end. reflexivity.
Qed.

Lemma replace_char_utf8 c r s :
  0 <= c < 128 -> utf8_encode r = r ->
  replace_char c r (utf8_encode s) = utf8_encode (replace_char c r s).
Proof.
  intros Hc Hr. induction s as [|x s IH]; [reflexivity|].
  rewrite utf8_encode_cons, replace_char_app, IH, replace_enc1 by assumption.
  rewrite <- utf8_encode_app. reflexivity.
Qed.

Lemma escape_utf8 t : escape (utf8_encode t) = utf8_encode (escape t).
Proof.
  unfold escape.
  rewrite (replace_char_utf8 92 [92; 92]) by (try lia; reflexivity).
  rewrite (replace_char_utf8 34 [92; 34]) by (try lia; reflexivity).
  reflexivity.
Qed.

Lemma join_cons sep p q rest :
  join sep (p :: q :: rest) = p ++ sep ++ join sep (q :: rest).
Proof. reflexivity. Qed.

Lemma join_utf8 sep parts :
  utf8_encode (join sep parts) = join (utf8_encode sep) (map utf8_encode parts).
Proof.
  induction parts as [|p rest IH]; [reflexivity|].
  destruct rest as [|q rest]; [reflexivity|].
  rewrite join_cons. cbn [map]. rewrite join_cons.
  rewrite !utf8_encode_app, IH. reflexivity.
Qed.

(* ============================================= the code vs the reference *)

Definition step_rel (a : state * outcome) (b : state * soutcome) : Prop :=
  fst a = fst b /\ out_rel (snd a) (snd b).

Definition rejects (e : exn) : Prop := e = TypeError \/ e = ValueError.

Lemma text_str a t : text a = Some t -> a = AStr t /\ encodable t = true.
Proof.
  destruct a as [s| | |]; cbn [text]; try discriminate.
  destruct (encodable s) eqn:E; [|discriminate].
  intros H. injection H as <-. auto.
Qed.

Lemma iso_text a t : text a = Some t -> iso88591 a = Ok (utf8_encode t).
Proof.
  intros H. apply text_str in H. destruct H as [-> E].
  unfold iso88591. rewrite E. reflexivity.
Qed.

Lemma iso_notext a : text a = None -> exists e, iso88591 a = Err e /\ rejects e.
Proof.
  unfold rejects.
  destruct a as [s| | |]; cbn [text iso88591]; eauto.
  destruct (encodable s); [discriminate|eauto].
Qed.

Lemma norm_text a t :
  text a = Some t -> norm_name a = Ok (utf8_encode (lower t)).
Proof.
  intros H. apply text_str in H. destruct H as [-> E].
  unfold norm_name, lower_arg, bind, iso88591.
  rewrite encodable_lower, E. reflexivity.
Qed.

Lemma norm_notext a :
  text a = None -> lowerable a = true ->
  exists e, norm_name a = Err e /\ rejects e.
Proof.
  unfold rejects.
  destruct a as [s| | |]; cbn [text lowerable]; try discriminate;
    unfold norm_name, lower_arg, bind, iso88591; eauto.
  rewrite encodable_lower. destruct (encodable s); [discriminate|eauto].
Qed.

Lemma norm_unlowerable a : lowerable a = false -> norm_name a = Err AttributeError.
Proof. destruct a; cbn [lowerable]; try discriminate; reflexivity. Qed.

Lemma key_eq k t :
  lz_eqb (lower k) (utf8_encode (lower t)) = same_name k (utf8_encode t).
Proof. unfold same_name. rewrite lower_utf8. reflexivity. Qed.

Lemma filter_ext' {A} (f g : A -> bool) l :
  (forall a, f a = g a) -> filter f l = filter g l.
Proof.
  intros H. induction l as [|a l IH]; [reflexivity|].
  cbn [filter]. rewrite H, IH. reflexivity.
Qed.

Lemma find_first_filter n s :
  find_first n s =
  match filter (fun kv => lz_eqb (lower (fst kv)) n) s with
  | [] => None
  | kv :: _ => Some (snd kv)
  end.
Proof.
  induction s as [|[k v] s IH]; [reflexivity|].
  cbn [find_first filter fst]. destruct (lz_eqb (lower k) n); [reflexivity|exact IH].
Qed.

Lemma entries_filter t s :
  filter (fun kv => lz_eqb (lower (fst kv)) (utf8_encode (lower t))) s =
  entries_of (utf8_encode t) s.
Proof. unfold entries_of. apply filter_ext'. intros a. apply key_eq. Qed.

Lemma others_filter t s :
  filter (fun kv => negb (lz_eqb (lower (fst kv)) (utf8_encode (lower t)))) s =
  others (utf8_encode t) s.
Proof.
  unfold others. apply filter_ext'. intros a. rewrite key_eq. reflexivity.
Qed.

Lemma has_entries k m : has k m = negb (is_nil (entries_of k m)).
Proof.
  unfold has, entries_of. induction m as [|kv m IH]; [reflexivity|].
  cbn [existsb filter]. destruct (same_name (fst kv) k); [reflexivity|exact IH].
Qed.

Lemma getitem_text s a t :
  text a = Some t ->
  getitem s a = match entries_of (utf8_encode t) s with
                | [] => Err KeyError
                | kv :: _ => Ok (snd kv)
                end.
Proof.
  intros H. unfold getitem. rewrite (norm_text _ _ H). cbn [bind].
  rewrite find_first_filter, entries_filter.
  destruct (entries_of (utf8_encode t) s); reflexivity.
Qed.

Lemma getitem_notext s a :
  text a = None -> lowerable a = true ->
  exists e, getitem s a = Err e /\ rejects e.
Proof.
  intros H L. destruct (norm_notext _ H L) as (e & E & R).
  exists e. unfold getitem. rewrite E. auto.
Qed.

(* ---- add_header *)

Lemma all_some_cons {A} (o : option A) r :
  all_some (o :: r) =
  match o with
  | Some a => match all_some r with Some r' => Some (a :: r') | None => None end
  | None => None
  end.
Proof. destruct o; reflexivity. Qed.

Lemma formatparam_text k t :
  formatparam (replace_char 95 [45] (utf8_encode k)) (utf8_encode t) =
  utf8_encode (param_text k (Some t)).
Proof.
  unfold formatparam, param_text.
  rewrite utf8_is_nil, (replace_char_utf8 95 [45]) by (try lia; reflexivity).
  destruct (is_nil t); cbn [negb]; [reflexivity|].
  rewrite escape_utf8, !utf8_encode_app. reflexivity.
Qed.

Lemma params_parts_some ps l :
  param_texts ps = Some l -> params_parts ps = Ok (map utf8_encode l).
Proof.
  revert l. unfold param_texts.
  induction ps as [|[k val] ps IH]; intros l H.
  - injection H as <-. reflexivity.
  - cbn [map fst snd] in H. rewrite all_some_cons in H.
    cbn [params_parts].
    destruct (text (AStr k)) as [k'|] eqn:Ek; [|discriminate].
    pose proof (text_str _ _ Ek) as [Ek' _]. injection Ek' as <-.
    rewrite (iso_text _ _ Ek). cbn [bind].
    destruct val as [sv|bv| |zv].
    + destruct (text (AStr sv)) as [tv|] eqn:Ev; [|discriminate].
      pose proof (text_str _ _ Ev) as [Ev' _]. injection Ev' as <-.
      destruct (all_some _) as [r'|] eqn:Er; [|discriminate].
      injection H as <-. rewrite (iso_text _ _ Ev). cbn [bind].
      rewrite (IH _ eq_refl). cbn [bind map]. rewrite formatparam_text.
      reflexivity.
    + cbn [text] in H. discriminate.
    + destruct (all_some _) as [r'|] eqn:Er; [|discriminate].
      injection H as <-. rewrite (IH _ eq_refl). cbn [bind map].
      unfold param_text.
      rewrite (replace_char_utf8 95 [45]) by (try lia; reflexivity).
      reflexivity.
    + cbn [text] in H. discriminate.
Qed.

Lemma params_parts_none ps :
  param_texts ps = None -> exists e, params_parts ps = Err e /\ rejects e.
Proof.
  unfold param_texts.
  induction ps as [|[k val] ps IH]; intros H; [discriminate|].
  cbn [map fst snd] in H. rewrite all_some_cons in H.
  cbn [params_parts].
  destruct (text (AStr k)) as [k'|] eqn:Ek.
  2:{ destruct (iso_notext _ Ek) as (e & E & R). exists e. rewrite E. auto. }
  rewrite (iso_text _ _ Ek). cbn [bind].
  destruct val as [sv|bv| |zv].
  - destruct (text (AStr sv)) as [tv|] eqn:Ev.
    + rewrite (iso_text _ _ Ev). cbn [bind].
      destruct (all_some _) eqn:Er; [discriminate|].
      destruct (IH eq_refl) as (e & E & R). exists e. rewrite E. auto.
    + destruct (iso_notext _ Ev) as (e & E & R). exists e. rewrite E. auto.
  - exists TypeError. unfold rejects. auto.
  - destruct (all_some _) eqn:Er; [discriminate|].
    destruct (IH eq_refl) as (e & E & R). exists e. rewrite E. auto.
  - exists TypeError. unfold rejects. auto.
Qed.

Lemma header_parts_some v ps l :
  value_texts v ps = Some l -> header_parts v ps = Ok (map utf8_encode l).
Proof.
  destruct v as [a|items]; cbn [value_texts header_parts].
  - destruct (match a with
              | ANone => Some []
              | _ => match text a with Some t => Some [t] | None => None end
              end) as [first|] eqn:Ef; [|discriminate].
    destruct (param_texts ps) as [more|] eqn:Ep; [|discriminate].
    intros H. injection H as <-. rewrite (params_parts_some _ _ Ep).
    destruct a as [sv|bv| |zv]; try (cbn [text] in Ef; discriminate).
    + destruct (text (AStr sv)) as [t|] eqn:Et; [|discriminate].
      injection Ef as <-. rewrite (iso_text _ _ Et). reflexivity.
    + injection Ef as <-. reflexivity.
  - destruct (text (AStr (render_negotiation items))) as [t|] eqn:Et;
      [|discriminate].
    intros H. injection H as <-. rewrite (iso_text _ _ Et). reflexivity.
Qed.

Lemma header_parts_none v ps :
  value_texts v ps = None -> exists e, header_parts v ps = Err e /\ rejects e.
Proof.
  destruct v as [a|items]; cbn [value_texts header_parts].
  - destruct a as [sv|bv| |zv].
    + destruct (text (AStr sv)) as [t|] eqn:Et.
      * rewrite (iso_text _ _ Et). cbn [bind].
        destruct (param_texts ps) eqn:Ep; [discriminate|]. intros _.
        destruct (params_parts_none _ Ep) as (e & E & R).
        exists e. rewrite E. auto.
      * intros _. destruct (iso_notext _ Et) as (e & E & R).
        exists e. rewrite E. auto.
    + intros _. exists TypeError. unfold rejects. auto.
    + cbn [bind]. destruct (param_texts ps) eqn:Ep; [discriminate|]. intros _.
      destruct (params_parts_none _ Ep) as (e & E & R).
      exists e. rewrite E. auto.
    + intros _. exists TypeError. unfold rejects. auto.
  - destruct (text (AStr (render_negotiation items))) as [t|] eqn:Et;
      [discriminate|]. intros _.
    destruct (iso_notext _ Et) as (e & E & R). exists e. rewrite E. auto.
Qed.

Lemma rel_rejected s e :
  rejects e -> step_rel (s, Raised e) (s, SRejected).
Proof. unfold step_rel, rejects. cbn. intros [->| ->]; auto. Qed.

Lemma add_header_refines s n v ps :
  step_rel (add_header s n v ps) (spec_add_header utf8_encode s n v ps).
Proof.
  unfold add_header, spec_add_header.
  destruct (value_texts v ps) as [l|] eqn:Ev.
  - rewrite (header_parts_some _ _ _ Ev).
    destruct l as [|p l]; cbn [map is_nil].
    + apply rel_rejected. right. reflexivity.
    + destruct (text n) as [t|] eqn:En.
      * rewrite (iso_text _ _ En). split; [|reflexivity]. cbn [fst].
        rewrite join_utf8. reflexivity.
      * destruct (iso_notext _ En) as (e & E & R). rewrite E.
        apply rel_rejected. exact R.
  - destruct (header_parts_none _ _ Ev) as (e & E & R). rewrite E.
    apply rel_rejected. exact R.
Qed.

(* ---- lookups *)

Lemma mapping_get_text s a t :
  text a = Some t ->
  mapping_get s a = Ok (match entries_of (utf8_encode t) s with
                        | [] => None
                        | kv :: _ => Some (snd kv)
                        end).
Proof.
  intros H. unfold mapping_get. rewrite (getitem_text _ _ _ H).
  destruct (entries_of (utf8_encode t) s); reflexivity.
Qed.

Lemma mapping_get_notext s a :
  text a = None -> lowerable a = true ->
  exists e, mapping_get s a = Err e /\ rejects e.
Proof.
  intros H L. destruct (getitem_notext s _ H L) as (e & E & R).
  exists e. unfold mapping_get. rewrite E. destruct R as [-> | ->]; split;
    try reflexivity; unfold rejects; auto.
Qed.

Lemma contains_text s a t :
  text a = Some t -> contains s a = Ok (has (utf8_encode t) s).
Proof.
  intros H. unfold contains. rewrite (getitem_text _ _ _ H), has_entries.
  destruct (entries_of (utf8_encode t) s); reflexivity.
Qed.

Lemma contains_notext s a :
  text a = None -> lowerable a = true ->
  exists e, contains s a = Err e /\ rejects e.
Proof.
  intros H L. destruct (getitem_notext s _ H L) as (e & E & R).
  exists e. unfold contains. rewrite E. destruct R as [-> | ->]; split;
    try reflexivity; unfold rejects; auto.
Qed.

Lemma delitem_text s a t :
  text a = Some t -> delitem s a = Ok (others (utf8_encode t) s).
Proof.
  intros H. unfold delitem. rewrite (norm_text _ _ H). cbn [bind].
  rewrite others_filter. reflexivity.
Qed.

Lemma delitem_notext s a :
  text a = None -> lowerable a = true ->
  exists e, delitem s a = Err e /\ rejects e.
Proof.
  intros H L. destruct (norm_notext _ H L) as (e & E & R).
  exists e. unfold delitem. rewrite E. auto.
Qed.

Lemma get_all_text s a t :
  text a = Some t ->
  get_all s a = Ok (map snd (entries_of (utf8_encode t) s)).
Proof.
  intros H. unfold get_all. rewrite (norm_text _ _ H). cbn [bind].
  rewrite entries_filter. reflexivity.
Qed.

Lemma get_all_notext s a :
  text a = None -> lowerable a = true ->
  exists e, get_all s a = Err e /\ rejects e.
Proof.
  intros H L. destruct (norm_notext _ H L) as (e & E & R).
  exists e. unfold get_all. rewrite E. auto.
Qed.

(* ---- storing one plain value *)

Lemma add_header_plain s n v t tv :
  text n = Some t -> text v = Some tv ->
  add_header s n (HArg v) [] =
  (s ++ [(utf8_encode t, utf8_encode tv)], ONone).
Proof.
  intros Hn Hv. pose proof (text_str _ _ Hv) as [-> _].
  unfold add_header, header_parts. rewrite (iso_text _ _ Hv).
  cbn [bind params_parts app is_nil]. rewrite (iso_text _ _ Hn). reflexivity.
Qed.

Lemma spec_add_header_notext enc s n v ps :
  text n = None -> spec_add_header enc s n v ps = (s, SRejected).
Proof.
  intros H. unfold spec_add_header. rewrite H.
  destruct (value_texts v ps) as [[|p l]|]; reflexivity.
Qed.

Lemma spec_add_header_novalue enc s n v :
  text v = None -> spec_add_header enc s n (HArg v) [] = (s, SRejected).
Proof.
  intros H. unfold spec_add_header, value_texts. rewrite H.
  destruct v; reflexivity.
Qed.

Lemma rejected_inv s r :
  step_rel r (s, SRejected) -> exists e, r = (s, Raised e) /\ rejects e.
Proof.
  destruct r as [s' o]. unfold step_rel, rejects. cbn. intros [-> [-> | ->]]; eauto.
Qed.

Lemma add_header_bad_name s n v ps :
  text n = None -> exists e, add_header s n v ps = (s, Raised e) /\ rejects e.
Proof.
  intros H. apply rejected_inv.
  rewrite <- (spec_add_header_notext utf8_encode s n v ps H).
  apply add_header_refines.
Qed.

Lemma add_header_bad_value s n v :
  text v = None ->
  exists e, add_header s n (HArg v) [] = (s, Raised e) /\ rejects e.
Proof.
  intros H. apply rejected_inv.
  rewrite <- (spec_add_header_novalue utf8_encode s n v H).
  apply add_header_refines.
Qed.

Lemma spec_add_header_plain enc s n v t tv :
  text n = Some t -> text v = Some tv ->
  spec_add_header enc s n (HArg v) [] = (s ++ [(enc t, enc tv)], SRet ONone).
Proof.
  intros Hn Hv. pose proof (text_str _ _ Hv) as [-> _].
  unfold spec_add_header, value_texts. rewrite Hv, Hn. reflexivity.
Qed.

(* ---- constructor *)

Definition encp (kv : str * str) : str * str :=
  (utf8_encode (fst kv), utf8_encode (snd kv)).

Lemma iso_pairs_some l ps :
  pair_texts l = Some ps -> iso_pairs l = Ok (map encp ps).
Proof.
  revert ps. induction l as [|[k v] l IH]; intros ps H.
  - injection H as <-. reflexivity.
  - cbn [pair_texts] in H. cbn [iso_pairs].
    destruct (text k) as [k'|] eqn:Ek; [|discriminate].
    destruct (text v) as [v'|] eqn:Ev; [|discriminate].
    destruct (pair_texts l) as [r'|] eqn:Er; [|discriminate].
    injection H as <-. rewrite (iso_text _ _ Ek), (iso_text _ _ Ev).
    cbn [bind]. rewrite (IH _ eq_refl). reflexivity.
Qed.

Lemma iso_pairs_none l :
  pair_texts l = None -> exists e, iso_pairs l = Err e /\ rejects e.
Proof.
  induction l as [|[k v] l IH]; intros H; [discriminate|].
  cbn [pair_texts] in H. cbn [iso_pairs].
  destruct (text k) as [k'|] eqn:Ek.
  2:{ destruct (iso_notext _ Ek) as (e & E & R). exists e. rewrite E. auto. }
  rewrite (iso_text _ _ Ek). cbn [bind].
  destruct (text v) as [v'|] eqn:Ev.
  2:{ destruct (iso_notext _ Ev) as (e & E & R). exists e. rewrite E. auto. }
  rewrite (iso_text _ _ Ev). cbn [bind].
  destruct (pair_texts l) as [r'|] eqn:Er; [discriminate|].
  destruct (IH eq_refl) as (e & E & R). exists e. rewrite E. auto.
Qed.

Lemma with_name_notext m n f : text n = None -> with_name m n f = (m, SRejected).
Proof. intros H. unfold with_name. rewrite H. reflexivity. Qed.
Lemma with_name_text m n f t : text n = Some t -> with_name m n f = f t.
Proof. intros H. unfold with_name. rewrite H. reflexivity. Qed.

Ltac reject_with L :=
  let e := fresh "e" in let E := fresh "E" in let R := fresh "R" in
  destruct L as (e & E & R); rewrite E; cbn [of_res];
  apply rel_rejected; exact R.

(* every operation, one step: the code does what the reference says *)
Theorem step_refines s o :
  benign o = true -> step_rel (step s o) (spec_step utf8_encode s o).
Proof.
  intros B. destruct o as [c|c|n v|n v ps|n v|n|n v|n|n|n|n| | | |];
    cbn [step spec_step benign] in *.
  - (* OInit *)
    destruct c as [|l|l|truthy]; cbn [init_strict spec_init of_res].
    + split; reflexivity.
    + destruct (pair_texts l) as [ps|] eqn:E.
      * rewrite (iso_pairs_some _ _ E). split; reflexivity.
      * reject_with (iso_pairs_none _ E).
    + destruct (pair_texts l) as [ps|] eqn:E.
      * rewrite (iso_pairs_some _ _ E). split; reflexivity.
      * reject_with (iso_pairs_none _ E).
    + destruct truthy; [apply rel_rejected; left; reflexivity|split; reflexivity].
  - (* OInitRaw *)
    destruct c as [|l|l|truthy]; cbn [init_raw spec_init_raw of_res];
      try (split; reflexivity).
    destruct truthy; [apply rel_rejected; left; reflexivity|split; reflexivity].
  - (* OAdd *)
    unfold add. destruct (text n) as [t|] eqn:En.
    + rewrite (with_name_text _ _ _ _ En).
      pose proof (text_str _ _ En) as [Hn _]. subst n.
      cbn [not_set_cookie lower_arg bind]. unfold same_name.
      change (lower s_set_cookie) with s_set_cookie.
      destruct (lz_eqb (lower t) s_set_cookie); cbn [negb andb].
      * apply add_header_refines.
      * rewrite (contains_text _ _ _ En).
        destruct (has (utf8_encode t) s).
        -- split; reflexivity.
        -- apply add_header_refines.
    + rewrite (with_name_notext _ _ _ En).
      assert (Hc : step_rel
                (match contains s n with
                 | Ok true => (s, Raised KeyError)
                 | Ok false => add_header s n (HArg v) []
                 | Err e => (s, Raised e)
                 end) (s, SRejected)).
      { destruct (contains_notext s _ En B) as (e & E & R). rewrite E.
        apply rel_rejected. exact R. }
      assert (Ha : step_rel (add_header s n (HArg v) []) (s, SRejected)).
      { destruct (add_header_bad_name s n (HArg v) [] En) as (e & E & R).
        rewrite E. apply rel_rejected. exact R. }
      destruct n as [sn|bn| |zn]; try discriminate;
        cbn [not_set_cookie lower_arg bind].
      * destruct (negb (lz_eqb (lower sn) s_set_cookie)); assumption.
      * exact Hc.
  - (* OAddHeader *) apply add_header_refines.
  - (* OSet *)
    apply andb_true_iff in B. destruct B as [L B]. unfold setitem.
    destruct (text n) as [t|] eqn:En.
    + rewrite (with_name_text _ _ _ _ En).
      unfold text_ok in B. rewrite En in B. cbn [negb orb] in B.
      destruct (text v) as [tv|] eqn:Ev; [|discriminate].
      rewrite (delitem_text _ _ _ En), (add_header_plain _ _ _ _ _ En Ev).
      split; reflexivity.
    + rewrite (with_name_notext _ _ _ En).
      reject_with (delitem_notext s _ En L).
  - (* ODel *)
    destruct (text n) as [t|] eqn:En.
    + rewrite (with_name_text _ _ _ _ En), (delitem_text _ _ _ En).
      split; reflexivity.
    + rewrite (with_name_notext _ _ _ En).
      reject_with (delitem_notext s _ En B).
  - (* OSetdefault *)
    unfold setdefault. destruct (text n) as [t|] eqn:En.
    + rewrite (with_name_text _ _ _ _ En), (mapping_get_text _ _ _ En).
      destruct (entries_of (utf8_encode t) s) as [|kv r]; [|split; reflexivity].
      destruct (text v) as [tv|] eqn:Ev.
      * rewrite (add_header_plain _ _ _ _ _ En Ev).
        pose proof (text_str _ _ Ev) as [-> _]. split; reflexivity.
      * destruct (add_header_bad_value s n v Ev) as (e & E & R). rewrite E.
        apply rel_rejected. exact R.
    + rewrite (with_name_notext _ _ _ En).
      reject_with (mapping_get_notext s _ En B).
  - (* OGet *)
    destruct (text n) as [t|] eqn:En.
    + rewrite (with_name_text _ _ _ _ En), (mapping_get_text _ _ _ En).
      cbn [of_res]. destruct (entries_of (utf8_encode t) s); split; reflexivity.
    + rewrite (with_name_notext _ _ _ En).
      reject_with (mapping_get_notext s _ En B).
  - (* OGetAll *)
    destruct (text n) as [t|] eqn:En.
    + rewrite (with_name_text _ _ _ _ En), (get_all_text _ _ _ En).
      split; reflexivity.
    + rewrite (with_name_notext _ _ _ En).
      reject_with (get_all_notext s _ En B).
  - (* OContains *)
    destruct (text n) as [t|] eqn:En.
    + rewrite (with_name_text _ _ _ _ En), (contains_text _ _ _ En).
      split; reflexivity.
    + rewrite (with_name_notext _ _ _ En).
      reject_with (contains_notext s _ En B).
  - (* OGetItem *)
    destruct (text n) as [t|] eqn:En.
    + rewrite (with_name_text _ _ _ _ En), (getitem_text _ _ _ En).
      destruct (entries_of (utf8_encode t) s); split; reflexivity.
    + rewrite (with_name_notext _ _ _ En).
      reject_with (getitem_notext s _ En B).
  - split; reflexivity.
  - split; reflexivity.
  - split; reflexivity.
  - split; reflexivity.
Qed.

(* every history: states and outcomes after every step *)
Theorem run_refines ops : forall s,
  forallb benign ops = true ->
  Forall2 step_rel (run s ops) (srun utf8_encode s ops).
Proof.
  induction ops as [|o ops IH]; intros s B; [constructor|].
  cbn [forallb] in B. apply andb_true_iff in B. destruct B as [Bo Bs].
  cbn [run srun]. pose proof (step_refines s o Bo) as R.
  constructor; [exact R|]. destruct R as [Rs _]. rewrite Rs.
  apply IH. exact Bs.
Qed.
