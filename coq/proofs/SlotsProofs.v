(* Facts of the write-once slots model (model/Slots.v), for all values, all
   states and all sequences of assignments. *)
From Coq Require Import List Bool.
Require Import PW.model.Slots.
Import ListNotations.

Section SlotsProofs.
  Variable A : Type.
  Implicit Types (s : slots A) (n : slot_name) (v : option A).

  Lemma set_once_empty v : set_once None v = v.
  Proof. reflexivity. Qed.

  Lemma set_once_full (x : A) v : set_once (Some x) v = Some x.
  Proof. reflexivity. Qed.

  Lemma get_set_same n v s : get n (set_slot n v s) = set_once (get n s) v.
  Proof. destruct n; reflexivity. Qed.

  Lemma get_set_other n n' v s :
    n <> n' -> get n' (set_slot n v s) = get n' s.
  Proof. destruct n, n'; intros H; try reflexivity; now elim H. Qed.

  (* setting an empty slot yields exactly the value *)
  Lemma set_empty_slot n v s :
    get n s = None -> get n (set_slot n v s) = v.
  Proof. intros H. now rewrite get_set_same, H. Qed.

  (* one assignment never changes a filled slot, whichever slot it names *)
  Lemma set_keeps_filled n n' (x : A) v s :
    get n s = Some x -> get n (set_slot n' v s) = Some x.
  Proof.
    intros H. destruct n, n'; cbn in *; try assumption; now rewrite H.
  Qed.

  (* a slot once set never changes under any sequence of assignments *)
  Theorem filled_slot_is_stable n (x : A) ops s :
    get n s = Some x -> get n (run_ops ops s) = Some x.
  Proof.
    revert s. induction ops as [|[n' v] ops IH]; intros s H; [exact H|].
    cbn. apply IH. unfold apply_op; cbn [fst snd].
    now apply set_keeps_filled.
  Qed.

  (* ... hence any two observations after it was set agree *)
  Corollary observations_agree n (x : A) ops1 ops2 s :
    get n s = Some x ->
    get n (run_ops (ops1 ++ ops2) s) = get n (run_ops ops1 s).
  Proof.
    intros H. now rewrite !filled_slot_is_stable with (x := x).
  Qed.

  Lemma run_ops_app ops1 ops2 s :
    run_ops (ops1 ++ ops2) s = run_ops ops2 (run_ops ops1 s).
  Proof. apply fold_left_app. Qed.

  (* a fresh request: after the endpoint was chosen, both slots hold it *)
  Lemma choose_endpoint_fresh (r h : A) :
    get UriRule (choose_endpoint r h empty_slots) = Some r /\
    get UriHandler (choose_endpoint r h empty_slots) = Some h.
  Proof. split; reflexivity. Qed.

  (* the before hooks run after [choose_endpoint]; hook i may assign the
     properties any number of times ([hooks] = the assignments of each hook,
     in order).  Every hook -- and the endpoint afterwards -- reads the rule
     and the handler the application has chosen. *)
  Theorem hooks_cannot_change_the_visible_endpoint (r h : A)
      (hooks : list (list (op A))) k :
    let s := run_ops (concat (firstn k hooks))
                     (choose_endpoint r h empty_slots) in
    get UriRule s = Some r /\ get UriHandler s = Some h.
  Proof.
    cbv zeta. split; apply filled_slot_is_stable; reflexivity.
  Qed.
End SlotsProofs.
