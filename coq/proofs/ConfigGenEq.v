(* The definitions generated from poorwsgi/wsgi.py (gen/ConfigGen.v: the
   configuration literal of Application.__init__, the property getters and
   setters of its keys) are the configuration map of model/Config.v, for
   every application state in which the 21 keys are present and for every
   assigned value.  [abs] reads the configuration dictionary of an object. *)
From Coq Require Import List String Bool ZArith.
Require Import PW.lib.PyConfig PW.model.Config PW.proofs.ConfigProofs
  PW.gen.ConfigGen.
Import ListNotations.
Open Scope string_scope.

(* trusted table: which generated definition belongs to which key (the
   dictionary key each one touches is part of the generated text and is
   checked against [key_name] by the theorems) *)
Definition gen_get (k : ckey) : int_parser -> cobj -> option cval :=
  match k with
  | KDebug => gen_debug_get | KDocumentRoot => gen_document_root_get
  | KDocumentIndex => gen_document_index_get | KAutoArgs => gen_auto_args_get
  | KAutoForm => gen_auto_form_get | KAutoJson => gen_auto_json_get
  | KAutoData => gen_auto_data_get | KAutoCookies => gen_auto_cookies_get
  | KKeepBlankValues => gen_keep_blank_values_get
  | KStrictParsing => gen_strict_parsing_get | KDataSize => gen_data_size_get
  | KCachedSize => gen_cached_size_get | KReadTimeout => gen_read_timeout_get
  | KFileCallback => gen_file_callback_get
  | KJsonMimeTypes => gen_json_mime_types_get
  | KFormMimeTypes => gen_form_mime_types_get
  | KSecretKey => gen_secret_key_get | KAuthType => gen_auth_type_get
  | KAuthAlgorithm => gen_auth_algorithm_get | KAuthQop => gen_auth_qop_get
  | KAuthTimeout => gen_auth_timeout_get
  end.

Definition gen_set (k : ckey)
  : option (int_parser -> cobj -> cval -> option cobj) :=
  match k with
  | KDebug => Some gen_debug_set | KDocumentRoot => Some gen_document_root_set
  | KDocumentIndex => Some gen_document_index_set
  | KAutoArgs => Some gen_auto_args_set | KAutoForm => Some gen_auto_form_set
  | KAutoJson => Some gen_auto_json_set | KAutoData => Some gen_auto_data_set
  | KAutoCookies => Some gen_auto_cookies_set
  | KKeepBlankValues => Some gen_keep_blank_values_set
  | KStrictParsing => Some gen_strict_parsing_set
  | KDataSize => Some gen_data_size_set
  | KCachedSize => Some gen_cached_size_set
  | KReadTimeout => Some gen_read_timeout_set
  | KFileCallback => Some gen_file_callback_set
  | KSecretKey => Some gen_secret_key_set | KAuthQop => Some gen_auth_qop_set
  | KAuthTimeout => Some gen_auth_timeout_set
  | KJsonMimeTypes | KFormMimeTypes | KAuthType | KAuthAlgorithm => None
  end.

Definition ATTR : string := "_Application__config".

(* every key is present in the configuration dictionary *)
Definition wf (o : cobj) : Prop := forall k, o ATTR (key_name k) <> None.

Definition abs (o : cobj) : config :=
  fun k => match o ATTR (key_name k) with Some v => v | None => VNone end.

Lemma key_name_eqb k' k :
  String.eqb (key_name k') (key_name k) = if ckey_eq_dec k' k then true else false.
Proof. destruct k', k; reflexivity. Qed.

Lemma abs_store o k w k' :
  abs (dict_store o ATTR (key_name k) w) k' = upd (abs o) k w k'.
Proof.
  unfold abs, dict_store, upd. rewrite String.eqb_refl, key_name_eqb. simpl.
  now destruct (ckey_eq_dec k' k).
Qed.

Lemma wf_store o k w : wf o -> wf (dict_store o ATTR (key_name k) w).
Proof.
  intros H k'. unfold dict_store. rewrite String.eqb_refl. simpl.
  destruct (String.eqb (key_name k') (key_name k)); [discriminate|apply H].
Qed.

Lemma store_frame o k w a key :
  (a <> ATTR \/ key <> key_name k) ->
  dict_store o ATTR (key_name k) w a key = o a key.
Proof.
  intros H. unfold dict_store.
  destruct (String.eqb_spec a ATTR) as [Ea|_]; [|reflexivity].
  destruct (String.eqb_spec key (key_name k)) as [Ek|_]; [|reflexivity].
  destruct H; contradiction.
Qed.

Section ConfigGenEq.
  Variable ios : int_parser.

  (* every getter: the view of the stored value *)
  Theorem config_get_eq k o :
    wf o -> gen_get k ios o = Some (cfg_get k (abs o)).
  Proof.
    intros H. specialize (H k). unfold cfg_get, abs, view.
    destruct k; cbv [gen_get key_name is_on_off] in *;
      match goal with
      | |- ?g _ _ = _ => unfold g
      end; unfold e_eq, e_load, e_const, obind in *; fold ATTR;
      match goal with
      | |- context [o ATTR ?s] => destruct (o ATTR s); [reflexivity|now elim H]
      end.
  Qed.

  (* every translated setter: one store of the coercion under the key of
     the model, or an exception exactly when the model refuses *)
  Theorem config_set_store k f o v :
    gen_set k = Some f ->
    f ios o v =
    option_map (dict_store o ATTR (key_name k)) (coerce_key ios k v).
  Proof.
    intros Hf.
    destruct k; cbv [gen_set] in Hf; inversion Hf; subst f; clear Hf;
      match goal with
      | |- ?g _ _ _ = _ => unfold g
      end;
      unfold coerce_key, kind, coerce, key_name, ATTR, s_store, s_raise_if,
        s_done, e_bool, e_int, e_const, e_ifexp, e_not_in, e_not,
        e_isinstance, obind, option_map;
      try reflexivity;
      try (destruct (py_truthy v); reflexivity);
      try (destruct (py_int ios v); reflexivity);
      try (unfold py_truthy;
           destruct (existsb (py_eqb v) _); reflexivity);
      try (unfold py_truthy;
           destruct (existsb (py_has_type v) _); reflexivity).
  Qed.

  (* the setters the model has and the setters the source has *)
  Lemma setters_agree k :
    (gen_set k = None <-> kind k = None) /\
    (kind k = None <->
     In (key_name k) (gen_no_setter ++ gen_untied_setters)).
  Proof.
    destruct k; cbv [gen_set kind]; split; split; intros H;
      try discriminate; try reflexivity;
      try (vm_compute; tauto);
      try (exfalso; vm_compute in H; intuition discriminate).
  Qed.

  Theorem config_set_eq k f o v :
    gen_set k = Some f -> wf o ->
    match f ios o v, cfg_try_set ios k v (abs o) with
    | Some o', Some c' =>
        (forall k', abs o' k' = c' k') /\ wf o' /\
        (forall a key, a <> ATTR \/ key <> key_name k -> o' a key = o a key)
    | None, None => True
    | _, _ => False
    end.
  Proof.
    intros Hf Hwf. rewrite (config_set_store k f o v Hf).
    unfold cfg_try_set. destruct (coerce_key ios k v) as [w|]; simpl; [|exact I].
    split; [|split].
    - intros k'. apply abs_store.
    - now apply wf_store.
    - intros a key. apply store_frame.
  Qed.

  (* the configuration literal of __init__: exactly the 21 keys of the
     model, each with the model's default *)
  Theorem config_init_eq :
    (forall k, dict_lookup gen_init_config (key_name k) = Some (cfg_init k)) /\
    (forall s, In s (map fst gen_init_config) ->
               exists k, s = key_name k) /\
    gen_config_attr = ATTR.
  Proof.
    split; [|split].
    - intros k. destruct k; vm_compute; reflexivity.
    - intros s H.
      assert (E : map fst gen_init_config = map key_name
                [KAutoArgs; KAutoForm; KAutoJson; KAutoData; KCachedSize;
                 KDataSize; KReadTimeout; KKeepBlankValues; KStrictParsing;
                 KFileCallback; KJsonMimeTypes; KFormMimeTypes; KAutoCookies;
                 KDebug; KDocumentRoot; KDocumentIndex; KSecretKey; KAuthType;
                 KAuthAlgorithm; KAuthQop; KAuthTimeout])
        by (vm_compute; reflexivity).
      rewrite E in H. apply in_map_iff in H. destruct H as [k [Hk _]].
      now exists k.
    - reflexivity.
  Qed.

  (* an object whose configuration dictionary is the literal *)
  Corollary config_init_abs o :
    (forall key, o ATTR key = dict_lookup gen_init_config key) ->
    wf o /\ forall k, abs o k = cfg_init k.
  Proof.
    intros H. destruct config_init_eq as [E _]. split.
    - intros k. rewrite H, E. discriminate.
    - intros k. unfold abs. now rewrite H, E.
  Qed.
End ConfigGenEq.
