(* The definitions generated from the current source of Request.__init__
   (gen/EnvHdrGen.v, by harness/py2v_envhdr.py over lib/PyEnvHdr.v) are the
   hand model model/EnvHeaders.v, for every environment. *)
From Coq Require Import ZArith List Bool String Lia.
Require Import PW.lib.Val PW.lib.ValFacts PW.model.HeaderCodec
               PW.model.EnvHeaders PW.lib.PyEnvHdr PW.gen.EnvHdrGen.
Import ListNotations.
Open Scope Z_scope.
Open Scope list_scope.

(* one round of the loop appends the header the key stands for, if any *)
Lemma gen_loop_step_is_model tmp k v :
  gen_loop_step_1 tmp k v =
  tmp ++ match header_of_key k with Some h => [(h, v)] | None => [] end.
Proof.
  unfold gen_loop_step_1, header_of_key, py_eq, py_slice_to, py_slice_from,
    py_in, py_join, py_map, py_capitalize, py_split_c, py_append, cgi_name.
  change [72;84;84;80;95] with k_http.
  destruct (lz_eqb (firstn 5 k) k_http); [reflexivity|].
  cbn [existsb]. rewrite orb_false_r.
  change [67;79;78;84;69;78;84;95;76;69;78;71;84;72] with k_clen.
  change [67;79;78;84;69;78;84;95;84;89;80;69] with k_ctype.
  destruct (lz_eqb k k_clen || lz_eqb k k_ctype); [reflexivity|].
  symmetry. apply app_nil_r.
Qed.

Lemma gen_loop_is_model e : forall acc,
  py_for_items e acc gen_loop_step_1 = acc ++ env_headers e.
Proof.
  unfold py_for_items.
  induction e as [|[k v] e IH]; intros acc; cbn [fold_left].
  - symmetry. apply app_nil_r.
  - rewrite IH. cbn [fst snd]. rewrite gen_loop_step_is_model.
    rewrite <- app_assoc. reflexivity.
Qed.

Theorem gen_request_head_is_model e :
  gen_request_head e = request_head e.
Proof.
  unfold gen_request_head, request_head.
  unfold py_env_get, py_is_none.
  change [80;65;84;72;95;73;78;70;79] with k_path_info.
  destruct (assoc k_path_info e); [|reflexivity].
  cbv zeta. rewrite gen_loop_is_model. cbn [app].
  unfold py_headers_nonstrict, py_hget_d, py_hget, py_dget_d, py_int_or, or_empty.
  change [67;111;110;116;101;110;116;45;84;121;112;101] with h_ctype.
  change [67;111;110;116;101;110;116;45;76;101;110;103;116;104] with h_clen.
  change [99;104;97;114;115;101;116] with s_charset.
  change [117;116;102;45;56] with s_utf8.
  reflexivity.
Qed.
