From Coq Require Import ZArith List Bool Lia String.
Require Import PW.lib.Val PW.lib.ValFacts PW.lib.Dec PW.model.Dispatch
  PW.proofs.DispatchProofs.
Import ListNotations.
Open Scope string_scope.
Open Scope list_scope.
Open Scope Z_scope.

Ltac Zify.zify_post_hook ::= Z.to_euclidean_division_equations.

(* ================================================================== *)
(* latin-1 facts about the UTF-8 transcoding used for header values *)

Definition latin1 (s : list Z) : Prop := Forall (fun c => 0 <= c < 256) s.
Definition hdr_latin1 (h : hdr) : Prop := latin1 (fst h) /\ latin1 (snd h).

Ltac some_inv H :=
  match type of H with
  | Some ?x = Some ?y => let E := fresh in assert (E : y = x) by congruence; subst y
  end.

Lemma utf8_1_bytes c b : utf8_1 c = Some b -> latin1 b.
Proof.
  unfold utf8_1, latin1.
  destruct (c <? 0) eqn:E0; [discriminate|]. apply Z.ltb_ge in E0.
  destruct (c <? 128) eqn:E1.
  { apply Z.ltb_lt in E1. intros H; some_inv H.
    repeat (apply Forall_cons; [cbv beta; lia|]). apply Forall_nil. }
  apply Z.ltb_ge in E1.
  destruct (c <? 2048) eqn:E2.
  { apply Z.ltb_lt in E2. intros H; some_inv H.
    repeat (apply Forall_cons; [cbv beta; lia|]). apply Forall_nil. }
  apply Z.ltb_ge in E2.
  destruct ((55296 <=? c) && (c <=? 57343)); [discriminate|].
  destruct (c <? 65536) eqn:E3.
  { apply Z.ltb_lt in E3. intros H; some_inv H.
    repeat (apply Forall_cons; [cbv beta; lia|]). apply Forall_nil. }
  apply Z.ltb_ge in E3.
  destruct (c <? 1114112) eqn:E4; [|discriminate].
  apply Z.ltb_lt in E4. intros H; some_inv H.
  repeat (apply Forall_cons; [cbv beta; lia|]). apply Forall_nil.
Qed.

Lemma utf8_bytes s : forall b, utf8 s = Some b -> latin1 b.
Proof.
  induction s as [|c s IH]; cbn [utf8]; intros b H.
  - injection H as <-. constructor.
  - destruct (utf8_1 c) eqn:E1; [|discriminate].
    destruct (utf8 s) eqn:E2; [|discriminate]. injection H as <-.
    apply Forall_app. split; [eapply utf8_1_bytes; eauto|apply IH; reflexivity].
Qed.

Lemma iso_pairs_latin1 l : forall r, iso_pairs l = Some r -> Forall hdr_latin1 r.
Proof.
  induction l as [|[k v] l IH]; cbn [iso_pairs]; intros r H.
  - injection H as <-. constructor.
  - destruct (utf8 k) eqn:Ek; [|discriminate].
    destruct (utf8 v) eqn:Ev; [|discriminate].
    destruct (iso_pairs l) eqn:El; [|discriminate]. injection H as <-.
    constructor; [|apply IH; reflexivity].
    split; cbn; eapply utf8_bytes; eauto.
Qed.

Lemma digits_latin1 l : forallb is_digit l = true -> latin1 l.
Proof.
  induction l as [|d l IH]; cbn [forallb]; intros H; [constructor|].
  apply andb_true_iff in H as [Hd Hl]. apply Forall_cons; [|apply IH; assumption].
  unfold is_digit in Hd. apply andb_true_iff in Hd as [H1 H2].
  apply Z.leb_le in H1, H2. cbv beta. lia.
Qed.

Lemma xpb_latin1 : hdr_latin1 xpb.
Proof. split; cbn; repeat (apply Forall_cons; [cbv beta; lia|]); apply Forall_nil. Qed.
Lemma ct_name_latin1 : latin1 (s2l "Content-Type").
Proof. cbn; repeat (apply Forall_cons; [cbv beta; lia|]); apply Forall_nil. Qed.
Lemma cl_name_latin1 : latin1 (s2l "Content-Length").
Proof. cbn; repeat (apply Forall_cons; [cbv beta; lia|]); apply Forall_nil. Qed.

Section W.
  Variable known_status : Z -> bool.
  Variable reason : Z -> list Z.
  Variable isinst : exn -> Z -> bool.
  Variable builtin : Z -> bool.
  Variable page : Z -> resp.

  Notation to_response := (to_response known_status).
  Notation make_response := (make_response known_status).
  Notation state_from_table := (state_from_table known_status builtin page).
  Notation error_from_table := (error_from_table known_status isinst builtin page).
  Notation try_body := (try_body known_status).
  Notation ladder := (ladder known_status isinst builtin page).
  Notation run_after := (run_after known_status).
  Notation after_phase := (after_phase known_status isinst builtin page).
  Notation request_cycle := (request_cycle known_status reason isinst builtin page).
  Notation final_response := (final_response known_status isinst builtin page).
  Notation ise := (ise page).
  Notation emit := (emit reason).

  (* ---------------------------------------------------------------- *)
  (* C01: well-formedness of what is handed to start_response *)

  Definition wf_resp (r : resp) : Prop :=
    known_status (rstatus r) = true /\ Forall hdr_latin1 (rhdrs r) /\
    utf8 (rctype r) <> None /\ 0 <= rclen r.

  Lemma json_ctype_ok : utf8 (s2l "application/json; charset=utf-8") <> None.
  Proof. vm_compute. discriminate. Qed.

  Lemma mk_ctype_ok c ct : mk_ctype c = Some ct -> utf8 ct <> None.
  Proof.
    destruct c; cbn; try discriminate. destruct (utf8 s) eqn:E; [|discriminate].
    intros H; injection H as <-. rewrite E. discriminate.
  Qed.

  Lemma mk_headers_ok h hs : mk_headers h = Some hs -> Forall hdr_latin1 hs.
  Proof.
    destruct h; cbn; try discriminate.
    - intros H; injection H as <-. constructor; [apply xpb_latin1|constructor].
    - destruct h; [|discriminate]. apply iso_pairs_latin1.
  Qed.

  Lemma mk_status_ok s st : mk_status known_status s = Some st -> known_status st = true.
  Proof.
    destruct s; cbn; try discriminate. destruct (known_status z) eqn:E; [|discriminate].
    intros H; injection H as <-. exact E.
  Qed.

  Hypothesis status_204 : known_status 204 = true.
  Hypothesis status_200 : known_status 200 = true.

  Lemma make_response_wf d c h s r : make_response d c h s = Some r -> wf_resp r.
  Proof.
    unfold Dispatch.make_response.
    destruct (mk_headers h) as [hs|] eqn:Eh; [|discriminate].
    destruct (mk_status known_status s) as [st|] eqn:Es; [|discriminate].
    pose proof (mk_headers_ok _ _ Eh) as Hh. pose proof (mk_status_ok _ _ Es) as Hs.
    assert (Hj : forall j x,
              match j with
              | Some t => option_map
                  (fun b => mkResp CBase st hs (s2l "application/json; charset=utf-8")
                                   (Z.of_nat (List.length b)) [b]) (utf8 t)
              | None => None end = Some x -> wf_resp x).
    { intros [t|] x; [|discriminate]. destruct (utf8 t); [|discriminate].
      intros H; injection H as <-. unfold wf_resp; cbn. repeat split; auto.
      apply json_ctype_ok. lia. }
    destruct d; try discriminate; try (apply Hj).
    - destruct (mk_ctype c) eqn:Ec; [|discriminate]. destruct (utf8 s0); [|discriminate].
      intros H; injection H as <-. unfold wf_resp; cbn. repeat split; auto.
      eapply mk_ctype_ok; eauto. lia.
    - destruct (mk_ctype c) eqn:Ec; [|discriminate].
      intros H; injection H as <-. unfold wf_resp; cbn. repeat split; auto.
      eapply mk_ctype_ok; eauto. lia.
    - destruct (mk_ctype c) eqn:Ec; [|discriminate].
      intros H; injection H as <-. unfold wf_resp; cbn. repeat split; auto.
      eapply mk_ctype_ok; eauto. lia.
    - destruct (mk_ctype c) eqn:Ec; [|discriminate].
      intros H; injection H as <-. unfold wf_resp; cbn. repeat split; auto.
      eapply mk_ctype_ok; eauto. lia.
    - intros H; injection H as <-. unfold wf_resp; cbn. repeat split; auto.
      + destruct (st =? 200); auto.
      + discriminate.
      + lia.
  Qed.

  Definition call_ok (c : list Z * list hdr) : Prop :=
    exists st, fst c = status_line reason st /\ known_status st = true /\
               Forall hdr_latin1 (snd c).

  Lemma emit_wf r : wf_resp r -> Forall call_ok (calls (emit r)).
  Proof.
    intros (Hs & Hh & Hc & Hl). unfold Dispatch.emit.
    destruct (rcls r).
    - destruct (rstatus r =? 304); cbn [calls].
      + constructor; [|constructor]. exists (rstatus r). cbn. auto.
      + constructor; [|constructor]. exists (rstatus r). cbn [fst snd].
        split; [reflexivity|]. split; [assumption|].
        assert (H2 : Forall hdr_latin1
                  match rctype r with
                  | [] => rhdrs r
                  | z :: l => if has_hdr (s2l "Content-Type") (rhdrs r) then rhdrs r
                              else rhdrs r ++ [(s2l "Content-Type", iso (z :: l))]
                  end).
        { destruct (rctype r) as [|x xs] eqn:Ect; [assumption|].
          destruct (has_hdr _ _); [assumption|].
          apply Forall_app. split; [assumption|]. constructor; [|constructor].
          split; [apply ct_name_latin1|]. cbn [snd]. unfold iso.
          destruct (utf8 (x :: xs)) eqn:Eu; [eapply utf8_bytes; eauto|contradiction]. }
        destruct (rclen r =? 0); [assumption|].
        match goal with
        | |- context [has_hdr (s2l "Content-Length") ?x] =>
            destruct (has_hdr (s2l "Content-Length") x)
        end; [assumption|].
        apply Forall_app. split; [assumption|]. constructor; [|constructor].
        split; [apply cl_name_latin1|]. cbn [snd].
        apply digits_latin1. apply dec_digits. assumption.
    - cbn [calls]. constructor; [|constructor]. exists (rstatus r). cbn. auto.
    - constructor.
  Qed.

  Hypothesis page_wf : forall c, wf_resp (page c).

  Theorem answer_wellformed a f em :
    app_ok wf_resp a -> facts_ok wf_resp f ->
    fst (request_cycle a f) = Answered em -> Forall call_ok (calls em).
  Proof.
    intros Ha Hf. rewrite cycle_decompose.
    destruct (fst (ladder a f)) as [r| |x] eqn:El.
    - destruct (fst (after_phase a (fmethod f) r)) as [r'|e] eqn:Ea; [|discriminate].
      intros H; injection H as <-. apply emit_wf.
      apply (final_response_invariant known_status isinst builtin page wf_resp
               page_wf make_response_wf) with (a := a) (f := f); auto.
      + unfold wf_resp; cbn. repeat split; auto; try discriminate; lia.
      + unfold wf_resp; cbn. repeat split; auto; try discriminate; try lia.
        constructor; [apply xpb_latin1|constructor].
      + unfold DispatchProofs.final_response. rewrite El, Ea. reflexivity.
    - intros H; injection H as <-. constructor.
    - discriminate.
  Qed.

  (* ---------------------------------------------------------------- *)
  (* C03: hooks *)

  Fixpoint first_fail (hooks : list beh) : option (nat * exn) :=
    match hooks with
    | [] => None
    | b :: hs =>
        match call b None with
        | Exc e => Some (0%nat, e)
        | Val _ => match first_fail hs with
                   | Some (k, e) => Some (S k, e)
                   | None => None
                   end
        end
    end.

  Lemma run_before_spec hooks : forall i,
    run_before hooks i =
    match first_fail hooks with
    | None => (Val tt, map EvBefore (seq i (List.length hooks)))
    | Some (k, e) => (Exc e, map EvBefore (seq i (S k)))
    end.
  Proof.
    induction hooks as [|b hs IH]; intros i; cbn [run_before first_fail]; [reflexivity|].
    destruct (call b None); [|reflexivity].
    rewrite IH. destruct (first_fail hs) as [[k e]|]; reflexivity.
  Qed.

  Definition before_ran (a : app) : nat :=
    match first_fail (before a) with
    | None => List.length (before a)
    | Some (k, _) => S k
    end.

  (* every before hook runs once, in registration order, up to and including
     the first one that stops the request; the endpoint runs exactly when none
     stopped it; the same hooks run for 404/405 and built-in leaves *)
  Theorem before_hooks_exact a f :
    fconstruct f = None -> (forall e, fleaf f <> LPre e) ->
    snd (try_body a f) =
    map EvBefore (seq 0 (before_ran a)) ++
    match first_fail (before a), fleaf f with
    | None, LEndpoint _ => [EvEndpoint]
    | _, _ => []
    end.
  Proof.
    intros Hc Hl. unfold Dispatch.try_body, before_ran. rewrite Hc.
    rewrite run_before_spec.
    destruct (fleaf f) as [b|e|v|e] eqn:El; try (exfalso; eapply Hl; reflexivity);
      destruct (first_fail (before a)) as [[k e']|]; cbn [snd]; rewrite ?app_nil_r; reflexivity.
  Qed.

  (* if a before hook stops the request, what the request phase raises is
     exactly what that hook raised *)
  Theorem before_stop_propagates a f k e :
    fconstruct f = None -> (forall e, fleaf f <> LPre e) ->
    first_fail (before a) = Some (k, e) -> fst (try_body a f) = Exc e.
  Proof.
    intros Hc Hl Hf. unfold Dispatch.try_body. rewrite Hc, run_before_spec, Hf.
    destruct (fleaf f) eqn:El; try reflexivity. exfalso; eapply Hl; reflexivity.
  Qed.

  Definition step_after (b : beh) (r : resp) : result resp :=
    match call b (Some r) with Val v => to_response v | Exc e => Exc e end.
  Fixpoint after_result (hooks : list beh) (r : resp) : result resp :=
    match hooks with
    | [] => Val r
    | b :: hs => match step_after b r with
                 | Val r' => after_result hs r'
                 | Exc e => Exc e
                 end
    end.
  Fixpoint after_inputs (hooks : list beh) (r : resp) : list resp :=
    match hooks with
    | [] => []
    | b :: hs => r :: match step_after b r with
                      | Val r' => after_inputs hs r'
                      | Exc _ => []
                      end
    end.
  Fixpoint number_from (i : nat) (l : list resp) : list event :=
    match l with [] => [] | x :: l' => EvAfter i x :: number_from (S i) l' end.

  (* after hooks: each runs once in registration order on the previous
     hook's (converted) result; the loop stops at the first failure *)
  Theorem run_after_spec hooks : forall i r,
    run_after hooks i r = (after_result hooks r, number_from i (after_inputs hooks r)).
  Proof.
    induction hooks as [|b hs IH]; intros i r; cbn [Dispatch.run_after after_result after_inputs number_from];
      [reflexivity|].
    unfold step_after. destruct (call b (Some r)) as [v|e]; [|reflexivity].
    destruct (to_response v) as [r'|e]; [|reflexivity].
    rewrite IH. reflexivity.
  Qed.

  (* the client receives what the last after hook returned; if one fails the
     rest is skipped and the answer is the exception handler's / the 500 one *)
  Theorem after_hooks_exact a m r :
    fst (after_phase a m r) =
    match after_result (after a) r with
    | Val r' => Val r'
    | Exc e =>
        match fst (error_from_table a m e) with
        | Val (Some y) => Val y
        | Val None => fst (state_from_table a m 500)
        | Exc z => Exc z
        end
    end.
  Proof.
    unfold Dispatch.after_phase. rewrite run_after_spec.
    destruct (after_result (after a) r) as [r'|e]; [reflexivity|].
    destruct (error_from_table a m e) as [[[y|]|z] ev2]; cbn [fst]; try reflexivity.
    destruct (state_from_table a m 500). reflexivity.
  Qed.

  Theorem after_events_exact a m r :
    exists rest, snd (after_phase a m r)
                 = number_from 0 (after_inputs (after a) r) ++ rest /\
                 (forall i x, ~ In (EvAfter i x) rest).
  Proof.
    unfold Dispatch.after_phase. rewrite run_after_spec.
    destruct (after_result (after a) r) as [r'|e].
    - exists []. rewrite app_nil_r. split; [reflexivity|]. intros i x [].
    - assert (Hs : forall c i x, ~ In (EvAfter i x) (snd (state_from_table a m c))).
      { intros c i x. unfold Dispatch.state_from_table.
        destruct (assoc2 (c, m) (shandlers a)); [cbn; intros [H|[]]; discriminate|].
        destruct (builtin c); cbn; auto. }
      assert (He : forall i x, ~ In (EvAfter i x) (snd (error_from_table a m e))).
      { intros i x. unfold Dispatch.error_from_table.
        destruct (find_ehandler isinst e m (ehandlers a)) as [[cls h]|]; [|cbn; auto].
        destruct (call h None) as [v|e']; [cbn; intros [H|[]]; discriminate|].
        destruct (is_http e'); [|cbn; intros [H|[]]; discriminate].
        destruct (exc_response e'); [cbn; intros [H|[]]; discriminate|].
        destruct e'; try (cbn; intros [H|[]]; discriminate).
        pose proof (Hs code i x) as Hc.
        destruct (state_from_table a m code) as [y ev]. cbn [snd] in *.
        intros [H|H]; [discriminate|auto]. }
      destruct (error_from_table a m e) as [[[y|]|z] ev2] eqn:Ee; cbn [snd] in *.
      + exists ev2. split; [reflexivity|exact He].
      + pose proof (Hs 500) as H5.
        destruct (state_from_table a m 500) as [w ev3]. cbn [snd] in *.
        exists (ev2 ++ ev3). split; [reflexivity|].
        intros i x Hin. apply in_app_or in Hin. destruct Hin; [eapply He|eapply H5]; eauto.
      + exists ev2. split; [reflexivity|exact He].
  Qed.

  (* ---------------------------------------------------------------- *)
  (* C04: aborts and exceptions *)

  (* what a status / exception handler's behaviour turns into *)
  Definition handler_result (h : beh) : resp :=
    match call h None with
    | Val v => match to_response v with Val r => r | Exc _ => ise end
    | Exc e => if is_http e
               then match exc_response e with Some r => r | None => ise end
               else ise
    end.

  (* the documented resolution of a status: user handler for (s, method),
     else built-in page for s, else the 501 page *)
  Definition status_response (a : app) (m s : Z) : resp :=
    match assoc2 (s, m) (shandlers a) with
    | Some h => handler_result h
    | None => if builtin s
              then (if (s =? 401) && digest_auth a then ise else page s)
              else page 501
    end.

  Theorem state_from_table_spec a m s :
    fst (state_from_table a m s) = Val (status_response a m s).
  Proof.
    unfold Dispatch.state_from_table, status_response, handler_result.
    destruct (assoc2 (s, m) (shandlers a)) as [h|]; cbn [fst].
    - destruct (call h None) as [v|e].
      + destruct (to_response v); reflexivity.
      + destruct (is_http e); [destruct (exc_response e)|]; reflexivity.
    - destruct (builtin s); cbn [fst]; [|reflexivity].
      unfold builtin_page. destruct ((s =? 401) && digest_auth a); reflexivity.
  Qed.

  Theorem abort_status a f s :
    fconstruct f = None -> fleaf f = LEndpoint (Abort s) ->
    first_fail (before a) = None -> s <> 0 -> s <> 200 ->
    fst (ladder a f) = P1Resp (status_response a (fmethod f) s).
  Proof.
    intros Hc Hl Hb H0 H2. unfold Dispatch.ladder, Dispatch.try_body.
    rewrite Hc, Hl, run_before_spec, Hb. cbn [call is_http exc_response].
    replace (s =? 0) with false by (symmetry; apply Z.eqb_neq; assumption).
    replace (s =? 200) with false by (symmetry; apply Z.eqb_neq; assumption).
    pose proof (state_from_table_spec a (fmethod f) s) as Hs.
    destruct (state_from_table a (fmethod f) s) as [y ev2]. cbn [fst] in *. subst y.
    reflexivity.
  Qed.

  Theorem abort_with_response_exact a f r :
    fconstruct f = None -> fleaf f = LEndpoint (AbortResp r) ->
    first_fail (before a) = None ->
    fst (ladder a f) = P1Resp r.
  Proof.
    intros Hc Hl Hb. unfold Dispatch.ladder, Dispatch.try_body.
    rewrite Hc, Hl, run_before_spec, Hb. reflexivity.
  Qed.

  (* first registered exception handler, in registration order, whose class
     matches and which is registered for the method *)
  Theorem find_ehandler_first e m l cls h :
    find_ehandler isinst e m l = Some (cls, h) <->
    exists l1 hd l2, l = l1 ++ (cls, hd) :: l2 /\ isinst e cls = true /\
      assoc1 m hd = Some h /\
      Forall (fun ch => isinst e (fst ch) = false \/ assoc1 m (snd ch) = None) l1.
  Proof.
    split.
    - revert cls h. induction l as [|[c hd] l IH]; cbn; intros cls h H; [discriminate|].
      destruct (isinst e c) eqn:Ei.
      + destruct (assoc1 m hd) eqn:Ea.
        * injection H as <- <-. exists [], hd, l. repeat split; auto.
        * destruct (IH _ _ H) as (l1 & hd' & l2 & -> & H1 & H2 & H3).
          exists ((c, hd) :: l1), hd', l2. repeat split; auto.
      + destruct (IH _ _ H) as (l1 & hd' & l2 & -> & H1 & H2 & H3).
        exists ((c, hd) :: l1), hd', l2. repeat split; auto.
    - intros (l1 & hd & l2 & -> & H1 & H2 & H3).
      induction l1 as [|[c hd'] l1 IH]; cbn.
      + rewrite H1, H2. reflexivity.
      + inversion H3 as [|? ? Hx Hr]; subst. cbn in Hx.
        destruct Hx as [Hx|Hx]; rewrite Hx; [apply IH; assumption|].
        destruct (isinst e c); apply IH; assumption.
  Qed.

  Theorem exception_dispatch a f cls :
    fconstruct f = None -> fleaf f = LEndpoint (Throw cls) ->
    first_fail (before a) = None ->
    fst (ladder a f) =
    P1Resp match find_ehandler isinst (EUser cls) (fmethod f) (ehandlers a) with
           | Some (_, h) =>
               match call h None with
               | Exc (EHttp c) =>
                   if (c =? 0) || (c =? 200) then handler_result h
                   else status_response a (fmethod f) c
               | _ => handler_result h
               end
           | None => status_response a (fmethod f) 500
           end.
  Proof.
    intros Hc Hl Hb. unfold Dispatch.ladder, Dispatch.try_body.
    rewrite Hc, Hl, run_before_spec, Hb. cbn [call is_http].
    unfold Dispatch.error_from_table.
    destruct (find_ehandler isinst (EUser cls) (fmethod f) (ehandlers a)) as [[c0 h]|].
    - unfold handler_result. destruct (call h None) as [v|e'].
      + destruct (to_response v); reflexivity.
      + destruct e'; cbn [is_http exc_response]; try reflexivity.
        destruct (code =? 0) eqn:E0; [reflexivity|].
        destruct (code =? 200) eqn:E2; [reflexivity|]. cbn [orb].
        pose proof (state_from_table_spec a (fmethod f) code) as Hs.
        destruct (state_from_table a (fmethod f) code) as [y ev2]. cbn [fst] in *.
        subst y. reflexivity.
    - pose proof (state_from_table_spec a (fmethod f) 500) as Hs.
      destruct (state_from_table a (fmethod f) 500) as [y ev2]. cbn [fst] in *.
      subst y. reflexivity.
  Qed.

  (* the answer handed to the after hooks does not depend on them *)
  Theorem independent_of_after a l f :
    fst (ladder (mkApp (before a) l (shandlers a) (ehandlers a) (digest_auth a)) f)
    = fst (ladder a f).
  Proof. destruct a. reflexivity. Qed.

  (* a failure inside a status or exception handler degrades to the 500 page *)
  Theorem handler_failure_is_500 h :
    (exists cls, h = Throw cls) \/ h = ThrowConn \/ h = ThrowExit \/
    (exists v e, h = Ret v /\ to_response v = Exc e) ->
    handler_result h = ise.
  Proof.
    unfold handler_result.
    intros [[c ->]|[->|[->|(v & e & -> & E)]]]; cbn [call is_http]; try reflexivity.
    rewrite E. reflexivity.
  Qed.

  (* ---------------------------------------------------------------- *)
  (* C05: shapes *)

  Theorem str_is_utf8 s b :
    utf8 s = Some b ->
    to_response (PStr s) = Val (mkResp CBase 200 [xpb] html (Z.of_nat (List.length b)) [b]).
  Proof.
    intros E. unfold Dispatch.to_response, Dispatch.make_response.
    cbn [mk_headers mk_status mk_ctype]. rewrite status_200.
    assert (Hh : utf8 html <> None) by (vm_compute; discriminate).
    destruct (utf8 html) eqn:Eh; [|contradiction]. rewrite E. reflexivity.
  Qed.

  Theorem bytes_verbatim b :
    to_response (PBytes b) = Val (mkResp CBase 200 [xpb] html (Z.of_nat (List.length b)) [b]).
  Proof.
    unfold Dispatch.to_response, Dispatch.make_response.
    cbn [mk_headers mk_status mk_ctype]. rewrite status_200.
    assert (Hh : utf8 html <> None) by (vm_compute; discriminate).
    destruct (utf8 html) eqn:Eh; [|contradiction]. reflexivity.
  Qed.

  Definition json_ct := s2l "application/json; charset=utf-8".

  Theorem dict_is_json j b :
    utf8 j = Some b ->
    to_response (PDict (Some j))
    = Val (mkResp CBase 200 [xpb] json_ct (Z.of_nat (List.length b)) [b]).
  Proof.
    intros E. unfold Dispatch.to_response, Dispatch.make_response.
    cbn [mk_headers mk_status]. rewrite status_200, E. reflexivity.
  Qed.

  Theorem list_is_json j b :
    utf8 j = Some b ->
    to_response (PListJson (Some j))
    = Val (mkResp CBase 200 [xpb] json_ct (Z.of_nat (List.length b)) [b]).
  Proof.
    intros E. unfold Dispatch.to_response, Dispatch.make_response.
    cbn [mk_headers mk_status]. rewrite status_200, E. reflexivity.
  Qed.

  Theorem none_is_204 :
    to_response PNone = Val (mkResp CNoContent 204 [xpb] [] 0 []).
  Proof.
    unfold Dispatch.to_response, Dispatch.make_response.
    cbn [mk_headers mk_status]. rewrite status_200. reflexivity.
  Qed.

  Theorem none_keeps_given_status st :
    known_status st = true -> st <> 200 ->
    to_response (PTuple [PNone; PStr html; PNone; PInt st])
    = Val (mkResp CNoContent st [xpb] [] 0 []).
  Proof.
    intros Hk Hn. unfold Dispatch.to_response, Dispatch.make_response.
    cbn [mk_headers mk_status]. rewrite Hk.
    replace (st =? 200) with false by (symmetry; apply Z.eqb_neq; assumption).
    reflexivity.
  Qed.

  Theorem iter_in_order ch :
    to_response (PIter ch) = Val (mkResp CBase 200 [xpb] html 0 ch).
  Proof.
    unfold Dispatch.to_response, Dispatch.make_response.
    cbn [mk_headers mk_status mk_ctype]. rewrite status_200.
    assert (Hh : utf8 html <> None) by (vm_compute; discriminate).
    destruct (utf8 html) eqn:Eh; [|contradiction]. reflexivity.
  Qed.

  Theorem tuple_sets_exactly b ct hs hs' st :
    utf8 ct <> None -> iso_pairs hs = Some hs' -> known_status st = true ->
    to_response (PTuple [PBytes b; PStr ct; PHdrs (Some hs); PInt st])
    = Val (mkResp CBase st hs' ct (Z.of_nat (List.length b)) [b]).
  Proof.
    intros Hc Hh Hs. unfold Dispatch.to_response, Dispatch.make_response.
    cbn [mk_headers mk_status mk_ctype]. rewrite Hh, Hs.
    destruct (utf8 ct); [reflexivity|contradiction].
  Qed.

  Theorem garbage_is_response_error v :
    v = PObj \/ (exists z, v = PInt z) \/ v = PDict None \/ v = PListJson None ->
    to_response v = Exc ERespErr.
  Proof.
    intros [-> | [[z ->] | [-> | ->]]]; unfold Dispatch.to_response, Dispatch.make_response;
      cbn [mk_headers mk_status]; rewrite status_200; reflexivity.
  Qed.

  (* ... and an endpoint returning it is answered by the 500 resolution *)
  Theorem garbage_is_500 a f v :
    fconstruct f = None -> fleaf f = LEndpoint (Ret v) ->
    first_fail (before a) = None -> to_response v = Exc ERespErr ->
    fst (ladder a f) = P1Resp (status_response a (fmethod f) 500).
  Proof.
    intros Hc Hl Hb Hv. unfold Dispatch.ladder, Dispatch.try_body.
    rewrite Hc, Hl, run_before_spec, Hb. cbn [call]. rewrite Hv. cbn [is_http].
    pose proof (state_from_table_spec a (fmethod f) 500) as Hs.
    destruct (state_from_table a (fmethod f) 500) as [y ev2]. cbn [fst] in *.
    subst y. reflexivity.
  Qed.

  (* every header present on the response object is emitted unchanged, in
     order, for every class that answers; the framework appends at most
     Content-Type and Content-Length, each only when no header of that name
     is present *)
  Theorem headers_preserved r :
    rcls r <> CDeclined ->
    exists extra, calls (emit r) = [(status_line reason (rstatus r), rhdrs r ++ extra)] /\
      (forall h, In h extra ->
         (fst h = s2l "Content-Type" /\ has_hdr (s2l "Content-Type") (rhdrs r) = false) \/
         (fst h = s2l "Content-Length" /\ has_hdr (s2l "Content-Length") (rhdrs r) = false
          /\ snd h = dec (rclen r))) /\
      (rcls r = CNoContent \/ rstatus r = 304 -> extra = []).
  Proof.
    intros Hd. unfold Dispatch.emit. destruct (rcls r) eqn:Ec; [| |contradiction].
    - destruct (rstatus r =? 304) eqn:E3; cbn [calls].
      + exists []. rewrite app_nil_r. repeat split; auto. intros h [].
      + apply Z.eqb_neq in E3.
        set (h2 := match rctype r with
                   | [] => rhdrs r
                   | z :: l => if has_hdr (s2l "Content-Type") (rhdrs r) then rhdrs r
                               else rhdrs r ++ [(s2l "Content-Type", iso (z :: l))]
                   end).
        assert (H2 : exists e2, h2 = rhdrs r ++ e2 /\
                  (e2 = [] \/ (e2 = [(s2l "Content-Type", iso (rctype r))] /\
                               has_hdr (s2l "Content-Type") (rhdrs r) = false))).
        { unfold h2. destruct (rctype r); [exists []; rewrite app_nil_r; auto|].
          destruct (has_hdr (s2l "Content-Type") (rhdrs r)) eqn:Eh;
            [exists []; rewrite app_nil_r; auto|].
          eexists. split; [reflexivity|]. right. auto. }
        destruct H2 as (e2 & -> & He2).
        assert (Hcl : has_hdr (s2l "Content-Length") (rhdrs r ++ e2)
                      = has_hdr (s2l "Content-Length") (rhdrs r)).
        { destruct He2 as [->|[-> _]]; [rewrite app_nil_r; reflexivity|].
          unfold has_hdr. induction (rhdrs r) as [|[k v] l IH]; cbn [List.app hdr_get].
          - vm_compute. reflexivity.
          - destruct (lz_eqb (lower k) (lower (s2l "Content-Length"))); [reflexivity|exact IH]. }
        destruct (rclen r =? 0).
        * exists e2. split; [reflexivity|]. split.
          -- intros h Hin. destruct He2 as [->|[-> Hn]]; [destruct Hin|].
             destruct Hin as [Heq|[]]; subst h. left. auto.
          -- intros [H|H]; [discriminate|contradiction].
        * rewrite Hcl. destruct (has_hdr (s2l "Content-Length") (rhdrs r)) eqn:Ehl.
          -- exists e2. split; [reflexivity|]. split.
             ++ intros h Hin. destruct He2 as [->|[-> Hn]]; [destruct Hin|].
                destruct Hin as [Heq|[]]; subst h. left. auto.
             ++ intros [H|H]; [discriminate|contradiction].
          -- exists (e2 ++ [(s2l "Content-Length", dec (rclen r))]).
             rewrite app_assoc. split; [reflexivity|]. split.
             ++ intros h Hin. apply in_app_or in Hin. destruct Hin as [Hin|[Heq|[]]].
                ** destruct He2 as [->|[-> Hn]]; [destruct Hin|].
                   destruct Hin as [Heq|[]]; subst h. left. auto.
                ** subst h. right. auto.
             ++ intros [H|H]; [discriminate|contradiction].
    - cbn [calls]. exists []. rewrite app_nil_r. repeat split; auto. intros h [].
  Qed.
End W.
