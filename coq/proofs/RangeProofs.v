From Coq Require Import ZArith List Bool Lia.
Require Import PW.lib.Val PW.lib.ValFacts PW.lib.Dec PW.model.Range.
Import ListNotations.
Open Scope Z_scope.

(* ------------------------------------------------------------------ *)
(* list helpers over Z indices *)

Lemma zlen_nonneg {A} (l : list A) : 0 <= zlen l.
Proof. unfold zlen. lia. Qed.

Lemma zlen_app {A} (a b : list A) : zlen (a ++ b) = zlen a + zlen b.
Proof. unfold zlen. rewrite app_length. lia. Qed.

Lemma zlen_cons {A} (x : A) l : zlen (x :: l) = 1 + zlen l.
Proof. unfold zlen. cbn [length]. lia. Qed.

Lemma ztake_all {A} n (l : list A) : zlen l <= n -> ztake n l = l.
Proof. unfold ztake, zlen. intros H. apply firstn_all2. lia. Qed.

Lemma ztake_nonpos {A} n (l : list A) : n <= 0 -> ztake n l = [].
Proof. unfold ztake. intros H. replace (Z.to_nat n) with 0%nat by lia. reflexivity. Qed.

Lemma zdrop_nonpos {A} n (l : list A) : n <= 0 -> zdrop n l = l.
Proof. unfold zdrop. intros H. replace (Z.to_nat n) with 0%nat by lia. reflexivity. Qed.

Lemma zdrop_cons {A} n (x : A) l : 1 <= n -> zdrop n (x :: l) = zdrop (n - 1) l.
Proof.
  unfold zdrop. intros H.
  replace (Z.to_nat n) with (S (Z.to_nat (n - 1))) by lia. reflexivity.
Qed.

Lemma ztake_cons {A} n (x : A) l : 1 <= n -> ztake n (x :: l) = x :: ztake (n - 1) l.
Proof.
  unfold ztake. intros H.
  replace (Z.to_nat n) with (S (Z.to_nat (n - 1))) by lia. reflexivity.
Qed.

Lemma zlen_zdrop {A} n (l : list A) : 0 <= n <= zlen l -> zlen (zdrop n l) = zlen l - n.
Proof. unfold zlen, zdrop. intros H. rewrite skipn_length. lia. Qed.

Lemma zlen_ztake {A} n (l : list A) : 0 <= n <= zlen l -> zlen (ztake n l) = n.
Proof. unfold zlen, ztake. intros H. rewrite firstn_length. lia. Qed.

(* ------------------------------------------------------------------ *)
(* selection by absolute index: the elements of l, whose first element has
   absolute index i, that lie in [s, e] (e = None: no upper bound) *)

Definition in_window (i s : Z) (e : option Z) : bool :=
  (s <=? i) && match e with Some en => i <=? en | None => true end.

Fixpoint sel (l : list Z) (i s : Z) (e : option Z) : list Z :=
  match l with
  | [] => []
  | x :: l' => (if in_window i s e then [x] else []) ++ sel l' (i + 1) s e
  end.

Lemma sel_app a : forall b i s e,
  sel (a ++ b) i s e = sel a i s e ++ sel b (i + zlen a) s e.
Proof.
  induction a as [|x a IH]; intros b i s e.
  - cbn [app sel]. unfold zlen. cbn [length]. rewrite Z.add_0_r. reflexivity.
  - cbn [app sel]. rewrite IH, zlen_cons, <- app_assoc.
    replace (i + 1 + zlen a) with (i + (1 + zlen a)) by lia. reflexivity.
Qed.

Lemma sel_before l : forall i s e, i + zlen l <= s -> sel l i s e = [].
Proof.
  induction l as [|x l IH]; intros i s e H; [reflexivity|].
  rewrite zlen_cons in H. pose proof (zlen_nonneg l).
  cbn [sel]. unfold in_window.
  replace (s <=? i) with false by (symmetry; apply Z.leb_gt; lia).
  cbn [andb app]. apply IH. lia.
Qed.

Lemma sel_after l : forall i s en, en < i -> sel l i s (Some en) = [].
Proof.
  induction l as [|x l IH]; intros i s en H; [reflexivity|].
  cbn [sel]. unfold in_window.
  replace (i <=? en) with false by (symmetry; apply Z.leb_gt; lia).
  rewrite andb_false_r. cbn [app]. apply IH. lia.
Qed.

(* closed form of sel with take/drop *)
Definition lo (i s : Z) : Z := Z.max 0 (s - i).
Definition hi (l : list Z) (i : Z) (e : option Z) : Z :=
  match e with Some en => Z.max 0 (en + 1 - i) | None => zlen l end.

Lemma sel_take_drop l : forall i s e,
  sel l i s e = ztake (hi l i e - lo i s) (zdrop (lo i s) l).
Proof.
  induction l as [|x l IH]; intros i s e.
  - cbn [sel]. unfold ztake, zdrop. rewrite skipn_nil, firstn_nil. reflexivity.
  - cbn [sel]. rewrite IH. unfold in_window, lo.
    pose proof (zlen_nonneg l) as Hl.
    destruct (s <=? i) eqn:Es.
    + apply Z.leb_le in Es.
      replace (Z.max 0 (s - i)) with 0 by lia.
      replace (Z.max 0 (s - (i + 1))) with 0 by lia.
      rewrite !zdrop_nonpos by lia. rewrite !Z.sub_0_r.
      destruct e as [en|]; cbn [hi andb].
      * destruct (i <=? en) eqn:Ee.
        -- apply Z.leb_le in Ee. cbn [app].
           rewrite ztake_cons by lia. f_equal. f_equal. lia.
        -- apply Z.leb_gt in Ee. cbn [app].
           rewrite !ztake_nonpos by lia. reflexivity.
      * cbn [app]. rewrite zlen_cons. rewrite ztake_cons by lia.
        f_equal. f_equal. lia.
    + apply Z.leb_gt in Es. cbn [andb app].
      rewrite (zdrop_cons (Z.max 0 (s - i))) by lia.
      replace (Z.max 0 (s - i) - 1) with (Z.max 0 (s - (i + 1))) by lia.
      destruct e as [en|]; cbn [hi].
      * destruct (Z_le_gt_dec (en + 1 - i) 0).
        -- rewrite !ztake_nonpos by lia. reflexivity.
        -- f_equal. lia.
      * rewrite zlen_cons. f_equal. lia.
Qed.

(* ------------------------------------------------------------------ *)
(* C07: the window computed by the code is the RFC 9110 window *)

Definition valid_range (r : range) : Prop :=
  match r with
  | (Some f, Some l) => 0 <= f <= l
  | (Some f, None) => 0 <= f
  | (None, Some n) => 0 <= n
  | (None, None) => False
  end.

Definition window_agrees (L : Z) (w : window) (o : rfc) : Prop :=
  match w, o with
  | W206 s e crs cre n, R206 f l =>
      s = f /\ crs = f /\ cre = l /\ n = l - f + 1 /\ 0 <= f <= l /\ l < L /\
      (e = Some l \/ (e = None /\ l = L - 1))
  | W416 _ _, R416 => True
  | _, _ => False
  end.

Lemma truthy_pos z : 0 <= z -> truthy z = (0 <? z).
Proof.
  intros H. unfold truthy. destruct (z =? 0) eqn:E.
  - apply Z.eqb_eq in E. subst. reflexivity.
  - apply Z.eqb_neq in E. cbn [negb]. symmetry. apply Z.ltb_lt. lia.
Qed.

Theorem window_is_rfc L r :
  0 <= L -> valid_range r -> window_agrees L (range_window L r) (rfc_range L r).
Proof.
  intros HL Hv. destruct r as [[f|] [l|]]; cbn [valid_range] in Hv; try contradiction.
  - (* first-last *)
    unfold range_window, rfc_range. rewrite truthy_pos by lia.
    destruct (0 <? L) eqn:EL.
    + apply Z.ltb_lt in EL. rewrite truthy_pos by lia.
      destruct (f <? L) eqn:Ef.
      * apply Z.ltb_lt in Ef.
        replace (0 <? Z.max 0 (Z.min (L - 1) l - f + 1)) with true
          by (symmetry; apply Z.ltb_lt; lia).
        cbn [window_agrees]. repeat split; try lia. left. f_equal. lia.
      * apply Z.ltb_ge in Ef.
        replace (0 <? Z.max 0 (Z.min (L - 1) l - f + 1)) with false
          by (symmetry; apply Z.ltb_ge; lia).
        exact I.
    + apply Z.ltb_ge in EL.
      replace (f <? L) with false by (symmetry; apply Z.ltb_ge; lia). exact I.
  - (* first- *)
    unfold range_window, rfc_range. rewrite truthy_pos by lia.
    destruct (0 <? L) eqn:EL.
    + apply Z.ltb_lt in EL. rewrite truthy_pos by lia.
      destruct (f <? L) eqn:Ef.
      * apply Z.ltb_lt in Ef.
        replace (0 <? Z.max 0 (L - f)) with true by (symmetry; apply Z.ltb_lt; lia).
        cbn [window_agrees]. repeat split; try lia. right. split; reflexivity.
      * apply Z.ltb_ge in Ef.
        replace (0 <? Z.max 0 (L - f)) with false by (symmetry; apply Z.ltb_ge; lia).
        exact I.
    + apply Z.ltb_ge in EL.
      replace (f <? L) with false by (symmetry; apply Z.ltb_ge; lia). exact I.
  - (* -suffix *)
    unfold range_window, rfc_range. rewrite truthy_pos by lia.
    destruct (0 <? L) eqn:EL.
    + apply Z.ltb_lt in EL. rewrite truthy_pos by lia.
      replace (L =? 0) with false by (symmetry; apply Z.eqb_neq; lia).
      rewrite orb_false_r.
      destruct (l =? 0) eqn:El.
      * apply Z.eqb_eq in El. subst l.
        replace (0 <? Z.max 0 (L - (L - Z.min L 0))) with false
          by (symmetry; apply Z.ltb_ge; lia).
        exact I.
      * apply Z.eqb_neq in El.
        replace (0 <? Z.max 0 (L - (L - Z.min L l))) with true
          by (symmetry; apply Z.ltb_lt; lia).
        cbn [window_agrees]. repeat split; try lia. right. split; reflexivity.
    + apply Z.ltb_ge in EL. assert (L = 0) by lia. subst L.
      rewrite Z.eqb_refl, orb_true_r. exact I.
Qed.

(* body selected by Response / FileObjResponse = the RFC slice *)
Lemma slice_from_rfc repr s e f l :
  s = f -> 0 <= f <= l -> l < zlen repr ->
  (e = Some l \/ (e = None /\ l = zlen repr - 1)) ->
  slice_from repr s e = rfc_slice repr f l.
Proof.
  intros -> Hf Hl [->|[-> Hll]]; unfold slice_from, rfc_slice; [reflexivity|].
  symmetry. apply ztake_all. rewrite zlen_zdrop by lia. lia.
Qed.

Lemma zlen_rfc_slice repr f l :
  0 <= f <= l -> l < zlen repr -> zlen (rfc_slice repr f l) = l - f + 1.
Proof.
  intros Hf Hl. unfold rfc_slice. rewrite zlen_ztake; [reflexivity|].
  rewrite zlen_zdrop by lia. lia.
Qed.

(* make_partial keeps only consistent ranges that were supplied *)
Lemma make_partial_from_In acc rs : forall r,
  In r (make_partial_from acc rs) -> In r acc \/ (In r rs /\ inconsistent r = false).
Proof.
  revert acc. induction rs as [|x rs IH]; intros acc r H; cbn [make_partial_from] in H.
  - left. exact H.
  - destruct (inconsistent x) eqn:Ei.
    + destruct (IH _ _ H) as [?|[? ?]]; [left; assumption|right; split; [right|]; assumption].
    + destruct (existsb (range_eqb x) acc).
      * destruct (IH _ _ H) as [?|[? ?]]; [left; assumption|right; split; [right|]; assumption].
      * destruct (IH _ _ H) as [Hin|[? ?]].
        -- apply in_app_or in Hin. destruct Hin as [?|[->|[]]]; [left; assumption|].
           right. split; [left; reflexivity|assumption].
        -- right. split; [right|]; assumption.
Qed.

Definition sane_range (r : range) : Prop :=
  match r with
  | (Some f, Some l) => 0 <= f /\ 0 <= l
  | (Some f, None) => 0 <= f
  | (None, Some n) => 0 <= n
  | (None, None) => False
  end.

Lemma make_partial_valid rs :
  Forall sane_range rs -> Forall valid_range (make_partial rs).
Proof.
  intros Hs. apply Forall_forall. intros r Hr.
  apply make_partial_from_In in Hr. destruct Hr as [[]|[Hin Hc]].
  rewrite Forall_forall in Hs. specialize (Hs _ Hin).
  destruct r as [[f|] [l|]]; cbn in *; try assumption.
  apply Z.ltb_ge in Hc. lia.
Qed.

(* the answer an RFC 9110 server gives for representation [repr] and the
   first usable range *)
Definition rfc_answer (repr : list Z) (ranges : list range) : answer :=
  let L := zlen repr in
  match ranges with
  | [] => {| status := 200; content_range := None;
             content_length := clen_header L; body := repr |}
  | r :: _ =>
      match rfc_range L r with
      | R206 f l =>
          {| status := 206;
             content_range := Some (content_range_text (dec f) (dec l) L);
             content_length := Some (dec (l - f + 1));
             body := rfc_slice repr f l |}
      | _ => answer_416 L (fst r) (snd r)
      end
  end.

Theorem emit_known_is_rfc repr ranges :
  Forall valid_range ranges ->
  emit_known repr (zlen repr) ranges = rfc_answer repr ranges.
Proof.
  intros Hv. unfold emit_known, rfc_answer. destruct ranges as [|r rs]; [reflexivity|].
  inversion Hv as [|? ? Hr _]; subst.
  pose proof (window_is_rfc (zlen repr) r (zlen_nonneg repr) Hr) as Hw.
  destruct (range_window (zlen repr) r) as [s e crs cre n|s e] eqn:Ew;
    destruct (rfc_range (zlen repr) r) as [|f l|] eqn:Eo; cbn [window_agrees] in Hw;
    try contradiction.
  - destruct Hw as (-> & -> & -> & -> & Hf & Hl & He).
    f_equal. apply slice_from_rfc; auto.
  - (* 416: the code reports ranges[0] *)
    destruct r as [r1 r2]. unfold range_window in Ew.
    cbn [fst snd].
    repeat match type of Ew with
           | context [match ?x with _ => _ end] => destruct x
           end; try discriminate; injection Ew as <- <-; reflexivity.
Qed.

(* ------------------------------------------------------------------ *)
(* C07: the chunk generator yields exactly the slice, for every chunking *)

Lemma pyslice_sel data pos s e :
  0 <= pos -> s < pos + zlen data ->
  match e with Some en => pos <= en | None => True end ->
  pyslice data (if pos <? s then s - pos else 0)
          (match e with
           | Some en => if en <? pos + zlen data then en + 1 - pos else zlen data
           | None => zlen data end)
  = sel data pos s e.
Proof.
  intros Hp Hs He. rewrite sel_take_drop. unfold pyslice, norm_idx, lo.
  pose proof (zlen_nonneg data) as Hl.
  set (len := zlen data) in *.
  assert (Ea : (if pos <? s then s - pos else 0) = Z.max 0 (s - pos)).
  { destruct (pos <? s) eqn:E; [apply Z.ltb_lt in E|apply Z.ltb_ge in E]; lia. }
  rewrite Ea.
  replace (Z.max 0 (s - pos) <? 0) with false by (symmetry; apply Z.ltb_ge; lia).
  replace (Z.min (Z.max 0 (s - pos)) len) with (Z.max 0 (s - pos)) by lia.
  destruct e as [en|]; cbn [hi].
  - destruct (en <? pos + len) eqn:E.
    + apply Z.ltb_lt in E.
      replace (en + 1 - pos <? 0) with false by (symmetry; apply Z.ltb_ge; lia).
      replace (Z.min (en + 1 - pos) len) with (en + 1 - pos) by lia.
      replace (Z.max 0 (en + 1 - pos)) with (en + 1 - pos) by lia. reflexivity.
    + apply Z.ltb_ge in E.
      replace (len <? 0) with false by (symmetry; apply Z.ltb_ge; lia).
      replace (Z.min len len) with len by lia.
      rewrite !ztake_all; [reflexivity| |];
        rewrite zlen_zdrop by (fold len; lia); fold len; lia.
  - fold len. replace (len <? 0) with false by (symmetry; apply Z.ltb_ge; lia).
    replace (Z.min len len) with len by lia. reflexivity.
Qed.

Lemma range_gen_sel chunks : forall pos s e,
  0 <= pos ->
  match e with Some en => pos <= en /\ s <= en | None => True end ->
  concat (range_gen chunks pos s e) = sel (concat chunks) pos s e.
Proof.
  induction chunks as [|data rest IH]; intros pos s e Hp He; [reflexivity|].
  cbn [range_gen concat]. rewrite sel_app.
  pose proof (zlen_nonneg data) as Hl.
  destruct (pos + zlen data <=? s) eqn:Esk.
  - apply Z.leb_le in Esk. rewrite sel_before by lia. cbn [app].
    apply IH; [lia|]. destruct e as [en|]; [lia|exact I].
  - apply Z.leb_gt in Esk. cbn [concat].
    rewrite pyslice_sel; [|lia|lia|destruct e; [lia|exact I]].
    f_equal. destruct e as [en|].
    + destruct (en <? pos + zlen data) eqn:Een.
      * apply Z.ltb_lt in Een. rewrite sel_after by lia. reflexivity.
      * apply Z.ltb_ge in Een. apply IH; lia.
    + apply IH; [lia|exact I].
Qed.

Theorem generator_slice_exact chunks s e :
  0 <= s -> match e with Some en => s <= en | None => True end ->
  concat (range_gen chunks 0 s e) = slice_from (concat chunks) s e.
Proof.
  intros Hs He. rewrite range_gen_sel; [|lia|destruct e; [lia|exact I]].
  rewrite sel_take_drop. unfold slice_from, lo.
  replace (Z.max 0 (s - 0)) with s by lia.
  destruct e as [en|]; cbn [hi].
  - replace (Z.max 0 (en + 1 - 0) - s) with (en - s + 1) by lia. reflexivity.
  - pose proof (zlen_nonneg (concat chunks)).
    destruct (Z_le_gt_dec s (zlen (concat chunks))).
    + apply ztake_all. rewrite zlen_zdrop by lia. lia.
    + unfold zdrop. rewrite skipn_all2 by (unfold zlen in *; lia).
      unfold ztake. apply firstn_nil.
Qed.

(* the whole generator answer against the RFC answer for the concatenation *)
Definition gbody (a : ganswer) : list Z := concat (g_chunks a).
Definition g_as_answer (a : ganswer) : answer :=
  {| status := g_status a; content_range := g_content_range a;
     content_length := g_content_length a; body := gbody a |}.

Theorem generator_is_rfc chunks ranges :
  Forall sane_range ranges ->
  g_as_answer (generator_answer chunks (zlen (concat chunks)) ranges)
  = rfc_answer (concat chunks) (make_partial ranges).
Proof.
  intros Hs. pose proof (make_partial_valid ranges Hs) as Hv.
  unfold generator_answer, rfc_answer, g_as_answer, gbody.
  destruct (make_partial ranges) as [|r rs]; cbn [g_status g_content_range g_content_length g_chunks].
  - f_equal. rewrite generator_slice_exact by (try lia; exact I).
    unfold slice_from. apply zdrop_nonpos. lia.
  - inversion Hv as [|? ? Hr _]; subst.
    pose proof (window_is_rfc (zlen (concat chunks)) r (zlen_nonneg _) Hr) as Hw.
    destruct (range_window (zlen (concat chunks)) r) as [s e crs cre n|s e] eqn:Ew;
      destruct (rfc_range (zlen (concat chunks)) r) as [|f l|] eqn:Eo;
      cbn [window_agrees] in Hw; try contradiction;
      cbn [g_status g_content_range g_content_length g_chunks].
    + destruct Hw as (-> & -> & -> & -> & Hf & Hl & He).
      f_equal. rewrite generator_slice_exact.
      * apply slice_from_rfc; auto.
      * lia.
      * destruct He as [->|[-> _]]; [lia|exact I].
    + destruct r as [r1 r2]. unfold range_window in Ew. cbn [fst snd concat].
      unfold answer_416.
      repeat match type of Ew with
             | context [match ?x with _ => _ end] => destruct x
             end; try discriminate; injection Ew as <- <-; reflexivity.
Qed.

(* ------------------------------------------------------------------ *)
(* C06 *)

Fixpoint writes (ops : list rop) : list Z :=
  match ops with
  | [] => []
  | Write d :: ops' => d ++ writes ops'
  | ReadData :: ops' => writes ops'
  end.

Definition resp_inv (r : resp) : Prop :=
  pos r = zlen (buf r) /\ clen r = zlen (buf r).

Lemma bytesio_write_end b d : bytesio_write b (zlen b) d = b ++ d.
Proof.
  unfold bytesio_write. rewrite Z.leb_refl.
  rewrite ztake_all by lia. pose proof (zlen_nonneg d).
  unfold zdrop. rewrite skipn_all2 by (unfold zlen in *; lia).
  rewrite app_nil_r. reflexivity.
Qed.

Lemma resp_step_inv r o :
  resp_inv r -> resp_inv (resp_step r o) /\
  buf (resp_step r o) = buf r ++ match o with Write d => d | ReadData => [] end.
Proof.
  intros [Hp Hc]. destruct o as [d|]; cbn [resp_step buf pos clen].
  - rewrite Hp, bytesio_write_end. unfold resp_inv. cbn [buf pos clen].
    rewrite zlen_app. repeat split; lia.
  - unfold resp_inv. cbn [buf pos clen]. rewrite app_nil_r. auto.
Qed.

Theorem response_buffer init ops :
  let r := fold_left resp_step ops (resp_init init) in
  resp_inv r /\ buf r = init ++ writes ops.
Proof.
  cbn zeta.
  assert (G : forall ops r0, resp_inv r0 ->
            resp_inv (fold_left resp_step ops r0) /\
            buf (fold_left resp_step ops r0) = buf r0 ++ writes ops).
  { clear ops. induction ops as [|o ops IH]; intros r0 H0.
    - cbn [fold_left writes]. rewrite app_nil_r. auto.
    - cbn [fold_left]. destruct (resp_step_inv r0 o H0) as [H1 Hb].
      destruct (IH _ H1) as [H2 Hb2]. split; [assumption|].
      rewrite Hb2, Hb. destruct o; cbn [writes]; rewrite <- app_assoc; reflexivity. }
  apply G. unfold resp_inv, resp_init. cbn [buf pos clen]. auto.
Qed.

Theorem response_is_rfc init ops ranges :
  Forall sane_range ranges ->
  response_answer init ops ranges
  = rfc_answer (init ++ writes ops) (make_partial ranges).
Proof.
  intros Hs. unfold response_answer, resp_emit.
  destruct (response_buffer init ops) as [[_ Hc] Hb]. cbn zeta in *.
  rewrite Hc, Hb. apply emit_known_is_rfc. apply make_partial_valid. exact Hs.
Qed.

Theorem fileobj_is_rfc content p ranges :
  0 <= p <= zlen content -> Forall sane_range ranges ->
  fileobj_answer content p ranges
  = rfc_answer (zdrop p content) (make_partial ranges).
Proof.
  intros Hp Hs. unfold fileobj_answer.
  rewrite <- (zlen_zdrop p content Hp).
  apply emit_known_is_rfc. apply make_partial_valid. exact Hs.
Qed.

(* Content-Length of an RFC answer: emitted exactly when the body is
   non-empty, and then it is the decimal body length *)
Definition clen_ok (a : answer) : Prop :=
  content_length a =
  if 0 <? zlen (body a) then Some (dec (zlen (body a))) else None.

Lemma rfc_answer_clen repr ranges :
  Forall valid_range ranges -> clen_ok (rfc_answer repr ranges).
Proof.
  intros Hv. unfold clen_ok, rfc_answer.
  pose proof (zlen_nonneg repr) as Hl.
  destruct ranges as [|r rs].
  - cbn [content_length body]. unfold clen_header. rewrite truthy_pos by lia. reflexivity.
  - inversion Hv as [|? ? Hr _]; subst.
    pose proof (window_is_rfc (zlen repr) r Hl Hr) as Hw.
    destruct (rfc_range (zlen repr) r) as [|f l|] eqn:Eo.
    + unfold answer_416. cbn [content_length body]. reflexivity.
    + destruct (range_window (zlen repr) r); cbn [window_agrees] in Hw; try contradiction.
      destruct Hw as (_ & _ & _ & _ & Hf & Hll & _).
      cbn [content_length body]. rewrite zlen_rfc_slice by lia.
      replace (0 <? l - f + 1) with true by (symmetry; apply Z.ltb_lt; lia). reflexivity.
    + unfold answer_416. cbn [content_length body]. reflexivity.
Qed.

Theorem response_clen init ops ranges :
  Forall sane_range ranges -> clen_ok (response_answer init ops ranges).
Proof.
  intros Hs. rewrite response_is_rfc by assumption.
  apply rfc_answer_clen, make_partial_valid, Hs.
Qed.

Theorem fileobj_clen content p ranges :
  0 <= p <= zlen content -> Forall sane_range ranges ->
  clen_ok (fileobj_answer content p ranges).
Proof.
  intros Hp Hs. rewrite fileobj_is_rfc by assumption.
  apply rfc_answer_clen, make_partial_valid, Hs.
Qed.

Theorem generator_clen chunks ranges :
  Forall sane_range ranges ->
  clen_ok (g_as_answer (generator_answer chunks (zlen (concat chunks)) ranges)).
Proof.
  intros Hs. rewrite generator_is_rfc by assumption.
  apply rfc_answer_clen, make_partial_valid, Hs.
Qed.

(* decimal Content-Length is non-negative and parses back *)
Lemma clen_ok_value a v :
  clen_ok a -> content_length a = Some v -> val v = zlen (body a) /\ 0 < zlen (body a).
Proof.
  unfold clen_ok. intros H E. rewrite E in H.
  destruct (0 <? zlen (body a)) eqn:Ep; [|discriminate].
  injection H as ->. apply Z.ltb_lt in Ep. split; [|assumption].
  apply val_dec. lia.
Qed.

(* non-vacuity *)
Example range_example :
  response_answer [48;49;50;51;52] [Write [53;54]; ReadData; Write [55]]
                  [(Some 6, Some 2); (Some 1, Some 3); (None, Some 2)]
  = rfc_answer [48;49;50;51;52;53;54;55] [(Some 1, Some 3); (None, Some 2)]
  /\ body (response_answer [48;49;50;51;52] [Write [53;54]] [(None, Some 3)]) = [52;53;54]
  /\ status (response_answer [48] [] [(Some 1, None)]) = 416.
Proof. repeat split; vm_compute; reflexivity. Qed.
