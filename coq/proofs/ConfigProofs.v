(* Facts about the configuration map of model/Config.v. *)
From Coq Require Import List String Bool ZArith.
Require Import PW.lib.PyConfig PW.model.Config.
Import ListNotations.

Section ConfigProofs.
  Variable ios : int_parser.

  (* an accepted assignment: the key holds the coercion of the value *)
  Theorem cfg_set_same k v c w :
    coerce_key ios k v = Some w ->
    cfg_set ios k v c k = w /\ cfg_get k (cfg_set ios k v c) = view k w.
  Proof.
    intros H. unfold cfg_get, cfg_set, cfg_try_set. rewrite H. simpl.
    unfold upd. destruct (ckey_eq_dec k k) as [_|N]; [auto|now elim N].
  Qed.

  (* frame: every other key is unchanged (accepted or not) *)
  Theorem cfg_set_other k v c k' :
    k' <> k -> cfg_set ios k v c k' = c k'.
  Proof.
    intros N. unfold cfg_set, cfg_try_set.
    destruct (coerce_key ios k v); simpl; [|reflexivity].
    unfold upd. destruct (ckey_eq_dec k' k); [contradiction|reflexivity].
  Qed.

  (* a refused value changes nothing *)
  Theorem cfg_set_refused k v c :
    coerce_key ios k v = None -> cfg_set ios k v c = c.
  Proof.
    intros H. unfold cfg_set, cfg_try_set. now rewrite H.
  Qed.

  Lemma cfg_set_at k v c k' :
    cfg_set ios k v c k' =
    if ckey_eq_dec k' k
    then match coerce_key ios k v with Some w => w | None => c k' end
    else c k'.
  Proof.
    destruct (ckey_eq_dec k' k) as [E|N].
    - subst k'. destruct (coerce_key ios k v) eqn:H.
      + now apply cfg_set_same.
      + now rewrite cfg_set_refused.
    - now apply cfg_set_other.
  Qed.

  (* after any list of assignments a key holds the coercion of the last
     accepted value assigned to it, or its old value when there was none *)
  Theorem run_ops_last_accepted ops c k :
    run_ops ios ops c k =
    match last_accepted ios k ops with Some w => w | None => c k end.
  Proof.
    induction ops as [|o ops IH] using rev_ind; [reflexivity|].
    unfold run_ops, last_accepted in *. rewrite !fold_left_app. simpl.
    rewrite cfg_set_at. destruct (ckey_eq_dec k (fst o)) as [E|N].
    - subst k. destruct (ckey_eq_dec (fst o) (fst o)) as [_|N]; [|now elim N].
      destruct (coerce_key ios (fst o) (snd o)); [reflexivity|exact IH].
    - destruct (ckey_eq_dec (fst o) k) as [E|_]; [now elim N|exact IH].
  Qed.

  (* the getters of the two On/Off keys answer the truth value assigned *)
  Corollary cfg_get_on_off k v c :
    kind k = Some COnOff ->
    cfg_get k (cfg_set ios k v c) = VBool (py_truthy v).
  Proof.
    intros Hk.
    assert (H : coerce_key ios k v =
                Some (VStr (if py_truthy v then "On" else "Off")%string)).
    { unfold coerce_key. now rewrite Hk. }
    destruct (cfg_set_same k v c _ H) as [_ ->].
    destruct k; try discriminate Hk; unfold view; simpl;
      now destruct (py_truthy v).
  Qed.

  (* what the two validating coercions accept *)
  Lemma coerce_timeout_accepts v :
    coerce ios CTimeout v = Some v <->
    (v = VNone \/ (exists b, v = VBool b) \/ exists z, v = VInt z).
  Proof.
    destruct v; simpl; split; intros H; try discriminate; eauto;
      destruct H as [H|[[? H]|[? H]]]; discriminate.
  Qed.

  Lemma coerce_refused_or_same c v w :
    (c = CKeep \/ c = CQop \/ c = CTimeout) ->
    coerce ios c v = Some w -> w = v.
  Proof.
    intros [->|[->| ->]]; unfold coerce; intros H.
    - congruence.
    - destruct (existsb (py_eqb v) _); congruence.
    - destruct (existsb (py_has_type v) _); congruence.
  Qed.
End ConfigProofs.
