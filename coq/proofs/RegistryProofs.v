(* Proofs for C19: the registry model refines the declarative specification
   for every sequence of calls. *)
From Coq Require Import ZArith List Bool String Lia.
Require Import PW.lib.Val PW.lib.ValFacts PW.model.Registry.
Import ListNotations.
Open Scope Z_scope.

(* ------------------------------------------------------------ dict facts *)
Section DictFacts.
  Variables (K A : Type) (eqb : K -> K -> bool).
  Hypothesis eqb_eq : forall a b, eqb a b = true <-> a = b.

  Lemma eqb_rfl k : eqb k k = true.
  Proof. apply eqb_eq. reflexivity. Qed.

  Lemma eqb_trans_false k k' k0 :
    eqb k k0 = false -> eqb k' k0 = true -> eqb k' k = true -> False.
  Proof.
    intros E E1 E2. apply eqb_eq in E1, E2. subst.
    rewrite eqb_rfl in E. discriminate.
  Qed.

  Lemma get_setv k (v : A) k' l :
    get eqb k' (setv eqb k v l) = if eqb k' k then Some v else get eqb k' l.
  Proof.
    induction l as [|[k0 v0] r IH]; cbn [setv get].
    - reflexivity.
    - destruct (eqb k k0) eqn:E; cbn [get].
      + apply eqb_eq in E. subst k0. destruct (eqb k' k); reflexivity.
      + rewrite IH.
        destruct (eqb k' k0) eqn:E1, (eqb k' k) eqn:E2; try reflexivity.
        exfalso. eapply eqb_trans_false; eassumption.
  Qed.

  Lemma get_del k k' (l : list (K * A)) :
    get eqb k' (del eqb k l) = if eqb k' k then None else get eqb k' l.
  Proof.
    induction l as [|[k0 v0] r IH]; cbn [del get].
    - destruct (eqb k' k); reflexivity.
    - destruct (eqb k k0) eqn:E; cbn [get].
      + rewrite IH. apply eqb_eq in E. subst k0.
        destruct (eqb k' k); reflexivity.
      + rewrite IH.
        destruct (eqb k' k0) eqn:E1, (eqb k' k) eqn:E2; try reflexivity.
        exfalso. eapply eqb_trans_false; eassumption.
  Qed.

  Lemma get_in k (l : list (K * A)) v : get eqb k l = Some v -> In (k, v) l.
  Proof.
    induction l as [|[k0 v0] r IH]; cbn [get]; [discriminate|].
    destruct (eqb k k0) eqn:E.
    - intros H. injection H as ->. apply eqb_eq in E. subst. left. reflexivity.
    - intros H. right. auto.
  Qed.

  Lemma del_setv k (v : A) l : del eqb k (setv eqb k v l) = del eqb k l.
  Proof.
    induction l as [|[k0 v0] r IH]; cbn [setv del].
    - rewrite eqb_rfl. reflexivity.
    - destruct (eqb k k0) eqn:E; cbn [del]; rewrite E; [reflexivity|].
      rewrite IH. reflexivity.
  Qed.

  Lemma setv_setv_absent k (v w : A) l :
    get eqb k l = None -> setv eqb k v (setv eqb k w l) = setv eqb k v l.
  Proof.
    induction l as [|[k0 v0] r IH]; cbn [setv get].
    - rewrite eqb_rfl. reflexivity.
    - destruct (eqb k k0) eqn:E; [discriminate|]. intros G.
      cbn [setv]. rewrite E, IH by assumption. reflexivity.
  Qed.

  Lemma Forall_setv (P : K * A -> Prop) k v l :
    Forall P l -> P (k, v) -> (forall k' v', P (k', v') -> P (k', v)) ->
    Forall P (setv eqb k v l).
  Proof.
    intros Hl Hk Hupd. induction l as [|[k0 v0] r IH]; cbn [setv].
    - constructor; [assumption|constructor].
    - inversion Hl; subst. destruct (eqb k k0); constructor; eauto.
  Qed.

  Lemma Forall_del (P : K * A -> Prop) k l :
    Forall P l -> Forall P (del eqb k l).
  Proof.
    intros Hl. induction l as [|[k0 v0] r IH]; cbn [del]; [constructor|].
    inversion Hl; subst. destruct (eqb k k0); [|constructor]; auto.
  Qed.
End DictFacts.

Lemma zget_zset {A} k (v : A) k' l :
  zget k' (zset k v l) = if k' =? k then Some v else zget k' l.
Proof. apply get_setv. apply Z.eqb_eq. Qed.

Lemma zget_zdel {A} k k' (l : list (Z * A)) :
  zget k' (zdel k l) = if k' =? k then None else zget k' l.
Proof. apply get_del. apply Z.eqb_eq. Qed.

Lemma zget_in {A} k (l : list (Z * A)) v : zget k l = Some v -> In (k, v) l.
Proof. apply get_in. apply Z.eqb_eq. Qed.

Lemma zdel_zset {A} k (v : A) l : zdel k (zset k v l) = zdel k l.
Proof. apply del_setv. apply Z.eqb_eq. Qed.

Lemma zset_zset_absent {A} k (v w : A) l :
  zget k l = None -> zset k v (zset k w l) = zset k v l.
Proof. apply setv_setv_absent. apply Z.eqb_eq. Qed.

Lemma zmem_zget {A} k (l : list (Z * A)) :
  zmem k l = match zget k l with Some _ => true | None => false end.
Proof. reflexivity. Qed.

Lemma inb_In x l : inb x l = true <-> In x l.
Proof.
  unfold inb. rewrite existsb_exists. split.
  - intros (y & Hy & E). apply Z.eqb_eq in E. subst. assumption.
  - intros H. exists x. split; [assumption|apply Z.eqb_refl].
Qed.

Lemma inb_nIn x l : inb x l = false <-> ~ In x l.
Proof.
  rewrite <- inb_In. destruct (inb x l); split; intros; try discriminate;
    try reflexivity; try (intro; discriminate). exfalso. auto.
Qed.

(* ------------------------------------------------------- fan-out of masks *)
Lemma get_fan mask f ms : forall d m,
  zget m (fan mask f ms d) =
  if inb m ms && has_bit mask m then Some f else zget m d.
Proof.
  induction ms as [|b r IH]; intros d m; cbn [fan].
  - reflexivity.
  - rewrite IH. unfold inb. cbn [existsb]. fold (inb m r).
    destruct (Z.eqb_spec m b) as [->|Hne]; cbn [orb].
    + destruct (has_bit mask b) eqn:Hb.
      * rewrite zget_zset, Z.eqb_refl. rewrite andb_true_r.
        destruct (inb b r); reflexivity.
      * rewrite !andb_false_r. reflexivity.
    + destruct (has_bit mask b); [|reflexivity].
      rewrite zget_zset. replace (m =? b) with false
        by (symmetry; apply Z.eqb_neq; assumption). reflexivity.
Qed.

Lemma tbl_set_eq key f mask t :
  tbl_set key f mask t =
  zset key (fan mask f meths
              (match zget key t with Some d => d | None => [] end)) t.
Proof.
  unfold tbl_set. rewrite zmem_zget.
  destruct (zget key t) as [d|] eqn:G; cbn [negb].
  - rewrite G. reflexivity.
  - rewrite zget_zset, Z.eqb_refl. apply zset_zset_absent. assumption.
Qed.

Lemma tlookup_tbl_set key f mask t key' m :
  tlookup (tbl_set key f mask t) key' m =
  if (key' =? key) && inb m meths && has_bit mask m then Some f
  else tlookup t key' m.
Proof.
  rewrite tbl_set_eq. unfold tlookup. rewrite zget_zset.
  destruct (Z.eqb_spec key' key) as [->|Hne]; cbn [andb]; [|reflexivity].
  rewrite get_fan. destruct (zget key t); reflexivity.
Qed.

Lemma tbl_pop_none prune key m t :
  tlookup t key m = None -> tbl_pop prune key m t = None.
Proof.
  unfold tlookup, tbl_pop. destruct (zget key t) as [d|].
  - intros ->. reflexivity.
  - reflexivity.
Qed.

Lemma tbl_pop_some prune key m t h :
  tlookup t key m = Some h ->
  exists t', tbl_pop prune key m t = Some (h, t') /\
    forall key' m', tlookup t' key' m' =
      if (key' =? key) && (m' =? m) then None else tlookup t key' m'.
Proof.
  unfold tlookup at 1, tbl_pop. rewrite zmem_zget.
  destruct (zget key t) as [d|] eqn:G; [|discriminate].
  intros Gm. rewrite Gm. eexists. split; [reflexivity|].
  intros key' m'. unfold tlookup.
  destruct (prune && is_empty (zdel m d)) eqn:P.
  - rewrite zdel_zset, zget_zdel.
    destruct (Z.eqb_spec key' key) as [->|Hne]; cbn [andb]; [|reflexivity].
    rewrite G. apply andb_true_iff in P. destruct P as [_ P].
    pose proof (zget_zdel m m' d) as Hd.
    destruct (zdel m d); [|discriminate]. cbn in Hd.
    destruct (m' =? m); [reflexivity|]. exact Hd.
  - rewrite zget_zset.
    destruct (Z.eqb_spec key' key) as [->|Hne]; cbn [andb]; [|reflexivity].
    rewrite G. apply zget_zdel.
Qed.

(* ------------------------------------------------------------ hook lists *)
Lemma NoDup_snoc (x : Z) l : NoDup l -> ~ In x l -> NoDup (l ++ [x]).
Proof.
  induction l as [|y r IH]; cbn [List.app]; intros Hn Hx.
  - constructor; [intros []|constructor].
  - inversion Hn; subst. constructor.
    + rewrite in_app_iff. intros [H|[H|[]]]; [auto|].
      subst. apply Hx. left. reflexivity.
    + apply IH; [assumption|]. intros H. apply Hx. right. assumption.
Qed.

Lemma remove1_In x y l : In y (remove1 x l) -> In y l.
Proof.
  induction l as [|z r IH]; cbn [remove1]; [auto|].
  destruct (x =? z); cbn [In]; intuition.
Qed.

Lemma NoDup_remove1 x l : NoDup l -> NoDup (remove1 x l).
Proof.
  induction l as [|z r IH]; cbn [remove1]; intros Hn; [constructor|].
  inversion Hn; subst. destruct (x =? z); [assumption|].
  constructor; [|auto]. intros H. apply remove1_In in H. auto.
Qed.

Lemma without_absent x l : ~ In x l -> without x l = l.
Proof.
  unfold without. induction l as [|z r IH]; cbn [filter]; intros Hx.
  - reflexivity.
  - replace (z =? x) with false
      by (symmetry; apply Z.eqb_neq; intros ->; apply Hx; left; reflexivity).
    cbn [negb]. f_equal. apply IH. intros H. apply Hx. right. assumption.
Qed.

(* on a duplicate-free list, removing the first occurrence removes all *)
Lemma remove1_without x l : NoDup l -> remove1 x l = without x l.
Proof.
  induction l as [|z r IH]; intros Hn.
  - reflexivity.
  - inversion Hn; subst. unfold without. cbn [remove1 filter].
    destruct (Z.eqb_spec x z) as [->|Hne].
    + rewrite Z.eqb_refl. cbn [negb]. symmetry. apply without_absent.
      assumption.
    + replace (z =? x) with false
        by (symmetry; apply Z.eqb_neq; intros ->; auto).
      cbn [negb]. f_equal. apply IH. assumption.
Qed.

(* ---------------------------------------------------- one-step simulation *)
Definition inv (a : app) (s : spec) : Prop :=
  same_views a s /\ NoDup (a_before a) /\ NoDup (a_after a).

Lemma kind_eqb_eq a b : kind_eqb a b = true <-> a = b.
Proof. destruct a, b; cbn; split; intros; try discriminate; reflexivity. Qed.

Lemma tlookup_one d key m :
  tlookup [(0, d)] key m = if key =? 0 then zget m d else None.
Proof.
  unfold tlookup. cbn [zget get]. unfold zget. cbn [get].
  destruct (key =? 0); reflexivity.
Qed.

(* effect of every registration call on the canonical view *)
Lemma lookup_set_op a k key f mask k' key' m :
  (k = KDefault -> key = 0) ->
  lookup (fst (step a (set_op k key f mask))) k' key' m =
  if kind_eqb k' k && (key' =? key) && inb m meths && has_bit mask m
  then Some f else lookup a k' key' m.
Proof.
  intros Hk. unfold lookup.
  destruct k; cbn [set_op step fst];
    destruct k'; cbn [kind_eqb andb table_of a_defaults a_routes a_regular
                      a_states a_errors set_defaults set_routes set_regular
                      set_states set_errors];
    try reflexivity; try apply tlookup_tbl_set.
  rewrite (Hk eq_refl), !tlookup_one.
  destruct (key' =? 0); cbn [andb]; [apply get_fan|reflexivity].
Qed.

Lemma rest_set_op a k key f mask :
  let a' := fst (step a (set_op k key f mask)) in
  a_filters a' = a_filters a /\ a_before a' = a_before a /\
  a_after a' = a_after a /\ snd (step a (set_op k key f mask)) = Done.
Proof. destruct k; cbn; auto. Qed.

Lemma step_pop_absent a k key m :
  (k = KDefault -> key = 0) ->
  lookup a k key m = None ->
  step a (pop_op k key m) = (a, Raised "KeyError").
Proof.
  intros Hk. unfold lookup.
  destruct k; cbn [pop_op step table_of]; intros H;
    try (rewrite (tbl_pop_none _ _ _ _ H); reflexivity).
  rewrite (Hk eq_refl), tlookup_one in H. cbn in H. rewrite H. reflexivity.
Qed.

Lemma step_pop_present a k key m h :
  (k = KDefault -> key = 0) ->
  lookup a k key m = Some h ->
  exists a', step a (pop_op k key m) = (a', Ret h) /\
    (forall k' key' m', lookup a' k' key' m' =
       if kind_eqb k' k && (key' =? key) && (m' =? m) then None
       else lookup a k' key' m') /\
    a_filters a' = a_filters a /\ a_before a' = a_before a /\
    a_after a' = a_after a.
Proof.
  intros Hk. unfold lookup.
  destruct k; cbn [pop_op step table_of]; intros H.
  - rewrite (Hk eq_refl), tlookup_one in H. cbn in H. rewrite H.
    eexists. split; [reflexivity|]. split; [|cbn; auto].
    intros k' key' m'. rewrite (Hk eq_refl).
    destruct k'; cbn [kind_eqb andb table_of a_defaults a_routes a_regular
                      a_states a_errors set_defaults]; try reflexivity.
    rewrite !tlookup_one. destruct (key' =? 0); cbn [andb]; [|reflexivity].
    apply zget_zdel.
  - destruct (tbl_pop_some true key m _ h H) as (t' & E & Ht'). rewrite E.
    eexists. split; [reflexivity|]. split; [|cbn; auto].
    intros k' key' m'.
    destruct k'; cbn [kind_eqb andb table_of a_defaults a_routes a_regular
                      a_states a_errors set_routes]; try reflexivity.
    apply Ht'.
  - destruct (tbl_pop_some true key m _ h H) as (t' & E & Ht'). rewrite E.
    eexists. split; [reflexivity|]. split; [|cbn; auto].
    intros k' key' m'.
    destruct k'; cbn [kind_eqb andb table_of a_defaults a_routes a_regular
                      a_states a_errors set_regular]; try reflexivity.
    apply Ht'.
  - destruct (tbl_pop_some false key m _ h H) as (t' & E & Ht'). rewrite E.
    eexists. split; [reflexivity|]. split; [|cbn; auto].
    intros k' key' m'.
    destruct k'; cbn [kind_eqb andb table_of a_defaults a_routes a_regular
                      a_states a_errors set_states]; try reflexivity.
    apply Ht'.
  - destruct (tbl_pop_some false key m _ h H) as (t' & E & Ht'). rewrite E.
    eexists. split; [reflexivity|]. split; [|cbn; auto].
    intros k' key' m'.
    destruct k'; cbn [kind_eqb andb table_of a_defaults a_routes a_regular
                      a_states a_errors set_errors]; try reflexivity.
    apply Ht'.
Qed.

Lemma sim_set a s k key f mask :
  (k = KDefault -> key = 0) -> inv a s ->
  inv (fst (step a (set_op k key f mask))) (fst (s_set s k key f mask)) /\
  snd (step a (set_op k key f mask)) = snd (s_set s k key f mask).
Proof.
  intros Hk ((Hm & Hf & Hb & Ha) & Nb & Na).
  destruct (rest_set_op a k key f mask) as (Ef & Eb & Ea & Eo).
  split; [|exact Eo]. split; [|rewrite Eb, Ea; auto].
  unfold same_views, filter_of. rewrite Ef, Eb, Ea. cbn [s_set fst s_map
    s_filter s_before s_after]. repeat split; try assumption.
  intros k' key' m. rewrite lookup_set_op by assumption. rewrite Hm.
  reflexivity.
Qed.

Lemma sim_pop a s k key m :
  (k = KDefault -> key = 0) -> inv a s ->
  inv (fst (step a (pop_op k key m))) (fst (s_pop s k key m)) /\
  snd (step a (pop_op k key m)) = snd (s_pop s k key m).
Proof.
  intros Hk I. pose proof I as ((Hm & Hf & Hb & Ha) & Nb & Na).
  unfold s_pop. rewrite <- Hm.
  destruct (lookup a k key m) as [h|] eqn:L.
  - destruct (step_pop_present a k key m h Hk L)
      as (a' & E & Hl & Ef & Eb & Ea).
    rewrite E. cbn [fst snd]. split; [|reflexivity].
    split; [|rewrite Eb, Ea; auto].
    unfold same_views, filter_of. rewrite Ef, Eb, Ea. cbn [s_map
      s_filter s_before s_after]. repeat split; try assumption.
    intros k' key' m'. rewrite Hl, Hm. reflexivity.
  - rewrite (step_pop_absent a k key m Hk L). cbn [fst snd]. auto.
Qed.

Lemma hook_add_spec f l :
  NoDup l ->
  match hook_add f l with
  | None => inb f l = true
  | Some l' => inb f l = false /\ l' = l ++ [f] /\ NoDup l'
  end.
Proof.
  intros Hn. unfold hook_add. destruct (inb f l) eqn:E; [reflexivity|].
  repeat split. apply NoDup_snoc; [assumption|]. apply inb_nIn. assumption.
Qed.

Lemma hook_pop_spec f l :
  NoDup l ->
  match hook_pop f l with
  | None => inb f l = false
  | Some l' => inb f l = true /\ l' = without f l /\ NoDup l'
  end.
Proof.
  intros Hn. unfold hook_pop. destruct (inb f l) eqn:E; cbn [negb];
    [|reflexivity].
  repeat split; [apply remove1_without|apply NoDup_remove1]; assumption.
Qed.

Lemma step_inv a s o :
  inv a s ->
  inv (fst (step a o)) (fst (sstep s o)) /\
  (is_query o = false -> snd (step a o) = snd (sstep s o)).
Proof.
  intros I. pose proof I as ((Hm & Hf & Hb & Ha) & Nb & Na).
  destruct o as [name regex conv|f|f|f|f|f mask|m|u f mask|u m|u
                |r f mask|r m|r|c f mask|c m|e f mask|e m].
  - (* set_filter *)
    destruct name as [|c0 t]; cbn [step sstep fst snd]; [auto|].
    split; [|reflexivity]. split; [|auto].
    split; [|split; [|split; assumption]].
    + intros k key m. cbn [s_map]. rewrite <- Hm. destruct k; reflexivity.
    + intros n. unfold filter_of. cbn [a_filters set_filters s_filter].
      rewrite (get_setv _ _ lz_eqb lz_eqb_eq). rewrite <- Hf.
      destruct (c0 =? 58); reflexivity.
  - (* add_before_response *)
    cbn [step sstep]. rewrite <- Hb.
    pose proof (hook_add_spec f (a_before a) Nb) as H.
    destruct (hook_add f (a_before a)) as [l'|]; cbn [hooked].
    + destruct H as (E & -> & N'). rewrite E. cbn [fst snd].
      split; [|reflexivity]. split; [|split; assumption].
      split; [intros k key m; cbn [s_map]; rewrite <- Hm; destruct k;
              reflexivity|split; [|split]]; try assumption; reflexivity.
    + rewrite H. cbn [fst snd]. auto.
  - (* pop_before_response *)
    cbn [step sstep]. rewrite <- Hb.
    pose proof (hook_pop_spec f (a_before a) Nb) as H.
    destruct (hook_pop f (a_before a)) as [l'|]; cbn [hooked].
    + destruct H as (E & -> & N'). rewrite E. cbn [fst snd].
      split; [|reflexivity]. split; [|split; assumption].
      split; [intros k key m; cbn [s_map]; rewrite <- Hm; destruct k;
              reflexivity|split; [|split]]; try assumption; reflexivity.
    + rewrite H. cbn [fst snd]. auto.
  - (* add_after_response *)
    cbn [step sstep]. rewrite <- Ha.
    pose proof (hook_add_spec f (a_after a) Na) as H.
    destruct (hook_add f (a_after a)) as [l'|]; cbn [hooked].
    + destruct H as (E & -> & N'). rewrite E. cbn [fst snd].
      split; [|reflexivity]. split; [|split; assumption].
      split; [intros k key m; cbn [s_map]; rewrite <- Hm; destruct k;
              reflexivity|split; [|split]]; try assumption; reflexivity.
    + rewrite H. cbn [fst snd]. auto.
  - (* pop_after_response *)
    cbn [step sstep]. rewrite <- Ha.
    pose proof (hook_pop_spec f (a_after a) Na) as H.
    destruct (hook_pop f (a_after a)) as [l'|]; cbn [hooked].
    + destruct H as (E & -> & N'). rewrite E. cbn [fst snd].
      split; [|reflexivity]. split; [|split; assumption].
      split; [intros k key m; cbn [s_map]; rewrite <- Hm; destruct k;
              reflexivity|split; [|split]]; try assumption; reflexivity.
    + rewrite H. cbn [fst snd]. auto.
  - destruct (sim_set a s KDefault 0 f mask (fun _ => eq_refl) I). auto.
  - destruct (sim_pop a s KDefault 0 m (fun _ => eq_refl) I). auto.
  - destruct u as [p|r].
    + destruct (sim_set a s KRoute p f mask) as [H1 H2];
        [discriminate|assumption|]. auto.
    + destruct (sim_set a s KRegular r f mask) as [H1 H2];
        [discriminate|assumption|]. auto.
  - destruct u as [p|r].
    + destruct (sim_pop a s KRoute p m) as [H1 H2];
        [discriminate|assumption|]. auto.
    + destruct (sim_pop a s KRegular r m) as [H1 H2];
        [discriminate|assumption|]. auto.
  - destruct u; cbn [step sstep s_is fst is_query]; split;
      try assumption; discriminate.
  - destruct (sim_set a s KRegular r f mask) as [H1 H2];
      [discriminate|assumption|]. auto.
  - destruct (sim_pop a s KRegular r m) as [H1 H2];
      [discriminate|assumption|]. auto.
  - cbn [step sstep s_is fst is_query]; split; try assumption; discriminate.
  - destruct (sim_set a s KState c f mask) as [H1 H2];
      [discriminate|assumption|]. auto.
  - destruct (sim_pop a s KState c m) as [H1 H2];
      [discriminate|assumption|]. auto.
  - destruct (sim_set a s KError e f mask) as [H1 H2];
      [discriminate|assumption|]. auto.
  - destruct (sim_pop a s KError e m) as [H1 H2];
      [discriminate|assumption|]. auto.
Qed.

(* ------------------------------------------------ all sequences of calls *)
Lemma inv_init : inv init sinit.
Proof.
  split; [|split; constructor].
  split; [|split; [|split]]; try reflexivity.
  intros k key m. destruct k; try reflexivity.
  unfold lookup. cbn [table_of init a_defaults]. rewrite tlookup_one.
  destruct (key =? 0); reflexivity.
Qed.

Lemma run_inv ops : forall a s,
  inv a s ->
  inv (exec a ops) (sexec s ops) /\ agree ops (trace a ops) (strace s ops).
Proof.
  induction ops as [|o r IH]; intros a s I; cbn [exec sexec trace strace agree].
  - auto.
  - destruct (step_inv a s o I) as [I' Ho].
    destruct (IH _ _ I') as [I2 Ag]. auto.
Qed.

(* main theorem: after every sequence of calls the views of the model are
   the views of the specification, and every call (is_* answers aside) had
   the same outcome *)
Theorem registry_refines ops :
  same_views (exec init ops) (sexec sinit ops) /\
  agree ops (trace init ops) (strace sinit ops).
Proof.
  destruct (run_inv ops init sinit inv_init) as [[H _] Ag]. auto.
Qed.

Theorem hook_not_twice ops :
  NoDup (a_before (exec init ops)) /\ NoDup (a_after (exec init ops)).
Proof.
  destruct (run_inv ops init sinit inv_init) as [[_ H] _]. exact H.
Qed.

Lemma hook_twice_raises a f :
  (In f (a_before a) -> step a (AddBefore f) = (a, Raised "ValueError")) /\
  (In f (a_after a) -> step a (AddAfter f) = (a, Raised "ValueError")).
Proof.
  split; intros H; apply inb_In in H; cbn [step]; unfold hook_add;
    rewrite H; reflexivity.
Qed.

Lemma hook_absent_raises a f :
  (~ In f (a_before a) -> step a (PopBefore f) = (a, Raised "ValueError")) /\
  (~ In f (a_after a) -> step a (PopAfter f) = (a, Raised "ValueError")).
Proof.
  split; intros H; apply inb_nIn in H; cbn [step]; unfold hook_pop;
    rewrite H; reflexivity.
Qed.

(* the hook that is removed is gone, the other hooks keep their order *)
Lemma hook_pop_exact ops f :
  let a := exec init ops in
  In f (a_before a) ->
  step a (PopBefore f) = (set_before a (without f (a_before a)), Done).
Proof.
  intros a H. destruct (hook_not_twice ops) as [Nb _]. fold a in Nb.
  cbn [step]. pose proof (hook_pop_spec f (a_before a) Nb) as S.
  destruct (hook_pop f (a_before a)) as [l|].
  - destruct S as (_ & -> & _). reflexivity.
  - apply inb_In in H. rewrite H in S. discriminate.
Qed.

Lemma hook_pop_exact_after ops f :
  let a := exec init ops in
  In f (a_after a) ->
  step a (PopAfter f) = (set_after a (without f (a_after a)), Done).
Proof.
  intros a H. destruct (hook_not_twice ops) as [_ Na]. fold a in Na.
  cbn [step]. pose proof (hook_pop_spec f (a_after a) Na) as S.
  destruct (hook_pop f (a_after a)) as [l|].
  - destruct S as (_ & -> & _). reflexivity.
  - apply inb_In in H. rewrite H in S. discriminate.
Qed.

(* ----------------------------------------------- corollaries on one call *)
Definition addr_ok (k : kind) (key : Z) : Prop := k = KDefault -> key = 0.

Theorem pop_removes_exactly_one a k key m h :
  addr_ok k key -> lookup a k key m = Some h ->
  exists a', step a (pop_op k key m) = (a', Ret h) /\
    lookup a' k key m = None /\
    (forall k' key' m', (k', key', m') <> (k, key, m) ->
       lookup a' k' key' m' = lookup a k' key' m') /\
    a_filters a' = a_filters a /\ a_before a' = a_before a /\
    a_after a' = a_after a.
Proof.
  intros Hk L.
  destruct (step_pop_present a k key m h Hk L) as (a' & E & Hl & R).
  exists a'. split; [exact E|]. split; [|split; [|exact R]].
  - rewrite Hl. replace (kind_eqb k k) with true
      by (symmetry; apply kind_eqb_eq; reflexivity).
    rewrite !Z.eqb_refl. reflexivity.
  - intros k' key' m' Hne. rewrite Hl.
    destruct (kind_eqb k' k) eqn:E1; [|reflexivity].
    destruct (Z.eqb_spec key' key); [|reflexivity].
    destruct (Z.eqb_spec m' m); [|reflexivity].
    apply kind_eqb_eq in E1. subst. exfalso. apply Hne. reflexivity.
Qed.

Theorem pop_absent_raises a k key m :
  addr_ok k key -> lookup a k key m = None ->
  step a (pop_op k key m) = (a, Raised "KeyError").
Proof. apply step_pop_absent. Qed.

Theorem mask_fans_out_per_bit a k key f mask :
  addr_ok k key ->
  let a' := fst (step a (set_op k key f mask)) in
  (forall k' key' m,
     lookup a' k' key' m =
     if kind_eqb k' k && (key' =? key) && inb m meths && has_bit mask m
     then Some f else lookup a k' key' m) /\
  a_filters a' = a_filters a /\ a_before a' = a_before a /\
  a_after a' = a_after a /\ snd (step a (set_op k key f mask)) = Done.
Proof.
  intros Hk a'. split; [|apply rest_set_op].
  intros k' key' m. apply lookup_set_op. exact Hk.
Qed.

(* group syntax addresses the regular table *)
Lemma group_is_regular a r f mask m :
  step a (SetRoute (Group r) f mask) = step a (SetRegular r f mask) /\
  step a (PopRoute (Group r) m) = step a (PopRegular r m) /\
  step a (IsRoute (Group r)) = step a (IsRegular r).
Proof. repeat split. Qed.

(* -------------------------------------------------- is_route / is_regular *)
Definition tight_t (t : tbl) : Prop :=
  Forall (fun p => snd p <> [] /\
                   Forall (fun q => In (fst q) meths) (snd p)) t.
Definition tight (a : app) : Prop :=
  tight_t (a_routes a) /\ tight_t (a_regular a).

Lemma fan_keys mask f ms0 : forall ms d,
  incl ms ms0 ->
  Forall (fun q : Z * Z => In (fst q) ms0) d ->
  Forall (fun q : Z * Z => In (fst q) ms0) (fan mask f ms d).
Proof.
  induction ms as [|b r IH]; intros d Hi Hd; cbn [fan]; [assumption|].
  apply IH.
  - intros x Hx. apply Hi. right. assumption.
  - destruct (has_bit mask b); [|assumption].
    apply Forall_setv; [assumption| |auto].
    cbn [fst]. apply Hi. left. reflexivity.
Qed.

Lemma fan_nonempty mask f ms d :
  existsb (has_bit mask) ms = true -> fan mask f ms d <> [].
Proof.
  intros H. apply existsb_exists in H. destruct H as (b & Hb & Hm).
  intros E. pose proof (get_fan mask f ms d b) as G.
  rewrite E in G. apply inb_In in Hb. rewrite Hb, Hm in G. discriminate.
Qed.

Lemma tight_set key f mask t :
  some_method mask = true -> tight_t t -> tight_t (tbl_set key f mask t).
Proof.
  intros Hs Ht. rewrite tbl_set_eq. apply Forall_setv.
  - assumption.
  - cbn [snd]. split.
    + apply fan_nonempty. exact Hs.
    + apply fan_keys; [apply incl_refl|].
      destruct (zget key t) as [d|] eqn:G; [|constructor].
      apply zget_in in G. unfold tight_t in Ht.
      rewrite Forall_forall in Ht. apply (Ht _ G).
  - intros k' v' _. cbn [snd]. split.
    + apply fan_nonempty. exact Hs.
    + apply fan_keys; [apply incl_refl|].
      destruct (zget key t) as [d|] eqn:G; [|constructor].
      apply zget_in in G. unfold tight_t in Ht.
      rewrite Forall_forall in Ht. apply (Ht _ G).
Qed.

Lemma tight_pop key m t h t' :
  tight_t t -> tbl_pop true key m t = Some (h, t') -> tight_t t'.
Proof.
  intros Ht. unfold tbl_pop. rewrite zmem_zget.
  destruct (zget key t) as [d|] eqn:G; [|discriminate].
  destruct (zget m d); [|discriminate]. intros E. injection E as _ <-.
  cbn [andb]. destruct (is_empty (zdel m d)) eqn:Em.
  - rewrite zdel_zset. apply Forall_del. assumption.
  - assert (Hd : zdel m d <> [] /\
                 Forall (fun q : Z * Z => In (fst q) meths) (zdel m d)).
    { split; [destruct (zdel m d); [discriminate|intro; discriminate]|].
      apply Forall_del. apply zget_in in G. unfold tight_t in Ht.
      rewrite Forall_forall in Ht. apply (Ht _ G). }
    apply Forall_setv; [assumption|exact Hd|intros; exact Hd].
Qed.

Lemma step_tight a o :
  route_mask_ok o = true -> tight a -> tight (fst (step a o)).
Proof.
  intros Hw [T1 T2].
  destruct o as [name regex conv|f|f|f|f|f mask|m|u f mask|u m|u
                |r f mask|r m|r|c f mask|c m|e f mask|e m];
    cbn [step route_mask_ok] in *.
  - destruct name; split; assumption.
  - destruct (hook_add f (a_before a)); split; assumption.
  - destruct (hook_pop f (a_before a)); split; assumption.
  - destruct (hook_add f (a_after a)); split; assumption.
  - destruct (hook_pop f (a_after a)); split; assumption.
  - split; assumption.
  - destruct (zget m (a_defaults a)); split; assumption.
  - destruct u; split; cbn; try assumption; apply tight_set; assumption.
  - destruct u.
    + destruct (tbl_pop true p m (a_routes a)) as [[h t']|] eqn:E;
        cbn [popped fst]; split; cbn; try assumption.
      eapply tight_pop; [|exact E]; assumption.
    + destruct (tbl_pop true r m (a_regular a)) as [[h t']|] eqn:E;
        cbn [popped fst]; split; cbn; try assumption.
      eapply tight_pop; [|exact E]; assumption.
  - destruct u; split; assumption.
  - split; cbn; try assumption; apply tight_set; assumption.
  - destruct (tbl_pop true r m (a_regular a)) as [[h t']|] eqn:E;
      cbn [popped fst]; split; cbn; try assumption.
    eapply tight_pop; [|exact E]; assumption.
  - split; assumption.
  - split; assumption.
  - destruct (tbl_pop false c m (a_states a)) as [[h t']|];
      split; assumption.
  - split; assumption.
  - destruct (tbl_pop false e m (a_errors a)) as [[h t']|];
      split; assumption.
Qed.

Lemma mem_is t key (sm : Z -> option Z) :
  tight_t t -> (forall m, tlookup t key m = sm m) ->
  zmem key t = existsb (fun m => is_some (sm m)) meths.
Proof.
  intros Ht H. rewrite zmem_zget. unfold tlookup in H.
  destruct (zget key t) as [d|] eqn:G.
  - apply zget_in in G. unfold tight_t in Ht. rewrite Forall_forall in Ht.
    destruct (Ht _ G) as [Hne Hk]. cbn [snd] in *.
    destruct d as [|[m0 h0] d']; [contradiction|].
    inversion Hk; subst. cbn [fst] in *.
    symmetry. apply existsb_exists. exists m0. split; [assumption|].
    rewrite <- H. unfold zget. cbn [get]. rewrite Z.eqb_refl. reflexivity.
  - symmetry. destruct (existsb _ meths) eqn:E; [|reflexivity].
    apply existsb_exists in E. destruct E as (m & _ & Hm).
    rewrite <- H in Hm. discriminate.
Qed.

Lemma step_query a s o :
  inv a s -> tight a -> snd (step a o) = snd (sstep s o).
Proof.
  intros I [T1 T2]. destruct (is_query o) eqn:Q.
  - destruct I as ((Hm & _) & _).
    destruct o; try discriminate; [destruct u|]; cbn [step sstep s_is snd
      target fst]; f_equal; apply mem_is; try assumption;
      intros m; apply (Hm KRoute) || apply (Hm KRegular).
  - apply (step_inv a s o I). exact Q.
Qed.

Lemma run_tight ops : forall a s,
  inv a s -> tight a -> forallb route_mask_ok ops = true ->
  trace a ops = strace s ops.
Proof.
  induction ops as [|o r IH]; intros a s I T W; cbn [trace strace].
  - reflexivity.
  - cbn [forallb] in W. apply andb_true_iff in W. destruct W as [W1 W2].
    rewrite (step_query a s o I T). f_equal.
    apply IH; [apply (step_inv a s o I)|apply step_tight; assumption|exact W2].
Qed.

(* when every route registration names at least one method, is_* answers
   agree with the specification as well *)
Theorem registry_refines_queries ops :
  forallb route_mask_ok ops = true -> trace init ops = strace sinit ops.
Proof.
  apply run_tight; [apply inv_init|split; constructor].
Qed.

(* ... and without that condition they do not: a registration with an empty
   method mask leaves an empty table behind, and is_route answers True for
   a uri that has no handler *)
Theorem is_route_empty_mask_refuted :
  exists ops, trace init ops <> strace sinit ops /\
    (forall m, lookup (exec init ops) KRoute 1 m = None) /\
    nth 1 (trace init ops) Done = Answer true.
Proof.
  exists [SetRoute (Static 1) 7 0; IsRoute (Static 1)].
  split; [vm_compute; discriminate|]. split; [|vm_compute; reflexivity].
  intros m. reflexivity.
Qed.

(* ------------------------------------------------------------ non-vacuity *)
Example registry_example :
  let ops := [SetRoute (Static 1) 7 3; SetRoute (Group 2) 8 6;
              AddBefore 5; AddBefore 5; PopRoute (Static 1) 2;
              PopRoute (Static 1) 2; IsRoute (Static 1);
              PopRoute (Static 1) 1; IsRoute (Static 1);
              SetState 404 9 7; PopState 404 2; PopAfter 5] in
  trace init ops =
    [Done; Done; Done; Raised "ValueError"; Ret 7; Raised "KeyError";
     Answer true; Ret 7; Answer false; Done; Ret 9; Raised "ValueError"] /\
  forallb route_mask_ok ops = true /\
  a_routes (exec init ops) = [] /\
  a_regular (exec init ops) = [(2, [(2, 8); (4, 8)])] /\
  a_states (exec init ops) = [(404, [(1, 9); (4, 9)])] /\
  a_before (exec init ops) = [5].
Proof. vm_compute. repeat split. Qed.
