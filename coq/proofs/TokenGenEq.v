(* The hand model of get_token/check_token (model/Token.v) equals the
   definitions generated from the current source (gen/TokenGen.v). *)
From Coq Require Import ZArith List Bool Lia String.
Require Import PW.lib.Val PW.lib.ValFacts PW.lib.Dec PW.lib.Py PW.model.Token PW.gen.TokenGen.
Import ListNotations.
Open Scope Z_scope.

Definition inj_to (o : option Z) : pv := match o with Some T => PInt T | None => PNone end.
Definition inj_ol (o : option (list Z)) : res pv :=
  match o with Some l => Ok (PStr l) | None => Err ZeroDivisionError end.
Definition inj_ob (o : option bool) : res pv :=
  match o with Some b => Ok (PBool b) | None => Err ZeroDivisionError end.
Definition clock (t : Z) : pv := PRat t usec.

Section Eq.
  Variable H : list Z -> list Z.

  Lemma quot_floor t T : 0 <= t -> 0 < T -> Z.quot t (usec * T) = t / (T * usec).
  Proof.
    intros Ht HT. rewrite Z.quot_div_nonneg; [f_equal; unfold usec; lia|assumption|unfold usec; lia].
  Qed.

  Theorem gen_get_token_eq s c timeout e t :
    0 <= t -> (forall T, timeout = Some T -> 0 <= T) ->
    gen_get_token H (PStr s) (PStr c) (inj_to timeout) (PInt e) (clock t)
    = inj_ol (get_token H s c timeout e t).
  Proof.
    intros Ht HT. unfold gen_get_token, get_token, token_text, has_timeout, aligned.
    destruct timeout as [T|]; cbn [inj_to].
    - specialize (HT T eq_refl).
      unfold pnot, truthy, bind. destruct (T =? 0) eqn:E0; cbn [negb].
      + unfold pfmt. cbn [flat_map pstr option_map inj_ol]. rewrite app_nil_r. reflexivity.
      + apply Z.eqb_neq in E0.
        unfold peq. cbn [pv_eqb as_int]. destruct (e =? 0) eqn:Ee.
        * unfold clock, pdiv. cbn [as_int]. replace (T =? 0) with false by (symmetry; apply Z.eqb_neq; lia).
          unfold pint, pmul, padd, arith. cbn [as_int].
          unfold pfmt. cbn [flat_map pstr option_map inj_ol]. rewrite app_nil_r.
          rewrite quot_floor by lia. reflexivity.
        * unfold pfmt. cbn [flat_map pstr option_map inj_ol]. rewrite app_nil_r. reflexivity.
    - unfold pnot, truthy, bind. cbn [negb]. unfold pfmt.
      cbn [flat_map pstr option_map inj_ol]. rewrite app_nil_r. reflexivity.
  Qed.
  Theorem gen_check_token_eq tok s c timeout t :
    0 <= t -> (forall T, timeout = Some T -> 0 <= T) ->
    gen_check_token H (PStr tok) (PStr s) (PStr c) (inj_to timeout) (clock t)
    = inj_ob (check_token H tok s c timeout t).
  Proof.
    intros Ht HT. unfold gen_check_token, check_token, has_timeout, aligned, tok_eqb.
    destruct timeout as [T|]; cbn [inj_to].
    - pose proof (HT T eq_refl) as HT0.
      unfold pnot, truthy. cbn [bind]. destruct (T =? 0) eqn:E0; cbn [negb].
      + change PNone with (inj_to None).
        rewrite gen_get_token_eq by (try assumption; intros ? [=]).
        cbn [bind inj_ol get_token token_text has_timeout option_map inj_ob].
        unfold peq. cbn [pv_eqb bind]. reflexivity.
      + apply Z.eqb_neq in E0.
        unfold clock at 1, pdiv. cbn [as_int bind].
        replace (T =? 0) with false by (symmetry; apply Z.eqb_neq; lia).
        unfold pint, pmul, padd, arith. cbn [as_int bind].
        rewrite quot_floor by lia.
        change (PInt T) with (inj_to (Some T)).
        rewrite !gen_get_token_eq by (try assumption; intros ? [= <-]; assumption).
        unfold get_token, token_text, has_timeout.
        replace (T =? 0) with false by (symmetry; apply Z.eqb_neq; lia).
        cbn [negb].
        set (now := t / (T * usec) * T).
        destruct (now + T =? 0) eqn:E1; destruct (now + T + T =? 0) eqn:E2;
          unfold aligned; replace (T =? 0) with false by (symmetry; apply Z.eqb_neq; lia);
          cbn [option_map inj_ol bind inj_ob]; unfold peq; cbn [pv_eqb bind];
          match goal with
          | |- context [lz_eqb ?a ?b] => destruct (lz_eqb a b)
          end; cbn [truthy inj_ob]; try reflexivity;
          match goal with
          | |- context [lz_eqb ?a ?b] => destruct (lz_eqb a b)
          end; reflexivity.
    - unfold pnot, truthy. cbn [bind negb].
      change PNone with (inj_to None).
      rewrite gen_get_token_eq by (try assumption; intros ? [=]).
      cbn [bind inj_ol get_token token_text has_timeout option_map inj_ob].
      unfold peq. cbn [pv_eqb bind]. reflexivity.
  Qed.
End Eq.
