(* The definitions generated from the current source of headers._parseparam
   and headers.parse_header (gen/ParamGen.v, by harness/py2v_param.py) equal
   the hand model (model/HeaderCodec.v [parseparam], [parse_header]) for
   every string, with any fuel above the length of the string. *)
From Coq Require Import ZArith List Bool Lia String.
Require Import PW.lib.Val PW.lib.ValFacts PW.lib.Dec PW.lib.Py PW.lib.PyParam.
Require Import PW.gen.ParamGen PW.model.HeaderCodec PW.proofs.HeaderCodecProofs.
Import ListNotations.
Open Scope list_scope.
Open Scope Z_scope.

(* ------------------------------------------------------------------ *)
(* the string primitives of lib/PyParam.v are those of the model *)

Lemma str_lstrip_eq s : str_lstrip s = lstrip s.
Proof. induction s as [|c s IH]; [reflexivity|]. cbn [str_lstrip lstrip].
  change (str_is_space c) with (is_space c). rewrite IH. reflexivity. Qed.

Lemma str_strip_eq s : str_strip s = strip s.
Proof. unfold str_strip, strip. rewrite !str_lstrip_eq. reflexivity. Qed.

Lemma str_lower_eq s : map str_lower_c s = lower s.
Proof. reflexivity. Qed.

Lemma find_char_eq c : forall s i, 0 <= i ->
  Py.find_from [c] s i = HeaderCodec.find_from c s i 0.
Proof.
  induction s as [|x s IH]; intros i Hi; [reflexivity|].
  cbn [Py.find_from HeaderCodec.find_from Py.is_prefix].
  replace (0 <=? i) with true by (symmetry; apply Z.leb_le; lia).
  rewrite andb_true_r. cbn [andb]. rewrite (Z.eqb_sym c x).
  destruct (x =? c); [reflexivity|]. apply IH. lia.
Qed.

Lemma replace_go_cons old new c r :
  replace_go old new 0 (c :: r)
  = if Py.is_prefix old (c :: r)
    then new ++ replace_go old new (List.length old - 1) r
    else c :: replace_go old new 0 r.
Proof. reflexivity. Qed.
Lemma replace_go_skip old new k c r :
  replace_go old new (S k) (c :: r) = replace_go old new k r.
Proof. reflexivity. Qed.

Lemma replace_pair_eq a b rep : forall n s, (List.length s <= n)%nat ->
  str_replace [a; b] rep s = replace2 a b rep s.
Proof.
  unfold str_replace.
  induction n as [|n IH]; intros s Hn.
  - destruct s; [reflexivity|cbn [List.length] in Hn; lia].
  - destruct s as [|c r]; [reflexivity|]. cbn [List.length] in Hn.
    rewrite replace_go_cons.
    destruct r as [|d r'].
    + cbn [Py.is_prefix replace2]. rewrite andb_false_r. reflexivity.
    + change (replace2 a b rep (c :: d :: r'))
        with (if (c =? a) && (d =? b) then rep ++ replace2 a b rep r'
              else c :: replace2 a b rep (d :: r')).
      cbn [Py.is_prefix List.length Nat.sub]. rewrite andb_true_r.
      rewrite (Z.eqb_sym a c), (Z.eqb_sym b d).
      cbn [List.length] in Hn.
      destruct ((c =? a) && (d =? b)).
      * rewrite replace_go_skip. rewrite IH by lia. reflexivity.
      * rewrite IH by (cbn [List.length]; lia). reflexivity.
Qed.

(* ------------------------------------------------------------------ *)
(* indexing and slicing *)
Lemma item_at_app {A} (pre : list A) c r :
  item_at (Z.of_nat (List.length pre)) (pre ++ c :: r) = Some c.
Proof.
  unfold item_at. rewrite app_length. cbn [List.length].
  replace (Z.of_nat (List.length pre) <? 0) with false
    by (symmetry; apply Z.ltb_ge; lia).
  replace (Z.of_nat (List.length pre) <? 0) with false
    by (symmetry; apply Z.ltb_ge; lia).
  replace (Z.of_nat (List.length pre + S (List.length r)) <=?
           Z.of_nat (List.length pre)) with false
    by (symmetry; apply Z.leb_gt; lia).
  cbn [orb]. rewrite Nat2Z.id. rewrite nth_error_app2 by lia.
  rewrite Nat.sub_diag. reflexivity.
Qed.

Lemma peq_char c d : peq (PStr [c]) (PStr [d]) = Py.Ok (PBool (c =? d)).
Proof. unfold peq. cbn [pv_eqb lz_eqb]. rewrite andb_true_r. reflexivity. Qed.

Lemma pslice_to s e : 0 <= e ->
  pslice (PStr s) PNone (PInt e) = Py.Ok (PStr (slice_to s e)).
Proof.
  intros He. unfold pslice, slice_list, slice_to. cbn [as_int Py.bind].
  unfold norm_idx. change (0 <? 0) with false. cbn iota.
  replace (e <? 0) with false by (symmetry; apply Z.ltb_ge; lia).
  rewrite (Z.min_l 0) by lia. cbn [Z.to_nat skipn]. rewrite Z.sub_0_r.
  f_equal. f_equal.
  destruct (Z.le_ge_cases e (Z.of_nat (List.length s))) as [H|H].
  - rewrite Z.min_l by lia. reflexivity.
  - rewrite Z.min_r by lia. rewrite Nat2Z.id.
    rewrite !firstn_all2 by lia. reflexivity.
Qed.

Lemma pslice_from s e : 0 <= e ->
  pslice (PStr s) (PInt e) PNone = Py.Ok (PStr (slice_from s e)).
Proof.
  intros He. unfold pslice, slice_list, slice_from. cbn [as_int Py.bind].
  unfold norm_idx.
  replace (e <? 0) with false by (symmetry; apply Z.ltb_ge; lia).
  replace (Z.of_nat (List.length s) <? 0) with false
    by (symmetry; apply Z.ltb_ge; lia).
  rewrite (Z.min_id (Z.of_nat (List.length s))).
  f_equal. f_equal.
  destruct (Z.le_ge_cases e (Z.of_nat (List.length s))) as [H|H].
  - rewrite Z.min_l by lia. apply firstn_all2. rewrite skipn_length. lia.
  - rewrite Z.min_r by lia. rewrite Z.sub_diag. cbn [Z.to_nat firstn].
    symmetry. apply skipn_all2. lia.
Qed.

Lemma pitem_app pre c r :
  pitem (PStr (pre ++ c :: r)) (PInt (len pre)) = Py.Ok (PStr [c]).
Proof. unfold pitem, len. cbn [as_int]. rewrite item_at_app. reflexivity. Qed.

(* ------------------------------------------------------------------ *)
(* the scanner: the inner while of _parseparam *)

(* the test end < len(s) fails *)
Lemma inner_exit fuel s e q f out : len s <= e ->
  gen_parseparam_inner_1 fuel (PStr s) f out (PInt e) (PBool q)
  = Py.Ok (PTuple [PInt e; PBool q]).
Proof.
  intros H. unfold len in H.
  destruct fuel; cbn [gen_parseparam_inner_1 plen Py.bind plt pcmp as_int];
    (replace (e <? Z.of_nat (List.length s)) with false
       by (symmetry; apply Z.ltb_ge; lia)); reflexivity.
Qed.

(* one round of the loop at a character c *)
Lemma inner_step fuel pre c r q f out :
  gen_parseparam_inner_1 (S fuel) (PStr (pre ++ c :: r)) f out
                         (PInt (len pre)) (PBool q)
  = if q && (c =? 92) then
      gen_parseparam_inner_1 fuel (PStr (pre ++ c :: r)) f out
                             (PInt (len pre + 1 + 1)) (PBool q)
    else if c =? 34 then
      gen_parseparam_inner_1 fuel (PStr (pre ++ c :: r)) f out
                             (PInt (len pre + 1)) (PBool (negb q))
    else if (c =? 59) && negb q then Py.Ok (PTuple [PInt (len pre); PBool q])
    else gen_parseparam_inner_1 fuel (PStr (pre ++ c :: r)) f out
                                (PInt (len pre + 1)) (PBool q).
Proof.
  cbn [gen_parseparam_inner_1]. cbv zeta.
  cbn [plen Py.bind plt pcmp as_int].
  replace (len pre <? Z.of_nat (List.length (pre ++ c :: r))) with true
    by (symmetry; apply Z.ltb_lt; unfold len; rewrite app_length;
        cbn [List.length]; lia).
  cbn [truthy]. rewrite !pitem_app. cbn [Py.bind]. rewrite !peq_char.
  cbn [Py.bind truthy pnot padd arith as_int].
  destruct q; cbn [andb negb truthy Py.bind].
  - rewrite ?pitem_app. cbn [Py.bind]. rewrite ?peq_char. cbn [Py.bind truthy].
    destruct (c =? 92) eqn:E92; cbn [Py.bind truthy padd arith as_int].
    + reflexivity.
    + destruct (c =? 34); cbn [Py.bind truthy padd arith as_int negb];
        [reflexivity|].
      destruct (c =? 59); cbn [Py.bind truthy padd arith as_int andb];
        reflexivity.
  - destruct (c =? 34); cbn [Py.bind truthy padd arith as_int negb];
      [reflexivity|].
    destruct (c =? 59); cbn [Py.bind truthy padd arith as_int andb];
      reflexivity.
Qed.

Lemma len_snoc (pre : list Z) c : len (pre ++ [c]) = len pre + 1.
Proof. rewrite len_app. reflexivity. Qed.

(* the loop, started at index len(pre) of pre ++ suf in state q, stops with
   end = scan_end suf q (len pre); fuel: one unit per remaining character *)
Lemma inner_scan : forall n suf pre q fuel f out,
  (List.length suf <= n)%nat -> (n <= fuel)%nat ->
  exists q',
    gen_parseparam_inner_1 fuel (PStr (pre ++ suf)) f out
                           (PInt (len pre)) (PBool q)
    = Py.Ok (PTuple [PInt (scan_end suf q (len pre)); PBool q']).
Proof.
  induction n as [|n IH]; intros suf pre q fuel f out Hn Hf.
  - destruct suf; [|cbn [List.length] in Hn; lia].
    exists q. rewrite app_nil_r. cbn [scan_end]. apply inner_exit. lia.
  - destruct suf as [|c r].
    { exists q. rewrite app_nil_r. cbn [scan_end]. apply inner_exit. lia. }
    destruct fuel as [|fuel]; [lia|]. cbn [List.length] in Hn.
    rewrite inner_step. cbn [scan_end].
    destruct (q && (c =? 92)).
    + destruct r as [|d r'].
      * exists q. replace (len pre + 1 + 1) with (len pre + 2) by lia.
        apply inner_exit. rewrite len_snoc. lia.
      * cbn [List.length] in Hn.
        replace (pre ++ c :: d :: r') with ((pre ++ [c; d]) ++ r')
          by (rewrite <- app_assoc; reflexivity).
        replace (len pre + 1 + 1) with (len (pre ++ [c; d]))
          by (rewrite len_app; change (len [c; d]) with 2; lia).
        replace (len pre + 2) with (len (pre ++ [c; d]))
          by (rewrite len_app; change (len [c; d]) with 2; lia).
        apply IH; lia.
    + destruct (c =? 34).
      * replace (pre ++ c :: r) with ((pre ++ [c]) ++ r)
          by (rewrite <- app_assoc; reflexivity).
        rewrite <- (len_snoc pre c). apply IH; lia.
      * destruct ((c =? 59) && negb q).
        -- exists q. reflexivity.
        -- replace (pre ++ c :: r) with ((pre ++ [c]) ++ r)
             by (rewrite <- app_assoc; reflexivity).
           rewrite <- (len_snoc pre c). apply IH; lia.
Qed.

Lemma scan_end_ge : forall n s q e, (List.length s <= n)%nat ->
  e <= scan_end s q e.
Proof.
  induction n as [|n IH]; intros s q e Hn.
  - destruct s; [cbn [scan_end]; lia|cbn [List.length] in Hn; lia].
  - destruct s as [|c r]; [cbn [scan_end]; lia|]. cbn [List.length] in Hn.
    cbn [scan_end]. destruct (q && (c =? 92)).
    + destruct r as [|d r']; [lia|]. cbn [List.length] in Hn.
      pose proof (IH r' q (e + 2) ltac:(lia)). lia.
    + destruct (c =? 34).
      * pose proof (IH r (negb q) (e + 1) ltac:(lia)). lia.
      * destruct ((c =? 59) && negb q); [lia|].
        pose proof (IH r q (e + 1) ltac:(lia)). lia.
Qed.

Lemma slice_from_length s e : (List.length (slice_from s e) <= List.length s)%nat.
Proof. unfold slice_from. rewrite skipn_length. lia. Qed.

(* ------------------------------------------------------------------ *)
(* _parseparam: the outer while; the same fuel drives the model *)
Lemma outer_loop : forall fuel s e0 q0 f0 outl,
  (List.length s < fuel)%nat ->
  gen_parseparam_loop_1 fuel (PStr s) e0 q0 f0 (PList outl)
  = Py.Ok (PList (outl ++ map PStr (parseparam_fuel fuel s))).
Proof.
  induction fuel as [|fuel IH]; intros s e0 q0 f0 outl Hf; [lia|].
  cbn [gen_parseparam_loop_1]. cbv zeta.
  rewrite pslice_to by lia. cbn [Py.bind].
  destruct s as [|c s1].
  - cbn [slice_to Z.to_nat firstn parseparam_fuel map]. unfold peq.
    cbn [pv_eqb lz_eqb Py.bind truthy]. rewrite app_nil_r. reflexivity.
  - change (slice_to (c :: s1) 1) with [c]. rewrite peq_char.
    cbn [Py.bind truthy parseparam_fuel].
    destruct (c =? 59) eqn:E; [|cbn [map]; rewrite app_nil_r; reflexivity].
    rewrite pslice_from by lia. cbn [Py.bind].
    change (slice_from (c :: s1) 1) with s1.
    cbn [List.length] in Hf.
    destruct (inner_scan (List.length s1) s1 [] false (S fuel) f0 (PList outl)
                ltac:(lia) ltac:(lia)) as (q' & Hin).
    cbn [app] in Hin. change (len (@nil Z)) with 0 in Hin.
    rewrite Hin. cbn [Py.bind]. cbv zeta.
    pose proof (scan_end_ge (List.length s1) s1 false 0 ltac:(lia)) as Hge.
    rewrite pslice_to by exact Hge. cbn [Py.bind pstrip pappend].
    rewrite pslice_from by exact Hge. cbn [Py.bind].
    rewrite IH by (pose proof (slice_from_length s1 (scan_end s1 false 0)); lia).
    rewrite str_strip_eq. cbn [map]. rewrite <- app_assoc. reflexivity.
Qed.

(* the model's fuel: anything above the length of the string *)
Lemma parseparam_fuel_enough : forall fuel s, (List.length s < fuel)%nat ->
  parseparam_fuel fuel s = parseparam s.
Proof.
  assert (G : forall f1 f2 s, (List.length s < f1)%nat ->
            (List.length s < f2)%nat ->
            parseparam_fuel f1 s = parseparam_fuel f2 s).
  { induction f1 as [|f1 IH]; intros f2 s H1 H2; [lia|].
    destruct f2 as [|f2]; [lia|]. cbn [parseparam_fuel].
    destruct s as [|c s1]; [reflexivity|]. destruct (c =? 59); [|reflexivity].
    cbv zeta. f_equal. cbn [List.length] in *.
    pose proof (slice_from_length s1 (scan_end s1 false 0)).
    apply IH; lia. }
  intros fuel s H. unfold parseparam. apply G; lia.
Qed.

(* list(_parseparam(s)) for every str s *)
Theorem gen_parseparam_is_model s fuel :
  (List.length s < fuel)%nat ->
  gen_parseparam (PStr s) fuel = Py.Ok (PList (map PStr (parseparam s))).
Proof.
  intros H. unfold gen_parseparam. rewrite outer_loop by exact H.
  rewrite parseparam_fuel_enough by exact H. reflexivity.
Qed.

(* ------------------------------------------------------------------ *)
(* parse_header *)
Definition enc_pair (kv : list Z * list Z) : pv :=
  PTuple [PStr (fst kv); PStr (snd kv)].
Definition enc_dict (d : dict) : pv := PList (map enc_pair d).

Lemma items_set_enc : forall (d : dict) k v,
  items_set (map enc_pair d) (PStr k) (PStr v)
  = Some (map enc_pair (dict_set d k v)).
Proof.
  induction d as [|[k' v'] d IH]; intros k v; [reflexivity|].
  cbn [map enc_pair fst snd items_set dict_set pv_eqb].
  destruct (lz_eqb k' k); [reflexivity|]. rewrite IH. reflexivity.
Qed.

Lemma pdict_store_enc d k v :
  pdict_store (enc_dict d) (PStr k) (PStr v) = Py.Ok (enc_dict (dict_set d k v)).
Proof. unfold pdict_store, enc_dict. rewrite items_set_enc. reflexivity. Qed.

Lemma pitem_first c r : pitem (PStr (c :: r)) (PInt 0) = Py.Ok (PStr [c]).
Proof. exact (pitem_app [] c r). Qed.

Lemma pitem_last s : s <> [] ->
  pitem (PStr s) (PInt (-1)) = Py.Ok (PStr [last s 0]).
Proof.
  intros H. destruct (exists_last H) as (x & d & ->). rewrite last_last.
  unfold pitem. cbn [as_int]. unfold item_at. change (-1 <? 0) with true.
  cbn iota. rewrite app_length. cbn [List.length].
  replace (-1 + Z.of_nat (List.length x + 1)) with (Z.of_nat (List.length x))
    by lia.
  replace (Z.of_nat (List.length x) <? 0) with false
    by (symmetry; apply Z.ltb_ge; lia).
  replace (Z.of_nat (List.length x + 1) <=? Z.of_nat (List.length x)) with false
    by (symmetry; apply Z.leb_gt; lia).
  cbn [orb]. rewrite Nat2Z.id, nth_error_app2 by lia.
  rewrite Nat.sub_diag. reflexivity.
Qed.

(* value[1:-1] for len(value) >= 2 *)
Lemma pslice_inner s : 2 <= len s ->
  pslice (PStr s) (PInt 1) (PInt (-1)) = Py.Ok (PStr (removelast (tl s))).
Proof.
  intros H. unfold len in H. unfold pslice, slice_list. cbn [as_int Py.bind].
  unfold norm_idx. change (1 <? 0) with false. change (-1 <? 0) with true.
  cbn iota. rewrite (Z.min_l 1) by lia. rewrite Z.max_r by lia.
  f_equal. f_equal. destruct s as [|c r]; [cbn [List.length] in H; lia|].
  cbn [List.length tl] in *. change (Z.to_nat 1) with 1%nat. cbn [skipn].
  rewrite removelast_firstn_len. f_equal. lia.
Qed.

(* the chained test value[0] == value[-1] == (double quote) decides what the
   model tests: first and last character are both a double quote *)
Lemma quoted_test (a b : Z) : (a =? b) && (b =? 34) = (a =? 34) && (b =? 34).
Proof.
  destruct (b =? 34) eqn:E.
  - apply Z.eqb_eq in E. subst b. rewrite !andb_true_r. reflexivity.
  - rewrite !andb_false_r. reflexivity.
Qed.

(* the part of the loop body after value = p[i+1:].strip(): the unquoting
   and the store, as the model's [unquote] and [dict_set] *)
Lemma header_loop : forall parts line partsv key i0 n0 v0 d,
  gen_parse_header_loop_1 (map PStr parts) line partsv key i0 n0 v0 (enc_dict d)
  = Py.Ok (PTuple [key; enc_dict (fold_left header_param parts d)]).
Proof.
  induction parts as [|p parts IH]; intros line partsv key i0 n0 v0 d;
    [reflexivity|].
  cbn [map gen_parse_header_loop_1 fold_left]. cbv zeta.
  cbn [pfind1 Py.bind]. rewrite find_char_eq by lia.
  change (HeaderCodec.find_from 61 p 0 0) with (find 61 p 0).
  unfold header_param at 2. set (i := find 61 p 0).
  cbn [pge pcmp as_int Py.bind truthy]. rewrite Z.geb_leb.
  destruct (0 <=? i) eqn:Ei; [|apply IH].
  apply Z.leb_le in Ei.
  rewrite pslice_to by exact Ei. cbn [Py.bind pstrip plower].
  rewrite str_strip_eq, str_lower_eq.
  cbn [padd arith as_int Py.bind]. rewrite pslice_from by lia.
  cbn [Py.bind pstrip]. rewrite str_strip_eq.
  set (v := strip (slice_from p (i + 1))).
  set (name := lower (strip (slice_to p i))).
  cbn [plen Py.bind pge pcmp as_int truthy]. rewrite Z.geb_leb.
  fold (len v). unfold unquote. fold v.
  destruct (2 <=? len v) eqn:E2; cbn [andb].
  - apply Z.leb_le in E2.
    assert (Hne : v <> []) by (intros E; rewrite E in E2; cbn in E2; lia).
    destruct v as [|c r] eqn:Ev; [congruence|].
    rewrite pitem_first, pitem_last by exact Hne. cbn [Py.bind hd].
    rewrite !peq_char. cbn [Py.bind truthy].
    rewrite <- quoted_test.
    destruct (c =? last (c :: r) 0) eqn:E3; cbn [andb Py.bind truthy].
    + rewrite ?peq_char. cbn [Py.bind truthy].
      destruct (last (c :: r) 0 =? 34) eqn:E4.
      * rewrite pslice_inner by exact E2. cbn [Py.bind preplace tl].
        rewrite !(replace_pair_eq _ _ _ _ _ (le_n _)).
        rewrite pdict_store_enc. cbn [Py.bind]. apply IH.
      * rewrite pdict_store_enc. cbn [Py.bind]. apply IH.
    + rewrite pdict_store_enc. cbn [Py.bind]. apply IH.
  - rewrite pdict_store_enc. cbn [Py.bind]. apply IH.
Qed.

(* the result of parse_header as a Python value: the pair (key, dict), or
   the exception of parts.__next__() *)
Definition enc_header_outcome (o : outcome (list Z * dict)) : res pv :=
  match o with
  | HeaderCodec.Ok (key, d) => Py.Ok (PTuple [PStr key; enc_dict d])
  | HeaderCodec.Raised e => Py.Err (Py.Raised e PNone)
  end.

(* parse_header(line) for every str line; the fuel is that of the call
   _parseparam(';' + line) *)
Theorem gen_parse_header_is_model line fuel :
  (S (List.length line) < fuel)%nat ->
  gen_parse_header (PStr line) fuel = enc_header_outcome (parse_header line).
Proof.
  intros H. unfold gen_parse_header. cbn [padd Py.bind app].
  rewrite gen_parseparam_is_model by (cbn [List.length]; lia).
  cbn [Py.bind]. cbv zeta. unfold parse_header.
  destruct (parseparam (59 :: line)) as [|key parts]; [reflexivity|].
  cbn [map pnext Py.bind piter enc_header_outcome].
  change (PList []) with (enc_dict []). apply header_loop.
Qed.

(* the generated code computes, e.g. on the witness of the former finding
   param-backslash-before-next-param and on malformed text *)
Example gen_parse_header_examples :
  gen_parse_header (PStr (s2l "form-data; name=""trail\\""; FileName = ""f.txt"" ;x")) 60
  = Py.Ok (PTuple [PStr (s2l "form-data");
                   PList [PTuple [PStr (s2l "name"); PStr (s2l "trail\")];
                          PTuple [PStr (s2l "filename"); PStr (s2l "f.txt")]]])
  /\ gen_parse_header (PStr (s2l "a;b=1;B=""2\""3"";c=""")) 30
     = Py.Ok (PTuple [PStr (s2l "a");
                      PList [PTuple [PStr (s2l "b"); PStr (s2l "2""3")];
                             PTuple [PStr (s2l "c"); PStr [34]]]])
  /\ gen_parseparam (PStr (s2l ";a=""x\;"";;b")) 12
     = Py.Ok (PList [PStr (s2l "a=""x\;"""); PStr []; PStr (s2l "b")])
  /\ gen_parseparam (PStr (s2l ";a;b")) 1 = Py.Err (Py.Raised "OutOfFuel" PNone).
Proof. repeat split; vm_compute; reflexivity. Qed.
