(* Translator tie for the control-flow skeleton of the request cycle:
   the definitions of gen/DispatchGen.v (regenerated on every run from
   poorwsgi/wsgi.py by harness/py2v_dispatch.py, over lib/PyDispatch.v) are
   equal to the hand model model/Dispatch.v, for all arguments. *)
From Coq Require Import ZArith List Bool Lia.
Require Import PW.lib.Val PW.lib.Dec PW.model.Dispatch PW.lib.PyDispatch.
Require Import PW.gen.DispatchGen PW.proofs.DispatchProofs.
Import ListNotations.
Open Scope list_scope.
Open Scope Z_scope.

(* the model's big functions stay folded during computation *)
Local Arguments Dispatch.to_response : simpl never.
Local Arguments Dispatch.call : simpl never.
Local Arguments Dispatch.emit : simpl never.
Local Arguments Dispatch.assoc2 : simpl never.
Local Arguments Dispatch.assoc1 : simpl never.
Local Arguments Dispatch.state_from_table : simpl never.
Local Arguments Dispatch.error_from_table : simpl never.
Local Arguments Dispatch.exc_response : simpl never.
Local Arguments sh_has_status : simpl never.
Local Arguments Z.eqb : simpl never.
Local Arguments lz_eqb : simpl never.
Local Arguments wrapper_key : simpl never.
Local Arguments of_bool : simpl never.
Local Arguments gen_state_from_table : simpl never.
Local Arguments gen_error_from_table : simpl never.
Local Arguments gen_error_from_table_loop1 : simpl never.
Local Arguments gen_handler_from_before : simpl never.
Local Arguments gen_handler_from_before_loop1 : simpl never.
Local Arguments gen_request_loop1 : simpl never.
Local Arguments gen_request_k1 : simpl never.
Local Arguments gen_request_k2 : simpl never.

(* ---------- how model results appear as values of the generated code *)
Definition lift_opt (r : result (option resp)) : result dv :=
  match r with
  | Val (Some x) => Val (DV (PResp x))
  | Val None => Val (DV PNone)
  | Exc e => Exc e
  end.
Definition lift_unit (r : result unit) : result dv :=
  match r with Val _ => Val (DV PNone) | Exc e => Exc e end.

Ltac evnorm := rewrite ?app_nil_r, <- ?app_assoc; cbn [List.app].

Section Eq.
  Variable w : world.
  Notation ks := (w_known w).
  Notation sft := (state_from_table (w_known w) (w_builtin w) (w_page w)).
  Notation eft := (error_from_table (w_known w) (w_isinst w) (w_builtin w) (w_page w)).

  Lemma to_response_resp r : to_response ks (PResp r) = Val r.
  Proof. reflexivity. Qed.

  Lemma to_response_exc v e :
    to_response ks v = Exc e -> e = ERespErr \/ e = ETypeErr.
  Proof.
    unfold Dispatch.to_response. intros H.
    destruct v; try (destruct (make_response _ _ _ _ _); [discriminate|injection H as <-; auto]).
    - destruct items as [|d [|c [|h [|s [|x xs]]]]];
        try (injection H as <-; auto; fail);
        (destruct (make_response _ _ _ _ _); [discriminate|injection H as <-; auto]).
    - discriminate.
  Qed.

  Lemma assoc2_has_status l c m h :
    assoc2 (c, m) l = Some h -> sh_has_status l c = true.
  Proof.
    unfold sh_has_status. induction l as [|[[x y] b] l IH]; cbn; [discriminate|].
    unfold Dispatch.assoc2; fold Dispatch.assoc2. cbn [fst snd].
    destruct (x =? c) eqn:E; cbn [andb orb]; [reflexivity|]. exact IH.
  Qed.

  (* ================================================================ *)
  (* state_from_table *)
  Theorem gen_state_from_table_eq a m code kw :
    gen_state_from_table w a (DR m) (DV (PInt code)) kw
    = (lift_resp (fst (sft a m code)), snd (sft a m code)).
  Proof.
    unfold gen_state_from_table, Dispatch.state_from_table.
    destruct (assoc2 (code, m) (shandlers a)) as [h|] eqn:Ea.
    - pose proof (assoc2_has_status _ _ _ _ Ea) as Hs.
      cbn. rewrite ?Hs. cbn. rewrite ?Ea. cbn.
      destruct (call h None) as [v|e]; cbn.
      + destruct (to_response ks v) as [r|e] eqn:Et; cbn; [reflexivity|].
        destruct (to_response_exc _ _ Et) as [-> | ->]; reflexivity.
      + destruct e; cbn; try reflexivity.
        * unfold Dispatch.exc_response.
          destruct (code0 =? 0); [reflexivity|]. destruct (code0 =? 200); reflexivity.
    - cbn. destruct (sh_has_status (shandlers a) code); cbn; rewrite ?Ea; cbn.
      all: destruct (w_builtin w code) eqn:Eb; cbn; rewrite ?Eb; cbn; try reflexivity.
      all: rewrite ?Z.eqb_refl; cbn.
      all: unfold builtin_page; destruct ((code =? 401) && digest_auth a); cbn; reflexivity.
  Qed.

  (* ================================================================ *)
  (* error_from_table *)
  Definition eh_items_of (l : list (Z * list (Z * beh))) : list (dv * dv) :=
    map (fun x => (DCls (fst x), DEhRow (fst x) (snd x))) l.

  Lemma eft_loop_eq a m e l h0 :
    gen_error_from_table_loop1 w a (DR m) (DE e) (eh_items_of l) h0
    = ret (Norm (match find_ehandler (w_isinst w) e m l with
                 | Some (cls, h) => DUser h (TError cls)
                 | None => h0
                 end)).
  Proof.
    induction l as [|[cls hd] l IH]; [reflexivity|].
    cbn [eh_items_of map fst snd]. unfold gen_error_from_table_loop1; fold gen_error_from_table_loop1.
    cbn. destruct (w_isinst w e cls); cbn.
    - destruct (assoc1 m hd) as [h|] eqn:E1; cbn; rewrite ?E1; cbn; [reflexivity|].
      fold (eh_items_of l); rewrite IH; reflexivity.
    - fold (eh_items_of l); rewrite IH; reflexivity.
  Qed.

  Theorem gen_error_from_table_eq a m e :
    gen_error_from_table w a (DR m) (DE e)
    = (lift_opt (fst (eft a m e)), snd (eft a m e)).
  Proof.
    unfold gen_error_from_table. change (eh_items a) with (eh_items_of (ehandlers a)).
    cbn. rewrite eft_loop_eq. unfold Dispatch.error_from_table.
    destruct (find_ehandler (w_isinst w) e m (ehandlers a)) as [[cls h]|]; cbn; [|reflexivity].
    destruct (call h None) as [v|e']; cbn.
    - destruct (to_response ks v) as [r|e'] eqn:Et; cbn; [reflexivity|].
      destruct (to_response_exc _ _ Et) as [-> | ->]; reflexivity.
    - destruct e'; cbn; try reflexivity.
      + unfold Dispatch.exc_response.
        destruct (code =? 0); [reflexivity|]. destruct (code =? 200); [reflexivity|].
        unfold gen_error_from_table_k3. cbn. rewrite ?Z.eqb_refl. change (1 =? 0) with false. cbn.
        rewrite gen_state_from_table_eq.
        destruct (sft a m code) as [[x|z] ev]; cbn; rewrite ?to_response_resp; cbn; evnorm; reflexivity.
  Qed.

  (* ================================================================ *)
  (* handler_from_before *)
  Lemma hfb_loop_eq a x hooks : forall i,
    gen_handler_from_before_loop1 w a x (tag_hooks TBefore i hooks)
    = (match fst (run_before hooks i) with
       | Val _ => Val (Norm tt) | Exc e => Exc e end,
       snd (run_before hooks i)).
  Proof.
    induction hooks as [|b hooks IH]; intros i; [reflexivity|].
    cbn [tag_hooks run_before].
    unfold gen_handler_from_before_loop1; fold gen_handler_from_before_loop1.
    cbn. destruct (call b None) as [v|e]; cbn; [|reflexivity].
    rewrite IH. destruct (run_before hooks (S i)) as [[u|e] ev]; reflexivity.
  Qed.

  Theorem gen_handler_from_before_eq a x :
    gen_handler_from_before w a x
    = (lift_unit (fst (run_before (before a) 0)), snd (run_before (before a) 0)).
  Proof.
    unfold gen_handler_from_before, before_hooks. rewrite hfb_loop_eq.
    destruct (run_before (before a) 0) as [[u|e] ev]; cbn; evnorm; reflexivity.
  Qed.

  (* ================================================================ *)
  (* __request__ : the final part (response(start_response)) *)
  Ltac compute_keys :=
    repeat match goal with
    | |- context [lz_eqb ?l wrapper_key] =>
        let b := eval vm_compute in (lz_eqb l wrapper_key) in
        change (lz_eqb l wrapper_key) with b
    end.

  Lemma truthy_of_bool b : truthy (of_bool b) = b.
  Proof. destruct b; reflexivity. Qed.

  Lemma gen_request_k2_eq a f sr m r :
    gen_request_k2 w a f DEnv sr (DR m) (DV (PResp r))
    = (Val (Retn (DEm (emit (w_reason w) r))), []).
  Proof.
    unfold gen_request_k2, gen_request_k3. cbn. compute_keys. unfold py_eq. rewrite ?truthy_of_bool. cbn.
    match goal with |- context [lz_eqb (w_server w) ?l] => destruct (lz_eqb (w_server w) l) end; cbn; rewrite ?truthy_of_bool;
      destruct (w_fileobj w r), (w_wrapper w), (w_ranges w r); cbn; reflexivity.
  Qed.

  (* ================================================================ *)
  (* __request__ : the after-hook loop and its except clause *)
  Notation run_after := (run_after (w_known w)).
  Notation after_phase := (after_phase (w_known w) (w_isinst w) (w_builtin w) (w_page w)).

  Lemma after_loop_eq a f m hooks : forall i r,
    gen_request_loop1 w a f (DR m) (tag_hooks TAfter i hooks) (DV (PResp r))
    = (match fst (run_after hooks i r) with
       | Val r' => Val (Norm (DV (PResp r'))) | Exc e => Exc e end,
       snd (run_after hooks i r)).
  Proof.
    induction hooks as [|b hooks IH]; intros i r; [reflexivity|].
    cbn [tag_hooks Dispatch.run_after].
    unfold gen_request_loop1; fold gen_request_loop1.
    cbn. destruct (call b (Some r)) as [v|e]; cbn; [|reflexivity].
    destruct (to_response ks v) as [r'|e]; cbn; [|reflexivity].
    rewrite IH. destruct (run_after hooks (S i) r') as [[u|e] ev]; reflexivity.
  Qed.

  Definition after_out (x : result resp) : result (ctl unit) :=
    match x with
    | Val r' => Val (Retn (DEm (emit (w_reason w) r')))
    | Exc e => Exc e
    end.

  Theorem gen_request_k1_eq a f sr m r :
    gen_request_k1 w a f DEnv sr (DR m) (DV (PResp r))
    = (after_out (fst (after_phase a m r)), snd (after_phase a m r)).
  Proof.
    unfold gen_request_k1, after_hooks, Dispatch.after_phase. cbn.
    rewrite after_loop_eq.
    destruct (run_after (after a) 0 r) as [[r'|e] ev]; cbn.
    - rewrite gen_request_k2_eq. cbn. evnorm. reflexivity.
    - rewrite gen_error_from_table_eq.
      destruct (eft a m e) as [[[y|]|z] ev2]; cbn.
      + rewrite gen_request_k2_eq. cbn. evnorm. reflexivity.
      + rewrite gen_state_from_table_eq.
        destruct (sft a m 500) as [[x|z] ev3]; cbn; rewrite ?to_response_resp; cbn;
          rewrite ?gen_request_k2_eq; cbn; evnorm; reflexivity.
      + evnorm. reflexivity.
  Qed.

  (* ================================================================ *)
  (* __request__ : the try/except ladder *)
  Notation try_body := (try_body (w_known w)).
  Notation ladder := (ladder (w_known w) (w_isinst w) (w_builtin w) (w_page w)).
  Notation ise := (ise (w_page w)).

  (* the except clauses of the model's [ladder], as a function of the
     exception that left the try body *)
  Definition ladder_exc (a : app) (m : Z) (e : exn) : phase1 * list event :=
    if is_http e then
      match exc_response e with
      | Some r => (P1Resp r, [])
      | None =>
          match e with
          | EHttp c =>
              let '(r, ev2) := sft a m c in
              (match r with Val x => P1Resp x | Exc x => P1Escaped x end, ev2)
          | _ => (P1Escaped e, [])
          end
      end
    else match e with
         | EConn | EExit => (P1NoAnswer, [])
         | ERespErr =>
             let '(r, ev2) := sft a m 500 in
             (match r with Val x => P1Resp x | Exc _ => P1Resp ise end, ev2)
         | _ =>
             let '(r, ev2) := eft a m e in
             match r with
             | Val (Some x) => (P1Resp x, ev2)
             | Val None =>
                 let '(r3, ev3) := sft a m 500 in
                 (match r3 with Val x => P1Resp x | Exc _ => P1Resp ise end,
                  ev2 ++ ev3)
             | Exc _ => (P1Resp ise, ev2)
             end
         end.

  Lemma ladder_restated a f :
    ladder a f
    = let '(tb, ev) := try_body a f in
      match tb with
      | Val r => (P1Resp r, ev)
      | Exc e => let '(p, ev2) := ladder_exc a (fmethod f) e in (p, ev ++ ev2)
      end.
  Proof.
    unfold Dispatch.ladder, ladder_exc.
    destruct (try_body a f) as [[r|e] ev]; [reflexivity|].
    destruct (is_http e) eqn:Eh.
    - destruct (exc_response e); [evnorm; reflexivity|].
      destruct e as [c|r0|cls| | | |]; try (evnorm; reflexivity).
      destruct (sft a (fmethod f) c) as [x ev2]; reflexivity.
    - destruct e as [c|r0|cls| | | |]; try discriminate Eh; try (evnorm; reflexivity).
      + destruct (eft a (fmethod f) (EUser cls)) as [[[x|]|z] ev2]; try reflexivity.
        destruct (sft a (fmethod f) 500) as [y ev3]; reflexivity.
      + destruct (sft a (fmethod f) 500) as [y ev3]; reflexivity.
      + destruct (eft a (fmethod f) ETypeErr) as [[[x|]|z] ev2]; try reflexivity.
        destruct (sft a (fmethod f) 500) as [y ev3]; reflexivity.
  Qed.

  Definition lift_p1 (m : Z) (p : phase1) : result (ctl (dv * dv)) :=
    match p with
    | P1Resp r => Val (Norm (DR m, DV (PResp r)))
    | P1NoAnswer => Val (Retn (DV (PTuple [])))
    | P1Escaped e => Exc e
    end.

  Definition handle {A} (hs : list (list eclass * (exn -> M A))) (e : exn) : M A :=
    match find_clause e hs with Some h => h e | None => raise e end.

  Lemma bind_try_exc {A B} hs e ev (k : A -> M B) :
    bind_try hs (Exc e, ev) k = let '(r2, ev2) := handle hs e in (r2, ev ++ ev2).
  Proof.
    unfold bind_try, handle. destruct (find_clause e hs); [reflexivity|].
    cbn. evnorm. reflexivity.
  Qed.
  Lemma bind_try_val {A B} hs x ev (k : A -> M B) :
    bind_try hs (Val x, ev) k = let '(r2, ev2) := k x in (r2, ev ++ ev2).
  Proof. reflexivity. Qed.

  Lemma sft_val a m c : exists r, fst (sft a m c) = Val r.
  Proof. apply state_from_table_val. Qed.
  Lemma eft_val a m e : exists o, fst (eft a m e) = Val o.
  Proof. apply error_from_table_val. Qed.

  Lemma clauses_eq a f req rsp e :
    req = DR (fmethod f) \/ (req = DV PNone /\ e <> ERespErr) ->
    handle (gen_request_h1 w a f DEnv req rsp) e
    = (lift_p1 (fmethod f) (fst (ladder_exc a (fmethod f) e)),
       snd (ladder_exc a (fmethod f) e)).
  Proof.
    intros Hreq. unfold handle, gen_request_h1, ladder_exc.
    destruct Hreq as [-> | [-> Hne]]; destruct e as [c|r0|cls| | | |];
      try (exfalso; apply Hne; reflexivity); cbn; unfold gen_request_k4, gen_request_k5; cbn;
      rewrite ?Z.eqb_refl; try change (1 =? 0) with false; try change (0 =? 1) with false; cbn.
    all: try reflexivity.
    all: try (unfold Dispatch.exc_response; destruct (c =? 0); [reflexivity|];
              destruct (c =? 200); [reflexivity|]; cbn;
              rewrite gen_state_from_table_eq;
              destruct (sft a (fmethod f) c) as [[x|z] ev]; cbn; rewrite ?to_response_resp; cbn;
              evnorm; reflexivity).
    all: try (rewrite gen_error_from_table_eq;
              match goal with |- context [error_from_table _ _ _ _ ?a0 ?m ?e] =>
                destruct (eft_val a0 m e) as [o Ho]; destruct (eft a0 m e) as [y ev2];
                cbn [fst] in Ho; subst y end;
              destruct o as [x|]; cbn; [evnorm; reflexivity|]).
    all: try (rewrite gen_state_from_table_eq;
              destruct (sft_val a (fmethod f) 500) as [x Hx];
              destruct (sft a (fmethod f) 500) as [y ev3]; cbn [fst] in Hx; subst y;
              cbn; rewrite ?to_response_resp; cbn; evnorm; reflexivity).
  Qed.

  Definition fin (x : result (ctl unit)) : result dv :=
    match x with
    | Val (Norm _) => Val (DV PNone)
    | Val (Retn v) => Val v
    | Exc e => Exc e
    end.

  Local Arguments bind_try : simpl never.
  Local Arguments gen_request_h1 : simpl never.

  Ltac fin_k1 :=
    cbn; evnorm; try reflexivity;
    match goal with
    | |- context [gen_request_k1 ?w ?a ?f ?e ?s ?q ?r] =>
        destruct (gen_request_k1 w a f e s q r) as [[[?u|?v]|?z] ?ev3];
        cbn; evnorm; reflexivity
    end.
  Ltac fin_exc :=
    rewrite bind_try_exc, clauses_eq by (left; reflexivity);
    match goal with
    | |- context [ladder_exc ?a ?m ?e] =>
        destruct (ladder_exc a m e) as [[?r| |?z] ?ev2]
    end; fin_k1.
  Ltac fin_resp :=
    unfold py_to_response; cbn [dv_to_py];
    match goal with
    | |- context [to_response ?k ?v] => destruct (to_response k v) as [?r|?e]
    end; cbn [lift_resp]; [rewrite bind_try_val; fin_k1 | fin_exc].

  Theorem gen_request_ladder_eq a f sr :
    fconstruct f <> Some ERespErr ->
    gen_request w a f DEnv sr
    = let '(p, ev) := ladder a f in
      match p with
      | P1Resp r =>
          let '(x, ev2) := gen_request_k1 w a f DEnv sr (DR (fmethod f)) (DV (PResp r)) in
          (fin x, ev ++ ev2)
      | P1NoAnswer => (Val (DV (PTuple [])), ev)
      | P1Escaped e => (Exc e, ev)
      end.
  Proof.
    intros Hc. rewrite ladder_restated. unfold gen_request, Dispatch.try_body, mk_request.
    destruct (fconstruct f) as [e|] eqn:Ef.
    - cbn. unfold raise. rewrite bind_try_exc, clauses_eq by (right; split; [reflexivity|congruence]).
      destruct (ladder_exc a (fmethod f) e) as [[r| |z] ev2]; cbn; evnorm; try reflexivity.
      destruct (gen_request_k1 w a f DEnv sr (DR (fmethod f)) (DV (PResp r))) as [[[u|v]|z] ev3];
        cbn; evnorm; reflexivity.
    - cbn. unfold ret at 1. rewrite bind_try_val. unfold handler_from_table.
      destruct (fleaf f) as [b|e|v|e].
      + rewrite gen_handler_from_before_eq.
        destruct (run_before (before a) 0) as [[u|e] evb]; cbn.
        * destruct (call b None) as [v|e]; cbn.
          -- rewrite bind_try_val. fin_resp.
          -- fin_exc.
        * fin_exc.
      + rewrite gen_handler_from_before_eq.
        destruct (run_before (before a) 0) as [[u|e0] evb]; cbn; fin_exc.
      + rewrite gen_handler_from_before_eq.
        destruct (run_before (before a) 0) as [[u|e0] evb]; cbn.
        * rewrite bind_try_val. fin_resp.
        * fin_exc.
      + unfold raise. fin_exc.
  Qed.

  (* ================================================================ *)
  (* __request__ : the whole cycle, as the WSGI server observes it *)
  Notation request_cycle :=
    (request_cycle (w_known w) (w_reason w) (w_isinst w) (w_builtin w) (w_page w)).

  Theorem gen_request_eq a f sr :
    fconstruct f <> Some ERespErr ->
    observe (fst (gen_request w a f DEnv sr)) = Some (fst (request_cycle a f)) /\
    snd (gen_request w a f DEnv sr) = snd (request_cycle a f).
  Proof.
    intros Hc. rewrite (gen_request_ladder_eq a f sr Hc). unfold Dispatch.request_cycle.
    destruct (ladder a f) as [[r| |e] ev]; cbn; auto.
    rewrite gen_request_k1_eq.
    destruct (after_phase a (fmethod f) r) as [[r'|e] ev2]; cbn; auto.
  Qed.
End Eq.
