(* The content-length bookkeeping of the hand model (model/Range.v:
   resp_init / resp_step / slice_from / fileobj_answer / generator_answer)
   equals the definitions generated from the current poorwsgi/response.py
   (gen/ClenGen.v) over the Python semantics of lib/Py.v + lib/PyClen.v. *)
From Coq Require Import ZArith List Bool Lia String.
Require Import PW.lib.Val PW.lib.ValFacts PW.lib.Dec PW.lib.Py PW.lib.PyClen
  PW.model.Range PW.proofs.RangeProofs PW.gen.RangeGen PW.proofs.RangeGenEq
  PW.gen.ClenGen.
Import ListNotations.
Open Scope string_scope.
Open Scope list_scope.
Open Scope Z_scope.

(* ------------------------------------------------------------------ *)
(* the file-object primitives of lib/PyClen.v on encoded objects *)

Lemma as_file_enc f : as_file (enc_file f) = Some f.
Proof. destruct f as [r s [n|] b t d p]; reflexivity. Qed.

Lemma blen_zlen l : blen l = zlen l.
Proof. reflexivity. Qed.

Lemma buf_write_eq b p d : buf_write b p d = bytesio_write b p d.
Proof. reflexivity. Qed.

Lemma pf_bytesio_eq d : pf_bytesio (PBytes d) = Ok (enc_file (membuf d 0)).
Proof. reflexivity. Qed.

Lemma pf_seek_abs f o :
  f_seekable f = true -> 0 <= o ->
  pf_seek (enc_file f) (PInt o) (PInt 0) = Ok (enc_file (set_pos f o)).
Proof.
  intros Hs Ho. unfold pf_seek, with_file. rewrite as_file_enc.
  cbn [as_int]. rewrite Hs. cbn [negb]. change (0 =? 0) with true. cbv iota.
  replace (o <? 0) with false by (symmetry; apply Z.ltb_ge; exact Ho).
  reflexivity.
Qed.

Lemma pf_seek_abs_neg f o :
  f_seekable f = true -> o < 0 ->
  pf_seek (enc_file f) (PInt o) (PInt 0) = Err ValueError.
Proof.
  intros Hs Ho. unfold pf_seek, with_file. rewrite as_file_enc.
  cbn [as_int]. rewrite Hs. cbn [negb]. change (0 =? 0) with true. cbv iota.
  replace (o <? 0) with true by (symmetry; apply Z.ltb_lt; exact Ho).
  reflexivity.
Qed.

Lemma pf_seek_end f o :
  f_seekable f = true ->
  pf_seek (enc_file f) (PInt o) (PInt 2)
  = Ok (enc_file (set_pos f (Z.max 0 (zlen (f_data f) + o)))).
Proof.
  intros Hs. unfold pf_seek, with_file. rewrite as_file_enc.
  cbn [as_int]. rewrite Hs. reflexivity.
Qed.

Definition rest_of (f : fobj) : list Z := zdrop (f_pos f) (f_data f).

Lemma pf_read_all f :
  f_readable f = true ->
  pf_read (enc_file f) PNone
  = Ok (PBytes (rest_of f), enc_file (set_pos f (f_pos f + zlen (rest_of f)))).
Proof.
  intros Hr. unfold pf_read, with_file. rewrite as_file_enc, Hr. reflexivity.
Qed.

Lemma pf_read_n f n :
  f_readable f = true -> 0 <= n ->
  pf_read (enc_file f) (PInt n)
  = Ok (PBytes (ztake n (rest_of f)),
        enc_file (set_pos f (f_pos f + zlen (ztake n (rest_of f))))).
Proof.
  intros Hr Hn. unfold pf_read, with_file. rewrite as_file_enc, Hr.
  cbn [negb as_int].
  replace (n <? 0) with false by (symmetry; apply Z.ltb_ge; exact Hn).
  reflexivity.
Qed.

Lemma pf_write_eq f d :
  pf_write (enc_file f) (PBytes d)
  = Ok (enc_file (set_data_pos f (bytesio_write (f_data f) (f_pos f) d)
                               (f_pos f + zlen d))).
Proof. unfold pf_write, with_file. rewrite as_file_enc. reflexivity. Qed.

Lemma pf_seekable_eq f : pf_seekable (enc_file f) = Ok (PBool (f_seekable f)).
Proof. unfold pf_seekable, with_file. rewrite as_file_enc. reflexivity. Qed.
Lemma pf_readable_eq f : pf_readable (enc_file f) = Ok (PBool (f_readable f)).
Proof. unfold pf_readable, with_file. rewrite as_file_enc. reflexivity. Qed.
Lemma pf_tell_eq f :
  f_seekable f = true -> pf_tell (enc_file f) = Ok (PInt (f_pos f)).
Proof. intros H. unfold pf_tell, with_file. rewrite as_file_enc, H. reflexivity. Qed.
Lemma is_cls_bytesio f : is_cls (enc_file f) CBytesIO = f_bytesio f.
Proof. unfold is_cls. rewrite as_file_enc. reflexivity. Qed.
Lemma is_cls_text f : is_cls (enc_file f) CTextIOBase = f_text f.
Proof. unfold is_cls. rewrite as_file_enc. reflexivity. Qed.

(* the bytes a server gets when it reads the returned object to its end *)
Definition sent (v : pv) : option (list Z) :=
  match as_file v with Some f => Some (rest_of f) | None => None end.
Lemma sent_enc f : sent (enc_file f) = Some (rest_of f).
Proof. unfold sent. rewrite as_file_enc. reflexivity. Qed.

Lemma zdrop_0 {A} (l : list A) : zdrop 0 l = l.
Proof. reflexivity. Qed.

Lemma skipn_add {A} (a b : nat) : forall l : list A,
  skipn b (skipn a l) = skipn (a + b) l.
Proof.
  induction a as [|a IH]; intros l; [reflexivity|].
  destruct l as [|x l]; cbn [skipn Nat.add]; [destruct b; reflexivity|apply IH].
Qed.

Lemma zdrop_zdrop {A} a b (l : list A) :
  0 <= a -> 0 <= b -> zdrop b (zdrop a l) = zdrop (a + b) l.
Proof.
  intros Ha Hb. unfold zdrop. rewrite skipn_add.
  f_equal. lia.
Qed.

(* ------------------------------------------------------------------ *)
(* Response: the buffer is an IBytesIO; state = (buffer, tracked length) *)

Section Tie.
Variable E : list Z -> option (list Z).      (* str.encode("utf-8") *)

Definition buf_pv (r : resp) : pv := enc_file (membuf (buf r) (pos r)).
Definition clen_pv (r : resp) : pv := PInt (clen r).

(* what is handed to Response(...) / write(...): bytes or str *)
Inductive wdata := WB (d : list Z) | WS (s : list Z).
Definition wd_pv (w : wdata) : pv :=
  match w with WB d => PBytes d | WS s => PStr s end.
Definition wd_bytes (w : wdata) : option (list Z) :=
  match w with WB d => Some d | WS s => E s end.

Lemma membuf_set_pos d p q : set_pos (membuf d p) q = membuf d q.
Proof. reflexivity. Qed.

Theorem gen_response_init_eq w d ct h st :
  wd_bytes w = Some d ->
  gen_response_init E (wd_pv w) ct h st
  = Ok (PTuple [PNone; buf_pv (resp_init d); clen_pv (resp_init d);
                PInt 0; PNone]).
Proof.
  intros Hw. unfold gen_response_init, buf_pv, clen_pv, resp_init.
  cbn [buf pos clen].
  assert (Hend : pf_seek (enc_file (membuf d 0)) (PInt 0) (PInt 2)
                 = Ok (enc_file (membuf d (zlen d)))).
  { rewrite pf_seek_end by reflexivity. rewrite membuf_set_pos.
    cbn [membuf f_data]. pose proof (zlen_nonneg d).
    replace (Z.max 0 (zlen d + 0)) with (zlen d) by lia. reflexivity. }
  destruct w as [b|s]; cbn [wd_pv wd_bytes] in *.
  - injection Hw as ->.
    cbn [cl_isinstance existsb is_cls orb bind Py.truthy].
    rewrite pf_bytesio_eq. cbn [bind]. rewrite Hend. cbn [bind plen].
    reflexivity.
  - cbn [cl_isinstance existsb is_cls orb bind Py.truthy cl_encode].
    rewrite Hw. cbn [bind].
    rewrite pf_bytesio_eq. cbn [bind]. rewrite Hend. cbn [bind plen].
    reflexivity.
Qed.

(* an encoding failure is the UnicodeEncodeError of Python, before anything
   is built *)
Theorem gen_response_init_unencodable s ct h st :
  E s = None ->
  gen_response_init E (PStr s) ct h st
  = Err (Raised "UnicodeEncodeError" PNone).
Proof.
  intros He. unfold gen_response_init.
  cbn [cl_isinstance existsb is_cls orb bind Py.truthy cl_encode].
  rewrite He. reflexivity.
Qed.

Theorem gen_response_write_eq r w d :
  wd_bytes w = Some d ->
  gen_response_write E (buf_pv r) (clen_pv r) (wd_pv w)
  = Ok (PTuple [PNone; buf_pv (resp_step r (Write d));
                clen_pv (resp_step r (Write d))]).
Proof.
  intros Hw. unfold gen_response_write, buf_pv, clen_pv.
  cbn [resp_step buf pos clen].
  destruct w as [b|s]; cbn [wd_pv wd_bytes] in *.
  - injection Hw as ->.
    cbn [cl_isinstance existsb is_cls orb bind Py.truthy plen padd arith as_int].
    rewrite pf_write_eq. cbn [bind]. reflexivity.
  - cbn [cl_isinstance existsb is_cls orb bind Py.truthy cl_encode].
    rewrite Hw.
    cbn [bind plen padd arith as_int].
    rewrite pf_write_eq. cbn [bind]. reflexivity.
Qed.

(* .data: the whole buffer, whatever the position was; the position is at
   the end afterwards *)
Theorem gen_response_data_eq r :
  gen_response_data (buf_pv r)
  = Ok (PTuple [PBytes (buf r); buf_pv (resp_step r ReadData)]).
Proof.
  unfold gen_response_data, buf_pv. cbn [resp_step buf pos clen].
  rewrite pf_seek_abs by (reflexivity || lia). cbn [bind].
  rewrite pf_read_all by reflexivity. cbn [bind].
  unfold rest_of. rewrite !membuf_set_pos. cbn [membuf f_pos f_data].
  rewrite zdrop_0. reflexivity.
Qed.

(* ---- histories *)
Inductive hop := HWrite (w : wdata) | HRead.

Definition gen_step (st : pv * pv) (o : hop) : res (pv * pv) :=
  let '(b, c) := st in
  match o with
  | HWrite w =>
      r <- gen_response_write E b c (wd_pv w) ;;
      match r with PTuple [_; b'; c'] => Ok (b', c') | _ => Err TypeError end
  | HRead =>
      r <- gen_response_data b ;;
      match r with PTuple [_; b'] => Ok (b', c) | _ => Err TypeError end
  end.
Fixpoint gen_run (ops : list hop) (st : pv * pv) : res (pv * pv) :=
  match ops with
  | [] => Ok st
  | o :: t => st' <- gen_step st o ;; gen_run t st'
  end.

Fixpoint to_rops (ops : list hop) : option (list rop) :=
  match ops with
  | [] => Some []
  | HWrite w :: t =>
      match wd_bytes w, to_rops t with
      | Some d, Some l => Some (Write d :: l)
      | _, _ => None
      end
  | HRead :: t =>
      match to_rops t with Some l => Some (ReadData :: l) | None => None end
  end.

Definition st_pv (r : resp) : pv * pv := (buf_pv r, clen_pv r).

Theorem gen_run_eq ops : forall rops r,
  to_rops ops = Some rops ->
  gen_run ops (st_pv r) = Ok (st_pv (fold_left resp_step rops r)).
Proof.
  induction ops as [|o ops IH]; intros rops r H.
  - cbn [to_rops] in H. injection H as <-. reflexivity.
  - destruct o as [w|]; cbn [to_rops] in H.
    + destruct (wd_bytes w) as [d|] eqn:Ew; [|discriminate].
      destruct (to_rops ops) as [l|] eqn:El; [|discriminate].
      injection H as <-.
      cbn [gen_run gen_step st_pv]. rewrite (gen_response_write_eq r w d Ew).
      cbn [bind fold_left]. apply (IH l _ eq_refl).
    + destruct (to_rops ops) as [l|] eqn:El; [|discriminate].
      injection H as <-.
      cbn [gen_run gen_step st_pv]. rewrite gen_response_data_eq.
      cbn [bind fold_left].
      change (buf_pv (resp_step r ReadData), clen_pv r)
        with (st_pv (resp_step r ReadData)).
      apply (IH l _ eq_refl).
Qed.

(* ---- __end_of_response__ *)
Definition end_expected (b : list Z) (s : Z) (e : option Z) : pv :=
  match e with
  | None => let f := enc_file (membuf b s) in PTuple [f; f]
  | Some en =>
      let got := ztake (en - s + 1) (zdrop s b) in
      PTuple [enc_file (membuf got 0); enc_file (membuf b (s + zlen got))]
  end.

Theorem gen_response_end_eq r s e :
  0 <= s -> match e with Some en => s <= en + 1 | None => True end ->
  gen_response_end (buf_pv r) (PInt s) (inj_oz e)
  = Ok (end_expected (buf r) s e).
Proof.
  intros Hs He. unfold gen_response_end, buf_pv, end_expected.
  rewrite pf_seek_abs by (reflexivity || exact Hs). cbn [bind].
  rewrite membuf_set_pos.
  destruct e as [en|]; cbn [inj_oz pis_not_none bind Py.truthy].
  - cbn [psub padd arith as_int bind].
    rewrite pf_read_n by (reflexivity || lia). cbn [bind].
    unfold rest_of. rewrite membuf_set_pos. cbn [membuf f_pos f_data].
    rewrite pf_bytesio_eq. cbn [bind]. reflexivity.
  - reflexivity.
Qed.

(* a negative start is the ValueError of seek *)
Theorem gen_response_end_negative r s e :
  s < 0 -> gen_response_end (buf_pv r) (PInt s) e = Err ValueError.
Proof.
  intros Hs. unfold gen_response_end, buf_pv.
  rewrite pf_seek_abs_neg by (reflexivity || exact Hs). reflexivity.
Qed.

Lemma end_expected_sent b s e :
  match end_expected b s e with
  | PTuple [ret; _] => sent ret
  | _ => None
  end = Some (slice_from b s e).
Proof.
  unfold end_expected, slice_from. destruct e as [en|]; cbv zeta.
  - rewrite sent_enc. unfold rest_of. cbn [membuf f_pos f_data].
    rewrite zdrop_0. reflexivity.
  - rewrite sent_enc. reflexivity.
Qed.

End Tie.

(* the answer does not depend on a .data read just before emission *)
Corollary gen_response_end_after_data r s e :
  gen_response_end (buf_pv (resp_step r ReadData)) s e
  = gen_response_end (buf_pv r) s e.
Proof.
  unfold gen_response_end, buf_pv. cbn [resp_step buf pos].
  unfold pf_seek, with_file. rewrite !as_file_enc. reflexivity.
Qed.

(* ------------------------------------------------------------------ *)
(* FileObjResponse *)

Lemma pf_fileno_eq f :
  pf_fileno (enc_file f)
  = match f_fdsize f with
    | Some n => Ok (PTuple [PStr (s2l "fd"); PInt n])
    | None => Err (Raised "OSError" PNone)
    end.
Proof. unfold pf_fileno, with_file. rewrite as_file_enc. reflexivity. Qed.

Lemma pf_getbuffer_eq f :
  f_bytesio f = true ->
  pf_getbuffer (enc_file f)
  = Ok (PTuple [PStr (s2l "memoryview"); PInt (zlen (f_data f))]).
Proof.
  intros H. unfold pf_getbuffer, with_file. rewrite as_file_enc, H. reflexivity.
Qed.

(* the remembered position and the tracked length, as the source computes
   them: tell() only if seekable; fstat(fileno()).st_size first, the buffer
   size of a BytesIO if there is no descriptor, else unknown = 0 *)
Definition fo_pos (f : fobj) : Z := if f_seekable f then f_pos f else 0.
Definition fo_clen (f : fobj) : Z :=
  match f_fdsize f with
  | Some n => n - fo_pos f
  | None => if f_bytesio f then zlen (f_data f) - fo_pos f else 0
  end.

Theorem gen_fileobj_init_eq f ct h st :
  f_readable f = true -> f_text f = false ->
  gen_fileobj_init (enc_file f) ct h st
  = Ok (PTuple [PNone; enc_file f; PInt (fo_pos f); PInt (fo_clen f);
                PInt 0; PNone]).
Proof.
  intros Hr Ht. unfold gen_fileobj_init.
  rewrite pf_readable_eq, Hr. cbn [bind Py.truthy].
  unfold cl_isinstance at 1. cbn [existsb]. rewrite is_cls_text, Ht.
  cbn [orb bind pnot Py.truthy negb].
  assert (Hx : exn_matches (Raised "OSError" PNone) ["OSError"] = true)
    by reflexivity.
  destruct ct; cbn [pis_none bind Py.truthy]; cbv zeta;
    rewrite pf_seekable_eq; cbn [bind Py.truthy];
    unfold fo_clen, fo_pos; rewrite pf_fileno_eq;
    unfold cl_isinstance; cbn [existsb]; rewrite is_cls_bytesio;
    (destruct (f_seekable f) eqn:Hs; [rewrite (pf_tell_eq f Hs)|]; cbn [bind Py.truthy];
     destruct (f_fdsize f) as [fdsz|] eqn:Hn;
     cbn [bind pf_fstat pf_st_size psub arith as_int];
     try reflexivity;
     rewrite Hx; cbn [orb];
     destruct (f_bytesio f) eqn:Hb; cbn [bind Py.truthy];
     rewrite ?(pf_getbuffer_eq f Hb);
     cbn [bind pf_nbytes psub arith as_int]; reflexivity).
Qed.

Lemma set_pos_set_pos f a b : set_pos (set_pos f a) b = set_pos f b.
Proof. reflexivity. Qed.

(* .data: seek back to the remembered position, then everything from there;
   whatever the current position of the object is *)
Theorem gen_fileobj_data_eq f p :
  f_seekable f = true -> f_readable f = true -> 0 <= p ->
  gen_fileobj_data (enc_file f) (PInt p)
  = Ok (PTuple [PBytes (zdrop p (f_data f));
                enc_file (set_pos f (p + zlen (zdrop p (f_data f))))]).
Proof.
  intros Hs Hr Hp. unfold gen_fileobj_data.
  rewrite pf_seekable_eq, Hs. cbn [bind Py.truthy].
  rewrite pf_seek_abs by assumption. cbn [bind].
  rewrite pf_read_all by exact Hr. cbn [bind]. reflexivity.
Qed.

Theorem gen_fileobj_data_unseekable f p :
  f_seekable f = false ->
  gen_fileobj_data (enc_file f) p = Ok (PTuple [PBytes []; enc_file f]).
Proof.
  intros Hs. unfold gen_fileobj_data.
  rewrite pf_seekable_eq, Hs. reflexivity.
Qed.

Definition fo_end_expected (f : fobj) (p s : Z) (e : option Z) : pv :=
  match e with
  | None => let g := enc_file (set_pos f (p + s)) in PTuple [g; g]
  | Some en =>
      let got := ztake (en - s + 1) (zdrop (p + s) (f_data f)) in
      PTuple [enc_file (membuf got 0);
              enc_file (set_pos f (p + s + zlen got))]
  end.

Theorem gen_fileobj_end_eq f p s e :
  f_seekable f = true -> f_readable f = true -> 0 <= p + s ->
  match e with Some en => s <= en + 1 | None => True end ->
  gen_fileobj_end (enc_file f) (PInt p) (PInt s) (inj_oz e)
  = Ok (fo_end_expected f p s e).
Proof.
  intros Hs Hr Hp He. unfold gen_fileobj_end, fo_end_expected.
  rewrite pf_seekable_eq, Hs. cbn [bind Py.truthy padd arith as_int].
  rewrite pf_seek_abs by assumption. cbn [bind].
  destruct e as [en|]; cbn [inj_oz pis_not_none bind Py.truthy].
  - cbn [psub padd arith as_int bind].
    rewrite pf_read_n by (exact Hr || lia). cbn [bind].
    rewrite pf_bytesio_eq. cbn [bind]. reflexivity.
  - reflexivity.
Qed.

(* not seekable: the object itself, untouched (no range can be served) *)
Theorem gen_fileobj_end_unseekable f p s e :
  f_seekable f = false ->
  gen_fileobj_end (enc_file f) p s e = Ok (PTuple [enc_file f; enc_file f]).
Proof.
  intros Hs. unfold gen_fileobj_end.
  rewrite pf_seekable_eq, Hs. reflexivity.
Qed.

Lemma fo_end_expected_sent f p s e :
  0 <= p -> 0 <= s ->
  match fo_end_expected f p s e with
  | PTuple [ret; _] => sent ret
  | _ => None
  end = Some (slice_from (zdrop p (f_data f)) s e).
Proof.
  intros Hp Hs. unfold fo_end_expected, slice_from. destruct e as [en|]; cbv zeta.
  - rewrite sent_enc. unfold rest_of. cbn [membuf f_pos f_data].
    rewrite zdrop_0, zdrop_zdrop by assumption. reflexivity.
  - rewrite sent_enc. unfold rest_of. cbn [set_pos f_pos f_data].
    rewrite zdrop_zdrop by assumption. reflexivity.
Qed.

(* __end_of_response__ seeks itself: where the object was left (by .data, by
   the handler) does not matter *)
Corollary gen_fileobj_end_any_position f q p s e :
  f_seekable f = true ->
  gen_fileobj_end (enc_file (set_pos f q)) p s e
  = gen_fileobj_end (enc_file f) p s e.
Proof.
  intros Hs. unfold gen_fileobj_end. rewrite !pf_seekable_eq.
  cbn [set_pos f_seekable]. rewrite Hs. cbn [bind Py.truthy].
  destruct (padd p s) as [t|err]; cbn [bind]; [|reflexivity].
  unfold pf_seek, with_file. rewrite !as_file_enc. reflexivity.
Qed.

(* ------------------------------------------------------------------ *)
(* GeneratorResponse *)

Theorem gen_generator_init_eq g ct h st declared :
  gen_generator_init g ct h st declared
  = Ok (PTuple [PNone; g; declared; PInt 0; PNone]).
Proof. reflexivity. Qed.

Theorem gen_generator_end_eq chunks s e :
  gen_generator_end gen_range_generator (PList (map PBytes chunks)) (PInt s)
                    (inj_oz e)
  = Ok (PTuple [PList (map PBytes (range_gen chunks 0 s e))]).
Proof.
  unfold gen_generator_end. cbn [pis_not_none bind Py.truthy].
  rewrite gen_range_generator_eq. reflexivity.
Qed.

(* ------------------------------------------------------------------ *)
(* IBytesIO.read_kilo / __iter__: what a server that iterates the returned
   object receives is [sent] of it *)

Theorem gen_read_kilo_eq f :
  f_readable f = true ->
  gen_read_kilo (enc_file f)
  = Ok (PTuple [PBytes (ztake 1024 (rest_of f));
                enc_file (set_pos f (f_pos f + zlen (ztake 1024 (rest_of f))))]).
Proof.
  intros Hr. unfold gen_read_kilo. rewrite pf_read_n by (exact Hr || lia).
  reflexivity.
Qed.

Fixpoint kilo_chunks (fuel : nat) (l : list Z) : list (list Z) :=
  match fuel, l with
  | O, _ | _, [] => []
  | S k, _ :: _ => ztake 1024 l :: kilo_chunks k (zdrop 1024 l)
  end.

Lemma zdrop_zlen_ztake {A} n (l : list A) :
  0 <= n -> zdrop (zlen (ztake n l)) l = zdrop n l.
Proof.
  intros Hn. unfold zdrop, zlen, ztake. rewrite firstn_length, Nat2Z.id.
  destruct (Nat.le_ge_cases (Z.to_nat n) (List.length l)) as [H|H].
  - rewrite Nat.min_l by exact H. reflexivity.
  - rewrite Nat.min_r by exact H. rewrite !skipn_all2 by lia. reflexivity.
Qed.

Lemma zlen_take_drop {A} n (l : list A) :
  zlen (ztake n l) + zlen (zdrop n l) = zlen l.
Proof.
  unfold zlen, ztake, zdrop.
  rewrite <- Nat2Z.inj_add, <- app_length, firstn_skipn. reflexivity.
Qed.

Lemma kilo_chunks_concat fuel : forall l,
  (List.length l < fuel)%nat -> List.concat (kilo_chunks fuel l) = l.
Proof.
  induction fuel as [|k IH]; intros l H; [lia|].
  destruct l as [|x l]; [reflexivity|].
  cbn [kilo_chunks List.concat]. rewrite IH.
  - unfold ztake, zdrop. apply firstn_skipn.
  - unfold zdrop. rewrite skipn_length. cbn [List.length] in *. lia.
Qed.

Lemma iter_kilo_eq fuel : forall f,
  f_readable f = true -> 0 <= f_pos f ->
  (List.length (rest_of f) < fuel)%nat ->
  iter_sentinel gen_read_kilo (PBytes []) fuel (enc_file f)
  = Ok (PTuple [PList (map PBytes (kilo_chunks fuel (rest_of f)));
                enc_file (set_pos f (f_pos f + zlen (rest_of f)))]).
Proof.
  induction fuel as [|k IH]; intros f Hr Hp Hl; [lia|].
  cbn [iter_sentinel]. rewrite gen_read_kilo_eq by exact Hr.
  cbn [bind punpack2].
  destruct (rest_of f) as [|x rest] eqn:Er.
  - cbn [kilo_chunks map]. reflexivity.
  - rewrite ztake_cons by lia.
    cbn [pv_eqb lz_eqb].
    set (got := x :: ztake (1024 - 1) rest).
    assert (Hgot : got = ztake 1024 (x :: rest))
      by (rewrite ztake_cons by lia; reflexivity).
    set (f' := set_pos f (f_pos f + zlen got)).
    assert (Er' : rest_of f' = zdrop 1024 (x :: rest)).
    { unfold rest_of, f'. cbn [set_pos f_pos f_data].
      pose proof (zlen_nonneg got).
      rewrite <- zdrop_zdrop by lia. fold (rest_of f). rewrite Er, Hgot.
      apply zdrop_zlen_ztake. lia. }
    rewrite (IH f').
    + cbn [bind punpack2 kilo_chunks map]. rewrite Er'.
      unfold f'. rewrite set_pos_set_pos. cbn [set_pos f_pos].
      rewrite <- Hgot.
      replace (f_pos f + zlen got + zlen (zdrop 1024 (x :: rest)))
        with (f_pos f + zlen (x :: rest)).
      * reflexivity.
      * rewrite <- (zlen_take_drop 1024 (x :: rest)), <- Hgot. lia.
    + exact Hr.
    + unfold f'. cbn [set_pos f_pos]. pose proof (zlen_nonneg got). lia.
    + rewrite Er'. unfold zdrop. rewrite skipn_length.
      cbn [List.length] in *. lia.
Qed.

Theorem gen_ibytesio_iter_eq f fuel :
  f_readable f = true -> 0 <= f_pos f ->
  (List.length (rest_of f) < fuel)%nat ->
  exists chunks,
    gen_ibytesio_iter (enc_file f) fuel
    = Ok (PTuple [PList (map PBytes chunks);
                  enc_file (set_pos f (f_pos f + zlen (rest_of f)))])
    /\ Some (List.concat chunks) = sent (enc_file f)
    /\ Forall (fun c => c <> [] /\ zlen c <= 1024) chunks.
Proof.
  intros Hr Hp Hl. exists (kilo_chunks fuel (rest_of f)). split; [|split].
  - unfold gen_ibytesio_iter. rewrite iter_kilo_eq by assumption.
    reflexivity.
  - rewrite sent_enc, kilo_chunks_concat by exact Hl. reflexivity.
  - clear. revert fuel. generalize (rest_of f). intros l fuel. revert l.
    induction fuel as [|k IH]; intros l; [constructor|].
    destruct l as [|x l]; [constructor|].
    cbn [kilo_chunks]. constructor; [|apply IH]. split.
    + rewrite ztake_cons by lia. discriminate.
    + unfold zlen, ztake. rewrite firstn_length. lia.
Qed.

(* ------------------------------------------------------------------ *)
(* the whole answers of model/Range.v, assembled from the generated
   operations: status and headers from the tracked length through the
   window arithmetic (tied to the source by gen/RangeGen.v), the tracked
   length, the initial _start/_end and the body from gen/ClenGen.v *)

Definition body_of (endf : pv -> pv -> res pv) (s e : pv) : option (list Z) :=
  match endf s e with
  | Ok (PTuple (ret :: _)) => sent ret
  | _ => None
  end.

Definition assemble (L : Z) (s0 e0 : pv) (bodyf : pv -> pv -> option (list Z))
           (ranges : list range) : option answer :=
  match ranges with
  | [] =>
      match bodyf s0 e0 with
      | Some b => Some {| status := 200; content_range := None;
                          content_length := clen_header L; body := b |}
      | None => None
      end
  | r :: _ =>
      match range_window L r with
      | W206 s e crs cre n =>
          match bodyf (PInt s) (inj_oz e) with
          | Some b =>
              Some {| status := 206;
                      content_range :=
                        Some (content_range_text (dec crs) (dec cre) L);
                      content_length := Some (dec n); body := b |}
          | None => None
          end
      | W416 s e => Some (answer_416 L s e)
      end
  end.

Lemma assemble_eq L repr bodyf ranges :
  0 <= L -> Forall valid_range ranges ->
  (forall s e, 0 <= s ->
     match e with Some en => s <= en | None => True end ->
     bodyf (PInt s) (inj_oz e) = Some (slice_from repr s e)) ->
  assemble L (PInt 0) PNone bodyf ranges = Some (emit_known repr L ranges).
Proof.
  intros HL Hv Hb. unfold assemble, emit_known.
  destruct ranges as [|r rs].
  - pose proof (Hb 0 None (Z.le_refl 0) I) as H0. cbn [inj_oz] in H0.
    rewrite H0. reflexivity.
  - inversion Hv as [|? ? Hr _]; subst.
    pose proof (window_is_rfc L r HL Hr) as Hw.
    destruct (range_window L r) as [s e crs cre n|s e]; [|reflexivity].
    destruct (rfc_range L r) as [|f l|]; cbn [window_agrees] in Hw;
      try contradiction.
    destruct Hw as (-> & _ & _ & _ & Hf & _ & He).
    rewrite Hb; [reflexivity|lia|].
    destruct He as [->|[-> _]]; [lia|exact I].
Qed.

Section Answers.
Variable E : list Z -> option (list Z).

(* Response(data); any history of write()/.data; make_partial(ranges);
   emission *)
Definition gen_response_answer (w : wdata) (ops : list hop)
           (ranges : list range) : option answer :=
  match gen_response_init E (wd_pv w) PNone PNone PNone with
  | Ok (PTuple [_; b0; c0; s0; e0]) =>
      match gen_run E ops (b0, c0) with
      | Ok (b, PInt L) =>
          assemble L s0 e0 (body_of (gen_response_end b)) (make_partial ranges)
      | _ => None
      end
  | _ => None
  end.

Theorem gen_response_answer_eq w d ops rops ranges :
  wd_bytes E w = Some d -> to_rops E ops = Some rops ->
  Forall sane_range ranges ->
  gen_response_answer w ops ranges = Some (response_answer d rops ranges).
Proof.
  intros Hw Ho Hs. unfold gen_response_answer.
  rewrite (gen_response_init_eq E w d _ _ _ Hw).
  change (buf_pv (resp_init d), clen_pv (resp_init d)) with (st_pv (resp_init d)).
  rewrite (gen_run_eq E ops rops _ Ho).
  unfold response_answer, resp_emit.
  destruct (response_buffer d rops) as [[_ Hc] _]. cbv zeta in Hc.
  set (r := fold_left resp_step rops (resp_init d)) in *.
  cbn [st_pv clen_pv].
  apply assemble_eq.
  - rewrite Hc. apply zlen_nonneg.
  - apply make_partial_valid, Hs.
  - intros s e H0 He. unfold body_of.
    rewrite gen_response_end_eq by first [exact H0 | destruct e; [lia|exact I]].
    pose proof (end_expected_sent (buf r) s e) as Hx.
    destruct (end_expected (buf r) s e) as [| | | | |l|l|]; try discriminate.
    destruct l as [|ret [|x [|y l]]]; try discriminate; exact Hx.
Qed.

(* FileObjResponse(f) for a seekable object of known size positioned
   anywhere inside; between construction and emission the object may be left
   at any position q (a .data read, the handler) *)
Definition moved (q : Z) (v : pv) : pv :=
  match as_file v with Some g => enc_file (set_pos g q) | None => v end.

Definition gen_fileobj_answer (f : fobj) (q : Z) (ranges : list range)
  : option answer :=
  match gen_fileobj_init (enc_file f) PNone PNone PNone with
  | Ok (PTuple [_; fl; p; PInt L; s0; e0]) =>
      assemble L s0 e0 (body_of (gen_fileobj_end (moved q fl) p))
               (make_partial ranges)
  | _ => None
  end.

Definition size_known (f : fobj) : Prop :=
  f_fdsize f = Some (zlen (f_data f)) \/
  (f_fdsize f = None /\ f_bytesio f = true).

Theorem gen_fileobj_answer_eq f q ranges :
  f_readable f = true -> f_text f = false -> f_seekable f = true ->
  size_known f -> 0 <= f_pos f <= zlen (f_data f) ->
  Forall sane_range ranges ->
  gen_fileobj_answer f q ranges
  = Some (fileobj_answer (f_data f) (f_pos f) ranges).
Proof.
  intros Hr Ht Hsk Hsz Hp Hs. unfold gen_fileobj_answer.
  rewrite (gen_fileobj_init_eq f _ _ _ Hr Ht).
  assert (Hpos : fo_pos f = f_pos f) by (unfold fo_pos; rewrite Hsk; reflexivity).
  assert (Hlen : fo_clen f = zlen (f_data f) - f_pos f).
  { unfold fo_clen. rewrite Hpos.
    destruct Hsz as [->|[-> ->]]; reflexivity. }
  rewrite Hpos, Hlen. unfold fileobj_answer, moved. rewrite as_file_enc.
  apply assemble_eq.
  - lia.
  - apply make_partial_valid, Hs.
  - intros s e H0 He. unfold body_of.
    rewrite (gen_fileobj_end_any_position f q _ _ _ Hsk).
    rewrite gen_fileobj_end_eq
      by first [assumption | lia | destruct e; [lia|exact I]].
    pose proof (fo_end_expected_sent f (f_pos f) s e (proj1 Hp) H0) as Hx.
    destruct (fo_end_expected f (f_pos f) s e) as [| | | | |l|l|]; try discriminate.
    destruct l as [|ret [|x [|y l]]]; try discriminate; exact Hx.
Qed.

(* GeneratorResponse(chunks, content_length=declared) *)
Fixpoint unbytes (items : list pv) : option (list (list Z)) :=
  match items with
  | [] => Some []
  | PBytes b :: t =>
      match unbytes t with Some l => Some (b :: l) | None => None end
  | _ :: _ => None
  end.
Lemma unbytes_map l : unbytes (map PBytes l) = Some l.
Proof.
  induction l as [|b l IH]; [reflexivity|]. cbn [map unbytes]. rewrite IH.
  reflexivity.
Qed.

Definition chunks_of (g s e : pv) : option (list (list Z)) :=
  match gen_generator_end gen_range_generator g s e with
  | Ok (PTuple [PList items]) => unbytes items
  | _ => None
  end.

Definition gen_generator_answer (chunks : list (list Z)) (declared : Z)
           (ranges : list range) : option ganswer :=
  match gen_generator_init (PList (map PBytes chunks)) PNone PNone PNone
                           (PInt declared) with
  | Ok (PTuple [_; g; PInt L; s0; e0]) =>
      match make_partial ranges with
      | [] =>
          match chunks_of g s0 e0 with
          | Some cs => Some {| g_status := 200; g_content_range := None;
                               g_content_length := clen_header L;
                               g_chunks := cs |}
          | None => None
          end
      | r :: _ =>
          match range_window L r with
          | W206 s e crs cre n =>
              match chunks_of g (PInt s) (inj_oz e) with
              | Some cs =>
                  Some {| g_status := 206;
                          g_content_range :=
                            Some (content_range_text (dec crs) (dec cre) L);
                          g_content_length := Some (dec n); g_chunks := cs |}
              | None => None
              end
          | W416 s e =>
              Some {| g_status := 416;
                      g_content_range :=
                        Some (content_range_text (show_oz s) (show_oz e) L);
                      g_content_length := None; g_chunks := [] |}
          end
      end
  | _ => None
  end.

Theorem gen_generator_answer_eq chunks declared ranges :
  gen_generator_answer chunks declared ranges
  = Some (generator_answer chunks declared ranges).
Proof.
  unfold gen_generator_answer, generator_answer, chunks_of.
  rewrite gen_generator_init_eq.
  destruct (make_partial ranges) as [|r rs].
  - change PNone with (inj_oz None).
    rewrite gen_generator_end_eq, unbytes_map. reflexivity.
  - destruct (range_window declared r) as [s e crs cre n|s e]; [|reflexivity].
    rewrite gen_generator_end_eq, unbytes_map. reflexivity.
Qed.

End Answers.

(* ------------------------------------------------------------------ *)
(* the slice served (C07), in one statement per class *)

Theorem gen_response_end_slice r s e :
  0 <= s -> match e with Some en => s <= en + 1 | None => True end ->
  exists ret b',
    gen_response_end (buf_pv r) (PInt s) (inj_oz e) = Ok (PTuple [ret; b'])
    /\ sent ret = Some (slice_from (buf r) s e).
Proof.
  intros Hs He. rewrite gen_response_end_eq by assumption.
  pose proof (end_expected_sent (buf r) s e) as Hx.
  unfold end_expected in *. destruct e as [en|]; cbv zeta in *; eauto.
Qed.

Theorem gen_fileobj_end_slice f q s e :
  f_seekable f = true -> f_readable f = true -> 0 <= f_pos f -> 0 <= s ->
  match e with Some en => s <= en + 1 | None => True end ->
  exists ret f',
    gen_fileobj_end (enc_file (set_pos f q)) (PInt (f_pos f)) (PInt s) (inj_oz e)
    = Ok (PTuple [ret; f'])
    /\ sent ret = Some (slice_from (zdrop (f_pos f) (f_data f)) s e).
Proof.
  intros Hsk Hr Hp Hs He.
  rewrite (gen_fileobj_end_any_position f q _ _ _ Hsk).
  rewrite gen_fileobj_end_eq by first [assumption | lia].
  pose proof (fo_end_expected_sent f (f_pos f) s e Hp Hs) as Hx.
  unfold fo_end_expected in *. destruct e as [en|]; cbv zeta in *; eauto.
Qed.
