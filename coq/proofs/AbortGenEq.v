(* Translator tie for the abort object (C04): the definitions of
   gen/AbortGen.v (regenerated on every run from poorwsgi/response.py, class
   HTTPException and function abort, by harness/py2v_abort.py, over
   lib/PyAbort.v + lib/PyShapes.v + lib/PyDispatch.v) are equal to what the
   hand model model/Dispatch.v does with an abort: [exc_response] (through
   the primitive [exn_make_response] of lib/PyDispatch.v that the generated
   request cycle calls for `http_err.make_response()`), the status an abort
   carries, and the exception [call (Abort c)] / [call (AbortResp r)]
   raises.  RedirectResponse.__init__ / redirect (section 4) have no
   counterpart in the model: their behaviour is stated here
   ([redirect_status], [redirect_response]) and proved of the generated
   code. *)
From Coq Require Import ZArith List Bool Lia String.
Require Import PW.lib.Val PW.lib.Dec PW.model.Dispatch PW.lib.PyDispatch PW.lib.PyShapes
               PW.lib.PyAbort.
Require Import PW.gen.AbortGen.
Import ListNotations.
Open Scope list_scope.
Open Scope Z_scope.

Local Arguments s2l : simpl never.
Local Arguments of_bool : simpl never.
Local Arguments Dispatch.xpb : simpl never.

(* the exception object as the generated request cycle sees it: `self` is
   [DE e], `self.args` is what [getattr_] gives for it *)
Definition self_args (w : world) (e : exn) : M dv := getattr_ w (DE e) A_args.

Lemma self_args_eq w e : self_args w e = ret (DArgs e).
Proof. reflexivity. Qed.

(* ---------- (1) HTTPException.make_response *)
Section MakeResponse.
  Variable w : world.
  Variable a : app.
  (* EmptyResponse() / Declined() are built through BaseResponse.__init__,
     which looks the status up in http.client.responses *)
  Hypothesis known_200 : w_known w 200 = true.
  Hypothesis known_204 : w_known w 204 = true.

  Lemma truthy_of_bool b : truthy (of_bool b) = b.
  Proof. destruct b; reflexivity. Qed.

  Theorem gen_abort_make_response_eq e :
    is_http e = true ->
    bind (self_args w e) (gen_abort_make_response w a) = exn_make_response (DE e).
  Proof.
    intros H. unfold exn_make_response. rewrite H.
    destruct e as [c|r| | | | |]; try discriminate H; clear H.
    - unfold self_args, gen_abort_make_response, gen_abort_make_response_k1,
        gen_abort_make_response_k2, gen_abort_make_response_k3, py_eq.
      cbn. rewrite !truthy_of_bool.
      unfold c_Declined, c_EmptyResponse, c_NoContentResponse, base_init, of_opt,
        Dispatch.mk_status.
      cbn [dv_to_py]. rewrite known_200, known_204.
      destruct (c =? 0) eqn:E0; [reflexivity|].
      destruct (c =? 200) eqn:E2; reflexivity.
    - reflexivity.
  Qed.

  (* the same with the model's function spelled out *)
  Corollary gen_abort_make_response_model e :
    is_http e = true ->
    bind (self_args w e) (gen_abort_make_response w a)
    = ret (match exc_response e with Some r => DV (PResp r) | None => DV PNone end).
  Proof.
    intros H. rewrite gen_abort_make_response_eq by exact H.
    unfold exn_make_response. rewrite H. reflexivity.
  Qed.
End MakeResponse.

Theorem abort_make_response_tie :
  forall w a e,
    w_known w 200 = true -> w_known w 204 = true -> is_http e = true ->
    bind (self_args w e) (gen_abort_make_response w a) = exn_make_response (DE e)
    /\ exn_make_response (DE e)
       = ret (match exc_response e with Some r => DV (PResp r) | None => DV PNone end).
Proof.
  intros w a e H2 H4 H. split.
  - exact (gen_abort_make_response_eq w a H2 H4 e H).
  - rewrite <- (gen_abort_make_response_eq w a H2 H4 e H).
    exact (gen_abort_make_response_model w a H2 H4 e H).
Qed.

(* ---------- (2) the properties response / status_code and __init__ *)
(* what an abort carries; the model has no separate function for these: the
   ladder reads the code of [EHttp c] directly (state_from_table a m c) and
   answers [EHttpResp r] with r itself *)
Definition abort_response (e : exn) : option resp :=
  match e with EHttpResp r => Some r | _ => None end.
Definition abort_status (e : exn) : option Z :=
  match e with EHttp c => Some c | EHttpResp r => Some (rstatus r) | _ => None end.
(* the exception an abort argument makes: the model's [call (Abort c)] /
   [call (AbortResp r)] *)
Definition abort_exn (v : pyval) : option exn :=
  match v with PInt c => Some (EHttp c) | PResp r => Some (EHttpResp r) | _ => None end.

Theorem gen_abort_response_eq w a e :
  is_http e = true ->
  bind (self_args w e) (gen_abort_response w a)
  = ret (match abort_response e with Some r => DV (PResp r) | None => DV PNone end).
Proof. destruct e; intros H; try discriminate H; reflexivity. Qed.

Theorem gen_abort_status_code_eq w a e c :
  abort_status e = Some c ->
  bind (self_args w e) (gen_abort_status_code w a) = ret (DV (PInt c)).
Proof.
  destruct e; intros H; try discriminate H; injection H as <-; reflexivity.
Qed.

(* the response property agrees with make_response on a response abort, and
   the status of an abort(response) is the status of the response the
   ladder answers with *)
Lemma abort_response_is_exc_response e r :
  abort_response e = Some r -> exc_response e = Some r /\ abort_status e = Some (rstatus r).
Proof. destruct e; intros H; try discriminate H; injection H as <-; split; reflexivity. Qed.

Theorem abort_status_code_tie :
  forall w a,
    (forall c, bind (self_args w (EHttp c)) (gen_abort_status_code w a) = ret (DV (PInt c)))
    /\ (forall r, exc_response (EHttpResp r) = Some r
                  /\ bind (self_args w (EHttpResp r)) (gen_abort_status_code w a)
                     = ret (DV (PInt (rstatus r))))
    /\ (forall e, is_http e = true ->
                  bind (self_args w e) (gen_abort_response w a)
                  = ret (match e with EHttpResp r => DV (PResp r) | _ => DV PNone end)).
Proof.
  intros w a. split; [|split].
  - intros c. apply gen_abort_status_code_eq. reflexivity.
  - intros r. split; [reflexivity|]. apply gen_abort_status_code_eq. reflexivity.
  - intros e H. rewrite gen_abort_response_eq by exact H.
    destruct e; reflexivity.
Qed.

(* [exc_init] is the inverse of reading `self.args[i]` *)
Lemma exc_init_subscript w a x0 x1 t :
  exc_init [x0; x1] = ret t ->
  subscript w a t (DV (PInt 0)) = ret x0 /\ subscript w a t (DV (PInt 1)) = ret x1.
Proof.
  unfold exc_init.
  destruct x0; try discriminate.
  match goal with v : pyval |- _ => destruct v; try discriminate end.
  all: destruct x1; try discriminate.
  all: intros H; injection H as <-; split; reflexivity.
Qed.

Theorem gen_abort_init_eq w a v :
  gen_abort_init w a (DV v) DKw
  = match abort_exn v with Some e => self_args w e | None => raise assert_error end.
Proof. destruct v; reflexivity. Qed.

(* ---------- the class: it derives from Exception (so `except
   HTTPException` / `except Exception` see it, and it is no SystemExit), and
   response / status_code are properties *)
Theorem gen_abort_bases_eq : gen_abort_bases = [KException].
Proof. reflexivity. Qed.
Theorem gen_abort_bases_isa e :
  is_http e = true -> forallb (exn_isa e) (KHTTPException :: gen_abort_bases) = true.
Proof. destruct e; intros H; try discriminate H; reflexivity. Qed.
(* the members of the class and how they are reached *)
Definition abort_members_model : list (list Z * abkind) :=
  [(s2l "__init__"%string, AbMethod); (s2l "make_response"%string, AbMethod);
   (s2l "response"%string, AbProperty); (s2l "status_code"%string, AbProperty)].
Theorem gen_abort_members_eq : gen_abort_members = abort_members_model.
Proof. reflexivity. Qed.

(* ---------- (3) abort(arg) *)
Theorem gen_abort_eq w a v :
  gen_abort w a (DV v)
  = match abort_exn v with Some e => raise e | None => raise assert_error end.
Proof. destruct v; reflexivity. Qed.

Theorem abort_raises_tie :
  forall w a g,
    (forall c, gen_abort w a (DV (PInt c)) = (lift_py (call (Abort c) g), []))
    /\ (forall r, gen_abort w a (DV (PResp r)) = (lift_py (call (AbortResp r) g), []))
    /\ (forall v, (forall c, v <> PInt c) -> (forall r, v <> PResp r) ->
                  gen_abort w a (DV v) = raise assert_error)
    /\ (forall v, gen_abort_init w a (DV v) DKw
                  = match v with
                    | PInt c => self_args w (EHttp c)
                    | PResp r => self_args w (EHttpResp r)
                    | _ => raise assert_error
                    end)
    /\ (forall e, is_http e = true ->
                  forallb (exn_isa e) (KHTTPException :: gen_abort_bases) = true)
    /\ gen_abort_members = abort_members_model.
Proof.
  intros w a g. repeat split.
  - intros v Hc Hr. rewrite gen_abort_eq.
    destruct v; try reflexivity; [exfalso; eapply Hc | exfalso; eapply Hr]; reflexivity.
  - intros v. rewrite gen_abort_init_eq. destruct v; reflexivity.
  - exact gen_abort_bases_isa.
Qed.

(* ---------- (4) RedirectResponse.__init__ and redirect.  The hand model has
   no counterpart (a redirect is just one more [AbortResp r]); its behaviour
   is stated here as a small definition and the generated code is proved
   equal to it.  [tr x] stands for `x is True`. *)
Definition redirect_status (is_true : bool) (status permanent : dv) : dv :=
  if is_true || truthy permanent then DV (PInt 301) else status.
Definition redirect_response (w : world) (location status message headers : dv) : M dv :=
  bind (c_Response w message (DV (PStr (s2l "text/plain"%string))) headers status)
       (fun r => resp_add_header r (DV (PStr (s2l "Location"%string))) location).

Definition location_name : list Z := s2l "Location"%string.
Definition text_plain : list Z := s2l "text/plain"%string.

Lemma run_fn_bind2 (m : M dv) (k : dv -> M dv) :
  run_fn (bind m (fun x => bind (k x) (fun y => ret (Retn y)))) = bind m k.
Proof.
  destruct m as [[x|e] ev]; cbn; [|reflexivity].
  destruct (k x) as [[y|e] ev2]; cbn; rewrite ?app_nil_r; reflexivity.
Qed.

Theorem gen_redirect_response_init_eq w a tr loc st msg hdrs perm :
  gen_redirect_response_init w a tr loc st msg hdrs perm
  = redirect_response w loc (redirect_status (tr st) st perm) msg hdrs.
Proof.
  unfold gen_redirect_response_init, gen_redirect_response_init_k1, redirect_status,
    redirect_response.
  destruct (tr st || truthy perm); apply run_fn_bind2.
Qed.

Theorem gen_redirect_response_init_defaults_eq :
  gen_redirect_response_init_defaults
  = [DV (PInt 302); DV (PBytes []); DV PNone; of_bool false].
Proof. reflexivity. Qed.
Theorem gen_redirect_defaults_eq :
  gen_redirect_defaults = [DV (PInt 302); DV (PBytes []); DV PNone; of_bool false].
Proof. reflexivity. Qed.

(* what a successfully built redirect response looks like *)
Lemma dv_to_py_int x s : dv_to_py x = PInt s -> x = DV (PInt s).
Proof. destruct x; cbn; intros H; try discriminate H; congruence. Qed.

Theorem redirect_response_shape w loc st msg hdrs x ev :
  redirect_response w loc st msg hdrs = (Val x, ev) ->
  ev = [] /\
  exists r s l l' hs0,
    x = DV (PResp r) /\ st = DV (PInt s) /\ loc = DV (PStr l) /\
    w_known w s = true /\ utf8 l = Some l' /\
    mk_headers (dv_to_py hdrs) = Some hs0 /\
    rcls r = CBase /\ rstatus r = s /\ rctype r = s2l "text/plain"%string /\
    rhdrs r = hs0 ++ [(s2l "Location"%string, l')].
Proof.
  unfold redirect_response, c_Response, response_of, base_init, of_opt.
  change (mk_ctype (dv_to_py (DV (PStr (s2l "text/plain"%string)))))
    with (Some (s2l "text/plain"%string)).
  destruct (mk_headers (dv_to_py hdrs)) as [hs0|]; [|discriminate].
  unfold Dispatch.mk_status.
  destruct (dv_to_py st) as [?|?|?|?|?|?| |s| |?|?|?] eqn:Est; try discriminate.
  apply dv_to_py_int in Est. subst st.
  destruct (w_known w s) eqn:Ek; [|discriminate].
  assert (Hadd : forall r0 : resp,
    rcls r0 = CBase -> rstatus r0 = s -> rctype r0 = s2l "text/plain"%string ->
    rhdrs r0 = hs0 ->
    bind (ret (DV (PResp r0)))
         (fun r => resp_add_header r (DV (PStr (s2l "Location"%string))) loc) = (Val x, ev) ->
    ev = [] /\
    exists r s0 l l' hs1,
      x = DV (PResp r) /\ DV (PInt s) = DV (PInt s0) /\ loc = DV (PStr l) /\
      w_known w s0 = true /\ utf8 l = Some l' /\ Some hs0 = Some hs1 /\
      rcls r = CBase /\ rstatus r = s0 /\ rctype r = s2l "text/plain"%string /\
      rhdrs r = hs1 ++ [(s2l "Location"%string, l')]).
  { intros r0 H1 H2 H3 H4. unfold bind, ret, resp_add_header.
    change (utf8 (s2l "Location"%string)) with (Some (s2l "Location"%string)).
    destruct loc as [v|? ?|?|?|?|?| | | |?| |?|?|?| | | | |?| ]; try discriminate.
    destruct v as [l|?|?|?|?|?| |?| |?|?|?]; try discriminate.
    destruct (utf8 l) as [l'|] eqn:El; [|discriminate].
    cbn. intros H. injection H as <- <-. split; [reflexivity|].
    exists (mkResp (rcls r0) (rstatus r0) (rhdrs r0 ++ [(s2l "Location"%string, l')])
                   (rctype r0) (rclen r0) (rbody r0)), s, l, l', hs0.
    cbn. rewrite H4. repeat split; assumption. }
  destruct (dv_to_py msg) as [m|b|?|?|?|?| |?| |?|?|?]; try discriminate.
  - destruct (utf8 m) as [b|]; [|discriminate]. cbn [option_map].
    apply Hadd; reflexivity.
  - apply Hadd; reflexivity.
Qed.

(* status: 301 when `status_code is True or permanent`, else the given one
   (302 by default: gen_redirect_defaults_eq); Location: the argument *)
Theorem redirect_status_and_location_tie :
  forall w a tr loc st msg hdrs perm x ev,
    gen_redirect_response_init w a tr loc st msg hdrs perm = (Val x, ev) ->
    ev = [] /\
    exists r l l',
      x = DV (PResp r) /\ loc = DV (PStr l) /\ utf8 l = Some l' /\
      rcls r = CBase /\
      (tr st || truthy perm = true -> rstatus r = 301) /\
      (tr st || truthy perm = false -> st = DV (PInt (rstatus r))) /\
      hdr_get (s2l "Location"%string) (rev (rhdrs r)) = Some l' /\
      gen_redirect_defaults = [DV (PInt 302); DV (PBytes []); DV PNone; of_bool false] /\
      gen_redirect_response_init_defaults = gen_redirect_defaults.
Proof.
  intros w a tr loc st msg hdrs perm x ev H.
  rewrite gen_redirect_response_init_eq in H.
  apply redirect_response_shape in H.
  destruct H as [Hev (r & s & l & l' & hs0 & Hx & Hst & Hl & Hk & Hu & Hh & Hc & Hs & Ht & Hhd)].
  split; [exact Hev|]. exists r, l, l'. repeat split; try assumption.
  - intros Hb. unfold redirect_status in Hst. rewrite Hb in Hst. congruence.
  - intros Hb. unfold redirect_status in Hst. rewrite Hb in Hst. congruence.
  - rewrite Hhd, rev_app_distr. reflexivity.
Qed.

(* redirect(...) raises HTTPException(<that response>): the model's
   [call (AbortResp r)]; a failing constructor's exception propagates *)
Theorem redirect_raises_tie :
  forall w a tr loc st msg hdrs perm g,
    match gen_redirect_response_init w a tr loc st msg hdrs perm with
    | (Val (DV (PResp r)), ev) =>
        gen_redirect w a tr loc st msg hdrs perm = (lift_py (call (AbortResp r) g), ev)
    | (Val _, _) => False
    | (Exc e, ev) => gen_redirect w a tr loc st msg hdrs perm = (Exc e, ev)
    end.
Proof.
  intros w a tr loc st msg hdrs perm g. unfold gen_redirect.
  destruct (gen_redirect_response_init w a tr loc st msg hdrs perm) as [[x|e] ev] eqn:E.
  - destruct (redirect_status_and_location_tie _ _ _ _ _ _ _ _ _ _ E)
      as [-> (r & l & l' & -> & _)].
    reflexivity.
  - reflexivity.
Qed.

(* non-vacuity: redirect(location) with the default arguments *)
Theorem redirect_default_example :
  forall w a tr l l',
    w_known w 302 = true -> tr (DV (PInt 302)) = false -> utf8 l = Some l' ->
    gen_redirect w a tr (DV (PStr l)) (DV (PInt 302)) (DV (PBytes [])) (DV PNone)
                 (of_bool false)
    = raise (EHttpResp (mkResp CBase 302 [xpb; (s2l "Location"%string, l')]
                               (s2l "text/plain"%string) 0 [[]])).
Proof.
  intros w a tr l l' Hk Ht Hu.
  unfold gen_redirect. rewrite gen_redirect_response_init_eq.
  unfold redirect_status. rewrite Ht.
  unfold redirect_response, c_Response, response_of, base_init, of_opt, Dispatch.mk_status.
  change (truthy (of_bool false)) with false.
  cbn.
  change (utf8 (s2l "text/plain"%string)) with (Some (s2l "text/plain"%string)).
  cbn. rewrite Hk. cbn.
  change (utf8 (s2l "Location"%string)) with (Some (s2l "Location"%string)).
  rewrite Hu. reflexivity.
Qed.
