From Coq Require Import ZArith List Bool Lia Arith.
Require Import PW.lib.Val PW.model.Dispatch PW.model.Isolation.
Import ListNotations.
Open Scope Z_scope.

(* ================= Part A: debug_info does not write shared objects *)

Lemma hget_hset_other h n d id : id <> n -> hget (hset h n d) id = hget h id.
Proof.
  intros Hn. induction h as [|[i x] h IH]; cbn [hset hget].
  - replace (n =? id) with false by (symmetry; apply Z.eqb_neq; lia). reflexivity.
  - destruct (i =? n) eqn:E; cbn [hget].
    + apply Z.eqb_eq in E. subst i.
      replace (n =? id) with false by (symmetry; apply Z.eqb_neq; lia). reflexivity.
    + destruct (i =? id); [reflexivity|exact IH].
Qed.

Definition maxid (h : heap) : Z := fold_right (fun kv m => Z.max (fst kv) m) 0 h.
Lemma fresh_eq h : fresh h = 1 + maxid h.
Proof. reflexivity. Qed.

Lemma maxid_hset h n d : Z.max (maxid h) n <= maxid (hset h n d) \/ maxid (hset h n d) = Z.max (maxid h) n.
Proof.
  right. induction h as [|[i x] h IH]; cbn [hset maxid fold_right fst].
  - lia.
  - destruct (i =? n) eqn:E; cbn [maxid fold_right fst].
    + apply Z.eqb_eq in E. subst. fold (maxid h). lia.
    + fold (maxid (hset h n d)). fold (maxid h). rewrite IH. lia.
Qed.

Lemma fresh_hset h n d : fresh h <= fresh (hset h n d) /\ n < fresh (hset h n d).
Proof.
  rewrite !fresh_eq. destruct (maxid_hset h n d) as [H|H]; lia.
Qed.

Lemma copy_all_frame t : forall h h' r,
  copy_all h t = (h', r) ->
  (forall id, id < fresh h -> hget h' id = hget h id) /\
  (forall k n, In (k, n) r -> fresh h <= n) /\ fresh h <= fresh h'.
Proof.
  induction t as [|[k id0] t IH]; intros h h' r H; cbn [copy_all] in H.
  - injection H as <- <-. repeat split; try lia. intros k n [].
  - set (d := match hget h id0 with Some d => d | None => [] end) in *.
    set (n := fresh h) in *.
    destruct (copy_all (hset h n d) t) as [h1 r1] eqn:E.
    injection H as <- <-.
    destruct (IH _ _ _ E) as (F1 & F2 & F3).
    destruct (fresh_hset h n d) as [G1 G2]. fold n in G1.
    repeat split.
    + intros id Hid. rewrite F1 by lia. apply hget_hset_other. unfold n. lia.
    + intros k' n' [Heq|Hin].
      * injection Heq as <- <-. unfold n. lia.
      * specialize (F2 _ _ Hin). lia.
    + lia.
Qed.

Lemma tget_app t1 t2 k :
  tget (t1 ++ t2) k = match tget t1 k with Some x => Some x | None => tget t2 k end.
Proof.
  induction t1 as [|[a x] t1 IH]; cbn [List.app tget]; [reflexivity|].
  destruct (a =? k); [reflexivity|exact IH].
Qed.

Lemma merge_user_frame F user : forall h tmp h' tmp',
  NoDup (map fst user) ->
  (forall k n, tget tmp k = Some n -> n < F -> ~ In k (map fst user)) ->
  merge_user h tmp user = (h', tmp') ->
  forall id, id < F -> hget h' id = hget h id.
Proof.
  induction user as [|[k uid] user IH]; intros h tmp h' tmp' Hnd Hinv H id Hid;
    cbn [merge_user] in H.
  - injection H as <- _. reflexivity.
  - inversion Hnd as [|? ? Hk Hnd']; subst. cbn [map fst] in *.
    destruct (tget tmp k) as [tid|] eqn:Et.
    + assert (Htid : F <= tid).
      { destruct (Z_lt_le_dec tid F) as [Hlt|]; [|assumption].
        exfalso. apply (Hinv k tid Et Hlt). left. reflexivity. }
      erewrite IH; [| exact Hnd' | | exact H | exact Hid].
      * apply hget_hset_other. lia.
      * intros k' n' Hg Hn' Hin. apply (Hinv k' n' Hg Hn'). right. exact Hin.
    + eapply IH; [exact Hnd' | | exact H | exact Hid].
      intros k' n' Hg Hn' Hin. rewrite tget_app in Hg.
      destruct (tget tmp k') eqn:Et'.
      * injection Hg as ->. apply (Hinv k' n' Et' Hn'). right. exact Hin.
      * cbn [tget] in Hg. destruct (k =? k') eqn:Ek; [|discriminate].
        apply Z.eqb_eq in Ek. subst k'. contradiction.
Qed.

Lemma tget_In t k n : tget t k = Some n -> In (k, n) t.
Proof.
  induction t as [|[a x] t IH]; cbn [tget]; [discriminate|].
  destruct (a =? k) eqn:E.
  - apply Z.eqb_eq in E. subst. intros H; injection H as ->. left. reflexivity.
  - intros H. right. auto.
Qed.

(* every dictionary object that existed before debug_info ran (the inner
   dictionaries of default_states, of every application's tables, ...) is
   unchanged afterwards *)
Theorem debug_info_frame h defaults user :
  NoDup (map fst user) ->
  forall id, id < fresh h ->
    hget (fst (debug_info_merge h defaults user)) id = hget h id.
Proof.
  intros Hnd id Hid. unfold debug_info_merge.
  destruct (copy_all h defaults) as [h1 tmp] eqn:Ec.
  destruct (copy_all_frame _ _ _ _ Ec) as (F1 & F2 & F3).
  destruct (merge_user h1 tmp user) as [h2 tmp2] eqn:Em. cbn [fst].
  rewrite (merge_user_frame (fresh h) user h1 tmp h2 tmp2 Hnd); [apply F1; exact Hid| |exact Em|exact Hid].
  intros k n Hg Hn _. apply tget_In in Hg. specialize (F2 _ _ Hg). lia.
Qed.

(* the pre-fix code (no copy) does not have the frame property: the model
   distinguishes the two *)
Theorem aliasing_variant_writes_shared :
  exists h defaults user id,
    NoDup (map fst user) /\ id < fresh h /\
    hget (fst (debug_info_merge_aliasing h defaults user)) id <> hget h id.
Proof.
  exists [(1, [(2, 100)]); (2, [(2, 200)])], [(404, 1)], [(404, 2)], 1.
  split; [repeat constructor; intros []|]. split; [vm_compute; reflexivity|].
  vm_compute. discriminate.
Qed.

(* ================= Part B: schedules *)

Section SchedP.
  Variables (G L : Type).
  Variable rstep : G -> L -> L.

  Lemma run_schedule_globals sched : forall c,
    fst (run_schedule G L rstep sched c) = fst c.
  Proof.
    induction sched as [|i s IH]; intros c; cbn [run_schedule fold_left]; [reflexivity|].
    unfold run_schedule in IH. rewrite IH. reflexivity.
  Qed.

  Lemma nth_error_upd f : forall ls i j,
    nth_error (upd L j f ls) i =
    if Nat.eqb i j then option_map f (nth_error ls i) else nth_error ls i.
  Proof.
    induction ls as [|x r IH]; intros i j.
    - destruct j, i; cbn; try reflexivity; destruct (Nat.eqb _ _); reflexivity.
    - destruct j as [|j]; cbn [upd].
      + destruct i; reflexivity.
      + destruct i as [|i]; [reflexivity|]. cbn [nth_error]. rewrite IH. reflexivity.
  Qed.

  Lemma iter_succ_r n f : forall (x : L), iter L (S n) f x = iter L n f (f x).
  Proof. reflexivity. Qed.

  (* any interleaving: the shared state is untouched, and request i ends in
     the state it reaches by running its own steps alone *)
  Theorem schedule_independent sched : forall g ls i,
    fst (run_schedule G L rstep sched (g, ls)) = g /\
    nth_error (snd (run_schedule G L rstep sched (g, ls))) i =
    option_map (iter L (count_occ Nat.eq_dec sched i) (rstep g)) (nth_error ls i).
  Proof.
    induction sched as [|j s IH]; intros g ls i.
    - cbn. destruct (nth_error ls i); auto.
    - unfold run_schedule in *. cbn [fold_left].
      change (sstep G L rstep (g, ls) j) with (g, upd L j (rstep g) ls).
      destruct (IH g (upd L j (rstep g) ls) i) as [H1 H2].
      split; [exact H1|].
      rewrite H2, nth_error_upd. cbn [count_occ].
      destruct (Nat.eq_dec j i) as [->|Hne].
      + rewrite Nat.eqb_refl. destruct (nth_error ls i); reflexivity.
      + replace (Nat.eqb i j) with false by (symmetry; apply Nat.eqb_neq; auto).
        reflexivity.
  Qed.
End SchedP.

(* ================= Part C: histories over the dispatch model *)

Section SeqP.
  Variable known_status : Z -> bool.
  Variable reason : Z -> list Z.
  Variable isinst : exn -> Z -> bool.

  Lemma serve_frame w r : snd (serve known_status reason isinst w r) = w.
  Proof. unfold serve. destruct (nth_error (w_apps w) (fst r)); reflexivity. Qed.

  (* each request of any history gets the answer it would get alone, on one
     application or on several sharing the process *)
  Theorem history_independent reqs : forall w,
    serve_seq known_status reason isinst w reqs =
    map (fun r => fst (serve known_status reason isinst w r)) reqs.
  Proof.
    induction reqs as [|r rest IH]; intros w; cbn [serve_seq map]; [reflexivity|].
    pose proof (serve_frame w r) as Hf.
    destruct (serve known_status reason isinst w r) as [o w'] eqn:E.
    cbn [snd fst] in *. subst w'. rewrite IH. reflexivity.
  Qed.
End SeqP.
