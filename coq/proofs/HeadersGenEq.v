(* Translator tie for class Headers (C14): every method generated from
   /repo/poorwsgi/headers.py (gen/HeadersGen.v, by harness/py2v_headers.py
   over lib/PyHeaders.v) equals the corresponding operation of the hand model
   model/Headers.v.

   Domain (exact): the stored list self.__headers is [emb_state s] for ANY
   model state s (a Python list of 2-tuples of str); every argument is the
   image of ANY value of the model's argument type under the embeddings of
   lib/PyHeaders.v:
     emb_arg     str / bytes / None / int  (the hostile ones included)
     emb_hval    such a value, or a list (tup = false) / tuple (tup = true)
                 of negotiation tuples whose elements are given by their
                 str() text
     emb_params  **kwargs: a dict  str -> emb_arg value
     emb_ctor    None / list, tuple or set (seqkind) of pairs / dict / an
                 object of any other class with a given truth value
   Results: [emb_step (step s o)] = (the stored list afterwards, what the
   method returns or raises) -- the stored list is compared also when the
   method raises. *)
From Coq Require Import ZArith List Bool.
Require Import PW.lib.Val PW.model.Headers PW.lib.PyHeaders PW.gen.HeadersGen.
Import ListNotations.
Open Scope list_scope.
Open Scope Z_scope.

(* ------------------------------------------------------------ the monad *)
Lemma bind_lift {A B} (r : res A) (k : A -> M B) h :
  mbind (mlift r) k h = match r with Ok a => k a h | Err e => (h, Err e) end.
Proof. unfold mbind, mlift. destruct r; reflexivity. Qed.

Ltac munfold :=
  unfold mbind, mlift, mret, mraise, get_headers, set_headers.
Ltac hsimpl :=
  cbn -[lz_eqb lower iso88591 replace_char formatparam join
        render_negotiation utf8_encode encodable Z.of_nat].

(* a comprehension whose element function does not touch the state *)
Fixpoint collect_spec {X} (g : X -> res (option hv)) (l : list X)
  : res (list hv) :=
  match l with
  | [] => Ok []
  | x :: r =>
      match g x with
      | Err e => Err e
      | Ok o =>
          match collect_spec g r with
          | Err e => Err e
          | Ok more => Ok (match o with Some y => y :: more | None => more end)
          end
      end
  end.

Lemma collect_pure {X} (emb : X -> hv) f (g : X -> res (option hv)) :
  (forall x h, f (emb x) h = (h, g x)) ->
  forall l h, collect (map emb l) f h = (h, collect_spec g l).
Proof.
  intros Hf. induction l as [|x l IH]; intros h; [reflexivity|].
  cbn [map collect collect_spec]. unfold mbind at 1. rewrite Hf.
  destruct (g x) as [o|e]; [|reflexivity].
  unfold mbind at 1. rewrite IH.
  destruct (collect_spec g l); reflexivity.
Qed.

(* a loop whose body does not touch the state *)
Fixpoint loop_spec {X A} (g : X -> A -> res (flow A)) (l : list X) (a : A)
  : res (flow A) :=
  match l with
  | [] => Ok (Next a)
  | x :: r =>
      match g x a with
      | Err e => Err e
      | Ok (Next c) => loop_spec g r c
      | Ok (Return v) => Ok (Return v)
      end
  end.

Lemma for_loop_pure {X A} (emb : X -> hv) body (g : X -> A -> res (flow A)) :
  (forall x a h, body (emb x) a h = (h, g x a)) ->
  forall l a h, for_loop (map emb l) body a h = (h, loop_spec g l a).
Proof.
  intros Hb. induction l as [|x l IH]; intros a h; [reflexivity|].
  cbn [map for_loop loop_spec]. unfold mbind at 1. rewrite Hb.
  destruct (g x a) as [[c|v]|e]; [apply IH|reflexivity|reflexivity].
Qed.

(* filter + map over the stored pairs *)
Lemma collect_spec_filter_map (p : list Z * list Z -> bool)
      (e : list Z * list Z -> hv) s :
  collect_spec (fun kv => Ok (if p kv then Some (e kv) else None)) s =
  Ok (map e (filter p s)).
Proof.
  induction s as [|kv s IH]; [reflexivity|].
  cbn [collect_spec filter]. rewrite IH. destruct (p kv); reflexivity.
Qed.

Lemma iso_str s0 :
  p_iso88591 (VStr s0) =
  match iso88591 (AStr s0) with Ok w => Ok (VStr w) | Err e => Err e end.
Proof. reflexivity. Qed.

Lemma iso_arg a :
  p_iso88591 (emb_arg a) =
  match iso88591 a with Ok w => Ok (VStr w) | Err e => Err e end.
Proof. destruct a; reflexivity. Qed.

Lemma iso_not_str a :
  match a with AStr _ => False | _ => True end -> iso88591 a = Err TypeError.
Proof. destruct a; intros H; try reflexivity; destruct H. Qed.

(* Headers.iso88591(name).lower() *)
Lemma norm_name_gen {B} (n : arg) (k : hv -> M B) h :
  mbind (mlift (p_iso88591 (emb_arg n)))
        (fun v1 => mbind (mlift (p_lower v1)) k) h =
  match norm_name n with
  | Ok nm => k (VStr nm) h
  | Err e => (h, Err e)
  end.
Proof.
  rewrite bind_lift, iso_arg. unfold norm_name, bind.
  destruct (iso88591 n) as [w|e]; [|reflexivity].
  rewrite bind_lift. reflexivity.
Qed.

(* ---------------------------------------------------------------- __len__ *)
Theorem gen_len_is_model s :
  gen_len (emb_state s) = emb_step (step s OLen).
Proof.
  unfold gen_len, emb_step, emb_state. munfold. hsimpl.
  rewrite map_length. reflexivity.
Qed.

(* ------------------------------------------------------------ __getitem__ *)
Lemma getitem_loop nm s :
  loop_spec (fun (kv : list Z * list Z) (_ : unit) =>
               Ok (if lz_eqb (lower (fst kv)) nm
                   then Return (VStr (snd kv)) else Next tt)) s tt =
  Ok (match find_first nm s with
      | Some v => Return (VStr v)
      | None => Next tt
      end).
Proof.
  induction s as [|[k v] s IH]; [reflexivity|].
  cbn [loop_spec find_first fst snd].
  destruct (lz_eqb (lower k) nm); [reflexivity|exact IH].
Qed.

Lemma gen_getitem_eq s n :
  gen_getitem (emb_arg n) (emb_state s) =
  (emb_state s, match getitem s n with Ok v => Ok (VStr v) | Err e => Err e end).
Proof.
  unfold gen_getitem. rewrite norm_name_gen.
  unfold getitem, bind. destruct (norm_name n) as [nm|e]; [|reflexivity].
  unfold mbind at 1. unfold get_headers.
  rewrite bind_lift. unfold emb_state at 1. cbn [p_iter].
  unfold mbind at 1.
  rewrite (for_loop_pure emb_pair _
    (fun (kv : list Z * list Z) (_ : unit) =>
       Ok (if lz_eqb (lower (fst kv)) nm
           then Return (VStr (snd kv)) else Next tt))).
  - rewrite getitem_loop. destruct (find_first nm s); reflexivity.
  - intros [k v] [] h. unfold emb_pair. munfold. hsimpl.
    destruct (lz_eqb (lower k) nm); reflexivity.
Qed.

Theorem gen_getitem_is_model s n :
  gen_getitem (emb_arg n) (emb_state s) = emb_step (step s (OGetItem n)).
Proof.
  rewrite gen_getitem_eq. unfold emb_step, step, of_res.
  destruct (getitem s n); reflexivity.
Qed.

(* ------------------------------------------- Mapping.get / __contains__ *)
Theorem mapping_get_is_model s n :
  mapping_get gen_getitem (emb_arg n) VNone (emb_state s) =
  emb_step (step s (OGet n)).
Proof.
  unfold mapping_get. rewrite gen_getitem_eq.
  unfold emb_step, step, of_res, Headers.mapping_get.
  destruct (getitem s n) as [v|[]]; reflexivity.
Qed.

Theorem mapping_contains_is_model s n :
  mapping_contains gen_getitem (emb_arg n) (emb_state s) =
  emb_step (step s (OContains n)).
Proof.
  unfold mapping_contains. rewrite gen_getitem_eq.
  unfold emb_step, step, of_res, contains.
  destruct (getitem s n) as [v|[]]; reflexivity.
Qed.

(* ------------------------------------------------------------ __delitem__ *)
Lemma gen_delitem_eq s n :
  gen_delitem (emb_arg n) (emb_state s) =
  match delitem s n with
  | Ok s1 => (emb_state s1, Ok VNone)
  | Err e => (emb_state s, Err e)
  end.
Proof.
  unfold gen_delitem. rewrite norm_name_gen.
  unfold delitem, bind. destruct (norm_name n) as [nm|e]; [|reflexivity].
  unfold mbind at 1. unfold get_headers.
  rewrite bind_lift. unfold emb_state at 1. cbn [p_iter].
  unfold mbind at 1.
  rewrite (collect_pure emb_pair _
    (fun kv : list Z * list Z =>
       Ok (if negb (lz_eqb (lower (fst kv)) nm)
           then Some (emb_pair kv) else None))).
  - rewrite collect_spec_filter_map. reflexivity.
  - intros [k v] h. unfold emb_pair. munfold. hsimpl.
    destruct (lz_eqb (lower k) nm); reflexivity.
Qed.

Theorem gen_delitem_is_model s n :
  gen_delitem (emb_arg n) (emb_state s) = emb_step (step s (ODel n)).
Proof.
  rewrite gen_delitem_eq. unfold emb_step, step, of_res.
  destruct (delitem s n); reflexivity.
Qed.

(* ---------------------------------------------------------------- get_all *)
Theorem gen_get_all_is_model s n :
  gen_get_all (emb_arg n) (emb_state s) = emb_step (step s (OGetAll n)).
Proof.
  unfold gen_get_all. rewrite norm_name_gen.
  unfold emb_step, step, of_res, get_all, bind.
  destruct (norm_name n) as [nm|e]; [|reflexivity].
  unfold mbind at 1. unfold get_headers.
  rewrite bind_lift. unfold emb_state at 1. cbn [p_iter].
  unfold mbind at 1.
  rewrite (collect_pure emb_pair _
    (fun kv : list Z * list Z =>
       Ok (if lz_eqb (lower (fst kv)) nm
           then Some (VStr (snd kv)) else None))).
  - rewrite collect_spec_filter_map. cbn [fst snd emb_outcome mret].
    rewrite map_map. reflexivity.
  - intros [k v] h. unfold emb_pair. munfold. hsimpl.
    destruct (lz_eqb (lower k) nm); reflexivity.
Qed.

(* --------------------------------------- names / keys / values / items *)
Lemma collect_spec_map (e : list Z * list Z -> hv) s :
  collect_spec (fun kv => Ok (Some (e kv))) s = Ok (map e s).
Proof.
  induction s as [|kv s IH]; [reflexivity|].
  cbn [collect_spec map]. rewrite IH. reflexivity.
Qed.

Theorem gen_names_is_model s :
  gen_names (emb_state s) = emb_step (step s ONames).
Proof.
  unfold gen_names. unfold mbind at 1. unfold get_headers.
  rewrite bind_lift. unfold emb_state at 1. cbn [p_iter].
  unfold mbind at 1.
  rewrite (collect_pure emb_pair _
    (fun kv : list Z * list Z =>
       Ok (Some (VStr (fst kv))))).
  - rewrite collect_spec_map.
    unfold emb_step, step. cbn [fst snd emb_outcome mret].
    rewrite map_map. reflexivity.
  - intros [k v] h. reflexivity.
Qed.

Theorem gen_keys_is_model s :
  gen_keys (emb_state s) = emb_step (step s ONames).
Proof.
  unfold gen_keys. unfold mbind. rewrite gen_names_is_model. reflexivity.
Qed.

Theorem gen_values_is_model s :
  gen_values (emb_state s) = emb_step (step s OValues).
Proof.
  unfold gen_values. unfold mbind at 1. unfold get_headers.
  rewrite bind_lift. unfold emb_state at 1. cbn [p_iter].
  unfold mbind at 1.
  rewrite (collect_pure emb_pair _
    (fun kv : list Z * list Z =>
       Ok (Some (VStr (snd kv))))).
  - rewrite collect_spec_map.
    unfold emb_step, step. cbn [fst snd emb_outcome mret].
    rewrite map_map. reflexivity.
  - intros [k v] h. reflexivity.
Qed.

Theorem gen_items_is_model s :
  gen_items (emb_state s) = emb_step (step s OItems).
Proof. reflexivity. Qed.

(* ------------------------------------------------------------- add_header *)
Lemma all_strs_map l : all_strs (map VStr l) = Some l.
Proof.
  induction l as [|x l IH]; [reflexivity|].
  cbn [map all_strs]. rewrite IH. reflexivity.
Qed.

Lemma join_strs sep l :
  p_join sep (VList (map VStr l)) = Ok (VStr (join sep l)).
Proof. unfold p_join. cbn [p_iter]. rewrite all_strs_map. reflexivity. Qed.

Lemma emb_state_app s k v :
  VList (map emb_pair s ++ [VTuple [VStr k; VStr v]]) =
  emb_state (s ++ [(k, v)]).
Proof. unfold emb_state. rewrite map_app. reflexivity. Qed.

(* what the code after the parts list is complete does *)
Definition tail_spec (n : arg) (parts : list (list Z)) (s : state)
  : hv * res hv :=
  if is_nil parts then (emb_state s, Err ValueError)
  else match iso88591 n with
       | Err e => (emb_state s, Err e)
       | Ok n' => (emb_state (s ++ [(n', join s_semi_sp parts)]), Ok VNone)
       end.

Ltac finish_tail n parts :=
  unfold tail_spec;
  destruct parts as [|p0 ps0];
  rewrite bind_lift; cbn [p_not truthy];
  [ reflexivity
  | cbn [map is_nil negb];
    rewrite bind_lift, iso_arg; destruct (iso88591 n); [|reflexivity];
    rewrite bind_lift;
    change (VStr p0 :: map VStr ps0) with (map VStr (p0 :: ps0));
    rewrite join_strs; munfold; cbn [p_append emb_state];
    rewrite emb_state_app; reflexivity ].

(* one round of the **kwargs loop *)
Definition params_body (kv : list Z * arg) (acc : hv) : res (flow hv) :=
  match iso88591 (AStr (fst kv)) with
  | Err e => Err e
  | Ok k' =>
      match (match snd kv with
             | ANone => Ok (replace_char 95 [45] k')
             | val => match iso88591 val with
                      | Ok v' => Ok (formatparam (replace_char 95 [45] k') v')
                      | Err e => Err e
                      end
             end) with
      | Err e => Err e
      | Ok part => match p_append acc (VStr part) with
                   | Ok a => Ok (Next a)
                   | Err e => Err e
                   end
      end
  end.

Lemma params_loop ps : forall acc : list str,
  loop_spec params_body ps (VList (map VStr acc)) =
  match params_parts ps with
  | Ok more => Ok (Next (VList (map VStr (acc ++ more))))
  | Err e => Err e
  end.
Proof.
  induction ps as [|[k val] ps IH]; intros acc.
  - cbn [loop_spec params_parts]. rewrite app_nil_r. reflexivity.
  - cbn [loop_spec params_parts]. unfold params_body at 1. cbn [fst snd].
    unfold bind at 1. destruct (iso88591 (AStr k)) as [k'|e]; [|reflexivity].
    assert (Hstep : forall part,
      match p_append (VList (map VStr acc)) (VStr part) with
      | Ok a => Ok (Next a) | Err e => Err e end =
      Ok (Next (VList (map VStr (acc ++ [part]))))).
    { intros part. cbn [p_append]. rewrite map_app. reflexivity. }
    assert (Hrest : forall part,
      loop_spec params_body ps (VList (map VStr (acc ++ [part]))) =
      match bind (params_parts ps) (fun more => Ok (part :: more)) with
      | Ok more => Ok (Next (VList (map VStr (acc ++ more))))
      | Err e => Err e
      end).
    { intros part. rewrite IH. unfold bind.
      destruct (params_parts ps); [|reflexivity].
      rewrite <- app_assoc. reflexivity. }
    destruct val; unfold bind at 1;
      try (destruct (iso88591 _) as [v'|e]; [|reflexivity]);
      rewrite Hstep, Hrest; reflexivity.
Qed.

Lemma items_params ps :
  p_items (emb_params ps) =
  Ok (VList (map (fun kv : list Z * arg =>
                    VTuple [VStr (fst kv); emb_arg (snd kv)]) ps)).
Proof. unfold emb_params, p_items. rewrite map_map. reflexivity. Qed.

Lemma add_header_tail s n v ps :
  add_header s n v ps =
  match header_parts v ps with
  | Err e => (s, Raised e)
  | Ok parts => if is_nil parts then (s, Raised ValueError)
                else match iso88591 n with
                     | Err e => (s, Raised e)
                     | Ok n' => (s ++ [(n', join s_semi_sp parts)], ONone)
                     end
  end.
Proof. reflexivity. Qed.

Lemma emb_tail_spec s n parts :
  tail_spec n parts s =
  emb_step (if is_nil parts then (s, Raised ValueError)
            else match iso88591 n with
                 | Err e => (s, Raised e)
                 | Ok n' => (s ++ [(n', join s_semi_sp parts)], ONone)
                 end).
Proof.
  unfold tail_spec. destruct (is_nil parts); [reflexivity|].
  destruct (iso88591 n); reflexivity.
Qed.

(* the body of the **kwargs loop, as generated, is [params_body] *)
Ltac params_body_ok :=
  let k := fresh "k" in let val := fresh "val" in
  let acc := fresh "acc" in let h := fresh "h" in
  intros [k val] acc h; unfold params_body; munfold; hsimpl;
  destruct (iso88591 (AStr k)); [|reflexivity];
  destruct val; hsimpl;
  try (destruct (iso88591 (AStr _)); [|reflexivity]);
  destruct acc; reflexivity.

(* the goal starts at `for k, val in kwargs.items()` with the parts so far *)
Ltac run_params n ps first :=
  rewrite bind_lift, items_params; rewrite bind_lift; cbn [p_iter];
  unfold mbind at 1;
  rewrite (for_loop_pure
             (fun kv : list Z * arg => VTuple [VStr (fst kv); emb_arg (snd kv)])
             _ params_body) by params_body_ok;
  rewrite (params_loop ps first);
  unfold bind; destruct (params_parts ps) as [more|e]; [|reflexivity];
  set (parts := first ++ more); clearbody parts;
  rewrite <- emb_tail_spec;
  finish_tail n parts.

Lemma gen_add_header_eq s n tup v ps :
  gen_add_header (emb_arg n) (emb_hval tup v) (emb_params ps) (emb_state s) =
  emb_step (add_header s n v ps).
Proof.
  rewrite add_header_tail. unfold gen_add_header. cbv zeta.
  rewrite bind_lift.
  destruct v as [a|items].
  - (* a plain value *)
    replace (p_isinstance (emb_hval tup (HArg a)) [Clist; Ctuple])
      with (Ok (VBool false)) by (destruct a; reflexivity).
    cbn [truthy emb_hval header_parts]. rewrite bind_lift.
    destruct a as [s0| | |]; cbn [p_is_not_none emb_arg truthy].
    + rewrite bind_lift, iso_str. unfold bind at 1 2.
      destruct (iso88591 (AStr s0)) as [w|e]; [|reflexivity].
      rewrite bind_lift. cbn [p_append].
      change (VList ([] ++ [VStr w])) with (VList (map VStr [w])).
      run_params n ps [w].
    + reflexivity.
    + unfold bind at 1.
      change (VList []) with (VList (map VStr (@nil str))).
      run_params n ps (@nil str).
    + reflexivity.
  - (* a list / tuple of negotiation tuples *)
    replace (p_isinstance (emb_hval tup (HNego items)) [Clist; Ctuple])
      with (Ok (VBool true)) by (destruct tup; reflexivity).
    cbn [truthy emb_hval header_parts]. rewrite bind_lift.
    cbn [p_render_negotiation]. rewrite bind_lift, iso_str.
    unfold bind at 1.
    destruct (iso88591 (AStr (render_negotiation items))) as [w|e];
      [|reflexivity].
    rewrite bind_lift. cbn [p_append].
    change (VList ([] ++ [VStr w])) with (VList (map VStr [w])).
    set (parts := [w]); clearbody parts.
    rewrite <- emb_tail_spec.
    finish_tail n parts.
Qed.

Theorem gen_add_header_is_model s n tup v ps :
  gen_add_header (emb_arg n) (emb_hval tup v) (emb_params ps) (emb_state s) =
  emb_step (step s (OAddHeader n v ps)).
Proof. exact (gen_add_header_eq s n tup v ps). Qed.

(* add_header(name, value) as the other methods call it *)
Lemma gen_add_header_plain s n v :
  gen_add_header (emb_arg n) (emb_arg v) (VDict []) (emb_state s) =
  emb_step (add_header s n (HArg v) []).
Proof. exact (gen_add_header_eq s n false (HArg v) []). Qed.

(* add_header returns None with a longer list, or raises and stores nothing *)
Lemma add_header_cases s n v ps :
  (exists s2, add_header s n v ps = (s2, ONone)) \/
  (exists e, add_header s n v ps = (s, Raised e)).
Proof.
  rewrite add_header_tail. destruct (header_parts v ps); [|right; eauto].
  destruct (is_nil a); [right; eauto|].
  destruct (iso88591 n); [left|right]; eauto.
Qed.

(* ------------------------------------------------------------ __setitem__ *)
Theorem gen_setitem_is_model s n v :
  gen_setitem (emb_arg n) (emb_arg v) (emb_state s) =
  emb_step (step s (OSet n v)).
Proof.
  unfold gen_setitem. unfold mbind at 1. unfold get_headers.
  unfold mbind at 1. rewrite gen_delitem_eq.
  cbn [step]. unfold setitem.
  destruct (delitem s n) as [s1|e]; [|reflexivity].
  unfold mbind at 1. unfold try_except.
  unfold mbind at 1. rewrite gen_add_header_plain.
  destruct (add_header_cases s1 n (HArg v) []) as [[s2 H]|[e H]];
    rewrite H; reflexivity.
Qed.

(* ------------------------------------------------------------- setdefault *)
Theorem gen_setdefault_is_model s n v :
  gen_setdefault (emb_arg n) (emb_arg v) (emb_state s) =
  emb_step (step s (OSetdefault n v)).
Proof.
  unfold gen_setdefault. unfold mbind at 1.
  unfold PyHeaders.mapping_get. rewrite gen_getitem_eq.
  cbn [step]. unfold setdefault, Headers.mapping_get.
  destruct (getitem s n) as [w|[]]; try reflexivity.
  rewrite bind_lift. cbn [p_is_none truthy].
  unfold mbind at 1. rewrite gen_add_header_plain.
  destruct (add_header_cases s n (HArg v) []) as [[s2 H]|[e H]];
    rewrite H; [destruct v|]; reflexivity.
Qed.

(* -------------------------------------------------------------------- add *)
Theorem gen_add_is_model s n v :
  gen_add (emb_arg n) (emb_arg v) (emb_state s) = emb_step (step s (OAdd n v)).
Proof.
  unfold gen_add. cbv zeta. unfold mbind at 1.
  unfold mapping_contains. rewrite gen_getitem_eq.
  cbn [step]. unfold add, contains.
  destruct (getitem s n) as [w|[]] eqn:Hget; try reflexivity.
  - (* name in self: the set-cookie exception *)
    cbn [truthy]. rewrite bind_lift.
    destruct n as [s0| | |]; try discriminate Hget.
    cbn [emb_arg p_lower]. rewrite bind_lift.
    unfold not_set_cookie, bind, lower_arg. cbn [p_ne hv_eqb truthy].
    change [115; 101; 116; 45; 99; 111; 111; 107; 105; 101] with s_set_cookie.
    destruct (lz_eqb (lower s0) s_set_cookie); cbn [negb].
    + unfold mbind at 1.
      change (VStr s0) with (emb_arg (AStr s0)).
      rewrite gen_add_header_plain.
      destruct (add_header_cases s (AStr s0) (HArg v) []) as [[s2 H]|[e H]];
        rewrite H; reflexivity.
    + reflexivity.
  - (* not there *)
    cbn [truthy]. unfold mbind at 1. rewrite gen_add_header_plain.
    destruct (add_header_cases s n (HArg v) []) as [[s2 H]|[e H]];
      rewrite H; reflexivity.
Qed.

(* --------------------------------------------------------------- __init__ *)
Definition iso_pair_body (kv : arg * arg) : res (option hv) :=
  match iso88591 (fst kv) with
  | Err e => Err e
  | Ok k' => match iso88591 (snd kv) with
             | Err e => Err e
             | Ok v' => Ok (Some (emb_pair (k', v')))
             end
  end.

Lemma collect_iso_pairs l :
  collect_spec iso_pair_body l =
  match iso_pairs l with Ok s => Ok (map emb_pair s) | Err e => Err e end.
Proof.
  induction l as [|[k v] l IH]; [reflexivity|].
  cbn [collect_spec iso_pairs]. unfold iso_pair_body at 1. cbn [fst snd].
  unfold bind. destruct (iso88591 k); [|reflexivity].
  destruct (iso88591 v); [|reflexivity].
  rewrite IH. destruct (iso_pairs l); reflexivity.
Qed.

Lemma truthy_mkseq {X} k (f : X -> hv) l :
  truthy (mkseq k (map f l)) = negb (is_nil l).
Proof. destruct k, l; reflexivity. Qed.

Lemma truthy_dict {X} (f : X -> hv * hv) l :
  truthy (VDict (map f l)) = negb (is_nil l).
Proof. destruct l; reflexivity. Qed.

Lemma is_nil_true {X} (l : list X) : is_nil l = true -> l = [].
Proof. destruct l; [reflexivity|discriminate]. Qed.

Ltac iso_pair_body_ok :=
  let k := fresh "k" in let v := fresh "v" in let h := fresh "h" in
  intros [k v] h; unfold iso_pair_body; munfold; hsimpl;
  rewrite !iso_arg;
  destruct (iso88591 k); [|reflexivity];
  destruct (iso88591 v); reflexivity.

Lemma gen_init_strict_eq k c h0 :
  gen_init (emb_ctor emb_arg k c) (VBool true) h0 =
  match init_strict c with
  | Ok s1 => (emb_state s1, Ok VNone)
  | Err e => (h0, Err e)
  end.
Proof.
  unfold gen_init. cbv zeta. destruct c as [|l|l|t]; cbn [emb_ctor init_strict].
  - reflexivity.
  - rewrite truthy_mkseq. destruct (is_nil l) eqn:Hnil; cbn [negb].
    + apply is_nil_true in Hnil. subst l. reflexivity.
    + rewrite bind_lift.
      replace (p_isinstance (mkseq k _) [Clist; Ctuple; Cset])
        with (Ok (VBool true)) by (destruct k; reflexivity).
      cbn [truthy]. rewrite bind_lift.
      replace (p_iter (mkseq k (map (fun kv : arg * arg =>
                 VTuple [emb_arg (fst kv); emb_arg (snd kv)]) l)))
        with (Ok (map (fun kv : arg * arg =>
                 VTuple [emb_arg (fst kv); emb_arg (snd kv)]) l))
        by (destruct k; reflexivity).
      unfold mbind at 1.
      rewrite (collect_pure _ _ iso_pair_body) by iso_pair_body_ok.
      rewrite collect_iso_pairs.
      destruct (iso_pairs l); reflexivity.
  - rewrite truthy_dict. destruct (is_nil l) eqn:Hnil; cbn [negb].
    + apply is_nil_true in Hnil. subst l. reflexivity.
    + rewrite bind_lift. cbn [p_isinstance existsb isinstance1 orb truthy].
      rewrite bind_lift. cbn [p_isinstance existsb isinstance1 orb truthy].
      rewrite bind_lift. cbn [p_items]. rewrite map_map. cbn [fst snd].
      rewrite bind_lift. cbn [p_iter].
      unfold mbind at 1.
      rewrite (collect_pure _ _ iso_pair_body) by iso_pair_body_ok.
      rewrite collect_iso_pairs.
      destruct (iso_pairs l); reflexivity.
  - destruct t; reflexivity.
Qed.

Definition raw_pair_body (kv : list Z * list Z) : res (option hv) :=
  Ok (Some (emb_pair kv)).

Lemma gen_init_raw_eq k c h0 :
  gen_init (emb_ctor VStr k c) (VBool false) h0 =
  match init_raw c with
  | Ok s1 => (emb_state s1, Ok VNone)
  | Err e => (h0, Err e)
  end.
Proof.
  unfold gen_init. cbv zeta. destruct c as [|l|l|t]; cbn [emb_ctor init_raw].
  - reflexivity.
  - rewrite truthy_mkseq. destruct (is_nil l) eqn:Hnil; cbn [negb].
    + apply is_nil_true in Hnil. subst l. reflexivity.
    + rewrite bind_lift.
      replace (p_isinstance (mkseq k _) [Clist; Ctuple; Cset])
        with (Ok (VBool true)) by (destruct k; reflexivity).
      cbn [truthy]. rewrite bind_lift.
      replace (p_iter (mkseq k (map (fun kv : list Z * list Z =>
                 VTuple [VStr (fst kv); VStr (snd kv)]) l)))
        with (Ok (map emb_pair l)) by (destruct k; reflexivity).
      unfold mbind at 1.
      rewrite (collect_pure emb_pair _ raw_pair_body)
        by (intros [a b] h; reflexivity).
      unfold raw_pair_body. rewrite (collect_spec_map emb_pair). reflexivity.
  - rewrite truthy_dict. destruct (is_nil l) eqn:Hnil; cbn [negb].
    + apply is_nil_true in Hnil. subst l. reflexivity.
    + rewrite bind_lift. cbn [p_isinstance existsb isinstance1 orb truthy].
      rewrite bind_lift. cbn [p_isinstance existsb isinstance1 orb truthy].
      rewrite bind_lift. cbn [p_items]. rewrite map_map. cbn [fst snd].
      rewrite bind_lift. cbn [p_iter].
      unfold mbind at 1.
      change (map (fun x : list Z * list Z => VTuple [VStr (fst x); VStr (snd x)]) l)
        with (map emb_pair l).
      rewrite (collect_pure emb_pair _ raw_pair_body)
        by (intros [a b] h; reflexivity).
      unfold raw_pair_body. rewrite (collect_spec_map emb_pair). reflexivity.
  - destruct t; reflexivity.
Qed.

(* Headers(c) / Headers(c, strict=True), on an object whose attribute holds
   anything (h0); strict defaults to True *)
Theorem gen_init_is_model s k c :
  gen_init (emb_ctor emb_arg k c) gen_init_default_2 (emb_state s) =
  emb_step (step s (OInit c)).
Proof.
  unfold gen_init_default_2. rewrite gen_init_strict_eq.
  unfold emb_step, step, of_res. destruct (init_strict c); reflexivity.
Qed.

(* Headers(c, strict=False) with str pairs *)
Theorem gen_init_raw_is_model s k c :
  gen_init (emb_ctor VStr k c) (VBool false) (emb_state s) =
  emb_step (step s (OInitRaw c)).
Proof.
  rewrite gen_init_raw_eq.
  unfold emb_step, step, of_res. destruct (init_raw c); reflexivity.
Qed.

(* Headers() *)
Theorem gen_init_no_argument h0 :
  gen_init gen_init_default_1 gen_init_default_2 h0 = (emb_state [], Ok VNone).
Proof. reflexivity. Qed.

(* add_header(name): value defaults to None *)
Theorem gen_add_header_default_value :
  gen_add_header_default_2 = emb_hval false (HArg ANone).
Proof. reflexivity. Qed.

(* ------------------------------------------------- every operation at once *)
(* the call of the generated method that the model's operation stands for *)
Definition gen_step (k : seqkind) (tup : bool) (o : op) : M hv :=
  match o with
  | OInit c => gen_init (emb_ctor emb_arg k c) gen_init_default_2
  | OInitRaw c => gen_init (emb_ctor VStr k c) (VBool false)
  | OAdd n v => gen_add (emb_arg n) (emb_arg v)
  | OAddHeader n v ps =>
      gen_add_header (emb_arg n) (emb_hval tup v) (emb_params ps)
  | OSet n v => gen_setitem (emb_arg n) (emb_arg v)
  | ODel n => gen_delitem (emb_arg n)
  | OSetdefault n v => gen_setdefault (emb_arg n) (emb_arg v)
  | OGet n => PyHeaders.mapping_get gen_getitem (emb_arg n) VNone
  | OGetAll n => gen_get_all (emb_arg n)
  | OContains n => mapping_contains gen_getitem (emb_arg n)
  | OGetItem n => gen_getitem (emb_arg n)
  | OLen => gen_len
  | OItems => gen_items
  | ONames => gen_names
  | OValues => gen_values
  end.

Theorem gen_step_is_model k tup s o :
  gen_step k tup o (emb_state s) = emb_step (step s o).
Proof.
  destruct o; unfold gen_step.
  - apply gen_init_is_model.
  - apply gen_init_raw_is_model.
  - apply gen_add_is_model.
  - apply gen_add_header_is_model.
  - apply gen_setitem_is_model.
  - apply gen_delitem_is_model.
  - apply gen_setdefault_is_model.
  - apply mapping_get_is_model.
  - apply gen_get_all_is_model.
  - apply mapping_contains_is_model.
  - apply gen_getitem_is_model.
  - apply gen_len_is_model.
  - apply gen_items_is_model.
  - apply gen_names_is_model.
  - apply gen_values_is_model.
Qed.

(* a whole history of calls on one object: the stored list and the result
   after every call are the model's *)
Fixpoint gen_run (k : seqkind) (tup : bool) (h : hv) (ops : list op)
  : list (hv * res hv) :=
  match ops with
  | [] => []
  | o :: rest => let r := gen_step k tup o h in r :: gen_run k tup (fst r) rest
  end.

Theorem gen_run_is_model k tup ops : forall s,
  gen_run k tup (emb_state s) ops = map emb_step (run s ops).
Proof.
  induction ops as [|o ops IH]; intros s; [reflexivity|].
  cbn [gen_run run map]. rewrite gen_step_is_model.
  cbn [emb_step fst]. rewrite IH. reflexivity.
Qed.
