(* Proofs about the model of CachedInput (C09). *)
From Coq Require Import String ZArith List Bool Lia.
Require Import PW.lib.Val PW.model.CachedInput.
Import ListNotations.
Open Scope Z_scope.

(* ------------------------------------------------------------ list facts *)
Lemma len_nil : len [] = 0.
Proof. reflexivity. Qed.

Lemma len_nonneg l : 0 <= len l.
Proof. unfold len. lia. Qed.

Lemma len_app a b : len (a ++ b) = len a + len b.
Proof. unfold len. rewrite app_length. lia. Qed.

Lemma len_cons x l : len (x :: l) = 1 + len l.
Proof. unfold len. cbn [List.length]. lia. Qed.

Lemma len_zero l : len l = 0 -> l = [].
Proof. destruct l; [reflexivity|]. rewrite len_cons. pose proof (len_nonneg l). lia. Qed.

Lemma len_take k l : len (take k l) = Z.min (Z.max 0 k) (len l).
Proof. unfold len, take. rewrite firstn_length. lia. Qed.

Lemma len_drop k l : len (drop k l) = len l - Z.min (Z.max 0 k) (len l).
Proof. unfold len, drop. rewrite skipn_length. lia. Qed.

Lemma take_drop k l : take k l ++ drop k l = l.
Proof. apply firstn_skipn. Qed.

Lemma take_all k l : len l <= k -> take k l = l.
Proof. unfold len, take. intros H. apply firstn_all2. lia. Qed.

Lemma drop_all k l : len l <= k -> drop k l = [].
Proof. unfold len, drop. intros H. apply skipn_all2. lia. Qed.

Lemma take_nonpos k l : k <= 0 -> take k l = [].
Proof. unfold take. intros H. replace (Z.to_nat k) with O by lia. reflexivity. Qed.

Lemma take_nil k : take k [] = [].
Proof. unfold take. apply firstn_nil. Qed.

Lemma take_app_le t a b : len a <= t -> take t (a ++ b) = a ++ take (t - len a) b.
Proof.
  unfold take, len. intros H. rewrite firstn_app. f_equal.
  - apply firstn_all2. lia.
  - f_equal. lia.
Qed.

Lemma drop_1_cons x l : drop 1 (x :: l) = l.
Proof. reflexivity. Qed.

Lemma take_empty_inv k l : 0 < k -> take k l = [] -> l = [].
Proof.
  intros Hk H. apply len_zero. pose proof (len_take k l) as E.
  rewrite H, len_nil in E. pose proof (len_nonneg l). lia.
Qed.

(* ---------------------------------------------------------------- stream *)
Lemma s_read_spec k f data f' :
  s_read k f = (data, f') ->
  s_data f = data ++ s_data f' /\ len data <= Z.max 0 k /\
  exists pre, s_shorts f = pre ++ s_shorts f'.
Proof.
  unfold s_read. destruct (s_shorts f) as [|b bs] eqn:E; intros [= <- <-];
    cbn [s_data s_shorts]; rewrite take_drop, len_take.
  - split; [reflexivity|]. split; [lia|]. exists []. reflexivity.
  - split; [reflexivity|]. split; [lia|]. exists [b]. reflexivity.
Qed.

(* a blocking stream hands out exactly what is requested when it has it *)
Lemma s_read_full k f data f' :
  s_read k f = (data, f') -> s_shorts f = [] -> 0 <= k <= len (s_data f) ->
  len data = k /\ s_shorts f' = [].
Proof.
  unfold s_read. intros H E. rewrite E in H. injection H as <- <-.
  cbn [s_shorts]. rewrite len_take. split; [lia|reflexivity].
Qed.

Lemma s_read_blocking k f data f' :
  s_read k f = (data, f') -> s_shorts f = [] ->
  data = take k (s_data f) /\ s_shorts f' = [].
Proof.
  unfold s_read. intros H E. rewrite E in H. injection H as <- <-.
  split; reflexivity.
Qed.

Lemma s_read_pos k f data f' :
  s_read k f = (data, f') -> 0 < k -> 0 < len (s_data f) ->
  Forall (fun b => 0 < b) (s_shorts f) -> 0 < len data.
Proof.
  unfold s_read. intros H Hk Hd Hs.
  destruct (s_shorts f) as [|b bs]; injection H as <- <-; rewrite len_take.
  - lia.
  - inversion Hs; subst. lia.
Qed.

(* ------------------------------------------------------------------ logs *)
Lemma got_cons k g q : got ((k, g) :: q) = g + got q.
Proof. reflexivity. Qed.
Lemma asked_cons k g q : asked ((k, g) :: q) = k + asked q.
Proof. reflexivity. Qed.
Lemma got_nil : got [] = 0.
Proof. reflexivity. Qed.

Lemma got_app a b : got (a ++ b) = got a + got b.
Proof.
  induction a as [|[k g] a IH]; [reflexivity|].
  rewrite <- app_comm_cons, !got_cons, IH. lia.
Qed.

Lemma asked_app a b : asked (a ++ b) = asked a + asked b.
Proof.
  induction a as [|[k g] a IH]; [reflexivity|].
  rewrite <- app_comm_cons, !asked_cons, IH. lia.
Qed.

Lemma within_cons t k g q :
  within t ((k, g) :: q) <-> 0 <= k <= t /\ 0 <= g <= k /\ within (t - g) q.
Proof. reflexivity. Qed.

Lemma within_app a : forall t b, within t (a ++ b) <-> within t a /\ within (t - got a) b.
Proof.
  induction a as [|[k g] a IH]; intros t b.
  - cbn [app within]. rewrite got_nil. replace (t - 0) with t by lia. tauto.
  - rewrite <- app_comm_cons, !within_cons, IH, got_cons.
    replace (t - (g + got a)) with (t - g - got a) by lia. tauto.
Qed.

Lemma within_got q : forall t, 0 <= t -> within t q -> 0 <= got q <= t.
Proof.
  induction q as [|[k g] q IH]; intros t Ht H.
  - rewrite got_nil. lia.
  - rewrite within_cons in H. destruct H as (H1 & H2 & H3).
    apply IH in H3; [|lia]. rewrite got_cons. lia.
Qed.

Definition exact (q : log) : Prop := Forall (fun p => fst p = snd p) q.

Lemma exact_asked q : exact q -> asked q = got q.
Proof.
  induction 1 as [|[k g] q H _ IH]; [reflexivity|].
  rewrite asked_cons, got_cons. cbn [fst snd] in H. lia.
Qed.

Lemma exact_app a b : exact a -> exact b -> exact (a ++ b).
Proof. apply Forall_app_intro || (intros; apply Forall_app; split; assumption). Qed.

(* ------------------------------------------------- what one call may do *)
(* [line] = bytes already moved to the result (empty for a whole call) *)
Definition call_ok (line : list Z) (s : st) (r : list Z) (s' : st) (q : log) : Prop :=
  (exists t, r = line ++ t) /\
  line ++ pending s = r ++ pending s' /\
  within (todo s) q /\
  todo s' = todo s - got q /\
  (exists d, s_data (src s) = d ++ s_data (src s') /\ len d = got q) /\
  (exists pre, s_shorts (src s) = pre ++ s_shorts (src s')) /\
  (s_shorts (src s) = [] -> todo s <= len (s_data (src s)) -> exact q).

Lemma call_ok_refl line s : call_ok line s line s [].
Proof.
  unfold call_ok. rewrite got_nil. cbn [within].
  split; [exists []; rewrite app_nil_r; reflexivity|].
  split; [reflexivity|]. split; [exact I|]. split; [lia|].
  split; [exists []; split; reflexivity|].
  split; [exists []; reflexivity|]. intros _ _. constructor.
Qed.

(* moving bytes from the buffer to the result, no read *)
Lemma call_ok_move line s k :
  call_ok line s (line ++ take k (buf s)) (St (drop k (buf s)) (todo s) (src s)) [].
Proof.
  unfold call_ok, pending. rewrite got_nil. cbn [within buf todo src].
  split; [eexists; reflexivity|].
  split. { rewrite <- (take_drop k (buf s)) at 1. rewrite <- !app_assoc. reflexivity. }
  split; [exact I|]. split; [lia|].
  split; [exists []; split; reflexivity|].
  split; [exists []; reflexivity|]. intros _ _. constructor.
Qed.

(* a read of k bytes followed by what happens next *)
Lemma call_ok_read line s k data f r s' q2 :
  0 <= k <= todo s -> s_read k (src s) = (data, f) ->
  call_ok (line ++ buf s) (St data (todo s - len data) f) r s' q2 ->
  call_ok line s r s' ((k, len data) :: q2).
Proof.
  intros Hk Hr (Hp & Hpend & Hw & Ht & (d & Hd & Hdl) & (pre & Hpre) & Hex).
  apply s_read_spec in Hr as Hs. destruct Hs as (Hdata & Hlen & (pre0 & Hpre0)).
  cbn [buf todo src] in *.
  pose proof (len_nonneg data) as Hn0.
  unfold call_ok.
  split. { destruct Hp as (t & ->). exists (buf s ++ t). rewrite app_assoc. reflexivity. }
  split.
  { rewrite <- Hpend. unfold pending. cbn [buf todo src].
    rewrite Hdata. rewrite take_app_le by lia. rewrite <- !app_assoc. reflexivity. }
  split. { rewrite within_cons. repeat split; try lia. exact Hw. }
  split. { rewrite got_cons. lia. }
  split.
  { exists (data ++ d). split.
    - rewrite Hdata, Hd, app_assoc. reflexivity.
    - rewrite len_app, got_cons. lia. }
  split. { exists (pre0 ++ pre). rewrite Hpre0, Hpre, app_assoc. reflexivity. }
  intros E Hfull.
  destruct (s_read_full k (src s) data f Hr E ltac:(lia)) as (Hk' & E').
  constructor; [cbn [fst snd]; lia|].
  apply Hex; [exact E'|].
  rewrite Hdata, len_app in Hfull. lia.
Qed.

(* ------------------------------------------------------------------ read *)
Lemma call_ok_flush line data t f :
  call_ok line (St data t f) (line ++ data) (St [] t f) [].
Proof.
  pose proof (call_ok_move line (St data t f) (len data)) as H.
  cbn [buf todo src] in H.
  rewrite take_all, drop_all in H by lia. exact H.
Qed.

Lemma read_ok block size s r s' q :
  1 <= block -> 0 <= todo s ->
  read block size s = Ok r s' q -> call_ok [] s r s' q.
Proof.
  intros Hb Ht. unfold read.
  set (sz := Z.min (todo s + len (buf s)) (if size <? 0 then block else size)).
  destruct (nonempty (buf s)) eqn:Eb.
  - destruct (len (buf s) >=? sz) eqn:Ec.
    + intros [= <- <- <-]. apply (call_ok_move [] s sz).
    + destruct (s_read (sz - len (buf s)) (src s)) as [data f] eqn:Er.
      intros [= <- <- <-].
      apply call_ok_read with (f := f); [|exact Er|].
      * pose proof (len_nonneg (buf s)). subst sz.
        destruct (Z.ltb_spec size 0); lia.
      * cbn [app]. apply call_ok_flush.
  - destruct (s_read (Z.min (todo s) sz) (src s)) as [data f] eqn:Er.
    intros [= <- <- <-].
    assert (buf s = []) as E by (destruct (buf s); [reflexivity|discriminate]).
    apply call_ok_read with (f := f); [|exact Er|].
    + pose proof (len_nonneg (buf s)). subst sz.
      destruct (Z.ltb_spec size 0); lia.
    + rewrite E. cbn [app]. apply (call_ok_flush [] data).
Qed.

(* -------------------------------------------------------------- readline *)
Lemma call_ok_move_then line s k r s' q :
  call_ok (line ++ take k (buf s)) (St (drop k (buf s)) (todo s) (src s)) r s' q ->
  call_ok line s r s' q.
Proof.
  unfold call_ok, pending. cbn [buf todo src].
  intros ((t & Hp) & Hpend & H).
  split. { exists (take k (buf s) ++ t). rewrite Hp, app_assoc. reflexivity. }
  split; [|exact H].
  rewrite <- Hpend. rewrite <- (take_drop k (buf s)) at 1.
  rewrite <- !app_assoc. reflexivity.
Qed.

Lemma rl_loop_ok block size :
  1 <= block -> forall fuel line s q r s' q',
  0 <= todo s ->
  rl_loop fuel block size line s q = Ok r s' q' ->
  exists q2, q' = q ++ q2 /\ call_ok line s r s' q2.
Proof.
  intros Hb. induction fuel as [|fuel IH]; intros line s q r s' q' Ht.
  - cbn [rl_loop]. destruct (len line <? size); [discriminate|].
    intros [= <- <- <-]. exists []. rewrite app_nil_r.
    split; [reflexivity|apply call_ok_refl].
  - cbn [rl_loop]. destruct (len line <? size) eqn:El.
    2:{ intros [= <- <- <-]. exists []. rewrite app_nil_r.
        split; [reflexivity|apply call_ok_refl]. }
    destruct (ends_cr line && starts_lf (buf s)) eqn:Ediv.
    { intros [= <- <- <-]. exists []. rewrite app_nil_r. split; [reflexivity|].
      apply andb_true_iff in Ediv as [_ Hlf].
      pose proof (call_ok_move line s 1) as H.
      destruct (buf s) as [|x b] eqn:Eb; [discriminate|].
      cbn [starts_lf] in Hlf. apply Z.eqb_eq in Hlf. subst x.
      exact H. }
    set (m := size - len line).
    destruct (find_crlf (take m (buf s))) as [pos|] eqn:Ef.
    { intros [= <- <- <-]. exists []. rewrite app_nil_r. split; [reflexivity|].
      apply call_ok_move. }
    destruct (len (line ++ take m (buf s)) <? size) eqn:El'.
    2:{ intros H. apply IH in H; [|exact Ht].
        destruct H as (q2 & -> & Hc). exists q2. split; [reflexivity|].
        apply call_ok_move_then with (k := m). exact Hc. }
    assert (take m (buf s) = buf s) as Hall.
    { apply take_all. rewrite len_app, len_take in El'. lia. }
    rewrite Hall in *.
    set (n_size := Z.min (Z.min (todo s) (size - len (line ++ buf s))) block).
    destruct (n_size =? 0) eqn:En.
    { intros [= <- <- <-]. exists []. rewrite app_nil_r. split; [reflexivity|].
      rewrite <- Hall at 1. apply call_ok_move. }
    destruct (s_read n_size (src s)) as [data f] eqn:Er.
    pose proof (s_read_spec _ _ _ _ Er) as (_ & Hlen & _).
    assert (0 <= n_size <= todo s) as Hn by (subst n_size; lia).
    cbv zeta. destruct (negb (nonempty data)).
    + intros [= <- <- <-]. exists [(n_size, len data)]. split; [reflexivity|].
      apply call_ok_read with (f := f); [exact Hn|exact Er|]. apply call_ok_refl.
    + intros H. apply IH in H; [|cbn [todo]; lia].
      destruct H as (q2 & -> & Hc). exists ((n_size, len data) :: q2).
      split; [rewrite <- app_assoc; reflexivity|].
      apply call_ok_read with (f := f); [exact Hn|exact Er|exact Hc].
Qed.

Lemma readline_ok fuel block size s r s' q :
  1 <= block -> 0 <= todo s ->
  readline fuel block size s = Ok r s' q -> call_ok [] s r s' q.
Proof.
  intros Hb Ht H. unfold readline in H.
  apply rl_loop_ok in H; [|exact Hb|exact Ht].
  destruct H as (q2 & -> & Hc). exact Hc.
Qed.

Lemma step_ok fuel block c s r s' q :
  1 <= block -> 0 <= todo s ->
  step fuel block c s = Ok r s' q -> call_ok [] s r s' q.
Proof.
  intros Hb Ht. destruct c as [k|k]; cbn [step].
  - apply read_ok; assumption.
  - apply readline_ok; assumption.
Qed.

(* ------------------------------------------------------------- histories *)
Lemma results_cons r q rs : results ((r, q) :: rs) = r ++ results rs.
Proof. reflexivity. Qed.
Lemma logs_cons r (q : log) rs : logs ((r, q) :: rs) = q ++ logs rs.
Proof. reflexivity. Qed.

Lemma call_ok_todo s r s' q : 0 <= todo s -> call_ok [] s r s' q -> 0 <= todo s'.
Proof.
  intros Ht (_ & _ & Hw & Ht' & _). apply within_got in Hw; [|exact Ht]. lia.
Qed.

Lemma call_ok_trans s r1 s1 q1 r2 s2 q2 :
  0 <= todo s -> call_ok [] s r1 s1 q1 -> call_ok [] s1 r2 s2 q2 ->
  call_ok [] s (r1 ++ r2) s2 (q1 ++ q2).
Proof.
  intros Ht H1 H2. pose proof (call_ok_todo _ _ _ _ Ht H1) as Ht1.
  destruct H1 as (_ & Hp1 & Hw1 & Ht1' & (d1 & Hd1 & Hl1) & (pre1 & Hs1) & Hx1).
  destruct H2 as (_ & Hp2 & Hw2 & Ht2' & (d2 & Hd2 & Hl2) & (pre2 & Hs2) & Hx2).
  cbn [app] in *. unfold call_ok. cbn [app].
  split; [eexists; reflexivity|].
  split. { rewrite Hp1, Hp2, app_assoc. reflexivity. }
  split. { apply within_app. split; [exact Hw1|]. rewrite <- Ht1'. exact Hw2. }
  split. { rewrite got_app. lia. }
  split. { exists (d1 ++ d2). split.
           - rewrite Hd1, Hd2, app_assoc. reflexivity.
           - rewrite len_app, got_app. lia. }
  split. { exists (pre1 ++ pre2). rewrite Hs1, Hs2, app_assoc. reflexivity. }
  intros E Hfull. apply exact_app.
  - apply Hx1; assumption.
  - apply Hx2.
    + rewrite E in Hs1. symmetry in Hs1. apply app_eq_nil in Hs1. tauto.
    + rewrite Hd1, len_app in Hfull. lia.
Qed.

Lemma run_ok fuel block :
  1 <= block -> forall cs s rs fin ok,
  0 <= todo s -> run fuel block cs s = (rs, fin, ok) ->
  call_ok [] s (results rs) fin (logs rs).
Proof.
  intros Hb. induction cs as [|c cs IH]; intros s rs fin ok Ht; cbn [run].
  - intros [= <- <- <-]. apply call_ok_refl.
  - destruct (step fuel block c s) as [r s1 q|] eqn:Es.
    2:{ intros [= <- <- <-]. apply call_ok_refl. }
    destruct (run fuel block cs s1) as [[rs1 fin1] ok1] eqn:Er.
    intros [= <- <- <-]. rewrite results_cons, logs_cons.
    apply step_ok in Es; [|exact Hb|exact Ht].
    apply call_ok_trans with (s1 := s1); [exact Ht|exact Es|].
    apply IH with (ok := ok1); [|exact Er].
    apply (call_ok_todo _ _ _ _ Ht Es).
Qed.

(* (1) in order, nothing lost or duplicated *)
Theorem reader_prefix body n block shorts fuel cs rs fin ok :
  0 <= n -> 1 <= block ->
  run fuel block cs (init body n shorts) = (rs, fin, ok) ->
  take n body = results rs ++ pending fin.
Proof.
  intros Hn Hb H. apply run_ok in H; [|exact Hb|exact Hn].
  destruct H as (_ & Hp & _). exact Hp.
Qed.

(* (2) budget *)
Theorem reader_budget body n block shorts fuel cs rs fin ok :
  0 <= n -> 1 <= block ->
  run fuel block cs (init body n shorts) = (rs, fin, ok) ->
  within n (logs rs) /\
  todo fin = n - got (logs rs) /\ 0 <= got (logs rs) <= n /\
  (exists d, body = d ++ s_data (src fin) /\ len d = got (logs rs)) /\
  (shorts = [] -> n <= len body -> asked (logs rs) = got (logs rs)).
Proof.
  intros Hn Hb H. apply run_ok in H; [|exact Hb|exact Hn].
  destruct H as (_ & _ & Hw & Ht & Hd & _ & Hx). cbn [init todo src s_data s_shorts] in *.
  split; [exact Hw|]. split; [exact Ht|].
  split; [apply within_got; assumption|]. split; [exact Hd|].
  intros E Hfull. apply exact_asked. apply Hx; assumption.
Qed.

(* ------------------------------------------------- (4) liveness as fuel *)
Lemma nonempty_true l : nonempty l = true -> 1 <= len l.
Proof. destruct l; [discriminate|]. intros _. rewrite len_cons. pose proof (len_nonneg l). lia. Qed.

Lemma nonempty_false l : nonempty l = false -> l = [].
Proof. destruct l; [reflexivity|discriminate]. Qed.

Lemma rl_loop_done fuel block size line s q :
  size <= len line -> rl_loop fuel block size line s q = Ok line s q.
Proof.
  intros H. destruct fuel; cbn [rl_loop];
    replace (len line <? size) with false by lia; reflexivity.
Qed.

(* every execution of the loop body that is followed by another one moves at
   least one byte to the line or refills an empty buffer with at least one *)
Lemma rl_loop_live block size : forall fuel line s q,
  size - len line + (if nonempty (buf s) then 0 else 1) <= Z.of_nat fuel ->
  rl_loop fuel block size line s q <> OutOfFuel.
Proof.
  induction fuel as [|fuel IH]; intros line s q Hm.
  - cbn [rl_loop]. destruct (len line <? size) eqn:El; [|discriminate].
    destruct (nonempty (buf s)); lia.
  - cbn [rl_loop]. destruct (len line <? size) eqn:El; [|discriminate].
    destruct (ends_cr line && starts_lf (buf s)); [discriminate|].
    set (m := size - len line) in *.
    destruct (find_crlf (take m (buf s))); [discriminate|].
    destruct (len (line ++ take m (buf s)) <? size) eqn:El'.
    2:{ rewrite rl_loop_done by lia. discriminate. }
    destruct (_ =? 0); [discriminate|].
    destruct (s_read _ (src s)) as [data f]. cbv zeta.
    destruct (nonempty data) eqn:Ed; cbn [negb]; [|discriminate].
    apply IH. cbn [buf]. rewrite Ed. rewrite len_app, len_take.
    destruct (nonempty (buf s)) eqn:Eb.
    + apply nonempty_true in Eb. lia.
    + apply nonempty_false in Eb. rewrite Eb, len_nil. lia.
Qed.

Lemma eff_size_nonneg size s : 0 <= todo s -> 0 <= eff_size size s.
Proof.
  intros Ht. unfold eff_size. pose proof (len_nonneg (buf s)).
  destruct (Z.ltb_spec size 0); lia.
Qed.

Theorem readline_returns fuel block size s :
  eff_size size s < Z.of_nat fuel ->
  readline fuel block size s <> OutOfFuel.
Proof.
  intros H. unfold readline. apply rl_loop_live. rewrite len_nil.
  destruct (nonempty (buf s)); lia.
Qed.

Lemma call_ok_size s r s' q :
  0 <= todo s -> call_ok [] s r s' q ->
  len (buf s') + todo s' = len (buf s) + todo s - len r.
Proof.
  intros Ht (_ & Hp & Hw & Ht' & (d & Hd & Hl) & _).
  apply within_got in Hw; [|exact Ht].
  cbn [app] in Hp. unfold pending in Hp. rewrite Hd in Hp.
  rewrite take_app_le in Hp by lia.
  replace (todo s - len d) with (todo s') in Hp by lia.
  apply (f_equal len) in Hp. rewrite !len_app in Hp. lia.
Qed.

Lemma run_live fuel block :
  1 <= block -> forall cs s rs fin ok,
  0 <= todo s ->
  (forall c, In c cs -> call_size c < Z.of_nat fuel) ->
  len (buf s) + todo s < Z.of_nat fuel ->
  run fuel block cs s = (rs, fin, ok) -> ok = true.
Proof.
  intros Hb. induction cs as [|c cs IH]; intros s rs fin ok Ht Hc Hn; cbn [run].
  - intros [= <- <- <-]. reflexivity.
  - destruct (step fuel block c s) as [r s1 q|] eqn:Es.
    2:{ exfalso. destruct c as [k|k]; cbn [step] in Es.
        - unfold read in Es.
          repeat match type of Es with
                 | context [if ?b then _ else _] => destruct b
                 | context [let (_, _) := ?x in _] => destruct x
                 end; discriminate.
        - revert Es. apply readline_returns. unfold eff_size.
          specialize (Hc (CReadline k) (or_introl eq_refl)). cbn [call_size] in Hc.
          destruct (Z.ltb_spec k 0); lia. }
    destruct (run fuel block cs s1) as [[rs1 fin1] ok1] eqn:Er.
    intros [= <- <- <-].
    apply step_ok in Es; [|exact Hb|exact Ht].
    apply IH with (s := s1) (rs := rs1) (fin := fin1); [| | |exact Er].
    + apply (call_ok_todo _ _ _ _ Ht Es).
    + intros c' Hin. apply Hc. right. exact Hin.
    + pose proof (call_ok_size _ _ _ _ Ht Es). pose proof (len_nonneg r). lia.
Qed.

Theorem reader_returns body n block shorts fuel cs rs fin ok :
  0 <= n -> 1 <= block ->
  (forall c, In c cs -> call_size c < Z.of_nat fuel) -> n < Z.of_nat fuel ->
  run fuel block cs (init body n shorts) = (rs, fin, ok) -> ok = true.
Proof.
  intros Hn Hb Hc Hf. apply run_live; assumption.
Qed.

(* number of underlying reads of one call: every read but the last one
   received at least one byte *)
Definition nreads (q : log) : Z := Z.of_nat (List.length q).

Lemma nreads_app a b : nreads (a ++ b) = nreads a + nreads b.
Proof. unfold nreads. rewrite app_length. lia. Qed.

Lemma rl_loop_reads block size : forall fuel line s q r s' q',
  rl_loop fuel block size line s q = Ok r s' q' ->
  exists q2, q' = q ++ q2 /\ nreads q2 <= got q2 + 1 /\ 0 <= got q2.
Proof.
  induction fuel as [|fuel IH]; intros line s q r s' q'.
  - cbn [rl_loop]. destruct (len line <? size); [discriminate|].
    intros [= <- <- <-]. exists []. rewrite app_nil_r. split; [reflexivity|]. cbn. lia.
  - cbn [rl_loop]. destruct (len line <? size).
    2:{ intros [= <- <- <-]. exists []. rewrite app_nil_r. split; [reflexivity|]. cbn. lia. }
    destruct (ends_cr line && starts_lf (buf s)).
    { intros [= <- <- <-]. exists []. rewrite app_nil_r. split; [reflexivity|]. cbn. lia. }
    destruct (find_crlf _).
    { intros [= <- <- <-]. exists []. rewrite app_nil_r. split; [reflexivity|]. cbn. lia. }
    destruct (_ <? size).
    2:{ apply IH. }
    destruct (_ =? 0).
    { intros [= <- <- <-]. exists []. rewrite app_nil_r. split; [reflexivity|]. cbn. lia. }
    destruct (s_read _ (src s)) as [data f]. cbv zeta.
    destruct (nonempty data) eqn:Ed; cbn [negb].
    + intros H. apply IH in H. destruct H as (q2 & -> & Hr & Hg).
      eexists. split; [rewrite <- app_assoc; reflexivity|].
      apply nonempty_true in Ed. cbn [app].
      rewrite got_cons. change (?x :: q2) with ([x] ++ q2). rewrite nreads_app.
      change (nreads [_]) with 1. lia.
    + intros [= <- <- <-]. eexists. split; [reflexivity|].
      rewrite got_cons, got_nil. change (nreads [_]) with 1.
      pose proof (len_nonneg data). lia.
Qed.

Theorem reads_bounded fuel block c s r s' q :
  step fuel block c s = Ok r s' q -> nreads q <= got q + 1.
Proof.
  destruct c as [k|k]; cbn [step].
  - unfold read.
    repeat match goal with
           | |- context [if ?b then _ else _] => destruct b
           | |- context [let (_, _) := ?x in _] => destruct x
           end; intros [= <- <- <-];
      rewrite ?got_cons, ?got_nil; cbn [nreads List.length Z.of_nat];
      try pose proof (len_nonneg l); lia.
  - unfold readline. intros H. apply rl_loop_reads in H.
    destruct H as (q2 & -> & H & _). exact H.
Qed.

(* ------------------------------------------------ (3) CRLF and cut reason *)
Lemma find_crlf_cons x t :
  find_crlf (x :: t) =
  if (x =? 13) && starts_lf t then Some 0 else option_map Z.succ (find_crlf t).
Proof. reflexivity. Qed.

Lemma omap_none (o : option Z) : option_map Z.succ o = None <-> o = None.
Proof. destruct o; cbn [option_map]; split; intros H; try discriminate; reflexivity. Qed.

Lemma starts_lf_app a b : starts_lf a = true -> starts_lf (a ++ b) = true.
Proof. destruct a; [discriminate|]. intros H. exact H. Qed.

Lemma starts_lf_take k l : starts_lf (take k l) = true -> starts_lf l = true.
Proof.
  intros H. rewrite <- (take_drop k l). apply starts_lf_app. exact H.
Qed.

Lemma ends_cr_nil : ends_cr [] = false.
Proof. reflexivity. Qed.

Lemma ends_cr_cons2 x y l : ends_cr (x :: y :: l) = ends_cr (y :: l).
Proof. reflexivity. Qed.

Lemma ends_cr_inv l : ends_cr l = true -> exists p, l = p ++ [13].
Proof.
  intros H. destruct l as [|x l]; [discriminate|].
  exists (removelast (x :: l)). unfold ends_cr in H. apply Z.eqb_eq in H.
  rewrite <- H. apply app_removelast_last. discriminate.
Qed.

Lemma find_none_app a : forall b,
  find_crlf (a ++ b) = None <->
  (find_crlf a = None /\ find_crlf b = None /\ ends_cr a && starts_lf b = false).
Proof.
  induction a as [|x a IH]; intros b.
  - cbn [app]. rewrite ends_cr_nil. cbn [andb find_crlf]. tauto.
  - destruct a as [|y a].
    + cbn [app]. rewrite !find_crlf_cons. cbn [starts_lf find_crlf].
      rewrite andb_false_r. cbn [option_map].
      change (ends_cr [x]) with (x =? 13).
      destruct ((x =? 13) && starts_lf b).
      * split; [discriminate|]. intros (_ & _ & H). discriminate.
      * rewrite omap_none. tauto.
    + specialize (IH b).
      change ((x :: y :: a) ++ b) with (x :: (y :: a) ++ b).
      rewrite (find_crlf_cons x ((y :: a) ++ b)), (find_crlf_cons x (y :: a)).
      change (starts_lf ((y :: a) ++ b)) with (starts_lf (y :: a)).
      rewrite ends_cr_cons2.
      destruct ((x =? 13) && starts_lf (y :: a)).
      * split; [discriminate|]. intros (H & _). discriminate.
      * rewrite !omap_none. exact IH.
Qed.

Lemma find_some l : forall p,
  find_crlf l = Some p ->
  exists a c, l = a ++ [13; 10] ++ c /\ len a = p /\ find_crlf (a ++ [13]) = None.
Proof.
  induction l as [|x t IH]; intros p; [discriminate|].
  rewrite find_crlf_cons. destruct ((x =? 13) && starts_lf t) eqn:E.
  - intros [= <-]. apply andb_true_iff in E as [Ex Et].
    apply Z.eqb_eq in Ex. subst x. destruct t as [|y c]; [discriminate|].
    cbn [starts_lf] in Et. apply Z.eqb_eq in Et. subst y.
    exists [], c. repeat split.
  - destruct (find_crlf t) as [p'|] eqn:Ef; cbn [option_map]; [|discriminate].
    intros [= <-]. destruct (IH p' eq_refl) as (a & c & Ht & Hl & Hn).
    exists (x :: a), c. split; [rewrite Ht; reflexivity|].
    split; [rewrite len_cons; lia|].
    change ((x :: a) ++ [13]) with (x :: (a ++ [13])). rewrite find_crlf_cons, Hn.
    replace ((x =? 13) && starts_lf (a ++ [13])) with false; [reflexivity|].
    rewrite <- E. f_equal. rewrite Ht. destruct a; reflexivity.
Qed.

Lemma find_none_no_crlf l : find_crlf l = None -> forall i, ~ crlf_at l i.
Proof.
  induction l as [|x t IH]; intros H i [H1 H2].
  - destruct i; discriminate.
  - rewrite find_crlf_cons in H.
    destruct ((x =? 13) && starts_lf t) eqn:E; [discriminate|].
    rewrite omap_none in H. destruct i as [|i].
    + cbn [nth_error] in H1, H2. injection H1 as ->.
      destruct t as [|y t]; [discriminate|]. cbn [nth_error] in H2.
      injection H2 as ->. discriminate.
    + apply (IH H i). split; assumption.
Qed.

(* at most one CRLF, and then at the end *)
Definition shape (r : list Z) : Prop :=
  find_crlf r = None \/
  exists p, r = p ++ [13; 10] /\ find_crlf (p ++ [13]) = None.

Lemma shape_only_end r :
  shape r -> forall i, crlf_at r i -> (i + 2)%nat = List.length r.
Proof.
  intros [H|(p & -> & H)] i Hc.
  - exfalso. exact (find_none_no_crlf _ H i Hc).
  - rewrite app_length. cbn [List.length].
    destruct (Nat.lt_trichotomy i (List.length p)) as [Hlt|[Heq|Hgt]].
    + exfalso. apply (find_none_no_crlf _ H i).
      destruct Hc as [H1 H2].
      change (p ++ [13; 10]) with (p ++ [13] ++ [10]) in H1, H2.
      rewrite app_assoc in H1, H2.
      rewrite nth_error_app1 in H1 by (rewrite app_length; cbn [List.length]; lia).
      rewrite nth_error_app1 in H2 by (rewrite app_length; cbn [List.length]; lia).
      split; assumption.
    + lia.
    + exfalso. destruct Hc as [_ H2].
      assert (nth_error (p ++ [13; 10]) (S i) = None) as E.
      { apply nth_error_None. rewrite app_length. cbn [List.length]. lia. }
      rewrite E in H2. discriminate.
Qed.

(* the last underlying read of the log returned nothing *)
Definition dry (q : log) : Prop := exists q0 k, q = q0 ++ [(k, 0)].

Lemma exhausted_intro b t f : len b = 0 -> t = 0 -> exhausted (St b t f).
Proof. intros Hb Ht. split; cbn [buf todo]; [apply len_zero; exact Hb|exact Ht]. Qed.

Lemma rl_loop_shape block size C :
  1 <= block -> forall fuel line s q r s' q',
  0 <= todo s -> find_crlf line = None -> len line <= size ->
  len line + len (buf s) + todo s <= C ->
  rl_loop fuel block size line s q = Ok r s' q' ->
  shape r /\ len r <= size /\
  (ends_crlf r \/ (len r = size /\ (C <= size -> exhausted s')) \/
   exhausted s' \/ dry q').
Proof.
  intros Hb.
  assert (forall line s, 0 <= todo s -> find_crlf line = None -> len line <= size ->
          len line + len (buf s) + todo s <= C -> size <= len line ->
          shape line /\ len line <= size /\
          (ends_crlf line \/ (len line = size /\ (C <= size -> exhausted s)) \/
           exhausted s \/ False)) as Hexit.
  { intros line s Ht Hf Hl HC Hge. split; [left; exact Hf|]. split; [exact Hl|].
    right. left. split; [lia|]. intros HCs.
    pose proof (len_nonneg (buf s)). destruct s as [b t f]. cbn [buf todo] in *.
    apply exhausted_intro; lia. }
  induction fuel as [|fuel IH]; intros line s q r s' q' Ht Hf Hl HC.
  - cbn [rl_loop]. destruct (len line <? size) eqn:El; [discriminate|].
    intros [= <- <- <-].
    destruct (Hexit line s Ht Hf Hl HC ltac:(lia)) as (H1 & H0 & H2).
    split; [exact H1|]. split; [exact H0|]. tauto.
  - cbn [rl_loop]. destruct (len line <? size) eqn:El.
    2:{ intros [= <- <- <-].
        destruct (Hexit line s Ht Hf Hl HC ltac:(lia)) as (H1 & H0 & H2).
        split; [exact H1|]. split; [exact H0|]. tauto. }
    destruct (ends_cr line && starts_lf (buf s)) eqn:Ediv.
    { intros [= <- <- <-]. apply andb_true_iff in Ediv as [Hcr _].
      apply ends_cr_inv in Hcr as (p & Hp).
      assert (line ++ [10] = p ++ [13; 10]) as E
          by (rewrite Hp, <- app_assoc; reflexivity).
      split; [|split].
      - right. exists p. split; [exact E|]. rewrite <- Hp. exact Hf.
      - rewrite len_app. change (len [10]) with 1. lia.
      - left. exists p. exact E. }
    set (m := size - len line) in *.
    destruct (find_crlf (take m (buf s))) as [pos|] eqn:Ef.
    { intros [= <- <- <-].
      apply find_some in Ef as (a & c & Htk & Hla & Hna).
      assert (take (pos + 2) (buf s) = a ++ [13; 10]) as E.
      { rewrite <- (take_drop m (buf s)), Htk.
        replace ((a ++ [13; 10] ++ c) ++ drop m (buf s))
          with ((a ++ [13; 10]) ++ (c ++ drop m (buf s)))
          by (rewrite <- !app_assoc; reflexivity).
        rewrite take_app_le by (rewrite len_app; cbn; lia).
        rewrite take_nonpos by (rewrite len_app; cbn; lia).
        apply app_nil_r. }
      rewrite E.
      assert (line ++ a ++ [13; 10] = (line ++ a) ++ [13; 10]) as E2
          by (rewrite app_assoc; reflexivity).
      assert (len (a ++ [13; 10]) <= m) as Hwin.
      { pose proof (len_take m (buf s)) as Hlt. rewrite Htk, !len_app in Hlt.
        rewrite len_app. pose proof (len_nonneg c). lia. }
      split; [|split].
      - right. exists (line ++ a). split; [exact E2|].
        rewrite <- app_assoc. apply find_none_app.
        split; [exact Hf|]. split; [exact Hna|].
        destruct (ends_cr line); [|reflexivity]. cbn [andb] in *.
        destruct a as [|x a].
        + reflexivity.
        + assert (starts_lf (take m (buf s)) = starts_lf ((x :: a) ++ [13])) as E3
              by (rewrite Htk; reflexivity).
          rewrite <- E3.
          destruct (starts_lf (take m (buf s))) eqn:E4; [|reflexivity].
          apply starts_lf_take in E4. congruence.
      - rewrite len_app. lia.
      - left. exists (line ++ a). exact E2. }
    (* no CRLF in the window: move it to the line *)
    assert (find_crlf (line ++ take m (buf s)) = None) as Hf'.
    { apply find_none_app. split; [exact Hf|]. split; [exact Ef|].
      destruct (ends_cr line); [|reflexivity]. cbn [andb] in *.
      destruct (starts_lf (take m (buf s))) eqn:E4; [|reflexivity].
      apply starts_lf_take in E4. congruence. }
    assert (len (line ++ take m (buf s)) <= size) as Hl'
        by (rewrite len_app, len_take; lia).
    pose proof (len_nonneg (buf s)) as Hbn.
    destruct (len (line ++ take m (buf s)) <? size) eqn:El'.
    2:{ apply IH; cbn [buf todo]; try assumption.
        rewrite len_app, len_take, len_drop. lia. }
    assert (take m (buf s) = buf s) as Hall.
    { apply take_all. rewrite len_app, len_take in El'. lia. }
    assert (drop m (buf s) = []) as Hnone.
    { apply drop_all. rewrite len_app, len_take in El'. lia. }
    rewrite Hall in *. rewrite Hnone.
    set (n_size := Z.min (Z.min (todo s) (size - len (line ++ buf s))) block).
    destruct (n_size =? 0) eqn:En.
    { intros [= <- <- <-]. split; [left; exact Hf'|]. split; [exact Hl'|].
      right. right. left. apply exhausted_intro; [reflexivity|]. subst n_size. lia. }
    destruct (s_read n_size (src s)) as [data f] eqn:Er.
    pose proof (s_read_spec _ _ _ _ Er) as (_ & Hlen & _).
    assert (0 <= n_size <= todo s) as Hn by (subst n_size; lia).
    cbv zeta. destruct (nonempty data) eqn:Ed; cbn [negb].
    + apply IH; cbn [buf todo]; try assumption; [lia|].
      rewrite len_app in *. lia.
    + intros [= <- <- <-]. split; [left; exact Hf'|]. split; [exact Hl'|].
      right. right. right. exists q, n_size.
      apply nonempty_false in Ed. rewrite Ed. reflexivity.
Qed.

Theorem readline_line fuel block size s r s' q :
  1 <= block -> 0 <= todo s ->
  readline fuel block size s = Ok r s' q ->
  (forall i, crlf_at r i -> (i + 2)%nat = List.length r) /\
  (0 <= size -> len r <= size) /\
  (ends_crlf r \/ (0 <= size /\ len r = size) \/ exhausted s' \/ dry q).
Proof.
  intros Hb Ht H. unfold readline in H.
  apply rl_loop_shape with (C := len (buf s) + todo s) in H;
    try assumption; try reflexivity;
    [|rewrite len_nil; first [apply eff_size_nonneg; exact Ht | lia] ..].
  - destruct H as (Hs & Hle & Hc). split; [apply shape_only_end; exact Hs|].
    split. { intros H0. unfold eff_size in Hle. destruct (Z.ltb_spec size 0); lia. }
    destruct Hc as [Hc|[(Hc1 & Hc2)|Hc]]; [left; exact Hc| |right; right; exact Hc].
    unfold eff_size in *. destruct (Z.ltb_spec size 0).
    + right. right. left. apply Hc2. lia.
    + right. left. split; assumption.
Qed.

(* ------------------------------------- (5) completeness, blocking stream *)
Lemma take_found m b pos :
  find_crlf (take m b) = Some pos -> take (pos + 2) b <> [].
Proof.
  intros Ef. apply find_some in Ef as (a & c & Htk & Hla & _).
  assert (take (pos + 2) b = a ++ [13; 10]) as E.
  { rewrite <- (take_drop m b), Htk.
    replace ((a ++ [13; 10] ++ c) ++ drop m b)
      with ((a ++ [13; 10]) ++ (c ++ drop m b))
      by (rewrite <- !app_assoc; reflexivity).
    rewrite take_app_le by (rewrite len_app; cbn; lia).
    rewrite take_nonpos by (rewrite len_app; cbn; lia).
    apply app_nil_r. }
  rewrite E. destruct a; discriminate.
Qed.

Lemma rl_empty block size :
  1 <= block -> 0 < size -> forall fuel line s q s' q',
  0 <= todo s -> s_shorts (src s) = [] ->
  rl_loop fuel block size line s q = Ok [] s' q' ->
  line = [] /\ pending s = [].
Proof.
  intros Hb Hs. induction fuel as [|fuel IH]; intros line s q s' q' Ht Hsh H.
  - pose proof (rl_loop_ok block size Hb _ _ _ _ _ _ _ Ht H) as (_ & _ & (t & Hp) & _).
    symmetry in Hp. apply app_eq_nil in Hp as [-> _].
    cbn [rl_loop] in H. change (len []) with 0 in H.
    replace (0 <? size) with true in H by lia. discriminate.
  - pose proof (rl_loop_ok block size Hb _ _ _ _ _ _ _ Ht H) as (_ & _ & (t & Hp) & _).
    symmetry in Hp. apply app_eq_nil in Hp as [-> _]. split; [reflexivity|].
    revert H. cbn [rl_loop]. change (len []) with 0.
    replace (0 <? size) with true by lia.
    rewrite ends_cr_nil. cbn [andb app]. replace (size - 0) with size by lia.
    destruct (find_crlf (take size (buf s))) as [pos|] eqn:Ef.
    { intros [= E _ _]. apply take_found in Ef. contradiction. }
    destruct (len (take size (buf s)) <? size) eqn:El'.
    2:{ intros H. apply IH in H; [|exact Ht|exact Hsh]. destruct H as (E & _).
        rewrite E in El'. change (len []) with 0 in El'. lia. }
    assert (take size (buf s) = buf s) as Hall.
    { apply take_all. rewrite len_take in El'. lia. }
    rewrite Hall. rewrite Hall in El'.
    set (n_size := Z.min (Z.min (todo s) (size - len (buf s))) block).
    unfold pending.
    destruct (n_size =? 0) eqn:En.
    { intros [= E _ _]. rewrite E. subst n_size. rewrite E in En.
      change (len []) with 0 in En.
      rewrite take_nonpos by lia. reflexivity. }
    destruct (s_read n_size (src s)) as [data f] eqn:Er.
    destruct (s_read_blocking _ _ _ _ Er Hsh) as (Hdata & Hsh').
    pose proof (s_read_spec _ _ _ _ Er) as (_ & Hlen & _).
    cbv zeta. destruct (nonempty data) eqn:Ed; cbn [negb].
    + intros H. apply IH in H; [|cbn [todo]; subst n_size; lia|exact Hsh'].
      destruct H as (_ & H). unfold pending in H. cbn [buf] in H.
      apply app_eq_nil in H as [H _]. rewrite H in Ed. discriminate.
    + intros [= E _ _]. rewrite E. apply nonempty_false in Ed. rewrite Ed in Hdata.
      symmetry in Hdata. apply take_empty_inv in Hdata; [|subst n_size; lia].
      rewrite Hdata, take_nil. reflexivity.
Qed.

Lemma pending_nil_intro s : buf s = [] -> todo s = 0 \/ s_data (src s) = [] -> pending s = [].
Proof.
  intros Hb [H|H]; unfold pending; rewrite Hb, H; cbn [app].
  - apply take_nonpos. lia.
  - apply take_nil.
Qed.

Lemma readline_empty fuel block size s s' q :
  1 <= block -> 0 <= todo s -> s_shorts (src s) = [] -> size <> 0 ->
  readline fuel block size s = Ok [] s' q -> pending s = [].
Proof.
  intros Hb Ht Hsh Hs H. unfold readline in H.
  pose proof (eff_size_nonneg size s Ht) as He.
  destruct (Z.eq_dec (eff_size size s) 0) as [E|E].
  - unfold eff_size in E. pose proof (len_nonneg (buf s)).
    destruct (Z.ltb_spec size 0); [|lia].
    apply pending_nil_intro; [apply len_zero; lia|left; lia].
  - apply rl_empty in H; try assumption; [|lia]. tauto.
Qed.

Lemma read_empty block size s s' q :
  1 <= block -> 0 <= todo s -> s_shorts (src s) = [] -> size <> 0 ->
  read block size s = Ok [] s' q -> pending s = [].
Proof.
  intros Hb Ht Hsh Hs. unfold read.
  set (sz := Z.min (todo s + len (buf s)) (if size <? 0 then block else size)).
  assert (1 <= (if size <? 0 then block else size)) as Hs'
      by (destruct (Z.ltb_spec size 0); lia).
  destruct (nonempty (buf s)) eqn:Eb.
  - apply nonempty_true in Eb.
    destruct (len (buf s) >=? sz).
    + intros [= E _ _]. apply (f_equal len) in E. rewrite len_take in E.
      change (len []) with 0 in E. subst sz. lia.
    + destruct (s_read _ (src s)) as [data f]. intros [= E _ _].
      apply app_eq_nil in E as [E _]. rewrite E in Eb. change (len []) with 0 in Eb. lia.
  - apply nonempty_false in Eb.
    destruct (s_read (Z.min (todo s) sz) (src s)) as [data f] eqn:Er.
    intros [= E _ _]. subst data.
    destruct (s_read_blocking _ _ _ _ Er Hsh) as (Hdata & _).
    apply pending_nil_intro; [exact Eb|].
    subst sz. rewrite Eb in Hdata. change (len []) with 0 in Hdata.
    destruct (Z.eq_dec (todo s) 0) as [E0|E0]; [left; exact E0|right].
    symmetry in Hdata. apply take_empty_inv in Hdata; [exact Hdata|lia].
Qed.

Theorem reader_complete body n block fuel cs rs s c s' q :
  0 <= n -> 1 <= block -> call_size c <> 0 ->
  run fuel block cs (init body n []) = (rs, s, true) ->
  step fuel block c s = Ok [] s' q ->
  results rs = take n body.
Proof.
  intros Hn Hb Hc Hrun Hstep.
  pose proof (reader_prefix _ _ _ _ _ _ _ _ _ Hn Hb Hrun) as Hp.
  apply run_ok in Hrun; [|exact Hb|exact Hn].
  pose proof (call_ok_todo (init body n []) _ _ _ Hn Hrun) as Ht.
  destruct Hrun as (_ & _ & _ & _ & _ & (pre & Hsh) & _).
  cbn [init src s_shorts] in Hsh. symmetry in Hsh. apply app_eq_nil in Hsh as [_ Hsh].
  assert (pending s = []) as E.
  { destruct c as [k|k]; cbn [step call_size] in *.
    - eapply read_empty; eassumption.
    - eapply readline_empty; eassumption. }
  rewrite Hp, E, app_nil_r. reflexivity.
Qed.

(* read(size) with size >= 0 returns at most size bytes *)
Theorem read_within_limit block size s r s' q :
  0 <= size -> read block size s = Ok r s' q -> len r <= size.
Proof.
  intros Hs. unfold read. replace (size <? 0) with false by lia.
  set (sz := Z.min (todo s + len (buf s)) size).
  destruct (nonempty (buf s)).
  - destruct (len (buf s) >=? sz) eqn:Ec.
    + intros [= <- _ _]. rewrite len_take. subst sz. lia.
    + destruct (s_read _ (src s)) as [data f] eqn:Er. intros [= <- _ _].
      apply s_read_spec in Er as (_ & Hl & _). rewrite len_app. subst sz. lia.
  - destruct (s_read _ (src s)) as [data f] eqn:Er. intros [= <- _ _].
    apply s_read_spec in Er as (_ & Hl & _). subst sz. lia.
Qed.

(* (3) and (4) after any history *)
Theorem reader_lines body n block shorts fuel cs rs s ok k r s' q :
  0 <= n -> 1 <= block ->
  run fuel block cs (init body n shorts) = (rs, s, ok) ->
  readline fuel block k s = Ok r s' q ->
  (forall i, crlf_at r i -> (i + 2)%nat = List.length r) /\
  (0 <= k -> len r <= k) /\
  (ends_crlf r \/ (0 <= k /\ len r = k) \/ exhausted s' \/
   exists q0 j, q = q0 ++ [(j, 0)]).
Proof.
  intros Hn Hb Hrun H. apply run_ok in Hrun; [|exact Hb|exact Hn].
  pose proof (call_ok_todo (init body n shorts) _ _ _ Hn Hrun) as Ht.
  exact (readline_line _ _ _ _ _ _ _ Hb Ht H).
Qed.

Theorem reader_reads_bounded body n block shorts fuel cs rs s ok c r s' q :
  0 <= n -> 1 <= block ->
  run fuel block cs (init body n shorts) = (rs, s, ok) ->
  step fuel block c s = Ok r s' q ->
  Z.of_nat (List.length q) <= got q + 1 /\ got q <= n - got (logs rs).
Proof.
  intros Hn Hb Hrun H. split; [exact (reads_bounded _ _ _ _ _ _ _ H)|].
  apply run_ok in Hrun; [|exact Hb|exact Hn].
  pose proof (call_ok_todo (init body n shorts) _ _ _ Hn Hrun) as Ht.
  destruct Hrun as (_ & _ & _ & Ht' & _). cbn [init todo] in Ht'.
  apply step_ok in H; [|exact Hb|exact Ht].
  destruct H as (_ & _ & Hw & _). apply within_got in Hw; [|exact Ht]. lia.
Qed.

(* ----------------------------------------------------------- non-vacuity *)
(* "ab\r\ncd\r\nef" with block 3: the CRLFs are divided by block edges *)
Example lines_example :
  let '(rs, fin, ok) :=
    run 20 3 [CReadline (-1); CReadline (-1); CReadline (-1); CReadline (-1)]
        (init [97; 98; 13; 10; 99; 100; 13; 10; 101; 102] 10 []) in
  map fst rs = [[97; 98; 13; 10]; [99; 100; 13; 10]; [101; 102]; []] /\
  map fst (logs rs) = [3; 3; 3; 1] /\ ok = true /\ pending fin = [].
Proof. vm_compute. repeat split. Qed.

(* short and momentarily empty reads, mixed calls *)
Example mixed_example :
  let '(rs, fin, ok) :=
    run 20 4 [CReadline 3; CRead 1; CReadline (-1); CRead (-1); CRead 2]
        (init [97; 13; 10; 98; 99; 13; 10; 100] 7 [2; 0; 1]) in
  map fst rs = [[97; 13]; [10]; [98; 99; 13; 10]; []; []] /\
  logs rs = [(3, 2); (1, 0); (1, 1); (4, 4); (0, 0); (0, 0)] /\ ok = true.
Proof. vm_compute. repeat split. Qed.
