(* The emission entry points generated from poorwsgi/response.py
   (gen/CallGen.v) equal the hand model model/Emit.v, for every object state
   and for __start_response__ / __end_of_response__ as arbitrary effects. *)
From Coq Require Import ZArith List Bool String.
Require Import PW.model.Emit PW.lib.PyCall PW.gen.CallGen.
Import ListNotations.
Open Scope string_scope.

Section Eq.
  Variables St X B : Type.
  Variable start : St -> St * option X.
  Variable finish : St -> St * (B + X).

  (* BaseResponse.__call__ = call_once: same new object state (flag and the
     rest), same outcome (body / the exception of the effect / RuntimeError
     with the message), on every path including the exceptional ones *)
  Theorem gen_response_call_eq : forall o : obj St,
    run St X B start finish gen_response_call o
    = (fst (call_once St X B start finish o),
       of_result X B (snd (call_once St X B start finish o))).
  Proof.
    intros [d s]. unfold run, gen_response_call, call_once, emit.
    cbn [exec eval String.eqb Ascii.eqb Bool.eqb done_attr done rest].
    destruct d; cbn [exec eval String.eqb Ascii.eqb Bool.eqb done rest fst snd of_result].
    - reflexivity.
    - destruct (start s) as [s1 [x|]]; cbn [fst snd of_result done rest].
      + reflexivity.
      + destruct (finish s1) as [s2 [b|x]]; reflexivity.
  Qed.

  Theorem gen_response_call_arity_eq : gen_response_call_arity = 2%nat.
  Proof. reflexivity. Qed.

  (* Declined.__call__: the object and the world are untouched (no
     start_response call, flag unchanged), the value is the empty tuple *)
  Theorem gen_declined_call_eq : forall o : obj St,
    run St X B start finish gen_declined_call o
    = (declined_call St o, Ret VTuple0).
  Proof. intros o. reflexivity. Qed.

  (* BaseResponse.__end_of_response__: no effect, the empty bytes *)
  Theorem gen_base_end_eq : forall o : obj St,
    run St X B start finish gen_base_end o = (o, Ret (VBytes [])).
  Proof. intros o. reflexivity. Qed.
End Eq.

(* which class answers __call__ / __end_of_response__: Declined and
   NoContentResponse inherit from BaseResponse in one line each, and neither
   NoContentResponse nor Declined redefines what the theorems above cover
   through inheritance *)
Theorem gen_call_resolution_eq :
  gen_bases_BaseResponse = [] /\
  gen_bases_NoContentResponse = ["BaseResponse"] /\
  gen_bases_Declined = ["NoContentResponse"] /\
  gen_own_definitions = [("NoContentResponse", "__call__", 0%nat);
                         ("NoContentResponse", "__end_of_response__", 0%nat);
                         ("Declined", "__end_of_response__", 0%nat)].
Proof. repeat split; reflexivity. Qed.
