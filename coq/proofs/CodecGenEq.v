(* The definitions generated from the current source of the header codecs of
   poorwsgi/headers.py (gen/CodecGen.v, by harness/py2v_codec.py over
   lib/Py.v + lib/PyParam.v + lib/PyCodec.v) equal the hand model
   (model/HeaderCodec.v) for every input. *)
From Coq Require Import ZArith List Bool Lia String.
Require Import PW.lib.Val PW.lib.ValFacts PW.lib.Dec PW.lib.Py PW.lib.PyParam
               PW.lib.PyCodec.
Require Import PW.gen.CodecGen PW.model.HeaderCodec PW.proofs.HeaderCodecProofs.
Import ListNotations.
Open Scope list_scope.
Open Scope Z_scope.

(* a raised exception of the model as a Python exception *)
Definition enc_outcome {A} (enc : A -> pv) (o : outcome A) : res pv :=
  match o with
  | HeaderCodec.Ok a => Py.Ok (enc a)
  | HeaderCodec.Raised e => Py.Err (Py.Raised e PNone)
  end.

(* ------------------------------------------------------------------ *)
(* str.split of lib/PyCodec.v is the model's for a one-character separator *)
Lemma split_go_char c : forall s, split_go [c] 0 s = split_on c s.
Proof.
  induction s as [|x r IH]; [reflexivity|].
  cbn [split_go split_on Py.is_prefix List.length Nat.sub].
  rewrite andb_true_r, (Z.eqb_sym c x), IH. reflexivity.
Qed.

(* ------------------------------------------------------------------ *)
(* parse_range *)
Definition enc_opt (o : option Z) : pv :=
  match o with Some n => PInt n | None => PNone end.
Definition enc_range (r : range_t) : pv := PTuple [enc_opt (fst r); enc_opt (snd r)].
Definition enc_range_dict (d : range_dict) : pv :=
  PList (map (fun kv => PTuple [PStr (fst kv); PList (map enc_range (snd kv))]) d).
Definition enc_match (m : list Z * list Z) : pv :=
  PTuple [PStr (fst m); PStr (snd m)].
Definition digit_groups (m : list Z * list Z) : Prop :=
  forallb is_digit (fst m) = true /\ forallb is_digit (snd m) = true.

(* the groups the scanner returns are runs of ASCII digits *)
Lemma span_digits_digits : forall s, forallb is_digit (fst (span_digits s)) = true.
Proof.
  induction s as [|c r IH]; [reflexivity|]. cbn [span_digits].
  destruct (is_digit c) eqn:E; [|reflexivity].
  destruct (span_digits r) as [d t]. cbn [fst forallb] in *.
  rewrite E, IH. reflexivity.
Qed.

Lemma match_at_digits s m rest : match_at s = Some (m, rest) -> digit_groups m.
Proof.
  unfold match_at. pose proof (span_digits_digits s) as H1.
  destruct (span_digits s) as [d1 r1]. destruct r1 as [|c r2]; [discriminate|].
  destruct (c =? 45); [|discriminate].
  pose proof (span_digits_digits r2) as H2.
  destruct (span_digits r2) as [d2 r3]. intros H. inversion H. subst.
  split; assumption.
Qed.

Lemma findall_digits : forall fuel s, Forall digit_groups (findall_fuel fuel s).
Proof.
  induction fuel as [|f IH]; intros s; [constructor|]. cbn [findall_fuel].
  destruct (match_at s) as [[m rest]|] eqn:E.
  - constructor; [exact (match_at_digits _ _ _ E)|apply IH].
  - destruct s; [constructor|apply IH].
Qed.

(* int(x) on a non-empty digit group *)
Lemma cint_digits (s : list Z) :
  forallb is_digit s = true -> s <> [] ->
  cint (PStr s) = match int_digits s with
                  | HeaderCodec.Ok n => Py.Ok (PInt n)
                  | HeaderCodec.Raised _ => Py.Err ValueError
                  end.
Proof.
  intros H Hne. unfold cint, int_digits. rewrite H.
  destruct s as [|c r]; [congruence|]. cbn [is_nil negb andb].
  destruct (max_str_digits <? len (c :: r)); reflexivity.
Qed.

(* the for loop: the ranges collected so far are [acc] *)
Lemma range_loop : forall ms value unit pairs acc,
  Forall digit_groups ms ->
  gen_parse_range_loop_1 (map enc_match ms) value unit pairs (PList acc)
  = match build_ranges ms with
    | HeaderCodec.Ok r =>
        Py.Ok (PList [PTuple [unit; PList (acc ++ map enc_range r)]])
    | HeaderCodec.Raised _ => Py.Err ValueError
    end.
Proof.
  induction ms as [|[s e] ms IH]; intros value unit pairs acc Hd.
  - cbn [map gen_parse_range_loop_1 build_ranges]. rewrite app_nil_r.
    reflexivity.
  - inversion Hd as [|m ms' [Hs He] Hd']. subst. cbn [fst snd] in Hs, He.
    cbn [map gen_parse_range_loop_1 enc_match fst snd punpack2 Py.bind
         build_ranges].
    cbv zeta. cbn [pnot Py.bind].
    destruct s as [|c r], e as [|c' r'];
      cbn [truthy negb andb is_nil opt_int HeaderCodec.bind Py.bind];
      try (apply IH; exact Hd');
      rewrite ?(cint_digits (c :: r)) by (try exact Hs; discriminate);
      rewrite ?(cint_digits (c' :: r')) by (try exact He; discriminate);
      try (destruct (int_digits (c :: r)) as [a|x]; [|reflexivity]);
      try (destruct (int_digits (c' :: r')) as [b|x']; [|reflexivity]);
      cbn [HeaderCodec.bind pappend Py.bind]; rewrite IH by exact Hd';
      (destruct (build_ranges ms) as [rs|x'']; [|reflexivity]);
      cbn [HeaderCodec.bind map enc_range enc_opt fst snd];
      rewrite <- app_assoc; reflexivity.
Qed.

(* parse_range(value) for every str value *)
Theorem gen_parse_range_is_model value :
  gen_parse_range (PStr value) = enc_outcome enc_range_dict (parse_range value).
Proof.
  unfold gen_parse_range, parse_range, parse_range_body.
  cbn [psplit Py.bind]. rewrite split_go_char.
  destruct (split_on 61 value) as [|unit [|pairs [|x t]]]; try reflexivity.
  cbn [map punpack2 Py.bind]. cbv zeta.
  unfold pfindall.
  change (lz_eqb [40;92;100;42;41;45;40;92;100;42;41;44;63] re_bytes_range)
    with true.
  cbn iota. cbn [Py.bind piter].
  change (map (fun m => PTuple [PStr (fst m); PStr (snd m)]) (findall pairs))
    with (map enc_match (findall pairs)).
  rewrite range_loop by apply findall_digits.
  pose proof (build_ranges_only (findall pairs)) as Ho.
  destruct (build_ranges (findall pairs)) as [r|e]; cbn [app].
  - reflexivity.
  - cbn in Ho. subst e. reflexivity.
Qed.

(* ------------------------------------------------------------------ *)
(* str(ContentRange(...)): the value of full is an int or the text "*" *)
Definition enc_full (full : option Z) : pv :=
  match full with Some n => PInt n | None => PStr [42] end.

Theorem gen_content_range_is_model :
  (forall units a b full,
     gen_content_range_4 (PInt a) (PInt b) (enc_full full) (PStr units)
     = Py.Ok (PStr (content_range units a b full))) /\
  (forall a b full,
     gen_content_range_3 (PInt a) (PInt b) (enc_full full)
     = Py.Ok (PStr (content_range (s2l "bytes") a b full))) /\
  (forall a b,
     gen_content_range_2 (PInt a) (PInt b)
     = Py.Ok (PStr (content_range (s2l "bytes") a b None))) /\
  (forall a,
     gen_content_range_1 (PInt a)
     = Py.Ok (PStr (content_range (s2l "bytes") a 0 None))) /\
  gen_content_range_0 = Py.Ok (PStr (content_range (s2l "bytes") 0 0 None)).
Proof.
  unfold gen_content_range_4, gen_content_range_3, gen_content_range_2,
    gen_content_range_1, gen_content_range_0, content_range, pfmt.
  cbv zeta. cbn [Py.bind flat_map pstr].
  repeat split; intros; try destruct full; cbn [enc_full pstr];
    rewrite ?app_nil_r; reflexivity.
Qed.

(* ------------------------------------------------------------------ *)
(* parse_negotiation / render_negotiation.  float(), str() of a q-value and
   the literal 1.0 are variables of the generated file; they are tied to the
   model's parameters [float], [str_q], [one] through an encoding
   [encq : Q -> pv] of the q-values as Python values. *)
Lemma str_lstrip_eq s : str_lstrip s = lstrip s.
Proof. induction s as [|c s IH]; [reflexivity|]. cbn [str_lstrip lstrip].
  change (str_is_space c) with (is_space c). rewrite IH. reflexivity. Qed.
Lemma str_strip_eq s : str_strip s = strip s.
Proof. unfold str_strip, strip. rewrite !str_lstrip_eq. reflexivity. Qed.

(* item.split(';q=') *)
Lemma split_go_q : forall n s, (List.length s <= n)%nat ->
  split_go [59; 113; 61] 0 s = split_q s.
Proof.
  induction n as [|n IH]; intros s H.
  - destruct s; [reflexivity|cbn [List.length] in H; lia].
  - destruct s as [|c r]; [reflexivity|]. cbn [List.length] in H.
    change (split_go [59; 113; 61] 0 (c :: r))
      with (if Py.is_prefix [59; 113; 61] (c :: r)
            then [] :: split_go [59; 113; 61] 2 r
            else cons_head c (split_go [59; 113; 61] 0 r)).
    rewrite (IH r) by lia.
    destruct r as [|c2 [|c3 r3]].
    + cbn [Py.is_prefix]. rewrite andb_false_r. reflexivity.
    + cbn [Py.is_prefix]. rewrite !andb_false_r. reflexivity.
    + change (split_go [59; 113; 61] 2 (c2 :: c3 :: r3))
        with (split_go [59; 113; 61] 0 r3).
      cbn [List.length] in H. rewrite (IH r3) by lia.
      change (split_q (c :: c2 :: c3 :: r3))
        with (if is_q3 c c2 c3 then [] :: split_q r3
              else cons_head c (split_q (c2 :: c3 :: r3))).
      cbn [Py.is_prefix]. rewrite andb_true_r. unfold is_q3.
      rewrite (Z.eqb_sym 59 c), (Z.eqb_sym 113 c2), (Z.eqb_sym 61 c3), andb_assoc.
      reflexivity.
Qed.

Lemma pindex_0 x l : pindex (PList (x :: l)) 0 = Py.Ok x.
Proof. reflexivity. Qed.
Lemma pindex_1 x l : pindex (PList (x :: l)) 1
  = match l with y :: _ => Py.Ok y | [] => Py.Err IndexError end.
Proof. destruct l; reflexivity. Qed.

Section NegoTie.
  Variable Q : Type.
  Variable float : list Z -> outcome Q.
  Variable str_q : Q -> list Z.
  Variable one : Q.
  Variable encq : Q -> pv.
  Variable pfloat : pv -> res pv.
  Variable pstr_v : pv -> res pv.
  Variable flit : list Z -> pv.
  (* float(text) is the model's float; the literal written 1.0 is [one] *)
  Hypothesis pfloat_is : forall s, pfloat (PStr s) = enc_outcome encq (float s).
  Hypothesis flit_one : flit (s2l "1.0") = encq one.
  (* str(x) of a str is x, of a q-value the model's str_q *)
  Hypothesis pstr_str : forall s, pstr_v (PStr s) = Py.Ok (PStr s).
  Hypothesis pstr_q : forall q, pstr_v (encq q) = Py.Ok (PStr (str_q q)).

  Definition enc_nego (n : list Z * Q) : pv := PTuple [PStr (fst n); encq (snd n)].
  Definition enc_nego_list (l : list (list Z * Q)) : pv := PList (map enc_nego l).

  Lemma nego_loop : forall items value pair0 acc q0,
    gen_parse_negotiation_loop_1 pfloat flit (map PStr items) value pair0
                                 (PList acc) q0
    = match nego_items Q float one items with
      | HeaderCodec.Ok vs => Py.Ok (PList (acc ++ map enc_nego vs))
      | HeaderCodec.Raised e => Py.Err (Py.Raised e PNone)
      end.
  Proof.
    induction items as [|item items IH]; intros value pair0 acc q0.
    - cbn [map gen_parse_negotiation_loop_1 nego_items]. rewrite app_nil_r.
      reflexivity.
    - cbn [map gen_parse_negotiation_loop_1 nego_items]. cbv zeta.
      cbn [psplit Py.bind]. rewrite (split_go_q _ _ (le_n _)).
      unfold nego_item.
      pose proof (split_q_nonempty item) as Hne.
      destruct (split_q item) as [|p0 rest]; [congruence|].
      cbn [map]. rewrite pindex_0. cbn [Py.bind peq pv_eqb truthy].
      cbn [index nth_error HeaderCodec.bind].
      change (flit [49; 46; 48]) with (flit (s2l "1.0")). rewrite flit_one.
      destruct (lz_eqb p0 item).
      + cbn [pstrip Py.bind pappend HeaderCodec.bind]. rewrite IH.
        rewrite str_strip_eq.
        destruct (nego_items Q float one items) as [vs|e]; [|reflexivity].
        cbn [map enc_nego fst snd]. rewrite <- app_assoc. reflexivity.
      + rewrite pindex_1.
        destruct rest as [|p1 rest'].
        * cbn [map Py.bind ptry index nth_error catch HeaderCodec.bind].
          change (exc_in IndexError ["IndexError"; "ValueError"]) with true.
          change (existsb (String.eqb "IndexError") ["IndexError"; "ValueError"])
            with true.
          cbn iota. cbn [Py.bind pstrip pappend HeaderCodec.bind].
          rewrite IH, str_strip_eq.
          destruct (nego_items Q float one items) as [vs|e]; [|reflexivity].
          cbn [map enc_nego fst snd]. rewrite <- app_assoc. reflexivity.
        * cbn [map Py.bind index nth_error HeaderCodec.bind]. rewrite pfloat_is.
          destruct (float p1) as [q|e].
          -- cbn [enc_outcome Py.bind ptry catch HeaderCodec.bind pstrip pappend].
             rewrite IH, str_strip_eq.
             destruct (nego_items Q float one items) as [vs|e]; [|reflexivity].
             cbn [map enc_nego fst snd]. rewrite <- app_assoc. reflexivity.
          -- cbn [enc_outcome Py.bind ptry catch]. unfold exc_in.
             cbn [exc_name].
             destruct (existsb (String.eqb e) ["IndexError"; "ValueError"]).
             ++ cbn [Py.bind HeaderCodec.bind pstrip pappend].
                rewrite IH, str_strip_eq.
                destruct (nego_items Q float one items) as [vs|e']; [|reflexivity].
                cbn [map enc_nego fst snd]. rewrite <- app_assoc. reflexivity.
             ++ reflexivity.
  Qed.

  (* parse_negotiation(value) for every str value *)
  Theorem gen_parse_negotiation_is_model value :
    gen_parse_negotiation pfloat flit (PStr value)
    = enc_outcome enc_nego_list (parse_negotiation Q float one value).
  Proof.
    unfold gen_parse_negotiation, parse_negotiation. cbv zeta.
    cbn [psplit Py.bind piter]. rewrite split_go_char, nego_loop.
    destruct (nego_items Q float one (split_on 44 value)); reflexivity.
  Qed.

  (* render_negotiation: items (name,) and (name, q) *)
  Definition enc_nego_in (n : list Z * option Q) : pv :=
    match snd n with
    | None => PTuple [PStr (fst n)]
    | Some q => PTuple [PStr (fst n); encq q]
    end.

  Lemma all_str_map l : all_str (map PStr l) = Some l.
  Proof. induction l as [|x l IH]; [reflexivity|]. cbn [map all_str].
    rewrite IH. reflexivity. Qed.
  Lemma str_join_eq sep : forall l, str_join sep l = join sep l.
  Proof. induction l as [|x l IH]; [reflexivity|]. cbn [str_join join].
    destruct l; [reflexivity|]. rewrite IH. reflexivity. Qed.

  Lemma render_item_gen n :
    (t <- pmap pstr_v (enc_nego_in n) ;; pjoin (PStr [59; 113; 61]) t)
    = Py.Ok (PStr (render_nego_item Q str_q n)).
  Proof.
    destruct n as [name [q|]]; unfold enc_nego_in, render_nego_item, pmap;
      cbn [fst snd piter Py.bind map_res]; rewrite ?pstr_str, ?pstr_q;
      cbn [Py.bind pjoin all_str str_join]; reflexivity.
  Qed.

  Lemma render_loop : forall l nego acc,
    gen_render_negotiation_loop_1 pstr_v (map enc_nego_in l) nego
                                  (PList (map PStr acc))
    = Py.Ok (PStr (join (s2l ", ") (acc ++ map (render_nego_item Q str_q) l))).
  Proof.
    induction l as [|n l IH]; intros nego acc.
    - cbn [map gen_render_negotiation_loop_1 pjoin Py.bind].
      rewrite all_str_map, app_nil_r, str_join_eq. reflexivity.
    - cbn [map gen_render_negotiation_loop_1].
      pose proof (render_item_gen n) as H.
      destruct (pmap pstr_v (enc_nego_in n)) as [t|e]; cbn [Py.bind] in H |- *;
        [|discriminate].
      rewrite H. cbn [Py.bind pappend].
      change (map PStr acc ++ [PStr (render_nego_item Q str_q n)])
        with (map PStr acc ++ map PStr [render_nego_item Q str_q n]).
      rewrite <- map_app, IH, <- app_assoc. reflexivity.
  Qed.

  (* render_negotiation(l) for every list / tuple of such items *)
  Theorem gen_render_negotiation_is_model l :
    gen_render_negotiation pstr_v (PList (map enc_nego_in l))
    = Py.Ok (PStr (render_negotiation Q str_q l)) /\
    gen_render_negotiation pstr_v (PTuple (map enc_nego_in l))
    = Py.Ok (PStr (render_negotiation Q str_q l)).
  Proof.
    unfold gen_render_negotiation, render_negotiation. cbv zeta.
    cbn [piter Py.bind]. change (PList []) with (PList (map PStr [])).
    split; rewrite render_loop; reflexivity.
  Qed.
End NegoTie.

(* ------------------------------------------------------------------ *)
(* time_to_http / http_to_time and their datetime variants: the skeleton
   around strftime / strptime, which stay the model's primitives for the
   format text read from the source *)
Definition fmt_text : list Z :=
  [37;97;44;32;37;100;32;37;98;32;37;89;32;37;88;32;71;77;84].

Lemma dt_eqb t :
  pv_eqb (dt_aware t) (dt_aware t) = true /\
  pv_eqb (dt_naive t) (dt_naive t) = true /\
  pv_eqb (dt_naive t) (dt_aware t) = false /\
  pv_eqb (dt_aware t) (dt_naive t) = false.
Proof.
  change (pv_eqb (dt_aware t) (dt_aware t)) with ((t =? t) && true).
  change (pv_eqb (dt_naive t) (dt_naive t)) with ((t =? t) && true).
  change (pv_eqb (dt_naive t) (dt_aware t)) with false.
  change (pv_eqb (dt_aware t) (dt_naive t)) with false.
  rewrite Z.eqb_refl. repeat split; reflexivity.
Qed.

Lemma pstrftime_dt t : 
  pstrftime (dt_aware t) (PStr fmt_text) = enc_outcome PStr (time_to_http t).
Proof.
  change (pstrftime (dt_aware t) (PStr fmt_text))
    with (if (pv_eqb (dt_aware t) (dt_aware t) || pv_eqb (dt_aware t) (dt_naive t))
             && lz_eqb fmt_text http_date_format
          then match time_to_http t with
               | HeaderCodec.Ok s => Py.Ok (PStr s)
               | HeaderCodec.Raised e => exc_of e
               end
          else unmodelled "Format").
  destruct (dt_eqb t) as (-> & _ & _ & ->).
  change (lz_eqb fmt_text http_date_format) with true. cbn [orb andb].
  destruct (time_to_http t); reflexivity.
Qed.

Lemma pstrptime_str s :
  pstrptime (PStr s) (PStr fmt_text) = enc_outcome dt_naive (http_to_time s).
Proof.
  unfold pstrptime. change (lz_eqb fmt_text http_date_format) with true.
  cbn iota. destruct (http_to_time s); reflexivity.
Qed.

Lemma preplace_naive t : preplace_tzinfo (dt_naive t) putc = Py.Ok (dt_aware t).
Proof.
  change (preplace_tzinfo (dt_naive t) putc)
    with (if pv_eqb (dt_naive t) (dt_aware t) || pv_eqb (dt_naive t) (dt_naive t)
          then if pv_eqb putc putc then Py.Ok (dt_aware t)
               else unmodelled "Timezone"
          else Py.Err TypeError).
  destruct (dt_eqb t) as (_ & -> & -> & _). reflexivity.
Qed.

Lemma ptimestamp_aware t : ptimestamp (dt_aware t) = Py.Ok (PRat t 1).
Proof.
  change (ptimestamp (dt_aware t))
    with (if pv_eqb (dt_aware t) (dt_aware t) then Py.Ok (PRat t 1)
          else if pv_eqb (dt_aware t) (dt_naive t) then unmodelled "LocalTime"
          else Py.Err TypeError).
  destruct (dt_eqb t) as (-> & _). reflexivity.
Qed.

Theorem gen_date_format_is_model :
  (* time_to_http(t) for an int t, whatever the clock, and for a float
     (an exact rational n/d here): int() truncates toward zero first *)
  (forall now t, gen_time_to_http now (PInt t)
                 = enc_outcome PStr (time_to_http t)) /\
  (forall now n d, gen_time_to_http now (PRat n d)
                   = enc_outcome PStr (time_to_http (Z.quot n d))) /\
  (* time_to_http() / time_to_http(None) when the clock reads second t *)
  (forall t, gen_time_to_http (dt_aware t) PNone
             = enc_outcome PStr (time_to_http t)) /\
  gen_time_to_http_defaults = [PNone] /\
  (* datetime_to_http of the aware UTC datetime of second t *)
  (forall t, gen_datetime_to_http (dt_aware t)
             = enc_outcome PStr (time_to_http t)) /\
  (* http_to_time(s) / http_to_datetime(s) for every str s *)
  (forall s, gen_http_to_time (PStr s) = enc_outcome PInt (http_to_time s)) /\
  (forall s, gen_http_to_datetime (PStr s)
             = enc_outcome dt_aware (http_to_time s)).
Proof.
  assert (D : forall t, gen_datetime_to_http (dt_aware t)
                        = enc_outcome PStr (time_to_http t)).
  { intros t. unfold gen_datetime_to_http. fold fmt_text. rewrite pstrftime_dt.
    destruct (time_to_http t); reflexivity. }
  assert (H2D : forall s, gen_http_to_datetime (PStr s)
                          = enc_outcome dt_aware (http_to_time s)).
  { intros s. unfold gen_http_to_datetime. fold fmt_text. rewrite pstrptime_str.
    destruct (http_to_time s) as [t|e]; [|reflexivity].
    cbn [enc_outcome Py.bind]. rewrite preplace_naive. reflexivity. }
  assert (T : forall now v t, pis_not_none v = Py.Ok (PBool true) ->
                cint v = Py.Ok (PInt t) ->
                gen_time_to_http now v = enc_outcome PStr (time_to_http t)).
  { intros now v t Hv Hi. unfold gen_time_to_http. cbv zeta. rewrite Hv.
    cbn [Py.bind truthy]. rewrite Hi. cbn [Py.bind]. unfold pfromtimestamp.
    change (pv_eqb putc putc) with true. cbn iota.
    destruct ((max_time <=? t) || (t <? min_time)) eqn:E.
    + unfold time_to_http. rewrite E. reflexivity.
    + cbn [Py.bind]. rewrite D. destruct (time_to_http t); reflexivity. }
  repeat split.
  - intros now t. apply T; reflexivity.
  - intros now n d. apply T; reflexivity.
  - intros t. unfold gen_time_to_http. cbv zeta.
    cbn [pis_not_none Py.bind truthy]. unfold pnow.
    change (pv_eqb putc putc) with true. cbn iota. cbn [Py.bind]. rewrite D.
    destruct (time_to_http t); reflexivity.
  - exact D.
  - intros s. unfold gen_http_to_time. rewrite H2D.
    destruct (http_to_time s) as [t|e]; [|reflexivity].
    cbn [enc_outcome Py.bind]. rewrite ptimestamp_aware.
    cbn [Py.bind cint pint]. rewrite Z.quot_1_r. reflexivity.
  - exact H2D.
Qed.

(* ------------------------------------------------------------------ *)
(* The hypotheses on float / str / 1.0 are satisfiable: the instance of the
   correspondence (model/HeaderCodec.v: a q-value is its text, [None] the
   literal 1.0), with a q-value text as a Python value [PRat 1 1] for the
   literal and a 1-tuple of the text otherwise. *)
Definition tok_enc (q : option (list Z)) : pv :=
  match q with Some t => PTuple [PStr t] | None => PRat 1 1 end.
Definition tok_pfloat (v : pv) : res pv :=
  match v with
  | PStr s => enc_outcome tok_enc (float_tok s)
  | _ => Py.Err TypeError
  end.
Definition tok_pstr (v : pv) : res pv :=
  match v with
  | PStr s => Py.Ok (PStr s)
  | PTuple [PStr t] => Py.Ok (PStr t)
  | PRat 1 1 => Py.Ok (PStr (s2l "1.0"))
  | _ => Py.Err TypeError
  end.
Definition tok_flit (t : list Z) : pv :=
  if lz_eqb t (s2l "1.0") then PRat 1 1 else PTuple [PStr t].

Corollary gen_negotiation_instance :
  (forall value,
     gen_parse_negotiation tok_pfloat tok_flit (PStr value)
     = enc_outcome (enc_nego_list _ tok_enc)
                   (parse_negotiation _ float_tok None value)) /\
  (forall l,
     gen_render_negotiation tok_pstr (PList (map (enc_nego_in _ tok_enc) l))
     = Py.Ok (PStr (render_negotiation _ str_tok l))).
Proof.
  split.
  - apply gen_parse_negotiation_is_model; reflexivity.
  - intros l. apply (gen_render_negotiation_is_model _ str_tok tok_enc tok_pstr).
    + reflexivity.
    + intros [t|]; reflexivity.
Qed.

(* the generated code computes: the doctests of the translated functions *)
Example gen_codec_examples :
  gen_parse_range (PStr (s2l "bytes=0-1,1-2,1-,-5"))
  = Py.Ok (PList [PTuple [PStr (s2l "bytes");
             PList [PTuple [PInt 0; PInt 1]; PTuple [PInt 1; PInt 2];
                    PTuple [PInt 1; PNone]; PTuple [PNone; PInt 5]]]])
  /\ gen_parse_range (PStr (s2l "invalid")) = Py.Ok (PList [])
  /\ gen_parse_range (PStr (s2l "invalid=a-b"))
     = Py.Ok (PList [PTuple [PStr (s2l "invalid"); PList []]])
  /\ gen_content_range_3 (PInt 1) (PInt 2) (PInt 10)
     = Py.Ok (PStr (s2l "bytes 1-2/10"))
  /\ gen_content_range_2 (PInt 1) (PInt 2) = Py.Ok (PStr (s2l "bytes 1-2/*"))
  /\ gen_parse_negotiation tok_pfloat tok_flit
       (PStr (s2l "text/html;level=1, text/html;level=2;q=0.5,x;q=y"))
     = Py.Ok (PList [PTuple [PStr (s2l "text/html;level=1"); PRat 1 1];
                     PTuple [PStr (s2l "text/html;level=2");
                             PTuple [PStr (s2l "0.5")]];
                     PTuple [PStr (s2l "x"); PRat 1 1]])
  /\ gen_render_negotiation tok_pstr
       (PTuple [PTuple [PStr (s2l "gzip"); PRat 1 1];
                PTuple [PStr (s2l "compress")]])
     = Py.Ok (PStr (s2l "gzip;q=1.0, compress"))
  /\ gen_time_to_http PNone (PInt 0)
     = Py.Ok (PStr (s2l "Thu, 01 Jan 1970 00:00:00 GMT"))
  /\ gen_http_to_time (PStr (s2l "Tue, 15 Nov 1994 08:12:31 GMT"))
     = Py.Ok (PInt 784887151).
Proof. repeat split; vm_compute; reflexivity. Qed.
