(* The hand model of the range machinery (model/Range.v) equals the
   definitions generated from the current poorwsgi/response.py
   (gen/RangeGen.v) over the Python semantics of lib/Py.v. *)
From Coq Require Import ZArith List Bool Lia String.
Require Import PW.lib.Val PW.lib.ValFacts PW.lib.Dec PW.lib.Py PW.model.Range
  PW.proofs.RangeProofs PW.gen.RangeGen.
Import ListNotations.
Open Scope string_scope.
Open Scope list_scope.
Open Scope Z_scope.

Definition inj_oz (o : option Z) : pv := match o with Some z => PInt z | None => PNone end.
Definition inj_range (r : range) : pv := PTuple [inj_oz (fst r); inj_oz (snd r)].

Lemma pstr_inj_oz o : pstr (inj_oz o) = show_oz o.
Proof. destruct o; reflexivity. Qed.

Lemma fmt_cr a b L :
  pfmt [PStr [98; 121; 116; 101; 115]; PStr [32]; a; PStr [45]; b; PStr [47]; PInt L]
  = Ok (PStr (content_range_text (pstr a) (pstr b) L)).
Proof.
  unfold pfmt, content_range_text. cbn [flat_map pstr]. rewrite app_nil_r. reflexivity.
Qed.

Lemma fmt_int n : pfmt [PInt n] = Ok (PStr (dec n)).
Proof. unfold pfmt. cbn [flat_map pstr]. rewrite app_nil_r. reflexivity. Qed.

(* what the code does to the header collection, as a log of operations *)
Definition hdr_log (h : list pv) (crs cre n L : Z) : pv :=
  PList (((h ++ [PTuple [PStr (s2l "del"); PStr (s2l "Accept-Ranges")]]) ++
          [PTuple [PStr (s2l "add"); PStr (s2l "Content-Range");
                   PStr (content_range_text (dec crs) (dec cre) L)]]) ++
         [PTuple [PStr (s2l "set"); PStr (s2l "Content-Length"); PStr (dec n)]]).

Definition block_expected (h : list pv) (L : Z) (r : range) : res pv :=
  match range_window L r with
  | W206 s e crs cre n =>
      Ok (PTuple [PInt s; inj_oz e; PInt n; PInt 206; hdr_log h crs cre n L])
  | W416 s' e' =>
      Err (Raised "HTTPException"
             (PTuple [PStr (s2l "Response");
                      PList [PTuple [PStr (s2l "Content-Range");
                                     PStr (content_range_text (show_oz s') (show_oz e') L)]];
                      PInt 416]))
  end.

Ltac pysimpl :=
  cbn [bind pappend pindex punpack2 pis_none pis_not_none Py.truthy psub padd pmul
       arith as_int pmin2 pmax2 pnot plt ple pgt pge pcmp peq pne nth_error
       inj_range inj_oz negb fst snd Z.to_nat].

Ltac split_ifs :=
  repeat (pysimpl;
          match goal with
          | |- context [if ?a <? ?b then _ else _] => destruct (a <? b) eqn:?
          | |- context [if negb (?a =? ?b) then _ else _] => destruct (a =? b) eqn:?
          | |- context [if ?a =? ?b then _ else _] => destruct (a =? b) eqn:?
          end).

Ltac zhyps :=
  repeat match goal with
         | H : (_ <? _) = true |- _ => apply Z.ltb_lt in H
         | H : (_ <? _) = false |- _ => apply Z.ltb_ge in H
         | H : (_ =? _) = true |- _ => apply Z.eqb_eq in H
         | H : (_ =? _) = false |- _ => apply Z.eqb_neq in H
         end.

Ltac leaf :=
  unfold block_expected, range_window, Range.truthy, hdr_log;
  rewrite ?fmt_cr, ?fmt_int; pysimpl;
  repeat (cbn [negb];
          match goal with
          | |- context [if negb (?a =? ?b) then _ else _] => destruct (a =? b) eqn:?
          end);
  zhyps; try (exfalso; lia);
  cbn [negb pstr inj_oz show_oz];
  repeat (try reflexivity;
          match goal with
          | |- Ok _ = Ok _ => f_equal
          | |- Err _ = Err _ => f_equal
          | |- Raised _ _ = Raised _ _ => f_equal
          | |- PTuple _ = PTuple _ => f_equal
          | |- PList _ = PList _ => f_equal
          | |- PStr _ = PStr _ => f_equal
          | |- PInt _ = PInt _ => f_equal
          | |- _ :: _ = _ :: _ => f_equal
          | |- _ ++ _ = _ ++ _ => f_equal
          | |- content_range_text _ _ _ = content_range_text _ _ _ => f_equal
          | |- dec _ = dec _ => f_equal
          end); try lia.

Theorem gen_range_block_eq L r rs h s0 e0 :
  0 <= L -> valid_range r ->
  gen_range_block (PInt L) (PList (inj_range r :: rs)) (PList h) s0 e0 (PInt 200)
  = block_expected h L r.
Proof.
  intros HL Hv. unfold gen_range_block. pysimpl. change (0 <? 0) with false. pysimpl.
  destruct r as [[f|] [l|]]; cbn [valid_range] in Hv; try contradiction; pysimpl.
  - split_ifs; leaf.
  - split_ifs; leaf.
  - split_ifs; leaf.
Qed.

(* ------------------------------------------------------------------ *)
(* make_partial *)

Lemma pv_eqb_range r x : pv_eqb (inj_range r) (inj_range x) = range_eqb r x.
Proof.
  destruct r as [[a|] [b|]], x as [[c|] [d|]];
    unfold inj_range, range_eqb, oz_eqb;
    cbn [inj_oz fst snd pv_eqb as_int andb];
    rewrite ?andb_true_r, ?andb_false_r; reflexivity.
Qed.

Lemma existsb_range r acc :
  existsb (pv_eqb (inj_range r)) (map inj_range acc) = existsb (range_eqb r) acc.
Proof.
  induction acc as [|x acc IH]; cbn [map existsb]; [reflexivity|].
  rewrite pv_eqb_range, IH. reflexivity.
Qed.

Lemma make_partial_loop_eq rs : forall acc a b c d e f,
  gen_make_partial_loop_1 (map inj_range rs) a b c d e f (PList (map inj_range acc))
  = Ok (PTuple [c; b; PList (map inj_range (make_partial_from acc rs))]).
Proof.
  induction rs as [|r rs IH]; intros acc a b c d e f.
  - reflexivity.
  - cbn [map gen_make_partial_loop_1 make_partial_from].
    assert (Hin : pnot_in (inj_range r) (PList (map inj_range acc))
                  = Ok (PBool (negb (existsb (range_eqb r) acc)))).
    { unfold pnot_in, pin. cbn [bind]. rewrite existsb_range. reflexivity. }
    assert (Happ : pappend (PList (map inj_range acc)) (inj_range r)
                   = Ok (PList (map inj_range (acc ++ [r])))).
    { unfold pappend. rewrite map_app. reflexivity. }
    destruct r as [[s|] [en|]]; unfold inj_range in Hin, Happ |- *;
      cbn [inj_oz fst snd] in Hin, Happ |- *;
      cbn [punpack2 bind pis_not_none Py.truthy plt pcmp as_int inconsistent].
    + destruct (en <? s) eqn:E; cbn [Py.truthy]; [apply IH|].
      rewrite Hin; cbn [bind Py.truthy].
      destruct (existsb (range_eqb _) acc); cbn [negb]; [apply IH|].
      rewrite Happ; cbn [bind]; apply IH.
    + rewrite Hin; cbn [bind Py.truthy].
      destruct (existsb (range_eqb _) acc); cbn [negb]; [apply IH|].
      rewrite Happ; cbn [bind]; apply IH.
    + rewrite Hin; cbn [bind Py.truthy].
      destruct (existsb (range_eqb _) acc); cbn [negb]; [apply IH|].
      rewrite Happ; cbn [bind]; apply IH.
    + rewrite Hin; cbn [bind Py.truthy].
      destruct (existsb (range_eqb _) acc); cbn [negb]; [apply IH|].
      rewrite Happ; cbn [bind]; apply IH.
Qed.

Theorem gen_make_partial_eq h old u0 rs units :
  gen_make_partial (PInt 200) (PList h) (PList old) u0
                   (PList (map inj_range rs)) (PStr units)
  = Ok (PTuple [PStr units;
                PList (h ++ [PTuple [PStr (s2l "add_header");
                                     PStr (s2l "Accept-Ranges"); PStr units]]);
                PList (map inj_range (make_partial rs))]).
Proof.
  unfold gen_make_partial, make_partial.
  cbn [pne pv_eqb as_int bind Py.truthy negb pappend].
  change (200 =? 200) with true. cbn [negb Py.truthy bind].
  destruct rs as [|r rs].
  - reflexivity.
  - cbn [map Py.truthy piter bind].
    change (@nil pv) with (map inj_range []) at 2.
    rewrite (make_partial_loop_eq (r :: rs) []). reflexivity.
Qed.

(* a response whose status is not 200 is left alone *)
Theorem gen_make_partial_not_ok st h old u0 rs units :
  st <> 200 ->
  gen_make_partial (PInt st) h old u0 rs units = Ok (PTuple [u0; h; old]).
Proof.
  intros Hs. unfold gen_make_partial. cbn [pne pv_eqb as_int bind].
  replace (st =? 200) with false by (symmetry; apply Z.eqb_neq; assumption).
  reflexivity.
Qed.

(* ------------------------------------------------------------------ *)
(* __range_generator__ *)

Lemma pslice_bytes data sl el :
  pslice (PBytes data) (PInt sl) (PInt el) = Ok (PBytes (pyslice data sl el)).
Proof. reflexivity. Qed.

Lemma range_generator_loop_eq chunks : forall g s e a b pos c out,
  gen_range_generator_loop_1 (map PBytes chunks) g (PInt s) (inj_oz e) a b
                             (PInt pos) c (PList out)
  = Ok (PList (out ++ map PBytes (range_gen chunks pos s e))).
Proof.
  induction chunks as [|data rest IH]; intros g s e a b pos c out.
  - cbn [map gen_range_generator_loop_1 range_gen]. rewrite app_nil_r. reflexivity.
  - cbn [map gen_range_generator_loop_1 range_gen].
    cbn [plen bind padd arith as_int ple pcmp Py.truthy].
    fold (zlen data).
    destruct (pos + zlen data <=? s) eqn:Esk; cbn [Py.truthy].
    + apply (IH _ s e).
    + cbn [plt pcmp as_int bind Py.truthy].
      destruct e as [en|]; cbn [inj_oz pis_not_none bind Py.truthy].
      * cbn [padd arith as_int pgt pcmp bind Py.truthy psub].
        rewrite Z.gtb_ltb.
        destruct (pos <? s) eqn:Eps; cbn [Py.truthy bind];
          destruct (en <? pos + zlen data) eqn:Een; cbn [Py.truthy bind];
          rewrite pslice_bytes; cbn [bind pappend pis_not_none Py.truthy pgt pcmp as_int];
          rewrite ?Z.gtb_ltb, ?Een; cbn [Py.truthy];
          try (rewrite (IH _ s (Some en))); rewrite <- ?app_assoc; reflexivity.
      * destruct (pos <? s) eqn:Eps; cbn [Py.truthy bind psub arith as_int];
          rewrite pslice_bytes; cbn [bind pappend pis_not_none Py.truthy];
          rewrite (IH _ s None), <- app_assoc; reflexivity.
Qed.

Theorem gen_range_generator_eq chunks s e :
  gen_range_generator (PList (map PBytes chunks)) (PInt s) (inj_oz e)
  = Ok (PList (map PBytes (range_gen chunks 0 s e))).
Proof.
  unfold gen_range_generator. cbn [piter bind].
  rewrite range_generator_loop_eq. reflexivity.
Qed.
