(* C15 proofs: escaped text and token characters are inert for the tokenizer;
   the element/attribute structure of a guarded page does not depend on
   tainted values (noninterference), for every page, valuation, row count. *)
From Coq Require Import ZArith List Bool Lia.
Require Import PW.lib.Val PW.lib.ValFacts PW.model.Pages.
Import ListNotations.
Open Scope Z_scope.

(* ------------------------------------------------------------ tokenizer *)
Lemma tok_app st a b :
  tok st (a ++ b) =
  (fst (tok (fst (tok st a)) b), snd (tok st a) ++ snd (tok (fst (tok st a)) b)).
Proof.
  revert st. induction a as [|c a IH]; intros st.
  - cbn [app tok fst snd]. destruct (tok st b); reflexivity.
  - cbn [app tok]. destruct (step st c) as [s1 e1].
    rewrite IH. destruct (tok s1 a) as [s2 e2]. cbn [fst snd].
    destruct (tok s2 b) as [s3 e3]. cbn [fst snd]. rewrite app_assoc. reflexivity.
Qed.

Lemma tok_app_eq st a b s1 e1 s2 e2 :
  tok st a = (s1, e1) -> tok s1 b = (s2, e2) -> tok st (a ++ b) = (s2, e1 ++ e2).
Proof. intros Ha Hb. rewrite tok_app, Ha. cbn [fst snd]. rewrite Hb. reflexivity. Qed.

(* states in which text is data *)
Definition inert_state (st : state) : Prop :=
  match st with
  | Text | RCDATA _ | AttrValDQ _ _ | AttrValSQ _ _ => True
  | _ => False
  end.

(* characters that cannot leave an inert state: not lt, dquote, squote *)
Definition plain (c : Z) : Prop := c <> 60 /\ c <> 34 /\ c <> 39.

Lemma step_plain st c : inert_state st -> plain c -> step st c = (st, []).
Proof.
  intros Hs (H1 & H2 & H3). destruct st; cbn [inert_state] in Hs; try contradiction;
    cbn [step].
  - replace (c =? 60) with false by (symmetry; apply Z.eqb_neq; lia). reflexivity.
  - replace (c =? 60) with false by (symmetry; apply Z.eqb_neq; lia). reflexivity.
  - replace (c =? 34) with false by (symmetry; apply Z.eqb_neq; lia). reflexivity.
  - replace (c =? 39) with false by (symmetry; apply Z.eqb_neq; lia). reflexivity.
Qed.

Lemma tok_plain st s : inert_state st -> Forall plain s -> tok st s = (st, []).
Proof.
  intros Hs H. induction H as [|c s Hc _ IH].
  - reflexivity.
  - cbn [tok]. rewrite (step_plain st c Hs Hc), IH. reflexivity.
Qed.

(* ---------------------------------------------------------- html_escape *)
Lemma esc1_cases c :
  (c = 38 /\ esc1 c = [38;97;109;112;59]) \/
  (c = 34 /\ esc1 c = [38;113;117;111;116;59]) \/
  (c = 39 /\ esc1 c = [38;97;112;111;115;59]) \/
  (c = 62 /\ esc1 c = [38;103;116;59]) \/
  (c = 60 /\ esc1 c = [38;108;116;59]) \/
  (c <> 38 /\ c <> 34 /\ c <> 39 /\ c <> 62 /\ c <> 60 /\ esc1 c = [c]).
Proof.
  unfold esc1, escape_table. cbn [table_get].
  destruct (c =? 38) eqn:E1; [apply Z.eqb_eq in E1; auto|].
  destruct (c =? 34) eqn:E2; [apply Z.eqb_eq in E2; auto|].
  destruct (c =? 39) eqn:E3; [apply Z.eqb_eq in E3; auto 6|].
  destruct (c =? 62) eqn:E4; [apply Z.eqb_eq in E4; auto 7|].
  destruct (c =? 60) eqn:E5; [apply Z.eqb_eq in E5; auto 8|].
  apply Z.eqb_neq in E1, E2, E3, E4, E5. do 5 right. repeat split; assumption.
Qed.

Lemma esc1_plain c : Forall plain (esc1 c).
Proof.
  destruct (esc1_cases c) as [(_ & ->)|[(_ & ->)|[(_ & ->)|[(_ & ->)|[(_ & ->)|H]]]]].
  1-5: repeat constructor; lia.
  destruct H as (H1 & H2 & H3 & H4 & H5 & ->). repeat constructor; lia.
Qed.

Lemma html_escape_plain s : Forall plain (html_escape s).
Proof.
  induction s as [|c s IH]; cbn [html_escape].
  - constructor.
  - apply Forall_app. split; [apply esc1_plain | exact IH].
Qed.

(* the five special characters never occur in the output except as the
   ampersand that starts an entity; in particular no < > quote *)
Lemma html_escape_no_markup s :
  Forall (fun c => c <> 60 /\ c <> 62 /\ c <> 34 /\ c <> 39) (html_escape s).
Proof.
  induction s as [|c s IH]; cbn [html_escape].
  - constructor.
  - apply Forall_app. split; [|exact IH].
    destruct (esc1_cases c) as [(_ & ->)|[(_ & ->)|[(_ & ->)|[(_ & ->)|[(_ & ->)|H]]]]].
    1-5: repeat constructor; lia.
    destruct H as (H1 & H2 & H3 & H4 & H5 & ->). repeat constructor; lia.
Qed.

Lemma html_escape_app a b : html_escape (a ++ b) = html_escape a ++ html_escape b.
Proof.
  induction a as [|c a IH]; cbn [app html_escape]; [reflexivity|].
  rewrite IH, app_assoc. reflexivity.
Qed.

(* escaped text never changes the tokenizer state nor emits structure *)
Theorem escape_inert s st : inert_state st -> tok st (html_escape s) = (st, []).
Proof. intros Hs. apply tok_plain; [exact Hs | apply html_escape_plain]. Qed.

(* -------------------------------------------------------- token characters *)
Lemma tchar_not_markup c : is_tchar c = true -> c <> 60 /\ c <> 34 /\ c <> 62.
Proof.
  unfold is_tchar, is_alpha, is_upper. intros H.
  repeat split; intros ->; vm_compute in H; discriminate.
Qed.

Definition safe_state (st : state) : Prop := safe_ctx (ctx_of st) = true.

Lemma safe_state_cases st :
  safe_state st -> st = Text \/ (exists el, st = RCDATA el) \/
                   (exists cl nm, st = AttrValDQ cl nm).
Proof.
  unfold safe_state. destruct st; cbn [ctx_of safe_ctx]; try discriminate; eauto.
Qed.

Lemma safe_inert st : safe_state st -> inert_state st.
Proof.
  intros H. destruct (safe_state_cases st H) as [->|[(el & ->)|(cl & nm & ->)]];
    exact I.
Qed.

Lemma step_tchar st c : safe_state st -> is_tchar c = true -> step st c = (st, []).
Proof.
  intros Hs Hc. destruct (tchar_not_markup c Hc) as (H1 & H2 & H3).
  destruct (safe_state_cases st Hs) as [->|[(el & ->)|(cl & nm & ->)]]; cbn [step].
  - replace (c =? 60) with false by (symmetry; apply Z.eqb_neq; lia). reflexivity.
  - replace (c =? 60) with false by (symmetry; apply Z.eqb_neq; lia). reflexivity.
  - replace (c =? 34) with false by (symmetry; apply Z.eqb_neq; lia). reflexivity.
Qed.

(* token characters are inert in text, RCDATA and double-quoted values *)
Theorem token_chars_inert s st :
  safe_state st -> forallb is_tchar s = true -> tok st s = (st, []).
Proof.
  intros Hs. induction s as [|c s IH]; intros H.
  - reflexivity.
  - cbn [forallb] in H. apply andb_true_iff in H. destruct H as [Hc H].
    cbn [tok]. rewrite (step_tchar st c Hs Hc), (IH H). reflexivity.
Qed.

Theorem token_chars_inert_in_text s :
  forallb is_tchar s = true -> tok Text s = (Text, []).
Proof. apply token_chars_inert. reflexivity. Qed.

(* ------------------------------------------------------------ same_trusted *)
Fixpoint agree_rows (A : env -> env -> Prop) (e1 e2 : env) : Prop :=
  match e1, e2 with
  | EPair r1 t1, EPair r2 t2 => A r1 r2 /\ agree_rows A t1 t2
  | EPair _ _, _ => False
  | _, EPair _ _ => False
  | _, _ => True
  end.

(* two valuations of the page p that may differ only in tainted values:
   trusted values are equal (and, where interpolated raw, well-formed
   fragments: they leave the tokenizer in text), token-character holes hold
   token characters, the same branches are taken and loops have the same
   number of rows. *)
Fixpoint same_trusted (p : page) (e1 e2 : env) : Prop :=
  match p with
  | Lit _ => True
  | Hole Trusted esc _ =>
      val_of e1 = val_of e2 /\
      (esc = false -> fst (tok Text (val_of e1)) = Text)
  | Hole TokenChars _ _ =>
      forallb is_tchar (val_of e1) = true /\ forallb is_tchar (val_of e2) = true
  | Hole Tainted _ _ => True
  | Cat p q => same_trusted p (efst e1) (efst e2) /\ same_trusted q (esnd e1) (esnd e2)
  | Cond _ a b =>
      ebr e1 = ebr e2 /\
      (if ebr e1 then same_trusted a (esub e1) (esub e2)
       else same_trusted b (esub e1) (esub e2))
  | Loop _ body => agree_rows (same_trusted body) e1 e2
  end.

Lemma state_eqb_eq a b : state_eqb a b = true -> a = b.
Proof.
  destruct a, b; cbn [state_eqb]; intros H; try discriminate; try reflexivity;
    repeat match goal with
           | H : _ && _ = true |- _ => apply andb_true_iff in H; destruct H
           | H : lz_eqb _ _ = true |- _ => apply lz_eqb_eq in H; subst
           | H : Bool.eqb _ _ = true |- _ => apply Bool.eqb_prop in H; subst
           end; reflexivity.
Qed.

Lemma ctx_eqb_eq a b : ctx_eqb a b = true -> a = b.
Proof. destruct a, b; cbn; intros H; try discriminate; reflexivity. Qed.

(* both renderings drive the tokenizer identically *)
Definition same_run (st st' : state) (s1 s2 : list Z) : Prop :=
  exists evs, tok st s1 = (st', evs) /\ tok st s2 = (st', evs).

Lemma same_run_app st s1 s2 a1 a2 b1 b2 :
  same_run st s1 a1 a2 -> same_run s1 s2 b1 b2 ->
  same_run st s2 (a1 ++ b1) (a2 ++ b2).
Proof.
  intros (ea & Ha1 & Ha2) (eb & Hb1 & Hb2). exists (ea ++ eb).
  split; eapply tok_app_eq; eassumption.
Qed.

Lemma same_run_refl st s : same_run st (fst (tok st s)) s s.
Proof. exists (snd (tok st s)). rewrite <- surjective_pairing. auto. Qed.

Lemma same_run_nil st : same_run st st [] [].
Proof. exists []. auto. Qed.

Lemma rows_ni (f : env -> list Z) (A : env -> env -> Prop) sep st :
  (forall r1 r2, A r1 r2 -> same_run st st (f r1) (f r2)) ->
  fst (tok st sep) = st ->
  forall e1 e2, agree_rows A e1 e2 ->
    same_run st st (render_rows f sep e1) (render_rows f sep e2).
Proof.
  intros Hrow Hsep. pose proof (same_run_refl st sep) as Hs. rewrite Hsep in Hs.
  induction e1 as [| |r1 _ t1 IH|]; intros e2 Hag;
    destruct e2 as [| |r2 t2|]; cbn [agree_rows] in Hag; try contradiction;
    cbn [render_rows]; try apply same_run_nil.
  destruct Hag as [Hr Ht].
  eapply same_run_app; [apply Hrow; exact Hr|].
  eapply same_run_app; [|apply IH; exact Ht].
  destruct t1, t2; cbn [agree_rows] in Ht; try contradiction;
    try apply same_run_nil; exact Hs.
Qed.

Lemma ni_from p : forall st st', guarded_from st p = Some st' ->
  forall e1 e2, same_trusted p e1 e2 ->
    same_run st st' (render p e1) (render p e2).
Proof.
  induction p as [s|c esc x|p IHp q IHq|k a IHa b IHb|sep body IHb];
    intros st st' G e1 e2 A; cbn [guarded_from] in G; cbn [render].
  - (* Lit *) inversion G; subst. apply same_run_refl.
  - (* Hole *)
    destruct (hole_ok c esc st && ctx_eqb x (ctx_of st)) eqn:E; [|discriminate].
    inversion G; subst st'. apply andb_true_iff in E. destruct E as [Hok _].
    destruct c; cbn [hole_ok] in Hok; cbn [same_trusted] in A.
    + (* Trusted *)
      destruct A as [Hv Hwf]. rewrite <- Hv. destruct esc.
      * exists []. split; apply escape_inert; apply safe_inert; exact Hok.
      * apply ctx_eqb_eq in Hok.
        assert (st = Text) as -> by
          (destruct st; cbn [ctx_of] in Hok; try discriminate; try reflexivity;
           destruct (lz_eqb el nm_script); discriminate).
        pose proof (same_run_refl Text (val_of e1)) as R.
        rewrite (Hwf eq_refl) in R. exact R.
    + (* TokenChars *)
      destruct A as [H1 H2]. destruct esc.
      * exists []. split; apply escape_inert; apply safe_inert; exact Hok.
      * exists []. split; apply token_chars_inert; assumption.
    + (* Tainted *)
      apply andb_true_iff in Hok. destruct Hok as [-> Hs].
      exists []. split; apply escape_inert; apply safe_inert; exact Hs.
  - (* Cat *)
    destruct (guarded_from st p) as [s1|] eqn:Gp; [|discriminate].
    cbn [same_trusted] in A. destruct A as [Ap Aq].
    eapply same_run_app; [eapply IHp | eapply IHq]; eassumption.
  - (* Cond *)
    destruct (guarded_from st a) as [s1|] eqn:Ga; [|discriminate].
    destruct (guarded_from st b) as [s2|] eqn:Gb; [|discriminate].
    destruct (state_eqb s1 s2) eqn:E; [|discriminate].
    apply state_eqb_eq in E. inversion G; subst.
    cbn [same_trusted] in A. destruct A as [Hb A]. rewrite <- Hb.
    destruct (ebr e1); [eapply IHa | eapply IHb]; eassumption.
  - (* Loop *)
    destruct (guarded_from st body) as [s1|] eqn:Gb; [|discriminate].
    destruct (state_eqb s1 st && state_eqb (fst (tok st sep)) st) eqn:E;
      [|discriminate].
    apply andb_true_iff in E. destruct E as [E1 E2].
    apply state_eqb_eq in E1, E2. inversion G; subst.
    cbn [same_trusted] in A.
    apply rows_ni with (A := same_trusted body); try assumption.
    intros r1 r2 Hr. eapply IHb; eassumption.
Qed.

(* main theorem: the element/attribute structure of a guarded page is
   independent of request data and file names *)
Theorem noninterference p :
  guarded p = true ->
  forall env1 env2, same_trusted p env1 env2 ->
    events (render p env1) = events (render p env2).
Proof.
  unfold guarded, events. intros G e1 e2 A.
  destruct (guarded_from Text p) as [st'|] eqn:E; [|discriminate].
  destruct (ni_from p Text st' E e1 e2 A) as (evs & H1 & H2).
  rewrite H1, H2. reflexivity.
Qed.

(* ... and the tokenizer ends in the same state (what follows the page is
   read the same way) *)
Theorem noninterference_state p :
  guarded p = true ->
  forall env1 env2, same_trusted p env1 env2 ->
    tok Text (render p env1) = tok Text (render p env2).
Proof.
  unfold guarded. intros G e1 e2 A.
  destruct (guarded_from Text p) as [st'|] eqn:E; [|discriminate].
  destruct (ni_from p Text st' E e1 e2 A) as (evs & H1 & H2).
  rewrite H1, H2. reflexivity.
Qed.

(* ------------------------------------------------------------------ examples *)
(* <p><a href="H">H</a></p> with H tainted+escaped, valuations: an element
   injection + quote break-out payload versus plain text *)
Definition ex_page : page :=
  Cat (Lit [60;112;62;60;97;32;104;114;101;102;61;34])
  (Cat (Hole Tainted true CAttrDQ)
  (Cat (Lit [34;62])
  (Cat (Hole Tainted true CText)
       (Lit [60;47;97;62;60;47;112;62])))).
Definition ex_env (v : list Z) : env :=
  EPair EUnit (EPair (EVal v) (EPair EUnit (EPair (EVal v) EUnit))).
Definition ex_payload : list Z :=   (* dquote > <i id=M> space squote *)
  [34;62;60;105;32;105;100;61;77;62;32;39].

Example ex_guarded : guarded ex_page = true.
Proof. vm_compute. reflexivity. Qed.

Example ex_same_trusted : same_trusted ex_page (ex_env ex_payload) (ex_env [120]).
Proof. cbn. auto. Qed.

Example ex_structure :
  skeleton (events (render ex_page (ex_env ex_payload))) =
  [60;112;62;60;97;32;104;114;101;102;61;62;60;47;97;62;60;47;112;62].
Proof. vm_compute. reflexivity. Qed.

(* the same page with the escapes removed is not guarded, and the payload
   does change its structure *)
Definition ex_page_raw : page :=
  Cat (Lit [60;112;62;60;97;32;104;114;101;102;61;34])
  (Cat (Hole Tainted false CAttrDQ)
  (Cat (Lit [34;62])
  (Cat (Hole Tainted false CText)
       (Lit [60;47;97;62;60;47;112;62])))).

Example ex_raw_not_guarded : guarded ex_page_raw = false.
Proof. vm_compute. reflexivity. Qed.

Example ex_raw_interferes :
  events (render ex_page_raw (ex_env ex_payload)) <>
  events (render ex_page_raw (ex_env [120])).
Proof. vm_compute. discriminate. Qed.

(* a loop with a trusted raw cell, a token cell and a tainted cell *)
Definition ex_loop : page :=
  Loop [10]
    (Cat (Lit [60;116;100;62])                     (* <td> *)
    (Cat (Hole Trusted false CText)
    (Cat (Hole TokenChars false CText)
    (Cat (Hole Tainted true CText)
         (Lit [60;47;116;100;62]))))).              (* </td> *)
Definition ex_row (t k v : list Z) : env :=
  EPair EUnit (EPair (EVal t) (EPair (EVal k) (EPair (EVal v) EUnit))).

Example ex_loop_guarded : guarded ex_loop = true.
Proof. vm_compute. reflexivity. Qed.

Example ex_loop_same :
  same_trusted ex_loop
    (EPair (ex_row [60;98;62] [71;69;84] ex_payload)
       (EPair (ex_row [] [39;38] [60]) EUnit))
    (EPair (ex_row [60;98;62] [80] [])
       (EPair (ex_row [] [] [62;62]) EUnit)).
Proof. cbn. repeat split; reflexivity. Qed.
