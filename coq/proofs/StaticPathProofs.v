(* Proofs about the static-serving model (C12). *)
From Coq Require Import ZArith List Bool Lia String.
Require Import PW.lib.Val PW.lib.ValFacts PW.model.StaticPath.
Import ListNotations.
Open Scope list_scope.
Open Scope Z_scope.

(* a path segment that names something below the directory it is looked up
   in: not empty, not ".", not "..", no '/' inside *)
Definition clean (s : list Z) : Prop :=
  s <> [] /\ s <> [46] /\ s <> [46; 46] /\ ~ In 47 s.

Definition noslash (s : list Z) : Prop := ~ In 47 s.

(* ------------------------------------------------------------- strings *)
Lemma lstrip_no_lead p : starts_slash (lstrip_slash p) = false.
Proof.
  induction p as [|c p IH]; cbn [lstrip_slash]; [reflexivity|].
  destruct (c =? 47) eqn:E; [exact IH|]. cbn [starts_slash]. exact E.
Qed.

Lemma split_noslash p : Forall noslash (split_slash p).
Proof.
  induction p as [|c p IH]; cbn [split_slash].
  - constructor; [intros []|constructor].
  - destruct (c =? 47) eqn:E.
    + constructor; [intros []|exact IH].
    + destruct (split_slash p) as [|s r].
      * constructor; [|constructor]. intros [H|[]]. subst c.
        rewrite Z.eqb_refl in E. discriminate.
      * inversion IH as [|? ? Hs Hr]; subst. constructor; [|exact Hr].
        intros [H|H]; [|exact (Hs H)]. subst c.
        rewrite Z.eqb_refl in E. discriminate.
Qed.

Lemma split_single s : noslash s -> split_slash s = [s].
Proof.
  induction s as [|c s IH]; intros H; cbn [split_slash]; [reflexivity|].
  destruct (c =? 47) eqn:E.
  - apply Z.eqb_eq in E. subst c. exfalso. apply H. left. reflexivity.
  - rewrite IH; [reflexivity|]. intros H'. apply H. right. exact H'.
Qed.

Lemma split_app s r : noslash s ->
  split_slash (s ++ 47 :: r) = s :: split_slash r.
Proof.
  induction s as [|c s IH]; intros H.
  - cbn [app split_slash]. rewrite Z.eqb_refl. reflexivity.
  - cbn [app split_slash]. destruct (c =? 47) eqn:E.
    + apply Z.eqb_eq in E. subst c. exfalso. apply H. left. reflexivity.
    + rewrite IH; [reflexivity|]. intros H'. apply H. right. exact H'.
Qed.

Lemma split_join segs : Forall noslash segs -> segs <> [] ->
  split_slash (join_slash segs) = segs.
Proof.
  induction segs as [|s r IH]; intros H Hne; [congruence|].
  inversion H as [|? ? Hs Hr]; subst. destruct r as [|s' r'].
  - cbn [join_slash]. apply split_single. exact Hs.
  - change (join_slash (s :: s' :: r')) with (s ++ 47 :: join_slash (s' :: r')).
    rewrite split_app by exact Hs. rewrite IH; [reflexivity|exact Hr|discriminate].
Qed.

Lemma clean_noslash segs : Forall clean segs -> Forall noslash segs.
Proof.
  intros H. eapply Forall_impl; [|exact H]. intros s (_ & _ & _ & Hs). exact Hs.
Qed.

Lemma join_nonempty segs : Forall clean segs -> segs <> [] ->
  join_slash segs <> [].
Proof.
  intros H Hne. destruct segs as [|s r]; [congruence|].
  inversion H as [|? ? (Hs & _) _]; subst. destruct r as [|s' r'].
  - cbn [join_slash]. exact Hs.
  - change (join_slash (s :: s' :: r')) with (s ++ 47 :: join_slash (s' :: r')).
    destruct s; [congruence|discriminate].
Qed.

(* ------------------------------------------------------------ normpath *)
Lemma clean_not_dotdot s : clean s -> is_dotdot s = false.
Proof.
  intros (_ & _ & H & _). unfold is_dotdot. apply lz_eqb_neq. exact H.
Qed.

(* the invariant of the loop for an absolute path: the stack holds only
   clean segments *)
Lemma step_clean stack comp :
  Forall clean stack -> noslash comp -> Forall clean (step true stack comp).
Proof.
  intros Hs Hc. unfold step.
  destruct (lz_eqb comp []) eqn:E1; cbn [orb]; [exact Hs|].
  destruct (lz_eqb comp [46]) eqn:E2; [exact Hs|].
  destruct (is_dotdot comp) eqn:E3; cbn [negb orb andb].
  - destruct stack as [|top rest]; [exact Hs|].
    inversion Hs as [|? ? Ht Hr]; subst.
    rewrite (clean_not_dotdot top Ht). exact Hr.
  - constructor; [|exact Hs].
    apply lz_eqb_neq in E1, E2. unfold is_dotdot in E3. apply lz_eqb_neq in E3.
    repeat split; assumption.
Qed.

Lemma fold_clean comps : forall stack,
  Forall clean stack -> Forall noslash comps ->
  Forall clean (fold_left (step true) comps stack).
Proof.
  induction comps as [|c comps IH]; intros stack Hs Hc; cbn [fold_left].
  - exact Hs.
  - inversion Hc as [|? ? H1 H2]; subst. apply IH; [|exact H2].
    apply step_clean; assumption.
Qed.

Lemma norm_comps_clean comps :
  Forall noslash comps -> Forall clean (norm_comps true comps).
Proof.
  intros H. unfold norm_comps. apply Forall_rev. apply fold_clean; [constructor|exact H].
Qed.

(* the clean segments of the normalised request path *)
Definition segments (p : list Z) : list (list Z) :=
  norm_comps true (split_slash (47 :: lstrip_slash p)).

Lemma rel_path_form p : rel_path p = 47 :: join_slash (segments p).
Proof.
  unfold rel_path, normpath, segments, initial_slashes.
  cbn [starts_slash tl]. rewrite Z.eqb_refl, lstrip_no_lead.
  cbn [andb negb Nat.eqb repeat app]. reflexivity.
Qed.

Lemma segments_clean p : Forall clean (segments p).
Proof. unfold segments. apply norm_comps_clean. apply split_noslash. Qed.

Theorem normpath_abs_clean p :
  exists segs,
    Forall clean segs /\
    normpath (47 :: lstrip_slash p) = 47 :: join_slash segs /\
    (segs <> [] -> split_slash (join_slash segs) = segs).
Proof.
  exists (segments p). split; [apply segments_clean|]. split.
  - apply rel_path_form.
  - apply split_join. apply clean_noslash. apply segments_clean.
Qed.

(* exactly one leading slash *)
Theorem normpath_abs_one_slash p :
  exists rest, normpath (47 :: lstrip_slash p) = 47 :: rest /\
               starts_slash rest = false.
Proof.
  exists (join_slash (segments p)). split; [apply rel_path_form|].
  pose proof (segments_clean p) as H. destruct (segments p) as [|s r]; [reflexivity|].
  inversion H as [|? ? (Hne & _ & _ & Hs) _]; subst.
  destruct s as [|c s]; [congruence|].
  assert (Hc : c <> 47) by (intros ->; apply Hs; left; reflexivity).
  destruct r as [|s' r']; cbn [join_slash app starts_slash];
    apply Z.eqb_neq; exact Hc.
Qed.

Theorem confined root p :
  exists segs,
    Forall clean segs /\
    resolved root p = root ++ 47 :: join_slash segs /\
    (segs <> [] -> split_slash (join_slash segs) = segs).
Proof.
  destruct (normpath_abs_clean p) as (segs & H1 & H2 & H3).
  exists segs. split; [exact H1|]. split; [|exact H3].
  unfold resolved, rel_path. rewrite H2. reflexivity.
Qed.

(* ------------------------------------------------------------ decision *)
Section Decision.
  Variable fs : list Z -> node.
  Variable listdir : list Z -> list (list Z).

  Lemma fallthrough_cases debug p :
    fallthrough debug p = ODebug \/ fallthrough debug p = ODefault.
  Proof.
    unfold fallthrough. destruct (debug && lz_eqb p (s2l "/debug-info")); auto.
  Qed.

  Lemma directory_index_cases root d :
    (exists e, directory_index fs listdir root d = OError e) \/
    (exists r, directory_index fs listdir root d = OListing d r).
  Proof.
    unfold directory_index. destruct (negb (n_isdir (fs d))); [left; eauto|].
    destruct (rows fs d (index_of listdir root d)); [right|left]; eauto.
  Qed.

  (* a file is answered only: with a root, for a GET/HEAD method number,
     and it is the readable regular file at the resolved name *)
  Theorem file_only_resolved root index debug mn p f :
    serve fs listdir root index debug mn p = OFile f ->
    root <> [] /\ get_or_head mn = true /\
    f = resolved root p /\ fs f = File true.
  Proof.
    unfold serve. destruct root as [|c root'].
    - cbn [is_nil negb andb]. intros H.
      destruct (fallthrough_cases debug p) as [E|E]; rewrite E in H; discriminate.
    - cbn [is_nil negb andb]. set (root := c :: root').
      destruct (get_or_head mn) eqn:G.
      2:{ intros H. destruct (fallthrough_cases debug p) as [E|E];
            rewrite E in H; discriminate. }
      cbv zeta. destruct (negb (n_exists (fs (resolved root p)))) eqn:X.
      { intros H. destruct (fallthrough_cases debug p) as [E|E];
          rewrite E in H; discriminate. }
      destruct (n_isfile (fs (resolved root p)) && n_readable (fs (resolved root p))) eqn:F.
      + intros H. injection H as <-. split; [discriminate|]. split; [reflexivity|].
        split; [reflexivity|]. apply andb_true_iff in F as [F1 F2].
        destruct (fs (resolved root p)) as [|r|r|r]; try discriminate.
        cbn [n_readable] in F2. subst r. reflexivity.
      + destruct (index && n_isdir (fs (resolved root p)) && n_readable (fs (resolved root p))).
        * intros H.
          destruct (directory_index_cases root (resolved root p)) as [(e & E)|(r & E)];
            rewrite E in H; discriminate.
        * discriminate.
  Qed.

  (* ... hence lexically inside the root: root ++ "/" ++ clean segments *)
  Theorem served_file_confined root index debug mn p f :
    serve fs listdir root index debug mn p = OFile f ->
    get_or_head mn = true /\ fs f = File true /\
    exists segs, Forall clean segs /\ f = root ++ 47 :: join_slash segs /\
                 (segs <> [] -> split_slash (join_slash segs) = segs).
  Proof.
    intros H. apply file_only_resolved in H as (_ & G & -> & F).
    split; [exact G|]. split; [exact F|]. apply confined.
  Qed.

  (* the same for a listing: the directory listed is the resolved name *)
  Theorem listed_dir_confined root index debug mn p d names :
    serve fs listdir root index debug mn p = OListing d names ->
    get_or_head mn = true /\ index = true /\ fs d = Dir true /\
    d = resolved root p.
  Proof.
    unfold serve. destruct (negb (is_nil root) && get_or_head mn) eqn:G.
    2:{ intros H. destruct (fallthrough_cases debug p) as [E|E];
          rewrite E in H; discriminate. }
    apply andb_true_iff in G as [_ G]. cbv zeta.
    destruct (negb (n_exists (fs (resolved root p)))).
    { intros H. destruct (fallthrough_cases debug p) as [E|E];
        rewrite E in H; discriminate. }
    destruct (n_isfile (fs (resolved root p)) && n_readable (fs (resolved root p)));
      [discriminate|].
    destruct (index && n_isdir (fs (resolved root p)) && n_readable (fs (resolved root p))) eqn:I;
      [|discriminate].
    apply andb_true_iff in I as [I I3]. apply andb_true_iff in I as [I1 I2].
    intros H.
    destruct (directory_index_cases root (resolved root p)) as [(e & E)|(r & E)];
      rewrite E in H; [discriminate|]. injection H as <- _.
    split; [exact G|]. split; [exact I1|]. split; [|reflexivity].
    destruct (fs (resolved root p)) as [|b|b|b]; try discriminate.
    cbn [n_readable] in I3. subst b. reflexivity.
  Qed.

  (* anything that touches the file system (file or listing) needs GET/HEAD *)
  Theorem only_get_head root index debug mn p :
    get_or_head mn = false ->
    serve fs listdir root index debug mn p = fallthrough debug p.
  Proof.
    intros G. unfold serve. rewrite G, andb_false_r. reflexivity.
  Qed.

  Lemma get_or_head_spec mn :
    get_or_head mn = true <-> Z.land mn 3 <> 0.
  Proof.
    unfold get_or_head. rewrite negb_true_iff. apply Z.eqb_neq.
  Qed.

  (* the known methods other than GET and HEAD never pass the gate *)
  Theorem known_other_methods_fall_through
          env_root attr_root env_index attr_index debug m n p :
    lookup m methods = Some n -> n <> 1 -> n <> 2 ->
    serve_request fs listdir env_root attr_root env_index attr_index debug m p
    = fallthrough debug p.
  Proof.
    intros L H1 H2. unfold serve_request. apply only_get_head.
    unfold method_number. rewrite L.
    unfold methods in L. cbn [lookup] in L.
    repeat match type of L with
           | (if ?b then _ else _) = _ => destruct b
           end;
      try (injection L as <-); try congruence; try discriminate; reflexivity.
  Qed.

  Theorem method_gate_names m :
    get_or_head (method_number m) = true <->
    m = s2l "GET" \/ m = s2l "HEAD" \/ lookup m methods = None.
  Proof.
    unfold method_number. destruct (lookup m methods) as [n|] eqn:L.
    - unfold methods in L. cbn [lookup] in L.
      destruct (lz_eqb m (s2l "HEAD")) eqn:E1.
      { apply lz_eqb_eq in E1. injection L as <-. split; auto. }
      destruct (lz_eqb m (s2l "GET")) eqn:E2.
      { apply lz_eqb_eq in E2. injection L as <-. split; auto. }
      apply lz_eqb_neq in E1, E2.
      split.
      + intros G. exfalso.
        repeat match type of L with
               | (if ?b then _ else _) = _ => destruct b
               end; try discriminate; injection L as <-; discriminate.
      + intros [H|[H|H]]; congruence.
    - split; [auto|reflexivity].
  Qed.

  (* directories: listing when indexing is on (and readable), else 403;
     also everything else that exists and is not a readable file is 403 *)
  Theorem dir_listing_or_403 root index debug mn p r :
    root <> [] -> get_or_head mn = true ->
    fs (resolved root p) = Dir r ->
    serve fs listdir root index debug mn p =
      if index && r then directory_index fs listdir root (resolved root p)
      else OForbidden.
  Proof.
    intros Hr G D. unfold serve. destruct root as [|c root']; [congruence|].
    cbn [is_nil negb andb]. rewrite G. cbv zeta. rewrite D.
    cbn [n_exists n_isfile n_isdir n_readable negb andb].
    rewrite andb_true_r. reflexivity.
  Qed.

  Theorem not_file_not_dir_403 root index debug mn p :
    root <> [] -> get_or_head mn = true ->
    (fs (resolved root p) = File false \/
     exists r, fs (resolved root p) = Other r) ->
    serve fs listdir root index debug mn p = OForbidden.
  Proof.
    intros Hr G D. unfold serve. destruct root as [|c root']; [congruence|].
    cbn [is_nil negb andb]. rewrite G. cbv zeta.
    destruct D as [D|(r & D)]; rewrite D;
      cbn [n_exists n_isfile n_isdir n_readable negb andb];
      rewrite ?andb_false_r; reflexivity.
  Qed.

  Theorem missing_falls_through root index debug mn p :
    fs (resolved root p) = Missing ->
    serve fs listdir root index debug mn p = fallthrough debug p.
  Proof.
    intros D. unfold serve.
    destruct (negb (is_nil root) && get_or_head mn); [|reflexivity].
    cbv zeta. rewrite D. reflexivity.
  Qed.

  (* -------------------------------------------------------- the listing *)
  (* what the property calls a visible entry of directory d *)
  Definition visible (d item : list Z) : Prop :=
    (hd 0 item <> 46 \/ item = [46; 46]) /\
    last item 0 <> 126 /\
    n_readable (fs (fpath d item)) = true.

  (* its row name: directories get a trailing slash *)
  Definition display (d item : list Z) : list Z :=
    item ++ (if n_isdir (fs (fpath d item)) then [47] else []).

  Lemma name_skipped_spec item : item <> [] ->
    exists b, name_skipped item = Some b /\
      (b = false <->
       (hd 0 item <> 46 \/ item = [46; 46]) /\ last item 0 <> 126).
  Proof.
    intros Hne. destruct item as [|c0 rest]; [congruence|].
    unfold name_skipped. cbn [hd].
    destruct (c0 =? 46) eqn:E0; cbn [andb].
    - apply Z.eqb_eq in E0.
      destruct (is_dotdot (c0 :: rest)) eqn:E1; cbn [negb].
      + unfold is_dotdot in E1. apply lz_eqb_eq in E1.
        eexists. split; [reflexivity|]. rewrite E1. cbn [last].
        split; [intros _; split; [right; reflexivity|discriminate]|].
        intros _. reflexivity.
      + unfold is_dotdot in E1. apply lz_eqb_neq in E1.
        exists true. split; [reflexivity|]. split; [discriminate|].
        intros ([H|H] & _); congruence.
    - apply Z.eqb_neq in E0. eexists. split; [reflexivity|].
      rewrite Z.eqb_neq. split.
      + intros H. split; [left; exact E0|exact H].
      + intros (_ & H). exact H.
  Qed.

  Lemma rows_spec d index :
    Forall (fun n => n <> []) index ->
    exists r, rows fs d index = Some r /\
      forall x, In x r <->
        exists item, In item index /\ visible d item /\ x = display d item.
  Proof.
    induction index as [|item index IH]; intros Hne.
    - exists []. split; [reflexivity|]. intros x. split; [intros []|].
      intros (item & [] & _).
    - inversion Hne as [|? ? H1 H2]; subst.
      destruct (IH H2) as (r & Hr & Hin). cbn [rows].
      destruct (name_skipped_spec item H1) as (b & Hb & Hspec). rewrite Hb.
      destruct b.
      + exists r. split; [exact Hr|]. intros x. rewrite Hin. split.
        * intros (it & Hi & Hv & Hx). exists it. split; [right; exact Hi|auto].
        * intros (it & [Hi|Hi] & Hv & Hx).
          -- subst it. destruct Hv as (Hv1 & Hv2 & _).
             assert (true = false) by (apply Hspec; split; assumption).
             discriminate.
          -- exists it. auto.
      + assert (Hnm : (hd 0 item <> 46 \/ item = [46; 46]) /\ last item 0 <> 126)
          by (apply Hspec; reflexivity).
        destruct (n_readable (fs (fpath d item))) eqn:R; cbn [negb].
        * rewrite Hr. eexists. split; [reflexivity|]. intros x. split.
          -- intros [Hx|Hx].
             ++ exists item. split; [left; reflexivity|]. split.
                ** destruct Hnm as (A & B). repeat split; assumption.
                ** symmetry. exact Hx.
             ++ apply Hin in Hx. destruct Hx as (it & Hi & Hv & Hx).
                exists it. split; [right; exact Hi|auto].
          -- intros (it & [Hi|Hi] & Hv & Hx).
             ++ subst it. left. symmetry. exact Hx.
             ++ right. apply Hin. exists it. auto.
        * exists r. split; [exact Hr|]. intros x. rewrite Hin. split.
          -- intros (it & Hi & Hv & Hx). exists it. split; [right; exact Hi|auto].
          -- intros (it & [Hi|Hi] & Hv & Hx).
             ++ subst it. destruct Hv as (_ & _ & Hv). congruence.
             ++ exists it. auto.
  Qed.

  Lemma insert_in x y l : In x (insert y l) <-> x = y \/ In x l.
  Proof.
    induction l as [|z l IH]; cbn [insert].
    - split; [intros [H|[]]; auto|intros [H|[]]; left; auto].
    - destruct (lz_leb y z).
      + split; [intros [H|H]; auto|intros [H|H]; [left; auto|right; exact H]].
      + cbn [In]. rewrite IH. tauto.
  Qed.

  Lemma sort_in x l : In x (sort l) <-> In x l.
  Proof.
    unfold sort. induction l as [|y l IH]; cbn [fold_right]; [tauto|].
    rewrite insert_in, IH. cbn [In]. split; intros [H|H]; auto.
  Qed.

  Lemma removelast_app_one (a : list Z) c : removelast (a ++ [c]) = a.
  Proof. rewrite removelast_app by discriminate. cbn. apply app_nil_r. Qed.

  Lemma removelast_length (l : list Z) :
    l <> [] -> S (List.length (removelast l)) = List.length l.
  Proof.
    intros H. destruct (exists_last H) as (a & c & ->).
    rewrite removelast_app_one, app_length. cbn. lia.
  Qed.

  (* ".." is offered exactly below the document root *)
  Lemma at_root_test root p :
    lz_eqb root (removelast (resolved root p)) = is_nil (segments p).
  Proof.
    unfold resolved. rewrite rel_path_form.
    pose proof (segments_clean p) as Hc.
    destruct (segments p) as [|s r] eqn:Sg.
    - cbn [join_slash is_nil]. rewrite removelast_app_one. apply lz_eqb_refl.
    - cbn [is_nil]. apply lz_eqb_neq. intros E.
      assert (Hn : join_slash (s :: r) <> []) by (apply join_nonempty; [exact Hc|discriminate]).
      assert (Hl : S (List.length (removelast (root ++ 47 :: join_slash (s :: r))))
                   = List.length (root ++ 47 :: join_slash (s :: r))).
      { apply removelast_length. destruct root; discriminate. }
      rewrite <- E in Hl. rewrite app_length in Hl. cbn [List.length] in Hl.
      destruct (join_slash (s :: r)); [congruence|]. cbn [List.length] in Hl. lia.
  Qed.

  Lemma is_nil_segments p : is_nil (segments p) = true <-> rel_path p = [47].
  Proof.
    rewrite rel_path_form. pose proof (segments_clean p) as Hc.
    destruct (segments p) as [|s r]; cbn [is_nil].
    - split; reflexivity.
    - split; [discriminate|]. intros H. exfalso.
      assert (Hn : join_slash (s :: r) <> []) by (apply join_nonempty; [exact Hc|discriminate]).
      apply Hn. exact (f_equal (@tl Z) H).
  Qed.

  (* The listing of the directory the request resolves to shows exactly the
     visible entries: those of os.listdir plus ".." unless the directory is
     the root itself. *)
  Theorem listing_visible_entries root p :
    let d := resolved root p in
    Forall (fun n => n <> []) (listdir d) ->
    n_isdir (fs d) = true ->
    exists r, directory_index fs listdir root d = OListing d r /\
      forall x, In x r <->
        exists item,
          (In item (listdir d) \/ (item = [46; 46] /\ rel_path p <> [47])) /\
          visible d item /\ x = display d item.
  Proof.
    intros d Hne Hd. unfold directory_index. rewrite Hd. cbn [negb].
    assert (Hidx : Forall (fun n => n <> []) (index_of listdir root d)).
    { rewrite Forall_forall in Hne. apply Forall_forall. intros x Hx.
      unfold index_of in Hx. rewrite sort_in in Hx.
      destruct (lz_eqb root (removelast d)); [apply Hne; exact Hx|].
      apply in_app_or in Hx. destruct Hx as [Hx|[Hx|[]]];
        [apply Hne; exact Hx|subst x; discriminate]. }
    destruct (rows_spec d _ Hidx) as (r & Hr & Hin). rewrite Hr.
    exists r. split; [reflexivity|]. intros x. rewrite Hin.
    assert (Hmem : forall item, In item (index_of listdir root d) <->
              (In item (listdir d) \/ (item = [46; 46] /\ rel_path p <> [47]))).
    { intros item. unfold index_of. rewrite sort_in. unfold d.
      rewrite at_root_test. destruct (is_nil (segments p)) eqn:N.
      - apply is_nil_segments in N. split; [auto|]. intros [H|(_ & H)]; [exact H|congruence].
      - assert (Hn : rel_path p <> [47]).
        { intros H. apply is_nil_segments in H. congruence. }
        rewrite in_app_iff. cbn [In]. split.
        + intros [H|[H|[]]]; [left; exact H|right; split; [symmetry; exact H|exact Hn]].
        + intros [H|(H & _)]; [left; exact H|right; left; symmetry; exact H]. }
    split.
    - intros (item & Hi & Hv). exists item. split; [apply Hmem; exact Hi|exact Hv].
    - intros (item & Hi & Hv). exists item. split; [apply Hmem; exact Hi|exact Hv].
  Qed.

  (* every file-system name the listing consults lies directly inside d *)
  Theorem listing_stays_in_directory d item :
    fpath d item = d ++ 47 :: item.
  Proof. reflexivity. Qed.
End Decision.

(* ------------------------------------------------------- non-vacuity *)
Definition ex_root : list Z := s2l "/srv/www".
Definition ex_fs : list Z -> node :=
  fs_of [ (s2l "/srv/www/", Dir true);
          (s2l "/srv/www/sub", Dir true);
          (s2l "/srv/www/in.txt", File true);
          (s2l "/srv/www//in.txt", File true);
          (s2l "/srv/www//sub", Dir true);
          (s2l "/srv/www//.hid", File true);
          (s2l "/srv/www//..hid", File true);
          (s2l "/srv/www//b~", File true);
          (s2l "/srv/www//locked", File false);
          (s2l "/srv/www/sub/..", Dir true);
          (s2l "/srv/www_private/p.txt", File true);
          (s2l "/srv/www..x/q.txt", File true);
          (s2l "/srv/s.txt", File true) ].
Definition ex_ls : list Z -> list (list Z) :=
  listdir_of [ (s2l "/srv/www/",
                [s2l "sub"; s2l "in.txt"; s2l ".hid"; s2l "..hid"; s2l "b~";
                 s2l "locked"]);
               (s2l "/srv/www/sub", []) ].

Example serve_examples :
  serve ex_fs ex_ls ex_root true false 2 (s2l "sub/..//./in.txt")
    = OFile (s2l "/srv/www/in.txt") /\
  serve ex_fs ex_ls ex_root true false 2 (s2l "_private/p.txt") = ODefault /\
  serve ex_fs ex_ls ex_root true false 2 (s2l "..x/q.txt") = ODefault /\
  serve ex_fs ex_ls ex_root true false 2 (s2l "/../s.txt") = ODefault /\
  serve ex_fs ex_ls ex_root true false 4 (s2l "/in.txt") = ODefault /\
  serve ex_fs ex_ls ex_root true false 2 (s2l "//")
    = OListing (s2l "/srv/www/") [s2l "in.txt"; s2l "sub/"] /\
  serve ex_fs ex_ls ex_root true false 1 (s2l "/sub")
    = OListing (s2l "/srv/www/sub") [s2l "../"] /\
  serve ex_fs ex_ls ex_root false false 2 (s2l "/sub") = OForbidden.
Proof. repeat split; vm_compute; reflexivity. Qed.
