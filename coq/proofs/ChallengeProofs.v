(* Links between the issuing side of Digest authentication (model/Challenge.v,
   the 401 page) and the verification side (model/Digest.v check_nonce,
   check_credentials, gate; model/Token.v check_token). *)
From Coq Require Import ZArith List Bool Lia String.
Require Import PW.lib.Val PW.lib.ValFacts PW.lib.Dec PW.model.Token
  PW.model.Digest PW.model.Challenge PW.proofs.TokenProofs.
Import ListNotations.
Open Scope list_scope.
Open Scope Z_scope.

Ltac Zify.zify_post_hook ::= Z.to_euclidean_division_equations.

(* the verification time t' lies in the timeout window of the issuing time t
   or in the following one (no condition when tokens do not expire:
   timeout None or 0) *)
Definition same_or_next_window (timeout : option Z) (t t' : Z) : Prop :=
  match timeout with
  | None => True
  | Some T =>
      T = 0 \/
      (0 < T /\ 0 <= t /\ 0 <= t' /\
       (t' / (T * usec) = t / (T * usec) \/
        t' / (T * usec) = t / (T * usec) + 1))
  end.

Section Proofs.
  Variable Ht Ho : str -> str.

  Lemma get_token_at s c T e t :
    T <> 0 -> e <> 0 ->
    get_token Ht s c (Some T) e t = Some (Ht (s ++ dec e ++ c)).
  Proof.
    intros HT He. unfold get_token, token_text, has_timeout.
    replace (T =? 0) with false by (symmetry; apply Z.eqb_neq; lia).
    replace (e =? 0) with false by (symmetry; apply Z.eqb_neq; lia).
    reflexivity.
  Qed.

  (* no assumption on the hash: equal texts have equal hashes *)
  Lemma verify_accepts s c timeout t0 t1 :
    same_or_next_window timeout t0 t1 ->
    verify Ht s c s c timeout t0 t1 = Some true.
  Proof.
    destruct timeout as [T|]; [|intros _; apply no_timeout_never_expires; reflexivity].
    intros [->|(HT & H0 & H1 & W)];
      [apply no_timeout_never_expires; reflexivity|].
    pose proof (window_nonneg t0 T HT H0) as W0.
    pose proof (window_nonneg t1 T HT H1) as W1.
    fold (window t0 T) in W. fold (window t1 T) in W.
    unfold verify, get_token at 1, token_text, has_timeout, aligned.
    replace (T =? 0) with false by (symmetry; apply Z.eqb_neq; lia).
    cbn [negb option_map]. rewrite Z.eqb_refl. cbn [option_map].
    unfold check_token, has_timeout, aligned, tok_eqb.
    replace (T =? 0) with false by (symmetry; apply Z.eqb_neq; lia).
    cbn [negb].
    fold (window t0 T). fold (window t1 T).
    assert (P1 : 0 <= window t1 T * T) by (apply Z.mul_nonneg_nonneg; lia).
    assert (N0 : T <> 0) by lia.
    assert (N1 : window t1 T * T + T <> 0) by lia.
    assert (N2 : window t1 T * T + T + T <> 0) by lia.
    rewrite !get_token_at by assumption. cbn [option_map].
    destruct W as [W|W]; rewrite W.
    - replace (window t0 T * T + T + T) with (window t0 T * T + 2 * T) by lia.
      rewrite (lz_eqb_refl (Ht _)).
      destruct (lz_eqb _ _); reflexivity.
    - replace ((window t0 T + 1) * T + T) with (window t0 T * T + 2 * T) by lia.
      rewrite lz_eqb_refl. reflexivity.
  Qed.

  (* what a challenge header is made of *)
  Lemma challenge_shape c r realm stale h :
    challenge Ht Ho c r realm stale = Returns (Some h) ->
    exists rl nonce,
      realm = Some rl /\ nonempty rl = true /\
      opt_eqb (a_type c) s_Digest = true /\
      issued_nonce Ht c r = Some nonce /\
      h = header_of c rl nonce (issued_opaque Ho r)
          ++ (if stale then s_stale else []).
  Proof.
    unfold challenge. destruct (opt_eqb (a_type c) s_Digest); [|discriminate].
    destruct realm as [rl|]; cbn [negb]; [|discriminate].
    destruct (nonempty rl) eqn:E; cbn [negb]; [|discriminate].
    destruct (issued_nonce Ht c r) as [nonce|]; [|discriminate].
    intros [= <-]. exists rl, nonce.
    split; [reflexivity|]. split; [exact E|]. split; [reflexivity|].
    split; [reflexivity|].
    destruct stale; [reflexivity|rewrite app_nil_r; reflexivity].
  Qed.

  Lemma challenge_total c r realm stale :
    challenge Ht Ho c r realm stale <> Raises "ZeroDivisionError" [].
  Proof.
    unfold challenge, issued_nonce, get_token, token_text, has_timeout, aligned.
    destruct (opt_eqb _ _); [|discriminate].
    destruct (negb _); [discriminate|].
    destruct (a_timeout c) as [T|]; [|discriminate].
    destruct (T =? 0); cbn [negb option_map]; discriminate.
  Qed.

  Theorem issued_nonce_verifies c r realm stale h :
    challenge Ht Ho c r realm stale = Returns (Some h) ->
    exists rl nonce,
      h = header_of c rl nonce (issued_opaque Ho r)
          ++ (if stale then s_stale else []) /\
      forall d e,
        dget k_nonce d = Some nonce ->
        c_secret e = q_secret r -> r_client e = q_client r ->
        c_timeout e = a_timeout c ->
        same_or_next_window (a_timeout c) (q_time r) (r_time e) ->
        check_nonce Ht d e = Some true /\
        check_token Ht nonce (c_secret e) (r_client e) (c_timeout e)
                    (r_time e) = Some true.
  Proof.
    intros E. destruct (challenge_shape _ _ _ _ _ E)
      as (rl & nonce & _ & _ & _ & N & ->).
    exists rl, nonce. split; [reflexivity|].
    intros d e Hd Hs Hc Hto W.
    pose proof (verify_accepts (q_secret r) (q_client r) _ _ _ W) as V.
    unfold verify in V. unfold issued_nonce in N. rewrite N in V.
    unfold check_nonce. rewrite Hd, Hs, Hc, Hto. split; exact V.
  Qed.

  (* key="value" *)
  Definition field (k v : str) : str := k ++ [61; 34] ++ v ++ [34].
  Definition k_stale : str := s2l "stale".
  Definition s_true : str := s2l "true".

  (* the header text, field by field: scheme, realm, qop (iff configured
     non-empty), algorithm, nonce, opaque, stale=true (iff asked), separated
     by commas *)
  Theorem challenge_fields_in_order c r realm stale h :
    challenge Ht Ho c r realm stale = Returns (Some h) ->
    exists rl nonce,
      realm = Some rl /\ issued_nonce Ht c r = Some nonce /\
      h = s_Digest ++ [32] ++ field k_realm rl ++ [44] ++
          (match a_qop c with
           | Some q => if nonempty q then field k_qop q ++ [44] else []
           | None => []
           end) ++
          field k_algorithm (a_algorithm c) ++ [44] ++
          field k_nonce nonce ++ [44] ++
          field k_opaque (issued_opaque Ho r) ++
          (if stale then [44] ++ k_stale ++ [61] ++ s_true else []).
  Proof.
    intros E. destruct (challenge_shape _ _ _ _ _ E)
      as (rl & nonce & -> & _ & _ & N & ->).
    exists rl, nonce. split; [reflexivity|]. split; [exact N|].
    unfold header_of, qop_piece, field.
    destruct (a_qop c) as [q|]; [destruct (nonempty q)|]; destruct stale;
      rewrite <- ?app_assoc; reflexivity.
  Qed.

  Variable Hh Unq : str -> str.

  Theorem issued_opaque_verifies c r realm stale h :
    challenge Ht Ho c r realm stale = Returns (Some h) ->
    exists rl nonce,
      h = header_of c rl nonce (issued_opaque Ho r)
          ++ (if stale then s_stale else []) /\
      forall d e,
        r_host e = q_host r ->
        (* the comparison made by check_credentials succeeds on it *)
        (dget k_opaque d = Some (issued_opaque Ho r) ->
         opt_eqb (dget k_opaque d) (Ho (r_host e)) = true) /\
        (* and on nothing else *)
        (check_credentials Hh Ho Unq d e = true ->
         dget k_opaque d = Some (issued_opaque Ho r)) /\
        (forall hdr u, hdr = Some d -> gate Ht Hh Ho Unq hdr e = Run u ->
         dget k_opaque d = Some (issued_opaque Ho r)).
  Proof.
    intros E. destruct (challenge_shape _ _ _ _ _ E)
      as (rl & nonce & _ & _ & _ & _ & ->).
    exists rl, nonce. split; [reflexivity|].
    intros d e Hh0. unfold issued_opaque. rewrite <- Hh0.
    assert (CC : check_credentials Hh Ho Unq d e = true ->
                 dget k_opaque d = Some (Ho (r_host e))).
    { unfold check_credentials.
      destruct (negb (opt_eqb (dget k_algorithm d) (c_algorithm e)));
        [discriminate|].
      destruct (dget k_opaque d) as [v|]; cbn [opt_eqb negb]; [|discriminate].
      destruct (lz_eqb v (Ho (r_host e))) eqn:Ev; cbn [negb]; [|discriminate].
      intros _. apply lz_eqb_eq in Ev. rewrite Ev. reflexivity. }
    split; [|split].
    - intros ->. cbn [opt_eqb]. apply lz_eqb_refl.
    - exact CC.
    - intros hdr u -> G. apply CC. unfold gate in G.
      destruct (dget k_type d); [|discriminate].
      destruct (negb (lz_eqb _ _)); [discriminate|].
      destruct (check_nonce Ht d e) as [[|]|]; try discriminate.
      destruct (check_credentials Hh Ho Unq d e); [reflexivity|discriminate].
  Qed.
End Proofs.

(* a concrete challenge read back by the verification side's tokenizer
   (Request.authorization applied to the header text): the fields come out
   in the order realm, qop, algorithm, nonce, opaque, stale, with the issued
   values; hashes are the tagged fakes of the correspondence harness *)
Definition ex_cfg (qop : option str) : cfg :=
  {| a_type := Some s_Digest; a_algorithm := s2l "SHA-256"; a_qop := qop;
     a_timeout := Some 300 |}.
Definition ex_renv : renv :=
  {| q_secret := s2l "secret"; q_client := s2l "agent";
     q_host := s2l "example.org"; q_time := 1700000000000000 |}.
Definition parsed_fields (o : outcome header_text) : list (str * str) :=
  match o with
  | Returns (Some h) =>
      let d := parse_authorization unquote h in
      map (fun k => (k, dgetd k d)) (dedup [] (map fst (rev d)))
  | _ => []
  end.

Theorem challenge_parses_example :
  parsed_fields (challenge (fakeH 84) (fakeH 79) (ex_cfg (Some (s2l "auth")))
                           ex_renv (Some (s2l "users")) true)
  = [ (k_realm, s2l "users"); (k_qop, s2l "auth");
      (k_algorithm, s2l "SHA-256");
      (k_nonce, fakeH 84 (s2l "secret1700000400agent"));
      (k_opaque, fakeH 79 (s2l "example.org"));
      (k_stale, s_true); (k_type, s_Digest) ]
  /\
  parsed_fields (challenge (fakeH 84) (fakeH 79) (ex_cfg None)
                           ex_renv (Some (s2l "users")) false)
  = [ (k_realm, s2l "users"); (k_algorithm, s2l "SHA-256");
      (k_nonce, fakeH 84 (s2l "secret1700000400agent"));
      (k_opaque, fakeH 79 (s2l "example.org"));
      (k_type, s_Digest) ].
Proof. split; vm_compute; reflexivity. Qed.
