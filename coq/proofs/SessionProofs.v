From Coq Require Import ZArith List Bool Lia String.
Require Import PW.lib.Val PW.lib.ValFacts PW.model.Session.
Import ListNotations.
Open Scope list_scope.
Open Scope Z_scope.

(* ------------------------------------------------------------ XOR facts *)
Lemma lxor_cancel_r a k : Z.lxor (Z.lxor a k) k = a.
Proof. rewrite Z.lxor_assoc, Z.lxor_nilpotent, Z.lxor_0_r. reflexivity. Qed.

Lemma lxor_inj_r a b k : Z.lxor a k = Z.lxor b k -> a = b.
Proof.
  intros H. rewrite <- (lxor_cancel_r a k), H. apply lxor_cancel_r.
Qed.

Lemma lxor_inj_l a b c : Z.lxor a b = Z.lxor a c -> b = c.
Proof.
  intros H. rewrite (Z.lxor_comm a b), (Z.lxor_comm a c) in H.
  eapply lxor_inj_r; eassumption.
Qed.

Lemma log2_byte a : 0 <= a < 256 -> Z.log2 a < 8.
Proof.
  intros [H0 H1]. destruct (Z.eq_dec a 0) as [->|Hn]; [reflexivity|].
  apply Z.log2_lt_pow2; [lia|]. change (2 ^ 8) with 256. exact H1.
Qed.

Lemma lxor_byte a b : byte a -> byte b -> byte (Z.lxor a b).
Proof.
  unfold byte. intros Ha Hb.
  assert (Hn : 0 <= Z.lxor a b) by (apply Z.lxor_nonneg; lia).
  split; [exact Hn|].
  destruct (Z.eq_dec (Z.lxor a b) 0) as [E|E]; [lia|].
  change 256 with (2 ^ 8). apply Z.log2_lt_pow2; [lia|].
  pose proof (Z.log2_lxor a b ltac:(lia) ltac:(lia)) as Hl.
  pose proof (log2_byte a Ha). pose proof (log2_byte b Hb). lia.
Qed.

(* ------------------------------------------------------------ hidden *)
Lemma hidden_from_involutive K :
  forall x i, hidden_from K i (hidden_from K i x) = x.
Proof.
  induction x as [|v x IH]; intros i; cbn [hidden_from]; [reflexivity|].
  rewrite lxor_cancel_r, IH. reflexivity.
Qed.

Theorem hidden_involutive K x : hidden K (hidden K x) = x.
Proof. apply hidden_from_involutive. Qed.

Lemma hidden_from_length K :
  forall x i, List.length (hidden_from K i x) = List.length x.
Proof.
  induction x as [|v x IH]; intros i; cbn [hidden_from List.length];
    [reflexivity|]. rewrite IH. reflexivity.
Qed.

Lemma hidden_length K x : List.length (hidden K x) = List.length x.
Proof. apply hidden_from_length. Qed.

Lemma hidden_nonempty K x : x <> [] -> hidden K x <> [].
Proof. destruct x; [congruence|]. intros _. discriminate. Qed.

Lemma key_at_byte K i : Forall byte K -> byte (key_at K i).
Proof.
  intros HK. unfold key_at.
  set (n := Z.to_nat (i mod Z.of_nat (List.length K))).
  destruct (Nat.lt_ge_cases n (List.length K)) as [Hlt|Hge].
  - rewrite Forall_forall in HK. apply HK. apply nth_In. exact Hlt.
  - rewrite nth_overflow by exact Hge. unfold byte. lia.
Qed.

(* val ^ passwd[..] stays a byte: bytearray.append never raises ValueError *)
Theorem hidden_bytes K x :
  Forall byte K -> Forall byte x -> Forall byte (hidden K x).
Proof.
  intros HK Hx. unfold hidden. generalize 0 as i.
  induction Hx as [|v x Hv Hx IH]; intros i; cbn [hidden_from]; constructor.
  - apply lxor_byte; [exact Hv|apply key_at_byte; exact HK].
  - apply IH.
Qed.

Lemma nth_hidden_from K :
  forall x i n, (n < List.length x)%nat ->
    nth n (hidden_from K i x) 0 =
    Z.lxor (nth n x 0) (key_at K (i + Z.of_nat n)).
Proof.
  induction x as [|v x IH]; intros i n Hn; cbn [List.length] in Hn; [lia|].
  destruct n as [|n]; cbn [hidden_from nth].
  - change (Z.of_nat 0) with 0. rewrite Z.add_0_r. reflexivity.
  - rewrite IH by lia. f_equal. f_equal. lia.
Qed.

(* two key streams that differ at a position used by the text give
   different masked texts *)
Theorem foreign_key_bytes_differ K1 K2 x j :
  0 <= j < Z.of_nat (List.length x) ->
  key_at K1 j <> key_at K2 j ->
  hidden K1 x <> hidden K2 x.
Proof.
  intros Hj Hk E.
  apply (f_equal (fun l => nth (Z.to_nat j) l 0)) in E. unfold hidden in E.
  rewrite !nth_hidden_from in E by lia.
  apply lxor_inj_l in E. rewrite Z2Nat.id in E by lia.
  rewrite Z.add_0_l in E. contradiction.
Qed.

(* for digests of equal length n (64) position j < n of the stream is K[j] *)
Lemma key_at_low K j :
  0 <= j < Z.of_nat (List.length K) -> key_at K j = nth (Z.to_nat j) K 0.
Proof. intros Hj. unfold key_at. rewrite Z.mod_small by lia. reflexivity. Qed.

Theorem foreign_digest_bytes_differ K1 K2 x j :
  List.length K1 = 64%nat -> List.length K2 = 64%nat ->
  0 <= j < 64 -> j < Z.of_nat (List.length x) ->
  nth (Z.to_nat j) K1 0 <> nth (Z.to_nat j) K2 0 ->
  hidden K1 x <> hidden K2 x.
Proof.
  intros L1 L2 Hj Hx Hd. apply (foreign_key_bytes_differ K1 K2 x j); [lia|].
  rewrite !key_at_low by (rewrite ?L1, ?L2; lia). exact Hd.
Qed.

(* unmasking with the foreign key does not give back the serialised text *)
Theorem foreign_unmask_differs K1 K2 t j :
  0 <= j < Z.of_nat (List.length t) ->
  key_at K1 j <> key_at K2 j ->
  hidden K2 (hidden K1 t) <> t.
Proof.
  intros Hj Hk E. apply (foreign_key_bytes_differ K1 K2 t j Hj Hk).
  rewrite <- E at 2. rewrite hidden_involutive. reflexivity.
Qed.

(* ------------------------------------------------------------ pipeline *)
Section Proofs.
  Variable K : list Z.
  Variable J : Type.
  Variable C : codec J.

  Notation write_value := (write_value K J C).
  Notation decode := (decode K J C).
  Notation load_value := (load_value K J C).
  Notation state := (state J).
  Notation write := (write K J C).
  Notation header := (header K J C).
  Notation load := (load K J C).
  Notation step := (step K J C).
  Notation run := (run K J C).
  Notation init := (init J).
  Notation destroy := (destroy J).

  (* totality at the level of exceptions, for every string *)
  Theorem load_only_session_error (raw : list Z) :
    (exists l, load_value raw = Ok l) \/ load_value raw = Raised SessionError.
  Proof.
    unfold Session.load_value.
    destruct (nonempty raw); [|left; eexists; reflexivity].
    destruct decode as [j|]; [|right; reflexivity].
    destruct (is_dict C j); [left; eexists; reflexivity|right; reflexivity].
  Qed.

  Theorem load_op_only_session_error (st : state) (c : option (list Z)) :
    snd (load st c) = LSkipped \/ snd (load st c) = LLoaded \/
    snd (load st c) = LRaised SessionError.
  Proof.
    unfold Session.load. destruct c as [raw|]; [|left; reflexivity].
    destruct (nonempty raw); [|left; reflexivity].
    destruct decode as [j|]; [|right; right; reflexivity].
    cbn [snd]. destruct (is_dict C j); auto.
  Qed.

  Section Laws.
    Hypothesis laws : codec_laws C.

    Lemma decode_written d t raw :
      dumps C d = Some t -> loads C t = Some d ->
      write_value d = Some raw -> decode raw = Some d.
    Proof.
      destruct laws as (Lb & Lc & _ & _).
      intros Hd Hl Hw. unfold Session.write_value in Hw. rewrite Hd in Hw.
      cbn [bind] in Hw.
      destruct (compress C (hidden K t)) as [z|] eqn:Ez; [|discriminate].
      cbn [bind] in Hw. unfold Session.decode.
      rewrite (Lb _ _ Hw). cbn [bind]. rewrite (Lc _ _ Ez). cbn [bind].
      rewrite hidden_involutive. exact Hl.
    Qed.

    Lemma written_nonempty d t raw :
      dumps C d = Some t -> t <> [] -> write_value d = Some raw ->
      nonempty raw = true.
    Proof.
      destruct laws as (_ & _ & Nb & Nc).
      intros Hd Ht Hw. unfold Session.write_value in Hw. rewrite Hd in Hw.
      cbn [bind] in Hw.
      destruct (compress C (hidden K t)) as [z|] eqn:Ez; [|discriminate].
      cbn [bind] in Hw.
      assert (raw <> []).
      { apply (Nb _ _ Hw). apply (Nc _ _ Ez). apply hidden_nonempty, Ht. }
      destruct raw; [congruence|reflexivity].
    Qed.

    Theorem written_loads_back d raw :
      json_roundtrips C d -> is_dict C d = true ->
      write_value d = Some raw -> load_value raw = Ok (Restored d).
    Proof.
      intros (t & Hd & Ht & Hl) Hdict Hw. unfold Session.load_value.
      rewrite (written_nonempty d t raw Hd Ht Hw).
      rewrite (decode_written d t raw Hd Hl Hw), Hdict. reflexivity.
    Qed.

    Lemma write_value_total d :
      codec_total C -> json_roundtrips C d -> exists raw, write_value d = Some raw.
    Proof.
      intros (Tc & Tb) (t & Hd & _ & _). unfold Session.write_value.
      rewrite Hd. cbn [bind].
      destruct (compress C (hidden K t)) as [z|] eqn:Ez;
        [|exfalso; exact (Tc _ Ez)].
      cbn [bind]. destruct (b64 C z) as [r|] eqn:Er;
        [eexists; reflexivity|exfalso; exact (Tb _ Er)].
    Qed.

    Theorem session_roundtrip d :
      codec_total C -> json_roundtrips C d -> is_dict C d = true ->
      exists raw, write_value d = Some raw /\
                  load_value raw = Ok (Restored d).
    Proof.
      intros Ht Hj Hd. destruct (write_value_total d Ht Hj) as (raw & Hw).
      exists raw. split; [exact Hw|]. apply written_loads_back; assumption.
    Qed.

    (* the same on the objects: the cookie value a session emits from any
       state restores the data in any other session with the same key *)
    Theorem cookie_roundtrip cfg (st st' : state) raw out (st2 : state) :
      json_roundtrips C (s_data J st) -> is_dict C (s_data J st) = true ->
      header cfg st = Ok (st', (raw, out)) ->
      load st2 (Some raw) =
        (mkstate J (s_expires J st2) (s_max_age J st2) (s_data J st)
                 (s_m J st2), LLoaded).
    Proof.
      intros (t & Hd & Ht & Hl) Hdict Hh.
      unfold Session.header, Session.write in Hh.
      destruct (write_value (s_data J st)) as [r|] eqn:Hw; [|discriminate].
      injection Hh as _ Hr _. cbn [s_m write_attrs m_value] in Hr. subst r.
      unfold Session.load.
      rewrite (written_nonempty _ t raw Hd Ht Hw).
      rewrite (decode_written _ t raw Hd Hl Hw), Hdict. reflexivity.
    Qed.
  End Laws.

  (* ---------------------------------------------------------- attributes *)
  Definition inv (cfg : config) (st : state) : Prop :=
    let m := s_m J st in
    (m_domain m = [] \/ m_domain m = c_domain cfg) /\
    (m_path m = [] \/ m_path m = c_path cfg) /\
    (m_samesite m = [] \/ m_samesite m = c_same_site cfg) /\
    (m_secure m = true -> c_secure cfg = true) /\
    (m_expires m = None \/
     (m_expires m = Some (s_expires J st) /\ s_expires J st <> 0)) /\
    (m_max_age m = None \/ m_max_age m = s_max_age J st).

  Lemma inv_init cfg d : inv cfg (init cfg d).
  Proof. unfold inv, Session.init. cbn. intuition discriminate. Qed.

  Lemma render_written cfg st raw :
    inv cfg st ->
    render (write_attrs J cfg st raw) =
    expected cfg (s_expires J st) (s_max_age J st).
  Proof.
    intros (Hdom & Hpath & Hss & Hsec & Hexp & Hma).
    unfold render, expected, write_attrs.
    cbn [m_value m_expires m_max_age m_domain m_path m_secure m_httponly
         m_samesite].
    f_equal.
    { destruct (nonempty (c_domain cfg)) eqn:E; [rewrite E; reflexivity|].
      destruct Hdom as [->| ->]; [reflexivity|rewrite E; reflexivity]. }
    f_equal.
    { destruct (negb (s_expires J st =? 0)) eqn:E; [reflexivity|].
      destruct Hexp as [->|[_ Hne]]; [reflexivity|].
      apply negb_false_iff, Z.eqb_eq in E. contradiction. }
    f_equal.
    f_equal.
    { destruct (s_max_age J st) as [a|] eqn:E; [reflexivity|].
      destruct Hma as [->| ->]; reflexivity. }
    f_equal.
    { destruct (nonempty (c_path cfg)) eqn:E; [rewrite E; reflexivity|].
      destruct Hpath as [->| ->]; [reflexivity|rewrite E; reflexivity]. }
    f_equal.
    { destruct (nonempty (c_same_site cfg)) eqn:E; [rewrite E; reflexivity|].
      destruct Hss as [->| ->]; [reflexivity|rewrite E; reflexivity]. }
    destruct (c_secure cfg) eqn:E; [reflexivity|].
    destruct (m_secure (s_m J st)); [|reflexivity].
    specialize (Hsec eq_refl). discriminate.
  Qed.

  Lemma inv_write cfg st raw :
    inv cfg st ->
    inv cfg (mkstate J (s_expires J st) (s_max_age J st) (s_data J st)
                     (write_attrs J cfg st raw)).
  Proof.
    intros (Hdom & Hpath & Hss & Hsec & Hexp & Hma).
    unfold inv, write_attrs.
    cbn [s_m s_expires s_max_age m_value m_expires m_max_age m_domain m_path
         m_secure m_httponly m_samesite].
    repeat split.
    - destruct (nonempty (c_domain cfg)); auto.
    - destruct (nonempty (c_path cfg)); auto.
    - destruct (nonempty (c_same_site cfg)); auto.
    - destruct (c_secure cfg); auto.
    - destruct (negb (s_expires J st =? 0)) eqn:E; [|exact Hexp].
      right. split; [reflexivity|].
      apply negb_true_iff, Z.eqb_neq in E. exact E.
    - destruct (s_max_age J st); auto.
  Qed.

  Lemma inv_destroy cfg st : inv cfg st -> inv cfg (destroy cfg st).
  Proof.
    intros (Hdom & Hpath & Hss & Hsec & Hexp & Hma).
    unfold inv, Session.destroy.
    cbn [s_m s_expires s_max_age m_value m_expires m_max_age m_domain m_path
         m_secure m_httponly m_samesite].
    repeat split; auto.
    - destruct (c_secure cfg); auto.
    - right. split; [reflexivity|lia].
    - destruct (s_max_age J st); auto.
  Qed.

  Lemma inv_step cfg st o : inv cfg st -> inv cfg (fst (step cfg st o)).
  Proof.
    intros H. destruct o as [| |c| |d]; unfold Session.step.
    - unfold Session.write. destruct (write_value (s_data J st)); cbn [fst];
        [apply inv_write|]; exact H.
    - cbn [fst]. apply inv_destroy, H.
    - unfold Session.load. destruct c as [raw|]; [|exact H].
      destruct (nonempty raw); [|exact H].
      destruct (decode raw); exact H.
    - unfold Session.header, Session.write.
      destruct (write_value (s_data J st)); cbn [fst];
        [apply inv_write|]; exact H.
    - exact H.
  Qed.

  Lemma run_cons cfg o h st : run cfg (o :: h) st = run cfg h (fst (step cfg st o)).
  Proof. reflexivity. Qed.

  Lemma inv_run cfg : forall h st, inv cfg st -> inv cfg (run cfg h st).
  Proof.
    induction h as [|o h IH]; intros st H; [exact H|].
    rewrite run_cons. apply IH, inv_step, H.
  Qed.

  Definition bump (ma : option Z) : option Z :=
    match ma with Some _ => Some (-1) | None => None end.

  Lemma step_params cfg st o :
    s_expires J (fst (step cfg st o)) =
      (if is_destroy J o then -1 else s_expires J st) /\
    s_max_age J (fst (step cfg st o)) =
      (if is_destroy J o then bump (s_max_age J st) else s_max_age J st).
  Proof.
    destruct o as [| |c| |d]; unfold Session.step; cbn [is_destroy].
    - unfold Session.write. destruct (write_value (s_data J st)); split; reflexivity.
    - split; reflexivity.
    - unfold Session.load. destruct c as [raw|]; [|split; reflexivity].
      destruct (nonempty raw); [|split; reflexivity].
      destruct (decode raw); split; reflexivity.
    - unfold Session.header, Session.write.
      destruct (write_value (s_data J st)); split; reflexivity.
    - split; reflexivity.
  Qed.

  Lemma run_params cfg : forall h st,
    s_expires J (run cfg h st) =
      (if existsb (is_destroy J) h then -1 else s_expires J st) /\
    s_max_age J (run cfg h st) =
      (if existsb (is_destroy J) h then bump (s_max_age J st)
       else s_max_age J st).
  Proof.
    induction h as [|o h IH]; intros st; [split; reflexivity|].
    rewrite run_cons. destruct (IH (fst (step cfg st o))) as [E1 E2].
    destruct (step_params cfg st o) as [P1 P2].
    rewrite E1, E2, P1, P2. cbn [existsb].
    destruct (is_destroy J o); cbn [orb].
    - destruct (existsb (is_destroy J) h); split; try reflexivity.
      destruct (s_max_age J st); reflexivity.
    - split; reflexivity.
  Qed.

  (* what header() emits after any history of operations *)
  Theorem header_after_history cfg d h st' raw out :
    header cfg (run cfg h (init cfg d)) = Ok (st', (raw, out)) ->
    out = expected cfg
            (if existsb (is_destroy J) h then -1 else c_expires cfg)
            (if existsb (is_destroy J) h then bump (c_max_age cfg)
             else c_max_age cfg).
  Proof.
    intros Hh. pose proof (inv_run cfg h _ (inv_init cfg d)) as Hi.
    destruct (run_params cfg h (init cfg d)) as [E1 E2].
    cbn [Session.init s_expires s_max_age] in E1, E2.
    unfold Session.header, Session.write in Hh.
    destruct (write_value (s_data J (run cfg h (init cfg d)))) as [r|];
      [|discriminate].
    injection Hh as _ _ Ho. cbn [s_m] in Ho. subst out.
    rewrite render_written by exact Hi. rewrite E1, E2. reflexivity.
  Qed.

  Lemma header_emits cfg st raw :
    write_value (s_data J st) = Some raw ->
    exists st' out, header cfg st = Ok (st', (raw, out)).
  Proof.
    intros Hw. unfold Session.header, Session.write. rewrite Hw.
    eexists. eexists. reflexivity.
  Qed.

  Lemma attr_expected cfg e ma :
    attr AHttpOnly (expected cfg e ma) = Some AFlag /\
    attr APath (expected cfg e ma) =
      (if nonempty (c_path cfg) then Some (AStr (c_path cfg)) else None) /\
    attr ADomain (expected cfg e ma) =
      (if nonempty (c_domain cfg) then Some (AStr (c_domain cfg)) else None) /\
    attr ASecure (expected cfg e ma) =
      (if c_secure cfg then Some AFlag else None) /\
    attr ASameSite (expected cfg e ma) =
      (if nonempty (c_same_site cfg) then Some (AStr (c_same_site cfg))
       else None) /\
    attr AExpires (expected cfg e ma) =
      (if e =? 0 then None else Some (AInt e)) /\
    attr AMaxAge (expected cfg e ma) =
      (match ma with Some a => Some (AInt a) | None => None end).
  Proof.
    unfold expected.
    destruct (nonempty (c_domain cfg)), (e =? 0), ma, (nonempty (c_path cfg)),
      (nonempty (c_same_site cfg)), (c_secure cfg); cbn [negb];
      repeat split; reflexivity.
  Qed.

  Theorem attributes_as_configured cfg d h st' raw out :
    existsb (is_destroy J) h = false ->
    header cfg (run cfg h (init cfg d)) = Ok (st', (raw, out)) ->
    attr AHttpOnly out = Some AFlag /\
    attr APath out =
      (if nonempty (c_path cfg) then Some (AStr (c_path cfg)) else None) /\
    attr ADomain out =
      (if nonempty (c_domain cfg) then Some (AStr (c_domain cfg)) else None) /\
    attr ASecure out = (if c_secure cfg then Some AFlag else None) /\
    attr ASameSite out =
      (if nonempty (c_same_site cfg) then Some (AStr (c_same_site cfg))
       else None) /\
    attr AExpires out =
      (if c_expires cfg =? 0 then None else Some (AInt (c_expires cfg))) /\
    attr AMaxAge out =
      (match c_max_age cfg with Some a => Some (AInt a) | None => None end).
  Proof.
    intros Hn Hh. apply header_after_history in Hh. rewrite Hn in Hh.
    subst out. apply attr_expected.
  Qed.

  Theorem destroyed_is_expired cfg d h st' raw out :
    In Destroy h ->
    header cfg (run cfg h (init cfg d)) = Ok (st', (raw, out)) ->
    attr AExpires out = Some (AInt (-1)) /\
    attr AMaxAge out =
      (match c_max_age cfg with Some _ => Some (AInt (-1)) | None => None end) /\
    attr AHttpOnly out = Some AFlag /\
    attr ASecure out = (if c_secure cfg then Some AFlag else None).
  Proof.
    intros Hin Hh.
    assert (Hd : existsb (is_destroy J) h = true).
    { apply existsb_exists. exists Destroy. split; [exact Hin|reflexivity]. }
    apply header_after_history in Hh. rewrite Hd in Hh. subst out.
    destruct (attr_expected cfg (-1) (bump (c_max_age cfg)))
      as (H1 & _ & _ & H4 & _ & H6 & H7).
    repeat split; try assumption.
    rewrite H7. destruct (c_max_age cfg); reflexivity.
  Qed.
End Proofs.

(* ------------------------------------------------------------ non-vacuity *)
(* a concrete codec meeting the laws: identity compress/base64, json = the
   text itself, every value a dictionary *)
Definition idcodec : codec (list Z) :=
  Build_codec (list Z) (fun _ => true) (fun d => Some d) (fun t => Some t)
              (fun t => Some t) (fun t => Some t) (fun t => Some t)
              (fun t => Some t).

Example idcodec_laws : codec_laws idcodec /\ codec_total idcodec /\
                       json_roundtrips idcodec [123; 125].
Proof.
  unfold codec_laws, codec_total, json_roundtrips. cbn.
  repeat split; try congruence; try discriminate.
  exists [123; 125]. repeat split; discriminate.
Qed.

Example history_example :
  let cfg := mkcfg 3600 (Some 100) [] [47] true [] in
  let K := [1; 2; 3] in
  (exists st raw,
     header K _ idcodec cfg
       (run K _ idcodec cfg [Write; Load (Some [1]); Destroy; Write]
            (init _ cfg [123; 125])) =
     Ok (st, (raw, [(AExpires, AInt (-1)); (AHttpOnly, AFlag);
                    (AMaxAge, AInt (-1)); (APath, AStr [47]);
                    (ASecure, AFlag)]))) /\
  hidden K [123; 125] = [122; 127] /\
  load_value K _ idcodec [122; 127] = Ok (Restored [123; 125]).
Proof. cbv zeta. split; [eexists; eexists|split]; vm_compute; reflexivity. Qed.

Example foreign_example :
  hidden [1; 2; 3] [10; 20; 30; 40] <> hidden [1; 9; 3] [10; 20; 30; 40].
Proof.
  apply (foreign_key_bytes_differ _ _ _ 1); [cbn; lia|].
  vm_compute. discriminate.
Qed.
