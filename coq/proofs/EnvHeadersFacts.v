(* Facts about model/EnvHeaders.v: the CGI name of a header maps back to the
   canonical header name, the header table keeps the order and the values of
   the environment, the body headers are the CGI variables, and the content
   length is the decimal number sent (or -1). *)
From Coq Require Import ZArith List Bool String Ascii Lia.
Require Import PW.lib.Val PW.lib.ValFacts PW.lib.Dec PW.model.HeaderCodec
               PW.model.EnvHeaders.
Import ListNotations.
Open Scope Z_scope.

(* ------------------------------------------------------------ characters *)
Lemma upper_upper c : upper_c (upper_c c) = upper_c c.
Proof.
  unfold upper_c.
  destruct ((97 <=? c) && (c <=? 122)) eqn:E; [|rewrite E; reflexivity].
  replace ((97 <=? c - 32) && (c - 32 <=? 122)) with false; [reflexivity|].
  symmetry. apply andb_false_iff. apply andb_true_iff in E as [E1 E2].
  left. apply Z.leb_gt. apply Z.leb_le in E2. lia.
Qed.

Lemma lower_upper c : lower_a (upper_c c) = lower_a c.
Proof.
  unfold lower_a, upper_c.
  destruct ((97 <=? c) && (c <=? 122)) eqn:E.
  - apply andb_true_iff in E as [E1 E2].
    apply Z.leb_le in E1. apply Z.leb_le in E2.
    replace ((65 <=? c - 32) && (c - 32 <=? 90)) with true.
    2:{ symmetry. apply andb_true_iff. split; apply Z.leb_le; lia. }
    replace ((65 <=? c) && (c <=? 90)) with false.
    2:{ symmetry. apply andb_false_iff. right. apply Z.leb_gt. lia. }
    lia.
  - reflexivity.
Qed.

Lemma upper_not_underscore c : c <> 95 -> upper_c c <> 95.
Proof.
  unfold upper_c. intros H.
  destruct ((97 <=? c) && (c <=? 122)) eqn:E; [|exact H].
  apply andb_true_iff in E as [E1 E2].
  apply Z.leb_le in E1. apply Z.leb_le in E2. lia.
Qed.

Lemma capitalize_upper w : capitalize (map upper_c w) = capitalize w.
Proof.
  destruct w as [|c r]; [reflexivity|].
  unfold capitalize. cbn [map]. rewrite upper_upper. f_equal.
  rewrite map_map. apply map_ext. intros a. apply lower_upper.
Qed.

(* ------------------------------------------------------------ split/join *)
Lemma split_acc_app d w : forall cur rest,
  ~ In d w -> split_acc d cur (w ++ rest) = split_acc d (rev w ++ cur) rest.
Proof.
  induction w as [|c w IH]; intros cur rest H; [reflexivity|].
  cbn [app split_acc].
  destruct (c =? d) eqn:E.
  - apply Z.eqb_eq in E. exfalso. apply H. left. exact E.
  - rewrite IH by (intros X; apply H; right; exact X).
    cbn [rev]. rewrite <- app_assoc. reflexivity.
Qed.

Lemma split_acc_word d w cur :
  ~ In d w -> split_acc d cur w = [rev cur ++ w].
Proof.
  intros H. rewrite <- (app_nil_r w) at 1. rewrite split_acc_app by exact H.
  cbn [split_acc]. rewrite rev_app_distr, rev_involutive. reflexivity.
Qed.

Lemma split_join d ws :
  ws <> [] -> (forall w, In w ws -> ~ In d w) -> split d (join [d] ws) = ws.
Proof.
  unfold split.
  induction ws as [|w ws IH]; intros Hne H; [contradiction|].
  destruct ws as [|w2 ws].
  - cbn [join]. rewrite split_acc_word by (apply H; left; reflexivity).
    reflexivity.
  - change (join [d] (w :: w2 :: ws)) with (w ++ d :: join [d] (w2 :: ws)).
    rewrite split_acc_app by (apply H; left; reflexivity).
    cbn [split_acc]. rewrite Z.eqb_refl.
    rewrite app_nil_r, rev_involutive. f_equal.
    apply IH; [discriminate|]. intros x Hx. apply H. right. exact Hx.
Qed.

(* -------------------------------------------------- CGI name round trip *)
(* the CGI variable of a header whose name is the words [ws] joined by '-' *)
Definition cgi_key (ws : list str) : str :=
  k_http ++ join [95] (map (map upper_c) ws).

Theorem cgi_name_roundtrip ws :
  ws <> [] -> (forall w, In w ws -> ~ In 95 w) ->
  header_of_key (cgi_key ws) = Some (join [45] (map capitalize ws)).
Proof.
  intros Hne H. unfold header_of_key, cgi_key.
  change (firstn 5 (k_http ++ ?x)) with k_http.
  change (lz_eqb k_http k_http) with true. cbv iota.
  change (skipn 5 (k_http ++ ?x)) with x.
  unfold cgi_name. rewrite split_join.
  - rewrite map_map. f_equal. f_equal. apply map_ext.
    intros w. apply capitalize_upper.
  - destruct ws; [contradiction|discriminate].
  - intros w Hw. apply in_map_iff in Hw as [w0 [<- Hw0]].
    intros Hin. apply in_map_iff in Hin as [c [Hc Hin]].
    apply (upper_not_underscore c); [|exact Hc].
    intros ->. apply (H w0 Hw0). exact Hin.
Qed.

(* ------------------------------------------- order and values are kept *)
Definition is_header_key (kv : str * str) : bool :=
  match header_of_key (fst kv) with Some _ => true | None => false end.

Theorem env_headers_values e :
  map snd (env_headers e) = map snd (filter is_header_key e).
Proof.
  induction e as [|[k v] e IH]; [reflexivity|].
  cbn [env_headers flat_map filter]. unfold is_header_key at 1. cbn [fst snd].
  destruct (header_of_key k); cbn [app map snd]; fold (env_headers e);
    rewrite IH; reflexivity.
Qed.

Theorem env_headers_names e :
  map (fun kv => Some (fst kv)) (env_headers e) =
  map (fun kv => header_of_key (fst kv)) (filter is_header_key e).
Proof.
  induction e as [|[k v] e IH]; [reflexivity|].
  cbn [env_headers flat_map filter]. unfold is_header_key at 1. cbn [fst snd].
  destruct (header_of_key k) eqn:E; cbn [app map fst]; fold (env_headers e);
    rewrite IH; [rewrite E|]; reflexivity.
Qed.

(* ---------------------------------- the body headers are the CGI variables *)
(* no *other* environment key stands for the header [h] (what a WSGI server
   guarantees for Content-Type / Content-Length: a client header
   "Content_Type" would arrive as HTTP_CONTENT_TYPE) *)
Definition only_key_for (h k0 : str) (e : env) : Prop :=
  forall k v h', In (k, v) e -> header_of_key k = Some h' ->
                 lz_eqb (lower_s h') (lower_s h) = true -> k = k0.

Lemma hget_from_cgi h k0 e :
  header_of_key k0 = Some h -> only_key_for h k0 e ->
  hget (env_headers e) h = assoc k0 e.
Proof.
  intros Hk. induction e as [|[k v] e IH]; intros Ho; [reflexivity|].
  cbn [env_headers flat_map fst snd]. fold (env_headers e).
  assert (Ho' : only_key_for h k0 e).
  { intros k1 v1 h1 Hin. apply (Ho k1 v1 h1). right. exact Hin. }
  cbn [assoc].
  destruct (header_of_key k) as [h'|] eqn:E.
  - cbn [app hget].
    destruct (lz_eqb (lower_s h') (lower_s h)) eqn:El.
    + assert (k = k0) as -> by (apply (Ho k v h'); [left; reflexivity|exact E|exact El]).
      rewrite lz_eqb_refl. reflexivity.
    + destruct (lz_eqb k k0) eqn:Ek.
      * apply lz_eqb_eq in Ek. subst k. rewrite Hk in E. injection E as <-.
        rewrite lz_eqb_refl in El. discriminate.
      * apply IH. exact Ho'.
  - cbn [app]. destruct (lz_eqb k k0) eqn:Ek.
    + apply lz_eqb_eq in Ek. subst k. rewrite Hk in E. discriminate.
    + apply IH. exact Ho'.
Qed.

Theorem content_type_from_cgi e :
  only_key_for h_ctype k_ctype e ->
  hget (env_headers e) h_ctype = assoc k_ctype e.
Proof. apply hget_from_cgi. vm_compute. reflexivity. Qed.

Theorem content_length_from_cgi e :
  only_key_for h_clen k_clen e ->
  hget (env_headers e) h_clen = assoc k_clen e.
Proof. apply hget_from_cgi. vm_compute. reflexivity. Qed.

(* the hypothesis is needed: a variable HTTP_CONTENT_TYPE earlier in the
   environment takes the place of CONTENT_TYPE *)
Definition shadow_env : env :=
  [ (k_path_info, [47]); (k_http ++ k_ctype, [97]); (k_ctype, [98]) ].
Theorem content_type_shadowing_witness :
  hget (env_headers shadow_env) h_ctype = Some [97] /\
  assoc k_ctype shadow_env = Some [98].
Proof. split; vm_compute; reflexivity. Qed.

(* --------------------------------------------------------- content length *)
Lemma int_digits_all ds : forall p acc,
  forallb is_dig ds = true -> (ds <> [] \/ p = true) ->
  int_digits ds p acc = Some (fold_left (fun a d => 10 * a + (d - 48)) ds acc).
Proof.
  induction ds as [|c r IH]; intros p acc Hd Hne.
  - destruct Hne as [Hne| ->]; [contradiction|reflexivity].
  - cbn [forallb] in Hd. apply andb_true_iff in Hd as [Hc Hr].
    cbn [int_digits fold_left]. rewrite Hc. apply IH; [exact Hr|right; reflexivity].
Qed.

Lemma is_dig_is_digit c : is_dig c = Dec.is_digit c.
Proof. reflexivity. Qed.

Lemma dig_not_ws c : is_dig c = true -> is_ws c = false.
Proof.
  unfold is_dig, is_ws. intros H. apply andb_true_iff in H as [H1 H2].
  apply Z.leb_le in H1. apply Z.leb_le in H2.
  apply orb_false_iff. split.
  - apply Z.eqb_neq. lia.
  - apply andb_false_iff. right. apply Z.leb_gt. lia.
Qed.

Lemma lstrip_digits ds : forallb is_dig ds = true -> lstrip ds = ds.
Proof.
  destruct ds as [|c r]; [reflexivity|]. cbn [forallb lstrip]. intros H.
  apply andb_true_iff in H as [Hc _]. rewrite (dig_not_ws c Hc). reflexivity.
Qed.

Lemma forallb_rev {A} (f : A -> bool) l : forallb f (rev l) = forallb f l.
Proof.
  induction l as [|x l IH]; [reflexivity|].
  cbn [rev forallb]. rewrite forallb_app, IH. cbn [forallb].
  rewrite andb_true_r. apply andb_comm.
Qed.

Lemma strip_digits ds : forallb is_dig ds = true -> strip ds = ds.
Proof.
  intros H. unfold strip. rewrite (lstrip_digits ds H).
  rewrite lstrip_digits by (rewrite forallb_rev; exact H).
  apply rev_involutive.
Qed.

Lemma py_int_digits ds :
  forallb is_dig ds = true -> ds <> [] -> py_int ds = Some (Dec.val ds).
Proof.
  intros H Hne. unfold py_int. rewrite (strip_digits ds H).
  destruct ds as [|c r]; [contradiction|].
  assert (Hc : is_dig c = true).
  { cbn [forallb] in H. apply andb_true_iff in H as [Hc _]. exact Hc. }
  assert (c <> 45 /\ c <> 43) as [N1 N2].
  { unfold is_dig in Hc. apply andb_true_iff in Hc as [H1 H2].
    apply Z.leb_le in H1. split; lia. }
  assert (E : int_digits (c :: r) false 0 = Some (Dec.val (c :: r))).
  { apply int_digits_all; [exact H|left; discriminate]. }
  destruct c as [|p|p]; try exact E.
  destruct p as [p|p|]; try exact E;
  destruct p as [p|p|]; try exact E;
  destruct p as [p|p|]; try exact E;
  destruct p as [p|p|]; try exact E;
  destruct p as [p|p|]; try exact E;
  destruct p as [p|p|]; try exact E; exfalso; lia.
Qed.

Theorem content_length_absent : int_or None (-1) = Ok (-1).
Proof. reflexivity. Qed.
Theorem content_length_empty : int_or (Some []) (-1) = Ok (-1).
Proof. reflexivity. Qed.

Theorem content_length_decimal n :
  0 <= n -> int_or (Some (Dec.dec n)) (-1) = Ok n.
Proof.
  intros Hn. destruct (Dec.dec_digits n Hn) as [Hd Hne].
  unfold int_or. destruct (Dec.dec n) as [|c r] eqn:E; [contradiction|].
  rewrite py_int_digits; [|exact Hd|discriminate].
  rewrite <- E. rewrite Dec.val_dec by exact Hn. reflexivity.
Qed.

(* the whole head on a well-behaved environment: the facts come from the two
   CGI variables *)
Theorem request_head_from_cgi e p :
  assoc k_path_info e = Some p ->
  only_key_for h_ctype k_ctype e -> only_key_for h_clen k_clen e ->
  request_head e =
    bind (parse_header (or_empty (assoc k_ctype e))) (fun cp =>
    bind (int_or (assoc k_clen e) (-1)) (fun n =>
    Ok (mkfacts (env_headers e) (fst cp) (dgetd (snd cp) s_charset s_utf8) n))).
Proof.
  intros Hp H1 H2. unfold request_head. rewrite Hp. cbv zeta.
  rewrite (content_type_from_cgi e H1), (content_length_from_cgi e H2).
  reflexivity.
Qed.

Theorem request_head_needs_path_info e :
  assoc k_path_info e = None -> request_head e = Raised "ConnectionError".
Proof. intros H. unfold request_head. rewrite H. reflexivity. Qed.

(* non-vacuity: a concrete environment meets the hypotheses *)
Definition sample_env : env :=
  [ (k_path_info, [47]);
    (k_ctype, s2l "text/plain; charset=latin2");
    (k_http ++ s2l "X_REQUESTED_WITH", [120]);
    (s2l "wsgi.version", []);
    (k_clen, s2l "12") ].
Example sample_env_ok :
  run_request_head sample_env =
  VL [ VL [ VL [VS h_ctype; VS (s2l "text/plain; charset=latin2")];
            VL [VS (s2l "X-Requested-With"); VS [120]];
            VL [VS h_clen; VS (s2l "12")] ];
       VS (s2l "text/plain"); VS (s2l "latin2"); VZ 12 ].
Proof. vm_compute. reflexivity. Qed.
