(* Proofs about model/Routing.v (C02). *)
From Coq Require Import ZArith List Bool Lia String.
Require Import PW.lib.Val PW.lib.ValFacts PW.model.Regex PW.proofs.RegexProofs
        PW.model.Routing.
Import ListNotations.
Open Scope string_scope.
Open Scope list_scope.
Open Scope Z_scope.

(* ================================================================ selection *)
Section Sel.
  Variable U : uclass.

  Lemma zmem_get {A} m (t : list (Z * A)) :
    zmem m t = true <-> exists e, zget m t = Some e.
  Proof.
    unfold zmem. destruct (zget m t) as [e|].
    - split; eauto.
    - split; [discriminate|intros [e H]; discriminate].
  Qed.

  Lemma eligible_iff m path p :
    eligible U m path p = true <->
    re_match U (p_re p) path <> None /\ zget m (p_tab p) <> None.
  Proof.
    unfold eligible. rewrite andb_true_iff, re_match_agrees. unfold zmem.
    destruct (zget m (p_tab p)); split; intros [H1 H2]; split; auto;
      try discriminate; try congruence.
  Qed.

  (* the loop of handler_from_table finds the first eligible pattern *)
  Lemma select_pat_find m path ps :
    select_pat U m path ps =
    match find (eligible U m path) ps with
    | Some p =>
        match re_match U (p_re p) path, zget m (p_tab p) with
        | Some (c, _), Some e => Some (run_entry U p e c)
        | _, _ => Some S404
        end
    | None => None
    end.
  Proof.
    induction ps as [|p ps IH]; cbn [select_pat find]; [reflexivity|].
    destruct (eligible U m path p) eqn:E.
    - apply eligible_iff in E as [E1 E2].
      destruct (re_match U (p_re p) path) as [[c rest]|]; [|congruence].
      destruct (zget m (p_tab p)); [reflexivity|congruence].
    - rewrite <- IH.
      destruct (re_match U (p_re p) path) as [[c rest]|] eqn:E1; [|reflexivity].
      destruct (zget m (p_tab p)) eqn:E2; [|reflexivity].
      exfalso. assert (eligible U m path p = true); [|congruence].
      apply eligible_iff. rewrite E1, E2. split; discriminate.
  Qed.

  Theorem select_precedence a debug root fs method raw :
    select U a debug root fs method raw =
    select_spec U a debug root fs method raw.
  Proof.
    unfold select, select_spec.
    destruct (lget (req_path raw) (a_static a)); [reflexivity|].
    rewrite select_pat_find.
    destruct (find _ (a_pats a)) as [p|] eqn:Ef.
    - apply find_some in Ef as [_ Ef]. apply eligible_iff in Ef as [E1 E2].
      destruct (re_match U (p_re p) (req_path raw)) as [[c rest]|]; [|congruence].
      destruct (zget (method_number method) (p_tab p)); [reflexivity|congruence].
    - unfold fallback, debug_or_default, from_default.
      destruct (root && has_bit (method_number method) 3); [destruct fs|];
        reflexivity.
  Qed.

  (* ---------------------------------------------------------- corollaries *)
  Theorem static_beats_pattern a debug root fs method raw mt :
    lget (req_path raw) (a_static a) = Some mt ->
    select U a debug root fs method raw =
    match zget (method_number method) mt with
    | Some h => SHandler h [] [] (req_path raw)
    | None => S405
    end.
  Proof. intros H. unfold select. rewrite H. reflexivity. Qed.

  Theorem method_mismatch_falls_through m path p rest :
    zget m (p_tab p) = None ->
    select_pat U m path (p :: rest) = select_pat U m path rest.
  Proof.
    intros H. cbn [select_pat]. rewrite H.
    destruct (re_match U (p_re p) path) as [[c r]|]; reflexivity.
  Qed.

  Lemma select_pat_skip m path l1 l2 :
    (forall q, In q l1 ->
               ~ (MatchesPrefix U (p_re q) path /\ zmem m (p_tab q) = true)) ->
    select_pat U m path (l1 ++ l2) = select_pat U m path l2.
  Proof.
    induction l1 as [|q l1 IH]; intros H; [reflexivity|].
    cbn [List.app select_pat].
    assert (Hq := H q (or_introl eq_refl)).
    assert (IH' : select_pat U m path (l1 ++ l2) = select_pat U m path l2).
    { apply IH. intros q' Hin. apply H. right. assumption. }
    destruct (re_match U (p_re q) path) as [[c r]|] eqn:E; [|assumption].
    destruct (zget m (p_tab q)) eqn:E2; [|assumption].
    exfalso. apply Hq. split.
    - apply re_match_some_iff. congruence.
    - unfold zmem. rewrite E2. reflexivity.
  Qed.

  (* the first pattern, in registration order, that matches the path and is
     registered for the method is the one that runs, with the captures of
     CPython's first parse *)
  Theorem first_pattern_wins a debug root fs method raw l1 p l2 e :
    let m := method_number method in
    let path := req_path raw in
    lget path (a_static a) = None ->
    a_pats a = l1 ++ p :: l2 ->
    (forall q, In q l1 ->
               ~ (MatchesPrefix U (p_re q) path /\ zmem m (p_tab q) = true)) ->
    MatchesPrefix U (p_re p) path ->
    zget m (p_tab p) = Some e ->
    exists c rest,
      re_match U (p_re p) path = Some (c, rest) /\
      select U a debug root fs method raw = run_entry U p e c.
  Proof.
    intros m path Hs Hp Hskip Hm He.
    apply re_match_some_iff in Hm.
    destruct (re_match U (p_re p) path) as [[c rest]|] eqn:E; [|congruence].
    exists c, rest. split; [reflexivity|].
    unfold select. fold m path. rewrite Hs, Hp, select_pat_skip by assumption.
    cbn [select_pat]. rewrite E, He. reflexivity.
  Qed.

  (* no pattern eligible: the fallback chain *)
  Theorem no_route_fallback a debug root fs method raw :
    let m := method_number method in
    let path := req_path raw in
    lget path (a_static a) = None ->
    (forall q, In q (a_pats a) ->
               ~ (MatchesPrefix U (p_re q) path /\ zmem m (p_tab q) = true)) ->
    select U a debug root fs method raw = fallback a debug root fs m path.
  Proof.
    intros m path Hs Hn. rewrite select_precedence. unfold select_spec.
    fold m path. rewrite Hs.
    destruct (find (eligible U m path) (a_pats a)) as [p|] eqn:Ef; [|reflexivity].
    apply find_some in Ef as [Hin Ef]. exfalso. apply (Hn p Hin).
    unfold eligible in Ef. apply andb_true_iff in Ef as [E1 E2].
    split; [apply accepts_prefix_correct|]; assumption.
  Qed.

  Theorem unknown_method_is_get a debug root fs tok raw :
    lget tok method_table = None ->
    select U a debug root fs tok raw = select U a debug root fs (s2l "GET") raw.
  Proof.
    intros H. unfold select.
    replace (method_number tok) with (method_number (s2l "GET"));
      [reflexivity|].
    unfold method_number. rewrite H. reflexivity.
  Qed.
End Sel.

(* ------------------------------------------------------------ registration *)
Lemma zget_zset {A} b k (x : A) d :
  zget b (zset k x d) = if b =? k then Some x else zget b d.
Proof.
  induction d as [|[k' v'] d IH]; cbn [zset zget].
  - destruct (b =? k); reflexivity.
  - destruct (k =? k') eqn:E; cbn [zget].
    + apply Z.eqb_eq in E. subst k'. destruct (b =? k); reflexivity.
    + destruct (b =? k') eqn:E2.
      * apply Z.eqb_eq in E2. subst k'.
        replace (b =? k) with false; [reflexivity|].
        symmetry. rewrite Z.eqb_sym. assumption.
      * apply IH.
Qed.

(* the fan-out over method bits *)
Lemma zget_fan {A} b mask (x : A) ms : forall d,
  zget b (fan mask x ms d) =
  if existsb (Z.eqb b) ms && has_bit mask b then Some x else zget b d.
Proof.
  induction ms as [|k ms IH]; intros d; cbn [fan existsb]; [reflexivity|].
  rewrite IH. destruct (existsb (Z.eqb b) ms && has_bit mask b) eqn:E.
  - apply andb_true_iff in E as [E1 E2]. rewrite E1, orb_true_r, E2.
    reflexivity.
  - destruct (b =? k) eqn:Ek.
    + apply Z.eqb_eq in Ek. subst k. cbn [orb andb].
      destruct (has_bit mask b) eqn:Hb.
      * rewrite zget_zset, Z.eqb_refl. reflexivity.
      * reflexivity.
    + cbn [orb]. rewrite E.
      destruct (has_bit mask k); [|reflexivity].
      rewrite zget_zset, Ek. reflexivity.
Qed.

Lemma pat_update_texts text mask e ps :
  map p_text (pat_update text mask e ps) = map p_text ps.
Proof.
  induction ps as [|p ps IH]; cbn [pat_update map]; [reflexivity|].
  destruct (lz_eqb text (p_text p)); cbn [map p_text]; [reflexivity|].
  rewrite IH. reflexivity.
Qed.

(* registering a pattern again (for more methods) keeps its place; a new
   pattern goes to the end; nobody else moves *)
Theorem reregistration_keeps_position a text f mask cvs rule a' :
  set_regular a text f mask cvs rule = Ok a' ->
  map p_text (a_pats a') =
  if pat_mem text (a_pats a) then map p_text (a_pats a)
  else map p_text (a_pats a) ++ [text].
Proof.
  unfold set_regular. destruct (parse_regex text) as [[r n]|]; [|discriminate].
  intros H. injection H as <-. cbn [a_pats]. rewrite pat_update_texts.
  destruct (pat_mem text (a_pats a)); [reflexivity|].
  rewrite map_app. reflexivity.
Qed.

(* ... and the method table found under a key changes only for the key
   named, and there only at the bits of the mask *)
Fixpoint pat_get (t : list Z) (ps : list pat) : option pat :=
  match ps with
  | [] => None
  | p :: r => if lz_eqb t (p_text p) then Some p else pat_get t r
  end.

Lemma pat_get_update text mask e t ps :
  pat_get t (pat_update text mask e ps) =
  match pat_get t ps with
  | Some p =>
      Some (if lz_eqb text t
            then mkPat (p_text p) (p_re p) (p_n p) (fan mask e meths (p_tab p))
            else p)
  | None => None
  end.
Proof.
  induction ps as [|p ps IH]; cbn [pat_update pat_get]; [reflexivity|].
  destruct (lz_eqb text (p_text p)) eqn:E; cbn [pat_get p_text].
  - apply lz_eqb_eq in E. destruct (lz_eqb t (p_text p)) eqn:E2.
    + apply lz_eqb_eq in E2. rewrite E, E2, lz_eqb_refl. reflexivity.
    + destruct (pat_get t ps); [|reflexivity].
      replace (lz_eqb text t) with false; [reflexivity|].
      symmetry. apply lz_eqb_neq. apply lz_eqb_neq in E2. congruence.
  - destruct (lz_eqb t (p_text p)) eqn:E2; [|apply IH].
    apply lz_eqb_eq in E2. subst t. rewrite E. reflexivity.
Qed.

Lemma pat_get_snoc t ps p :
  pat_get t (ps ++ [p]) =
  match pat_get t ps with
  | Some q => Some q
  | None => if lz_eqb t (p_text p) then Some p else None
  end.
Proof.
  induction ps as [|q ps IH]; cbn [List.app pat_get]; [reflexivity|].
  destruct (lz_eqb t (p_text q)); [reflexivity|apply IH].
Qed.

Lemma pat_mem_get t ps : pat_mem t ps = true <-> pat_get t ps <> None.
Proof.
  induction ps as [|p ps IH]; cbn [pat_mem pat_get].
  - split; [discriminate|congruence].
  - destruct (lz_eqb t (p_text p)); cbn [orb]; [|assumption].
    split; [discriminate|reflexivity].
Qed.

(* after set_regular_route(text, f, mask): the handler registered under
   (key, method bit) *)
Definition handler_at (a : app) (key : list Z) (b : Z) : option Z :=
  match pat_get key (a_pats a) with
  | Some p => match zget b (p_tab p) with
              | Some e => Some (pe_fun e)
              | None => None
              end
  | None => None
  end.

Theorem set_regular_exact a text f mask cvs rule a' :
  set_regular a text f mask cvs rule = Ok a' ->
  forall key b,
    handler_at a' key b =
    if lz_eqb text key && existsb (Z.eqb b) meths && has_bit mask b
    then Some f else handler_at a key b.
Proof.
  unfold set_regular. destruct (parse_regex text) as [[r n]|]; [|discriminate].
  intros H key b. injection H as <-. unfold handler_at. cbn [a_pats].
  rewrite pat_get_update.
  destruct (pat_mem text (a_pats a)) eqn:M.
  - destruct (pat_get key (a_pats a)) as [p|] eqn:G.
    + destruct (lz_eqb text key); cbn [andb p_tab]; [|reflexivity].
      rewrite zget_fan.
      destruct (existsb (Z.eqb b) meths && has_bit mask b); reflexivity.
    + destruct (lz_eqb text key) eqn:E; [|reflexivity].
      apply lz_eqb_eq in E. subst key. apply pat_mem_get in M. congruence.
  - rewrite pat_get_snoc. cbn [p_text].
    destruct (pat_get key (a_pats a)) as [p|] eqn:G.
    + replace (lz_eqb text key) with false; [reflexivity|].
      symmetry. apply lz_eqb_neq. intros ->.
      assert (pat_mem key (a_pats a) = true); [|congruence].
      apply pat_mem_get. congruence.
    + destruct (lz_eqb key text) eqn:E.
      * apply lz_eqb_eq in E. subst key. rewrite lz_eqb_refl.
        cbn [andb p_tab]. rewrite zget_fan. cbn [zget].
        destruct (existsb (Z.eqb b) meths && has_bit mask b); reflexivity.
      * replace (lz_eqb text key) with false; [reflexivity|].
        symmetry. apply lz_eqb_neq. apply lz_eqb_neq in E. congruence.
Qed.

(* uniqueness of keys is an invariant of the table *)
Fixpoint texts_unique (ps : list pat) : bool :=
  match ps with
  | [] => true
  | p :: r => negb (pat_mem (p_text p) r) && texts_unique r
  end.

Lemma pat_mem_update text mask e t ps :
  pat_mem t (pat_update text mask e ps) = pat_mem t ps.
Proof.
  induction ps as [|p ps IH]; cbn [pat_update pat_mem]; [reflexivity|].
  destruct (lz_eqb text (p_text p)); cbn [pat_mem p_text]; [reflexivity|].
  rewrite IH. reflexivity.
Qed.

Lemma pat_mem_app t l1 l2 : pat_mem t (l1 ++ l2) = pat_mem t l1 || pat_mem t l2.
Proof.
  induction l1 as [|p l1 IH]; cbn [List.app pat_mem]; [reflexivity|].
  rewrite IH, orb_assoc. reflexivity.
Qed.

Lemma texts_unique_update text mask e ps :
  texts_unique (pat_update text mask e ps) = texts_unique ps.
Proof.
  induction ps as [|p ps IH]; cbn [pat_update texts_unique]; [reflexivity|].
  destruct (lz_eqb text (p_text p)); cbn [texts_unique p_text].
  - reflexivity.
  - rewrite pat_mem_update, IH. reflexivity.
Qed.

Lemma texts_unique_snoc ps p :
  texts_unique ps = true -> pat_mem (p_text p) ps = false ->
  texts_unique (ps ++ [p]) = true.
Proof.
  induction ps as [|q ps IH]; intros Hu Hm; cbn [List.app texts_unique pat_mem] in *.
  - reflexivity.
  - apply andb_true_iff in Hu as [H1 H2]. apply orb_false_iff in Hm as [M1 M2].
    rewrite pat_mem_app. cbn [pat_mem]. rewrite orb_false_r.
    apply andb_true_iff. split; [|apply IH; assumption].
    apply negb_true_iff. apply orb_false_iff. split.
    + apply negb_true_iff in H1. assumption.
    + apply lz_eqb_neq. apply lz_eqb_neq in M1. congruence.
Qed.

Theorem set_regular_unique a text f mask cvs rule a' :
  texts_unique (a_pats a) = true ->
  set_regular a text f mask cvs rule = Ok a' ->
  texts_unique (a_pats a') = true.
Proof.
  unfold set_regular. destruct (parse_regex text) as [[r n]|]; [|discriminate].
  intros Hu H. injection H as <-. cbn [a_pats]. rewrite texts_unique_update.
  destruct (pat_mem text (a_pats a)) eqn:E; [assumption|].
  apply texts_unique_snoc; assumption.
Qed.

(* ======================================================= route compilation *)
Lemma span_app_stop (p : Z -> bool) l rest :
  forallb p l = true ->
  match rest with [] => True | c :: _ => p c = false end ->
  span p (l ++ rest) = (l, rest).
Proof.
  intros Hl Hr. induction l as [|x l IH]; cbn [List.app span].
  - destruct rest as [|c r]; [reflexivity|]. cbn [span]. rewrite Hr. reflexivity.
  - cbn [forallb] in Hl. apply andb_true_iff in Hl as [H1 H2].
    rewrite H1, (IH H2). reflexivity.
Qed.

Lemma compile_parts_lits F l ps t :
  compile_parts F (map PLit l ++ ps) = Ok t ->
  exists t', compile_parts F ps = Ok t' /\ t = l ++ t'.
Proof.
  revert t. induction l as [|c l IH]; intros t H; cbn [map List.app] in H.
  - exists t. auto.
  - cbn [compile_parts] in H.
    destruct (compile_parts F (map PLit l ++ ps)) as [u|] eqn:E; [|discriminate].
    injection H as <-. destruct (IH u eq_refl) as (t' & H1 & ->).
    exists t'. auto.
Qed.

Section Verbatim.
  Variable U : uclass.

  Lemma scan_lits f l t :
    forallb (fun c => negb (c =? 60)) l = true -> (List.length l <= f)%nat ->
    scan U f (l ++ t) = map PLit l ++ scan U (f - List.length l) t.
  Proof.
    revert f. induction l as [|c l IH]; intros f Hl Hf.
    - cbn [List.app map List.length]. rewrite Nat.sub_0_r. reflexivity.
    - cbn [forallb] in Hl. apply andb_true_iff in Hl as [H1 H2].
      destruct f as [|f]; [cbn in Hf; lia|].
      cbn [List.app scan map List.length]. apply negb_true_iff in H1.
      rewrite H1. cbn [Nat.sub]. f_equal. apply IH; [assumption|].
      cbn [List.length] in Hf. lia.
  Qed.

  Lemma try_group_re nm E l2 :
    nm <> [] -> forallb (is_word U) nm = true ->
    E <> [] -> forallb not_gt E = true ->
    try_group U (nm ++ 58 :: 114 :: 101 :: 58 :: E ++ 62 :: l2) =
    Some (nm, Some (58 :: 114 :: 101 :: 58 :: E), l2).
  Proof.
    intros Hn Hw He Hg. unfold try_group.
    rewrite (span_app_stop (is_word U) nm); [|assumption|reflexivity].
    destruct nm as [|x nm]; [congruence|].
    replace (58 =? 62) with false by reflexivity.
    replace (58 =? 58) with true by reflexivity.
    change (114 :: 101 :: 58 :: E ++ 62 :: l2)
      with (([114; 101; 58] ++ E) ++ 62 :: l2).
    rewrite (span_app_stop not_gt ([114; 101; 58] ++ E));
      [reflexivity| |reflexivity].
    rewrite forallb_app, Hg. reflexivity.
  Qed.

  (* an inline expression reaches re.compile exactly as written (case
     preserved), between "(?P<name>" and ")" *)
  Theorem inline_re_verbatim F l1 nm E l2 t :
    forallb (fun c => negb (c =? 60)) l1 = true ->
    nm <> [] -> forallb (is_word U) nm = true ->
    E <> [] -> forallb not_gt E = true ->
    lget (str_lower (s2l ":re:" ++ E)) F = None ->
    compile_text U F (l1 ++ [60] ++ nm ++ s2l ":re:" ++ E ++ [62] ++ l2) = Ok t ->
    exists t2, t = l1 ++ s2l "(?P<" ++ nm ++ [62] ++ E ++ [41] ++ t2.
  Proof.
    intros Hl Hn Hw He Hg Hf H. unfold compile_text, scan_uri in H.
    change (s2l ":re:") with [58; 114; 101; 58] in *.
    rewrite scan_lits in H; [|assumption|rewrite app_length; lia].
    apply compile_parts_lits in H as (t' & H & ->).
    remember (List.length (l1 ++ _) - List.length l1)%nat as f eqn:Ef.
    destruct f as [|f].
    { rewrite !app_length in Ef. cbn [List.length] in Ef. lia. }
    cbn [List.app scan] in H. replace (60 =? 60) with true in H by reflexivity.
    rewrite try_group_re in H by assumption.
    cbn [compile_parts] in H.
    assert (R : regex_of F (Some (58 :: 114 :: 101 :: 58 :: E)) = Ok E).
    { cbn [List.app] in Hf. unfold regex_of, filter_key. rewrite Hf. reflexivity. }
    rewrite R in H.
    destruct (compile_parts F (scan U f l2)) as [t2|]; [|discriminate].
    injection H as <-. exists t2. reflexivity.
  Qed.

  (* with the built-in table every non-empty inline expression is verbatim *)
  Lemma builtin_no_re_key E :
    E <> [] -> lget (str_lower (s2l ":re:" ++ E)) init_filters = None.
  Proof.
    destruct E as [|e E]; [congruence|]. intros _. vm_compute. reflexivity.
  Qed.
End Verbatim.

(* ------------------------------------------------- numbering is irrelevant *)
Fixpoint shape (r : re) : re :=
  match r with
  | Seq a b => Seq (shape a) (shape b)
  | Alt a b => Alt (shape a) (shape b)
  | Star a => Star (shape a)
  | Group _ _ a => Group 0 None (shape a)
  | x => x
  end.

Lemma matches_shape U r s rest :
  Matches U r s rest -> forall r', shape r = shape r' -> Matches U r' s rest.
Proof.
  induction 1; intros r' E; destruct r'; cbn [shape] in E; try discriminate.
  - constructor.
  - injection E as <- <-. constructor. assumption.
  - injection E as E1 E2. constructor; auto.
  - injection E as E1 E2. apply MAltL. auto.
  - injection E as E1 E2. apply MAltR. auto.
  - constructor.
  - injection E as E1. constructor; [auto|]. apply IHMatches2.
    cbn [shape]. f_equal. assumption.
  - injection E as E1. constructor. auto.
  - constructor.
  - constructor.
  - constructor.
Qed.

Lemma shape_Times k x y : shape x = shape y -> shape (Times k x) = shape (Times k y).
Proof. intros E. induction k; cbn [Times shape]; congruence. Qed.
Lemma shape_UpTo k x y : shape x = shape y -> shape (UpTo k x) = shape (UpTo k y).
Proof. intros E. induction k; cbn [UpTo shape]; congruence. Qed.

Lemma shape_lower a : forall n m, shape (fst (lower a n)) = shape (fst (lower a m)).
Proof.
  induction a; intros n m; cbn [lower]; try reflexivity.
  - destruct (lower a1 n) as [x1 k1] eqn:E1. destruct (lower a2 k1) as [x2 k2] eqn:E2.
    destruct (lower a1 m) as [y1 j1] eqn:E3. destruct (lower a2 j1) as [y2 j2] eqn:E4.
    cbn [fst shape]. f_equal.
    + specialize (IHa1 n m). rewrite E1, E3 in IHa1. exact IHa1.
    + specialize (IHa2 k1 j1). rewrite E2, E4 in IHa2. exact IHa2.
  - destruct (lower a1 n) as [x1 k1] eqn:E1. destruct (lower a2 k1) as [x2 k2] eqn:E2.
    destruct (lower a1 m) as [y1 j1] eqn:E3. destruct (lower a2 j1) as [y2 j2] eqn:E4.
    cbn [fst shape]. f_equal.
    + specialize (IHa1 n m). rewrite E1, E3 in IHa1. exact IHa1.
    + specialize (IHa2 k1 j1). rewrite E2, E4 in IHa2. exact IHa2.
  - specialize (IHa n m). destruct (lower a n), (lower a m). cbn [fst shape] in *.
    congruence.
  - specialize (IHa n m). destruct (lower a n), (lower a m).
    cbn [fst shape Plus] in *. congruence.
  - specialize (IHa n m). destruct (lower a n), (lower a m).
    cbn [fst shape Opt] in *. congruence.
  - specialize (IHa n m). destruct (lower a n), (lower a m).
    cbn [fst] in *. unfold Repeat. cbn [shape]. f_equal.
    + apply shape_Times. assumption.
    + destruct hi; [apply shape_UpTo; assumption|]. cbn [shape]. congruence.
  - specialize (IHa (S n) (S m)). destruct (lower a (S n)), (lower a (S m)).
    cbn [fst shape] in *. congruence.
Qed.

Lemma lower_matches U a n m s rest :
  Matches U (fst (lower a n)) s rest <-> Matches U (fst (lower a m)) s rest.
Proof.
  split; intros H; eapply matches_shape; eauto using shape_lower.
Qed.

Lemma anchor_free_shape r : anchor_free (shape r) = anchor_free r.
Proof. induction r; cbn [shape anchor_free]; congruence. Qed.

Lemma lower_anchor_free a n m :
  anchor_free (fst (lower a n)) = anchor_free (fst (lower a m)).
Proof.
  rewrite <- (anchor_free_shape (fst (lower a n))), (shape_lower a n m).
  apply anchor_free_shape.
Qed.

(* ------------------------------------------------------ group index ranges *)
Lemma in_groups_Times g k x : In g (groups_of (Times k x)) -> In g (groups_of x).
Proof.
  induction k; cbn [Times groups_of]; [contradiction|].
  intros H. apply in_app_or in H as [H|H]; auto.
Qed.
Lemma in_groups_UpTo g k x : In g (groups_of (UpTo k x)) -> In g (groups_of x).
Proof.
  induction k; cbn [UpTo groups_of]; [contradiction|].
  intros H. apply in_app_or in H as [H|H]; [|contradiction].
  apply in_app_or in H as [H|H]; auto.
Qed.

Lemma lower_range a : forall n r n',
  lower a n = (r, n') ->
  (n <= n')%nat /\
  forall i nm, In (i, nm) (groups_of r) -> (n <= i < n')%nat.
Proof.
  induction a; intros n r n' H; cbn [lower] in H.
  - injection H as <- <-. split; [lia|]. contradiction.
  - injection H as <- <-. split; [lia|]. contradiction.
  - destruct (lower a1 n) as [x1 k1] eqn:E1. destruct (lower a2 k1) as [x2 k2] eqn:E2.
    injection H as <- <-. destruct (IHa1 _ _ _ E1) as [L1 R1].
    destruct (IHa2 _ _ _ E2) as [L2 R2]. split; [lia|].
    intros i nm Hin. cbn [groups_of] in Hin. apply in_app_or in Hin as [Hin|Hin].
    + specialize (R1 _ _ Hin). lia.
    + specialize (R2 _ _ Hin). lia.
  - destruct (lower a1 n) as [x1 k1] eqn:E1. destruct (lower a2 k1) as [x2 k2] eqn:E2.
    injection H as <- <-. destruct (IHa1 _ _ _ E1) as [L1 R1].
    destruct (IHa2 _ _ _ E2) as [L2 R2]. split; [lia|].
    intros i nm Hin. cbn [groups_of] in Hin. apply in_app_or in Hin as [Hin|Hin].
    + specialize (R1 _ _ Hin). lia.
    + specialize (R2 _ _ Hin). lia.
  - destruct (lower a n) as [x k] eqn:E. injection H as <- <-.
    destruct (IHa _ _ _ E) as [L R]. split; [lia|]. exact R.
  - destruct (lower a n) as [x k] eqn:E. injection H as <- <-.
    destruct (IHa _ _ _ E) as [L R]. split; [lia|].
    intros i nm Hin. cbn [Plus groups_of] in Hin.
    apply in_app_or in Hin as [Hin|Hin]; eauto.
  - destruct (lower a n) as [x k] eqn:E. injection H as <- <-.
    destruct (IHa _ _ _ E) as [L R]. split; [lia|].
    intros i nm Hin. cbn [Opt groups_of] in Hin.
    apply in_app_or in Hin as [Hin|Hin]; [eauto|contradiction].
  - destruct (lower a n) as [x k] eqn:E. injection H as <- <-.
    destruct (IHa _ _ _ E) as [L R]. split; [lia|].
    intros i nm Hin. unfold Repeat in Hin. cbn [groups_of] in Hin.
    apply in_app_or in Hin as [Hin|Hin].
    + apply in_groups_Times in Hin. eauto.
    + destruct hi; [apply in_groups_UpTo in Hin|cbn [groups_of] in Hin]; eauto.
  - destruct (lower a (S n)) as [x k] eqn:E. injection H as <- <-.
    destruct (IHa _ _ _ E) as [L R]. split; [lia|].
    intros i nm Hin. cbn [groups_of] in Hin. destruct Hin as [Hin|Hin].
    + injection Hin as <- _. lia.
    + specialize (R _ _ Hin). lia.
  - injection H as <- <-. split; [lia|]. contradiction.
  - injection H as <- <-. split; [lia|]. contradiction.
Qed.

(* ------------------------------------------- captures-annotated inversions *)
Section CapsInv.
  Variable U : uclass.
  Notation MatchesC := (MatchesC U).

  Lemma seqC_inv a b s rest c c' :
    MatchesC (Seq a b) s rest c c' ->
    exists s1 s2 c1, s = s1 ++ s2 /\ MatchesC a s1 (s2 ++ rest) c c1 /\
                     MatchesC b s2 rest c1 c'.
  Proof. intros H. inversion H; subst. eauto 8. Qed.

  Lemma clsC_inv neg items s rest c c' :
    MatchesC (Cls neg items) s rest c c' ->
    exists ch, s = [ch] /\ cls_match U neg items ch = true /\ c' = c.
  Proof. intros H. inversion H; subst. eauto. Qed.

  Lemma groupC_inv i nm a s rest c c' :
    MatchesC (Group i nm a) s rest c c' ->
    exists c0, c' = (i, s) :: c0 /\ MatchesC a s rest c c0.
  Proof. intros H. inversion H; subst. eauto. Qed.

  Lemma endzC_inv s rest c c' :
    MatchesC EndZ s rest c c' -> s = [] /\ rest = [] /\ c' = c.
  Proof. intros H. inversion H; subst. auto. Qed.

  Lemma epsC_inv s rest c c' : MatchesC Eps s rest c c' -> s = [] /\ c' = c.
  Proof. intros H. inversion H; subst. auto. Qed.

  (* a parse writes only the groups of the expression *)
  Lemma caps_frame r s rest c c' :
    MatchesC r s rest c c' ->
    forall i, (forall nm, ~ In (i, nm) (groups_of r)) -> cap_get i c' = cap_get i c.
  Proof.
    induction 1; intros j Hj; try reflexivity.
    - rewrite IHMatchesC2, IHMatchesC1; [reflexivity| |];
        intros nm Hin; apply (Hj nm); cbn [groups_of]; apply in_or_app; auto.
    - apply IHMatchesC. intros nm Hin. apply (Hj nm). cbn [groups_of].
      apply in_or_app; auto.
    - apply IHMatchesC. intros nm Hin. apply (Hj nm). cbn [groups_of].
      apply in_or_app; auto.
    - rewrite IHMatchesC2, IHMatchesC1; [reflexivity| |]; assumption.
    - cbn [cap_get]. destruct (Nat.eqb j i) eqn:E.
      + apply Nat.eqb_eq in E. subst j. exfalso. apply (Hj nm). left. reflexivity.
      + apply IHMatchesC. intros nm' Hin. apply (Hj nm'). right. assumption.
  Qed.
End CapsInv.

Lemma chr_match U c x : cls_match U false [IChr c] x = true <-> x = c.
Proof.
  unfold cls_match. cbn [existsb item_match]. rewrite orb_false_r.
  destruct (x =? c) eqn:E; cbn [xorb].
  - apply Z.eqb_eq in E. split; auto.
  - apply Z.eqb_neq in E. split; [discriminate|contradiction].
Qed.

Lemma name_index_ok gs :
  names_ok gs = true -> forall i nm, In (i, Some nm) gs -> name_index nm gs = Some i.
Proof.
  induction gs as [|[j [x|]] gs IH]; cbn [names_ok name_index]; intros Hok i nm Hin.
  - contradiction.
  - apply andb_true_iff in Hok as [H1 H2]. destruct Hin as [E|Hin].
    + injection E as -> ->. rewrite lz_eqb_refl. reflexivity.
    + destruct (lz_eqb nm x) eqn:E.
      * apply lz_eqb_eq in E. subst x.
        rewrite forallb_forall in H1. specialize (H1 _ Hin). cbn in H1.
        rewrite lz_eqb_refl in H1. cbn [negb orb] in H1.
        apply Nat.eqb_eq in H1. subst. reflexivity.
      * apply IH; assumption.
  - destruct Hin as [E|Hin]; [discriminate|]. apply IH; assumption.
Qed.

Lemma Forall2_imp {A B} (P Q : A -> B -> Prop) l1 l2 :
  (forall a b, P a b -> Q a b) -> Forall2 P l1 l2 -> Forall2 Q l1 l2.
Proof. intros H. induction 1; constructor; auto. Qed.

(* ================================================== the language of a route *)
Section Lang.
  Variable U : uclass.
  Variable F : ftab.
  Notation Matches := (Matches U).
  Notation MatchesC := (MatchesC U).

  (* a parse of the compiled expression is a reading of the path as literal
     text and filter-accepted segments; the group of each <name> holds its
     segment; nothing follows the path *)
  Lemma build_sem ps : forall a,
    s_build F ps = Some a -> forall n r n', lower a n = (r, n') ->
    forall s rest c c', MatchesC r s rest c c' ->
      rest = [] /\
      exists vs, Segments U F ps s vs /\
        Forall2 (fun nm v => exists i, In (i, Some nm) (groups_of r) /\
                                       cap_get i c' = Some v)
                (grp_names ps) vs /\
        (forall i, (i < n)%nat -> cap_get i c' = cap_get i c).
  Proof.
    induction ps as [|[ch|nm filt] ps IH]; intros a Hb n r n' Hl s rest c c' Hm;
      cbn [s_build] in Hb.
    - injection Hb as <-. cbn [lower] in Hl. injection Hl as <- <-.
      apply seqC_inv in Hm as (s1 & s2 & c1 & -> & H1 & H2).
      apply endzC_inv in H1 as (-> & H1 & ->).
      apply epsC_inv in H2 as (-> & ->). cbn [List.app] in H1. subst rest.
      split; [reflexivity|]. exists []. repeat split; constructor.
    - destruct (is_meta ch); [discriminate|].
      destruct (s_build F ps) as [b|] eqn:Eb; [|discriminate].
      injection Hb as <-. cbn [lower] in Hl.
      destruct (lower b n) as [rb nb] eqn:Elb. injection Hl as <- <-.
      apply seqC_inv in Hm as (s1 & s2 & c1 & -> & H1 & H2).
      apply clsC_inv in H1 as (x & -> & Hx & ->). apply chr_match in Hx. subst x.
      destruct (IH b eq_refl n rb nb Elb s2 rest c c' H2) as (Hr & vs & Hs & Hf & Hk).
      split; [assumption|]. exists vs. repeat split.
      + cbn [List.app]. constructor. assumption.
      + cbn [grp_names]. eapply Forall2_imp; [|exact Hf].
        intros nm v (i & Hin & Hc). exists i. split; [|assumption].
        cbn [groups_of]. assumption.
      + assumption.
    - destruct (name_ok nm); [|discriminate].
      destruct (regex_of F filt) as [ft|] eqn:Er; [|discriminate].
      destruct (parse_sre ft) as [af|] eqn:Ep; [|discriminate].
      destruct (anchor_free (fst (lower af 0))) eqn:Ea; [|discriminate].
      destruct (s_build F ps) as [b|] eqn:Eb; [|discriminate].
      injection Hb as <-. cbn [lower] in Hl.
      destruct (lower af (S n)) as [ra na] eqn:Ela.
      destruct (lower b na) as [rb nb] eqn:Elb. injection Hl as <- <-.
      apply seqC_inv in Hm as (s1 & s2 & c1 & -> & H1 & H2).
      apply groupC_inv in H1 as (c0 & -> & H1).
      destruct (IH b eq_refl na rb nb Elb s2 rest _ c' H2) as (Hr & vs & Hs & Hf & Hk).
      destruct (lower_range af (S n) ra na Ela) as [La Ra].
      split; [assumption|]. exists (s1 :: vs). repeat split.
      + constructor; [|assumption]. exists ft, af. repeat split; try assumption.
        apply matchesC_erase in H1.
        apply (lower_matches U af (S n) 0). rewrite Ela. cbn [fst].
        eapply matches_ctx_indep; [exact H1|].
        rewrite <- Ea. pose proof (lower_anchor_free af (S n) 0) as Q.
        rewrite Ela in Q. exact Q.
      + cbn [grp_names]. constructor.
        * exists n. split; [cbn [groups_of]; left; reflexivity|].
          rewrite Hk by lia. cbn [cap_get]. rewrite Nat.eqb_refl. reflexivity.
        * eapply Forall2_imp; [|exact Hf].
          intros nm' v (i & Hin & Hc). exists i. split; [|assumption].
          cbn [groups_of]. right. apply in_or_app. right. assumption.
      + intros i Hi. rewrite Hk by lia. cbn [cap_get].
        replace (Nat.eqb i n) with false by (symmetry; apply Nat.eqb_neq; lia).
        eapply caps_frame; [exact H1|]. intros nm' Hin.
        specialize (Ra _ _ Hin). lia.
  Qed.

  (* conversely every such reading is matched by the compiled expression *)
  Lemma build_complete ps : forall a,
    s_build F ps = Some a -> forall n p vs,
    Segments U F ps p vs -> Matches (fst (lower a n)) p [].
  Proof.
    induction ps as [|[ch|nm filt] ps IH]; intros a Hb n p vs Hs;
      cbn [s_build] in Hb.
    - injection Hb as <-. inversion Hs; subst. cbn [lower fst].
      apply (MSeq U EndZ Eps [] [] []); constructor.
    - destruct (is_meta ch); [discriminate|].
      destruct (s_build F ps) as [b|] eqn:Eb; [|discriminate].
      injection Hb as <-.
      inversion Hs as [|c0 ps0 p0 vs0 Hs'|]; subst. cbn [lower].
      destruct (lower b n) as [rb nb] eqn:Elb. cbn [fst].
      apply (MSeq U _ rb [ch] p0 []).
      + constructor. apply chr_match. reflexivity.
      + specialize (IH b eq_refl n p0 vs Hs'). rewrite Elb in IH. exact IH.
    - destruct (name_ok nm); [|discriminate].
      destruct (regex_of F filt) as [ft|] eqn:Er; [|discriminate].
      destruct (parse_sre ft) as [af|] eqn:Ep; [|discriminate].
      destruct (anchor_free (fst (lower af 0))) eqn:Ea; [|discriminate].
      destruct (s_build F ps) as [b|] eqn:Eb; [|discriminate].
      injection Hb as <-.
      inversion Hs as [| |nm0 filt0 ps0 v p0 vs0 Hfa Hs']; subst. cbn [lower].
      destruct (lower af (S n)) as [ra na] eqn:Ela.
      destruct (lower b na) as [rb nb] eqn:Elb. cbn [fst].
      destruct Hfa as (ft' & af' & Er' & Ep' & Hv).
      rewrite Er in Er'. injection Er' as <-. rewrite Ep in Ep'.
      injection Ep' as <-.
      apply (MSeq U _ rb v p0 []).
      + constructor.
        assert (Q : Matches (fst (lower af (S n))) v (p0 ++ [])).
        { apply (lower_matches U af (S n) 0).
          eapply matches_ctx_indep; [exact Hv|exact Ea]. }
        rewrite Ela in Q. exact Q.
      + specialize (IH b eq_refl na p0 vs0 Hs'). rewrite Elb in IH. exact IH.
  Qed.

  (* the heart: a <name:filter> route matches exactly the paths that consist
     of its literal text and filter-accepted segments, whole path *)
  Theorem route_language uri r n p :
    compile_route U F uri = Some (r, n) ->
    (accepts U r p = true <-> InRoute U F uri p).
  Proof.
    unfold compile_route, InRoute, finish_regex. intros H.
    destruct (has_group (scan_uri U uri)); [|discriminate].
    destruct (s_build F (scan_uri U uri)) as [a|] eqn:Eb; [|discriminate].
    destruct (lower a 0) as [r0 n0] eqn:El.
    destruct (names_ok (groups_of r0)); [|discriminate].
    injection H as <- <-. rewrite accepts_correct. split.
    - intros Hm. destruct (matches_annotate U _ _ _ Hm []) as (c' & Hc).
      destruct (build_sem _ a Eb 0%nat r0 n0 El p [] [] c' Hc) as (_ & vs & Hs & _).
      exists vs. assumption.
    - intros (vs & Hs). pose proof (build_complete _ a Eb 0%nat p vs Hs) as Q.
      rewrite El in Q. exact Q.
  Qed.

  (* pattern.match (anchored at the start only) decides the same language:
     the expression ends in \Z *)
  Lemma s_build_anchored ps a n :
    s_build F ps = Some a -> forall s rest,
    Matches (fst (lower a n)) s rest -> rest = [].
  Proof.
    intros Hb s rest Hm.
    destruct (matches_annotate U _ _ _ Hm []) as (c' & Hc).
    destruct (lower a n) as [r n'] eqn:El.
    destruct (build_sem _ a Hb n r n' El s rest [] c' Hc) as (Hr & _).
    exact Hr.
  Qed.

  Theorem route_language_match uri r n p :
    compile_route U F uri = Some (r, n) ->
    (re_match U r p <> None <-> InRoute U F uri p).
  Proof.
    intros H. rewrite <- (route_language uri r n p H), accepts_correct,
      re_match_some_iff.
    unfold compile_route, finish_regex in H.
    destruct (has_group (scan_uri U uri)); [|discriminate].
    destruct (s_build F (scan_uri U uri)) as [a|] eqn:Eb; [|discriminate].
    destruct (lower a 0) as [r0 n0] eqn:El.
    destruct (names_ok (groups_of r0)); [|discriminate].
    injection H as <- <-. split.
    - intros (s1 & s2 & -> & Hm).
      assert (s2 = []).
      { eapply (s_build_anchored _ a 0%nat Eb). rewrite El. exact Hm. }
      subst s2. rewrite app_nil_r. assumption.
    - intros Hm. exists p, []. split; [symmetry; apply app_nil_r|assumption].
  Qed.

  Lemma converters_names ps : forall cvs,
    converters F ps = Ok cvs -> map fst cvs = grp_names ps.
  Proof.
    induction ps as [|[ch|nm filt] ps IH]; intros cvs H; cbn [converters] in H.
    - injection H as <-. reflexivity.
    - cbn [grp_names]. auto.
    - destruct (conv_of F filt); [|discriminate].
      destruct (converters F ps) as [l|]; [|discriminate].
      injection H as <-. cbn [map fst grp_names]. f_equal. auto.
  Qed.

  Lemma convert_all_segs r c : forall cvs vs,
    Forall2 (fun nm v => group_by_name r c nm = Some v) (map fst cvs) vs ->
    convert_all U r c cvs = convert_segs U cvs vs.
  Proof.
    induction cvs as [|[g cv] cvs IH]; intros vs Hf; cbn [map] in Hf;
      inversion Hf; subst; cbn [convert_all convert_segs]; [reflexivity|].
    cbn [fst] in *. rewrite H1.
    destruct (apply_conv U cv y); try reflexivity.
    rewrite (IH l' H3). reflexivity.
  Qed.

  (* the handler's arguments: converter i applied to segment i, in
     declaration order, under the declared names *)
  Theorem captures_by_name uri r n cvs p c rest :
    compile_route U F uri = Some (r, n) ->
    converters F (scan_uri U uri) = Ok cvs ->
    re_match U r p = Some (c, rest) ->
    exists vs,
      rest = [] /\ Segments U F (scan_uri U uri) p vs /\
      map fst cvs = grp_names (scan_uri U uri) /\
      convert_all U r c cvs = convert_segs U cvs vs.
  Proof.
    unfold compile_route, finish_regex. intros H Hc Hm.
    destruct (has_group (scan_uri U uri)); [|discriminate].
    destruct (s_build F (scan_uri U uri)) as [a|] eqn:Eb; [|discriminate].
    destruct (lower a 0) as [r0 n0] eqn:El.
    destruct (names_ok (groups_of r0)) eqn:En; [|discriminate].
    injection H as <- <-.
    apply re_match_sound in Hm as (s1 & -> & Hm).
    destruct (build_sem _ a Eb 0%nat r0 n0 El s1 rest [] c Hm)
      as (-> & vs & Hs & Hf & _).
    exists vs. rewrite app_nil_r. repeat split; try assumption.
    - apply converters_names. assumption.
    - apply convert_all_segs. rewrite (converters_names _ _ Hc).
      eapply Forall2_imp; [|exact Hf].
      intros nm v (i & Hin & Hg). unfold group_by_name.
      rewrite (name_index_ok _ En _ _ Hin). assumption.
  Qed.
End Lang.

(* ====================================== text pipeline = structured compiler *)
(* What the code does is build a pattern *text* and hand it to re.compile.
   [compile_bridge]: whenever the structured compiler accepts a route,
   parsing that text gives exactly the structured expression, so that
   [route_language] and [captures_by_name] speak about the pattern the
   application stores. *)
Lemma meta_facts c :
  is_meta c = false ->
  (c =? 36) = false /\ (c =? 40) = false /\ (c =? 41) = false /\
  (c =? 42) = false /\ (c =? 43) = false /\ (c =? 46) = false /\
  (c =? 63) = false /\ (c =? 91) = false /\ (c =? 92) = false /\
  (c =? 123) = false /\ (c =? 124) = false.
Proof.
  unfold is_meta. intros H.
  repeat match type of H with
         | (_ || _) = false => apply orb_false_iff in H as [H ?]
         end.
  repeat split; assumption.
Qed.

Lemma p_quant_plain a c t :
  is_quant_char c = false -> p_quant a (c :: t) = Some (a, c :: t).
Proof.
  unfold is_quant_char, p_quant. intros H.
  repeat match type of H with
         | (_ || _) = false => apply orb_false_iff in H as [H ?]
         end.
  rewrite H, H0, H1, H2. reflexivity.
Qed.

Lemma p_name_ok rest : forall nm acc,
  forallb ascii_word nm = true ->
  p_name (nm ++ 62 :: rest) acc =
  match rev acc ++ nm with
  | [] => None
  | y :: l => if ident_start y then Some (y :: l, rest) else None
  end.
Proof.
  induction nm as [|c nm IH]; intros acc Hw; cbn [List.app p_name].
  - replace (62 =? 62) with true by reflexivity. rewrite app_nil_r.
    destruct (rev acc); reflexivity.
  - cbn [forallb] in Hw. apply andb_true_iff in Hw as [H1 H2].
    destruct (c =? 62) eqn:E.
    + apply Z.eqb_eq in E. subst c. discriminate.
    + rewrite H1, (IH _ H2). cbn [rev]. rewrite <- app_assoc. reflexivity.
Qed.

Lemma p_seq_S f t :
  p_seq (S f) t =
  if at_stop t then Some (SEps, t)
  else match p_atom f t with
       | Some (a, t1) =>
           match p_quant a t1 with
           | Some (q, t2) =>
               match p_seq f t2 with
               | Some (b, t3) => Some (SSeq q b, t3)
               | None => None
               end
           | None => None
           end
       | None => None
       end.
Proof. reflexivity. Qed.

Lemma p_atom_S f c t1 :
  p_atom (S f) (c :: t1) =
  if c =? 40 then
    match p_ghead t1 with
    | Some (g, t2) =>
        match p_alt f t2 with
        | Some (a, t3) =>
            match t3 with
            | d :: t4 =>
                if d =? 41 then
                  Some (match g with GCap nm => SGroup nm a | GNon => a end, t4)
                else None
            | [] => None
            end
        | None => None
        end
    | None => None
    end
  else p_simple c t1.
Proof. reflexivity. Qed.

Section Bridge.
  Variable F : ftab.

  Lemma s_build_text ps : forall a,
    s_build F ps = Some a -> exists t, compile_parts F ps = Ok t.
  Proof.
    induction ps as [|[ch|nm filt] ps IH]; intros a H; cbn [s_build] in H;
      cbn [compile_parts].
    - eauto.
    - destruct (is_meta ch); [discriminate|].
      destruct (s_build F ps) as [b|]; [|discriminate].
      destruct (IH b eq_refl) as [t ->]. eauto.
    - destruct (name_ok nm); [|discriminate].
      destruct (regex_of F filt); [|discriminate].
      destruct (parse_sre a0); [|discriminate].
      destruct (anchor_free _); [|discriminate].
      destruct (s_build F ps) as [b|]; [|discriminate].
      destruct (IH b eq_refl) as [t ->]. eauto.
  Qed.

  (* the text of a route never starts with a quantifier *)
  Lemma compile_head ps a t :
    s_build F ps = Some a -> compile_parts F ps = Ok t ->
    exists c t', t = c :: t' /\ is_quant_char c = false.
  Proof.
    destruct ps as [|[ch|nm filt] ps]; cbn [s_build compile_parts]; intros H1 H2.
    - injection H2 as <-. eauto.
    - destruct (is_meta ch) eqn:M; [discriminate|].
      destruct (compile_parts F ps); [|discriminate]. injection H2 as <-.
      exists ch, a0. split; [reflexivity|].
      destruct (meta_facts ch M) as (_ & _ & _ & A & B & _ & C & _ & _ & D & _).
      unfold is_quant_char. rewrite A, B, C, D. reflexivity.
    - destruct (regex_of F filt); [|discriminate].
      destruct (compile_parts F ps); [|discriminate]. injection H2 as <-.
      cbn. eauto.
  Qed.

  Lemma parse_sre_alt t a :
    parse_sre t = Some a -> p_alt (parse_fuel t) t = Some (a, []).
  Proof.
    unfold parse_sre. destruct (p_alt (parse_fuel t) t) as [[b [|c r]]|];
      try discriminate. intros H. injection H as <-. reflexivity.
  Qed.

  Lemma bridge_seq ps : forall a t,
    s_build F ps = Some a -> compile_parts F ps = Ok t ->
    forall f, (3 * List.length t + 2 <= f)%nat -> p_seq f t = Some (a, []).
  Proof.
    induction ps as [|[ch|nm filt] ps IH]; intros a t Hb Hc f Hf.
    - cbn [s_build compile_parts] in *. injection Hb as <-. injection Hc as <-.
      cbn [List.length] in Hf.
      destruct f as [|[|[|f]]]; try lia. reflexivity.
    - cbn [s_build compile_parts] in *.
      destruct (is_meta ch) eqn:M; [discriminate|].
      destruct (s_build F ps) as [b|] eqn:Eb; [|discriminate].
      destruct (compile_parts F ps) as [t'|] eqn:Ec; [|discriminate].
      injection Hb as <-. injection Hc as <-. cbn [List.length] in Hf.
      destruct f as [|[|f]]; try lia.
      destruct (meta_facts ch M) as (A1 & A2 & A3 & A4 & A5 & A6 & A7 & A8 & A9 & A10 & A11).
      destruct (compile_head ps b t' Eb Ec) as (c & t'' & -> & Hq).
      rewrite p_seq_S. cbn [at_stop]. rewrite A3, A11. cbn [orb].
      rewrite p_atom_S, A2.
      unfold p_simple. rewrite A8, A9, A6, A1, M.
      rewrite (p_quant_plain _ _ _ Hq).
      rewrite (IH b _ eq_refl eq_refl (S f)); [reflexivity|].
      cbn [List.length] in *. lia.
    - cbn [s_build compile_parts] in *.
      destruct (name_ok nm) eqn:Nm; [|discriminate].
      destruct (regex_of F filt) as [ft|] eqn:Er; [|discriminate].
      destruct (parse_sre ft) as [af|] eqn:Ep; [|discriminate].
      destruct (anchor_free (fst (lower af 0))); [|discriminate].
      destruct (s_build F ps) as [b|] eqn:Eb; [|discriminate].
      destruct (compile_parts F ps) as [t'|] eqn:Ec; [|discriminate].
      injection Hb as <-. injection Hc as <-.
      destruct (compile_head ps b t' Eb Ec) as (c & t'' & -> & Hq).
      change (s2l "(?P<") with [40; 63; 80; 60] in *.
      repeat (cbn [List.length] in Hf; rewrite ?app_length in Hf).
      destruct f as [|[|f]]; try lia.
      cbn [List.app].
      rewrite p_seq_S. cbn [at_stop].
      replace ((40 =? 41) || (40 =? 124)) with false by reflexivity.
      rewrite p_atom_S. replace (40 =? 40) with true by reflexivity.
      unfold p_ghead.
      replace (63 =? 63) with true by reflexivity.
      replace (80 =? 58) with false by reflexivity.
      replace (80 =? 80) with true by reflexivity.
      replace (60 =? 60) with true by reflexivity.
      (* the name *)
      unfold name_ok in Nm. destruct nm as [|y nm]; [discriminate|].
      apply andb_true_iff in Nm as [N1 N2].
      assert (Hw : forallb ascii_word (y :: nm) = true).
      { cbn [forallb]. rewrite N2, andb_true_r.
        unfold ident_start in N1. unfold ascii_word.
        apply orb_true_iff in N1 as [N1|N1];
          [apply orb_true_iff in N1 as [N1|N1]|]; rewrite N1;
          rewrite ?orb_true_r; reflexivity. }
      change ((y :: nm) ++ [62] ++ ft ++ [41] ++ c :: t'')
        with ((y :: nm) ++ 62 :: ft ++ 41 :: c :: t'').
      rewrite (p_name_ok _ _ [] Hw). cbn [rev List.app]. rewrite N1.
      (* the filter expression, read inside the parentheses *)
      apply parse_sre_alt in Ep.
      rewrite (p_alt_ext (c :: t'') (parse_fuel ft) ft af [] f Ep);
        [|unfold parse_fuel; lia].
      cbn [List.app]. replace (41 =? 41) with true by reflexivity.
      rewrite (p_quant_plain _ _ _ Hq).
      rewrite (IH b _ eq_refl eq_refl (S f)); [reflexivity|].
      cbn [List.length] in *. lia.
  Qed.

  Theorem bridge_parts ps a :
    s_build F ps = Some a ->
    exists t, compile_parts F ps = Ok t /\ parse_sre t = Some a.
  Proof.
    intros Hb. destruct (s_build_text ps a Hb) as [t Ht]. exists t.
    split; [assumption|]. unfold parse_sre, parse_fuel.
    replace (3 * List.length t + 3)%nat with (S (3 * List.length t + 2)) by lia.
    cbn [p_alt]. rewrite (bridge_seq ps a t Hb Ht); [reflexivity|lia].
  Qed.
End Bridge.

Theorem compile_bridge U F uri r n :
  compile_route U F uri = Some (r, n) ->
  exists t, compile_text U F uri = Ok t /\ parse_regex t = Some (r, n).
Proof.
  unfold compile_route, compile_text, parse_regex. intros H.
  destruct (has_group (scan_uri U uri)); [|discriminate].
  destruct (s_build F (scan_uri U uri)) as [a|] eqn:Eb; [|discriminate].
  destruct (bridge_parts F _ a Eb) as (t & Ht & Hp).
  exists t. rewrite Hp. auto.
Qed.

(* ============================================================== end to end *)
Lemma pat_update_absent text mask e ps :
  pat_mem text ps = false -> pat_update text mask e ps = ps.
Proof.
  induction ps as [|p ps IH]; cbn [pat_mem pat_update]; [reflexivity|].
  intros H. apply orb_false_iff in H as [H1 H2]. rewrite H1, (IH H2).
  reflexivity.
Qed.

Lemma pat_update_snoc text mask e ps p :
  pat_mem text ps = false -> p_text p = text ->
  pat_update text mask e (ps ++ [p]) =
  ps ++ [mkPat (p_text p) (p_re p) (p_n p) (fan mask e meths (p_tab p))].
Proof.
  induction ps as [|q ps IH]; cbn [pat_mem List.app pat_update]; intros H E.
  - rewrite E, lz_eqb_refl. reflexivity.
  - apply orb_false_iff in H as [H1 H2]. rewrite H1, (IH H2 E). reflexivity.
Qed.

Lemma has_group_names ps : has_group ps = true -> grp_names ps <> [].
Proof.
  induction ps as [|[c|nm filt] ps IH]; cbn [has_group existsb is_grp grp_names].
  - discriminate.
  - exact IH.
  - discriminate.
Qed.

Section EndToEnd.
  Variable U : uclass.

  (* A <name:filter> route registered (as a new pattern) on an application
     a: a request whose method is among the route's and that no static
     route and no earlier pattern claims runs the route's handler exactly
     when the path is in the route's language, and then with the
     converters applied to the segments; otherwise the route is passed
     over. *)
  Theorem group_route_dispatch a uri f mask a' r n cvs t :
    compile_route U (a_filters a) uri = Some (r, n) ->
    compile_text U (a_filters a) uri = Ok t ->
    converters (a_filters a) (scan_uri U uri) = Ok cvs ->
    pat_mem t (a_pats a) = false ->
    set_route U a uri f mask = Ok a' ->
    forall debug root fs method raw,
      let m := method_number method in
      let path := req_path raw in
      lget path (a_static a) = None ->
      (forall q, In q (a_pats a) ->
                 ~ (MatchesPrefix U (p_re q) path /\ zmem m (p_tab q) = true)) ->
      existsb (Z.eqb m) meths = true -> has_bit mask m = true ->
      (InRoute U (a_filters a) uri path ->
       exists vs,
         Segments U (a_filters a) (scan_uri U uri) path vs /\
         select U a' debug root fs method raw =
         match convert_segs U cvs vs with
         | Ok pargs => SHandler f (map snd pargs) pargs uri
         | Raised "raise" => SConvError
         | Raised _ => SUnknown
         end) /\
      (~ InRoute U (a_filters a) uri path ->
       select U a' debug root fs method raw = fallback a' debug root fs m path).
  Proof.
    intros Hc Ht Hv Hnew Hs debug root fs method raw m path Hst Hearlier Hm Hb.
    destruct (compile_bridge U _ uri r n Hc) as (t' & Ht' & Hp).
    rewrite Ht in Ht'. injection Ht' as <-.
    assert (Hg : has_group (scan_uri U uri) = true).
    { unfold compile_route in Hc. destruct (has_group (scan_uri U uri));
        [reflexivity|discriminate]. }
    unfold set_route in Hs. rewrite Hg in Hs. unfold compile_text in Ht.
    rewrite Ht, Hv in Hs. unfold set_regular in Hs. rewrite Hp, Hnew in Hs.
    injection Hs as <-.
    set (e := mkPE f cvs (Some uri)).
    set (p := mkPat t r n (fan mask e meths [])).
    assert (Hpats : pat_update t mask e (a_pats a ++ [mkPat t r n []]) =
                    a_pats a ++ [p]).
    { rewrite pat_update_snoc by (assumption || reflexivity). reflexivity. }
    assert (He : zget m (p_tab p) = Some e).
    { cbn [p p_tab]. rewrite zget_fan, Hm, Hb. reflexivity. }
    assert (Huri : exists x u, uri = x :: u).
    { destruct uri as [|x u]; [discriminate|]. eauto. }
    assert (Hcv : exists cv0 cvs0, cvs = cv0 :: cvs0).
    { pose proof (converters_names _ _ _ Hv) as Hn.
      pose proof (has_group_names _ Hg) as Hne.
      destruct cvs as [|cv0 cvs0]; [cbn in Hn; congruence|]. eauto. }
    split.
    - intros Hin.
      assert (Hpre : MatchesPrefix U r path).
      { apply re_match_some_iff.
        apply (route_language_match U (a_filters a) uri r n path Hc). assumption. }
      destruct (first_pattern_wins U
                  (mkApp (a_static a) (pat_update t mask e (a_pats a ++ [mkPat t r n []]))
                         (a_defaults a) (a_filters a))
                  debug root fs method raw (a_pats a) p [] e Hst Hpats Hearlier
                  Hpre He)
        as (c & rest & Hmatch & Hsel).
      destruct (captures_by_name U (a_filters a) uri r n cvs path c rest Hc Hv Hmatch)
        as (vs & -> & Hseg & _ & Hconv).
      exists vs. split; [assumption|]. rewrite Hsel. unfold run_entry.
      cbn [p e pe_rule pe_convs pe_fun p_re p_text].
      destruct Huri as (x & u & ->). destruct Hcv as (cv0 & cvs0 & ->).
      rewrite Hconv. reflexivity.
    - intros Hnot. apply no_route_fallback; [assumption|].
      cbn [a_pats]. rewrite Hpats. intros q Hq [Hq1 Hq2].
      apply in_app_or in Hq as [Hq|[<-|[]]].
      + apply (Hearlier q Hq). auto.
      + apply Hnot.
        apply (route_language_match U (a_filters a) uri r n path Hc).
        apply re_match_some_iff. exact Hq1.
  Qed.
End EndToEnd.

(* ================================================================= examples *)
(* non-vacuity of the hypotheses above, and the trailing-newline question:
   with \Z at the end of the generated pattern "/i/12\n" is NOT in the
   language of /i/<n:int> (it was with "$"); a segment may contain a
   newline only where its filter lets one through ([^/]+ does). *)
Definition U0 : uclass := mkU (fun _ => false) (fun _ => false) (fun _ => false)
                              (fun _ => 0).

Example int_route_newline : forall U,
  exists r n,
    compile_route U init_filters (s2l "/i/<n:int>") = Some (r, n) /\
    re_match U r (s2l "/i/12") <> None /\
    re_match U r (s2l "/i/12" ++ [10]) = None /\
    re_match U r (s2l "/i/12/") = None /\
    re_match U r (s2l "/I/12") = None.
Proof.
  intros U. eexists. eexists. split; [vm_compute; reflexivity|].
  repeat split; vm_compute; try reflexivity. discriminate.
Qed.

Example dollar_accepts_newline :
  match parse_regex (s2l "/i/(?P<n>-?\d+)$") with
  | Some (r, _) => re_match U0 r (s2l "/i/12" ++ [10]) <> None
  | None => False
  end.
Proof. vm_compute. discriminate. Qed.

Example inline_case_preserved : forall U,
  compile_text U init_filters (s2l "/r/<v:re:[A-Z]+\S>") =
  Ok (s2l "/r/(?P<v>[A-Z]+\S)\Z").
Proof. intros U. vm_compute. reflexivity. Qed.

Example float_int_route : forall U,
  exists r n cvs,
    compile_route U init_filters (s2l "/f/<x:float>/<y:int>") = Some (r, n) /\
    converters init_filters (scan_uri U (s2l "/f/<x:float>/<y:int>")) = Ok cvs /\
    match re_match U r (s2l "/f/1.5/3") with
    | Some (c, _) =>
        convert_all U r c cvs =
        Ok [(s2l "x", VFloat 3 2); (s2l "y", VInt 3)]
    | None => False
    end.
Proof.
  intros U. eexists. eexists. eexists.
  split; [vm_compute; reflexivity|]. split; [vm_compute; reflexivity|].
  vm_compute. reflexivity.
Qed.

(* a table meeting the hypotheses of first_pattern_wins with a skipped
   pattern (it matches but lacks the method) *)
Example precedence_example :
  let '(a, _) := exec U0 init_app
      [OpRegular (s2l "/a/\w+") 1 4;           (* POST only *)
       OpRoute (s2l "/a/<n>") 2 3;             (* HEAD|GET *)
       OpRoute (s2l "/a/b") 3 4;               (* static, POST only *)
       OpRoute (s2l "/a/<n>") 4 256] in        (* same pattern, PATCH *)
  select U0 a false false FsNone (s2l "GET") (s2l "/a/x") =
    SHandler 2 [VStr (s2l "x")] [(s2l "n", VStr (s2l "x"))] (s2l "/a/<n>") /\
  select U0 a false false FsNone (s2l "POST") (s2l "/a/x") =
    SHandler 1 [] [] (s2l "/a/\w+") /\
  select U0 a false false FsNone (s2l "GET") (s2l "/a/b") = S405 /\
  select U0 a false false FsNone (s2l "PATCH") (s2l "/a/x") =
    SHandler 4 [VStr (s2l "x")] [(s2l "n", VStr (s2l "x"))] (s2l "/a/<n>") /\
  select U0 a false false FsNone (s2l "BREW") (s2l "/a/x") =
    select U0 a false false FsNone (s2l "GET") (s2l "/a/x") /\
  select U0 a false false FsNone (s2l "PUT") (s2l "/a/x") = S404 /\
  map p_text (a_pats a) = [s2l "/a/\w+"; s2l "/a/(?P<n>[^/]+)\Z"].
Proof. vm_compute. repeat split. Qed.
