(* Proofs about model/Routing.v (C02). *)
From Coq Require Import ZArith List Bool Lia String.
Require Import PW.lib.Val PW.lib.ValFacts PW.model.Regex PW.proofs.RegexProofs
        PW.model.Routing.
Import ListNotations.
Open Scope string_scope.
Open Scope list_scope.
Open Scope Z_scope.

(* ================================================================ selection *)
Section Sel.
  Variable U : uclass.

  Lemma zmem_get {A} m (t : list (Z * A)) :
    zmem m t = true <-> exists e, zget m t = Some e.
  Proof.
    unfold zmem. destruct (zget m t) as [e|].
    - split; eauto.
    - split; [discriminate|intros [e H]; discriminate].
  Qed.

  Lemma eligible_iff m path p :
    eligible U m path p = true <->
    re_match U (p_re p) path <> None /\ zget m (p_tab p) <> None.
  Proof.
    unfold eligible. rewrite andb_true_iff, re_match_agrees. unfold zmem.
    destruct (zget m (p_tab p)); split; intros [H1 H2]; split; auto;
      try discriminate; try congruence.
  Qed.

  (* the loop of handler_from_table finds the first eligible pattern *)
  Lemma select_pat_find m path ps :
    select_pat U m path ps =
    match find (eligible U m path) ps with
    | Some p =>
        match re_match U (p_re p) path, zget m (p_tab p) with
        | Some (c, _), Some e => Some (run_entry U p e c)
        | _, _ => Some S404
        end
    | None => None
    end.
  Proof.
    induction ps as [|p ps IH]; cbn [select_pat find]; [reflexivity|].
    destruct (eligible U m path p) eqn:E.
    - apply eligible_iff in E as [E1 E2].
      destruct (re_match U (p_re p) path) as [[c rest]|]; [|congruence].
      destruct (zget m (p_tab p)); [reflexivity|congruence].
    - rewrite <- IH.
      destruct (re_match U (p_re p) path) as [[c rest]|] eqn:E1; [|reflexivity].
      destruct (zget m (p_tab p)) eqn:E2; [|reflexivity].
      exfalso. assert (eligible U m path p = true); [|congruence].
      apply eligible_iff. rewrite E1, E2. split; discriminate.
  Qed.

  Theorem select_precedence a debug root fs method raw :
    select U a debug root fs method raw =
    select_spec U a debug root fs method raw.
  Proof.
    unfold select, select_spec.
    destruct (lget (req_path raw) (a_static a)); [reflexivity|].
    rewrite select_pat_find.
    destruct (find _ (a_pats a)) as [p|] eqn:Ef.
    - apply find_some in Ef as [_ Ef]. apply eligible_iff in Ef as [E1 E2].
      destruct (re_match U (p_re p) (req_path raw)) as [[c rest]|]; [|congruence].
      destruct (zget (method_number method) (p_tab p)); [reflexivity|congruence].
    - unfold fallback, debug_or_default, from_default.
      destruct (root && has_bit (method_number method) 3); [destruct fs|];
        reflexivity.
  Qed.

  (* ---------------------------------------------------------- corollaries *)
  Theorem static_beats_pattern a debug root fs method raw mt :
    lget (req_path raw) (a_static a) = Some mt ->
    select U a debug root fs method raw =
    match zget (method_number method) mt with
    | Some h => SHandler h [] [] (req_path raw)
    | None => S405
    end.
  Proof. intros H. unfold select. rewrite H. reflexivity. Qed.

  Theorem method_mismatch_falls_through m path p rest :
    zget m (p_tab p) = None ->
    select_pat U m path (p :: rest) = select_pat U m path rest.
  Proof.
    intros H. cbn [select_pat]. rewrite H.
    destruct (re_match U (p_re p) path) as [[c r]|]; reflexivity.
  Qed.

  Lemma select_pat_skip m path l1 l2 :
    (forall q, In q l1 ->
               ~ (MatchesPrefix U (p_re q) path /\ zmem m (p_tab q) = true)) ->
    select_pat U m path (l1 ++ l2) = select_pat U m path l2.
  Proof.
    induction l1 as [|q l1 IH]; intros H; [reflexivity|].
    cbn [List.app select_pat].
    assert (Hq := H q (or_introl eq_refl)).
    assert (IH' : select_pat U m path (l1 ++ l2) = select_pat U m path l2).
    { apply IH. intros q' Hin. apply H. right. assumption. }
    destruct (re_match U (p_re q) path) as [[c r]|] eqn:E; [|assumption].
    destruct (zget m (p_tab q)) eqn:E2; [|assumption].
    exfalso. apply Hq. split.
    - apply re_match_some_iff. congruence.
    - unfold zmem. rewrite E2. reflexivity.
  Qed.

  (* the first pattern, in registration order, that matches the path and is
     registered for the method is the one that runs, with the captures of
     CPython's first parse *)
  Theorem first_pattern_wins a debug root fs method raw l1 p l2 e :
    let m := method_number method in
    let path := req_path raw in
    lget path (a_static a) = None ->
    a_pats a = l1 ++ p :: l2 ->
    (forall q, In q l1 ->
               ~ (MatchesPrefix U (p_re q) path /\ zmem m (p_tab q) = true)) ->
    MatchesPrefix U (p_re p) path ->
    zget m (p_tab p) = Some e ->
    exists c rest,
      re_match U (p_re p) path = Some (c, rest) /\
      select U a debug root fs method raw = run_entry U p e c.
  Proof.
    intros m path Hs Hp Hskip Hm He.
    apply re_match_some_iff in Hm.
    destruct (re_match U (p_re p) path) as [[c rest]|] eqn:E; [|congruence].
    exists c, rest. split; [reflexivity|].
    unfold select. fold m path. rewrite Hs, Hp, select_pat_skip by assumption.
    cbn [select_pat]. rewrite E, He. reflexivity.
  Qed.

  (* no pattern eligible: the fallback chain *)
  Theorem no_route_fallback a debug root fs method raw :
    let m := method_number method in
    let path := req_path raw in
    lget path (a_static a) = None ->
    (forall q, In q (a_pats a) ->
               ~ (MatchesPrefix U (p_re q) path /\ zmem m (p_tab q) = true)) ->
    select U a debug root fs method raw = fallback a debug root fs m path.
  Proof.
    intros m path Hs Hn. rewrite select_precedence. unfold select_spec.
    fold m path. rewrite Hs.
    destruct (find (eligible U m path) (a_pats a)) as [p|] eqn:Ef; [|reflexivity].
    apply find_some in Ef as [Hin Ef]. exfalso. apply (Hn p Hin).
    unfold eligible in Ef. apply andb_true_iff in Ef as [E1 E2].
    split; [apply accepts_prefix_correct|]; assumption.
  Qed.

  Theorem unknown_method_is_get a debug root fs tok raw :
    lget tok method_table = None ->
    select U a debug root fs tok raw = select U a debug root fs (s2l "GET") raw.
  Proof.
    intros H. unfold select.
    replace (method_number tok) with (method_number (s2l "GET"));
      [reflexivity|].
    unfold method_number. rewrite H. reflexivity.
  Qed.
End Sel.

(* ------------------------------------------------------------ registration *)
Lemma zget_zset {A} b k (x : A) d :
  zget b (zset k x d) = if b =? k then Some x else zget b d.
Proof.
  induction d as [|[k' v'] d IH]; cbn [zset zget].
  - destruct (b =? k); reflexivity.
  - destruct (k =? k') eqn:E; cbn [zget].
    + apply Z.eqb_eq in E. subst k'. destruct (b =? k); reflexivity.
    + destruct (b =? k') eqn:E2.
      * apply Z.eqb_eq in E2. subst k'.
        replace (b =? k) with false; [reflexivity|].
        symmetry. rewrite Z.eqb_sym. assumption.
      * apply IH.
Qed.

(* the fan-out over method bits *)
Lemma zget_fan {A} b mask (x : A) ms : forall d,
  zget b (fan mask x ms d) =
  if existsb (Z.eqb b) ms && has_bit mask b then Some x else zget b d.
Proof.
  induction ms as [|k ms IH]; intros d; cbn [fan existsb]; [reflexivity|].
  rewrite IH. destruct (existsb (Z.eqb b) ms && has_bit mask b) eqn:E.
  - apply andb_true_iff in E as [E1 E2]. rewrite E1, orb_true_r, E2.
    reflexivity.
  - destruct (b =? k) eqn:Ek.
    + apply Z.eqb_eq in Ek. subst k. cbn [orb andb].
      destruct (has_bit mask b) eqn:Hb.
      * rewrite zget_zset, Z.eqb_refl. reflexivity.
      * reflexivity.
    + cbn [orb]. rewrite E.
      destruct (has_bit mask k); [|reflexivity].
      rewrite zget_zset, Ek. reflexivity.
Qed.

Lemma pat_update_texts text mask e ps :
  map p_text (pat_update text mask e ps) = map p_text ps.
Proof.
  induction ps as [|p ps IH]; cbn [pat_update map]; [reflexivity|].
  destruct (lz_eqb text (p_text p)); cbn [map p_text]; [reflexivity|].
  rewrite IH. reflexivity.
Qed.

(* registering a pattern again (for more methods) keeps its place; a new
   pattern goes to the end; nobody else moves *)
Theorem reregistration_keeps_position a text f mask cvs rule a' :
  set_regular a text f mask cvs rule = Ok a' ->
  map p_text (a_pats a') =
  if pat_mem text (a_pats a) then map p_text (a_pats a)
  else map p_text (a_pats a) ++ [text].
Proof.
  unfold set_regular. destruct (parse_regex text) as [[r n]|]; [|discriminate].
  intros H. injection H as <-. cbn [a_pats]. rewrite pat_update_texts.
  destruct (pat_mem text (a_pats a)); [reflexivity|].
  rewrite map_app. reflexivity.
Qed.

(* ... and the method table found under a key changes only for the key
   named, and there only at the bits of the mask *)
Fixpoint pat_get (t : list Z) (ps : list pat) : option pat :=
  match ps with
  | [] => None
  | p :: r => if lz_eqb t (p_text p) then Some p else pat_get t r
  end.

Lemma pat_get_update text mask e t ps :
  pat_get t (pat_update text mask e ps) =
  match pat_get t ps with
  | Some p =>
      Some (if lz_eqb text t
            then mkPat (p_text p) (p_re p) (p_n p) (fan mask e meths (p_tab p))
            else p)
  | None => None
  end.
Proof.
  induction ps as [|p ps IH]; cbn [pat_update pat_get]; [reflexivity|].
  destruct (lz_eqb text (p_text p)) eqn:E; cbn [pat_get p_text].
  - apply lz_eqb_eq in E. destruct (lz_eqb t (p_text p)) eqn:E2.
    + apply lz_eqb_eq in E2. rewrite E, E2, lz_eqb_refl. reflexivity.
    + destruct (pat_get t ps); [|reflexivity].
      replace (lz_eqb text t) with false; [reflexivity|].
      symmetry. apply lz_eqb_neq. apply lz_eqb_neq in E2. congruence.
  - destruct (lz_eqb t (p_text p)) eqn:E2; [|apply IH].
    apply lz_eqb_eq in E2. subst t. rewrite E. reflexivity.
Qed.

Lemma pat_get_snoc t ps p :
  pat_get t (ps ++ [p]) =
  match pat_get t ps with
  | Some q => Some q
  | None => if lz_eqb t (p_text p) then Some p else None
  end.
Proof.
  induction ps as [|q ps IH]; cbn [List.app pat_get]; [reflexivity|].
  destruct (lz_eqb t (p_text q)); [reflexivity|apply IH].
Qed.

Lemma pat_mem_get t ps : pat_mem t ps = true <-> pat_get t ps <> None.
Proof.
  induction ps as [|p ps IH]; cbn [pat_mem pat_get].
  - split; [discriminate|congruence].
  - destruct (lz_eqb t (p_text p)); cbn [orb]; [|assumption].
    split; [discriminate|reflexivity].
Qed.

(* after set_regular_route(text, f, mask): the handler registered under
   (key, method bit) *)
Definition handler_at (a : app) (key : list Z) (b : Z) : option Z :=
  match pat_get key (a_pats a) with
  | Some p => match zget b (p_tab p) with
              | Some e => Some (pe_fun e)
              | None => None
              end
  | None => None
  end.

Theorem set_regular_exact a text f mask cvs rule a' :
  set_regular a text f mask cvs rule = Ok a' ->
  forall key b,
    handler_at a' key b =
    if lz_eqb text key && existsb (Z.eqb b) meths && has_bit mask b
    then Some f else handler_at a key b.
Proof.
  unfold set_regular. destruct (parse_regex text) as [[r n]|]; [|discriminate].
  intros H key b. injection H as <-. unfold handler_at. cbn [a_pats].
  rewrite pat_get_update.
  destruct (pat_mem text (a_pats a)) eqn:M.
  - destruct (pat_get key (a_pats a)) as [p|] eqn:G.
    + destruct (lz_eqb text key); cbn [andb p_tab]; [|reflexivity].
      rewrite zget_fan.
      destruct (existsb (Z.eqb b) meths && has_bit mask b); reflexivity.
    + destruct (lz_eqb text key) eqn:E; [|reflexivity].
      apply lz_eqb_eq in E. subst key. apply pat_mem_get in M. congruence.
  - rewrite pat_get_snoc. cbn [p_text].
    destruct (pat_get key (a_pats a)) as [p|] eqn:G.
    + replace (lz_eqb text key) with false; [reflexivity|].
      symmetry. apply lz_eqb_neq. intros ->.
      assert (pat_mem key (a_pats a) = true); [|congruence].
      apply pat_mem_get. congruence.
    + destruct (lz_eqb key text) eqn:E.
      * apply lz_eqb_eq in E. subst key. rewrite lz_eqb_refl.
        cbn [andb p_tab]. rewrite zget_fan. cbn [zget].
        destruct (existsb (Z.eqb b) meths && has_bit mask b); reflexivity.
      * replace (lz_eqb text key) with false; [reflexivity|].
        symmetry. apply lz_eqb_neq. apply lz_eqb_neq in E. congruence.
Qed.

(* uniqueness of keys is an invariant of the table *)
Fixpoint texts_unique (ps : list pat) : bool :=
  match ps with
  | [] => true
  | p :: r => negb (pat_mem (p_text p) r) && texts_unique r
  end.

Lemma pat_mem_update text mask e t ps :
  pat_mem t (pat_update text mask e ps) = pat_mem t ps.
Proof.
  induction ps as [|p ps IH]; cbn [pat_update pat_mem]; [reflexivity|].
  destruct (lz_eqb text (p_text p)); cbn [pat_mem p_text]; [reflexivity|].
  rewrite IH. reflexivity.
Qed.

Lemma pat_mem_app t l1 l2 : pat_mem t (l1 ++ l2) = pat_mem t l1 || pat_mem t l2.
Proof.
  induction l1 as [|p l1 IH]; cbn [List.app pat_mem]; [reflexivity|].
  rewrite IH, orb_assoc. reflexivity.
Qed.

Lemma texts_unique_update text mask e ps :
  texts_unique (pat_update text mask e ps) = texts_unique ps.
Proof.
  induction ps as [|p ps IH]; cbn [pat_update texts_unique]; [reflexivity|].
  destruct (lz_eqb text (p_text p)); cbn [texts_unique p_text].
  - reflexivity.
  - rewrite pat_mem_update, IH. reflexivity.
Qed.

Lemma texts_unique_snoc ps p :
  texts_unique ps = true -> pat_mem (p_text p) ps = false ->
  texts_unique (ps ++ [p]) = true.
Proof.
  induction ps as [|q ps IH]; intros Hu Hm; cbn [List.app texts_unique pat_mem] in *.
  - reflexivity.
  - apply andb_true_iff in Hu as [H1 H2]. apply orb_false_iff in Hm as [M1 M2].
    rewrite pat_mem_app. cbn [pat_mem]. rewrite orb_false_r.
    apply andb_true_iff. split; [|apply IH; assumption].
    apply negb_true_iff. apply orb_false_iff. split.
    + apply negb_true_iff in H1. assumption.
    + apply lz_eqb_neq. apply lz_eqb_neq in M1. congruence.
Qed.

Theorem set_regular_unique a text f mask cvs rule a' :
  texts_unique (a_pats a) = true ->
  set_regular a text f mask cvs rule = Ok a' ->
  texts_unique (a_pats a') = true.
Proof.
  unfold set_regular. destruct (parse_regex text) as [[r n]|]; [|discriminate].
  intros Hu H. injection H as <-. cbn [a_pats]. rewrite texts_unique_update.
  destruct (pat_mem text (a_pats a)) eqn:E; [assumption|].
  apply texts_unique_snoc; assumption.
Qed.
