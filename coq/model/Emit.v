(* Hand model: a response object answers at most once (C01/C05/C06).

   poorwsgi/response.py BaseResponse.__call__: the object carries a private
   flag (`self.__done`, False after construction).  Calling the object
   (what Application.__call__ does with the value of the handler) emits --
   start_response(status, headers) through __start_response__, then the body
   iterable of __end_of_response__ -- only when the flag is still False, and
   sets the flag in EVERY outcome (the `finally`), also when emission raises.
   Every later call raises RuntimeError('Response can be used only once!')
   and touches nothing.

   The two emission steps are abstract effects on the rest of the state
   [St] (the object's other attributes and the world: the log of
   start_response calls, the position of the file object, ...):
     start  : __start_response__(start_response)  -- new state, may raise
     finish : __end_of_response__()               -- new state, body or raise
   Modelling assumption: these two do not touch the flag (it is a
   name-mangled private attribute of BaseResponse, written only by __init__
   and __call__). *)
From Coq Require Import List Bool String.
Import ListNotations.
Open Scope string_scope.

Section Emit.
  Variables St X B : Type.
  Variable start : St -> St * option X.
  Variable finish : St -> St * (B + X).

  Inductive exn := RuntimeError (msg : string) | Effect (x : X).
  Inductive result := Answer (b : B) | Fails (e : exn).
  Record obj := { done : bool; rest : St }.

  Definition used_twice : exn := RuntimeError "Response can be used only once!".

  (* one emission: start_response, then the body *)
  Definition emit (s : St) : St * result :=
    match start s with
    | (s1, Some x) => (s1, Fails (Effect x))
    | (s1, None) =>
        match finish s1 with
        | (s2, inl b) => (s2, Answer b)
        | (s2, inr x) => (s2, Fails (Effect x))
        end
    end.

  Definition call_once (o : obj) : obj * result :=
    if done o then (o, Fails used_twice)
    else let (s, r) := emit (rest o) in ({| done := true; rest := s |}, r).

  (* n calls in a row on the same object *)
  Fixpoint calls (n : nat) (o : obj) : obj * list result :=
    match n with
    | O => (o, [])
    | S k => let (o1, r) := call_once o in
             let (o2, rs) := calls k o1 in (o2, r :: rs)
    end.

  Lemma calls_done : forall n o, done o = true ->
    calls n o = (o, repeat (Fails used_twice) n).
  Proof.
    induction n as [|n IH]; intros o H; [reflexivity|].
    cbn [calls repeat]. unfold call_once. rewrite H. rewrite (IH o H).
    reflexivity.
  Qed.

  (* for every number of calls on a fresh object: exactly the first one
     emits (the state afterwards is the state after ONE emission), every
     later one raises RuntimeError, whatever the first one did *)
  Theorem answers_once : forall n s,
    calls (S n) {| done := false; rest := s |}
    = ({| done := true; rest := fst (emit s) |},
       snd (emit s) :: repeat (Fails used_twice) n).
  Proof.
    intros n s. cbn [calls]. unfold call_once. cbn [done rest].
    destruct (emit s) as [s1 r]. rewrite calls_done by reflexivity.
    reflexivity.
  Qed.

  (* Declined.__call__: no start_response call, the empty iterable, the
     object (flag included) untouched -- it may be called again *)
  Definition declined_call (o : obj) : obj := o.
End Emit.

Arguments RuntimeError {X}.
Arguments Effect {X}.
Arguments Answer {X B}.
Arguments Fails {X B}.
Arguments used_twice {X}.
Arguments done {St}.
Arguments rest {St}.
Arguments Build_obj {St}.
