(* Model of the header codecs of poorwsgi/headers.py (C18).

   str = list Z (code points).  A Python exception is [Raised name]; a
   try/except is [catch].  Dicts are association lists in insertion order.

   Part 1  parse_range (value.split("="), RE_BYTES_RANGE.findall, int) and
           the writer of range sets the property quantifies over.
   Part 2  time_to_http / http_to_time: civil calendar arithmetic (Howard
           Hinnant's days_from_civil / civil_from_days over Z with floor
           division) and the fixed English names of "%a, %d %b %Y %X GMT"
           in the C locale.
   Part 3  parse_negotiation / render_negotiation; float and str of the
           q-value are parameters of the section.
   Part 4  _parseparam, parse_header, wsgiref.headers._formatparam and the
           "; ".join of Headers.add_header.

   Restrictions (stated once, used by the check's generators):
   * \d of the regex and int() are modelled for ASCII digits only; any other
     code point is a non-digit (Python also takes the other Unicode Nd
     characters for digits).
   * int() of a digit run longer than 4300 characters raises ValueError
     (CPython's default sys.get_int_max_str_digits()).
   * str.lower() is modelled for U+0000..U+00FF (header values are
     ISO-8859-1 strings); above that it is the identity.
   * strptime is modelled as the strict reader of exactly what strftime
     writes (strptime itself also accepts other letter case, one-digit
     fields and extra blanks: trusted, not modelled). *)
From Coq Require Import ZArith List Bool String.
Require Import PW.lib.Val PW.lib.Dec.
Import ListNotations.
Open Scope string_scope.
Open Scope list_scope.
Open Scope Z_scope.

(* ------------------------------------------------------------ outcomes *)
Inductive outcome (A : Type) : Type :=
  | Ok (a : A)
  | Raised (e : string).
Arguments Ok {A} a.
Arguments Raised {A} e.

Definition bind {A B} (o : outcome A) (f : A -> outcome B) : outcome B :=
  match o with Ok a => f a | Raised e => Raised e end.

(* try: o  except (names): h *)
Definition catch {A} (o : outcome A) (names : list string) (h : outcome A)
  : outcome A :=
  match o with
  | Ok a => Ok a
  | Raised e => if existsb (String.eqb e) names then h else Raised e
  end.

(* ------------------------------------------------------- str primitives *)
Definition len (s : list Z) : Z := Z.of_nat (List.length s).

(* s.split(c) for a one-character separator: never the empty list *)
Fixpoint split_on (sep : Z) (s : list Z) : list (list Z) :=
  match s with
  | [] => [[]]
  | c :: r =>
      if c =? sep then [] :: split_on sep r
      else match split_on sep r with
           | h :: t => (c :: h) :: t
           | [] => [[c]]
           end
  end.

(* sep.join(l) *)
Fixpoint join (sep : list Z) (l : list (list Z)) : list Z :=
  match l with
  | [] => []
  | x :: t => match t with [] => x | _ :: _ => x ++ sep ++ join sep t end
  end.

(* ================================================================ Part 1 *)
(* maximal run of ASCII digits at the head of s, and the rest *)
Fixpoint span_digits (s : list Z) : list Z * list Z :=
  match s with
  | c :: r => if is_digit c
              then let (d, t) := span_digits r in (c :: d, t)
              else ([], s)
  | [] => ([], [])
  end.

(* RE_BYTES_RANGE (two groups of "\d*" around '-', then an optional ',')
   anchored at the head of s.  The digit groups are greedy;
   giving digits back can never make '-' match, so the match exists iff the
   maximal run is followed by '-'.  Result: the two groups and what follows
   the match. *)
Definition match_at (s : list Z) : option ((list Z * list Z) * list Z) :=
  let (d1, r1) := span_digits s in
  match r1 with
  | c :: r2 =>
      if c =? 45 then
        let (d2, r3) := span_digits r2 in
        let r4 := match r3 with
                  | c' :: r => if c' =? 44 then r else r3
                  | [] => r3
                  end in
        Some ((d1, d2), r4)
      else None
  | [] => None
  end.

(* findall: leftmost match from the current position, else one character
   further; a match is never empty (it contains '-'), so the search resumes
   where the match ended.  Fuel: one step per character plus the final
   attempt at the end of the string. *)
Fixpoint findall_fuel (fuel : nat) (s : list Z) : list (list Z * list Z) :=
  match fuel with
  | O => []
  | S f =>
      match match_at s with
      | Some (m, rest) => m :: findall_fuel f rest
      | None => match s with
                | [] => []
                | _ :: r => findall_fuel f r
                end
      end
  end.
Definition findall (s : list Z) : list (list Z * list Z) :=
  findall_fuel (S (List.length s)) s.

(* int(s) for a non-empty run of ASCII digits *)
Definition max_str_digits : Z := 4300.
Definition int_digits (s : list Z) : outcome Z :=
  if max_str_digits <? len s then Raised "ValueError" else Ok (val s).

(* int(x) if x else None *)
Definition opt_int (s : list Z) : outcome (option Z) :=
  match s with
  | [] => Ok None
  | _ :: _ => bind (int_digits s) (fun n => Ok (Some n))
  end.

Definition is_nil (s : list Z) : bool :=
  match s with [] => true | _ :: _ => false end.

Definition range_t : Type := (option Z * option Z)%type.

(* the for loop of parse_range *)
Fixpoint build_ranges (ms : list (list Z * list Z)) : outcome (list range_t) :=
  match ms with
  | [] => Ok []
  | (s, e) :: ms' =>
      if is_nil s && is_nil e then build_ranges ms'      (* continue *)
      else bind (opt_int s) (fun a =>
           bind (opt_int e) (fun b =>
           bind (build_ranges ms') (fun r => Ok ((a, b) :: r))))
  end.

Definition range_dict : Type := list (list Z * list range_t).

Definition parse_range_body (value : list Z) : outcome range_dict :=
  match split_on 61 value with
  | [unit; pairs] =>
      bind (build_ranges (findall pairs)) (fun r => Ok [(unit, r)])
  | _ => Raised "ValueError"        (* unit, pairs = ... : wrong count *)
  end.

Definition parse_range (value : list Z) : outcome range_dict :=
  catch (parse_range_body value) ["ValueError"] (Ok []).

(* the writer: units=first-last,first-,-suffix *)
Definition int_ok (n : Z) : Prop := 0 <= n < 10 ^ max_str_digits.
Definition wf_range (r : range_t) : Prop :=
  match r with
  | (Some a, Some b) => int_ok a /\ int_ok b
  | (Some a, None) => int_ok a
  | (None, Some b) => int_ok b
  | (None, None) => False
  end.

Definition opt_dec (o : option Z) : list Z :=
  match o with Some n => dec n | None => [] end.
Definition render_item (r : range_t) : list Z :=
  opt_dec (fst r) ++ [45] ++ opt_dec (snd r).
Definition render_ranges (units : list Z) (rs : list range_t) : list Z :=
  units ++ [61] ++ join [44] (map render_item rs).

(* str(ContentRange(start, end, full, units)); full = None is "*" *)
Definition content_range (units : list Z) (first last : Z) (full : option Z)
  : list Z :=
  units ++ [32] ++ dec first ++ [45] ++ dec last ++ [47] ++
  match full with Some n => dec n | None => [42] end.

(* ================================================================ Part 2 *)
Definition civil_from_days (z0 : Z) : Z * Z * Z :=
  let z := z0 + 719468 in
  let era := z / 146097 in
  let doe := z - era * 146097 in
  let yoe := (doe - doe / 1460 + doe / 36524 - doe / 146096) / 365 in
  let y := yoe + era * 400 in
  let doy := doe - (365 * yoe + yoe / 4 - yoe / 100) in
  let mp := (5 * doy + 2) / 153 in
  let d := doy - (153 * mp + 2) / 5 + 1 in
  let m := if mp <? 10 then mp + 3 else mp - 9 in
  (if m <=? 2 then y + 1 else y, m, d).

Definition days_from_civil (y0 m d : Z) : Z :=
  let y := if m <=? 2 then y0 - 1 else y0 in
  let era := y / 400 in
  let yoe := y - era * 400 in
  let doy := (153 * (if 2 <? m then m - 3 else m + 9) + 2) / 5 + d - 1 in
  let doe := yoe * 365 + yoe / 4 - yoe / 100 + doy in
  era * 146097 + doe - 719468.

Definition is_leap (y : Z) : bool :=
  (y mod 4 =? 0) && (negb (y mod 100 =? 0) || (y mod 400 =? 0)).

Definition days_in_month (y m : Z) : Z :=
  if m =? 2 then (if is_leap y then 29 else 28)
  else if (m =? 4) || (m =? 6) || (m =? 9) || (m =? 11) then 30
  else 31.

Definition wd_names : list (list Z) :=
  map s2l ["Sun"; "Mon"; "Tue"; "Wed"; "Thu"; "Fri"; "Sat"].
Definition mon_names : list (list Z) :=
  map s2l ["Jan"; "Feb"; "Mar"; "Apr"; "May"; "Jun";
           "Jul"; "Aug"; "Sep"; "Oct"; "Nov"; "Dec"].

Definition name_at (i : Z) (names : list (list Z)) : list Z :=
  nth (Z.to_nat i) names [].

Definition pad2 (n : Z) : list Z := [48 + n / 10; 48 + n mod 10].
Definition pad4 (n : Z) : list Z :=
  [48 + n / 1000; 48 + n / 100 mod 10; 48 + n / 10 mod 10; 48 + n mod 10].

Definition max_time : Z := 253402300800.      (* 10000-01-01T00:00:00Z *)
Definition min_time : Z := -62135596800.      (* 0001-01-01T00:00:00Z *)

(* datetime.fromtimestamp(int(t), utc).strftime("%a, %d %b %Y %X GMT").
   glibc writes years below 1000 without leading zeros: the model is claimed
   for t >= -30610224000 (year 1000) only. *)
Definition time_to_http (t : Z) : outcome (list Z) :=
  if (max_time <=? t) || (t <? min_time) then Raised "ValueError" else
  let days := t / 86400 in
  let sod := t mod 86400 in
  let '(y, m, d) := civil_from_days days in
  let wd := (days + 4) mod 7 in
  Ok (name_at wd wd_names ++ s2l ", " ++ pad2 d ++ [32] ++
      name_at (m - 1) mon_names ++ [32] ++ pad4 y ++ [32] ++
      pad2 (sod / 3600) ++ [58] ++ pad2 (sod mod 3600 / 60) ++ [58] ++
      pad2 (sod mod 60) ++ s2l " GMT").

(* readers of the pieces; None = "does not match format" *)
Fixpoint is_prefix (p s : list Z) : option (list Z) :=
  match p with
  | [] => Some s
  | a :: p' => match s with
               | b :: s' => if a =? b then is_prefix p' s' else None
               | [] => None
               end
  end.

Fixpoint take_name_from (i : Z) (names : list (list Z)) (s : list Z)
  : option (Z * list Z) :=
  match names with
  | [] => None
  | n :: names' => match is_prefix n s with
                   | Some r => Some (i, r)
                   | None => take_name_from (i + 1) names' s
                   end
  end.
Definition take_name := take_name_from 0.

Definition take2 (s : list Z) : option (Z * list Z) :=
  match s with
  | a :: b :: r => if is_digit a && is_digit b
                   then Some (10 * (a - 48) + (b - 48), r) else None
  | _ => None
  end.

Definition take4 (s : list Z) : option (Z * list Z) :=
  match take2 s with
  | Some (hi, r) => match take2 r with
                    | Some (lo, r') => Some (100 * hi + lo, r')
                    | None => None
                    end
  | None => None
  end.

Definition obind {A B} (o : option A) (f : A -> option B) : option B :=
  match o with Some a => f a | None => None end.

(* the fields (weekday index, day, month 1..12, year, H, M, S) *)
Definition read_http_date (s : list Z) : option (Z * Z * Z * Z * Z * Z * Z) :=
  obind (take_name wd_names s) (fun '(wd, s) =>
  obind (is_prefix (s2l ", ") s) (fun s =>
  obind (take2 s) (fun '(d, s) =>
  obind (is_prefix [32] s) (fun s =>
  obind (take_name mon_names s) (fun '(mi, s) =>
  obind (is_prefix [32] s) (fun s =>
  obind (take4 s) (fun '(y, s) =>
  obind (is_prefix [32] s) (fun s =>
  obind (take2 s) (fun '(hh, s) =>
  obind (is_prefix [58] s) (fun s =>
  obind (take2 s) (fun '(mm, s) =>
  obind (is_prefix [58] s) (fun s =>
  obind (take2 s) (fun '(ss, s) =>
  obind (is_prefix (s2l " GMT") s) (fun s =>
  match s with
  | [] => Some (wd, d, mi + 1, y, hh, mm, ss)
  | _ :: _ => None                          (* unconverted data remains *)
  end)))))))))))))).

(* int(datetime.strptime(v, FORMAT).replace(tzinfo=utc).timestamp());
   the weekday is read and ignored, as strptime does; the datetime
   constructor checks the ranges *)
Definition http_to_time (s : list Z) : outcome Z :=
  match read_http_date s with
  | None => Raised "ValueError"
  | Some (wd, d, m, y, hh, mm, ss) =>
      if (1 <=? y) && (1 <=? d) && (d <=? days_in_month y m) &&
         (hh <? 24) && (mm <? 60) && (ss <? 60)
      then Ok (days_from_civil y m d * 86400 + hh * 3600 + mm * 60 + ss)
      else Raised "ValueError"
  end.

(* ================================================================ Part 3 *)
(* characters str.strip() removes *)
Definition is_space (c : Z) : bool :=
  ((9 <=? c) && (c <=? 13)) || ((28 <=? c) && (c <=? 32)) ||
  (c =? 133) || (c =? 160) || (c =? 5760) ||
  ((8192 <=? c) && (c <=? 8202)) || (c =? 8232) || (c =? 8233) ||
  (c =? 8239) || (c =? 8287) || (c =? 12288).

Fixpoint lstrip (s : list Z) : list Z :=
  match s with
  | c :: r => if is_space c then lstrip r else s
  | [] => []
  end.
Definition strip (s : list Z) : list Z := rev (lstrip (rev (lstrip s))).

(* s is not changed by strip: no blank at either end *)
Definition stripped (s : list Z) : bool :=
  negb (is_space (hd 0 s)) && negb (is_space (last s 0)).

Definition cons_head (c : Z) (l : list (list Z)) : list (list Z) :=
  match l with h :: t => (c :: h) :: t | [] => [[c]] end.

(* item.split(';q=') *)
Definition is_q3 (c1 c2 c3 : Z) : bool := (c1 =? 59) && (c2 =? 113) && (c3 =? 61).
Fixpoint split_q (s : list Z) : list (list Z) :=
  match s with
  | [] => [[]]
  | c :: r =>
      match r with
      | c2 :: c3 :: r3 =>
          if is_q3 c c2 c3 then [] :: split_q r3 else cons_head c (split_q r)
      | _ => cons_head c (split_q r)
      end
  end.

(* ';q=' in s *)
Fixpoint contains_q (s : list Z) : bool :=
  match s with
  | [] => false
  | c :: r =>
      match r with
      | c2 :: c3 :: _ => is_q3 c c2 c3 || contains_q r
      | _ => false
      end
  end.

(* l[i] *)
Definition index {A} (l : list A) (i : nat) : outcome A :=
  match nth_error l i with Some a => Ok a | None => Raised "IndexError" end.

Section Negotiation.
  Variable Q : Type.
  Variable float : list Z -> outcome Q.    (* float(text) *)
  Variable str_q : Q -> list Z.            (* str(q) *)
  Variable one : Q.                        (* the literal 1.0 *)

  (* body of the for loop of parse_negotiation *)
  Definition nego_item (item : list Z) : outcome (list Z * Q) :=
    let pair := split_q item in
    bind (index pair 0) (fun p0 =>
    if lz_eqb p0 item then Ok (strip item, one)
    else
      bind (catch (bind (index pair 1) float)
                  ["IndexError"; "ValueError"] (Ok one)) (fun quality =>
      bind (index pair 0) (fun p0' => Ok (strip p0', quality)))).

  Fixpoint nego_items (items : list (list Z)) : outcome (list (list Z * Q)) :=
    match items with
    | [] => Ok []
    | i :: t => bind (nego_item i) (fun v =>
                bind (nego_items t) (fun vs => Ok (v :: vs)))
    end.

  Definition parse_negotiation (value : list Z) : outcome (list (list Z * Q)) :=
    nego_items (split_on 44 value).

  (* ';q='.join(map(str, nego)) for (name,) and (name, q) *)
  Definition render_nego_item (n : list Z * option Q) : list Z :=
    match snd n with
    | None => fst n
    | Some q => fst n ++ s2l ";q=" ++ str_q q
    end.
  Definition render_negotiation (l : list (list Z * option Q)) : list Z :=
    join (s2l ", ") (map render_nego_item l).

  (* what an item reads back as: an absent q is 1.0 *)
  Definition nego_value (n : list Z * option Q) : list Z * Q :=
    (fst n, match snd n with Some q => q | None => one end).
  Definition nego_name_ok (n : list Z) : Prop :=
    ~ In 44 n /\ contains_q n = false /\ stripped n = true.
End Negotiation.

(* Instance used by the correspondence: the q-value is its own text
   ([None] = the literal 1.0), float() accepts the plain decimal grammar
   blank* sign? (digits+ [. digits*] | . digits+) (e sign? digits+)? blank*
   (the harness installs a float with exactly this acceptance). *)
Definition is_sign (c : Z) : bool := (c =? 43) || (c =? 45).
Definition drop_sign (s : list Z) : list Z :=
  match s with c :: r => if is_sign c then r else s | [] => [] end.
Definition float_exp_ok (s : list Z) : bool :=
  match s with
  | [] => true
  | c :: r => if (c =? 101) || (c =? 69) then
                let (d, t) := span_digits (drop_sign r) in
                negb (is_nil d) && is_nil t
              else false
  end.
Definition float_ok (s0 : list Z) : bool :=
  let s := drop_sign (strip s0) in
  let (d1, r1) := span_digits s in
  match r1 with
  | c :: r2 =>
      if c =? 46 then
        let (d2, r3) := span_digits r2 in
        negb (is_nil d1 && is_nil d2) && float_exp_ok r3
      else negb (is_nil d1) && float_exp_ok r1
  | [] => negb (is_nil d1)
  end.
Definition float_tok (s : list Z) : outcome (option (list Z)) :=
  if float_ok s then Ok (Some s) else Raised "ValueError".
Definition str_tok (q : option (list Z)) : list Z :=
  match q with Some t => t | None => s2l "1.0" end.

(* ================================================================ Part 4 *)
(* s.find(c, start), 0 <= start; -1 when absent *)
Fixpoint find_from (c : Z) (s : list Z) (i start : Z) : Z :=
  match s with
  | [] => -1
  | x :: r => if (start <=? i) && (x =? c) then i
              else find_from c r (i + 1) start
  end.
Definition find (c : Z) (s : list Z) (start : Z) : Z := find_from c s 0 start.

(* s[:e] and s[b:] for 0 <= e, b *)
Definition slice_to (s : list Z) (e : Z) : list Z := firstn (Z.to_nat e) s.
Definition slice_from (s : list Z) (b : Z) : list Z := skipn (Z.to_nat b) s.

(* the inner while of _parseparam: a scan from the left.  [s] is the text
   from index [e] on, [quoted] the flag; the result is the value of [end]
   when the loop is left.  Inside a quoted string a backslash escapes the
   next character (end += 1 twice; that is len(s) + 1 when the backslash is the last
   character, which the slices below take as len(s), as Python does); a
   double quote toggles the flag; the first ';' outside quotes breaks. *)
Fixpoint scan_end (s : list Z) (quoted : bool) (e : Z) : Z :=
  match s with
  | [] => e                                        (* end < len(s) fails *)
  | c :: r =>
      if quoted && (c =? 92) then
        match r with
        | _ :: r' => scan_end r' quoted (e + 2)
        | [] => e + 2
        end
      else if c =? 34 then scan_end r (negb quoted) (e + 1)
      else if (c =? 59) && negb quoted then e      (* break *)
      else scan_end r quoted (e + 1)
  end.

(* list(_parseparam(s)); every round drops at least the leading ';' *)
Fixpoint parseparam_fuel (fuel : nat) (s : list Z) : list (list Z) :=
  match fuel with
  | O => []
  | S f =>
      match s with
      | c :: s1 =>
          if c =? 59 then
            let e := scan_end s1 false 0 in
            strip (slice_to s1 e) :: parseparam_fuel f (slice_from s1 e)
          else []
      | [] => []
      end
  end.
Definition parseparam (s : list Z) : list (list Z) :=
  parseparam_fuel (S (List.length s)) s.

(* s.replace(ab, rep) for a two-character pattern *)
Fixpoint replace2 (a b : Z) (rep : list Z) (s : list Z) : list Z :=
  match s with
  | [] => []
  | c :: r => match r with
              | d :: r' => if (c =? a) && (d =? b)
                           then rep ++ replace2 a b rep r'
                           else c :: replace2 a b rep r
              | [] => [c]
              end
  end.
(* s.replace(c, rep) for one character *)
Definition replace1 (c : Z) (rep : list Z) (s : list Z) : list Z :=
  flat_map (fun x => if x =? c then rep else [x]) s.

(* str.lower() on U+0000..U+00FF *)
Definition lower_c (c : Z) : Z :=
  if ((65 <=? c) && (c <=? 90)) ||
     ((192 <=? c) && (c <=? 222) && negb (c =? 215)) then c + 32 else c.
Definition lower (s : list Z) : list Z := map lower_c s.

Definition dict : Type := list (list Z * list Z).
Fixpoint dict_set (d : dict) (k v : list Z) : dict :=
  match d with
  | [] => [(k, v)]
  | (k', v') :: t => if lz_eqb k' k then (k', v) :: t
                     else (k', v') :: dict_set t k v
  end.

(* the value part of one parameter *)
Definition unquote (v : list Z) : list Z :=
  if (2 <=? len v) && (hd 0 v =? 34) && (last v 0 =? 34) then
    replace2 92 34 [34] (replace2 92 92 [92] (removelast (tl v)))
  else v.

(* body of the for loop of parse_header *)
Definition header_param (pdict : dict) (p : list Z) : dict :=
  let i := find 61 p 0 in
  if 0 <=? i then
    dict_set pdict (lower (strip (slice_to p i)))
             (unquote (strip (slice_from p (i + 1))))
  else pdict.

Definition parse_header (line : list Z) : outcome (list Z * dict) :=
  match parseparam (59 :: line) with
  | [] => Raised "StopIteration"                (* parts.__next__() *)
  | key :: parts => Ok (key, fold_left header_param parts [])
  end.

(* wsgiref.headers._formatparam(param, value, quote) for str values *)
Definition is_tspecial (c : Z) : bool :=
  existsb (Z.eqb c) [32; 40; 41; 60; 62; 64; 44; 59; 58; 92; 34; 47; 91; 93; 63; 61].
Definition escape (v : list Z) : list Z :=
  replace1 34 [92; 34] (replace1 92 [92; 92] v).
Definition formatparam (param : list Z) (value : option (list Z))
           (quote : bool) : list Z :=
  match value with
  | Some v =>
      if 0 <? len v then
        if quote || existsb is_tspecial v
        then param ++ [61; 34] ++ escape v ++ [34]
        else param ++ [61] ++ v
      else param
  | None => param
  end.

(* the value Headers.add_header(name, value, **kwargs) stores, for a str or
   absent value (strings are already ISO-8859-1) *)
Definition und2dash (k : list Z) : list Z :=
  map (fun c => if c =? 95 then 45 else c) k.
Definition kwarg_part (kv : list Z * option (list Z)) : list Z :=
  match snd kv with
  | None => und2dash (fst kv)
  | Some x => formatparam (und2dash (fst kv)) (Some x) true
  end.
Definition add_header_value (value : option (list Z))
           (kwargs : list (list Z * option (list Z))) : outcome (list Z) :=
  let parts := match value with Some v => [v] | None => [] end ++
               map kwarg_part kwargs in
  match parts with
  | [] => Raised "ValueError"
  | _ :: _ => Ok (join [59; 32] parts)
  end.

(* what parse_header is expected to give back for (value, kwargs) *)
Definition param_value (kv : list Z * list Z) : list Z * option (list Z) :=
  (fst kv, Some (snd kv)).
Definition key_ok (k : list Z) : Prop :=
  ~ In 61 k /\ ~ In 59 k /\ ~ In 34 k /\ ~ In 95 k /\
  lower k = k /\ stripped k = true.
Definition main_ok (v : list Z) : Prop :=
  ~ In 59 v /\ ~ In 34 v /\ stripped v = true.
(* ---------------------------------------------------- correspondence *)
Definition enc_out {A} (enc : A -> V) (o : outcome A) : V :=
  match o with Ok a => enc a | Raised e => VX e end.

Definition enc_range (r : range_t) : V := VL [VOpt (fst r); VOpt (snd r)].
Definition enc_range_dict (d : range_dict) : V :=
  VL (map (fun kv => VL [VS (fst kv); VL (map enc_range (snd kv))]) d).
Definition run_parse_range (s : list Z) : V := enc_out enc_range_dict (parse_range s).
Definition run_findall (s : list Z) : V :=
  VL (map (fun m => VL [VS (fst m); VS (snd m)]) (findall s)).
Definition run_render_ranges (units : list Z) (rs : list range_t) : V :=
  VS (render_ranges units rs).
Definition run_content_range (units : list Z) (a b : Z) (full : option Z) : V :=
  VS (content_range units a b full).

Definition run_time_to_http (t : Z) : V := enc_out VS (time_to_http t).
Definition run_http_to_time (s : list Z) : V := enc_out VZ (http_to_time s).

Definition enc_q (q : option (list Z)) : V :=
  match q with Some t => VS t | None => VN end.
Definition enc_nego (l : list (list Z * option (list Z))) : V :=
  VL (map (fun n => VL [VS (fst n); enc_q (snd n)]) l).
Definition run_parse_nego (s : list Z) : V :=
  enc_out enc_nego (parse_negotiation (option (list Z)) float_tok None s).
Definition run_render_nego (l : list (list Z * option (option (list Z)))) : V :=
  VS (render_negotiation (option (list Z)) str_tok l).

Definition enc_dict (d : dict) : V :=
  VL (map (fun kv => VL [VS (fst kv); VS (snd kv)]) d).
Definition enc_header (r : list Z * dict) : V := VL [VS (fst r); enc_dict (snd r)].
Definition run_parse_header (s : list Z) : V := enc_out enc_header (parse_header s).
Definition run_parseparam (s : list Z) : V := VL (map VS (parseparam s)).
Definition run_add_header (value : option (list Z))
           (kwargs : list (list Z * option (list Z))) : V :=
  enc_out VS (add_header_value value kwargs).
Definition run_formatparam (p : list Z) (v : option (list Z)) (q : bool) : V :=
  VS (formatparam p v q).
