(* Model of the head of Request.__init__ (poorwsgi/request.py): the request
   headers rebuilt from the CGI-style WSGI environment, and the three facts
   every body parser starts from -- media type, charset, content length.

     tmp = []
     for key, val in environ.items():
         if key[:5] == 'HTTP_':
             key = '-'.join(map(lambda x: x.capitalize(), key[5:].split('_')))
             tmp.append((key, val))
         elif key in ("CONTENT_LENGTH", "CONTENT_TYPE"):
             key = '-'.join(map(lambda x: x.capitalize(), key.split('_')))
             tmp.append((key, val))
     self.__headers = Headers(tmp, False)
     ctype, pdict = parse_header(self.__headers.get('Content-Type', ''))
     self.__mime_type = ctype
     self.__charset = pdict.get('charset', 'utf-8')
     self.__content_length = int(self.__headers.get("Content-Length") or -1)

   The environment is the list of its (key, value) pairs in dictionary order;
   keys and values are str (code points).  Modelled, not verified:
   str.capitalize / str.lower on ASCII letters (environment keys produced by
   WSGI servers are ASCII), int() on ASCII text (blanks, sign, digits with
   single underscores).  parse_header is the model of HeaderCodec.v. *)
From Coq Require Import ZArith List Bool String Ascii.
Require Import PW.lib.Val PW.model.HeaderCodec.
Import ListNotations.
Open Scope Z_scope.

Definition str := list Z.
Definition env := list (str * str).

(* ------------------------------------------------------- str primitives *)
Definition upper_c (c : Z) : Z := if (97 <=? c) && (c <=? 122) then c - 32 else c.
Definition lower_a (c : Z) : Z := if (65 <=? c) && (c <=? 90) then c + 32 else c.
Definition lower_s (s : str) : str := map lower_a s.

(* s.capitalize() *)
Definition capitalize (s : str) : str :=
  match s with [] => [] | c :: r => upper_c c :: map lower_a r end.

(* s.split(d) for a one-character separator; [cur] is the piece being read,
   reversed *)
Fixpoint split_acc (d : Z) (cur : str) (s : str) : list str :=
  match s with
  | [] => [rev cur]
  | c :: r => if c =? d then rev cur :: split_acc d [] r
              else split_acc d (c :: cur) r
  end.
Definition split (d : Z) (s : str) : list str := split_acc d [] s.

(* d.join(pieces) *)
Fixpoint join (d : str) (ps : list str) : str :=
  match ps with
  | [] => []
  | p :: r => match r with [] => p | _ => p ++ d ++ join d r end
  end.

Definition k_http : str := Eval vm_compute in s2l "HTTP_".
Definition k_clen : str := Eval vm_compute in s2l "CONTENT_LENGTH".
Definition k_ctype : str := Eval vm_compute in s2l "CONTENT_TYPE".
Definition k_path_info : str := Eval vm_compute in s2l "PATH_INFO".
Definition h_ctype : str := Eval vm_compute in s2l "Content-Type".
Definition h_clen : str := Eval vm_compute in s2l "Content-Length".
Definition s_charset : str := Eval vm_compute in s2l "charset".
Definition s_utf8 : str := Eval vm_compute in s2l "utf-8".

(* 'FOO_BAR' -> 'Foo-Bar' *)
Definition cgi_name (s : str) : str := join [45] (map capitalize (split 95 s)).

(* the header an environment key stands for, if any *)
Definition header_of_key (k : str) : option str :=
  if lz_eqb (firstn 5 k) k_http then Some (cgi_name (skipn 5 k))
  else if lz_eqb k k_clen || lz_eqb k k_ctype then Some (cgi_name k)
  else None.

Definition env_headers (e : env) : list (str * str) :=
  flat_map (fun kv => match header_of_key (fst kv) with
                      | Some h => [(h, snd kv)]
                      | None => []
                      end) e.

(* environ.get(k) *)
Fixpoint assoc (k : str) (e : env) : option str :=
  match e with
  | [] => None
  | (k', v) :: r => if lz_eqb k' k then Some v else assoc k r
  end.

(* Headers.get(name) on the table built with strict=False: the first entry
   whose name equals the asked one ignoring letter case *)
Fixpoint hget (hs : list (str * str)) (name : str) : option str :=
  match hs with
  | [] => None
  | (k, v) :: r => if lz_eqb (lower_s k) (lower_s name) then Some v
                   else hget r name
  end.

(* dict.get(k, default) on the parameter dictionary of parse_header *)
Fixpoint dgetd (d : dict) (k dflt : str) : str :=
  match d with
  | [] => dflt
  | (k', v) :: r => if lz_eqb k' k then v else dgetd r k dflt
  end.

(* ------------------------------------------------------------- int(text) *)
Definition is_ws (c : Z) : bool := (c =? 32) || ((9 <=? c) && (c <=? 13)).
Definition is_dig (c : Z) : bool := (48 <=? c) && (c <=? 57).
Fixpoint lstrip (s : str) : str :=
  match s with [] => [] | c :: r => if is_ws c then lstrip r else s end.
Definition strip (s : str) : str := rev (lstrip (rev (lstrip s))).

(* digits with single underscores between digits *)
Fixpoint int_digits (s : str) (prev_digit : bool) (acc : Z) : option Z :=
  match s with
  | [] => if prev_digit then Some acc else None
  | c :: r =>
      if is_dig c then int_digits r true (10 * acc + (c - 48))
      else if (c =? 95) && prev_digit then
        match r with
        | d :: _ => if is_dig d then int_digits r false acc else None
        | [] => None
        end
      else None
  end.

Definition py_int (s : str) : option Z :=
  match strip s with
  | 45 :: r => option_map Z.opp (int_digits r false 0)
  | 43 :: r => int_digits r false 0
  | t => int_digits t false 0
  end.

(* int(x or d) for x : Optional[str] *)
Definition int_or (o : option str) (d : Z) : outcome Z :=
  match o with
  | None => Ok d
  | Some [] => Ok d
  | Some v => match py_int v with
              | Some z => Ok z
              | None => Raised "ValueError"
              end
  end.

(* ----------------------------------------------------- the request head *)
Record facts := mkfacts {
  f_headers : list (str * str);
  f_mime : str;
  f_charset : str;
  f_clen : Z }.

Definition or_empty (o : option str) : str :=
  match o with Some v => v | None => [] end.

Definition request_head (e : env) : outcome facts :=
  match assoc k_path_info e with
  | None => Raised "ConnectionError"
  | Some _ =>
      let hs := env_headers e in
      bind (parse_header (or_empty (hget hs h_ctype))) (fun cp =>
      bind (int_or (hget hs h_clen) (-1)) (fun n =>
      Ok (mkfacts hs (fst cp) (dgetd (snd cp) s_charset s_utf8) n)))
  end.

(* ------------------------------------------------- correspondence entry *)
Definition enc_pairs (l : list (str * str)) : V :=
  VL (map (fun kv => VL [VS (fst kv); VS (snd kv)]) l).
Definition enc_facts (f : facts) : V :=
  VL [enc_pairs (f_headers f); VS (f_mime f); VS (f_charset f); VZ (f_clen f)].
Definition run_request_head (e : env) : V := enc_out enc_facts (request_head e).
Definition run_cgi_name (s : str) : V := VS (cgi_name s).
Definition run_py_int (s : str) : V :=
  match py_int s with Some z => VZ z | None => VX "ValueError" end.
